import RpmVerif.Model.FromEntries
import RpmVerif.Gen.DepCtors
import RpmVerif.Gen.BuilderSetters
/-!
# L7: the builder — model of `PackageBuilder::{prepare_data, build}` and `SignatureHeaderBuilder`

The model takes the builder *state* (what the setters and `add_data` have stored: files keyed and
sorted by cpio path as in the `BTreeMap`, directories as in the `BTreeSet`) plus the externals as
parameters: the clock `now`, the archive bytes and their SHA-256 (hex), the compressed payload and
its SHA-256 (hex). Records are produced in the order of the source; `from_entries` sorts them.
-/
namespace RpmVerif.Bld
open RpmVerif.Hdr RpmVerif.Gen

structure Dep where
  name : Bytes
  flags : Nat
  version : Bytes
  deriving DecidableEq, Repr

structure Scriptlet where
  script : Bytes
  flags : Option Nat
  prog : Option (List Bytes)
  deriving DecidableEq, Repr

/-- `PackageFileEntry` as stored by `add_data` -/
structure FileE where
  cpioPath : Bytes
  dir : Bytes
  baseName : Bytes
  size : Nat
  mode : Nat            -- raw u16 mode
  user : Bytes
  group : Bytes
  link : Bytes
  flags : Nat
  caps : Option Bytes
  verifyFlags : Nat
  mtime : Nat
  shaHex : Bytes        -- hex SHA-256 of the content, computed by `add_data`
  deriving DecidableEq, Repr

inductive Comp where
  | none | gzip (l : Nat) | zstd (l : Int) | xz (l : Nat) | bzip2 (l : Nat)
  deriving DecidableEq, Repr

structure Cfg where
  name : Bytes
  epoch : Nat
  version : Bytes
  release : Bytes
  license : Bytes
  arch : Bytes
  summary : Bytes
  desc : Option Bytes
  vendor : Option Bytes
  packager : Option Bytes
  group : Option Bytes
  url : Option Bytes
  vcs : Option Bytes
  cookie : Option Bytes
  buildHost : Option Bytes
  sourceDate : Option Nat
  files : List FileE                 -- in `BTreeMap` (cpio path) order, keys distinct
  directories : List Bytes           -- in `BTreeSet` order, distinct
  provides : List Dep
  requires : List Dep
  conflicts : List Dep
  obsoletes : List Dep
  recommends : List Dep
  suggests : List Dep
  enhances : List Dep
  supplements : List Dep
  preIn : Option Scriptlet
  postIn : Option Scriptlet
  preUn : Option Scriptlet
  postUn : Option Scriptlet
  preTrans : Option Scriptlet
  postTrans : Option Scriptlet
  preUntrans : Option Scriptlet
  postUntrans : Option Scriptlet
  verify : Option Scriptlet
  changelog : List (Bytes × Bytes × Nat)   -- (name, text, time) in insertion order
  compression : Comp
  largeFileThreshold : Nat := 4294967295   -- u32::MAX unless the verification hook overrides it
  deriving Repr

/-! ## `PackageBuilder::new` and the setters of `impl PackageBuilder` (the builder STATE as a function of the calls)

```rust
pub fn new(name: &str, version: &str, license: &str, arch: &str, summary: &str) -> Self {
    Self { name: name.to_string(), epoch: 0, version: version.to_string(), license: license.to_string(),
           arch: arch.to_string(), summary: summary.to_string(), release: "1".to_string(), ..Default::default() } }
pub fn epoch(mut self, epoch: u32) -> Self { self.epoch = epoch; self }
pub fn url(mut self, content: impl Into<String>) -> Self { self.url = Some(content.into()); self }
pub fn provides(mut self, dep: Dependency) -> Self { self.provides.push(dep); self }
pub fn pre_install_script(mut self, content: impl Into<Scriptlet>) -> Self { self.pre_inst_script = Some(content.into()); self }
```
The two literals of `new` and the (name, field, kind) rows of the setters are the generated table `Gen/BuilderSetters.lean`
(tools/gen/builder_setters.py); `modelledSetterRows` below is what `MetaSetter.apply` implements, and
`C06.builder_setters_standard` states that the two agree. `compression` starts as `CompressionWithLevel::default()`, which
depends on the cargo features: a parameter (`AddData.defaultCompression` is its model). -/

/-- `Scriptlet::new(script)` — also `impl<T: Into<String>> From<T> for Scriptlet` (a `&str` / `String` handed to a scriptlet setter) -/
def Scriptlet.new (script : Bytes) : Scriptlet := ⟨script, Option.none, Option.none⟩
/-- `Scriptlet::flags(f)` -/
def Scriptlet.withFlags (s : Scriptlet) (f : Nat) : Scriptlet := { s with flags := some f }
/-- `Scriptlet::prog(p)` -/
def Scriptlet.withProg (s : Scriptlet) (p : List Bytes) : Scriptlet := { s with prog := some p }

/-- `PackageBuilder::new(name, version, license, arch, summary)`; `defaultComp` = `CompressionWithLevel::default()` -/
def Cfg.new (name version license arch summary : Bytes) (defaultComp : Comp) : Cfg :=
  { name := name, epoch := Gen.builderNewEpoch, version := version, release := Gen.builderNewRelease, license := license,
    arch := arch, summary := summary, desc := Option.none, vendor := Option.none, packager := Option.none, group := Option.none,
    url := Option.none, vcs := Option.none, cookie := Option.none, buildHost := Option.none, sourceDate := Option.none,
    files := [], directories := [], provides := [], requires := [], conflicts := [], obsoletes := [], recommends := [],
    suggests := [], enhances := [], supplements := [], preIn := Option.none, postIn := Option.none, preUn := Option.none,
    postUn := Option.none, preTrans := Option.none, postTrans := Option.none, preUntrans := Option.none,
    postUntrans := Option.none, verify := Option.none, changelog := [], compression := defaultComp }

/-- one call of an infallible setter. `sourceDate` / `changelog` carry the `Timestamp` AFTER the caller's `try_into().unwrap()`
(`AddData.sourceDate` / `addChangelogEntry` model the conversion and its panic); `script k` is the `k`-th of the nine scriptlet
setters and `dep k` the `k`-th of the eight dependency setters, both in source order (`scriptSetterNames`, `depSetterNames`) -/
inductive MetaSetter where
  | epoch (n : Nat)
  | release (s : Bytes)
  | url (s : Bytes)
  | vcs (s : Bytes)
  | description (s : Bytes)
  | vendor (s : Bytes)
  | packager (s : Bytes)
  | group (s : Bytes)
  | buildHost (s : Bytes)
  | sourceDate (t : Nat)
  | cookie (s : Bytes)
  | compression (c : Comp)
  | changelog (name entry : Bytes) (t : Nat)
  | script (k : Nat) (s : Scriptlet)
  | dep (k : Nat) (d : Dep)
  deriving DecidableEq, Repr

def scriptSetterNames : List String :=
  ["pre_install_script", "post_install_script", "pre_uninstall_script", "post_uninstall_script", "pre_trans_script",
   "post_trans_script", "pre_untrans_script", "post_untrans_script", "verify_script"]
def depSetterNames : List String :=
  ["provides", "requires", "conflicts", "obsoletes", "recommends", "suggests", "enhances", "supplements"]

/-- the setter's effect on the builder state: plain assignment, `Some(..)` (the LAST call wins), or `push` (calls accumulate in
call order); an index past the nine / eight setters is no call at all -/
def MetaSetter.apply (c : Cfg) : MetaSetter → Cfg
  | .epoch n => { c with epoch := n }
  | .release s => { c with release := s }
  | .url s => { c with url := some s }
  | .vcs s => { c with vcs := some s }
  | .description s => { c with desc := some s }
  | .vendor s => { c with vendor := some s }
  | .packager s => { c with packager := some s }
  | .group s => { c with group := some s }
  | .buildHost s => { c with buildHost := some s }
  | .sourceDate t => { c with sourceDate := some t }
  | .cookie s => { c with cookie := some s }
  | .compression k => { c with compression := k }
  | .changelog n e t => { c with changelog := c.changelog ++ [(n, e, t)] }
  | .script 0 s => { c with preIn := some s }
  | .script 1 s => { c with postIn := some s }
  | .script 2 s => { c with preUn := some s }
  | .script 3 s => { c with postUn := some s }
  | .script 4 s => { c with preTrans := some s }
  | .script 5 s => { c with postTrans := some s }
  | .script 6 s => { c with preUntrans := some s }
  | .script 7 s => { c with postUntrans := some s }
  | .script 8 s => { c with verify := some s }
  | .script _ _ => c
  | .dep 0 d => { c with provides := c.provides ++ [d] }
  | .dep 1 d => { c with requires := c.requires ++ [d] }
  | .dep 2 d => { c with conflicts := c.conflicts ++ [d] }
  | .dep 3 d => { c with obsoletes := c.obsoletes ++ [d] }
  | .dep 4 d => { c with recommends := c.recommends ++ [d] }
  | .dep 5 d => { c with suggests := c.suggests ++ [d] }
  | .dep 6 d => { c with enhances := c.enhances ++ [d] }
  | .dep 7 d => { c with supplements := c.supplements ++ [d] }
  | .dep _ _ => c

/-- a chain of setter calls, left to right -/
def Cfg.applyAll (c : Cfg) (ss : List MetaSetter) : Cfg := ss.foldl MetaSetter.apply c

/-- the rows of `Gen.builderSetters` that `MetaSetter.apply` implements (same order, same field, same kind) -/
def modelledSetterRows : List (String × String × Nat) :=
  [("epoch", "epoch", 0), ("release", "release", 0), ("url", "url", 1), ("vcs", "vcs", 1), ("description", "desc", 1),
   ("vendor", "vendor", 1), ("packager", "packager", 1), ("group", "group", 1), ("build_host", "build_host", 1),
   ("source_date", "source_date", 3), ("cookie", "cookie", 1), ("compression", "compression", 0),
   ("add_changelog_entry", "changelog_names+changelog_entries+changelog_times", 4)] ++
  (scriptSetterNames.zip ["pre_inst_script", "post_inst_script", "pre_uninst_script", "post_uninst_script", "pre_trans_script",
     "post_trans_script", "pre_untrans_script", "post_untrans_script", "verify_script"]).map (fun p => (p.1, p.2, 1)) ++
  depSetterNames.map (fun n => (n, n, 2))

/-! ### small text helpers -/
def decDigits : Nat → Nat → List UInt8
  | 0, _ => []
  | fuel + 1, n => if n < 10 then [(48 + n).toUInt8] else decDigits fuel (n / 10) ++ [(48 + n % 10).toUInt8]
/-- `u32::to_string` -/
def natDec (n : Nat) : Bytes := decDigits 40 n
/-- `i32::to_string` -/
def intDec (z : Int) : Bytes := if z < 0 then 45 :: natDec z.natAbs else natDec z.toNat

-- "(none)" "C" "linux" "utf-8" "cpio" "Unspecified" "rpm-rs " …
def sNone : Bytes := [40, 110, 111, 110, 101, 41]
def sC : Bytes := [67]
def sLinux : Bytes := [108, 105, 110, 117, 120]
def sUtf8 : Bytes := [117, 116, 102, 45, 56]
def sCpio : Bytes := [99, 112, 105, 111]
def sUnspecified : Bytes := [85, 110, 115, 112, 101, 99, 105, 102, 105, 101, 100]
def sRpmRs : Bytes := [114, 112, 109, 45, 114, 115, 32]
def sRoot : Bytes := [114, 111, 111, 116]

/-- `Dependency::rpmlib(name, version)` : "rpmlib(<name>)", RPMLIB | EQUAL -/
def rpmlib (name version : Bytes) : Dep :=
  ⟨[114, 112, 109, 108, 105, 98, 40] ++ name ++ [41], DependencyFlags.RPMLIB ||| DependencyFlags.EQUAL, version⟩
/-- `Dependency::eq` -/
def depEq (name version : Bytes) : Dep := ⟨name, DependencyFlags.EQUAL, version⟩
/-- `Dependency::user` / `group` -/
def depUser (u : Bytes) : Dep := ⟨[117, 115, 101, 114, 40] ++ u ++ [41], DependencyFlags.SCRIPT_PRE ||| DependencyFlags.SCRIPT_POSTUN, []⟩
def depGroup (g : Bytes) : Dep := ⟨[103, 114, 111, 117, 112, 40] ++ g ++ [41], DependencyFlags.SCRIPT_PRE ||| DependencyFlags.SCRIPT_POSTUN, []⟩

/-- the public constructors of `Dependency` (`any`, `eq`, `less`, … `script_postun`; src/rpm/headers/types.rs): the `k`-th
`pub fn` of `impl Dependency` applied to a name and a version argument (constructors without a version parameter ignore
`version`). The rows — fixed text around the name, flags, fixed version — are regenerated from the source on every run
(`Gen.depCtors`, tools/gen/dep_ctors.py); `none` when there is no `k`-th constructor. -/
def depCtor (k : Nat) (name version : Bytes) : Option Dep :=
  depCtors[k]?.map fun s => ⟨s.pre ++ name ++ s.post, s.flags, s.version.getD version⟩

def Comp.name : Comp → Option (Bytes × Bytes)
  | .none => Option.none
  | .gzip l => some ([103, 122, 105, 112], natDec l)
  | .zstd l => some ([122, 115, 116, 100], intDec l)
  | .xz l => some ([120, 122], natDec l)
  | .bzip2 l => some ([98, 122, 105, 112, 50], natDec l)

/-- sorted, de-duplicated (the `BTreeSet` of non-root owners) -/
def sortedDedup (l : List Bytes) : List Bytes :=
  (l.mergeSort (fun a b => decide (a ≤ b))).eraseDups

def combinedSize (c : Cfg) : Nat := (c.files.map (·.size)).sum
def usesLargeFiles (c : Cfg) : Bool := decide (combinedSize c > c.largeFileThreshold)
def usesCaps (c : Cfg) : Bool := c.files.any (·.caps.isSome)

/-- provides after the library's own additions -/
def allProvides (c : Cfg) : List Dep :=
  c.provides ++ [depEq c.name c.version, depEq (c.name ++ [40] ++ c.arch ++ [41]) c.version]

/-- requires after the STRUCTURAL rpmlib() additions (compressed file names, file digests, "./" prefix, payload compressor,
capabilities, large files) — the state of `self.requires` when the content features are looked at -/
def baseRequires (c : Cfg) : List Dep :=
  c.requires ++
  [rpmlib [67, 111, 109, 112, 114, 101, 115, 115, 101, 100, 70, 105, 108, 101, 78, 97, 109, 101, 115] [51, 46, 48, 46, 52, 45, 49],
   rpmlib [70, 105, 108, 101, 68, 105, 103, 101, 115, 116, 115] [52, 46, 54, 46, 48, 45, 49],
   rpmlib [80, 97, 121, 108, 111, 97, 100, 70, 105, 108, 101, 115, 72, 97, 118, 101, 80, 114, 101, 102, 105, 120] [52, 46, 48, 45, 49]] ++
  (match c.compression with
   | .zstd _ => [rpmlib [80, 97, 121, 108, 111, 97, 100, 73, 115, 90, 115, 116, 100] [53, 46, 52, 46, 49, 56, 45, 49]]
   | .xz _ => [rpmlib [80, 97, 121, 108, 111, 97, 100, 73, 115, 88, 122] [53, 46, 50, 45, 49]]
   | .bzip2 _ => [rpmlib [80, 97, 121, 108, 111, 97, 100, 73, 115, 66, 122, 105, 112, 50] [51, 46, 48, 46, 53, 45, 49]]
   | _ => []) ++
  (if usesCaps c then [rpmlib [70, 105, 108, 101, 67, 97, 112, 115] [52, 46, 54, 46, 49, 45, 49]] else []) ++
  (if usesLargeFiles c then [rpmlib [76, 97, 114, 103, 101, 70, 105, 108, 101, 115] [52, 46, 49, 50, 46, 48, 45, 49]] else [])

/-- `version_has(c)`: some dependency version (provides incl. the two self-provides, requires incl. the structural rpmlib() ones,
obsoletes, conflicts, recommends, suggests, enhances, supplements — the lists as they are at that point) contains the character
(`str::contains(char)` for an ASCII character = the byte occurs) -/
def versionHas (c : Cfg) (ch : UInt8) : Bool :=
  (allProvides c ++ baseRequires c ++ c.obsoletes ++ c.conflicts ++ c.recommends ++ c.suggests ++ c.enhances ++ c.supplements).any
    fun d => d.version.contains ch

/-- `uses_rich_deps`: a requires / recommends / suggests / supplements / enhances / conflicts name starting with "(" -/
def usesRichDeps (c : Cfg) : Bool :=
  (baseRequires c ++ c.recommends ++ c.suggests ++ c.supplements ++ c.enhances ++ c.conflicts).any fun d => d.name.head? == some 40

/-- `uses_interpreter_args`: one of the nine scriptlets has `program: Some(p)` with `p.len() > 1` -/
def usesInterpArgs (c : Cfg) : Bool :=
  [c.preIn, c.postIn, c.preUn, c.postUn, c.preTrans, c.postTrans, c.preUntrans, c.postUntrans, c.verify].any fun s =>
    match s.bind (·.prog) with
    | some p => decide (1 < p.length)
    | Option.none => false

/-- one turn of `for (used, feature, version) in content_features`: a feature that is used and not yet required under its
`rpmlib(…)` name is appended -/
def pushFeature (reqs : List Dep) (used : Bool) (feature version : Bytes) : List Dep :=
  if used && !(reqs.any fun d => d.name == (rpmlib feature version).name) then reqs ++ [rpmlib feature version] else reqs

/-- requires after all rpmlib() additions: the structural ones, then TildeInVersions / CaretInVersions / RichDependencies /
ScriptletInterpreterArgs (the four tests are evaluated before the first of them is pushed) -/
def allRequires (c : Cfg) : List Dep :=
  pushFeature (pushFeature (pushFeature (pushFeature (baseRequires c)
    (versionHas c 126) [84, 105, 108, 100, 101, 73, 110, 86, 101, 114, 115, 105, 111, 110, 115] [52, 46, 49, 48, 46, 48, 45, 49])
    (versionHas c 94) [67, 97, 114, 101, 116, 73, 110, 86, 101, 114, 115, 105, 111, 110, 115] [52, 46, 49, 53, 46, 48, 45, 49])
    (usesRichDeps c) [82, 105, 99, 104, 68, 101, 112, 101, 110, 100, 101, 110, 99, 105, 101, 115] [52, 46, 49, 50, 46, 48, 45, 49])
    (usesInterpArgs c) [83, 99, 114, 105, 112, 116, 108, 101, 116, 73, 110, 116, 101, 114, 112, 114, 101, 116, 101, 114, 65, 114, 103, 115] [52, 46, 48, 46, 51, 45, 49]

/-- recommends after the user()/group() additions (ordered sets since fix 4484349) -/
def allRecommends (c : Cfg) : List Dep :=
  c.recommends ++
  (sortedDedup ((c.files.map (·.user)).filter (· ≠ sRoot))).map depUser ++
  (sortedDedup ((c.files.map (·.group)).filter (· ≠ sRoot))).map depGroup

/-- `min(mtime, source_date)` when a source date is set -/
def clampMtime (sd : Option Nat) (m : Nat) : Nat :=
  match sd with
  | some d => if d < m then d else m
  | Option.none => m

/-- position of a file's directory in the ordered directory set -/
def dirIndex (dirs : List Bytes) (d : Bytes) : Nat := (dirs.findIdx? (· == d)).getD 0

/-- `match source_date { Some(t) if t < now => t, _ => now }` : build time and signature time -/
def clampNow (sd : Option Nat) (now : Nat) : Nat :=
  match sd with
  | some t => if t < now then t else now
  | Option.none => now

/-- what `prepare_data` puts into the header besides the builder state: the build time (the clock enters
only through it) and the two payload digests -/
structure Ctx where
  c : Cfg
  bt : Nat
  payloadShaHex : Bytes
  archiveShaHex : Bytes

def mkCtx (c : Cfg) (now : Nat) (payloadShaHex archiveShaHex : Bytes) : Ctx :=
  ⟨c, clampNow c.sourceDate now, payloadShaHex, archiveShaHex⟩

/-- a slot of the header: its tag and the data `prepare_data` emits for it (or nothing) -/
abbrev Slot := Nat × (Ctx → Option IndexData)

def always (f : Ctx → IndexData) : Ctx → Option IndexData := fun x => some (f x)
def whenFiles (f : Ctx → IndexData) : Ctx → Option IndexData := fun x => if x.c.files.isEmpty then none else some (f x)
def optS (f : Cfg → Option Bytes) : Ctx → Option IndexData := fun x => (f x.c).map .str

def depNames (f : Ctx → List Dep) (always' : Bool) : Ctx → Option IndexData :=
  fun x => if !always' && (f x).isEmpty then none else some (.strArray ((f x).map (·.name)))
def depVersions (f : Ctx → List Dep) (always' : Bool) : Ctx → Option IndexData :=
  fun x => if !always' && (f x).isEmpty then none else some (.strArray ((f x).map (·.version)))
def depFlags (f : Ctx → List Dep) (always' : Bool) : Ctx → Option IndexData :=
  fun x => if !always' && (f x).isEmpty then none else some (.int32 ((f x).map (·.flags)))

/-- `Scriptlet::apply`: script always, flags when set, interpreter when set and non-empty -/
def scrScript (f : Cfg → Option Scriptlet) : Ctx → Option IndexData := fun x => (f x.c).map fun s => .str s.script
def scrFlags (f : Cfg → Option Scriptlet) : Ctx → Option IndexData :=
  fun x => (f x.c).bind fun s => s.flags.map fun fl => .int32 [fl]
def scrProg (f : Cfg → Option Scriptlet) : Ctx → Option IndexData :=
  fun x => (f x.c).bind fun s => s.prog.bind fun p => if p.isEmpty then none else some (.strArray p)

def depSlots (n v f : Nat) (g : Ctx → List Dep) (always' : Bool) : List Slot :=
  [(n, depNames g always'), (v, depVersions g always'), (f, depFlags g always')]
def scriptSlots (a b c : Nat) (g : Cfg → Option Scriptlet) : List Slot :=
  [(a, scrScript g), (b, scrFlags g), (c, scrProg g)]

/-- every record `prepare_data` can emit, in source order -/
def slots : List Slot :=
  [ (IndexTag.RPMTAG_SOURCERPM, always fun _ => .str sNone),
    (IndexTag.RPMTAG_HEADERI18NTABLE, always fun _ => .strArray [sC]),
    (IndexTag.RPMTAG_NAME, always fun x => .str x.c.name),
    (IndexTag.RPMTAG_EPOCH, always fun x => .int32 [x.c.epoch]),
    (IndexTag.RPMTAG_RPMVERSION, always fun _ => .str (sRpmRs ++ CARGO_PKG_VERSION)),
    (IndexTag.RPMTAG_VERSION, always fun x => .str x.c.version),
    (IndexTag.RPMTAG_RELEASE, always fun x => .str x.c.release),
    (IndexTag.RPMTAG_DESCRIPTION, always fun x => .i18n [x.c.desc.getD x.c.summary]),
    (IndexTag.RPMTAG_SUMMARY, always fun x => .i18n [x.c.summary]),
    (IndexTag.RPMTAG_LONGSIZE, fun x => if usesLargeFiles x.c then some (.int64 [combinedSize x.c]) else none),
    (IndexTag.RPMTAG_SIZE, fun x => if usesLargeFiles x.c then none else some (.int32 [combinedSize x.c])),
    (IndexTag.RPMTAG_LICENSE, always fun x => .str x.c.license),
    (IndexTag.RPMTAG_OS, always fun _ => .str sLinux),
    (IndexTag.RPMTAG_GROUP, always fun x => .i18n [x.c.group.getD sUnspecified]),
    (IndexTag.RPMTAG_ARCH, always fun x => .str x.c.arch),
    (IndexTag.RPMTAG_ENCODING, always fun _ => .str sUtf8),
    (IndexTag.RPMTAG_PAYLOADFORMAT, always fun _ => .str sCpio),
    (IndexTag.RPMTAG_BUILDTIME, always fun x => .int32 [x.bt]),
    (IndexTag.RPMTAG_BUILDHOST, optS (·.buildHost)),
    (IndexTag.RPMTAG_LONGFILESIZES, fun x => if x.c.files.isEmpty || !usesLargeFiles x.c then none else some (.int64 (x.c.files.map (·.size)))),
    (IndexTag.RPMTAG_FILESIZES, fun x => if x.c.files.isEmpty || usesLargeFiles x.c then none else some (.int32 (x.c.files.map (·.size)))),
    (IndexTag.RPMTAG_FILEMODES, whenFiles fun x => .int16 (x.c.files.map (·.mode))),
    (IndexTag.RPMTAG_FILERDEVS, whenFiles fun x => .int16 (x.c.files.map (fun _ => 0))),
    (IndexTag.RPMTAG_FILEMTIMES, whenFiles fun x => .int32 (x.c.files.map (fun f => clampMtime x.c.sourceDate f.mtime))),
    (IndexTag.RPMTAG_FILEDIGESTS, whenFiles fun x => .strArray (x.c.files.map (·.shaHex))),
    (IndexTag.RPMTAG_FILELINKTOS, whenFiles fun x => .strArray (x.c.files.map (·.link))),
    (IndexTag.RPMTAG_FILEFLAGS, whenFiles fun x => .int32 (x.c.files.map (·.flags))),
    (IndexTag.RPMTAG_FILEUSERNAME, whenFiles fun x => .strArray (x.c.files.map (·.user))),
    (IndexTag.RPMTAG_FILEGROUPNAME, whenFiles fun x => .strArray (x.c.files.map (·.group))),
    (IndexTag.RPMTAG_FILEDEVICES, whenFiles fun x => .int32 (x.c.files.map (fun _ => 1))),
    (IndexTag.RPMTAG_FILEINODES, whenFiles fun x => .int32 ((List.range x.c.files.length).map (· + 1))),
    (IndexTag.RPMTAG_DIRINDEXES, whenFiles fun x => .int32 (x.c.files.map (fun f => dirIndex x.c.directories f.dir))),
    (IndexTag.RPMTAG_FILELANGS, whenFiles fun x => .strArray (x.c.files.map (fun _ => []))),
    (IndexTag.RPMTAG_FILEDIGESTALGO, whenFiles fun _ => .int32 [8]),
    (IndexTag.RPMTAG_FILEVERIFYFLAGS, whenFiles fun x => .int32 (x.c.files.map (·.verifyFlags))),
    (IndexTag.RPMTAG_BASENAMES, whenFiles fun x => .strArray (x.c.files.map (·.baseName))),
    (IndexTag.RPMTAG_DIRNAMES, whenFiles fun x => .strArray x.c.directories),
    (IndexTag.RPMTAG_FILECAPS, fun x => if x.c.files.isEmpty || !usesCaps x.c then none else some (.strArray (x.c.files.map (fun f => f.caps.getD [])))) ] ++
  depSlots IndexTag.RPMTAG_PROVIDENAME IndexTag.RPMTAG_PROVIDEVERSION IndexTag.RPMTAG_PROVIDEFLAGS (fun x => allProvides x.c) true ++
  [ (IndexTag.RPMTAG_PAYLOADDIGEST, always fun x => .strArray [x.payloadShaHex]),
    (IndexTag.RPMTAG_PAYLOADDIGESTALGO, always fun _ => .int32 [8]),
    (IndexTag.RPMTAG_PAYLOADDIGESTALT, always fun x => .strArray [x.archiveShaHex]),
    (IndexTag.RPMTAG_PAYLOADCOMPRESSOR, fun x => x.c.compression.name.map fun p => .str p.1),
    (IndexTag.RPMTAG_PAYLOADFLAGS, fun x => x.c.compression.name.map fun p => .str p.2),
    (IndexTag.RPMTAG_CHANGELOGNAME, fun x => if x.c.changelog.isEmpty then none else some (.strArray (x.c.changelog.map (·.1)))),
    (IndexTag.RPMTAG_CHANGELOGTEXT, fun x => if x.c.changelog.isEmpty then none else some (.strArray (x.c.changelog.map (·.2.1)))),
    (IndexTag.RPMTAG_CHANGELOGTIME, fun x => if x.c.changelog.isEmpty then none else some (.int32 (x.c.changelog.map (·.2.2)))) ] ++
  depSlots IndexTag.RPMTAG_OBSOLETENAME IndexTag.RPMTAG_OBSOLETEVERSION IndexTag.RPMTAG_OBSOLETEFLAGS (fun x => x.c.obsoletes) false ++
  depSlots IndexTag.RPMTAG_REQUIRENAME IndexTag.RPMTAG_REQUIREVERSION IndexTag.RPMTAG_REQUIREFLAGS (fun x => allRequires x.c) false ++
  depSlots IndexTag.RPMTAG_CONFLICTNAME IndexTag.RPMTAG_CONFLICTVERSION IndexTag.RPMTAG_CONFLICTFLAGS (fun x => x.c.conflicts) false ++
  depSlots IndexTag.RPMTAG_RECOMMENDNAME IndexTag.RPMTAG_RECOMMENDVERSION IndexTag.RPMTAG_RECOMMENDFLAGS (fun x => allRecommends x.c) false ++
  depSlots IndexTag.RPMTAG_SUGGESTNAME IndexTag.RPMTAG_SUGGESTVERSION IndexTag.RPMTAG_SUGGESTFLAGS (fun x => x.c.suggests) false ++
  depSlots IndexTag.RPMTAG_ENHANCENAME IndexTag.RPMTAG_ENHANCEVERSION IndexTag.RPMTAG_ENHANCEFLAGS (fun x => x.c.enhances) false ++
  depSlots IndexTag.RPMTAG_SUPPLEMENTNAME IndexTag.RPMTAG_SUPPLEMENTVERSION IndexTag.RPMTAG_SUPPLEMENTFLAGS (fun x => x.c.supplements) false ++
  scriptSlots IndexTag.RPMTAG_PREIN IndexTag.RPMTAG_PREINFLAGS IndexTag.RPMTAG_PREINPROG (·.preIn) ++
  scriptSlots IndexTag.RPMTAG_POSTIN IndexTag.RPMTAG_POSTINFLAGS IndexTag.RPMTAG_POSTINPROG (·.postIn) ++
  scriptSlots IndexTag.RPMTAG_PREUN IndexTag.RPMTAG_PREUNFLAGS IndexTag.RPMTAG_PREUNPROG (·.preUn) ++
  scriptSlots IndexTag.RPMTAG_POSTUN IndexTag.RPMTAG_POSTUNFLAGS IndexTag.RPMTAG_POSTUNPROG (·.postUn) ++
  scriptSlots IndexTag.RPMTAG_PRETRANS IndexTag.RPMTAG_PRETRANSFLAGS IndexTag.RPMTAG_PRETRANSPROG (·.preTrans) ++
  scriptSlots IndexTag.RPMTAG_POSTTRANS IndexTag.RPMTAG_POSTTRANSFLAGS IndexTag.RPMTAG_POSTTRANSPROG (·.postTrans) ++
  scriptSlots IndexTag.RPMTAG_PREUNTRANS IndexTag.RPMTAG_PREUNTRANSFLAGS IndexTag.RPMTAG_PREUNTRANSPROG (·.preUntrans) ++
  scriptSlots IndexTag.RPMTAG_POSTUNTRANS IndexTag.RPMTAG_POSTUNTRANSFLAGS IndexTag.RPMTAG_POSTUNTRANSPROG (·.postUntrans) ++
  scriptSlots IndexTag.RPMTAG_VERIFYSCRIPT IndexTag.RPMTAG_VERIFYSCRIPTFLAGS IndexTag.RPMTAG_VERIFYSCRIPTPROG (·.verify) ++
  [ (IndexTag.RPMTAG_VENDOR, optS (·.vendor)),
    (IndexTag.RPMTAG_PACKAGER, optS (·.packager)),
    (IndexTag.RPMTAG_URL, optS (·.url)),
    (IndexTag.RPMTAG_VCS, optS (·.vcs)),
    (IndexTag.RPMTAG_COOKIE, optS (·.cookie)) ]

/-- the records `prepare_data` hands to `from_entries`, in source order: every slot that emits data -/
def recordsOf (x : Ctx) : List (Nat × IndexData) :=
  slots.filterMap fun s => (s.2 x).map fun d => (s.1, d)

def records (c : Cfg) (now : Nat) (payloadShaHex archiveShaHex : Bytes) : List (Nat × IndexData) :=
  recordsOf (mkCtx c now payloadShaHex archiveShaHex)

/-- the main header `prepare_data` builds -/
def mainHeader (c : Cfg) (now : Nat) (payloadShaHex archiveShaHex : Bytes) : Header :=
  fromEntries (records c now payloadShaHex archiveShaHex) IndexTag.RPMTAG_HEADERIMMUTABLE

/-- `Lead::new(name)` -/
def leadNew (name : Bytes) : Lead :=
  let n := name.take 65
  ⟨3, 0, 0, 0, n ++ List.replicate (66 - n.length) 0, 1, 5, List.replicate 16 0⟩

/-- `SignatureHeaderBuilder::build`: optional OPENPGP array (+ the legacy tag of the last signature),
then the header SHA-256. `sigs` = (legacy tag, raw signature bytes, base64 text) per signature. -/
def signatureHeader (sigs : List (Nat × Bytes × Bytes)) (headerShaHex : Option Bytes) : Header :=
  let pgp : List (Nat × IndexData) :=
    match sigs.getLast? with
    | Option.none => []
    | some (tag, raw, _) => [(SigTag.RPMSIGTAG_OPENPGP, .strArray (sigs.map (·.2.2))), (tag, .bin raw)]
  let sha : List (Nat × IndexData) := match headerShaHex with
    | some d => [(SigTag.RPMSIGTAG_SHA256, .str d)]
    | Option.none => []
  fromEntries (pgp ++ sha) SigTag.HEADER_SIGNATURES

/-- `PackageBuilder::build` (unsigned): `sha256hex` is the hash function as a parameter -/
def build (c : Cfg) (now : Nat) (sha256hex : Bytes → Bytes) (archive payload : Bytes) : Package :=
  let hdr := mainHeader c now (sha256hex payload) (sha256hex archive)
  let sig := signatureHeader [] (some (sha256hex (writeHeader hdr)))
  ⟨⟨leadNew c.name, sig, hdr⟩, payload⟩

end RpmVerif.Bld
