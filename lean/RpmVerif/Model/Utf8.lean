import RpmVerif.Model.Basic
/-!
# `String::from_utf8_lossy` on bytes

Rust replaces every *maximal invalid subpart* with U+FFFD (`EF BF BD`); valid text is unchanged.
Modelled on bytes (a Rust `String` is its UTF-8 bytes). Exercised, not proved (std behaviour).
-/
namespace RpmVerif.Utf8

def isCont (b : UInt8) : Bool := 0x80 ≤ b && b ≤ 0xBF
def repl : Bytes := [0xEF, 0xBF, 0xBD]

/-- decode one step: number of input bytes consumed and whether they form a valid scalar -/
def step : Bytes → Nat × Bool
  | [] => (0, true)
  | b0 :: r =>
    if b0 < 0x80 then (1, true)
    else if 0xC2 ≤ b0 && b0 ≤ 0xDF then
      match r with
      | b1 :: _ => if isCont b1 then (2, true) else (1, false)
      | [] => (1, false)
    else if 0xE0 ≤ b0 && b0 ≤ 0xEF then
      match r with
      | b1 :: r2 =>
        let ok1 := if b0 == 0xE0 then 0xA0 ≤ b1 && b1 ≤ 0xBF
                   else if b0 == 0xED then 0x80 ≤ b1 && b1 ≤ 0x9F
                   else isCont b1
        if !ok1 then (1, false) else
        match r2 with
        | b2 :: _ => if isCont b2 then (3, true) else (2, false)
        | [] => (2, false)
      | [] => (1, false)
    else if 0xF0 ≤ b0 && b0 ≤ 0xF4 then
      match r with
      | b1 :: r2 =>
        let ok1 := if b0 == 0xF0 then 0x90 ≤ b1 && b1 ≤ 0xBF
                   else if b0 == 0xF4 then 0x80 ≤ b1 && b1 ≤ 0x8F
                   else isCont b1
        if !ok1 then (1, false) else
        match r2 with
        | b2 :: r3 =>
          if !isCont b2 then (2, false) else
          match r3 with
          | b3 :: _ => if isCont b3 then (4, true) else (3, false)
          | [] => (3, false)
        | [] => (2, false)
      | [] => (1, false)
    else (1, false)

/-- fuel = input length is always enough (each step consumes ≥ 1 byte) -/
def lossyAux : Nat → Bytes → Bytes → Bytes
  | 0, _, acc => acc.reverse
  | _, [], acc => acc.reverse
  | fuel + 1, bs, acc =>
    let (n, ok) := step bs
    let n := if n = 0 then 1 else n
    if ok then lossyAux fuel (bs.drop n) ((bs.take n).reverse ++ acc)
    else lossyAux fuel (bs.drop n) (repl.reverse ++ acc)

def lossy (bs : Bytes) : Bytes := lossyAux bs.length bs []

def isValid (bs : Bytes) : Bool := lossy bs == bs

end RpmVerif.Utf8
