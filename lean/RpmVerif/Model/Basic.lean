/-!
# Basic layer (L0): bytes, the `Out` outcome monad, big-endian codecs.

Import-free (core only) so the driver links as a `lean_exe`.
`Out` makes Rust's three observable endings explicit: a value, an `Err(..)`, or a panic
(slice out of range, `unwrap` on `None`, arithmetic overflow under `overflow-checks`).
-/
namespace RpmVerif

abbrev Bytes := List UInt8

/-- error classes kept coarse on purpose: only what a property distinguishes -/
inductive Out (α : Type) where
  | ok (a : α)
  | err (cls : String)
  | panic (site : String)
  deriving Repr, DecidableEq

namespace Out
def isOk {α} : Out α → Bool | .ok _ => true | _ => false
def isErr {α} : Out α → Bool | .err _ => true | _ => false
def isPanic {α} : Out α → Bool | .panic _ => true | _ => false
def toOption {α} : Out α → Option α | .ok a => some a | _ => none
/-- canonical class text used on the wire -/
def cls {α} : Out α → String
  | .ok _ => "ok" | .err c => "err:" ++ c | .panic s => "panic:" ++ s
def map {α β} (f : α → β) : Out α → Out β
  | .ok a => .ok (f a) | .err c => .err c | .panic s => .panic s
end Out

instance : Monad Out where
  pure := .ok
  bind x f := match x with | .ok a => f a | .err c => .err c | .panic s => .panic s

@[simp] theorem Out.bind_ok {α β} (a : α) (f : α → Out β) : (Out.ok a >>= f) = f a := rfl
@[simp] theorem Out.bind_err {α β} (c : String) (f : α → Out β) : (Out.err c >>= f) = .err c := rfl
@[simp] theorem Out.bind_panic {α β} (c : String) (f : α → Out β) : (Out.panic c >>= f) = .panic c := rfl
@[simp] theorem Out.pure_eq {α} (a : α) : (pure a : Out α) = .ok a := rfl

theorem Out.bind_eq_ok {α β} {x : Out α} {f : α → Out β} {b : β} :
    (x >>= f) = .ok b ↔ ∃ a, x = .ok a ∧ f a = .ok b := by
  cases x <;> simp [bind]

theorem Out.bind_isPanic {α β} {x : Out α} {f : α → Out β} :
    (x >>= f).isPanic = true ↔ x.isPanic = true ∨ ∃ a, x = .ok a ∧ (f a).isPanic = true := by
  cases x <;> simp [bind, Out.isPanic]

theorem Out.bind_not_panic {α β} {x : Out α} {f : α → Out β}
    (hx : x.isPanic = false) (hf : ∀ a, x = .ok a → (f a).isPanic = false) : (x >>= f).isPanic = false := by
  cases x with
  | ok a => exact hf a rfl
  | err c => rfl
  | panic s => simp [Out.isPanic] at hx

/-! ## big-endian integers -/

def be16 (n : Nat) : Bytes := [(n / 256 % 256).toUInt8, (n % 256).toUInt8]
def be32 (n : Nat) : Bytes :=
  [(n / 16777216 % 256).toUInt8, (n / 65536 % 256).toUInt8, (n / 256 % 256).toUInt8, (n % 256).toUInt8]
def be64 (n : Nat) : Bytes := be32 (n / 4294967296 % 4294967296) ++ be32 (n % 4294967296)

/-- nom `be_u8` : `Error(Eof)` on short input -/
def rd8 : Bytes → Out (Nat × Bytes)
  | a :: r => .ok (a.toNat, r)
  | _ => .err "eof"
def rd16 : Bytes → Out (Nat × Bytes)
  | a :: b :: r => .ok (a.toNat * 256 + b.toNat, r)
  | _ => .err "eof"
def rd32 : Bytes → Out (Nat × Bytes)
  | a :: b :: c :: d :: r => .ok (a.toNat * 16777216 + b.toNat * 65536 + c.toNat * 256 + d.toNat, r)
  | _ => .err "eof"
def rd64 (bs : Bytes) : Out (Nat × Bytes) := do
  let (hi, bs) ← rd32 bs
  let (lo, bs) ← rd32 bs
  pure (hi * 4294967296 + lo, bs)

/-- nom `take(n)` -/
def takeN (n : Nat) (bs : Bytes) : Out (Bytes × Bytes) :=
  if n ≤ bs.length then .ok (bs.take n, bs.drop n) else .err "eof"

theorem rd32_ok {bs n r} (h : rd32 bs = .ok (n, r)) : bs = be32 n ++ r ∧ n < 4294967296 := by
  match bs, h with
  | a :: b :: c :: d :: r', h =>
    simp only [rd32, Out.ok.injEq, Prod.mk.injEq] at h
    obtain ⟨rfl, rfl⟩ := h
    have ha := a.toNat_lt; have hb := b.toNat_lt; have hc := c.toNat_lt; have hd := d.toNat_lt
    refine ⟨?_, by omega⟩
    simp only [be32, List.cons_append, List.nil_append, List.cons.injEq, and_true]
    refine ⟨?_, ?_, ?_, ?_⟩ <;>
      (apply UInt8.toNat_inj.mp; simp only [Nat.toUInt8, UInt8.toNat_ofNat']; omega)

theorem rd32_be32 {n} (h : n < 4294967296) (r : Bytes) : rd32 (be32 n ++ r) = .ok (n, r) := by
  simp only [be32, rd32, List.cons_append, List.nil_append]
  congr 2
  simp only [Nat.toUInt8, UInt8.toNat_ofNat']
  omega

theorem be32_length (n : Nat) : (be32 n).length = 4 := rfl

theorem rd32_length {bs n r} (h : rd32 bs = .ok (n, r)) : bs.length = r.length + 4 := by
  obtain ⟨rfl, _⟩ := rd32_ok h
  simp [be32_length]; omega

theorem rd32_not_panic (bs : Bytes) : (rd32 bs).isPanic = false := by
  unfold rd32; split <;> rfl

theorem takeN_ok {n bs a r} (h : takeN n bs = .ok (a, r)) : bs = a ++ r ∧ a.length = n := by
  unfold takeN at h
  split at h
  · simp only [Out.ok.injEq, Prod.mk.injEq] at h
    obtain ⟨rfl, rfl⟩ := h
    exact ⟨(List.take_append_drop n bs).symm, by simp; omega⟩
  · cases h

theorem takeN_append (a r : Bytes) : takeN a.length (a ++ r) = .ok (a, r) := by
  simp [takeN]

/-! ## text helpers for the driver (not used in theorems) -/

def hexDigit (n : Nat) : Char := if n < 10 then Char.ofNat (48 + n) else Char.ofNat (87 + n)
def hexOfBytes (bs : Bytes) : String :=
  String.ofList (bs.flatMap fun b => [hexDigit (b.toNat / 16), hexDigit (b.toNat % 16)])
def hexVal (c : Char) : Option Nat :=
  if '0' ≤ c ∧ c ≤ '9' then some (c.toNat - 48)
  else if 'a' ≤ c ∧ c ≤ 'f' then some (c.toNat - 87)
  else if 'A' ≤ c ∧ c ≤ 'F' then some (c.toNat - 55) else none
def bytesOfHexAux : List Char → List UInt8 → Option (List UInt8)
  | [], acc => some acc.reverse
  | [_], _ => none
  | a :: b :: r, acc => match hexVal a, hexVal b with
    | some x, some y => bytesOfHexAux r ((x * 16 + y).toUInt8 :: acc)
    | _, _ => none
/-- "-" encodes the empty byte string on the wire -/
def bytesOfHex (s : String) : Option Bytes :=
  if s = "-" then some [] else bytesOfHexAux s.toList []
def hexOrDash (bs : Bytes) : String := if bs.isEmpty then "-" else hexOfBytes bs

end RpmVerif
