import RpmVerif.Model.Digest
import RpmVerif.Model.PgpFraming
import RpmVerif.Gen.EchoPrefix
/-!
# L4: `Package::verify_signature` and rpm-rs's own `pgp::Verifier::verify` — model of
`src/rpm/package.rs` (as it is now, after fix 7d84e5c) and `src/rpm/signature/pgp.rs`

## `verify_signature`

External primitives are PARAMETERS:

* `md5 sha1 sha256 : Bytes → Bytes`            the hash crates (via `verifyDigests`, `Model/Digest.lean`);
* `b64 : Bytes → Option Bytes`                 `decode_sig` (pgp's lenient `Base64Decoder(Base64Reader(..))`, `none` = I/O error);
* `v : Verifier`                               the object handed in through the public `Verifying` trait. The trait method takes
                                               `&self`, so an implementation may keep interior state: the model lets the verdict
                                               depend on the whole history of earlier consults (`List Consult`) — the most general
                                               deterministic verifier. A pure verifier `Bytes → Bytes → Bool` ignores the history
                                               (`verifySignature` below).

The function returns the result AND the consult log: one `Consult` per call of `verifier.verify(data, sig)`, in call
order, with the bytes the reader handed over (`data`), the signature bytes, the verdict, and whether the call was the
legacy header+payload one (`RPMSIGTAG_PGP`).

Control flow, branch by branch as in the code:

1. `header_bytes` = the re-serialised main header (`writeHeader`); writing into a `Vec` cannot fail;
2. `self.verify_digests()?` — any digest error is returned before any consult;
3. `if let Ok(sigs) = get_entry_data_as_string_array(RPMSIGTAG_OPENPGP)`:
   * empty array → `NoSignatureFound` (class `nosig`);
   * for each entry in order: `decode_sig(..)?` (class `base64`), then `verifier.verify(header_bytes, sig)?`
     (class `verify`) — the first failure of either kind returns at once; after the loop `Ok(())`;
4. else (tag absent OR of another data type): `RSA`, `DSA`, `PGP` through the binary getter;
   none readable → `NoSignatureFound`; then, in this order and each only if readable: DSA over the header,
   RSA over the header, PGP over header ++ content (`Cursor(header).chain(Cursor(content))`); first rejection returns.

`echo_signature` only logs (`signature[..len.min(5)]` after fix d429c1f); `verifySignatureS` leaves it out.
`verifySignatureSE` below is the same function WITH the `echo_signature` call in front of every
`verifier.verify` — slice indexing made explicit (`sliceTo`: an out-of-range bound is a panic) — and returns what a
Debug logger is handed; `Props/C02.lean: verify_echo_eq` shows that it has the result and log of `verifySignatureS` and
never panics, so everything proved about the latter holds with the echo calls in.

## `pgp::Verifier::verify` (the verifier rpm-rs itself ships) — as it is now, after fix c25de51

`pgpVerifierVerify` models the key selection: parse the signature packet (an error here comes before anything is
read), read the data ONCE to the end into a buffer, take the signature's issuer key ids; no issuer → one attempt
with the primary key; otherwise for every issuer id in order: primary key id equal → RETURN the result of one
attempt with the primary key; else every subkey with that key id is tried, success returns, failure is
remembered. Every attempt verifies over the WHOLE buffered data. An attempt may fail before hashing anything
(`early`: key/signature version alignment, identity match, unknown hash algorithm, salt length — the checks
`pgp::Signature::verify` makes before it touches the data).

`pgpVerifierVerifyOld` is the code BEFORE c25de51, kept only for the negative witnesses in `Props/C02.lean`: the
subkeys were tried with `signature.verify(sub_key, &mut data)` on the SAME reader, so an attempt that got as far
as hashing left every later attempt the empty remainder.
-/
namespace RpmVerif.Verify
open RpmVerif.Hdr RpmVerif.Gen RpmVerif.Digest

/-- one call made to the supplied verifier -/
structure Consult where
  data : Bytes
  sig : Bytes
  accepted : Bool
  fromPgpTag : Bool
  deriving DecidableEq, Repr

/-- the supplied `Verifying` object: verdict on (data, signature) given the consults made before -/
abbrev Verifier := List Consult → Bytes → Bytes → Bool

/-- `verifier.verify(data, sig)?` repeated over a list of (data, sig, is-PGP-tag) steps: the first rejection returns
the error; `pre` is the log so far -/
def runConsults (v : Verifier) (pre : List Consult) : List (Bytes × Bytes × Bool) → Out Unit × List Consult
  | [] => (.ok (), pre)
  | (data, sig, pgp) :: rest =>
    let c : Consult := ⟨data, sig, v pre data sig, pgp⟩
    if c.accepted then runConsults v (pre ++ [c]) rest
    else (.err "verify", pre ++ [c])

/-- the `for base64_sig in openpgp_signatures.iter()` loop -/
def openpgpLoop (b64 : Bytes → Option Bytes) (v : Verifier) (hdr : Bytes) (pre : List Consult) :
    List Bytes → Out Unit × List Consult
  | [] => (.ok (), pre)
  | s :: rest =>
    match b64 s with
    | none => (.err "base64", pre)
    | some sig =>
      let c : Consult := ⟨hdr, sig, v pre hdr sig, false⟩
      if c.accepted then openpgpLoop b64 v hdr (pre ++ [c]) rest
      else (.err "verify", pre ++ [c])

/-- `if let Ok(sig) = getter_result { verifier.verify(data, sig)? }` as a (possibly empty) list of steps -/
def stepOf (g : Out Bytes) (data : Bytes) (pgp : Bool) : List (Bytes × Bytes × Bool) :=
  match g with
  | .ok sig => [(data, sig, pgp)]
  | _ => []

/-- the `else` branch: legacy tags -/
def legacy (v : Verifier) (hdr content : Bytes) (sig : Header) : Out Unit × List Consult :=
  let rsa := getBinary sig SigTag.RPMSIGTAG_RSA
  let eddsa := getBinary sig SigTag.RPMSIGTAG_DSA
  let v3 := getBinary sig SigTag.RPMSIGTAG_PGP
  if !rsa.isOk && !eddsa.isOk && !v3.isOk then (.err "nosig", [])
  else runConsults v [] (stepOf eddsa hdr false ++ stepOf rsa hdr false ++ stepOf v3 (hdr ++ content) true)

/-- `Package::verify_signature` with a (possibly stateful) verifier -/
def verifySignatureS (md5 sha1 sha256 : Bytes → Bytes) (b64 : Bytes → Option Bytes) (v : Verifier) (p : Package) :
    Out Unit × List Consult :=
  let hdr := writeHeader p.md.header
  match verifyDigests md5 sha1 sha256 p with
  | .err c => (.err c, [])
  | .panic s => (.panic s, [])
  | .ok _ =>
    match getStringArray p.md.signature SigTag.RPMSIGTAG_OPENPGP with
    | .ok sigs =>
      if sigs.isEmpty then (.err "nosig", [])
      else openpgpLoop b64 v hdr [] sigs
    | _ => legacy v hdr p.content p.md.signature

/-- `Package::verify_signature` with a pure verifier function -/
def verifySignature (md5 sha1 sha256 : Bytes → Bytes) (b64 : Bytes → Option Bytes) (v : Bytes → Bytes → Bool)
    (p : Package) : Out Unit × List Consult :=
  verifySignatureS md5 sha1 sha256 b64 (fun _ => v) p

/-! ### the same with `signature::echo_signature` (`src/rpm/signature/mod.rs`) in place -/

/-- `&signature[..n]`: an upper bound beyond the length panics -/
def sliceTo (sig : Bytes) (n : Nat) : Out Bytes :=
  if n ≤ sig.length then .ok (sig.take n) else .panic "slice-end-out-of-range"

/-- `echo_signature(scope, signature)` under a Debug logger: the values formatted — `signature.len()` and
`&signature[..signature.len().min(N)]`, N scraped from the source (`Gen.echoPrefixLen`) -/
def echoSignature (sig : Bytes) : Out (Nat × Bytes) := do
  let pre ← sliceTo sig (min sig.length Gen.echoPrefixLen)
  pure (sig.length, pre)

/-- `echo_signature(..); verifier.verify(data, sig)?` over a list of steps; `ech` = what was echoed so far -/
def runConsultsE (v : Verifier) (pre : List Consult) (ech : List (Nat × Bytes)) :
    List (Bytes × Bytes × Bool) → Out Unit × List Consult × List (Nat × Bytes)
  | [] => (.ok (), pre, ech)
  | (data, sig, pgp) :: rest =>
    match echoSignature sig with
    | .err c => (.err c, pre, ech)
    | .panic s => (.panic s, pre, ech)
    | .ok e =>
      let c : Consult := ⟨data, sig, v pre data sig, pgp⟩
      if c.accepted then runConsultsE v (pre ++ [c]) (ech ++ [e]) rest
      else (.err "verify", pre ++ [c], ech ++ [e])

/-- the OPENPGP loop: `decode_sig(..)?; echo_signature(..); verifier.verify(..)?` -/
def openpgpLoopE (b64 : Bytes → Option Bytes) (v : Verifier) (hdr : Bytes) (pre : List Consult) (ech : List (Nat × Bytes)) :
    List Bytes → Out Unit × List Consult × List (Nat × Bytes)
  | [] => (.ok (), pre, ech)
  | s :: rest =>
    match b64 s with
    | none => (.err "base64", pre, ech)
    | some sig =>
      match echoSignature sig with
      | .err c => (.err c, pre, ech)
      | .panic s => (.panic s, pre, ech)
      | .ok e =>
        let c : Consult := ⟨hdr, sig, v pre hdr sig, false⟩
        if c.accepted then openpgpLoopE b64 v hdr (pre ++ [c]) (ech ++ [e]) rest
        else (.err "verify", pre ++ [c], ech ++ [e])

/-- `Package::verify_signature` with the echo calls: (result, consult log, echoed (length, prefix) pairs) -/
def verifySignatureSE (md5 sha1 sha256 : Bytes → Bytes) (b64 : Bytes → Option Bytes) (v : Verifier) (p : Package) :
    Out Unit × List Consult × List (Nat × Bytes) :=
  let hdr := writeHeader p.md.header
  match verifyDigests md5 sha1 sha256 p with
  | .err c => (.err c, [], [])
  | .panic s => (.panic s, [], [])
  | .ok _ =>
    match getStringArray p.md.signature SigTag.RPMSIGTAG_OPENPGP with
    | .ok sigs =>
      if sigs.isEmpty then (.err "nosig", [], [])
      else openpgpLoopE b64 v hdr [] [] sigs
    | _ =>
      let rsa := getBinary p.md.signature SigTag.RPMSIGTAG_RSA
      let eddsa := getBinary p.md.signature SigTag.RPMSIGTAG_DSA
      let v3 := getBinary p.md.signature SigTag.RPMSIGTAG_PGP
      if !rsa.isOk && !eddsa.isOk && !v3.isOk then (.err "nosig", [], [])
      else runConsultsE v [] [] (stepOf eddsa hdr false ++ stepOf rsa hdr false ++ stepOf v3 (hdr ++ p.content) true)

/-! ## rpm-rs's `Verifier::verify` -/

/-- what the model needs to know about OpenPGP (all abstract):
* `issuers sig`   `parse_signature` + `signature.issuer()`: `none` = no signature packet could be parsed;
* `early k sig`   `pgp::Signature::verify` fails before reading any data;
* `check k d sig` the real cryptographic check of `sig` over the bytes `d` with key `k` -/
structure PgpEnv (K : Type) where
  kid : K → Nat
  issuers : Bytes → Option (List Nat)
  early : K → Bytes → Bool
  check : K → Bytes → Bytes → Bool

/-- `SignedPublicKey`: the primary key and its subkeys -/
structure KeyRing (K : Type) where
  primary : K
  subkeys : List K

/-- one `signature.verify(key, reader)` -/
structure Attempt (K : Type) where
  key : K
  /-- the bytes the attempt hashed (nothing if it failed before hashing) -/
  seen : Bytes
  early : Bool
  ok : Bool

/-- one `signature.verify(key, data)` over the whole buffered data: (verdict, log entry) -/
def attempt {K} (E : PgpEnv K) (k : K) (data sig : Bytes) : Bool × Attempt K :=
  if E.early k sig then (false, ⟨k, [], true, false⟩)
  else (E.check k data sig, ⟨k, data, false, E.check k data sig⟩)

/-- `for sub_key in &self.public_key.public_subkeys` for one issuer id: `(found, some-attempt-failed, log)` -/
def subkeyLoop {K} (E : PgpEnv K) (data sig : Bytes) (id : Nat) :
    List K → Bool → List (Attempt K) → Bool × Bool × List (Attempt K)
  | [], failed, log => (false, failed, log)
  | k :: ks, failed, log =>
    if E.kid k = id then
      if (attempt E k data sig).1 then (true, failed, log ++ [(attempt E k data sig).2])
      else subkeyLoop E data sig id ks true (log ++ [(attempt E k data sig).2])
    else subkeyLoop E data sig id ks failed log

/-- `for key_id in key_ids` -/
def issuerLoop {K} (E : PgpEnv K) (ring : KeyRing K) (data sig : Bytes) :
    List Nat → Bool → List (Attempt K) → Out Unit × List (Attempt K)
  | [], failed, log => (.err (if failed then "verify" else "keynotfound"), log)
  | id :: ids, failed, log =>
    if E.kid ring.primary = id then
      (if (attempt E ring.primary data sig).1 then .ok () else .err "verify", log ++ [(attempt E ring.primary data sig).2])
    else
      match subkeyLoop E data sig id ring.subkeys failed log with
      | (true, _, log') => (.ok (), log')
      | (false, failed', log') => issuerLoop E ring data sig ids failed' log'

/-- `impl Verifying for Verifier { fn verify }` (after fix c25de51) -/
def pgpVerifierVerify {K} (E : PgpEnv K) (ring : KeyRing K) (data sig : Bytes) : Out Unit × List (Attempt K) :=
  match E.issuers sig with
  | none => (.err "nosig", [])
  | some [] =>
    (if (attempt E ring.primary data sig).1 then .ok () else .err "verify", [(attempt E ring.primary data sig).2])
  | some ids => issuerLoop E ring data sig ids false []

/-! ### `Verifier::verify` with `parse_signature` spelled out (framing → first Signature packet)

`PgpEnv` above treats "parse the blob, take the issuers / check the signature" as opaque functions of the WHOLE blob.
`PgpPkt` opens that box as far as rpm-rs's own code goes: the blob is framed by `split_packets`, the `pgp` crate's parser
is asked about ONE packet at a time (`parsePkt`, a parameter), the first packet it returns as a signature is THE signature
(`Pgp.parseSignature`), and everything after that — `issuer()`, `verify(key, data)` — is a function of that parsed
signature `s : σ` alone, never of the blob again. -/

/-- the `pgp` crate, one packet at a time:
* `parsePkt p`      `PacketParser::new(Cursor::new(p)).next()` is `Some(Ok(Packet::Signature(s)))`;
* `issuers s`       `s.issuer()` (key ids);
* `early k s` / `check k d s`   as in `PgpEnv`, for the parsed signature -/
structure PgpPkt (K σ : Type) where
  kid : K → Nat
  parsePkt : Bytes → Option σ
  issuers : σ → List Nat
  early : K → σ → Bool
  check : K → Bytes → σ → Bool

/-- the code after `let signature = Self::parse_signature(signature)?;` only uses the parsed signature -/
def PgpPkt.envAt {K σ} (E : PgpPkt K σ) (s : σ) : PgpEnv K where
  kid := E.kid
  issuers := fun _ => some (E.issuers s)
  early := fun k _ => E.early k s
  check := fun k d _ => E.check k d s

/-- `impl Verifying for Verifier { fn verify }`: `parse_signature(blob)?`, then the key selection on the parsed signature -/
def pgpVerifierVerifyP {K σ} (E : PgpPkt K σ) (ring : KeyRing K) (data blob : Bytes) : Out Unit × List (Attempt K) :=
  match Pgp.parseSignature E.parsePkt blob with
  | none => (.err "nosig", [])
  | some s => pgpVerifierVerify (E.envAt s) ring data blob

/-- the opaque environment this amounts to: every field parses the blob (again) and looks at the first signature
packet (`pgpVerifierVerifyP_eq_toEnv` in Lemmas/PgpVerifier.lean: same function) -/
def PgpPkt.toEnv {K σ} (E : PgpPkt K σ) : PgpEnv K where
  kid := E.kid
  issuers := fun blob => (Pgp.parseSignature E.parsePkt blob).map E.issuers
  early := fun k blob => match Pgp.parseSignature E.parsePkt blob with | some s => E.early k s | none => true
  check := fun k d blob => match Pgp.parseSignature E.parsePkt blob with | some s => E.check k d s | none => false

/-! ### the code before c25de51 (negative witnesses only) -/

/-- an attempt on a reader holding `rd`: (verdict, what is left in the reader, log entry) -/
def attemptOld {K} (E : PgpEnv K) (k : K) (rd sig : Bytes) : Bool × Bytes × Attempt K :=
  if E.early k sig then (false, rd, ⟨k, [], true, false⟩)
  else (E.check k rd sig, [], ⟨k, rd, false, E.check k rd sig⟩)

/-- `for sub_key in &self.public_key.public_subkeys` for one issuer id: `(found, reader, some-attempt-failed, log)` -/
def subkeyLoopOld {K} (E : PgpEnv K) (sig : Bytes) (id : Nat) :
    List K → Bytes → Bool → List (Attempt K) → Bool × Bytes × Bool × List (Attempt K)
  | [], rd, failed, log => (false, rd, failed, log)
  | k :: ks, rd, failed, log =>
    if E.kid k = id then
      let (r, rd', a) := attemptOld E k rd sig
      if r then (true, rd', failed, log ++ [a])
      else subkeyLoopOld E sig id ks rd' true (log ++ [a])
    else subkeyLoopOld E sig id ks rd failed log

/-- `for key_id in key_ids` -/
def issuerLoopOld {K} (E : PgpEnv K) (ring : KeyRing K) (sig : Bytes) :
    List Nat → Bytes → Bool → List (Attempt K) → Out Unit × List (Attempt K)
  | [], _, failed, log => (.err (if failed then "verify" else "keynotfound"), log)
  | id :: ids, rd, failed, log =>
    if E.kid ring.primary = id then
      let (r, _, a) := attemptOld E ring.primary rd sig
      (if r then .ok () else .err "verify", log ++ [a])
    else
      match subkeyLoopOld E sig id ring.subkeys rd failed log with
      | (true, _, _, log') => (.ok (), log')
      | (false, rd', failed', log') => issuerLoopOld E ring sig ids rd' failed' log'

/-- `impl Verifying for Verifier { fn verify }` BEFORE fix c25de51 (shared reader) -/
def pgpVerifierVerifyOld {K} (E : PgpEnv K) (ring : KeyRing K) (data sig : Bytes) : Out Unit × List (Attempt K) :=
  match E.issuers sig with
  | none => (.err "nosig", [])
  | some [] =>
    let (r, _, a) := attemptOld E ring.primary data sig
    (if r then .ok () else .err "verify", [a])
  | some ids => issuerLoopOld E ring sig ids data false []

end RpmVerif.Verify
