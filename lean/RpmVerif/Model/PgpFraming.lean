import RpmVerif.Model.Basic
/-!
# OpenPGP packet framing of a signature blob — model of `split_packets` (src/rpm/signature/pgp.rs)

Since fix 549074e `Verifier::parse_signature` no longer hands the raw blob (an `RPMSIGTAG_RSA/DSA/PGP` entry or a
base64-decoded `RPMSIGTAG_OPENPGP` string — attacker-chosen bytes) to the `pgp` crate's packet parser, which allocates
the length a packet header DECLARES before reading the body. It first splits the blob into packets itself (RFC 4880
§4.2) and gives the parser one packet at a time; broken framing is `NoSignatureFound`.

`packetLens` mirrors the two `match`es (new format: one-octet, two-octet, five-octet lengths, partial lengths refused;
old format: length types 0–3), `splitAux` the `while let [tag, rest @ ..] = blob` loop.
-/
namespace RpmVerif.Pgp

/-- (header length, body length) declared by the packet that starts the blob; `none` = broken framing -/
def packetLens : Bytes → Option (Nat × Nat)
  | [] => none
  | tag :: rest =>
    if tag.toNat &&& 0x80 = 0 then none
    else if tag.toNat &&& 0x40 ≠ 0 then
      -- new format
      match rest with
      | [] => none
      | a :: r1 =>
        if a.toNat < 192 then some (2, a.toNat)
        else match r1 with
          | [] => none
          | b :: r2 =>
            if a.toNat < 224 then some (3, ((a.toNat - 192) <<< 8) + b.toNat + 192)
            else if a.toNat = 255 then
              match r2 with
              | c :: d :: e :: _ => some (6, ((b.toNat * 256 + c.toNat) * 256 + d.toNat) * 256 + e.toNat)
              | _ => none
            else none   -- 224..254: partial body length
    else
      -- old format: the low two bits select the length type
      match tag.toNat &&& 3, rest with
      | 0, a :: _ => some (2, a.toNat)
      | 1, a :: b :: _ => some (3, a.toNat * 256 + b.toNat)
      | 2, a :: b :: c :: d :: _ => some (5, ((a.toNat * 256 + b.toNat) * 256 + c.toNat) * 256 + d.toNat)
      | 3, _ => some (1, rest.length)
      | _, _ => none

/-- the loop; `fuel` bounds the number of packets (each takes at least its tag byte) -/
def splitAux : Nat → Bytes → Option (List Bytes)
  | 0, _ => none
  | _ + 1, [] => some []
  | fuel + 1, t :: r =>
    match packetLens (t :: r) with
    | none => none
    | some (h, b) =>
      if h + b ≤ (t :: r).length then
        (splitAux fuel ((t :: r).drop (h + b))).map ((t :: r).take (h + b) :: ·)
      else none

/-- `split_packets(blob)` -/
def splitPackets (blob : Bytes) : Option (List Bytes) := splitAux (blob.length + 1) blob

/-! ## `Verifier::parse_signature` — framing, then the FIRST packet that parses as a Signature

```rust
split_packets(signature).ok_or(Error::NoSignatureFound)?
    .into_iter()
    .find_map(|packet| match pgp::packet::PacketParser::new(io::Cursor::new(packet)).next() {
        Some(Ok(::pgp::packet::Packet::Signature(sig_packet))) => Some(sig_packet),
        _ => None,
    })
    .ok_or(Error::NoSignatureFound)
```

The `pgp` crate's packet parser is a PARAMETER: `parsePkt packet = some s` iff the first item the parser yields on the
bytes of that ONE packet is `Ok(Packet::Signature(s))`; a parse error, another packet type and "no item" are all `none`
(the closure's `_ => None`). `σ` is whatever the callers read from a parsed signature (`issuer()`, `config.pub_alg`,
`verify(key, data)`); `none` of the result = `Error::NoSignatureFound`, for broken framing and for "no packet parses as
a signature" alike. -/

/-- `Verifier::parse_signature` -/
def parseSignature {σ : Type} (parsePkt : Bytes → Option σ) (blob : Bytes) : Option σ :=
  match splitPackets blob with
  | none => none
  | some packets => packets.findSome? parsePkt

/-- the packets the `find_map` closure is called with, in call order: `find_map` stops at the first `Some` -/
def consulted {σ : Type} (parsePkt : Bytes → Option σ) : List Bytes → List Bytes
  | [] => []
  | p :: ps => if (parsePkt p).isSome then [p] else p :: consulted parsePkt ps

/-- every byte string the OpenPGP parser is handed by `parse_signature(blob)` (nothing at all on broken framing) -/
def parserCalls {σ : Type} (parsePkt : Bytes → Option σ) (blob : Bytes) : List Bytes :=
  match splitPackets blob with
  | none => []
  | some packets => consulted parsePkt packets

end RpmVerif.Pgp
