import RpmVerif.Model.Utf8
import RpmVerif.Gen.Constants
/-!
# L1/L2: lead and header (index + store) — model of `src/rpm/headers/{lead,header}.rs`

Mirrors the code as it is in /repo now (after the `fix:` commits): `Lead::parse/write`,
`IndexHeader::parse/write`, `IndexEntry::parse/write_index`, `Header::parse/parse_header/write`,
`Header<IndexSignatureTag>::{new_empty, clear, parse_signature, write_signature, padding_required}`.
Numbers are `Nat`; widths are explicit where the code's width is observable.
-/
namespace RpmVerif.Hdr
open RpmVerif.Gen

/-- `IndexData`; strings are kept as the bytes of the Rust `String` (after `from_utf8_lossy`) -/
inductive IndexData where
  | null
  | char (d : Bytes)
  | int8 (d : Bytes)
  | int16 (d : List Nat)
  | int32 (d : List Nat)
  | int64 (d : List Nat)
  | str (s : Bytes)
  | bin (d : Bytes)
  | strArray (l : List Bytes)
  | i18n (l : List Bytes)
  deriving DecidableEq, Repr

/-- `IndexData::type_as_u32` -/
def IndexData.typeCode : IndexData → Nat
  | .null => 0 | .char _ => 1 | .int8 _ => 2 | .int16 _ => 3 | .int32 _ => 4 | .int64 _ => 5
  | .str _ => 6 | .bin _ => 7 | .strArray _ => 8 | .i18n _ => 9

/-- `IndexEntry` : `off` is the raw 32-bit pattern of the `i32` offset -/
structure Entry where
  tag : Nat
  data : IndexData
  off : Nat
  cnt : Nat
  deriving DecidableEq, Repr

/-- `Header<T>`: `index_header.{num_entries, data_section_size}`, entries, store.
(`magic` and `version` of `IndexHeader` are constants after every constructor.) -/
structure Header where
  nEntries : Nat
  dataSize : Nat
  entries : List Entry
  store : Bytes
  deriving DecidableEq, Repr

/-! ## intro -/

/-- `IndexHeader::parse` on the 16-byte intro: returns (num_entries, data_section_size) -/
def parseIntro (b : Bytes) : Out (Nat × Nat) :=
  match b with
  | m0 :: m1 :: m2 :: ver :: _ :: _ :: _ :: _ :: r =>
    if [m0, m1, m2] ≠ HEADER_MAGIC then .err "magic"
    else if ver ≠ 1 then .err "version"
    else do
      let (n, r) ← rd32 r
      let (dl, _) ← rd32 r
      pure (n, dl)
  | _ => .err "eof"

def writeIntro (n dl : Nat) : Bytes := HEADER_MAGIC ++ [1] ++ [0, 0, 0, 0] ++ be32 n ++ be32 dl

/-! ## index entries -/

/-- `IndexEntry::parse` without the data (filled in by `decode` afterwards): (tag, type, off, cnt) -/
def parseEntryRaw (bs : Bytes) : Out ((Nat × Nat × Nat × Nat) × Bytes) := do
  let (tag, bs) ← rd32 bs
  let (ty, bs) ← rd32 bs
  if ty > 9 then .err "tagtype" else
  let (off, bs) ← rd32 bs
  let (cnt, bs) ← rd32 bs
  pure ((tag, ty, off, cnt), bs)

def parseEntriesRaw : Nat → Bytes → Out (List (Nat × Nat × Nat × Nat) × Bytes)
  | 0, bs => pure ([], bs)
  | k + 1, bs => do
    let (e, bs) ← parseEntryRaw bs
    let (es, bs) ← parseEntriesRaw k bs
    pure (e :: es, bs)

/-- `IndexEntry::write_index` (as bytes; the four `write` calls are the subject of C14) -/
def writeEntry (e : Entry) : Bytes := be32 e.tag ++ be32 e.data.typeCode ++ be32 e.off ++ be32 e.cnt

/-! ## data decoding (`parse_header`, second loop) -/

/-- nom `take_till(|b| b == 0)`: longest NUL-free prefix and the rest (starting at the NUL, if any) -/
def takeTill0 : Bytes → Bytes × Bytes
  | [] => ([], [])
  | b :: r => if b = 0 then ([], b :: r) else
      let (a, rest) := takeTill0 r
      (b :: a, rest)

def rdN16 : Nat → Bytes → Out (List Nat)
  | 0, _ => pure []
  | k + 1, bs => do let (x, bs) ← rd16 bs; let xs ← rdN16 k bs; pure (x :: xs)
def rdN32 : Nat → Bytes → Out (List Nat)
  | 0, _ => pure []
  | k + 1, bs => do let (x, bs) ← rd32 bs; let xs ← rdN32 k bs; pure (x :: xs)
def rdN64 : Nat → Bytes → Out (List Nat)
  | 0, _ => pure []
  | k + 1, bs => do let (x, bs) ← rd64 bs; let xs ← rdN64 k bs; pure (x :: xs)

/-- `cnt` NUL-terminated strings; a string without terminator is an error (`rest.get(1..)`) -/
def rdStrings : Nat → Bytes → Out (List Bytes)
  | 0, _ => pure []
  | k + 1, bs =>
    let (s, rest) := takeTill0 bs
    match rest with
    | [] => .err "unterminated"
    | _ :: rest' => do let ss ← rdStrings k rest'; pure (Utf8.lossy s :: ss)

/-- `parse_binary_entry` -/
def rdBin (cnt : Nat) (bs : Bytes) : Out Bytes :=
  if cnt ≤ bs.length then .ok (bs.take cnt) else .err "short-bin"

/-- decode the data of one entry from the store -/
def decode (store : Bytes) (ty off cnt : Nat) : Out IndexData :=
  -- usize::try_from(offset: i32) fails for negative offsets; `bytes.get(offset..)` beyond the end
  if off ≥ 2147483648 ∨ off > store.length then .err "offset" else
  let rem := store.drop off
  match ty with
  | 0 => .ok .null
  | 1 => (rdBin cnt rem).map .char
  | 2 => (rdBin cnt rem).map .int8
  | 3 => (rdN16 cnt rem).map .int16
  | 4 => (rdN32 cnt rem).map .int32
  | 5 => (rdN64 cnt rem).map .int64
  | 6 => .ok (.str (Utf8.lossy (takeTill0 rem).1))
  | 7 => (rdBin cnt rem).map .bin
  | 8 => (rdStrings cnt rem).map .strArray
  | 9 => (rdStrings cnt rem).map .i18n
  | _ => .err "tagtype"

def decodeAll (store : Bytes) : List (Nat × Nat × Nat × Nat) → Out (List Entry)
  | [] => pure []
  | (tag, ty, off, cnt) :: r => do
    let d ← decode store ty off cnt
    let es ← decodeAll store r
    pure (⟨tag, d, off, cnt⟩ :: es)

/-- `Header::parse`: intro (16 bytes), then exactly `dl + 16 n` bytes, then `parse_header`.
Returns the header and the unread rest of the input. -/
def parseHeader (bs : Bytes) : Out (Header × Bytes) := do
  let (intro, r) ← takeN INDEX_HEADER_SIZE bs
  let (n, dl) ← parseIntro intro
  let (body, rest) ← takeN (dl + n * INDEX_ENTRY_SIZE) r
  let (raw, store) ← parseEntriesRaw n body
  let es ← decodeAll store raw
  pure (⟨n, dl, es, store⟩, rest)

/-- `Header::write` -/
def writeHeader (h : Header) : Bytes :=
  writeIntro h.nEntries h.dataSize ++ (h.entries.map writeEntry).flatten ++ h.store

/-- `Header::<IndexSignatureTag>::new_empty` (header.rs): `IndexHeader::new(0, 0)`, no entries, empty store -/
def Header.empty : Header := ⟨0, 0, [], []⟩

/-- `Header::<IndexSignatureTag>::clear`, statement by statement: `index_entries.clear()`,
`data_section_size = 0`, `num_entries = 0`, `store.clear()` (magic / version are left as they are;
they are constants of the model) -/
def Header.clear (h : Header) : Header :=
  let h := { h with entries := [] }
  let h := { h with dataSize := 0 }
  let h := { h with nEntries := 0 }
  { h with store := [] }

/-- `padding_required` -/
def sigPad (dl : Nat) : Nat := (8 - dl % 8) % 8

/-- `parse_signature`: header, then the padding bytes are read and discarded -/
def parseSignature (bs : Bytes) : Out (Header × Bytes) := do
  let (h, r) ← parseHeader bs
  let (_, r) ← takeN (sigPad h.dataSize) r
  pure (h, r)

/-- `write_signature` -/
def writeSignature (h : Header) : Bytes := writeHeader h ++ List.replicate (sigPad h.dataSize) 0

/-! ## lead -/
structure Lead where
  major : Nat
  minor : Nat
  ptype : Nat
  arch : Nat
  name : Bytes      -- 66 bytes
  os : Nat
  sigtype : Nat
  reserved : Bytes  -- 16 bytes
  deriving DecidableEq, Repr

/-- `Lead::parse` on the 96-byte buffer -/
def parseLead (b : Bytes) : Out Lead := do
  let (magic, r) ← takeN 4 b
  if magic ≠ RPM_MAGIC then .err "magic" else
  let (major, r) ← rd8 r
  let (minor, r) ← rd8 r
  let (ptype, r) ← rd16 r
  let (arch, r) ← rd16 r
  let (name, r) ← takeN 66 r
  let (os, r) ← rd16 r
  let (sigtype, r) ← rd16 r
  -- `rest.try_into().unwrap()`: the buffer is always 96 bytes, so `rest` has 16
  if r.length ≠ 16 then .panic "lead-reserved" else
  pure ⟨major, minor, ptype, arch, name, os, sigtype, r⟩

def writeLead (l : Lead) : Bytes :=
  RPM_MAGIC ++ [l.major.toUInt8] ++ [l.minor.toUInt8] ++ be16 l.ptype ++ be16 l.arch ++ l.name ++
    be16 l.os ++ be16 l.sigtype ++ l.reserved

/-! ## package metadata and package -/
structure Metadata where
  lead : Lead
  signature : Header
  header : Header
  deriving DecidableEq, Repr

structure Package where
  md : Metadata
  content : Bytes
  deriving DecidableEq, Repr

/-- `PackageMetadata::parse` -/
def parseMetadata (bs : Bytes) : Out (Metadata × Bytes) := do
  let (lb, r) ← takeN LEAD_SIZE bs
  let lead ← parseLead lb
  let (sig, r) ← parseSignature r
  let (hdr, r) ← parseHeader r
  pure (⟨lead, sig, hdr⟩, r)

/-- `PackageMetadata::write` -/
def writeMetadata (m : Metadata) : Bytes := writeLead m.lead ++ writeSignature m.signature ++ writeHeader m.header

/-- `Package::parse` (`read_to_end` takes whatever follows as content) -/
def parsePackage (bs : Bytes) : Out Package := do
  let (m, r) ← parseMetadata bs
  pure ⟨m, r⟩

/-- `Package::write` -/
def writePackage (p : Package) : Bytes := writeMetadata p.md ++ p.content

/-! ## segment offsets (`Header::size`, `get_package_segment_offsets`; u64 arithmetic) -/

/-- `Header::size` -/
def Header.size (h : Header) : Nat := INDEX_HEADER_SIZE + h.nEntries * INDEX_ENTRY_SIZE + h.dataSize

structure Offsets where
  lead : Nat
  sig : Nat
  hdr : Nat
  payload : Nat
  deriving DecidableEq, Repr

/-- `get_package_segment_offsets` -/
def offsets (m : Metadata) : Offsets :=
  let sigStart := LEAD_SIZE
  let hdrStart := sigStart + m.signature.size + sigPad m.signature.dataSize
  ⟨0, sigStart, hdrStart, hdrStart + m.header.size⟩

end RpmVerif.Hdr
