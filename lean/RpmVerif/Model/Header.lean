import RpmVerif.Model.Utf8
import RpmVerif.Gen.Constants
import RpmVerif.Gen.AllocSites
/-!
# L1/L2: lead and header (index + store) — model of `src/rpm/headers/{lead,header}.rs`

Mirrors the code as it is in /repo now (after the `fix:` commits): `Lead::parse/write`,
`IndexHeader::parse/write`, `IndexEntry::parse/write_index`, `Header::parse/parse_header/write`,
`Header<IndexSignatureTag>::{new_empty, clear, parse_signature, write_signature, padding_required}`.
Numbers are `Nat`; widths are explicit where the code's width is observable.
-/
namespace RpmVerif.Hdr
open RpmVerif.Gen

/-- `IndexData`; strings are kept as the bytes of the Rust `String` (after `from_utf8_lossy`) -/
inductive IndexData where
  | null
  | char (d : Bytes)
  | int8 (d : Bytes)
  | int16 (d : List Nat)
  | int32 (d : List Nat)
  | int64 (d : List Nat)
  | str (s : Bytes)
  | bin (d : Bytes)
  | strArray (l : List Bytes)
  | i18n (l : List Bytes)
  deriving DecidableEq, Repr

/-- `IndexData::type_as_u32` -/
def IndexData.typeCode : IndexData → Nat
  | .null => 0 | .char _ => 1 | .int8 _ => 2 | .int16 _ => 3 | .int32 _ => 4 | .int64 _ => 5
  | .str _ => 6 | .bin _ => 7 | .strArray _ => 8 | .i18n _ => 9

/-- `IndexEntry` : `off` is the raw 32-bit pattern of the `i32` offset -/
structure Entry where
  tag : Nat
  data : IndexData
  off : Nat
  cnt : Nat
  deriving DecidableEq, Repr

/-- `Header<T>`: `index_header.{num_entries, data_section_size}`, entries, store.
(`magic` and `version` of `IndexHeader` are constants after every constructor.) -/
structure Header where
  nEntries : Nat
  dataSize : Nat
  entries : List Entry
  store : Bytes
  deriving DecidableEq, Repr

/-! ## intro -/

/-- `IndexHeader::parse` on the 16-byte intro: returns (num_entries, data_section_size) -/
def parseIntro (b : Bytes) : Out (Nat × Nat) :=
  match b with
  | m0 :: m1 :: m2 :: ver :: _ :: _ :: _ :: _ :: r =>
    if [m0, m1, m2] ≠ HEADER_MAGIC then .err "magic"
    else if ver ≠ 1 then .err "version"
    else do
      let (n, r) ← rd32 r
      let (dl, _) ← rd32 r
      pure (n, dl)
  | _ => .err "eof"

def writeIntro (n dl : Nat) : Bytes := HEADER_MAGIC ++ [1] ++ [0, 0, 0, 0] ++ be32 n ++ be32 dl

/-! ## index entries -/

/-- `IndexEntry::parse` without the data (filled in by `decode` afterwards): (tag, type, off, cnt) -/
def parseEntryRaw (bs : Bytes) : Out ((Nat × Nat × Nat × Nat) × Bytes) := do
  let (tag, bs) ← rd32 bs
  let (ty, bs) ← rd32 bs
  if ty > 9 then .err "tagtype" else
  let (off, bs) ← rd32 bs
  let (cnt, bs) ← rd32 bs
  pure ((tag, ty, off, cnt), bs)

def parseEntriesRaw : Nat → Bytes → Out (List (Nat × Nat × Nat × Nat) × Bytes)
  | 0, bs => pure ([], bs)
  | k + 1, bs => do
    let (e, bs) ← parseEntryRaw bs
    let (es, bs) ← parseEntriesRaw k bs
    pure (e :: es, bs)

/-- `IndexEntry::write_index` (as bytes; the four `write` calls are the subject of C14) -/
def writeEntry (e : Entry) : Bytes := be32 e.tag ++ be32 e.data.typeCode ++ be32 e.off ++ be32 e.cnt

/-! ## data decoding (`parse_header`, second loop) -/

/-- nom `take_till(|b| b == 0)`: longest NUL-free prefix and the rest (starting at the NUL, if any) -/
def takeTill0 : Bytes → Bytes × Bytes
  | [] => ([], [])
  | b :: r => if b = 0 then ([], b :: r) else
      let (a, rest) := takeTill0 r
      (b :: a, rest)

def rdN16 : Nat → Bytes → Out (List Nat)
  | 0, _ => pure []
  | k + 1, bs => do let (x, bs) ← rd16 bs; let xs ← rdN16 k bs; pure (x :: xs)
def rdN32 : Nat → Bytes → Out (List Nat)
  | 0, _ => pure []
  | k + 1, bs => do let (x, bs) ← rd32 bs; let xs ← rdN32 k bs; pure (x :: xs)
def rdN64 : Nat → Bytes → Out (List Nat)
  | 0, _ => pure []
  | k + 1, bs => do let (x, bs) ← rd64 bs; let xs ← rdN64 k bs; pure (x :: xs)

/-- `cnt` NUL-terminated strings; a string without terminator is an error (`rest.get(1..)`) -/
def rdStrings : Nat → Bytes → Out (List Bytes)
  | 0, _ => pure []
  | k + 1, bs =>
    let (s, rest) := takeTill0 bs
    match rest with
    | [] => .err "unterminated"
    | _ :: rest' => do let ss ← rdStrings k rest'; pure (Utf8.lossy s :: ss)

/-- `parse_binary_entry` -/
def rdBin (cnt : Nat) (bs : Bytes) : Out Bytes :=
  if cnt ≤ bs.length then .ok (bs.take cnt) else .err "short-bin"

/-- decode the data of one entry from the store -/
def decode (store : Bytes) (ty off cnt : Nat) : Out IndexData :=
  -- usize::try_from(offset: i32) fails for negative offsets; `bytes.get(offset..)` beyond the end
  if off ≥ 2147483648 ∨ off > store.length then .err "offset" else
  let rem := store.drop off
  match ty with
  | 0 => .ok .null
  | 1 => (rdBin cnt rem).map .char
  | 2 => (rdBin cnt rem).map .int8
  | 3 => (rdN16 cnt rem).map .int16
  | 4 => (rdN32 cnt rem).map .int32
  | 5 => (rdN64 cnt rem).map .int64
  | 6 => .ok (.str (Utf8.lossy (takeTill0 rem).1))
  | 7 => (rdBin cnt rem).map .bin
  | 8 => (rdStrings cnt rem).map .strArray
  | 9 => (rdStrings cnt rem).map .i18n
  | _ => .err "tagtype"

/-- bytes the loop of a STRING_ARRAY / I18NSTRING entry has consumed when it ends normally (`available - remaining.len()`):
every string and its terminator -/
def strConsumed : Nat → Bytes → Nat
  | 0, _ => 0
  | k + 1, bs =>
    match (takeTill0 bs).2 with
    | [] => 0
    | _ :: rest' => (takeTill0 bs).1.length + 1 + strConsumed k rest'

/-- `used` of the second loop of `parse_header`: the store bytes the entry's data occupies, as the code computes it from
what it has just decoded — the vector's length (× 2 / 4 / 8 for numbers), the string and its terminator (never more than
is there: a string may run to the end of the store), the bytes the string loop went over -/
def decodeUsed (store : Bytes) (off cnt : Nat) : IndexData → Nat
  | .null => 0
  | .char d => d.length
  | .int8 d => d.length
  | .int16 l => 2 * l.length
  | .int32 l => 4 * l.length
  | .int64 l => 8 * l.length
  | .str _ => Nat.min ((takeTill0 (store.drop off)).1.length + 1) (store.length - off)
  | .bin d => d.length
  | .strArray _ => strConsumed cnt (store.drop off)
  | .i18n _ => strConsumed cnt (store.drop off)

/-- the second loop of `parse_header` with its byte budget: every entry's data is decoded, then its `used` bytes are
taken off the budget (`budget.checked_sub(used)`), which starts as the length of the data section; going below zero is
`Error::Nom` (entries that share store bytes — every entry gets its own decoded copy) -/
def decodeAllB (store : Bytes) : Nat → List (Nat × Nat × Nat × Nat) → Out (List Entry)
  | _, [] => pure []
  | budget, (tag, ty, off, cnt) :: r => do
    let d ← decode store ty off cnt
    if decodeUsed store off cnt d > budget then .err "overlap" else
    let es ← decodeAllB store (budget - decodeUsed store off cnt d) r
    pure (⟨tag, d, off, cnt⟩ :: es)

/-- `let mut budget = bytes.len();` and the loop -/
def decodeAll (store : Bytes) (raws : List (Nat × Nat × Nat × Nat)) : Out (List Entry) :=
  decodeAllB store store.length raws

/-- `Header::parse`: intro (16 bytes), then exactly `dl + 16 n` bytes, then `parse_header`.
Returns the header and the unread rest of the input. -/
def parseHeader (bs : Bytes) : Out (Header × Bytes) := do
  let (intro, r) ← takeN INDEX_HEADER_SIZE bs
  let (n, dl) ← parseIntro intro
  let (body, rest) ← takeN (dl + n * INDEX_ENTRY_SIZE) r
  let (raw, store) ← parseEntriesRaw n body
  let es ← decodeAll store raw
  pure (⟨n, dl, es, store⟩, rest)

/-! ## what the reader asks the allocator for (`Header::parse`, `parse_header`, `parse_entry_data_number`, `parse_binary_entry`)

The functions above say WHAT is decoded; these say how much memory the same Rust statements request while doing it —
for every input, also one that is rejected half way. Sizes of the Rust values are those of a 64-bit target
(`String` = `Vec<u8>` = 24 bytes, `IndexEntry<T>` = 48 bytes). The expressions that size a request from untrusted
fields are not typed in here: they are scraped from the source (`Gen/AllocSites.lean`, tools/gen/alloc_sites.py). -/

/-- `parse_entry_data_number`: `items.reserve_exact(<scraped expression>)` — ELEMENTS reserved before the loop reads a
single item (so also when the loop then fails); `remLen` = `input.len()`, the store bytes from the entry's offset on -/
def reserveOf (cnt remLen : Nat) : Nat := reserveArg cnt remLen

/-- size in bytes of one element of the vector a numeric entry is decoded into (`u16`, `u32`, `u64`) -/
def elemBytes : Nat → Nat
  | 3 => 2 | 4 => 4 | 5 => 8 | _ => 1

/-- bytes one `decode` call requests UP FRONT, before it has looked at the data. Only the three numeric types reserve;
`parse_binary_entry` checks `input.get(..num_items)` first and `extend_from_slice`s what it found, strings are pushed
one by one (both are accounted in `IndexData.keptBytes` of what was really decoded). -/
def decodeReserve (store : Bytes) (ty off cnt : Nat) : Nat :=
  if off ≥ 2147483648 ∨ off > store.length then 0 else
  match ty with
  | 3 => elemBytes 3 * reserveOf cnt (store.length - off)
  | 4 => elemBytes 4 * reserveOf cnt (store.length - off)
  | 5 => elemBytes 5 * reserveOf cnt (store.length - off)
  | _ => 0

/-- size of a Rust `String` / `Vec` value itself (pointer, capacity, length) -/
def STRING_HEADER_BYTES : Nat := 24
/-- `size_of::<IndexEntry<T>>()`: tag, `IndexData` (discriminant + a `Vec`), offset, count -/
def INDEX_ENTRY_VALUE_BYTES : Nat := 48

/-- bytes of heap data a decoded value keeps alive (contents; plus the 24-byte `String` value per array element) -/
def IndexData.keptBytes : IndexData → Nat
  | .null => 0
  | .char d => d.length | .int8 d => d.length | .bin d => d.length
  | .int16 l => 2 * l.length | .int32 l => 4 * l.length | .int64 l => 8 * l.length
  | .str s => s.length
  | .strArray l => (l.map fun s => STRING_HEADER_BYTES + s.length).sum
  | .i18n l => (l.map fun s => STRING_HEADER_BYTES + s.length).sum

/-- heap data a `Header` value keeps besides its store: the decoded copy of every entry's data -/
def Header.keptBytes (h : Header) : Nat := (h.entries.map fun e => e.data.keptBytes).sum

/-- the `decode` calls the second loop of `parse_header` makes: it returns at the first entry it rejects — because its
data does not decode, or because the budget does not cover it (that entry WAS decoded) -/
def decodeCallsB (store : Bytes) : Nat → List (Nat × Nat × Nat × Nat) → List (Nat × Nat × Nat × Nat)
  | _, [] => []
  | budget, (tag, ty, off, cnt) :: r =>
    match decode store ty off cnt with
    | .ok d =>
      if decodeUsed store off cnt d > budget then [(tag, ty, off, cnt)]
      else (tag, ty, off, cnt) :: decodeCallsB store (budget - decodeUsed store off cnt d) r
    | _ => [(tag, ty, off, cnt)]

def decodeCalls (store : Bytes) (raws : List (Nat × Nat × Nat × Nat)) : List (Nat × Nat × Nat × Nat) :=
  decodeCallsB store store.length raws

/-- bytes of the `String`s a string-array entry has pushed when its loop ends — by reaching the count, or by meeting a
string without terminator (the entry is then rejected, but the strings before it were built) -/
def stringsPushed : Nat → Bytes → Nat
  | 0, _ => 0
  | k + 1, bs =>
    match (takeTill0 bs).2 with
    | [] => 0
    | _ :: rest' => STRING_HEADER_BYTES + (Utf8.lossy (takeTill0 bs).1).length + stringsPushed k rest'

/-- what a REJECTED `decode` call had built when it failed, beyond its up-front reservation: the strings of a string
array (numbers are pushed into the reserved capacity; `parse_binary_entry` allocates only after its bounds check) -/
def decodePartial (store : Bytes) (ty off cnt : Nat) : Nat :=
  if off ≥ 2147483648 ∨ off > store.length then 0 else
  match ty with
  | 8 => stringsPushed cnt (store.drop off)
  | 9 => stringsPushed cnt (store.drop off)
  | _ => 0

/-- decoded bytes alive when the second loop ends (normally or by rejection; the entry the budget refuses has been
decoded and is alive when the error is made) -/
def keptOfCallsB (store : Bytes) : Nat → List (Nat × Nat × Nat × Nat) → Nat
  | _, [] => 0
  | budget, (_, ty, off, cnt) :: r =>
    match decode store ty off cnt with
    | .ok d =>
      if decodeUsed store off cnt d > budget then d.keptBytes
      else d.keptBytes + keptOfCallsB store (budget - decodeUsed store off cnt d) r
    | _ => decodePartial store ty off cnt

def keptOfCalls (store : Bytes) (raws : List (Nat × Nat × Nat × Nat)) : Nat := keptOfCallsB store store.length raws

/-- index entries the first loop of `parse_header` has pushed when it ends (it stops at an unknown data type) -/
def rawPushed : Nat → Bytes → Nat
  | 0, _ => 0
  | k + 1, bs =>
    match parseEntryRaw bs with
    | .ok (_, r) => 1 + rawPushed k r
    | _ => 0

/-- what one `Header::parse` call requested, whatever its outcome -/
structure ParseAcct where
  /-- capacity `buf` is created with (0: `Vec::new()`) -/
  upFront : Nat
  /-- bytes `take(size_rest).read_to_end(&mut buf)` appended to `buf` -/
  buffered : Nat
  /-- `Vec::from(bytes)`: the store copy -/
  storeCopy : Nat
  /-- `IndexEntry` values pushed by the first loop -/
  entries : Nat
  /-- bytes reserved up front by each `decode` call, in call order -/
  reserves : List Nat
  /-- decoded data alive at the end of the second loop -/
  kept : Nat
  deriving Repr, DecidableEq

/-- `Header::parse`, statement by statement, as an allocation account (same control flow as `parseHeader`) -/
def parseHeaderAcct (bs : Bytes) : ParseAcct :=
  match takeN INDEX_HEADER_SIZE bs with
  | .ok (intro, r) =>
    match parseIntro intro with
    | .ok (n, dl) =>
      let want := sizeRest dl n
      let up := parseBufUpFront dl n want
      -- `read_to_end` behind `take(size_rest)`: never more than `size_rest`, never more than is there
      let got := if parseReadBounded then Nat.min want r.length else r.length
      match takeN want r with
      | .ok (body, _) =>
        match parseEntriesRaw n body with
        | .ok (raws, store) =>
          let calls := decodeCalls store raws
          ⟨up, got, store.length, n, calls.map (fun c => decodeReserve store c.2.1 c.2.2.1 c.2.2.2), keptOfCalls store raws⟩
        | _ => ⟨up, got, 0, rawPushed n body, [], 0⟩
      | _ => ⟨up, got, 0, 0, [], 0⟩
    | _ => ⟨0, 0, 0, 0, [], 0⟩
  | _ => ⟨0, 0, 0, 0, [], 0⟩

/-- the largest single request of the account, in bytes -/
def ParseAcct.maxSingle (a : ParseAcct) : Nat :=
  (a.reserves.foldl Nat.max 0) |>.max a.upFront |>.max a.buffered |>.max a.storeCopy |>.max (INDEX_ENTRY_VALUE_BYTES * a.entries)

/-- bytes alive together at the end of `parse_header`: buffer, store copy, entry values, decoded data, and one
reservation (that of a call which then failed is not part of `kept`) -/
def ParseAcct.live (a : ParseAcct) : Nat :=
  Nat.max a.upFront a.buffered + a.storeCopy + INDEX_ENTRY_VALUE_BYTES * a.entries + a.kept + a.reserves.foldl Nat.max 0

/-- `Header::write` -/
def writeHeader (h : Header) : Bytes :=
  writeIntro h.nEntries h.dataSize ++ (h.entries.map writeEntry).flatten ++ h.store

/-- `Header::<IndexSignatureTag>::new_empty` (header.rs): `IndexHeader::new(0, 0)`, no entries, empty store -/
def Header.empty : Header := ⟨0, 0, [], []⟩

/-- `Header::<IndexSignatureTag>::clear`, statement by statement: `index_entries.clear()`,
`data_section_size = 0`, `num_entries = 0`, `store.clear()` (magic / version are left as they are;
they are constants of the model) -/
def Header.clear (h : Header) : Header :=
  let h := { h with entries := [] }
  let h := { h with dataSize := 0 }
  let h := { h with nEntries := 0 }
  { h with store := [] }

/-- `padding_required` -/
def sigPad (dl : Nat) : Nat := (8 - dl % 8) % 8

/-- `parse_signature`: header, then the padding bytes are read and discarded -/
def parseSignature (bs : Bytes) : Out (Header × Bytes) := do
  let (h, r) ← parseHeader bs
  let (_, r) ← takeN (sigPad h.dataSize) r
  pure (h, r)

/-- `write_signature` -/
def writeSignature (h : Header) : Bytes := writeHeader h ++ List.replicate (sigPad h.dataSize) 0

/-! ## lead -/
structure Lead where
  major : Nat
  minor : Nat
  ptype : Nat
  arch : Nat
  name : Bytes      -- 66 bytes
  os : Nat
  sigtype : Nat
  reserved : Bytes  -- 16 bytes
  deriving DecidableEq, Repr

/-- `Lead::parse` on the 96-byte buffer -/
def parseLead (b : Bytes) : Out Lead := do
  let (magic, r) ← takeN 4 b
  if magic ≠ RPM_MAGIC then .err "magic" else
  let (major, r) ← rd8 r
  let (minor, r) ← rd8 r
  let (ptype, r) ← rd16 r
  let (arch, r) ← rd16 r
  let (name, r) ← takeN 66 r
  let (os, r) ← rd16 r
  let (sigtype, r) ← rd16 r
  -- `rest.try_into().unwrap()`: the buffer is always 96 bytes, so `rest` has 16
  if r.length ≠ 16 then .panic "lead-reserved" else
  pure ⟨major, minor, ptype, arch, name, os, sigtype, r⟩

def writeLead (l : Lead) : Bytes :=
  RPM_MAGIC ++ [l.major.toUInt8] ++ [l.minor.toUInt8] ++ be16 l.ptype ++ be16 l.arch ++ l.name ++
    be16 l.os ++ be16 l.sigtype ++ l.reserved

/-! ## package metadata and package -/
structure Metadata where
  lead : Lead
  signature : Header
  header : Header
  deriving DecidableEq, Repr

structure Package where
  md : Metadata
  content : Bytes
  deriving DecidableEq, Repr

/-- `PackageMetadata::parse` -/
def parseMetadata (bs : Bytes) : Out (Metadata × Bytes) := do
  let (lb, r) ← takeN LEAD_SIZE bs
  let lead ← parseLead lb
  let (sig, r) ← parseSignature r
  let (hdr, r) ← parseHeader r
  pure (⟨lead, sig, hdr⟩, r)

/-- `PackageMetadata::write` -/
def writeMetadata (m : Metadata) : Bytes := writeLead m.lead ++ writeSignature m.signature ++ writeHeader m.header

/-- `Package::parse` (`read_to_end` takes whatever follows as content) -/
def parsePackage (bs : Bytes) : Out Package := do
  let (m, r) ← parseMetadata bs
  pure ⟨m, r⟩

/-! ## allocation account of `PackageMetadata::parse` / `Package::parse` -/

/-- the header accounts in call order (signature header, then — if that one was accepted and its padding is there — the
main header) and the bytes `read_to_end` keeps as `content` -/
structure PkgAcct where
  headers : List ParseAcct
  content : Nat
  deriving Repr, DecidableEq

/-- same control flow as `parseMetadata` / `parsePackage` (the lead is a 96-byte array on the stack) -/
def parsePackageAcct (bs : Bytes) : PkgAcct :=
  match takeN LEAD_SIZE bs with
  | .ok (lb, r) =>
    match parseLead lb with
    | .ok _ =>
      match parseSignature r with
      | .ok (_, r2) =>
        match parseHeader r2 with
        | .ok (_, rest) => ⟨[parseHeaderAcct r, parseHeaderAcct r2], rest.length⟩
        | _ => ⟨[parseHeaderAcct r, parseHeaderAcct r2], 0⟩
      | _ => ⟨[parseHeaderAcct r], 0⟩
    | _ => ⟨[], 0⟩
  | _ => ⟨[], 0⟩

/-- decoded entry data the package value keeps (at most 48 bytes per input byte per header: `C04.kept_le_linear`) -/
def PkgAcct.dataKept (p : PkgAcct) : Nat := (p.headers.map fun a => a.kept).sum
/-- bytes the parsed value keeps: stores, entry values, decoded data, content (a lower bound of the real heap use:
capacities are at least lengths) -/
def PkgAcct.kept (p : PkgAcct) : Nat :=
  (p.headers.map fun a => a.storeCopy + INDEX_ENTRY_VALUE_BYTES * a.entries + a.kept).sum + p.content
/-- everything the account knows of, as if alive together (buffers included) -/
def PkgAcct.live (p : PkgAcct) : Nat := (p.headers.map ParseAcct.live).sum + p.content
/-- largest single request of any header parse, or the content -/
def PkgAcct.maxSingle (p : PkgAcct) : Nat := (p.headers.map ParseAcct.maxSingle).foldl Nat.max p.content

/-- `Package::write` -/
def writePackage (p : Package) : Bytes := writeMetadata p.md ++ p.content

/-! ## segment offsets (`Header::size`, `get_package_segment_offsets`; u64 arithmetic) -/

/-- `Header::size` -/
def Header.size (h : Header) : Nat := INDEX_HEADER_SIZE + h.nEntries * INDEX_ENTRY_SIZE + h.dataSize

structure Offsets where
  lead : Nat
  sig : Nat
  hdr : Nat
  payload : Nat
  deriving DecidableEq, Repr

/-- `get_package_segment_offsets` -/
def offsets (m : Metadata) : Offsets :=
  let sigStart := LEAD_SIZE
  let hdrStart := sigStart + m.signature.size + sigPad m.signature.dataSize
  ⟨0, sigStart, hdrStart, hdrStart + m.header.size⟩

end RpmVerif.Hdr
