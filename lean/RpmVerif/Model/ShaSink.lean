import RpmVerif.Model.PayloadWriter
import RpmVerif.Model.Builder
/-!
# `prepare_data`'s archive: the cpio writer ON TOP OF the hashing writer ON TOP OF the compressor

```rust
let mut compressor: Compressor = self.compression.try_into()?;
let mut archive = Sha256Writer::new(&mut compressor);                       // headers/types.rs
…
for (file_index, (cpio_path, entry)) in self.files.iter().enumerate() {
    …
    if !uses_large_files {
        let mut writer = payload::Builder::new(cpio_path)….write_cpio(&mut archive, content.len() as u32);
        writer.write_all(&content)?;
        writer.finish()?;
    } else {
        let header = payload::stripped_cpio_header(file_index as u32);
        archive.write_all(&header)?;
        archive.write_all(&content)?;
        archive.write_all(&[0u8; 3][..(4 - content.len() % 4) % 4])?;
        archive.flush()?;
    };
    ino_index += 1;
}
payload::trailer(&mut archive)?;
…
let raw_archive_digest_sha256 = hex::encode(archive.into_digest());         // PAYLOADDIGESTALT
let payload = compressor.finish_compression()?;
let payload_digest_sha256 = hex(sha256(payload));                           // PAYLOADDIGEST
```

`Model/PayloadWriter.lean` has `payload::Writer` over a plain `Sink`; `Model/ShaWriter.lean` has `Sha256Writer` under a
bare sequence of `write_all` calls.  Here the two are stacked the way `prepare_data` stacks them: `HSink` is
`Sha256Writer<&mut Compressor>` (`write`: forward, then hash `buf[..n]`; `flush`: forward), `HWriter` is
`payload::Writer<&mut Sha256Writer<..>>` — the same state machine as `PWriter.Writer`, branch for branch, over an `HSink` —,
`largeEntryH` the large-file branch that talks to the hashing writer directly.  The compressor is `PWriter.Sink`: a
response script (what each `write` answers), the bytes accepted so far, whether `flush` fails.
`Lemmas/ShaSink.lean` shows that every machine here PROJECTS onto its `PWriter` twin (the hashing layer changes no outcome
and no byte the compressor sees) and that the hashed bytes are exactly the bytes the compressor accepted since the
`Sha256Writer` was made.
-/
namespace RpmVerif.ShaSink
open RpmVerif.Cpio RpmVerif.Gen RpmVerif.PWriter

/-! ## `Sha256Writer<W>` as a sink -/

/-- `Sha256Writer { writer, hasher }`: the inner writer and everything `hasher.update` was given, in order -/
structure HSink where
  inner : Sink
  hashed : Bytes := []
  deriving DecidableEq, Repr

/-- `let n = self.writer.write(buf)?; self.hasher.update(&buf[..n]); Ok(n)` — `&buf[..n]` panics when the inner writer
reports more than it was handed (a violation of the `Write` contract; `Sink.write` never does, `Lemmas/ShaSink.lean`) -/
def HSink.write (h : HSink) (buf : Bytes) : Out Nat × HSink :=
  match h.inner.write buf with
  | (.ok n, s) =>
    if n ≤ buf.length then (.ok n, { inner := s, hashed := h.hashed ++ buf.take n })
    else (.panic "slice-index", { h with inner := s })
  | (.err c, s) => (.err c, { h with inner := s })
  | (.panic p, s) => (.panic p, { h with inner := s })

/-- `self.writer.flush()` -/
def HSink.flush (h : HSink) : Out Unit := h.inner.flush

/-- `archive.write_all(buf)` (std's loop over `HSink.write`) -/
def HSink.writeAll (h : HSink) (buf : Bytes) : Out Unit × HSink :=
  writeAllLoop HSink.write (h.inner.script.length + 1) buf h

/-! ## `payload::Writer<&mut Sha256Writer<..>>` — `PWriter.Writer` over an `HSink` -/

structure HWriter where
  inner : HSink
  written : Nat
  fileSize : Nat
  headerSize : Nat
  header : Bytes
  deriving DecidableEq, Repr

def HWriter.new (m : EntryMeta) (fileSize : Nat) (check : Option Nat) (inner : HSink) : HWriter :=
  { inner := inner, written := 0, fileSize := fileSize,
    headerSize := (intoHeader m fileSize check).length, header := intoHeader m fileSize check }

/-- `try_write_header` -/
def HWriter.tryWriteHeader (w : HWriter) : Out Unit × HWriter :=
  if w.header.isEmpty then (.ok (), w) else
  match w.inner.writeAll w.header with
  | (.ok (), s) => (.ok (), { w with inner := s, header := [] })
  | (.err c, s) => (.err c, { w with inner := s })
  | (.panic p, s) => (.panic p, { w with inner := s })

/-- `impl Write for Writer :: write` -/
def HWriter.write (w : HWriter) (buf : Bytes) : Out Nat × HWriter :=
  match u32Add w.written (buf.length % 4294967296) with
  | none => (.panic "u32-overflow", w)
  | some sum =>
    if sum ≤ w.fileSize then
      match w.tryWriteHeader with
      | (.ok (), w1) =>
        match w1.inner.write buf with
        | (.ok n, s) =>
          match u32Add w1.written (n % 4294967296) with
          | some wr => (.ok n, { w1 with inner := s, written := wr })
          | none => (.panic "u32-overflow", { w1 with inner := s })
        | (.err c, s) => (.err c, { w1 with inner := s })
        | (.panic p, s) => (.panic p, { w1 with inner := s })
      | (.err c, w1) => (.err c, w1)
      | (.panic p, w1) => (.panic p, w1)
    else (.err "unexpected-eof", w)

def HWriter.writeAll (w : HWriter) (buf : Bytes) : Out Unit × HWriter :=
  writeAllLoop HWriter.write (w.inner.inner.script.length + 1) buf w

/-- `do_finish` -/
def HWriter.doFinish (w : HWriter) : Out Unit × HWriter :=
  match w.tryWriteHeader with
  | (.ok (), w1) =>
    if w1.written = w1.fileSize then
      if padLen (w1.headerSize + w1.fileSize) = 0 then (.ok (), w1)
      else match w1.inner.writeAll (pad (w1.headerSize + w1.fileSize)) with
        | (.ok (), s) =>
          (match s.flush with
          | .ok () => (.ok (), { w1 with inner := s })
          | .err c => (.err c, { w1 with inner := s })
          | .panic p => (.panic p, { w1 with inner := s }))
        | (.err c, s) => (.err c, { w1 with inner := s })
        | (.panic p, s) => (.panic p, { w1 with inner := s })
    else (.ok (), w1)
  | (.err c, w1) => (.err c, w1)
  | (.panic p, w1) => (.panic p, w1)

def HWriter.finish (w : HWriter) : Out Unit × HSink :=
  match w.doFinish with
  | (r, w1) => (r, w1.inner)

/-- `payload::trailer(&mut archive)` -/
def trailerH (h : HSink) : Out Unit × HSink :=
  (HWriter.new { name := cpioTrailerName, nlink := 1 } 0 none h).finish

/-- the standard-mode body of the loop: `write_cpio(&mut archive, content.len() as u32)`, `write_all`, `finish` -/
def entryH (m : EntryMeta) (content : Bytes) (h : HSink) : Out Unit × HSink :=
  match (HWriter.new m (content.length % 4294967296) none h).writeAll content with
  | (.ok (), w) => w.finish
  | (.err c, w) => (.err c, w.inner)
  | (.panic p, w) => (.panic p, w.inner)

def entriesH : List (EntryMeta × Bytes) → HSink → Out Unit × HSink
  | [], h => trailerH h
  | (m, c) :: r, h =>
    match entryH m c h with
    | (.ok (), h') => entriesH r h'
    | (.err e, h') => (.err e, h')
    | (.panic p, h') => (.panic p, h')

/-! ## the large-file branch: straight onto the hashing writer -/

/-- `?` after a call that returns `io::Result<()>` -/
def andThen (r : Out Unit × HSink) (k : HSink → Out Unit × HSink) : Out Unit × HSink :=
  match r with
  | (.ok (), h) => k h
  | (.err c, h) => (.err c, h)
  | (.panic p, h) => (.panic p, h)

/-- `archive.write_all(&stripped_cpio_header(file_index as u32))?; archive.write_all(&content)?;
archive.write_all(&[0u8; 3][..(4 - content.len() % 4) % 4])?; archive.flush()?` -/
def largeEntryH (fileIndex : Nat) (content : Bytes) (h : HSink) : Out Unit × HSink :=
  andThen (h.writeAll (strippedHeader (fileIndex % 4294967296))) fun h =>
  andThen (h.writeAll content) fun h =>
  andThen (h.writeAll (strippedDataPad content.length)) fun h =>
  match h.flush with
  | .ok () => (.ok (), h)
  | .err c => (.err c, h)
  | .panic p => (.panic p, h)

def largeEntriesH : Nat → List Bytes → HSink → Out Unit × HSink
  | _, [], h => trailerH h
  | idx, c :: r, h =>
    match largeEntryH idx c h with
    | (.ok (), h') => largeEntriesH (idx + 1) r h'
    | (.err e, h') => (.err e, h')
    | (.panic p, h') => (.panic p, h')

/-! ## the archive-writing part of `prepare_data`, and the two payload digests -/

/-- the two loops of `prepare_data` plus `payload::trailer`, over the files in `BTreeMap` order -/
def prepareArchive (large : Bool) (uid gid : Nat) (files : List FileIn) (h : HSink) : Out Unit × HSink :=
  if large then largeEntriesH 0 (files.map (·.content)) h
  else entriesH (builderEntriesFrom uid gid 1 files) h

/-- what `prepare_data` keeps of the archive: the two digest texts and the compressed payload -/
structure Prepared where
  archiveShaHex : Bytes
  payloadShaHex : Bytes
  payload : Bytes
  deriving DecidableEq, Repr

/-- `Sha256Writer::new(&mut compressor)` … `hex::encode(archive.into_digest())`, `compressor.finish_compression()?`,
`hex(sha256(payload))`.  `comp` is the freshly made compressor, `fin` what `finish_compression` returns for the state
the compressor is in afterwards (any function: the theorems hold for every codec), `sha256hex` the hash function
(incremental `update`s = one hash of the concatenation). -/
def prepareDigests (fin : Sink → Out Bytes) (sha256hex : Bytes → Bytes) (large : Bool) (uid gid : Nat)
    (files : List FileIn) (comp : Sink) : Out Prepared :=
  match prepareArchive large uid gid files { inner := comp, hashed := [] } with
  | (.ok (), h) =>
    match fin h.inner with
    | .ok payload => .ok ⟨sha256hex h.hashed, sha256hex payload, payload⟩
    | .err c => .err c
    | .panic p => .panic p
  | (.err c, _) => .err c
  | (.panic p, _) => .panic p

/-- `PackageBuilder::build` with the archive written, hashed and compressed the way the code does it (`Bld.build` takes
archive and payload as given): `files` = the builder's files with their contents, `c.files` their header entries -/
def buildWith (fin : Sink → Out Bytes) (c : Bld.Cfg) (now : Nat) (sha256hex : Bytes → Bytes) (uid gid : Nat)
    (files : List FileIn) (comp : Sink) : Out Hdr.Package :=
  match prepareDigests fin sha256hex (Bld.usesLargeFiles c) uid gid files comp with
  | .ok d =>
    let hdr := Bld.mainHeader c now d.payloadShaHex d.archiveShaHex
    .ok ⟨⟨Bld.leadNew c.name, Bld.signatureHeader [] (some (sha256hex (Hdr.writeHeader hdr))), hdr⟩, d.payload⟩
  | .err e => .err e
  | .panic p => .panic p

end RpmVerif.ShaSink
