import RpmVerif.Model.Header
/-!
# `IndexData::append`, `num_items`, `Header::create_region_tag`, `Header::from_entries`

`from_entries`: stable sort by tag, lay the data out one record after the other with per-type
alignment, append the region trailer, prepend the region entry.
-/
namespace RpmVerif.Hdr

/-- bytes `IndexData::append` pushes after the alignment padding -/
def IndexData.enc : IndexData → Bytes
  | .null => []
  | .char d => d
  | .int8 d => d
  | .int16 l => (l.map be16).flatten
  | .int32 l => (l.map be32).flatten
  | .int64 l => (l.map be64).flatten
  | .str s => s ++ [0]
  | .bin d => d
  | .strArray l => (l.map (· ++ [0])).flatten
  | .i18n l => (l.map (· ++ [0])).flatten

/-- alignment applied by `append` -/
def IndexData.align : IndexData → Nat
  | .int16 _ => 2 | .int32 _ => 4 | .int64 _ => 8 | _ => 1

/-- `IndexData::num_items` -/
def IndexData.numItems : IndexData → Nat
  | .null => 0
  | .char d => d.length | .int8 d => d.length | .bin d => d.length
  | .int16 l => l.length | .int32 l => l.length | .int64 l => l.length
  | .str _ => 1
  | .strArray l => l.length | .i18n l => l.length

/-- padding `append` inserts so that the data starts at a multiple of `a` -/
def padTo (n a : Nat) : Nat := (a - n % a) % a

/-- the `for record in &mut actual_records` loop: entries with their offsets, final store -/
def layout : List (Nat × IndexData) → Bytes → List Entry × Bytes
  | [], store => ([], store)
  | (tag, d) :: rs, store =>
    let r := layout rs (store ++ List.replicate (padTo store.length d.align) 0 ++ d.enc)
    (⟨tag, d, store.length + padTo store.length d.align, d.numItems⟩ :: r.1, r.2)

/-- i32 → raw u32 pattern (two's complement) -/
def i32Raw (z : Int) : Nat := (z % 4294967296).toNat

/-- `create_region_tag`'s 16-byte trailer: an index entry (tag, BIN, -(count+1)*16, 16) -/
def regionTrailer (tag count : Nat) : Bytes :=
  be32 tag ++ be32 7 ++ be32 (i32Raw (-(((count : Int) + 1) * 16))) ++ be32 16

/-- `Header::from_entries` -/
def fromEntries (recs : List (Nat × IndexData)) (regionTag : Nat) : Header :=
  let sorted := recs.mergeSort (fun a b => a.1 ≤ b.1)
  let r := layout sorted []
  let trailer := regionTrailer regionTag sorted.length
  let region : Entry := ⟨regionTag, .bin trailer, r.2.length, 16⟩
  ⟨sorted.length + 1, (r.2 ++ trailer).length, region :: r.1, r.2 ++ trailer⟩

end RpmVerif.Hdr
