import RpmVerif.Model.Cpio
/-!
# `payload::Writer` (src/rpm/payload.rs) as a state machine, with its error and `u32` branches

```rust
pub struct Writer<W: Write> { inner: W, written: u32, file_size: u32, header_size: usize, header: Vec<u8> }

pub fn write_cpio<W: Write>(self, w: W, file_size: u32) -> Writer<W> {          // Builder
    let header = self.into_header(file_size, None);
    Writer { inner: w, written: 0, file_size, header_size: header.len(), header }
}
fn try_write_header(&mut self) -> io::Result<()> {
    if !self.header.is_empty() { self.inner.write_all(&self.header)?; self.header.truncate(0); }
    Ok(())
}
fn do_finish(&mut self) -> io::Result<()> {
    self.try_write_header()?;
    if self.written == self.file_size {
        if let Some(pad) = pad(self.header_size + self.file_size as usize) {
            self.inner.write_all(&pad)?;
            self.inner.flush()?;
        }
    }
    Ok(())
}
fn write(&mut self, buf: &[u8]) -> io::Result<usize> {                            // impl Write for Writer
    if self.written + buf.len() as u32 <= self.file_size {
        self.try_write_header()?;
        let n = self.inner.write(buf)?;
        self.written += n as u32;
        Ok(n)
    } else {
        Err(io::Error::new(io::ErrorKind::UnexpectedEof, "trying to write more than the specified file size"))
    }
}
```

`Cpio.writeEntry` mirrors only the path `prepare_data` takes (`write_all` of exactly `file_size` bytes, then
`finish`).  Here every branch is explicit:

* `buf.len() as u32` truncates (`% 2^32`); `self.written + …` and `self.written += …` are `u32` additions, which
  panic on overflow in the harness build (`overflow-checks`) — `Out.panic "u32-overflow"` — and would wrap in a
  release build;
* more than the announced size: `Err(UnexpectedEof)` — `.err "unexpected-eof"`, nothing is written, not even the header;
* fewer bytes than announced: `do_finish` writes NO padding and reports NO error (`short_write_unpadded_witness`);
* the inner sink `W` is a *response script* (as in Model/Io.lean): what each successive `inner.write` answers
  (`ok n` = accepted `min n len` bytes, `intr` = `Interrupted`, `fail` = any other error); an exhausted script accepts
  everything.  `write_all` is std's loop (`Ok(0)` → `WriteZero`, `Interrupted` → retry) over a `write` function.

The theorems (Props/C07.lean `prepare_data_invariant`, `writer_eq_writeEntry`, …) show that along
`write_all(content)` with `content.len() == file_size <= u32::MAX` the overflow and the `UnexpectedEof` branch are
unreachable for EVERY sink behaviour, and that an `Ok` run emits exactly `Cpio.writeEntry`.
-/
namespace RpmVerif.PWriter
open RpmVerif.Cpio RpmVerif.Gen

/-! ## the inner sink -/

/-- answer of one `inner.write(buf)` call -/
inductive Resp where
  | ok (n : Nat)   -- `Ok(min n buf.len())`
  | intr           -- `Err(Interrupted)`
  | fail           -- `Err(other)`
  deriving DecidableEq, Repr

/-- the inner `W`: the bytes it has accepted, the answers of its coming `write` calls (exhausted: it accepts
everything), and whether `flush()` fails -/
structure Sink where
  out : Bytes := []
  script : List Resp := []
  flushFails : Bool := false
  deriving DecidableEq, Repr

/-- one `inner.write(buf)` -/
def Sink.write (s : Sink) (buf : Bytes) : Out Nat × Sink :=
  match s.script with
  | [] => (.ok buf.length, { s with out := s.out ++ buf })
  | .ok n :: rs => (.ok (min n buf.length), { s with out := s.out ++ buf.take n, script := rs })
  | .intr :: rs => (.err "interrupted", { s with script := rs })
  | .fail :: rs => (.err "io", { s with script := rs })

/-- `inner.flush()` -/
def Sink.flush (s : Sink) : Out Unit := if s.flushFails then .err "io" else .ok ()

/-- std's `Write::write_all` over a `write` function: loop while the buffer is non-empty, `Ok(0)` → `WriteZero`,
`Interrupted` → retry, any other error ends it.  `fuel` bounds the number of calls; `.err "fuel"` is never reached
with the fuel the callers pass (`Lemmas/PayloadWriter.lean`). -/
def writeAllLoop {σ : Type} (write : σ → Bytes → Out Nat × σ) : Nat → Bytes → σ → Out Unit × σ
  | _, [], s => (.ok (), s)
  | 0, _ :: _, s => (.err "fuel", s)
  | fuel + 1, b :: bs, s =>
    match write s (b :: bs) with
    | (.ok 0, s') => (.err "write-zero", s')
    | (.ok n, s') => writeAllLoop write fuel ((b :: bs).drop n) s'
    | (.err c, s') => if c = "interrupted" then writeAllLoop write fuel (b :: bs) s' else (.err c, s')
    | (.panic p, s') => (.panic p, s')

/-- `inner.write_all(buf)`: every call takes one answer from the script -/
def Sink.writeAll (s : Sink) (buf : Bytes) : Out Unit × Sink :=
  writeAllLoop Sink.write (s.script.length + 1) buf s

/-! ## `Writer` -/

structure Writer where
  inner : Sink
  written : Nat
  fileSize : Nat
  headerSize : Nat
  header : Bytes
  deriving DecidableEq, Repr

/-- `Builder::write_cpio(w, file_size)` (`check = none`) / `write_crc(w, file_size, c)` (`check = some c`) -/
def Writer.new (m : EntryMeta) (fileSize : Nat) (check : Option Nat) (inner : Sink) : Writer :=
  { inner := inner, written := 0, fileSize := fileSize,
    headerSize := (intoHeader m fileSize check).length, header := intoHeader m fileSize check }

/-- `try_write_header` -/
def Writer.tryWriteHeader (w : Writer) : Out Unit × Writer :=
  if w.header.isEmpty then (.ok (), w) else
  match w.inner.writeAll w.header with
  | (.ok (), s) => (.ok (), { w with inner := s, header := [] })
  | (.err c, s) => (.err c, { w with inner := s })
  | (.panic p, s) => (.panic p, { w with inner := s })

/-- `u32 + u32` under `overflow-checks` -/
def u32Add (a b : Nat) : Option Nat := if a + b < 4294967296 then some (a + b) else none

/-- `impl Write for Writer :: write` -/
def Writer.write (w : Writer) (buf : Bytes) : Out Nat × Writer :=
  match u32Add w.written (buf.length % 4294967296) with          -- `self.written + buf.len() as u32`
  | none => (.panic "u32-overflow", w)
  | some sum =>
    if sum ≤ w.fileSize then
      match w.tryWriteHeader with
      | (.ok (), w1) =>
        match w1.inner.write buf with
        | (.ok n, s) =>
          match u32Add w1.written (n % 4294967296) with          -- `self.written += n as u32`
          | some wr => (.ok n, { w1 with inner := s, written := wr })
          | none => (.panic "u32-overflow", { w1 with inner := s })
        | (.err c, s) => (.err c, { w1 with inner := s })
        | (.panic p, s) => (.panic p, { w1 with inner := s })
      | (.err c, w1) => (.err c, w1)
      | (.panic p, w1) => (.panic p, w1)
    else (.err "unexpected-eof", w)

/-- `writer.write_all(buf)` -/
def Writer.writeAll (w : Writer) (buf : Bytes) : Out Unit × Writer :=
  writeAllLoop Writer.write (w.inner.script.length + 1) buf w

/-- `do_finish` -/
def Writer.doFinish (w : Writer) : Out Unit × Writer :=
  match w.tryWriteHeader with
  | (.ok (), w1) =>
    if w1.written = w1.fileSize then
      if padLen (w1.headerSize + w1.fileSize) = 0 then (.ok (), w1)           -- `pad(..)` is `None`
      else match w1.inner.writeAll (pad (w1.headerSize + w1.fileSize)) with
        | (.ok (), s) =>
          (match s.flush with
          | .ok () => (.ok (), { w1 with inner := s })
          | .err c => (.err c, { w1 with inner := s })
          | .panic p => (.panic p, { w1 with inner := s }))
        | (.err c, s) => (.err c, { w1 with inner := s })
        | (.panic p, s) => (.panic p, { w1 with inner := s })
    else (.ok (), w1)                       -- fewer bytes than announced: no padding, no error
  | (.err c, w1) => (.err c, w1)
  | (.panic p, w1) => (.panic p, w1)

/-- `finish`: the outcome and the inner sink (it is `&mut archive` in the builder, so it survives an error) -/
def Writer.finish (w : Writer) : Out Unit × Sink :=
  match w.doFinish with
  | (r, w1) => (r, w1.inner)

/-- `trailer(w)`: `Builder::new("TRAILER!!!").nlink(1).write_cpio(w, 0).finish()` -/
def trailerW (s : Sink) : Out Unit × Sink :=
  (Writer.new { name := cpioTrailerName, nlink := 1 } 0 none s).finish

/-! ## the standard-mode branch of `prepare_data`'s loop -/

/-- `payload::Builder::new(cpio_path)…write_cpio(&mut archive, content.len() as u32); writer.write_all(&content)?;
writer.finish()?` -/
def entryW (m : EntryMeta) (content : Bytes) (s : Sink) : Out Unit × Sink :=
  match (Writer.new m (content.length % 4294967296) none s).writeAll content with
  | (.ok (), w) => w.finish
  | (.err c, w) => (.err c, w.inner)
  | (.panic p, w) => (.panic p, w.inner)

def entriesW : List (EntryMeta × Bytes) → Sink → Out Unit × Sink
  | [], s => trailerW s
  | (m, c) :: r, s =>
    match entryW m c s with
    | (.ok (), s') => entriesW r s'
    | (.err e, s') => (.err e, s')
    | (.panic p, s') => (.panic p, s')

/-- `let uses_large_files = combined_file_sizes > u32::MAX.into()` (`entry.size` = `content.len() as u64`) -/
def usesLargeFiles (files : List FileIn) : Bool := (files.map (·.content.length)).sum > 4294967295

/-- the standard-mode loop of `prepare_data` plus `payload::trailer`, through the `Writer` state machine -/
def builderArchiveW (uid gid : Nat) (files : List FileIn) (s : Sink) : Out Unit × Sink :=
  entriesW (builderEntriesFrom uid gid 1 files) s

end RpmVerif.PWriter
