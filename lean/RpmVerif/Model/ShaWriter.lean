import RpmVerif.Model.Io
/-!
# `Sha256Writer` (src/rpm/headers/types.rs) under `write_all`

`Sha256Writer::write(buf)`: forward `buf` to the inner writer, hash the bytes it accepted
(`let n = self.writer.write(buf)?; self.hasher.update(&buf[..n])` — the code after fix fc9c490).
`hashFirst = true` is the former code (`hasher.update(buf)` before forwarding), kept to state the
negative witness. The inner writer (a compressor) is any sink obeying the `Write` contract, given as a
response script.
-/
namespace RpmVerif.ShaW
open RpmVerif.Io

/-- `write_all(buf)` on a `Sha256Writer`: (bytes the inner sink accepted, bytes fed to the hasher, status, rest of script) -/
def writeAllH (hashFirst : Bool) : Bytes → List Resp → Bytes × Bytes × St × List Resp
  | [], rs => ([], [], .ok, rs)
  | _ :: _, [] => ([], [], .starved, [])
  | b :: bs, .intr :: rs =>
    let r := writeAllH hashFirst (b :: bs) rs
    (r.1, (if hashFirst then b :: bs else []) ++ r.2.1, r.2.2.1, r.2.2.2)
  | b :: bs, .fail :: rs => ([], (if hashFirst then b :: bs else []), .err, rs)
  | b :: bs, .ok n :: rs =>
    if n = 0 then ([], (if hashFirst then b :: bs else []), .err, rs)
    else
      let r := writeAllH hashFirst ((b :: bs).drop n) rs
      ((b :: bs).take n ++ r.1, (if hashFirst then b :: bs else (b :: bs).take n) ++ r.2.1, r.2.2.1, r.2.2.2)

/-- a sequence of `write_all` calls (the cpio writer: header, data, padding, … trailer) -/
def runH (hashFirst : Bool) : List Bytes → List Resp → Bytes × Bytes × St × List Resp
  | [], rs => ([], [], .ok, rs)
  | a :: as, rs =>
    match writeAllH hashFirst a rs with
    | (e, h, .ok, rs') => let r := runH hashFirst as rs'; (e ++ r.1, h ++ r.2.1, r.2.2.1, r.2.2.2)
    | (e, h, st, rs') => (e, h, st, rs')

end RpmVerif.ShaW
