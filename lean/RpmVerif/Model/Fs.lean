import RpmVerif.Model.Basic
/-!
# L9: a tree-with-symlinks file system and the call sequence of `Package::extract`

Model of `src/rpm/package.rs` `Package::extract` with its helpers `extraction_path`, `is_symlink`,
`refuse_symlinks` (the code after /repo commit 44c69bc "fix: extract() stays inside the destination and
reports unsupported file types"), together with the POSIX semantics of the handful of system calls it
makes (`mkdir`, `open(O_CREAT|O_TRUNC)`, `chmod`, `lstat`/`stat`, `unlink`, `symlink`) and of the
`std` wrappers around them (`fs::create_dir_all`, `Path::join`, `Path::strip_prefix`, `components`).

* A file system is a finite map from absolute, physical paths (lists of components below the root of
  the jail) to nodes, plus a log of every path an operation created, modified or removed.
* `walk` is the kernel's path walk: component by component, `.` skipped, `..` physical (`..` of the
  root is the root), symbolic links followed with the kernel's budget of 40 (`ELOOP` afterwards);
  the last component is followed or not depending on the system call.
* Every system call is atomic: an error leaves the file system unchanged.
* The process is assumed to run with `CAP_DAC_OVERRIDE` (root, as in the jail of the correspondence
  check), so permission bits never make a call fail; the `umask` is part of the state (`Fs.umask`, 022 by default) and
  shows in the modes of the directories `create_dir_all` makes and of a file between `File::create` and `set_permissions`.
* `NAME_MAX`: a name longer than 255 bytes cannot be created — `mkdir`, `open(O_CREAT)`, `symlink` answer
  `ENAMETOOLONG` when the component they would create is that long. (The kernel answers `ENAMETOOLONG` as soon as a
  walk LOOKS UP such a name; no such name ever exists, so the model's walk answers `ENOENT` / "vacant" at that point: an
  error for every call either way, and the `NotFound` recursion of `create_dir_all` ends in the same state — it creates
  the ancestors that come before the long component and then fails; `createDirAllLeft` is what it leaves behind.
  `PATH_MAX` (4096 bytes for a whole path text) is NOT modelled: paths are assumed shorter.)

Everything is structurally recursive, so closed instances evaluate in the kernel (`decide +kernel`).
-/
namespace RpmVerif.Fs

abbrev Name := Bytes
/-- absolute physical path: components below the root; `[]` is the root directory -/
abbrev Path := List Name

inductive Node where
  | dir (perm : Nat)
  | file (content : Bytes) (perm : Nat)
  | symlink (target : Bytes)
  deriving DecidableEq, Repr

def Node.isDir : Node → Bool | .dir _ => true | _ => false
def Node.isSymlink : Node → Bool | .symlink _ => true | _ => false

inductive Errno where
  | ENOENT | EEXIST | ENOTDIR | EISDIR | ELOOP | ENAMETOOLONG
  deriving DecidableEq, Repr

def Errno.name : Errno → String
  | .ENOENT => "ENOENT" | .EEXIST => "EEXIST" | .ENOTDIR => "ENOTDIR" | .EISDIR => "EISDIR" | .ELOOP => "ELOOP"
  | .ENAMETOOLONG => "ENAMETOOLONG"

/-- `NAME_MAX` of Linux file systems (ext4, xfs, btrfs, tmpfs): bytes in one component -/
def nameMax : Nat := 255

/-- the component a creating call would add at the physical location `q` is longer than `NAME_MAX` -/
def nameTooLong (q : Path) : Bool :=
  match q.getLast? with
  | some c => decide (nameMax < c.length)
  | none => false

structure Fs where
  nodes : List (Path × Node)
  /-- every path created, modified or removed so far (most recent first) -/
  log : List Path
  /-- the calling process' file mode creation mask (`umask(2)`; 022 in the usual jail); never changed by a call -/
  umask : Nat := 0o022
  deriving DecidableEq, Repr

def lookup (p : Path) : List (Path × Node) → Option Node
  | [] => none
  | (q, n) :: r => if q = p then some n else lookup p r

def erase (p : Path) : List (Path × Node) → List (Path × Node)
  | [] => []
  | (q, n) :: r => if q = p then erase p r else (q, n) :: erase p r

def Fs.get (fs : Fs) (p : Path) : Option Node := lookup p fs.nodes
def Fs.set (fs : Fs) (p : Path) (n : Node) : Fs := ⟨(p, n) :: erase p fs.nodes, p :: fs.log, fs.umask⟩
def Fs.del (fs : Fs) (p : Path) : Fs := ⟨erase p fs.nodes, p :: fs.log, fs.umask⟩

/-- `mode & ~umask` on the 9 permission bits (the mask never clears setuid / setgid / sticky; `mkdir` and `open` pass none) -/
def Fs.masked (fs : Fs) (mode : Nat) : Nat := mode - (mode &&& (fs.umask &&& 0o777))

/-! ## path text -/

def slash : UInt8 := 47
def dot : Name := [46]
def dotdot : Name := [46, 46]

/-- split at every `/` (so `"/a//b/"` gives `["", "a", "", "b", ""]`) -/
def splitSlash : Bytes → List Name
  | [] => [[]]
  | b :: r =>
    if b = slash then [] :: splitSlash r
    else match splitSlash r with
      | [] => [[b]]
      | h :: t => (b :: h) :: t

/-- a path text as the kernel reads it: (absolute?, components); empty components are dropped and a
trailing slash is the component `.` (POSIX: `a/` ≡ `a/.`) -/
def parseText (t : Bytes) : Bool × List Name :=
  let cs := (splitSlash t).filter (fun c => c ≠ [])
  (t.head? = some slash, if t.getLast? = some slash ∧ cs ≠ [] then cs ++ [dot] else cs)

/-! ## the kernel's path walk -/

/-- one level of the walk: `follow cur comps` is what happens when a symbolic link has to be followed
(the walk with one unit less of the link budget) -/
def walkComps (fs : Fs) (follow : Path → List Name → Except Errno Path) (fl : Bool) :
    Path → List Name → Except Errno Path
  | cur, [] => .ok cur
  | cur, c :: rest =>
    if c = dot ∨ c = [] then walkComps fs follow fl cur rest
    else if c = dotdot then walkComps fs follow fl cur.dropLast rest
    else
      match fs.get (cur ++ [c]) with
      | none => if rest.isEmpty then .ok (cur ++ [c]) else .error .ENOENT
      | some (.dir _) => walkComps fs follow fl (cur ++ [c]) rest
      | some (.file _ _) => if rest.isEmpty then .ok (cur ++ [c]) else .error .ENOTDIR
      | some (.symlink t) =>
        if rest.isEmpty && !fl then .ok (cur ++ [c])
        else if t.isEmpty then .error .ENOENT
        else follow (if (parseText t).1 then [] else cur) ((parseText t).2 ++ rest)

/-- the walk with a budget of `n` symbolic links -/
def walk (fs : Fs) (fl : Bool) : Nat → Path → List Name → Except Errno Path
  | 0 => walkComps fs (fun _ _ => .error .ELOOP) fl
  | n + 1 => walkComps fs (walk fs fl n) fl

/-- `MAXSYMLINKS` -/
def maxSymlinks : Nat := 40

/-- Resolve an absolute path given by its components. The result is the physical location the path
names: its parent exists and is a directory; the location itself may be vacant. With `fl` the last
component is followed if it is a symbolic link (`stat`, `open`, `chmod`), without it is not
(`lstat`, `mkdir`, `unlink`, `symlink`). -/
def resolve (fs : Fs) (fl : Bool) (cs : List Name) : Except Errno Path := walk fs fl maxSymlinks [] cs

/-! ## system calls (as used by `std::fs`) -/

/-- mode of a directory created by `mkdir(path, 0o777)`: `0o777 & ~umask` (0o755 under umask 022); the set-group-ID bit
of the parent is inherited (Linux) -/
def newDirMode (fs : Fs) (q : Path) : Nat :=
  match fs.get q.dropLast with
  | some (.dir m) => fs.masked 0o777 ||| (m &&& 0o2000)
  | _ => fs.masked 0o777

/-- `mkdir(2)` -/
def mkdir (fs : Fs) (cs : List Name) : Except Errno Fs :=
  match resolve fs false cs with
  | .error e => .error e
  | .ok q =>
    match fs.get q with
    | some _ => .error .EEXIST
    | none => if nameTooLong q then .error .ENAMETOOLONG else .ok (fs.set q (.dir (newDirMode fs q)))

/-- `Path::is_dir` = `stat(2)` succeeded and found a directory -/
def isDir (fs : Fs) (cs : List Name) : Bool :=
  match resolve fs true cs with
  | .ok q => match fs.get q with | some (.dir _) => true | _ => false
  | .error _ => false

/-- `fs::create_dir_all` on the reversed component list (`Path::parent` is lexical):
`mkdir`; on `NotFound` create the parent first and `mkdir` again; any other error is forgiven when the
path is a directory. -/
def createDirAllRev (fs : Fs) : List Name → Except Errno Fs
  | [] => if isDir fs [] then .ok fs else .error .EEXIST
  | c :: rp =>
    match mkdir fs (c :: rp).reverse with
    | .ok fs' => .ok fs'
    | .error .ENOENT =>
      match createDirAllRev fs rp with
      | .error e => .error e
      | .ok fs1 =>
        match mkdir fs1 (c :: rp).reverse with
        | .ok fs2 => .ok fs2
        | .error e => if isDir fs1 (c :: rp).reverse then .ok fs1 else .error e
    | .error e => if isDir fs (c :: rp).reverse then .ok fs else .error e

def createDirAll (fs : Fs) (cs : List Name) : Except Errno Fs := createDirAllRev fs cs.reverse

/-- what a FAILED `create_dir_all` leaves behind: the ancestors it created before the `mkdir` that failed (the first
`mkdir` answered `NotFound`, the ancestors were created - or creating them failed, leaving what THAT call created -, and
the second `mkdir` failed, e.g. with `ENAMETOOLONG`). Only consulted when `createDirAllRev` is an error. -/
def createDirAllLeftRev (fs : Fs) : List Name → Fs
  | [] => fs
  | c :: rp =>
    match mkdir fs (c :: rp).reverse with
    | .error .ENOENT =>
      match createDirAllRev fs rp with
      | .error _ => createDirAllLeftRev fs rp
      | .ok fs1 => fs1
    | _ => fs

def createDirAllLeft (fs : Fs) (cs : List Name) : Fs := createDirAllLeftRev fs cs.reverse

/-- `File::create` (= `open(O_WRONLY|O_CREAT|O_TRUNC, 0o666)`, follows a final symbolic link) followed
by `write_all(content)`; a new file gets `0o666 & ~umask` -/
def fileCreate (fs : Fs) (cs : List Name) (content : Bytes) : Except Errno Fs :=
  match resolve fs true cs with
  | .error e => .error e
  | .ok q =>
    match fs.get q with
    | none => if nameTooLong q then .error .ENAMETOOLONG else .ok (fs.set q (.file content (fs.masked 0o666)))
    | some (.file _ m) => .ok (fs.set q (.file content m))
    | some (.dir _) => .error .EISDIR
    | some (.symlink _) => .error .ELOOP

/-- `fs::set_permissions` = `chmod(2)` (follows a final symbolic link) -/
def setPerm (fs : Fs) (cs : List Name) (perm : Nat) : Except Errno Fs :=
  match resolve fs true cs with
  | .error e => .error e
  | .ok q =>
    match fs.get q with
    | none => .error .ENOENT
    | some (.dir _) => .ok (fs.set q (.dir perm))
    | some (.file c _) => .ok (fs.set q (.file c perm))
    | some (.symlink _) => .error .ELOOP

/-- `path.exists() || path.symlink_metadata().is_ok()`: `stat` succeeding implies `lstat` succeeds, so
this is `lstat(2)` succeeding -/
def lexists (fs : Fs) (cs : List Name) : Bool :=
  match resolve fs false cs with
  | .ok q => (fs.get q).isSome
  | .error _ => false

/-- `fs::remove_file` = `unlink(2)` -/
def unlink (fs : Fs) (cs : List Name) : Except Errno Fs :=
  match resolve fs false cs with
  | .error e => .error e
  | .ok q =>
    match fs.get q with
    | none => .error .ENOENT
    | some n => if n.isDir then .error .EISDIR else .ok (fs.del q)

/-- `std::os::unix::fs::symlink(target, path)` = `symlink(2)`; an empty target is `ENOENT` -/
def symlink (fs : Fs) (cs : List Name) (target : Bytes) : Except Errno Fs :=
  if target.isEmpty then .error .ENOENT else
  match resolve fs false cs with
  | .error e => .error e
  | .ok q =>
    match fs.get q with
    | some _ => .error .EEXIST
    | none => if nameTooLong q then .error .ENAMETOOLONG else .ok (fs.set q (.symlink target))

/-! ## `std::path` as used by `extract` -/

/-- `Path::new(s).strip_prefix("/")`: fails for a relative `s`; otherwise the remaining text, whose
leading and trailing empty / `.` components are trimmed. Inner empty and `.` components stay in the
text but are skipped by the kernel, so the result is given as the list of `Normal` / `..` components. -/
def relComps (s : Bytes) : Option (List Name) :=
  if s.head? = some slash then some ((splitSlash s).filter (fun c => c ≠ [] ∧ c ≠ dot)) else none

/-- `extraction_path(dest, Path::new(s))` for an absolute `dest`: a relative `s` gives `dest` itself
(`strip_prefix("/")` fails), a `..` component is refused (`none` = `Err(InvalidDestinationPath)`),
otherwise `dest.join(rel)` -/
def extractionPath (dest : List Name) (s : Bytes) : Option (List Name) :=
  match relComps s with
  | some cs => if cs.contains dotdot then none else some (dest ++ cs)
  | none => some dest

/-- the components of `s` below the destination (`[]` for a relative `s`) -/
def relOf (s : Bytes) : List Name := (relComps s).getD []

/-- `is_symlink(path)`: `lstat` succeeds and finds a symbolic link -/
def isSymlinkAt (fs : Fs) (cs : List Name) : Bool :=
  match resolve fs false cs with
  | .ok q => match fs.get q with | some (.symlink _) => true | _ => false
  | .error _ => false

/-- the loop of `refuse_symlinks`: `cur` is `current` before the push, the list holds the remaining
components; `true` = refused. (`last || i + 1 < count` = `last ||` this is not the final component.) -/
def refuseFrom (fs : Fs) (last : Bool) : List Name → List Name → Bool
  | _, [] => false
  | cur, c :: rest =>
    ((last || !rest.isEmpty) && isSymlinkAt fs (cur ++ [c])) || refuseFrom fs last (cur ++ [c]) rest

/-- `refuse_symlinks(dest, dest.join(rel), last)`; `true` = `Err(InvalidDestinationPath)` -/
def refuseSymlinks (fs : Fs) (dest rel : List Name) (last : Bool) : Bool := refuseFrom fs last dest rel

/-- `Path::new(dir).join(base)` as text -/
def pathJoin (dir base : Bytes) : Bytes :=
  if base.head? = some slash then base
  else if dir.isEmpty then base
  else if dir.getLast? = some slash then dir ++ base
  else dir ++ [slash] ++ base

/-! ## `Package::extract` -/

/-- the variant of `FileMode` that `extract` matches on -/
inductive Kind where
  | dir | regular | symlink | other
  deriving DecidableEq, Repr

/-- one `RpmFile` the `FileIterator` yields -/
structure Item where
  /-- text of `metadata.path` -/
  path : Bytes
  kind : Kind
  /-- `metadata.mode.permissions()` -/
  perm : Nat
  content : Bytes
  linkto : Bytes
  deriving DecidableEq, Repr

/-- what `extract` reads from the package -/
structure Input where
  /-- `get_entry_data_as_string_array(RPMTAG_DIRNAMES)`; `none` = `Err` -/
  dirnames : Option (List Bytes)
  /-- the `Ok` items the iterator yields, in order -/
  items : List Item
  /-- `true`: the iterator then ends; `false`: `files()` failed or the next item is an `Err` -/
  tailOk : Bool
  deriving DecidableEq, Repr

/-- where a run stopped: outcome and the file system at that point -/
structure Res where
  out : Out Unit
  fs : Fs
  deriving DecidableEq, Repr

/-- `?` on an `io::Result` -/
def andThen (fs : Fs) (r : Except Errno Fs) (k : Fs → Res) : Res :=
  match r with
  | .ok fs' => k fs'
  | .error e => ⟨.err e.name, fs⟩

def done (fs : Fs) : Res := ⟨.ok (), fs⟩

/-- `fs::create_dir_all(p)?`: unlike a single system call a failing `create_dir_all` is not atomic -/
def andThenDirs (fs : Fs) (p : List Name) (k : Fs → Res) : Res :=
  match createDirAll fs p with
  | .ok fs' => k fs'
  | .error e => ⟨.err e.name, createDirAllLeft fs p⟩

/-- body of the `for file in self.files()?` loop -/
def extractItem (dest : List Name) (fs : Fs) (it : Item) : Res :=
  match extractionPath dest it.path with
  | none => ⟨.err "dotdot", fs⟩
  | some p =>
    match it.kind with
    | .dir =>
      if refuseSymlinks fs dest (relOf it.path) true then ⟨.err "symlink", fs⟩ else
      andThenDirs fs p fun fs1 =>
      andThen fs1 (setPerm fs1 p it.perm) done
    | .regular =>
      if refuseSymlinks fs dest (relOf it.path) false then ⟨.err "symlink", fs⟩ else
      andThen fs (if isSymlinkAt fs p then unlink fs p else .ok fs) fun fs0 =>
      andThen fs0 (fileCreate fs0 p it.content) fun fs1 =>
      andThen fs1 (setPerm fs1 p it.perm) done
    | .symlink =>
      if refuseSymlinks fs dest (relOf it.path) false then ⟨.err "symlink", fs⟩ else
      if lexists fs p then
        andThen fs (unlink fs p) fun fs1 =>
        andThen fs1 (symlink fs1 p it.linkto) done
      else andThen fs (symlink fs p it.linkto) done
    | .other => ⟨.err "filemode", fs⟩

def extractItems (dest : List Name) : Fs → List Item → Res
  | fs, [] => done fs
  | fs, it :: r =>
    match extractItem dest fs it with
    | ⟨.ok _, fs'⟩ => extractItems dest fs' r
    | res => res

/-- the loop over `RPMTAG_DIRNAMES` -/
def extractDirs (dest : List Name) : Fs → List Bytes → Res
  | fs, [] => done fs
  | fs, d :: r =>
    match extractionPath dest d with
    | none => ⟨.err "dotdot", fs⟩
    | some p => andThenDirs fs p fun fs' => extractDirs dest fs' r

/-- `Package::extract(dest)` -/
def extract (inp : Input) (dest : List Name) (fs : Fs) : Res :=
  andThen fs (mkdir fs dest) fun fs0 =>
  match inp.dirnames with
  | none => ⟨.err "dirnames", fs0⟩
  | some ds =>
    match extractDirs dest fs0 ds with
    | ⟨.ok _, fs1⟩ =>
      match extractItems dest fs1 inp.items with
      | ⟨.ok _, fs2⟩ => if inp.tailOk then done fs2 else ⟨.err "payload", fs2⟩
      | res => res
    | res => res

end RpmVerif.Fs
