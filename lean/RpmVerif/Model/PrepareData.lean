import RpmVerif.Model.WithFile
import RpmVerif.Model.PayloadWriter
import RpmVerif.Model.SignE
/-!
# The whole builder: a call sequence on `PackageBuilder`, then `build()` / `build_and_sign()` with every partial step explicit
(`/repo/src/rpm/builder.rs`: the setters, `with_file`, `prepare_data`, `build`, `build_and_sign`; `Header::from_entries`,
`Header::create_region_tag` of `/repo/src/rpm/headers/header.rs`; `Timestamp::now` of `/repo/src/rpm/timestamp.rs`)

`Model/AddData.lean` (`BuildArgs`) stops at the construction of the compressor; `Model/Builder.lean` (`Bld.build`) is the TOTAL
function "builder state ↦ package" on which C06 / C08 / C09 / C11 rest.  This file is what lies between the two: the state as a
function of the calls the caller writes (`Call`, `run`), and `prepare_data` / `build` as functions into `Out`, with one
explicit outcome for every `?`, `unwrap`, `expect`, checked arithmetic operation and narrowing cast of the source, in source
order:

```rust
fn prepare_data(mut self) -> Result<(Lead, Header<IndexTag>, Vec<u8>), Error> {
    let lead = Lead::new(&self.name);
    let mut compressor: Compressor = self.compression.try_into()?;                    // Err: level out of range / codec compiled out
    let mut archive = Sha256Writer::new(&mut compressor);
    let mut ino_index = 1;                                                            // u32 (`Builder::ino(u32)`)
    let mut combined_file_sizes: u64 = 0;
    for (_, entry) in self.files.iter() { combined_file_sizes += entry.size; }        // u64 `+=`
    let uses_large_files = combined_file_sizes > u32::MAX.into();                     // (hook: the limit is `largeFileThreshold`)
    for (file_index, (cpio_path, entry)) in self.files.iter().enumerate() {
        …
        let index = self.directories.iter().position(|d| d == &entry.dir).unwrap();  // panic site 1
        dir_indixes.push(index as u32);
        let content = entry.content.to_owned();
        if !uses_large_files {
            let mut writer = payload::Builder::new(cpio_path).mode(entry.mode.into()).ino(ino_index).uid(0).gid(0)
                .write_cpio(&mut archive, content.len() as u32);                      // narrowing cast
            writer.write_all(&content)?;                                              // Err: the compressor's
            writer.finish()?;
        } else {
            let header = payload::stripped_cpio_header(file_index as u32);
            archive.write_all(&header)?; archive.write_all(&content)?;
            archive.write_all(&[0u8; 3][..(4 - content.len() % 4) % 4])?; archive.flush()?;
        };
        ino_index += 1;                                                               // u32 `+=`
    }
    payload::trailer(&mut archive)?;
    …
    let mut actual_records = vec![ …,
        if uses_large_files { LONGSIZE(combined_file_sizes) }
        else { SIZE(combined_file_sizes.try_into().expect("combined_file_sizes should be smaller than 4 GiB")) }, … ];   // panic site 2
    let now = Timestamp::now();                                                       // panic site 3: `SystemTime::now().try_into().unwrap()`
    …
    if !self.files.is_empty() {
        let size_entry = if uses_large_files { LONGFILESIZES(file_sizes) } else {
            FILESIZES(file_sizes.into_iter().map(u32::try_from).collect::<Result<_, _>>().expect("…")) };                // panic site 4
        …
    }
    let raw_archive_digest_sha256 = hex::encode(archive.into_digest());
    let payload = compressor.finish_compression()?;                                   // Err: the compressor's
    …
    let header = Header::from_entries(actual_records, IndexTag::RPMTAG_HEADERIMMUTABLE);   // i32 `*` in create_region_tag
    Ok((lead, header, payload))
}
```
Arithmetic: the harness is built with `overflow-checks`, so `+=` / `*` that overflow are panics (`Out.panic "…-overflow"`); in
a release build they wrap. `as` casts never panic; they truncate (`% 2^32`), and the truncated value is what is written.

Environment (everything the function takes from outside its arguments) is `Env`: the clock, the hash function, the compressor
(construction, its answers to `write` / `flush` as a response script, `finish_compression`). The codec crates are assumed not to
panic (their answers are `Ok` / `Err`), as in C17's `EncodersDoNotPanic`.
Core Lean only.
-/
namespace RpmVerif.Build
open RpmVerif.Hdr RpmVerif.Bld RpmVerif.AddData

/-! ## the calls and the builder state -/

/-- one call on the `PackageBuilder`, as the caller writes it -/
inductive Call where
  /-- an infallible setter (`Bld.MetaSetter`; a timestamp given as `u32`) -/
  | set (s : MetaSetter)
  /-- `source_date(t)` with any `impl TryInto<Timestamp>`: the conversion is unwrapped -/
  | sourceDate (t : TsArg)
  /-- `add_changelog_entry(name, entry, t)`: likewise -/
  | changelog (name entry : Bytes) (t : TsArg)
  /-- `with_file(source, FileOptions::new(dest).<setters>)?` -/
  | file (c : WithFile.Call)

/-- the `PackageBuilder`: the metadata fields (`base`; its `files` / `directories` are not used), the `BTreeMap` of files in
key order — each `PackageFileEntry` with its `content` —, and the `BTreeSet` of directories in order -/
structure St where
  base : Cfg
  fes : List (FileE × Bytes)
  dirs : List Bytes

/-- the state `prepare_data` consumes -/
def St.cfg (s : St) : Cfg := { s.base with files := s.fes.map (·.1), directories := s.dirs }

/-- `PackageBuilder::new(..)` -/
def St.new (name version license arch summary : Bytes) (defaultComp : Comp) : St :=
  ⟨Cfg.new name version license arch summary defaultComp, [], []⟩

/-- `self.files.entry(cpio_path).or_insert(entry)` with the content carried along (`WithFile.insertFileE` on the first components) -/
def insertFE (p : FileE × Bytes) : List (FileE × Bytes) → List (FileE × Bytes)
  | [] => [p]
  | g :: r => if p.1.cpioPath == g.1.cpioPath then g :: r
              else if p.1.cpioPath < g.1.cpioPath then p :: g :: r else g :: insertFE p r

/-- what `read_to_end` put into `content` -/
def srcContent : WithFile.Source → Bytes
  | .readable f => f.content
  | _ => []

/-- one call: the new state, the `Err` the caller's `?` propagates, or a panic -/
def step (sha256hex : Bytes → Bytes) (valid : Bytes → Bool) (s : St) : Call → Out St
  | .set m => .ok { s with base := m.apply s.base }
  | .sourceDate t => (AddData.sourceDate t).map fun n => { s with base := (MetaSetter.sourceDate n).apply s.base }
  | .changelog name entry t =>
    (addChangelogEntry name entry t).map fun n => { s with base := (MetaSetter.changelog name entry n).apply s.base }
  | .file c =>
    (WithFile.runCall sha256hex valid c).map fun e =>
      { s with fes := insertFE (e, srcContent c.src) s.fes, dirs := WithFile.insertDir e.dir s.dirs }

/-- the calls in order; the first `Err` / panic ends the chain (nothing is built) -/
def run (sha256hex : Bytes → Bytes) (valid : Bytes → Bool) : List Call → St → Out St
  | [], s => .ok s
  | c :: r, s =>
    match step sha256hex valid s c with
    | .ok s' => run sha256hex valid r s'
    | .err e => .err e
    | .panic p => .panic p

/-! ## the environment of `build()` -/

structure Env where
  /-- the raw SHA-256 function (`sha2::Sha256`); the builder records `hex::encode` of it -/
  sha256 : Bytes → Bytes
  /-- what `SystemTime::now()` returns inside `Timestamp::now()` in `prepare_data` -/
  clock : Timestamp.Instant
  /-- the encoder constructors behind `Compressor::try_from` once the level passed the range check
  (`GzEncoder::new`, `zstd::Encoder::new`, …; `Err(UnsupportedCompressorType)` when the codec is compiled out) -/
  enc : Nat → Int → Out Unit
  /-- the compressor as a `Write`r: how it answers the archive's successive `write` calls and `flush` -/
  sink : PWriter.Sink
  /-- `compressor.finish_compression()` on the archive bytes the compressor accepted -/
  finish : Bytes → Out Bytes

def Env.hex (E : Env) (b : Bytes) : Bytes := Sign.shaHex E.sha256 b

/-- a `CompressionWithLevel` value as (variant index of `Gen.levelVariants`, level). The indices are written out (string
comparison does not reduce in the kernel); `C17.comp_variant_table` states that `Gen.levelVariants` — scraped from
`enum CompressionWithLevel` on every run — lists None, Zstd, Gzip, Xz, Bzip2 in this order -/
def compVariant : Comp → Nat × Int
  | .none => (0, 0)
  | .zstd l => (1, l)
  | .gzip l => (2, l)
  | .xz l => (3, l)
  | .bzip2 l => (4, l)

/-! ## `prepare_data` -/

/-- `combined_file_sizes += entry.size` over the files: a `u64` accumulator under `overflow-checks` -/
def sumU64 : List Nat → Nat → Out Nat
  | [], acc => .ok acc
  | x :: r, acc => if acc + x < 18446744073709551616 then sumU64 r (acc + x) else .panic "u64-overflow"

/-- the large-file branch for one file: stripped header with `file_index as u32`, content, padding to 4 bytes, `flush` -/
def strippedW (idx : Nat) (content : Bytes) (s : PWriter.Sink) : Out Unit × PWriter.Sink :=
  match s.writeAll (Cpio.strippedHeader (idx % 4294967296)) with
  | (.ok (), s1) =>
    match s1.writeAll content with
    | (.ok (), s2) =>
      match s2.writeAll (Cpio.strippedDataPad content.length) with
      | (.ok (), s3) => (s3.flush, s3)
      | r => r
    | r => r
  | r => r

/-- the second `for` loop of `prepare_data` from file `idx` (`ino_index = ino`) on: `position(..).unwrap()`, the archive entry,
`ino_index += 1` -/
def fileLoop (dirs : List Bytes) (large : Bool) : List (FileE × Bytes) → Nat → Nat → PWriter.Sink → Out Unit × PWriter.Sink
  | [], _, _, s => (.ok (), s)
  | (e, content) :: r, idx, ino, s =>
    if !dirs.contains e.dir then (.panic "dir-position-unwrap", s)
    else
      let w := if large then strippedW idx content s
               else PWriter.entryW (Cpio.builderMeta 0 0 ino ⟨e.cpioPath, e.mode, content⟩) content s
      match w with
      | (.ok (), s') =>
        if ino + 1 < 4294967296 then fileLoop dirs large r (idx + 1) (ino + 1) s' else (.panic "ino-overflow", s')
      | (.err x, s') => (.err x, s')
      | (.panic p, s') => (.panic p, s')

/-- `Header::from_entries` with the one checked operation on its way: `(records_count + 1) * -(INDEX_ENTRY_SIZE as i32)` in
`create_region_tag` (`i32`; `records_count = actual_records.len() as i32`). Everything else there is `as` casts
(`store.len() as i32`, `alignment as i32`, `store_size as u32`), which `fromEntries` reproduces on the bytes it writes
(`be32` keeps the low 32 bits). -/
def fromEntriesOut (recs : List (Nat × IndexData)) (regionTag : Nat) : Out Header :=
  if (recs.length + 1) * 16 ≤ 2147483648 then .ok (fromEntries recs regionTag) else .panic "region-offset-overflow"

/-- an archive step as seen by the `?` that follows it: the sink goes on only after `Ok` -/
def seqS : Out Unit × PWriter.Sink → Out PWriter.Sink
  | (.ok (), s) => .ok s
  | (.err e, _) => .err e
  | (.panic p, _) => .panic p

/-- `PackageBuilder::prepare_data` on the state `c` with the file contents `fes` (`c.files = fes.map (·.1)` for a state made by
`run`); returns `(lead, main header, payload)` -/
def prepareData (E : Env) (c : Cfg) (fes : List (FileE × Bytes)) : Out (Lead × Header × Bytes) := do
  -- `let mut compressor: Compressor = self.compression.try_into()?`
  compressorConstruct E.enc (compVariant c.compression).1 (compVariant c.compression).2
  let combined ← sumU64 (fes.map (·.1.size)) 0
  let large := decide (combined > c.largeFileThreshold)
  let s1 ← seqS (fileLoop c.directories large fes 0 1 E.sink)
  let s2 ← seqS (PWriter.trailerW s1)                      -- `payload::trailer(&mut archive)?`
  -- `combined_file_sizes.try_into().expect(..)` (u64 → u32) in the record literal
  if !large && decide (4294967296 ≤ combined) then .panic "size-expect" else do
  let now ← (Timestamp.now E.clock).toOut                   -- `Timestamp::now()`
  -- `file_sizes.into_iter().map(u32::try_from).collect::<Result<_, _>>().expect(..)`
  if !fes.isEmpty && !large && fes.any (fun p => decide (4294967296 ≤ p.1.size)) then .panic "filesizes-expect" else do
  -- what the `Sha256Writer` hashed: the bytes the compressor accepted
  let payload ← E.finish s2.out                             -- `compressor.finish_compression()?`
  let hdr ← fromEntriesOut (records c now (E.hex payload) (E.hex s2.out)) Gen.IndexTag.RPMTAG_HEADERIMMUTABLE
  pure (leadNew c.name, hdr, payload)

/-- the archive bytes `prepare_data` has written when it reaches the trailer (what `PAYLOADDIGESTALT` is the digest of):
the accepted bytes of the sink after the file loop and `payload::trailer`; `none` when a step before that fails -/
def prepareArchive (E : Env) (c : Cfg) (fes : List (FileE × Bytes)) : Option Bytes :=
  match sumU64 (fes.map (·.1.size)) 0 with
  | .ok combined =>
    match seqS (fileLoop c.directories (decide (combined > c.largeFileThreshold)) fes 0 1 E.sink) with
    | .ok s1 => (match seqS (PWriter.trailerW s1) with | .ok s2 => some s2.out | _ => none)
    | _ => none
  | _ => none

/-- `PackageBuilder::build`: `header_idx_tag.write(&mut header)?` writes into a `Vec` (cannot fail);
`SignatureHeaderBuilder::new().set_sha256_digest(..).build()?` has no signature to parse (`Sign.sigBuilderBuild … [] _`) -/
def build (E : Env) (c : Cfg) (fes : List (FileE × Bytes)) : Out Package := do
  let (lead, hdr, payload) ← prepareData E c fes
  let sig ← Sign.sigBuilderBuild (fun _ => none) id [] (some (E.hex (writeHeader hdr)))
  pure ⟨⟨lead, sig, hdr⟩, payload⟩

/-- `PackageBuilder::build_and_sign(signer)`: `Timestamp::now()` (clock reading `clock0`), the clamp against the source date,
`build()`, then `sign_with_timestamp` (`Sign.signOpE`, a `Timestamp` argument converts to itself) -/
def buildAndSign (E : Env) (clock0 : Timestamp.Instant) (S : Sign.SigScheme) (pubAlg : Bytes → Option Nat)
    (signer : Bytes → Nat → Out Bytes) (c : Cfg) (fes : List (FileE × Bytes)) : Out Package := do
  let now ← (Timestamp.now clock0).toOut
  let pkg ← build E c fes
  Sign.signOpE S pubAlg E.sha256 signer (.secs (clampNow c.sourceDate now)) pkg

/-! ## calls, then `build()` -/

/-- `PackageBuilder::new(..).<calls>.build()` -/
def buildCalls (E : Env) (valid : Bytes → Bool) (s0 : St) (calls : List Call) : Out Package := do
  let s ← run E.hex valid calls s0
  build E s.cfg s.fes

end RpmVerif.Build
