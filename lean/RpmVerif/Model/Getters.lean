import RpmVerif.Model.Header
/-!
# L2: the typed getters of `Header<T>` — model of `src/rpm/headers/header.rs`
`find_entry_or_err`, `get_entry_data_as_{binary,string,i18n_string,u16_array,u32,u32_array,u64,u64_array,
string_array}` and the `IndexData::as_*` projections they call.

* the FIRST index entry whose tag equals the requested one decides (`iter().find(..)`); later
  duplicates are never looked at;
* no entry → `Error::TagNotFound` (class `notfound`);
* entry of another data type → `Error::UnexpectedTagDataType` (class `wrongtype`); `as_u32`, `as_u64`
  and `as_i18n_str` take the first element, so an EMPTY array of the right type is `wrongtype` too;
* `as_string_array` accepts both STRING_ARRAY and I18NSTRING data.

None of them can panic. Strings are the bytes of the Rust `String` (as in `Model/Header.lean`).
-/
namespace RpmVerif.Hdr

/-- `find_entry_or_err` -/
def findEntry (h : Header) (tag : Nat) : Out Entry :=
  match h.entries.find? (fun e => e.tag == tag) with
  | some e => .ok e
  | none => .err "notfound"

/-- `entry_is_present` -/
def entryIsPresent (h : Header) (tag : Nat) : Bool := h.entries.any (fun e => e.tag == tag)

/-! ### `IndexData::as_*` -/
def IndexData.asBinary : IndexData → Option Bytes | .bin d => some d | _ => none
def IndexData.asStr : IndexData → Option Bytes | .str s => some s | _ => none
def IndexData.asI18nStr : IndexData → Option Bytes | .i18n l => l.head? | _ => none
def IndexData.asU16Array : IndexData → Option (List Nat) | .int16 d => some d | _ => none
def IndexData.asU32 : IndexData → Option Nat | .int32 d => d.head? | _ => none
def IndexData.asU32Array : IndexData → Option (List Nat) | .int32 d => some d | _ => none
def IndexData.asU64 : IndexData → Option Nat | .int64 d => d.head? | _ => none
def IndexData.asU64Array : IndexData → Option (List Nat) | .int64 d => some d | _ => none
def IndexData.asStringArray : IndexData → Option (List Bytes)
  | .strArray l => some l | .i18n l => some l | _ => none

/-- the common shape of every getter: find, project, `ok_or_else(UnexpectedTagDataType)` -/
def getWith {α} (proj : IndexData → Option α) (h : Header) (tag : Nat) : Out α := do
  let e ← findEntry h tag
  match proj e.data with
  | some a => pure a
  | none => .err "wrongtype"

def getBinary : Header → Nat → Out Bytes := getWith IndexData.asBinary
def getString : Header → Nat → Out Bytes := getWith IndexData.asStr
def getI18nString : Header → Nat → Out Bytes := getWith IndexData.asI18nStr
def getU16Array : Header → Nat → Out (List Nat) := getWith IndexData.asU16Array
def getU32 : Header → Nat → Out Nat := getWith IndexData.asU32
def getU32Array : Header → Nat → Out (List Nat) := getWith IndexData.asU32Array
def getU64 : Header → Nat → Out Nat := getWith IndexData.asU64
def getU64Array : Header → Nat → Out (List Nat) := getWith IndexData.asU64Array
def getStringArray : Header → Nat → Out (List Bytes) := getWith IndexData.asStringArray

/-! ### basic facts (shared by C03 / C05) -/

theorem findEntry_not_panic (h : Header) (tag : Nat) : (findEntry h tag).isPanic = false := by
  unfold findEntry; split <;> rfl

theorem getWith_not_panic {α} (proj : IndexData → Option α) (h : Header) (tag : Nat) :
    (getWith proj h tag).isPanic = false := by
  unfold getWith findEntry
  split
  · simp only [Out.bind_ok]; split <;> rfl
  · rfl

/-- a getter succeeds exactly when the first entry with the tag exists and projects -/
theorem getWith_eq_ok {α} {proj : IndexData → Option α} {h : Header} {tag : Nat} {a : α} :
    getWith proj h tag = .ok a ↔
      ∃ e, h.entries.find? (fun e => e.tag == tag) = some e ∧ proj e.data = some a := by
  unfold getWith findEntry
  cases hf : h.entries.find? (fun e => e.tag == tag) with
  | none => simp
  | some e =>
    simp only [Out.bind_ok, Option.some.injEq, exists_eq_left']
    cases hp : proj e.data with
    | none => simp
    | some a' => simp

/-- otherwise the result is one of the two error classes -/
theorem getWith_ok_or_err {α} (proj : IndexData → Option α) (h : Header) (tag : Nat) :
    (∃ a, getWith proj h tag = .ok a) ∨ getWith proj h tag = .err "notfound" ∨ getWith proj h tag = .err "wrongtype" := by
  unfold getWith findEntry
  split
  · simp only [Out.bind_ok]
    split
    · exact .inl ⟨_, rfl⟩
    · exact .inr (.inr rfl)
  · exact .inr (.inl rfl)

end RpmVerif.Hdr
