import RpmVerif.Model.Io
/-!
# L5b: `std::io::BufWriter` and `Package::write_file` (C14)

`Package::write_file(path)` is `Package::write` into `BufWriter::new(File::create(path)?)`, followed —
since fix d2dbd7b — by an explicit `flush()?`; the `BufWriter` is then dropped.  Everything
`Package::write` does to its sink is a `write_all` (`prog_all_writeAll`), so the part of `BufWriter`
that matters is `write_all`, `flush_buf` (used by `flush` and by `Drop`) and the drop itself.

`std::io::BufWriter<W>` with capacity `cap`, buffer `buf` (`buf.len() ≤ cap`):

* `flush_buf`: `while written < buf.len() { match inner.write(&buf[written..]) { Ok(0) → Err(WriteZero),
  Ok(n) → written += n, Err(Interrupted) → retry, Err(e) → return Err(e) } }`; on every exit the bytes
  written so far are removed from the buffer (`BufGuard`), the rest stays buffered.  That loop is exactly
  `writeAll` of `Model/Io.lean`; an empty buffer makes no call.
* `write_all(data)`: if `data.len() < spare` copy it into the buffer; otherwise (`write_all_cold`) first
  `flush_buf()?` when `data.len() > spare`, then `inner.write_all(data)` when `data.len() ≥ cap`, else copy.
* `flush()`: `flush_buf()` then `inner.flush()` (a no-op for `File`).
* `Drop`: `let _ = self.flush_buf();` — the error is discarded.

The inner sink is a response script as in `Model/Io.lean`.
-/
namespace RpmVerif.Io

/-- (bytes the inner sink accepted, status, unused script, buffer afterwards) -/
abbrev BwRes := Bytes × St × List Resp × Bytes

/-- `BufWriter::flush_buf`: what the inner sink did not take stays in the buffer -/
def flushBuf (buf : Bytes) (rs : List Resp) : BwRes :=
  let w := writeAll buf rs
  (w.1, w.2.1, w.2.2, buf.drop w.1.length)

/-- the tail of `write_all_cold`: straight to the inner sink when the data is at least a buffer full, else buffered -/
def bwPut (cap : Nat) (e buf data : Bytes) (rs : List Resp) : BwRes :=
  if cap ≤ data.length then
    let w := writeAll data rs
    (e ++ w.1, w.2.1, w.2.2, buf)
  else (e, .ok, rs, buf ++ data)

/-- `BufWriter::write_all(data)` with capacity `cap` and current buffer `buf` -/
def bwWriteAll (cap : Nat) (buf data : Bytes) (rs : List Resp) : BwRes :=
  if data.length < cap - buf.length then ([], .ok, rs, buf ++ data)        -- hot path: it fits with room to spare
  else if data.length > cap - buf.length then
    -- write_all_cold: `self.flush_buf()?` first
    let f := flushBuf buf rs
    if f.2.1 = .ok then bwPut cap f.1 f.2.2.2 data f.2.2.1 else f
  else bwPut cap [] buf data rs

/-- a sequence of `write_all` calls on the `BufWriter` (`?` after each) -/
def bwRun (cap : Nat) : List Bytes → Bytes → List Resp → BwRes
  | [], buf, rs => ([], .ok, rs, buf)
  | d :: ds, buf, rs =>
    let w := bwWriteAll cap buf d rs
    if w.2.1 = .ok then
      let r := bwRun cap ds w.2.2.2 w.2.2.1
      (w.1 ++ r.1, r.2)
    else w

/-- `Drop for BufWriter`: one more `flush_buf`, result ignored; returns what the inner sink still accepted -/
def bwDrop (buf : Bytes) (rs : List Resp) : Bytes := (flushBuf buf rs).1

/-- `Package::write_file` as it is now: the calls of `Package::write` through the `BufWriter`, then
`flush()?`, then the drop. Returns everything that reached the file, and the result. -/
def writeFile (cap : Nat) (ds : List Bytes) (rs : List Resp) : Bytes × St :=
  let r := bwRun cap ds [] rs
  if r.2.1 = .ok then
    let f := flushBuf r.2.2.2 r.2.2.1
    (r.1 ++ f.1 ++ bwDrop f.2.2.2 f.2.2.1, f.2.1)
  else (r.1 ++ bwDrop r.2.2.2 r.2.2.1, r.2.1)

/-- `write_file` before d2dbd7b: no explicit flush; the drop's flush error is lost and `Ok(())` returned -/
def writeFileOld (cap : Nat) (ds : List Bytes) (rs : List Resp) : Bytes × St :=
  let r := bwRun cap ds [] rs
  (r.1 ++ bwDrop r.2.2.2 r.2.2.1, r.2.1)

end RpmVerif.Io
