import RpmVerif.Props.C05
import RpmVerif.Model.PgpFraming
import RpmVerif.Lemmas.PgpParse
/-!
# C04 — untrusted bytes never crash the reader

`Out` has an explicit `panic` outcome for every partial operation of the Rust code (slice out of
range, `unwrap`, `unreachable!`, overflow under checks). After the `fix:` commits in /repo the model
of the read side contains exactly one such site (`Lead::parse`'s `try_into().unwrap()`), and the
theorems show it — and the `unreachable!()` arms of the accessors — can never be reached, for EVERY
byte string. Memory: every accepted entry's item count is bounded by the store length, the store and
index by the input length (`read_to_end` grows with the bytes present, `reserve_exact` is capped).
Panics inside dependencies (pgp packet parser, decompressors) are outside the model; the harness
exercises them.
-/
namespace RpmVerif.C04
open RpmVerif.Hdr RpmVerif.Acc RpmVerif.Gen

theorem takeN_total (n : Nat) (bs : Bytes) : (takeN n bs).isPanic = false := by
  unfold takeN; split <;> rfl
theorem rd8_total (bs : Bytes) : (rd8 bs).isPanic = false := by unfold rd8; split <;> rfl
theorem rd16_total (bs : Bytes) : (rd16 bs).isPanic = false := by unfold rd16; split <;> rfl
theorem rd32_total (bs : Bytes) : (rd32 bs).isPanic = false := rd32_not_panic bs
theorem rd64_total (bs : Bytes) : (rd64 bs).isPanic = false := by
  unfold rd64
  refine Out.bind_not_panic (rd32_total _) (fun a _ => Out.bind_not_panic (rd32_total _) (fun b _ => rfl))

theorem map_total {α β} {f : α → β} {x : Out α} (h : x.isPanic = false) : (x.map f).isPanic = false := by
  cases x <;> simp_all [Out.map, Out.isPanic]

theorem rdBin_total (c : Nat) (bs : Bytes) : (rdBin c bs).isPanic = false := by unfold rdBin; split <;> rfl
theorem rdN16_total (k : Nat) (bs : Bytes) : (rdN16 k bs).isPanic = false := by
  induction k generalizing bs with
  | zero => rfl
  | succ k ih => exact Out.bind_not_panic (rd16_total _) (fun a _ => Out.bind_not_panic (ih _) (fun _ _ => rfl))
theorem rdN32_total (k : Nat) (bs : Bytes) : (rdN32 k bs).isPanic = false := by
  induction k generalizing bs with
  | zero => rfl
  | succ k ih => exact Out.bind_not_panic (rd32_total _) (fun a _ => Out.bind_not_panic (ih _) (fun _ _ => rfl))
theorem rdN64_total (k : Nat) (bs : Bytes) : (rdN64 k bs).isPanic = false := by
  induction k generalizing bs with
  | zero => rfl
  | succ k ih => exact Out.bind_not_panic (rd64_total _) (fun a _ => Out.bind_not_panic (ih _) (fun _ _ => rfl))
theorem rdStrings_total (k : Nat) (bs : Bytes) : (rdStrings k bs).isPanic = false := by
  induction k generalizing bs with
  | zero => rfl
  | succ k ih =>
    simp only [rdStrings]
    split
    · rfl
    · exact Out.bind_not_panic (ih _) (fun _ _ => rfl)

/-- decoding an entry never panics: offsets outside the store, negative offsets, unterminated strings,
short arrays are all errors -/
theorem decode_total (store : Bytes) (ty off cnt : Nat) : (decode store ty off cnt).isPanic = false := by
  unfold decode
  split
  · rfl
  · split <;> first
      | rfl
      | exact map_total (rdBin_total _ _)
      | exact map_total (rdN16_total _ _)
      | exact map_total (rdN32_total _ _)
      | exact map_total (rdN64_total _ _)
      | exact map_total (rdStrings_total _ _)

theorem decodeAllB_total (store : Bytes) (budget : Nat) (raws : List (Nat × Nat × Nat × Nat)) :
    (decodeAllB store budget raws).isPanic = false := by
  induction raws generalizing budget with
  | nil => rfl
  | cons r rs ih =>
    obtain ⟨tag, ty, off, cnt⟩ := r
    refine Out.bind_not_panic (decode_total _ _ _ _) (fun d _ => ?_)
    split
    · rfl
    · exact Out.bind_not_panic (ih _) (fun _ _ => rfl)

/-- the second loop of `parse_header`, budget check (`checked_sub`) included, never panics -/
theorem decodeAll_total (store : Bytes) (raws : List (Nat × Nat × Nat × Nat)) : (decodeAll store raws).isPanic = false :=
  decodeAllB_total store store.length raws

theorem parseEntryRaw_total (bs : Bytes) : (parseEntryRaw bs).isPanic = false := by
  unfold parseEntryRaw
  refine Out.bind_not_panic (rd32_total _) (fun ⟨tag, b1⟩ _ => Out.bind_not_panic (rd32_total _) (fun ⟨ty, b2⟩ _ => ?_))
  dsimp only
  split
  · rfl
  · exact Out.bind_not_panic (rd32_total _) (fun c _ => Out.bind_not_panic (rd32_total _) (fun d _ => rfl))

theorem parseEntriesRaw_total (k : Nat) (bs : Bytes) : (parseEntriesRaw k bs).isPanic = false := by
  induction k generalizing bs with
  | zero => rfl
  | succ k ih => exact Out.bind_not_panic (parseEntryRaw_total _) (fun a _ => Out.bind_not_panic (ih _) (fun _ _ => rfl))

theorem parseIntro_total (b : Bytes) : (parseIntro b).isPanic = false := by
  unfold parseIntro
  split
  · split
    · rfl
    · split
      · rfl
      · exact Out.bind_not_panic (rd32_total _) (fun a _ => Out.bind_not_panic (rd32_total _) (fun _ _ => rfl))
  · rfl

/-- `Header::parse` never panics, whatever the intro claims about sizes -/
theorem parseHeader_total (bs : Bytes) : (parseHeader bs).isPanic = false := by
  unfold parseHeader
  refine Out.bind_not_panic (takeN_total _ _) (fun a _ => Out.bind_not_panic (parseIntro_total _) (fun b _ =>
    Out.bind_not_panic (takeN_total _ _) (fun c _ => Out.bind_not_panic (parseEntriesRaw_total _ _) (fun d _ =>
      Out.bind_not_panic (decodeAll_total _ _) (fun _ _ => rfl)))))

theorem parseSignature_total (bs : Bytes) : (parseSignature bs).isPanic = false := by
  unfold parseSignature
  exact Out.bind_not_panic (parseHeader_total _) (fun a _ => Out.bind_not_panic (takeN_total _ _) (fun _ _ => rfl))

/-- the one `unwrap` of the read side (`rest.try_into().unwrap()` in `Lead::parse`) is safe: the
buffer handed over is always exactly 96 bytes -/
theorem parseLead_total {b : Bytes} (hb : b.length = 96) : (parseLead b).isPanic = false := by
  unfold parseLead
  refine Out.bind_not_panic (takeN_total _ _) (fun ⟨magic, r0⟩ h0 => ?_)
  dsimp only
  split
  · rfl
  · refine Out.bind_not_panic (rd8_total _) (fun ⟨_, r1⟩ h1 => Out.bind_not_panic (rd8_total _) (fun ⟨_, r2⟩ h2 =>
      Out.bind_not_panic (rd16_total _) (fun ⟨_, r3⟩ h3 => Out.bind_not_panic (rd16_total _) (fun ⟨_, r4⟩ h4 =>
        Out.bind_not_panic (takeN_total _ _) (fun ⟨name, r5⟩ h5 => Out.bind_not_panic (rd16_total _) (fun ⟨_, r6⟩ h6 =>
          Out.bind_not_panic (rd16_total _) (fun ⟨_, r7⟩ h7 => ?_)))))))
    dsimp only at h1 h2 h3 h4 h5 h6 h7 ⊢
    obtain ⟨rfl, l0⟩ := takeN_ok h0
    obtain ⟨rfl, _⟩ := rd8_ok h1
    obtain ⟨rfl, _⟩ := rd8_ok h2
    obtain ⟨rfl, _⟩ := rd16_ok h3
    obtain ⟨rfl, _⟩ := rd16_ok h4
    obtain ⟨rfl, l5⟩ := takeN_ok h5
    obtain ⟨rfl, _⟩ := rd16_ok h6
    obtain ⟨rfl, _⟩ := rd16_ok h7
    have : r7.length = 16 := by
      simp only [List.length_append, List.length_cons, List.length_nil, be16] at hb
      omega
    rw [if_neg (by simp [this])]
    rfl

/-- **parsing never panics**: every byte string is a value or an error -/
theorem parseMetadata_total (bs : Bytes) : (parseMetadata bs).isPanic = false := by
  unfold parseMetadata
  refine Out.bind_not_panic (takeN_total _ _) (fun ⟨lb, r⟩ h0 => ?_)
  have hl : lb.length = 96 := (takeN_ok h0).2
  exact Out.bind_not_panic (parseLead_total hl) (fun _ _ => Out.bind_not_panic (parseSignature_total _) (fun _ _ =>
    Out.bind_not_panic (parseHeader_total _) (fun _ _ => rfl)))

theorem parsePackage_total (bs : Bytes) : (parsePackage bs).isPanic = false := by
  unfold parsePackage
  exact Out.bind_not_panic (parseMetadata_total _) (fun _ _ => rfl)

/-! ### memory: accepted counts are bounded by the bytes that are really there -/

theorem flatten_be_length (l : List Nat) (f : Nat → Bytes) (w : Nat) (hw : ∀ x, (f x).length = w) :
    ((l.map f).flatten).length = w * l.length := by
  induction l with
  | nil => simp
  | cons x xs ih => simp [hw, ih, Nat.mul_succ]; omega

theorem strings_length (raws : List Bytes) : raws.length ≤ ((raws.map (· ++ [0])).flatten).length := by
  induction raws with
  | nil => simp
  | cons r rs ih => simp only [List.map_cons, List.flatten_cons, List.length_append, List.length_cons, List.length_nil]; omega

/-- an accepted entry never claims more items than its store has bytes (NULL entries carry no data,
STRING entries ignore their count): loops and allocations driven by `count` are proportional to the input -/
theorem accepted_count_bounded {store ty off cnt d} (h : decode store ty off cnt = .ok d) :
    d.numItems ≤ store.length + 1 ∧ (ty ≠ 0 → ty ≠ 6 → cnt ≤ store.length) := by
  have hs := decode_stores h
  have ht := decode_typeCode h
  have hdrop : ∀ (x rest : Bytes), store.drop off = x ++ rest → x.length ≤ store.length := by
    intro x rest e
    have := congrArg List.length e
    simp only [List.length_drop, List.length_append] at this
    omega
  cases hs with
  | null _ => simp [IndexData.numItems, IndexData.typeCode] at ht ⊢; omega
  | char b rest e l _ => have := hdrop _ _ e; simp only [IndexData.numItems]; omega
  | int8 b rest e l _ => have := hdrop _ _ e; simp only [IndexData.numItems]; omega
  | bin b rest e l _ => have := hdrop _ _ e; simp only [IndexData.numItems]; omega
  | int16 l rest e len _ _ =>
    have := hdrop _ _ e; rw [flatten_be_length l be16 2 (fun _ => rfl)] at this
    simp only [IndexData.numItems]; omega
  | int32 l rest e len _ _ =>
    have := hdrop _ _ e; rw [flatten_be_length l be32 4 (fun _ => rfl)] at this
    simp only [IndexData.numItems]; omega
  | int64 l rest e len _ _ =>
    have := hdrop _ _ e; rw [flatten_be_length l be64 8 (fun _ => by simp [be64, be32_length])] at this
    simp only [IndexData.numItems]; omega
  | str raw rest e _ _ => simp [IndexData.numItems, IndexData.typeCode] at ht ⊢; omega
  | strArray raws rest e len _ _ =>
    have := hdrop _ _ e; have := strings_length raws
    simp only [IndexData.numItems, List.length_map]; omega
  | i18n raws rest e len _ _ =>
    have := hdrop _ _ e; have := strings_length raws
    simp only [IndexData.numItems, List.length_map]; omega

/-- an accepted header's index and store fit inside the input: `16 + 16·n + dl ≤ |bs|` -/
theorem accepted_sizes_bounded {bs h rest} (hp : parseHeader bs = .ok (h, rest)) :
    16 + 16 * h.nEntries + h.dataSize + rest.length = bs.length := by
  obtain ⟨res, hr, rfl, wf⟩ := parseHeader_ok hp
  simp only [hdrBytes, List.length_append, hmagic, be32_length, writeRaws_length, List.length_map, wf.nEq, wf.dlEq, hr,
    List.length_cons, List.length_nil]
  omega

/-! ### read-side operations on a parsed package -/
theorem optStrings_total {r : Out (List Bytes)} (h : r.isPanic = false) : (optStrings r).isPanic = false := by
  unfold optStrings
  cases r with
  | ok l => rfl
  | err c => split <;> simp_all [Out.isPanic]
  | panic s => simp [Out.isPanic] at h

theorem fileDigestNew_total (a : Nat) (hex : Bytes) (tbl : List (Nat × Nat)) : (fileDigestNew a hex tbl).isPanic = false := by
  unfold fileDigestNew
  split <;> rfl

theorem digestOf_total (a : Nat) (d : Bytes) (tbl : List (Nat × Nat)) : (digestOf a d tbl).isPanic = false := by
  unfold digestOf; split
  · rfl
  · exact map_total (fileDigestNew_total _ _ _)

theorem buildEntries_total (algo : Nat) (caps ima : Option (List Bytes)) (tbl : List (Nat × Nat)) (idx : Nat)
    (ps us gs : List Bytes) (ms : List Nat) (ds : List Bytes) (ts ss fs : List Nat) (ls : List Bytes) :
    (buildEntries algo caps ima tbl idx ps us gs ms ds ts ss fs ls).isPanic = false := by
  induction ps generalizing idx us gs ms ds ts ss fs ls with
  | nil => unfold buildEntries; rfl
  | cons p ps ih =>
    cases us <;> cases gs <;> cases ms <;> cases ds <;> cases ts <;> cases ss <;> cases fs <;> cases ls <;>
      first
      | (unfold buildEntries; rfl)
      | (unfold buildEntries
         refine Out.bind_not_panic (digestOf_total _ _ _) (fun dg _ => ?_)
         dsimp only
         exact Out.bind_not_panic (ih _ _ _ _ _ _ _ _ _) (fun _ _ => rfl))

/-- `get_file_entries` never panics: its `unreachable!()` arm is dead code -/
theorem getFileEntries_total (sig h : Header) (tbl : List (Nat × Nat) := Gen.fileDigestHexLen) :
    (getFileEntries sig h tbl).isPanic = false := by
  unfold getFileEntries
  simp only
  split
  · rfl
  · have c1 := optStrings_total (getWith_not_panic IndexData.asStringArray h IndexTag.RPMTAG_FILECAPS)
    have c2 := optStrings_total (getWith_not_panic IndexData.asStringArray sig SigTag.RPMSIGTAG_FILESIGNATURES)
    split
    · rfl
    · rename_i s hs; rw [show getStringArray = getWith IndexData.asStringArray from rfl] at hs; rw [hs] at c1; cases c1
    · split
      · rfl
      · rename_i s hs; rw [show getStringArray = getWith IndexData.asStringArray from rfl] at hs; rw [hs] at c2; cases c2
      · have p1 := getWith_not_panic IndexData.asU16Array h IndexTag.RPMTAG_FILEMODES
        have p2 := getWith_not_panic IndexData.asStringArray h IndexTag.RPMTAG_FILEUSERNAME
        have p3 := getWith_not_panic IndexData.asStringArray h IndexTag.RPMTAG_FILEGROUPNAME
        have p4 := getWith_not_panic IndexData.asStringArray h IndexTag.RPMTAG_FILEDIGESTS
        have p5 := getWith_not_panic IndexData.asU32Array h IndexTag.RPMTAG_FILEMTIMES
        have p6 := getWith_not_panic IndexData.asU32Array h IndexTag.RPMTAG_FILEFLAGS
        have p7 := getWith_not_panic IndexData.asStringArray h IndexTag.RPMTAG_FILELINKTOS
        have p8 : (match getU64Array h IndexTag.RPMTAG_LONGFILESIZES with
            | .ok v => (Out.ok v : Out (List Nat))
            | _ => getU32Array h IndexTag.RPMTAG_FILESIZES).isPanic = false := by
          split
          · rfl
          · exact getWith_not_panic IndexData.asU32Array h IndexTag.RPMTAG_FILESIZES
        split
        · exact Out.bind_not_panic (C05.getFilePaths_total h) (fun _ _ => buildEntries_total _ _ _ _ _ _ _ _ _ _ _ _ _ _)
        · rename_i hne
          refine Out.bind_not_panic p1 (fun m1 e1 => Out.bind_not_panic p2 (fun m2 e2 => Out.bind_not_panic p3 (fun m3 e3 =>
            Out.bind_not_panic p4 (fun m4 e4 => Out.bind_not_panic p5 (fun m5 e5 => Out.bind_not_panic p8 (fun m6 e6 =>
              Out.bind_not_panic p6 (fun m7 e7 => Out.bind_not_panic p7 (fun m8 e8 => ?_))))))))
          exact absurd rfl (fun (_ : (0 : Nat) = 0) => hne _ _ _ _ _ _ _ _ e1 e2 e3 e4 e5 e6 e7 e8)

theorem getScriptlet_total (h : Header) (t : Nat × Nat × Nat) : (getScriptlet h t).isPanic = false :=
  Out.bind_not_panic (getWith_not_panic _ _ _) (fun _ _ => rfl)

theorem getInstalledSize_total (h : Header) : (getInstalledSize h).isPanic = false := by
  unfold getInstalledSize; split
  · rfl
  · exact getWith_not_panic _ _ _

/-! ### signature blobs: what reaches the OpenPGP parser lies inside the blob

`signature_key_ids()` and the library's own `Verifier::verify` parse attacker-chosen signature blobs with the `pgp`
crate, whose packet parser allocates a packet's DECLARED length before reading it (the code before 549074e: 104 MB
for the 7-byte blob below, up to 4 GiB for six bytes). The packets `split_packets` hands over are a partition of the
blob, so no declared length exceeds the blob — for EVERY blob. -/
section pgp
open RpmVerif.Pgp

/-- **the packets are a partition of the blob** -/
theorem split_partition (blob : Bytes) (ps : List Bytes) (h : splitPackets blob = some ps) : ps.flatten = blob :=
  splitAux_flatten _ _ _ h

/-- **each packet's own header declares exactly the packet's length**: the length the parser will allocate for a packet
is the number of bytes the packet really has -/
theorem split_declared (blob : Bytes) (ps : List Bytes) (h : splitPackets blob = some ps) :
    ∀ p ∈ ps, ∃ hl bl, packetLens p = some (hl, bl) ∧ hl + bl = p.length :=
  splitAux_declared _ _ _ h

/-- **no packet handed to the parser is longer than the blob, and together they are exactly the blob** -/
theorem split_bounded (blob : Bytes) (ps : List Bytes) (h : splitPackets blob = some ps) :
    (∀ p ∈ ps, p.length ≤ blob.length) ∧ (ps.map List.length).sum = blob.length := by
  have hf := split_partition blob ps h
  constructor
  · intro p hp
    rw [← hf, List.length_flatten]
    exact le_sum_of_mem_nat (List.mem_map_of_mem hp)
  · rw [← hf, List.length_flatten]

/-- a declared length that points beyond the blob is refused: new-format five-octet length -/
theorem split_refuses_oversize_new (t a b c d : UInt8) (tail : Bytes) (ht : t.toNat &&& 0x80 ≠ 0) (hn : t.toNat &&& 0x40 ≠ 0)
    (hbig : tail.length + 6 < 6 + (((a.toNat * 256 + b.toNat) * 256 + c.toNat) * 256 + d.toNat)) :
    splitPackets (t :: 255 :: a :: b :: c :: d :: tail) = none := by
  unfold splitPackets
  simp only [splitAux, packetLens, ht, hn, if_false, ne_eq, not_false_eq_true, if_true]
  have : ¬ ((255 : UInt8).toNat < 192) := by decide
  simp only [this, if_false, show (255 : UInt8).toNat = 255 from rfl, if_true, List.length_cons,
    show ¬ ((255 : Nat) < 224) from by decide]
  show (if _ then _ else none) = none
  rw [if_neg (by omega)]

/-- the witness of the defect: `e6 3b 96 06 32 f2 af` (declares 59 bytes, holds 5; the old code then re-synchronised on
`96 06 32 f2 af` = an old-format packet of 104 002 223 bytes) has no valid framing; a well-formed blob has -/
theorem split_witness :
    splitPackets [0xe6, 0x3b, 0x96, 0x06, 0x32, 0xf2, 0xaf] = none
      ∧ splitPackets [0x96, 0x06, 0x32, 0xf2, 0xaf] = none
      ∧ splitPackets [0x88, 2, 1, 2, 0xc2, 1, 9] = some [[0x88, 2, 1, 2], [0xc2, 1, 9]] := by
  decide

/-! #### `Verifier::parse_signature`: what the `pgp` crate's parser is handed, for ANY parser and ANY blob

`parserCalls P blob` are the arguments of the `find_map` closure of `parse_signature`, in call order (`P` = the `pgp`
crate's packet parser, a parameter). The parser allocates the length a packet header DECLARES before it reads the body;
these theorems bound that length by the blob, whatever the blob and whatever the parser does. -/

/-- the parser is called on a prefix of the packet list (`find_map` stops at the first signature) -/
theorem parser_calls_prefix {σ : Type} (P : Bytes → Option σ) (blob : Bytes) (ps : List Bytes)
    (h : splitPackets blob = some ps) : parserCalls P blob <+: ps := by
  unfold parserCalls; rw [h]; exact consulted_prefix P ps

/-- **every argument of the OpenPGP parser is a non-empty contiguous slice of the blob, no longer than the blob, whose
own header declares exactly the slice's length** -/
theorem parser_sees_only_slices {σ : Type} (P : Bytes → Option σ) (blob : Bytes) :
    ∀ p ∈ parserCalls P blob,
      (∃ pre post, blob = pre ++ p ++ post) ∧ 1 ≤ p.length ∧ p.length ≤ blob.length
        ∧ ∃ hl bl, packetLens p = some (hl, bl) ∧ hl + bl = p.length := by
  intro p hp
  cases hs : splitPackets blob with
  | none => simp [parserCalls, hs] at hp
  | some ps =>
    have hmem : p ∈ ps := (parser_calls_prefix P blob ps hs).subset hp
    have hflat := split_partition blob ps hs
    obtain ⟨hl, bl, hd, hlen⟩ := splitAux_declared _ _ _ hs p hmem
    obtain ⟨pre, post, hpp⟩ := mem_flatten_slice hmem
    refine ⟨⟨pre, post, by rw [← hflat, hpp]⟩, ?_, (split_bounded blob ps hs).1 p hmem, hl, bl, hd, hlen⟩
    have := packetLens_hpos hd
    omega

/-- **allocation bound** (corollary): whatever length a packet handed to the parser declares — header and body — lies
inside the blob, and all the bytes handed to the parser during one `parse_signature` call together are at most the blob -/
theorem parser_alloc_bound {σ : Type} (P : Bytes → Option σ) (blob : Bytes) :
    (∀ p ∈ parserCalls P blob, ∀ hl bl, packetLens p = some (hl, bl) → hl + bl ≤ blob.length)
      ∧ ((parserCalls P blob).map List.length).sum ≤ blob.length := by
  constructor
  · intro p hp hl bl hd
    obtain ⟨_, _, hle, hl', bl', hd', hlen⟩ := parser_sees_only_slices P blob p hp
    rw [hd] at hd'
    simp only [Option.some.injEq, Prod.mk.injEq] at hd'
    omega
  · cases hs : splitPackets blob with
    | none => simp [parserCalls, hs]
    | some ps =>
      obtain ⟨rest, hr⟩ := parser_calls_prefix P blob ps hs
      have := (split_bounded blob ps hs).2
      rw [← hr, List.map_append, List.sum_append] at this
      omega

/-- `parserCalls` is exactly the call sequence of a left-to-right `find_map`: the result is the parser's answer on the
LAST call, and every earlier call answered `None` -/
theorem parser_calls_faithful {σ : Type} (P : Bytes → Option σ) (blob : Bytes) :
    Pgp.parseSignature P blob = (parserCalls P blob).getLast?.bind P
      ∧ ∀ p ∈ (parserCalls P blob).dropLast, P p = none := by
  unfold Pgp.parseSignature parserCalls
  cases splitPackets blob with
  | none => exact ⟨rfl, fun p hp => by cases hp⟩
  | some ps => exact consulted_faithful P ps

/-- broken framing: the parser is not called at all -/
theorem parser_not_called_on_broken_framing {σ : Type} (P : Bytes → Option σ) (blob : Bytes)
    (h : splitPackets blob = none) : parserCalls P blob = [] ∧ Pgp.parseSignature P blob = none := by
  simp [parserCalls, Pgp.parseSignature, h]

/-- **the result depends on the parser only through its answers on slices of the blob**: two parsers that agree on
every packet-shaped slice of the blob give the same `parse_signature` result -/
theorem parse_depends_on_slices {σ : Type} (P Q : Bytes → Option σ) (blob : Bytes)
    (h : ∀ p, (∃ pre post, blob = pre ++ p ++ post) → p.length ≤ blob.length → P p = Q p) :
    Pgp.parseSignature P blob = Pgp.parseSignature Q blob := by
  unfold Pgp.parseSignature
  cases hs : splitPackets blob with
  | none => rfl
  | some ps =>
    refine findSome_congr (fun p hp => h p ?_ ((split_bounded blob ps hs).1 p hp))
    obtain ⟨pre, post, hpp⟩ := mem_flatten_slice hp
    exact ⟨pre, post, by rw [← split_partition blob ps hs, hpp]⟩

/-- non-vacuity: a toy parser (a "signature" is an old-format tag-2 packet; its value is the body) on
`[user-id packet][signature 7][signature 9]`: called on the first two packets only -/
example : parserCalls (fun p => match p with | 0x88 :: _ :: body => some body | _ => none)
      [0xb4, 1, 0x61, 0x88, 1, 7, 0x88, 1, 9] = [[0xb4, 1, 0x61], [0x88, 1, 7]]
    ∧ Pgp.parseSignature (fun p => match p with | 0x88 :: _ :: body => some body | _ => none)
      [0xb4, 1, 0x61, 0x88, 1, 7, 0x88, 1, 9] = some [7] := by decide
/-- … and a declared length beyond the blob never reaches the parser -/
example : parserCalls (fun p => some p) [0xe6, 0x3b, 0x96, 0x06, 0x32, 0xf2, 0xaf] = [] := by decide

end pgp

/-! ### non-vacuity: hostile inputs the old code crashed on are plain errors in the model -/
-- offset 100 in a 3-byte store (was: slice panic)
example : decode [1, 2, 3] 4 100 1 = .err "offset" := by decide
-- negative offset (was: slice panic)
example : decode [1, 2, 3] 6 4294967295 1 = .err "offset" := by decide
-- unterminated string array (was: `rest[1..]` panic)
example : decode [97, 98] 8 0 1 = .err "unterminated" := by decide +kernel
-- count u32::MAX on an INT64 entry (was: 32 GiB reserve)
example : (decode [0, 0, 0, 0, 0, 0, 0, 1] 5 0 4294967295).isErr = true := by decide +kernel
-- a 112-byte file claiming a 4 GiB store (was: overflow / 4 GiB allocation)
example : (parseHeader ([142, 173, 232, 1, 0, 0, 0, 0, 0, 0, 0, 0, 255, 255, 255, 255])).isErr = true := by decide +kernel

end RpmVerif.C04
