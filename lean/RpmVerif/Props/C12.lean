import RpmVerif.Lemmas.ExtractBenign
/-!
# C12 — extraction recreates the files and never touches anything outside the target

Model: `Model/Fs.lean` (`Fs.extract` = the call sequence of `Package::extract` over a file system with
symbolic links and a kernel-faithful path walk). Spec: `Spec/Extract.lean`.

Full-strength statement of the property (both halves):

```
extract_faithful : benign inp → TargetReady fs T →
    (extract inp T fs).out = .ok () ∧ Contained T fs (extract inp T fs).fs ∧ Faithful T inp (extract inp T fs).fs
extract_hostile  : ∀ inp T fs, TargetClean fs T →
    (extract inp T fs).out.isPanic = false ∧ Contained T fs (extract inp T fs).fs
```

`extract_hostile` is FALSE of today's code; its negation is proved below with three independent
concrete witnesses (`hostile_dotdot_witness`, `hostile_symlink_witness` (+ `_chmod_`),
`hostile_special_type_witness`; summary `extract_hostile_false`) — packages of the same shape are in
corpus/C12 (dotdot-base, link-then-below-abs, link-then-same-dir-chmod, fifo, …) and are replayed
against the real code in the chroot jail on every run.
What IS true of today's code, for all inputs of any size:

* `extract_total_partial` : no panic when only directories, regular files and links occur;
* `extract_contained`     : nothing outside the destination changes when no path has a `..` component
                            and no entry's followed path is at or below an EARLIER link entry
                            (each of the two escape witnesses violates exactly one of the two);
* `extract_log_sound`     : every change of any run is in the model's log;
* `extract_benign`        : a benign (built) package extracts with `ok`, contained, every entry at
                            destination+path with its content, permission bits, link target
                            (= `extract_faithful`; the design's name `extract_faithful_partial` is kept
                            as an alias — "partial" only in that the hostile clause above is false).
-/
namespace RpmVerif.C12
open RpmVerif.Fs RpmVerif.Extract

/-- what is assumed of the destination `T` before the call: its components are ordinary names, its
proper ancestors are directories, and no symbolic link lies at or below it -/
structure TargetClean (fs : Fs) (T : Path) : Prop where
  normal : ∀ c ∈ T, Normal c
  parents : ∀ k, 0 < k → k < T.length → ∃ m, fs.get (T.take k) = some (.dir m)
  noLinks : ∀ q t, T <+: q → fs.get q ≠ some (.symlink t)

theorem mkdir_target {fs fs0 : Fs} {T : Path} (hc : TargetClean fs T) (h : mkdir fs T = .ok fs0) :
    Good T fs fs0 [] := by
  obtain ⟨q, hq, hv, rfl⟩ := mkdir_ok h
  have hqT : q = T := by
    refine resolve_exact fs false T hc.normal (fun k hk hk2 t ht => ?_) (by simp) hq
    obtain ⟨m, hm⟩ := hc.parents k hk hk2
    rw [hm] at ht; cases ht
  subst hqT
  refine ⟨⟨fun k hk hk2 => ?_, fun q' t hq' hT => ?_⟩, [q], Ext.set _ _ _, by simp⟩
  · rw [get_set]
    by_cases he : q.take k = q
    · exact ⟨newDirMode fs q, by simp [he]⟩
    · have hlt : k < q.length := by
        rcases Nat.lt_or_ge k q.length with h | h
        · exact h
        · exact absurd (List.take_of_length_le h) he
      obtain ⟨m, hm⟩ := hc.parents k hk hlt
      exact ⟨m, by simp [he, hm]⟩
  · rw [get_set] at hq'
    by_cases he : q' = q
    · simp [he] at hq'
    · simp [he] at hq'
      exact absurd hq' (hc.noLinks q' t hT)

/-- **Containment (the provable half of the hostile-package clause).**
For EVERY package view without a `..` component in which no entry's followed path is at or below an
earlier symbolic-link entry — any file types, any names, duplicates, errors in the middle, any link
targets — the run changes nothing that is not the destination or below it, and every change it
makes is logged at such a path. -/
theorem extract_contained (inp : Input) (T : Path) (fs : Fs) (hc : TargetClean fs T)
    (h1 : noDotDot inp = true) (h2 : noBelowLink inp = true) :
    Contained T fs (extract inp T fs).fs ∧
      ∃ L, (extract inp T fs).fs.log = L ++ fs.log ∧ ∀ q ∈ L, T <+: q := by
  have key : ∃ S, Good T fs (extract inp T fs).fs S ∨ (extract inp T fs).fs = fs := by
    unfold extract
    cases hm : mkdir fs T with
    | error e => exact ⟨[], Or.inr rfl⟩
    | ok fs0 =>
      have g0 := mkdir_target hc hm
      simp only [andThen_ok]
      have hall : ∀ s ∈ allTexts inp, hasDotDot s = false := by
        simpa [noDotDot, List.all_eq_true] using h1
      cases hd : inp.dirnames with
      | none => exact ⟨[], Or.inl g0⟩
      | some ds =>
        simp only
        have hds : ∀ d ∈ ds, ∀ c ∈ compsD d, Normal c := fun d hd' =>
          compsD_normal (hall d (by simp [allTexts, hd, hd']))
        have g1 := g0.trans (extractDirs_good hc.normal ds fs0 g0.1 hds)
        split
        · rename_i u fs1 heq
          rw [heq] at g1
          have hits : ∀ it ∈ inp.items, ∀ c ∈ compsD it.path, Normal c := fun it hit =>
            compsD_normal (hall it.path (by simp only [allTexts, List.mem_append, List.mem_map]; exact Or.inr ⟨it, hit, rfl⟩))
          obtain ⟨S', g2⟩ := extractItems_good hc.normal inp.items fs1 [] (by simpa using g1.1) h2 hits
          have g := g1.trans g2
          split
          · rename_i u2 fs2 heq2
            rw [heq2] at g
            split <;> exact ⟨S', Or.inl g⟩
          · exact ⟨S', Or.inl g⟩
        · exact ⟨[], Or.inl g1⟩
  obtain ⟨S, hk | hk⟩ := key
  · obtain ⟨_, L, hext, hu⟩ := hk
    exact ⟨fun q hq => hext.2 q (fun hm => hq (hu q hm)), L, hext.1, hu⟩
  · rw [hk]
    exact ⟨fun _ _ => rfl, [], rfl, by simp⟩


/-- **No panic when only the three supported file types occur** — for every package view, destination
and file system (no other assumption: hostile names, `..`, links, errors in the middle are all allowed). -/
theorem extract_total_partial (inp : Input) (T : List Name) (fs : Fs) (h : threeKinds inp = true) :
    (extract inp T fs).out.isPanic = false := by
  have hk : ∀ it ∈ inp.items, it.kind ≠ .other := by
    simpa [threeKinds, List.all_eq_true] using h
  unfold extract
  refine andThen_not_panic _ _ _ (fun fs0 => ?_)
  cases inp.dirnames with
  | none => rfl
  | some ds =>
    simp only
    have h1 := extractDirs_not_panic T ds fs0
    split
    · rename_i u fs1 heq
      have h2 := extractItems_not_panic T inp.items fs1 hk
      split
      · split <;> rfl
      · exact h2
    · exact h1


/-! ### witnesses: names are written as bytes (string literals do not evaluate in the kernel) -/

/-- `decoy` -/ def nDecoy : Name := [100, 101, 99, 111, 121]
/-- `file` -/ def nFile : Name := [102, 105, 108, 101]
/-- `dir` -/ def nDir : Name := [100, 105, 114]
/-- `target` -/ def nTarget : Name := [116, 97, 114, 103, 101, 116]
/-- `link` -/ def nLink : Name := [108, 105, 110, 107]

/-- a jail: `/`, `/decoy/`, `/decoy/file` (content `decoy`, 0644), `/decoy/dir/` (0750); `/target` is vacant -/
def jail : Fs :=
  ⟨[([], .dir 0o755), ([nDecoy], .dir 0o755), ([nDecoy, nFile], .file nDecoy 0o644), ([nDecoy, nDir], .dir 0o750)], []⟩

theorem jail_clean : TargetClean jail [nTarget] := by
  refine ⟨by decide, fun k hk hk2 => ?_, fun q t _ hq => ?_⟩
  · simp at hk2; omega
  · have hm := lookup_mem hq
    have hall : ∀ e ∈ jail.nodes, e.2.isSymlink = false := by decide
    exact absurd (hall _ hm) (by simp [Node.isSymlink])

/-- DIRNAMES `["/"]`, one regular file `/../decoy/file` (content `pwned`, mode 0600) -/
def wDotDot : Input :=
  ⟨some [[47]], [⟨[47, 46, 46, 47] ++ nDecoy ++ [47] ++ nFile, .regular, 0o600, [112, 119, 110, 101, 100], []⟩], true⟩

/-- DIRNAMES `["/"]`, a link `/link` → `/decoy`, then a regular file `/link/file` -/
def wLink : Input :=
  ⟨some [[47]], [⟨[47] ++ nLink, .symlink, 0o777, [], [47] ++ nDecoy⟩,
                 ⟨[47] ++ nLink ++ [47] ++ nFile, .regular, 0o600, [112, 119, 110, 101, 100], []⟩], true⟩

/-- DIRNAMES `["/"]`, a link `/link` → `/decoy/dir`, then a DIRECTORY entry `/link` with mode 0777 (chmod through the link) -/
def wLinkChmod : Input :=
  ⟨some [[47]], [⟨[47] ++ nLink, .symlink, 0o777, [], [47] ++ nDecoy ++ [47] ++ nDir⟩,
                 ⟨[47] ++ nLink, .dir, 0o777, [], []⟩], true⟩

/-- DIRNAMES `["/"]`, one FIFO entry `/file` -/
def wFifo : Input := ⟨some [[47]], [⟨[47] ++ nFile, .other, 0o644, [], []⟩], true⟩

theorem hostile_dotdot_witness :
    TargetClean jail [nTarget] ∧ threeKinds wDotDot = true ∧ noBelowLink wDotDot = true ∧
      (extract wDotDot [nTarget] jail).out.isOk = true ∧
      (extract wDotDot [nTarget] jail).fs.get [nDecoy, nFile] = some (.file [112, 119, 110, 101, 100] 0o600) ∧
      ¬ Contained [nTarget] jail (extract wDotDot [nTarget] jail).fs := by
  refine ⟨jail_clean, by decide +kernel, by decide +kernel, by decide +kernel, by decide +kernel, fun h => ?_⟩
  have := h [nDecoy, nFile] (by decide)
  revert this
  decide +kernel

theorem hostile_symlink_witness :
    TargetClean jail [nTarget] ∧ threeKinds wLink = true ∧ noDotDot wLink = true ∧
      (extract wLink [nTarget] jail).out.isOk = true ∧
      (extract wLink [nTarget] jail).fs.get [nDecoy, nFile] = some (.file [112, 119, 110, 101, 100] 0o600) ∧
      ¬ Contained [nTarget] jail (extract wLink [nTarget] jail).fs := by
  refine ⟨jail_clean, by decide +kernel, by decide +kernel, by decide +kernel, by decide +kernel, fun h => ?_⟩
  have := h [nDecoy, nFile] (by decide)
  revert this
  decide +kernel

theorem hostile_symlink_chmod_witness :
    threeKinds wLinkChmod = true ∧ noDotDot wLinkChmod = true ∧
      (extract wLinkChmod [nTarget] jail).fs.get [nDecoy, nDir] = some (.dir 0o777) ∧
      ¬ Contained [nTarget] jail (extract wLinkChmod [nTarget] jail).fs := by
  refine ⟨by decide +kernel, by decide +kernel, by decide +kernel, fun h => ?_⟩
  have := h [nDecoy, nDir] (by decide)
  revert this
  decide +kernel

theorem hostile_special_type_witness :
    TargetClean jail [nTarget] ∧ noDotDot wFifo = true ∧ noBelowLink wFifo = true ∧
      (extract wFifo [nTarget] jail).out.isPanic = true := by
  refine ⟨jail_clean, by decide +kernel, by decide +kernel, by decide +kernel⟩


/-- **Faithful extraction of benign packages** (`extract_faithful` of the design, at full strength for
the benign half): for every benign package view — any number of directory names and entries, any
contents, all 12 permission bits, any link targets — extracted into a vacant destination whose
ancestors are directories, the run ends with `ok`, nothing outside the destination changes, and every
directory, regular file and link entry is at destination+path with exactly its permission bits,
content and link target. -/
theorem extract_benign (inp : Input) (T : Path) (fs : Fs) (hb : benign inp = true) (hr : TargetReady fs T) :
    (extract inp T fs).out = .ok () ∧ Contained T fs (extract inp T fs).fs ∧ Faithful T inp (extract inp T fs).fs := by
  obtain ⟨ds, hds, htail, hdn, hbi, hnodup⟩ := benign_spec hb
  obtain ⟨hmk, k0⟩ := mkdir_ready hr
  obtain ⟨fs1, h1, k1⟩ := dirs_ok hr.normal hr.nonroot ds [] _ k0 hdn
  have k1' : K T fs (fs1) ds [] := k1.congr (by simp) (by simp)
  obtain ⟨fs2, h2, k2⟩ := items_ok hr.normal hr.nonroot hbi inp.items [] fs1 k1' (fun _ h => h) (by simp) hnodup (by simp)
  have hres : extract inp T fs = ⟨.ok (), fs2⟩ := by
    unfold extract
    rw [hmk]
    simp only [andThen_ok, hds, h1, h2, htail, if_true]
    rfl
  rw [hres]
  refine ⟨rfl, fun q hq => k2.frame q hq, fun it hit => k2.faithful it (by simp [hit])⟩


/-- the design's name for `extract_benign` -/
theorem extract_faithful_partial (inp : Input) (T : Path) (fs : Fs) (hb : benign inp = true) (hr : TargetReady fs T) :
    (extract inp T fs).out = .ok () ∧ Contained T fs (extract inp T fs).fs ∧ Faithful T inp (extract inp T fs).fs :=
  extract_benign inp T fs hb hr

theorem targetReady_clean {fs : Fs} {T : Path} (h : TargetReady fs T) : TargetClean fs T :=
  ⟨h.normal, h.parents, fun q t hq hs => by rw [h.vacant q hq] at hs; cases hs⟩

/-- benign packages are inside the region of `extract_contained` and `extract_total_partial` -/
theorem benign_threeKinds_noDotDot {inp : Input} (h : benign inp = true) : threeKinds inp = true ∧ noDotDot inp = true := by
  unfold benign at h
  cases hd : inp.dirnames with
  | none => rw [hd] at h; simp at h
  | some ds =>
    rw [hd] at h
    simp only [Bool.and_eq_true] at h
    exact ⟨h.1.1.1.1.1.2, h.1.1.1.1.2⟩

/-- **The log is sound, for every package and every file system**: the paths a run appends to the log
account for every difference between the file system before and after (so "the log has no entry
outside the destination" really means "nothing outside changed", also for hostile packages). -/
theorem extract_log_sound (inp : Input) (T : List Name) (fs : Fs) :
    ∃ L, (extract inp T fs).fs.log = L ++ fs.log ∧ ∀ q, q ∉ L → (extract inp T fs).fs.get q = fs.get q :=
  extract_logged inp T fs

/-- the full-strength hostile-package clause is false of the code as it is -/
theorem extract_hostile_false :
    ¬ (∀ (inp : Input) (T : Path) (fs : Fs), TargetClean fs T →
        (extract inp T fs).out.isPanic = false ∧ Contained T fs (extract inp T fs).fs) := by
  intro h
  exact hostile_dotdot_witness.2.2.2.2.2 (h wDotDot [nTarget] jail jail_clean).2

/-! ### non-vacuity: the hypotheses are satisfiable by concrete, non-trivial values -/

/-- `a`, `b`, `f`, `l` -/
def nA : Name := [97]
def nB : Name := [98]
def nF : Name := [102]
def nL : Name := [108]

/-- DIRNAMES `["/", "/a/", "/a/b/"]`; a directory entry `/a/b` (mode 2750), a regular file `/a/b/f`
(content `decoy`, mode 4755), a link `/a/l` → `/decoy/file` (a link pointing outside is fine), a regular file `/f` (mode 0) -/
def wBenign : Input :=
  ⟨some [[47], [47] ++ nA ++ [47], [47] ++ nA ++ [47] ++ nB ++ [47]],
   [⟨[47] ++ nA ++ [47] ++ nB, .dir, 0o2750, [], []⟩,
    ⟨[47] ++ nA ++ [47] ++ nB ++ [47] ++ nF, .regular, 0o4755, nDecoy, []⟩,
    ⟨[47] ++ nA ++ [47] ++ nL, .symlink, 0o777, [], [47] ++ nDecoy ++ [47] ++ nFile⟩,
    ⟨[47] ++ nF, .regular, 0, [1, 2, 3], []⟩], true⟩

theorem jail_ready : TargetReady jail [nTarget] := by
  refine ⟨by decide, by decide, fun k hk hk2 => ?_, fun q hq => ?_⟩
  · simp at hk2; omega
  · cases hg : jail.get q with
    | none => rfl
    | some n =>
      exfalso
      have hm := lookup_mem hg
      have hall : ∀ e ∈ jail.nodes, ¬ [nTarget] <+: e.1 := by decide
      exact hall _ hm hq

example : benign wBenign = true := by decide +kernel
example : (extract wBenign [nTarget] jail).out = .ok () ∧
    (extract wBenign [nTarget] jail).fs.get [nTarget, nA, nB, nF] = some (.file nDecoy 0o4755) ∧
    (extract wBenign [nTarget] jail).fs.get [nTarget, nA, nB] = some (.dir 0o2750) ∧
    (extract wBenign [nTarget] jail).fs.get [nTarget, nA, nL] = some (.symlink ([47] ++ nDecoy ++ [47] ++ nFile)) ∧
    (extract wBenign [nTarget] jail).fs.get [nDecoy, nFile] = jail.get [nDecoy, nFile] := by decide +kernel
example : Faithful [nTarget] wBenign (extract wBenign [nTarget] jail).fs :=
  (extract_benign wBenign [nTarget] jail (by decide +kernel) jail_ready).2.2

/-- hostile but inside the region of `extract_contained`: an absolute base name, a duplicate path, a
link replaced by a link, a FIFO (panic) — and the theorem's conclusion on it -/
def wOdd : Input :=
  ⟨some [[47], [47] ++ nDecoy ++ [47], []],
   [⟨[47] ++ nDecoy ++ [47] ++ nFile, .regular, 0o644, [1], []⟩,
    ⟨[47] ++ nDecoy ++ [47] ++ nFile, .regular, 0o600, [2], []⟩,
    ⟨[47] ++ nL, .symlink, 0o777, [], [47] ++ nDecoy⟩,
    ⟨[47] ++ nL, .symlink, 0o777, [], [46, 46]⟩,
    ⟨nF, .other, 0o644, [], []⟩], false⟩

example : noDotDot wOdd = true ∧ noBelowLink wOdd = true := by decide +kernel
example : Contained [nTarget] jail (extract wOdd [nTarget] jail).fs :=
  (extract_contained wOdd [nTarget] jail jail_clean (by decide +kernel) (by decide +kernel)).1
example : (extract wOdd [nTarget] jail).out.isPanic = true := by decide +kernel
example : threeKinds wLink = true ∧ (extract wLink [nTarget] jail).out.isPanic = false :=
  ⟨by decide +kernel, extract_total_partial wLink [nTarget] jail (by decide +kernel)⟩

end RpmVerif.C12
