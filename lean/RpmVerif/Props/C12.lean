import RpmVerif.Lemmas.ExtractBenign
import RpmVerif.Lemmas.PkgFiles
import RpmVerif.Props.Pipeline
/-!
# C12 — extraction recreates the files and never touches anything outside the target

Model: `Model/Fs.lean` — `Fs.extract` is the call sequence of `Package::extract` as it is in /repo
after `fix: extract() stays inside the destination and reports unsupported file types`
(`extraction_path`, `refuse_symlinks`, `is_symlink`, the removal of a link before `File::create`, an
error for other file types), over a file system with symbolic links and a kernel-faithful path walk.
Spec: `Spec/Extract.lean`.

Both halves of the property are proved at full strength, for package views, destinations and file
systems of any size:

* `extract_hostile`   : for EVERY package view (any entries in any order: `..` components, absolute and
                        empty names, duplicates, links followed by entries at or below them, special
                        file types, errors in the middle, any link targets) extraction into a clean
                        destination never panics, ends `ok` or `err`, and creates, modifies or removes
                        nothing that is not the destination or below it; every path in the log is below it.
                        `extract_hostile_wf` states the same for any tree-shaped file system, with no
                        assumption about the destination at all.
* `extract_benign`    : a benign (built) package extracted into a vacant destination ends `ok`, is
                        contained, and every directory / file / link entry is at destination+path with
                        exactly its permission bits, content and link target (= `extract_faithful`).
* `extract_total`     : no run panics.
* `extract_log_sound` : every change of any run is in the model's log.

The three former counterexamples of the hostile clause (a `..` component, a link followed by an entry
at or below it, a FIFO entry — also in corpus/C12 and replayed against the real code on every run) are
kept as regression theorems `regress_*`: on the repaired model each yields `err` and an untouched decoy.

The package views (`Fs.Input`) the theorems above quantify over are tied to packages in the last part of the file:
`PkgFiles.extractInput` — what the driver feeds `Fs.extract` with — is built from the proved, table-driven models and
from nothing else:

* `input_files_failed`, `input_of_files` : it is `Acc.getFileEntries` (C04 / C05 / C06), `Acc.getPayloadCompressorVariant`
                        and `Cpio.iterate` (C07) composed as `Package::extract` / `Package::files` compose them;
* `input_items_are_iteration` : the items are exactly the `Ok` prefix of the cpio iteration, each projected to the
                        metadata of the header file at the index the iteration attached; the tail flag says whether an
                        `Err` ended it; `input_index_in_range`: `self.file_entries[index]` cannot panic;
* `input_item_designated` : C07's pairing carried over — every item is the content of an archive entry under the
                        metadata of the header file that very entry designates, written at the path the entry names;
* `input_digests_standard`, `digest_table_decides`, `digest_algo_fallbacks` : a package yields items only if every
                        non-empty file digest has a hex length the source's own table pairs with its algorithm
                        (`Gen.fileDigestHexLen`, regenerated from `FileDigest::new`; SHA-224 = 56 since fix e7bf001; that
                        the lengths are the real digest sizes is C05 `file_digest_lengths_standard`);
* `compressor_tables_agree`, `default_compressor_is_identity`, `payload_compressor_bridge` : the compressor variant is the one whose name C05's accessor
                        (`Acc.getPayloadCompressor`, compared with the real code on every C05 run) answers;
* `extract_package_hostile`, `extract_package_total` : the hostile clause for every parsed package;
* `build_input`, `build_benign`, `extract_package_benign` : what `extract` reads from the package `PackageBuilder::build`
                        returns is the builder's own directory set and files (C06 `readback_file_entries`, C07
                        `files_of_build` through `Pipeline.build_files_roundtrip`), so the benign clause holds for every
                        built package whose input is benign: `Ok`, contained, every builder file at destination + path as
                        the node its mode, content and link target prescribe.

What the hypotheses about the caller's side mean (`TargetClean`): the destination's components are
ordinary names, its proper ancestors are directories (so "below the destination" is meant physically),
and nothing lies strictly below it — which holds automatically when the destination is vacant in a
tree-shaped file system (`extract_hostile_wf`), and if it is not vacant `create_dir` fails first.
-/
namespace RpmVerif.C12
open RpmVerif.Fs RpmVerif.Extract RpmVerif.Hdr RpmVerif.PkgFiles RpmVerif.Gen

/-- what is assumed of the destination `T` before the call -/
structure TargetClean (fs : Fs) (T : Path) : Prop where
  normal : ∀ c ∈ T, Normal c
  parents : ∀ k, 0 < k → k < T.length → ∃ m, fs.get (T.take k) = some (.dir m)
  below : ∀ q, T <+: q → q ≠ T → fs.get q = none

theorem mkdir_target {fs fs0 : Fs} {T : Path} (hc : TargetClean fs T) (h : mkdir fs T = .ok fs0) :
    Good T fs fs0 ∧ NoLinksUnder T fs0 := by
  obtain ⟨q, hq, hv, rfl⟩ := mkdir_ok h
  have hqT : q = T := by
    refine resolve_exact fs false T hc.normal (fun k hk hk2 t ht => ?_) (by simp) hq
    obtain ⟨m, hm⟩ := hc.parents k hk hk2
    rw [hm] at ht; cases ht
  subst hqT
  refine ⟨⟨⟨fun k hk hk2 => ?_, fun q' n hq' hT hne => ?_⟩, [q], Ext.set _ _ _, by simp⟩, fun q' t hT ht => ?_⟩
  · rw [get_set]
    by_cases he : q.take k = q
    · exact ⟨newDirMode fs q, by simp [he]⟩
    · have hlt : k < q.length := by
        rcases Nat.lt_or_ge k q.length with h | h
        · exact h
        · exact absurd (List.take_of_length_le h) he
      obtain ⟨m, hm⟩ := hc.parents k hk hlt
      exact ⟨m, by simp [he, hm]⟩
  · rw [get_set] at hq'
    simp only [hne, if_false] at hq'
    rw [hc.below q' hT hne] at hq'; cases hq'
  · rw [get_set] at ht
    by_cases he : q' = q
    · simp [he] at ht
    · simp only [he, if_false] at ht
      rw [hc.below q' hT he] at ht; cases ht

/-- **The hostile-package clause at full strength.** For every package view whatsoever, extraction into
a clean destination ends with `ok` or `err` — never a panic — and nothing that is not the destination
or below it is created, modified or removed; every path the run logs is the destination or below it. -/
theorem extract_hostile (inp : Input) (T : Path) (fs : Fs) (hc : TargetClean fs T) :
    (extract inp T fs).out.isPanic = false ∧
    ((extract inp T fs).out.isOk = true ∨ (extract inp T fs).out.isErr = true) ∧
    Contained T fs (extract inp T fs).fs ∧
    ∃ L, (extract inp T fs).fs.log = L ++ fs.log ∧ ∀ q ∈ L, T <+: q := by
  have hnp := extract_not_panic inp T fs
  refine ⟨hnp, ?_, ?_⟩
  · cases ho : (extract inp T fs).out with
    | ok u => exact Or.inl rfl
    | err e => exact Or.inr rfl
    | panic s => rw [ho] at hnp; simp [Out.isPanic] at hnp
  by_cases hne : T = []
  · subst hne
    obtain ⟨L, hext⟩ := extract_logged inp [] fs
    exact ⟨fun q hq => absurd (List.nil_prefix) hq, L, hext.1, fun q _ => List.nil_prefix⟩
  have key : Good T fs (extract inp T fs).fs ∨ (extract inp T fs).fs = fs := by
    unfold extract
    cases hm : mkdir fs T with
    | error e => exact Or.inr rfl
    | ok fs0 =>
      obtain ⟨g0, nl0⟩ := mkdir_target hc hm
      simp only [andThen_ok]
      cases hd : inp.dirnames with
      | none => exact Or.inl g0
      | some ds =>
        simp only
        obtain ⟨gd, _⟩ := extractDirs_good hc.normal hne ds fs0 g0.1 nl0
        have g1 := g0.trans gd
        split
        · rename_i u fs1 heq
          rw [heq] at g1
          have g := g1.trans (extractItems_good hc.normal hne inp.items fs1 g1.1)
          split
          · rename_i u2 fs2 heq2
            rw [heq2] at g
            split <;> exact Or.inl g
          · exact Or.inl g
        · exact Or.inl g1
  rcases key with hk | hk
  · obtain ⟨_, L, hext, hu⟩ := hk
    exact ⟨fun q hq => hext.2 q (fun hm => hq (hu q hm)), L, hext.1, hu⟩
  · rw [hk]
    exact ⟨fun _ _ => rfl, [], rfl, by simp⟩

/-- a tree-shaped file system: every node other than the root hangs in a directory -/
def WellFormed (fs : Fs) : Prop := ∀ q n, fs.get q = some n → q ≠ [] → ∃ m, fs.get q.dropLast = some (.dir m)

theorem wf_below {fs : Fs} (hw : WellFormed fs) {T : Path} (hv : fs.get T = none) :
    ∀ (n : Nat) (s : List Name), s.length = n → fs.get (T ++ s) = none := by
  intro n
  induction n with
  | zero => intro s hs; rw [List.length_eq_zero_iff.mp hs, List.append_nil]; exact hv
  | succ n ih =>
    intro s hs
    obtain ⟨s', x, hsx⟩ : ∃ s' x, s = s' ++ [x] := by
      rcases List.eq_nil_or_concat s with h | ⟨s', x, h⟩
      · subst h; simp at hs
      · exact ⟨s', x, by rw [h, List.concat_eq_append]⟩
    subst hsx
    cases hg : fs.get (T ++ (s' ++ [x])) with
    | none => rfl
    | some nd =>
      exfalso
      obtain ⟨m, hm⟩ := hw _ nd hg (by simp)
      rw [← List.append_assoc, List.dropLast_concat] at hm
      rw [ih s' (by simpa using hs)] at hm; cases hm

/-- **The hostile-package clause for any tree-shaped file system** — nothing is assumed about the
destination except that its ancestors are directories (if it exists already, `create_dir` fails and
nothing happens; if it is vacant, nothing can be below it). -/
theorem extract_hostile_wf (inp : Input) (T : Path) (fs : Fs) (hw : WellFormed fs)
    (hn : ∀ c ∈ T, Normal c) (hp : ∀ k, 0 < k → k < T.length → ∃ m, fs.get (T.take k) = some (.dir m)) :
    (extract inp T fs).out.isPanic = false ∧ Contained T fs (extract inp T fs).fs ∧
    ∃ L, (extract inp T fs).fs.log = L ++ fs.log ∧ ∀ q ∈ L, T <+: q := by
  cases hv : fs.get T with
  | none =>
    have hc : TargetClean fs T := ⟨hn, hp, fun q hq _ => by
      obtain ⟨s, rfl⟩ := hq
      exact wf_below hw hv s.length s rfl⟩
    obtain ⟨h1, _, h2, h3⟩ := extract_hostile inp T fs hc
    exact ⟨h1, h2, h3⟩
  | some nd =>
    have hm : ∃ e, mkdir fs T = .error e := by
      have hres : resolve fs false T = .ok T := resolve_parents fs false T hn hp (by simp)
      exact ⟨.EEXIST, mkdir_exists hres hv⟩
    obtain ⟨e, hm⟩ := hm
    have : (extract inp T fs).fs = fs := by unfold extract; rw [hm]; rfl
    refine ⟨extract_not_panic inp T fs, ?_, [], ?_, by simp⟩
    · rw [this]; exact fun _ _ => rfl
    · rw [this]; rfl

/-- **No run panics** (all inputs, all destinations, all file systems). -/
theorem extract_total (inp : Input) (T : List Name) (fs : Fs) : (extract inp T fs).out.isPanic = false :=
  extract_not_panic inp T fs

/-- **The log is sound, for every package and every file system**: the paths a run appends to the log
account for every difference between the file system before and after. -/
theorem extract_log_sound (inp : Input) (T : List Name) (fs : Fs) :
    ∃ L, (extract inp T fs).fs.log = L ++ fs.log ∧ ∀ q, q ∉ L → (extract inp T fs).fs.get q = fs.get q :=
  extract_logged inp T fs

/-- **Faithful extraction of benign packages**: for every benign package view — any number of directory
names and entries, any contents, all 12 permission bits, any link targets — extracted into a vacant
destination whose ancestors are directories, the run ends with `ok`, nothing outside the destination
changes, and every directory, regular file and link entry is at destination+path with exactly its
permission bits, content and link target. (`benign` includes `shortNames`: no component longer than `NAME_MAX` = 255
bytes - with a longer one `create_dir_all` / `File::create` / `symlink` fail with `ENAMETOOLONG`, see
`long_name_witness`; `TargetReady` asks the same of the destination.) -/
theorem extract_benign (inp : Input) (T : Path) (fs : Fs) (hb : benign inp = true) (hr : TargetReady fs T) :
    (extract inp T fs).out = .ok () ∧ Contained T fs (extract inp T fs).fs ∧ Faithful T inp (extract inp T fs).fs := by
  obtain ⟨ds, hds, htail, hdn, hds', hbi, hnodup⟩ := benign_spec hb
  obtain ⟨hmk, k0⟩ := mkdir_ready hr
  obtain ⟨fs1, h1, k1⟩ := dirs_ok hr.normal hr.nonroot ds [] _ k0 hdn hds'
  have k1' : K T fs (fs1) ds [] := k1.congr (by simp) (by simp)
  obtain ⟨fs2, h2, k2⟩ := items_ok hr.normal hr.nonroot hr.short hbi inp.items [] fs1 k1' (fun _ h => h) (by simp) hnodup (by simp)
  have hres : extract inp T fs = ⟨.ok (), fs2⟩ := by
    unfold extract
    rw [hmk]
    simp only [andThen_ok, hds, h1, h2, htail, if_true]
    rfl
  rw [hres]
  refine ⟨rfl, fun q hq => k2.frame q hq, fun it hit => k2.faithful it (by simp [hit])⟩

/-- the design's name for `extract_benign` -/
theorem extract_faithful (inp : Input) (T : Path) (fs : Fs) (hb : benign inp = true) (hr : TargetReady fs T) :
    (extract inp T fs).out = .ok () ∧ Contained T fs (extract inp T fs).fs ∧ Faithful T inp (extract inp T fs).fs :=
  extract_benign inp T fs hb hr

theorem targetReady_clean {fs : Fs} {T : Path} (h : TargetReady fs T) : TargetClean fs T :=
  ⟨h.normal, h.parents, fun q hq _ => h.vacant q hq⟩

/-! ### from package views to packages: `PkgFiles.extractInput` is the composition of the proved models -/

/-- the DIRNAMES column as `extract` reads it -/
def dirnamesOf (p : Package) : Option (List Bytes) := (getStringArray p.md.header IndexTag.RPMTAG_DIRNAMES).toOption
/-- header paths / sizes: the two columns of `file_entries` the cpio reader consults -/
def pathsOf (es : List Acc.FileEntry) : List Bytes := es.map (·.path)
def sizesOf (es : List Acc.FileEntry) : List Nat := es.map (·.size)

theorem input_files_failed (p : Package) (a? : Option Bytes)
    (h : (Acc.getFileEntries p.md.signature p.md.header).isOk = false ∨
         (Acc.getPayloadCompressorVariant p.md.header).isOk = false) :
    extractInput p a? = some ⟨dirnamesOf p, [], false⟩ := by
  unfold extractInput dirnamesOf
  cases he : Acc.getFileEntries p.md.signature p.md.header with
  | ok es =>
    cases hv : Acc.getPayloadCompressorVariant p.md.header with
    | ok v => rw [he, hv] at h; simp [Out.isOk] at h
    | err c => rfl
    | panic s => rfl
  | err c => rfl
  | panic s => rfl

theorem input_of_files (p : Package) (a? : Option Bytes) (es : List Acc.FileEntry) (v : Nat) (a : Bytes)
    (he : Acc.getFileEntries p.md.signature p.md.header = .ok es)
    (hv : Acc.getPayloadCompressorVariant p.md.header = .ok v)
    (ha : (if payloadIsArchive v then some p.content else a?) = some a)
    (supported : Nat → Bool := fun _ => true) (hs : supported v = true := by rfl) :
    extractInput p a? supported = some ⟨dirnamesOf p, (collect es (Cpio.iterate a (pathsOf es) (sizesOf es))).1,
                                           (collect es (Cpio.iterate a (pathsOf es) (sizesOf es))).2⟩ := by
  unfold extractInput dirnamesOf
  simp only [he, hv, ha, hs, itemsOf, pathsOf, sizesOf, Bool.not_true, Bool.false_eq_true, if_false]

/-- the codec the header names is not compiled into the library (`decompress_stream`'s `_ => Err(UnsupportedCompressorType)`):
`files()` fails, `extract` sees no item and an error after the directory names — whatever the payload is -/
theorem input_unsupported (p : Package) (a? : Option Bytes) (es : List Acc.FileEntry) (v : Nat)
    (he : Acc.getFileEntries p.md.signature p.md.header = .ok es)
    (hv : Acc.getPayloadCompressorVariant p.md.header = .ok v)
    (supported : Nat → Bool) (hs : supported v = false) :
    extractInput p a? supported = some ⟨dirnamesOf p, [], false⟩ := by
  unfold extractInput dirnamesOf
  simp only [he, hv, hs, Bool.not_false, if_true]

theorem input_items_are_iteration (es : List Acc.FileEntry) (a : Bytes) :
    (itemsOf es a).1.map some = (okPrefix (Cpio.iterate a (pathsOf es) (sizesOf es))).map (fun x => itemOf es x.1 x.2)
    ∧ ((itemsOf es a).2 = true ↔ ∀ x ∈ Cpio.iterate a (pathsOf es) (sizesOf es), x.isOk = true) :=
  ⟨collect_items es _ (itemsOf_in_range es a), collect_tail es _ (itemsOf_in_range es a)⟩


/-- `self.file_entries[index]` in `FileIterator::next` is always in range -/
theorem input_index_in_range (es : List Acc.FileEntry) (a : Bytes) (i : Nat) (c : Bytes)
    (h : .ok (i, c) ∈ Cpio.iterate a (pathsOf es) (sizesOf es)) : i < es.length ∧ ∃ it, itemOf es i c = some it := by
  have hi := itemsOf_in_range es a i c h
  exact ⟨hi, itemOfEntry es[i] c, by simp only [itemOf, List.getElem?_eq_getElem hi, Option.map_some]⟩

theorem mem_of_map_some_eq {α β} {l : List α} {m : List β} {f : β → Option α} (h : l.map some = m.map f) {x : α}
    (hx : x ∈ l) : ∃ y ∈ m, f y = some x := by
  have : some x ∈ l.map some := List.mem_map.mpr ⟨x, hx, rfl⟩
  rw [h] at this
  obtain ⟨y, hy, hf⟩ := List.mem_map.mp this
  exact ⟨y, hy, hf⟩

/-- **pairing carried over to `extract`**: every item `extract` sees is the content `c` of an archive entry under the
metadata of header file `i`, where `i` is what `Reader::file_index` answers for that very entry — the FIRST header file
whose path is the one the entry's name stands for (`"." + path`, or the plain path), or the index a stripped entry
carries — so the file is written at the path its own archive entry designates (`Cpio.entryPath`), with a content of
exactly the size the reader took for the entry.  (C07 `pairing_by_name` / `pairing_first_match` say the same of the
iteration; nothing is assumed about the archive or the header.) -/
theorem input_item_designated (es : List Acc.FileEntry) (a : Bytes) (it : Item) (hit : it ∈ (itemsOf es a).1) :
    ∃ i e entry c, .ok (i, entry, c) ∈ Cpio.iterateE (pathsOf es) (sizesOf es) es.length a ∧ es[i]? = some e ∧
      it = ⟨e.path, kindOf e.mode, FileMode.permissions (FileMode.fromU16 e.mode), c, e.linkto⟩ ∧
      Cpio.fileIndex (pathsOf es) entry = some i ∧ Cpio.entryPath (pathsOf es) entry = some it.path ∧
      Cpio.entrySize (sizesOf es) entry = some c.length := by
  obtain ⟨⟨i, c⟩, hx, hf⟩ := mem_of_map_some_eq (input_items_are_iteration es a).1 hit
  have hok := okPrefix_mem hx
  obtain ⟨entry, hentry⟩ := iterate_ok_mem hok
  have hlen : (sizesOf es).length = es.length := by simp [sizesOf]
  rw [hlen] at hentry
  obtain ⟨hfi, hs⟩ := Cpio.iterateE_item (pathsOf es) (sizesOf es) es.length a i entry c hentry
  simp only [itemOf] at hf
  cases hei : es[i]? with
  | none => rw [hei] at hf; cases hf
  | some e =>
    rw [hei] at hf
    simp only [Option.map_some, Option.some.injEq] at hf
    subst hf
    refine ⟨i, e, entry, c, hentry, hei, rfl, hfi, ?_, hs⟩
    have hp : (pathsOf es)[i]? = some e.path := by simp [pathsOf, hei]
    cases entry with
    | cpio ce =>
      have := Cpio.fileIndex_cpio hfi
      rw [hp] at this
      simp only [Cpio.entryPath, itemOfEntry]
      exact this.symm ▸ rfl
    | stripped idx =>
      have := Cpio.fileIndex_stripped hfi
      subst this
      simpa [Cpio.entryPath, itemOfEntry] using hp

/-- **file digests gate the input, by the source's own table**: a package yields any item (or a clean end of the
iteration) only if `get_file_entries` succeeded, and then every recorded (non-empty) file digest has a hex length the
table `Gen.fileDigestHexLen` pairs with its algorithm — the table `tools/gen/file_digest_len.py` regenerates from
`FileDigest::new` on every run (SHA-224: 56 since fix e7bf001), the same one C05 works with; that its lengths are the real
digest sizes is C05 `file_digest_lengths_standard` -/
theorem input_digests_standard (p : Package) (a? : Option Bytes) (inp : Input) (h : extractInput p a? = some inp)
    (hne : inp.items ≠ [] ∨ inp.tailOk = true) :
    ∃ es, Acc.getFileEntries p.md.signature p.md.header = .ok es ∧
      ∀ e ∈ es, ∀ d, e.digest = some d → (d.1, d.2.length) ∈ fileDigestHexLen := by
  cases he : Acc.getFileEntries p.md.signature p.md.header with
  | ok es => exact ⟨es, rfl, fun e hm d hd => getFileEntries_digests _ _ _ es he e hm d hd⟩
  | err c =>
    rw [input_files_failed p a? (.inl (by rw [he]; rfl))] at h
    cases h; simp at hne
  | panic s =>
    rw [input_files_failed p a? (.inl (by rw [he]; rfl))] at h
    cases h; simp at hne

/-- the two scraped compression tables fit together (re-decided on the tables of the current source) -/
theorem compressor_tables_agree : TablesAgree := by unfold TablesAgree; decide

/-- as the code is now, a package WITHOUT RPMTAG_PAYLOADCOMPRESSOR has an uncompressed payload: the variant
`get_payload_compressor` answers then is one `decompress_stream` passes through (both scraped).  The hand-encoded hostile
packages of the correspondence run rely on it (no tag, plain cpio payload): were it to change, the model could not
predict them any more (`extractInput … = none`), and this theorem says so instead of the run going quiet -/
theorem default_compressor_is_identity : payloadIsArchive payloadCompressorDefault = true := by decide

/-- … and their texts are ASCII, so comparing code points is comparing the bytes of the header string -/
theorem compressor_names_ascii :
    (∀ p ∈ compressionFromStr, ∀ c ∈ p.1, c < 128) ∧ (∀ p ∈ compressionDisplay, ∀ c ∈ p.2, c < 128) := by decide

/-- **compressor bridge**: the `CompressionType` variant `extractInput` branches on, printed, is the compressor name
`Acc.getPayloadCompressor` answers over the same scraped table — the accessor the C05 run compares with the real
`get_payload_compressor` on every header — and one fails exactly when the other does -/
theorem payload_compressor_bridge (h : Header) :
    (Acc.getPayloadCompressorVariant h).toOption.map (fun v => Acc.textBytes (Compression.toStr v))
      = (Acc.getPayloadCompressor Acc.compressorNames h).toOption :=
  compressor_bridge compressor_tables_agree h

/-- **The hostile-package clause for packages**: for EVERY package (parsed from any bytes whatsoever), whatever archive
the decompressor produces, extraction into a clean destination never panics, ends `ok` or `err`, and touches nothing
that is not the destination or below it -/
theorem extract_package_hostile (p : Package) (a? : Option Bytes) (inp : Input)
    (_hi : extractInput p a? = some inp) (T : Path) (fs : Fs) (hc : TargetClean fs T) :
    (extract inp T fs).out.isPanic = false ∧
    ((extract inp T fs).out.isOk = true ∨ (extract inp T fs).out.isErr = true) ∧
    Contained T fs (extract inp T fs).fs ∧
    ∃ L, (extract inp T fs).fs.log = L ++ fs.log ∧ ∀ q ∈ L, T <+: q :=
  extract_hostile inp T fs hc

/-- … and reading the package does not panic either: not `get_payload_compressor`, not the indexing
`self.file_entries[index]` of the iterator, not `extract` on whatever they yield (`get_file_entries` and the cpio reader
are total by C04 `getFileEntries_total` / `iterate_total`; a panic there would be `tailOk = false` here) -/
theorem extract_package_total (p : Package) (es : List Acc.FileEntry) (a : Bytes) :
    (Acc.getPayloadCompressorVariant p.md.header).isPanic = false ∧
    (∀ i c, .ok (i, c) ∈ Cpio.iterate a (pathsOf es) (sizesOf es) → i < es.length) ∧
    ∀ inp T fs, (extract inp T fs).out.isPanic = false := by
  refine ⟨?_, itemsOf_in_range es a, fun inp T fs => extract_not_panic inp T fs⟩
  unfold Acc.getPayloadCompressorVariant
  split
  · unfold Compression.fromStr; split <;> rfl
  · rfl
  · rfl
  · rename_i s hs
    have := getWith_not_panic IndexData.asStr p.md.header IndexTag.RPMTAG_PAYLOADCOMPRESSOR
    rw [show getString = getWith IndexData.asStr from rfl] at hs
    rw [hs] at this; cases this

/-! ### regression: the former counterexamples (names are written as bytes: string literals do not evaluate in the kernel) -/

/-- `decoy` -/ def nDecoy : Name := [100, 101, 99, 111, 121]
/-- `file` -/ def nFile : Name := [102, 105, 108, 101]
/-- `dir` -/ def nDir : Name := [100, 105, 114]
/-- `target` -/ def nTarget : Name := [116, 97, 114, 103, 101, 116]
/-- `link` -/ def nLink : Name := [108, 105, 110, 107]

/-- a jail: `/`, `/decoy/`, `/decoy/file` (content `decoy`, 0644), `/decoy/dir/` (0750), a decoy link
`/decoy/link` → `file`; `/target` is vacant -/
def jail : Fs :=
  ⟨[([], .dir 0o755), ([nDecoy], .dir 0o755), ([nDecoy, nFile], .file nDecoy 0o644), ([nDecoy, nDir], .dir 0o750),
    ([nDecoy, nLink], .symlink nFile)], [], 0o022⟩

theorem jail_vacant : ∀ q, [nTarget] <+: q → jail.get q = none := by
  intro q hq
  cases hg : jail.get q with
  | none => rfl
  | some n =>
    exfalso
    have hm := lookup_mem hg
    have hall : ∀ e ∈ jail.nodes, ¬ [nTarget] <+: e.1 := by decide
    exact hall _ hm hq

theorem jail_clean : TargetClean jail [nTarget] :=
  ⟨by decide, fun k hk hk2 => by simp at hk2; omega, fun q hq _ => jail_vacant q hq⟩

theorem jail_ready : TargetReady jail [nTarget] :=
  ⟨by decide, by decide, by decide, fun k hk hk2 => by simp at hk2; omega, jail_vacant⟩

/-- DIRNAMES `["/"]`, one regular file `/../decoy/file` (content `pwned`, mode 0600) -/
def wDotDot : Input :=
  ⟨some [[47]], [⟨[47, 46, 46, 47] ++ nDecoy ++ [47] ++ nFile, .regular, 0o600, [112, 119, 110, 101, 100], []⟩], true⟩

/-- DIRNAMES `["/"]`, a link `/link` → `/decoy`, then a regular file `/link/file` -/
def wLink : Input :=
  ⟨some [[47]], [⟨[47] ++ nLink, .symlink, 0o777, [], [47] ++ nDecoy⟩,
                 ⟨[47] ++ nLink ++ [47] ++ nFile, .regular, 0o600, [112, 119, 110, 101, 100], []⟩], true⟩

/-- DIRNAMES `["/"]`, a link `/link` → `/decoy/dir`, then a DIRECTORY entry `/link` with mode 0777 -/
def wLinkChmod : Input :=
  ⟨some [[47]], [⟨[47] ++ nLink, .symlink, 0o777, [], [47] ++ nDecoy ++ [47] ++ nDir⟩,
                 ⟨[47] ++ nLink, .dir, 0o777, [], []⟩], true⟩

/-- DIRNAMES `["/"]`, a link `/link` → `/decoy/file`, then a REGULAR file at the same path -/
def wLinkSame : Input :=
  ⟨some [[47]], [⟨[47] ++ nLink, .symlink, 0o777, [], [47] ++ nDecoy ++ [47] ++ nFile⟩,
                 ⟨[47] ++ nLink, .regular, 0o600, [112, 119, 110, 101, 100], []⟩], true⟩

/-- DIRNAMES `["/"]`, one FIFO entry `/file` -/
def wFifo : Input := ⟨some [[47]], [⟨[47] ++ nFile, .other, 0o644, [], []⟩], true⟩

/-- everything either file system mentions outside `T` is the same in both (the decidable shadow of `Contained`) -/
def sameOutside (T : Path) (fs fs' : Fs) : Bool :=
  ((fs.nodes ++ fs'.nodes).map (·.1)).all (fun q => T.isPrefixOf q || fs'.get q == fs.get q)

/-- `..` component: now an error before anything is written -/
theorem regress_dotdot :
    (extract wDotDot [nTarget] jail).out.isErr = true ∧ sameOutside [nTarget] jail (extract wDotDot [nTarget] jail).fs = true ∧
      (extract wDotDot [nTarget] jail).fs.get [nDecoy, nFile] = jail.get [nDecoy, nFile] := by decide +kernel

/-- link followed by a file below it: now refused, the link itself is in the destination, the decoy untouched -/
theorem regress_symlink :
    (extract wLink [nTarget] jail).out.isErr = true ∧ sameOutside [nTarget] jail (extract wLink [nTarget] jail).fs = true ∧
      (extract wLink [nTarget] jail).fs.get [nDecoy, nFile] = jail.get [nDecoy, nFile] ∧
      (extract wLink [nTarget] jail).fs.get [nTarget, nLink] = some (.symlink ([47] ++ nDecoy)) := by decide +kernel

/-- link followed by a directory entry at the same path: now refused, the decoy directory keeps its mode -/
theorem regress_symlink_chmod :
    (extract wLinkChmod [nTarget] jail).out.isErr = true ∧ sameOutside [nTarget] jail (extract wLinkChmod [nTarget] jail).fs = true ∧
      (extract wLinkChmod [nTarget] jail).fs.get [nDecoy, nDir] = some (.dir 0o750) := by decide +kernel

/-- link followed by a regular file at the same path: the link is replaced, the file is inside the destination -/
theorem regress_symlink_same :
    (extract wLinkSame [nTarget] jail).out.isOk = true ∧ sameOutside [nTarget] jail (extract wLinkSame [nTarget] jail).fs = true ∧
      (extract wLinkSame [nTarget] jail).fs.get [nTarget, nLink] = some (.file [112, 119, 110, 101, 100] 0o600) := by decide +kernel

/-- a FIFO entry: now an error, not a panic -/
theorem regress_special_type :
    (extract wFifo [nTarget] jail).out.isErr = true ∧ (extract wFifo [nTarget] jail).out.isPanic = false ∧
      sameOutside [nTarget] jail (extract wFifo [nTarget] jail).fs = true := by decide +kernel

/-! ### non-vacuity: the hypotheses are satisfiable by concrete, non-trivial values -/

/-- `a`, `b`, `f`, `l` -/
def nA : Name := [97]
def nB : Name := [98]
def nF : Name := [102]
def nL : Name := [108]

/-- DIRNAMES `["/", "/a/", "/a/b/"]`; a directory entry `/a/b` (mode 2750), a regular file `/a/b/f`
(content `decoy`, mode 4755), a link `/a/l` → `/decoy/file` (a link pointing outside is fine), a regular file `/f` (mode 0) -/
def wBenign : Input :=
  ⟨some [[47], [47] ++ nA ++ [47], [47] ++ nA ++ [47] ++ nB ++ [47]],
   [⟨[47] ++ nA ++ [47] ++ nB, .dir, 0o2750, [], []⟩,
    ⟨[47] ++ nA ++ [47] ++ nB ++ [47] ++ nF, .regular, 0o4755, nDecoy, []⟩,
    ⟨[47] ++ nA ++ [47] ++ nL, .symlink, 0o777, [], [47] ++ nDecoy ++ [47] ++ nFile⟩,
    ⟨[47] ++ nF, .regular, 0, [1, 2, 3], []⟩], true⟩

example : benign wBenign = true := by decide +kernel
example : (extract wBenign [nTarget] jail).out = .ok () ∧
    (extract wBenign [nTarget] jail).fs.get [nTarget, nA, nB, nF] = some (.file nDecoy 0o4755) ∧
    (extract wBenign [nTarget] jail).fs.get [nTarget, nA, nB] = some (.dir 0o2750) ∧
    (extract wBenign [nTarget] jail).fs.get [nTarget, nA, nL] = some (.symlink ([47] ++ nDecoy ++ [47] ++ nFile)) ∧
    (extract wBenign [nTarget] jail).fs.get [nDecoy, nFile] = jail.get [nDecoy, nFile] := by decide +kernel
example : Faithful [nTarget] wBenign (extract wBenign [nTarget] jail).fs :=
  (extract_benign wBenign [nTarget] jail (by decide +kernel) jail_ready).2.2

/-- a package of everything hostile at once: `..` only at the end so that the earlier entries run —
an absolute base name, a duplicate path, a link, an entry below the link, a FIFO, a `..` path -/
def wOdd : Input :=
  ⟨some [[47], [47] ++ nDecoy ++ [47], []],
   [⟨[47] ++ nDecoy ++ [47] ++ nFile, .regular, 0o644, [1], []⟩,
    ⟨[47] ++ nDecoy ++ [47] ++ nFile, .regular, 0o600, [2], []⟩,
    ⟨[47] ++ nL, .symlink, 0o777, [], [47] ++ nDecoy⟩,
    ⟨[47] ++ nL, .symlink, 0o777, [], [46, 46]⟩,
    ⟨[47] ++ nL ++ [47] ++ nFile, .regular, 0o600, [3], []⟩,
    ⟨nF, .other, 0o644, [], []⟩,
    ⟨[47, 46, 46, 47] ++ nDecoy, .dir, 0, [], []⟩], false⟩

example : Contained [nTarget] jail (extract wOdd [nTarget] jail).fs :=
  (extract_hostile wOdd [nTarget] jail jail_clean).2.2.1
example : (extract wOdd [nTarget] jail).out.isErr = true ∧
    (extract wOdd [nTarget] jail).fs.get [nTarget, nDecoy, nFile] = some (.file [2] 0o600) ∧
    sameOutside [nTarget] jail (extract wOdd [nTarget] jail).fs = true := by decide +kernel
/-- the jail is tree-shaped: `extract_hostile_wf` applies to it with any destination under `/` -/
example : WellFormed jail := by
  intro q n hg hne
  have hm := lookup_mem hg
  have hall : ∀ e ∈ jail.nodes, e.1 ≠ [] → (jail.get e.1.dropLast).map Node.isDir = some true := by decide
  have := hall _ hm hne
  cases hp : jail.get q.dropLast with
  | none => rw [hp] at this; cases this
  | some nd =>
    cases nd with
    | dir m => exact ⟨m, rfl⟩
    | file => rw [hp] at this; simp [Node.isDir] at this
    | symlink => rw [hp] at this; simp [Node.isDir] at this

/-! ### a concrete package (header entries written out; the payload is a newc archive made by the cpio writer model) -/

def wEntry (tag : Nat) (d : IndexData) : Entry := ⟨tag, d, 0, 0⟩

/-- main header of a package with one regular file `/f` (mode 0644, 2 bytes), the given RPMTAG_FILEDIGESTALGO (or none),
file digest and RPMTAG_PAYLOADCOMPRESSOR (or none) -/
def wHdr (algo : Option Nat) (digest : Bytes) (comp : Option Bytes) : Header := ⟨0, 0, [
  wEntry IndexTag.RPMTAG_FILESIZES (.int32 [2]), wEntry IndexTag.RPMTAG_FILEMODES (.int16 [0o100644]),
  wEntry IndexTag.RPMTAG_FILEMTIMES (.int32 [0]), wEntry IndexTag.RPMTAG_FILEDIGESTS (.strArray [digest]),
  wEntry IndexTag.RPMTAG_FILELINKTOS (.strArray [[]]), wEntry IndexTag.RPMTAG_FILEFLAGS (.int32 [0]),
  wEntry IndexTag.RPMTAG_FILEUSERNAME (.strArray [[114]]), wEntry IndexTag.RPMTAG_FILEGROUPNAME (.strArray [[114]]),
  wEntry IndexTag.RPMTAG_DIRINDEXES (.int32 [0]), wEntry IndexTag.RPMTAG_BASENAMES (.strArray [nF]),
  wEntry IndexTag.RPMTAG_DIRNAMES (.strArray [[47]])]
  ++ (match algo with | some a => [wEntry IndexTag.RPMTAG_FILEDIGESTALGO (.int32 [a])] | none => [])
  ++ (match comp with | some c => [wEntry IndexTag.RPMTAG_PAYLOADCOMPRESSOR (.str c)] | none => []), []⟩

/-- `./f` with content `hi`, then the trailer -/
def wArchive : Bytes := Cpio.archiveOf [({ name := [46, 47] ++ nF, ino := 1, mode := 0o100644 }, [104, 105])]

def wPkg (algo : Option Nat) (digest : Bytes) (comp : Option Bytes := none) : Package :=
  ⟨⟨⟨3, 0, 0, 0, [], 1, 5, []⟩, ⟨0, 0, [], []⟩, wHdr algo digest comp⟩, wArchive⟩

/-- the view of that package when it is read: DIRNAMES `["/"]`, the file `/f` -/
def wViewOk : Input := ⟨some [[47]], [⟨[47] ++ nF, .regular, 0o644, [104, 105], []⟩], true⟩
/-- … and when `files()` fails -/
def wViewErr : Input := ⟨some [[47]], [], false⟩

/-- **the digest lengths `extractInput` accepts are those of the source's table** (decided anew on the table scraped
from `FileDigest::new` on every run): for every (algorithm, length) pair of it, the one-file package whose digest has
that length is read and its file handed to `extract`; with four more characters — for SHA-224 that is the pre-fix
length 60 which C12's former private copy of `get_file_entries` still demanded — `files()` fails -/
theorem digest_table_decides : ∀ p ∈ fileDigestHexLen,
    extractInput (wPkg (some p.1) (List.replicate p.2 97)) none = some wViewOk ∧
    extractInput (wPkg (some p.1) (List.replicate (p.2 + 4) 97)) none = some wViewErr := by decide +kernel

/-- a number that is no `DigestAlgorithm` (2 = SHA-1, 0, 99) or the missing tag mean MD5; an algorithm without an arm
in `FileDigest::new` (12, 14 = SHA-3) accepts no digest at all but the empty one -/
theorem digest_algo_fallbacks :
    (∀ a ∈ [none, some 0, some 2, some 99], ∀ n ∈ [32, 40, 56, 64],
      extractInput (wPkg a (List.replicate n 97)) none = some (if (1, n) ∈ fileDigestHexLen then wViewOk else wViewErr)) ∧
    (∀ a ∈ [12, 14], ∀ n ∈ [32, 56, 64, 128],
      extractInput (wPkg (some a) (List.replicate n 97)) none
        = some (if (a, n) ∈ fileDigestHexLen then wViewOk else wViewErr) ∧
      extractInput (wPkg (some a) []) none = some wViewOk) := by decide +kernel

/-! #### non-vacuity of the package theorems -/

/-- the table knows SHA-224 (algorithm 11), so `digest_table_decides` speaks about it -/
example : fileDigestHexLen ≠ [] ∧ (fileDigestHexLen.map (·.1)).contains 11 = true := by decide
/-- the length the table pairs with SHA-224 -/
def wLen224 : Nat := (fileDigestHexLen.lookup 11).getD 0
example : extractInput (wPkg (some 11) (List.replicate wLen224 97)) none = some wViewOk := by decide +kernel
/-- `input_digests_standard` applies to it (items ≠ []) -/
example : ∃ es, Acc.getFileEntries (wPkg (some 11) (List.replicate wLen224 97)).md.signature
      (wPkg (some 11) (List.replicate wLen224 97)).md.header = .ok es ∧
    ∀ e ∈ es, ∀ d, e.digest = some d → (d.1, d.2.length) ∈ fileDigestHexLen :=
  input_digests_standard _ none wViewOk (by decide +kernel) (.inr rfl)
/-- … and the entry list does carry a SHA-224 digest -/
example : Acc.getFileEntries (wPkg (some 11) (List.replicate wLen224 97)).md.signature
      (wPkg (some 11) (List.replicate wLen224 97)).md.header
      = .ok [⟨[47] ++ nF, 0o100644, [114], [114], 0, 2, 0, some (11, List.replicate wLen224 97), none, [], none⟩] := by
  decide +kernel
/-- `input_of_files`: entries, variant and archive of the concrete package -/
example : (Acc.getFileEntries (wPkg none []).md.signature (wPkg none []).md.header).map List.length = .ok 1 ∧
    Acc.getPayloadCompressorVariant (wPkg none []).md.header = .ok payloadCompressorDefault ∧
    (if payloadIsArchive payloadCompressorDefault then some (wPkg none []).content else none) = some wArchive := by
  decide +kernel
/-- `input_files_failed`: an unknown compressor name (`lz4`), a compressor of the wrong type is an error as well -/
example : (Acc.getPayloadCompressorVariant (wPkg none [] (some [108, 122, 52])).md.header).isOk = false ∧
    extractInput (wPkg none [] (some [108, 122, 52])) none = some wViewErr := by decide +kernel
/-- a compressed payload: the archive comes from the decompressor (parameter); without it there is no prediction -/
example : extractInput (wPkg none [] (some [120, 122])) (some wArchive) = some wViewOk ∧
    extractInput (wPkg none [] (some [120, 122])) none = none := by decide +kernel
/-- `payload_compressor_bridge` on `xz`: variant 3 on one side, the name `xz` on the other -/
example : (Acc.getPayloadCompressor Acc.compressorNames (wHdr none [] (some [120, 122]))).toOption = some [120, 122] ∧
    (Acc.getPayloadCompressorVariant (wHdr none [] (some [120, 122]))).isOk = true := by decide +kernel
/-- `input_item_designated`: two header files, an item -/
def wEntries : List Acc.FileEntry :=
  [⟨[47] ++ nF, 0o100644, [114], [114], 0, 2, 0, none, none, [], none⟩, ⟨[47] ++ nA, 0o120777, [114], [114], 0, 0, 0, none, none, nF, none⟩]
example :
    (⟨[47] ++ nF, .regular, 0o644, [104, 105], []⟩ : Item) ∈ (itemsOf wEntries wArchive).1 ∧ (itemsOf wEntries wArchive).2 = true := by
  decide +kernel
/-- `input_index_in_range` / `input_items_are_iteration`: the iteration of the concrete archive has an `Ok` -/
example : Cpio.iterate wArchive (pathsOf wEntries) (sizesOf wEntries) = [.ok (0, [104, 105])] := by decide +kernel
/-- an archive entry that names no header file ends the items with an error -/
example : itemsOf [wEntries[1]] wArchive = ([], false) := by decide +kernel
/-- `extract_package_hostile` on the concrete package and the jail -/
example : Contained [nTarget] jail (extract wViewOk [nTarget] jail).fs :=
  (extract_package_hostile (wPkg none []) none wViewOk (by decide +kernel) [nTarget] jail jail_clean).2.2.1
example : (extract wViewOk [nTarget] jail).out = .ok () ∧
    (extract wViewOk [nTarget] jail).fs.get [nTarget, nF] = some (.file [104, 105] 0o644) := by decide +kernel

/-! ### damaged and truncated compressed payloads: what a streaming decoder lets `extract` see (AUDIT2 a12) -/

theorem prefix_of_map_some {α} {l1 l2 : List α} (h : l1.map some <+: l2.map some) : l1 <+: l2 := by
  obtain ⟨t, ht⟩ := h
  obtain ⟨a, b, hab, ha, _⟩ := List.map_eq_append_iff.mp ht.symm
  have : a = l1 := (List.map_inj_right (fun _ _ h => Option.some.inj h)).mp ha
  subst this
  exact ⟨b, hab.symm⟩

/-- **a damaged payload: `extract` sees an initial segment of the intact package's items.** With the decoder handing out
only the bytes `pre` of what the intact payload decodes to (`pre ++ t`), the items are a prefix of the intact ones — each
still the content of its own archive entry under the metadata of the header file that entry designates
(`input_item_designated`) — and, unless the cpio trailer lies inside `pre`, the iteration ends with an error: `extract`
then stops with `Err` after having written those items (a partial extraction, contained like every other run:
`extract_package_hostile`). -/
theorem input_items_prefix (es : List Acc.FileEntry) (pre t : Bytes) :
    (itemsOf es pre).1 <+: (itemsOf es (pre ++ t)).1 := by
  apply prefix_of_map_some
  rw [(input_items_are_iteration es pre).1, (input_items_are_iteration es (pre ++ t)).1]
  apply List.IsPrefix.map
  have h := FileIter.okPrefix_iterateE_append (pathsOf es) (sizesOf es) (sizesOf es).length pre t
  simp only [Cpio.iterate, Cpio.iterateFrom, C07.okPrefix_map_outMap]
  exact h.map _

/-- … and when the trailer does lie inside `pre` nothing of the damage is seen: same items, clean end -/
theorem input_items_clean (es : List Acc.FileEntry) (pre t : Bytes) (h : (itemsOf es pre).2 = true) :
    itemsOf es (pre ++ t) = itemsOf es pre := by
  have hall := (input_items_are_iteration es pre).2.mp h
  have hcl : ∀ o ∈ Cpio.iterateE (pathsOf es) (sizesOf es) (sizesOf es).length pre, o.isOk = true := by
    intro o ho
    have := hall (o.map fun x => (x.1, x.2.2)) (List.mem_map.mpr ⟨o, ho, rfl⟩)
    cases o <;> simp_all [Out.map, Out.isOk]
  unfold itemsOf
  have e : Cpio.iterate (pre ++ t) (pathsOf es) (sizesOf es) = Cpio.iterate pre (pathsOf es) (sizesOf es) := by
    simp only [Cpio.iterate, Cpio.iterateFrom]
    rw [FileIter.iterateE_append_clean (pathsOf es) (sizesOf es) _ pre t hcl]
  exact congrArg (collect es) e

/-! ### `NAME_MAX`: names longer than 255 bytes (AUDIT2 a20) -/

/-- a creating call whose new component is longer than `NAME_MAX` is refused, wherever it resolves to -/
theorem create_long_refused {fs : Fs} {cs : List Name} {q : Path} (hv : fs.get q = none) (hl : nameTooLong q = true) :
    (resolve fs false cs = .ok q → mkdir fs cs = .error .ENAMETOOLONG) ∧
    (∀ c, resolve fs true cs = .ok q → fileCreate fs cs c = .error .ENAMETOOLONG) ∧
    (∀ t, t ≠ [] → resolve fs false cs = .ok q → symlink fs cs t = .error .ENAMETOOLONG) := by
  refine ⟨fun hr => ?_, fun c hr => ?_, fun t ht hr => ?_⟩
  · unfold mkdir; rw [hr]; simp only [hv, hl, if_true]
  · unfold fileCreate; rw [hr]; simp only [hv, hl, if_true]
  · unfold symlink
    have : t.isEmpty = false := by cases t <;> simp_all
    rw [this, hr]; simp only [hv, hl, if_true, Bool.false_eq_true, if_false]

/-- … hence no successful creating call ever makes such a name -/
theorem created_names_short {fs fs' : Fs} {cs : List Name} :
    (mkdir fs cs = .ok fs' → ∃ q n, fs' = fs.set q n ∧ nameTooLong q = false) ∧
    (∀ t, symlink fs cs t = .ok fs' → ∃ q n, fs' = fs.set q n ∧ nameTooLong q = false) := by
  constructor
  · intro h
    unfold mkdir at h
    split at h
    · cases h
    · split at h
      · cases h
      · split at h
        · cases h
        · rename_i q _ _ _ hs
          injection h with h
          exact ⟨q, _, h.symm, by simpa using hs⟩
  · intro t h
    unfold symlink at h
    split at h
    · cases h
    · split at h
      · cases h
      · split at h
        · cases h
        · split at h
          · cases h
          · rename_i q _ _ _ hs
            injection h with h
            exact ⟨q, _, h.symm, by simpa using hs⟩

/-- a 256-byte name -/
def nLong : Name := List.replicate 256 78
/-- DIRNAMES `["/", "/p/q/NNN…N/"]` (256 × `N`), one regular file `/f` -/
def wLong : Input :=
  ⟨some [[47], [47, 112, 47, 113, 47] ++ nLong ++ [47]], [⟨[47, 102], .regular, 0o644, [120], []⟩], true⟩

/-- **a failing `create_dir_all` is not atomic**: for the directory name `/p/q/<256 bytes>/` the first `mkdir` answers
`ENOENT`, the ancestors `p` and `p/q` are created, the second `mkdir` answers `ENAMETOOLONG`; `extract` ends with that
error, the ancestors stay (`createDirAllLeft`), nothing outside the destination changes, and the file entry is never
reached. (The same happens on Linux: the case `NAME_MAX` of the correspondence.) -/
theorem long_name_witness :
    (extract wLong [nTarget] jail).out = .err "ENAMETOOLONG" ∧
    (extract wLong [nTarget] jail).fs.get [nTarget, [112], [113]] = some (.dir 0o755) ∧
    (extract wLong [nTarget] jail).fs.get [nTarget, [112], [113], nLong] = none ∧
    (extract wLong [nTarget] jail).fs.get [nTarget, [102]] = none ∧
    benign wLong = false ∧ shortNames wLong = false := by decide +kernel

/-- with 255 bytes the same package is benign and extracted completely -/
theorem name_max_witness :
    let w : Input := ⟨some [[47], [47, 112, 47] ++ List.replicate 255 78 ++ [47]],
      [⟨[47, 112, 47] ++ List.replicate 255 78 ++ [47, 102], .regular, 0o644, [120], []⟩], true⟩
    benign w = true ∧ (extract w [nTarget] jail).out = .ok () ∧
      (extract w [nTarget] jail).fs.get [nTarget, [112], List.replicate 255 78, [102]] = some (.file [120] 0o644) := by
  decide +kernel

/-! ### built packages: `benign (extractInput (build cfg))` and the benign clause at the package level (AUDIT2 c38) -/
section built
open RpmVerif.Bld RpmVerif.Cpio

/-- one builder file (entry + content) as the item `extract` has to write -/
def builtItem (p : FileE × Bytes) : Item :=
  ⟨Acc.pathJoin p.1.dir p.1.baseName, kindOf p.1.mode, FileMode.permissions (FileMode.fromU16 p.1.mode), p.2, p.1.link⟩

/-- what `extract` has to find in the package the builder made of `c` / `fes` -/
def builtInput (c : Cfg) (fes : List (FileE × Bytes)) : Input := ⟨some c.directories, fes.map builtItem, true⟩

theorem collect_zipIdx (x : Ctx) (es : List Acc.FileEntry) : ∀ (l : List (FileE × Bytes)) (k : Nat),
    (∀ i (hi : i < l.length), es[k + i]? = some (C06.entryOf x l[i].1)) →
    collect es ((l.zipIdx k).map fun y => (Out.ok (y.2, y.1.2) : Out (Nat × Bytes))) = (l.map builtItem, true) := by
  intro l
  induction l with
  | nil => intro k _; rfl
  | cons p r ih =>
    intro k h
    have h0 := h 0 (by simp)
    simp only [Nat.add_zero, List.getElem_cons_zero] at h0
    have hr := ih (k + 1) (fun i hi => by
      have := h (i + 1) (by simpa using hi)
      simpa [Nat.add_assoc, Nat.add_comm 1 i] using this)
    simp only [List.zipIdx_cons, List.map_cons, collect, itemOf, h0, Option.map_some, hr]
    rfl


/-- the cpio iteration over the archive the builder writes, against the header columns of the built package: one `Ok`
per builder file, in order, under its own index (C07 `files_of_build(_large)` through Pipeline `build_files_roundtrip`
with the identity codec) -/
theorem built_iteration (c : Cfg) (fes : List (FileE × Bytes)) (hfiles : c.files = fes.map (·.1)) (hd : DirsOk c)
    (hf : ∀ p ∈ fes, C09.FileOk p) (hs : ∀ p ∈ fes, Pipeline.DirShape p.1) (hnd : (fes.map (·.1.cpioPath)).Nodup)
    (hn : fes.length < 4294967295) {uid gid : Nat} (hu : uid < 4294967296) (hg : gid < 4294967296) :
    Cpio.iterate (C09.archiveFor c uid gid fes) (c.files.map fun f => Acc.pathJoin f.dir f.baseName) (c.files.map (·.size))
      = fes.zipIdx.map fun y => .ok (y.2, y.1.2) := by
  have h := Pipeline.build_files_roundtrip id c 0 fes hfiles hd hf hs hnd hn hu hg id .ok (fun _ => rfl)
  rw [Pipeline.build_file_lists id c 0 _ _ hd] at h
  simpa [Cpio.files] using h

/-- **what `extract` reads from a built package is the builder's input.** For the package `build` returns for
configuration `c` with files `fes` (entry + content, in path order; `add_data` guarantees `FileOk`, `DirShape`, `DirsOk`,
`DigestsOk`), archive `C09.archiveFor c uid gid fes`, ANY payload bytes whose decompression is that archive (`ha`: the
payload itself for `CompressionType::None`, otherwise what the codec - a parameter here - returns): `PkgFiles.extractInput`
- the composition of `get_file_entries`, `get_payload_compressor`, the cpio iteration and DIRNAMES that `Package::extract`
makes - is DIRNAMES = the builder's directory set and one item per builder file, in order, with that file's destination
path, kind and permission bits of its mode, content and link target; the iteration ends cleanly. -/
theorem build_input (sha256 : Bytes → Bytes) (c : Cfg) (now : Nat) (fes : List (FileE × Bytes))
    (hfiles : c.files = fes.map (·.1)) (hne : fes ≠ []) (hd : DirsOk c) (hdig : C06.DigestsOk c)
    (hf : ∀ p ∈ fes, C09.FileOk p) (hs : ∀ p ∈ fes, Pipeline.DirShape p.1) (hnd : (fes.map (·.1.cpioPath)).Nodup)
    (hn : fes.length < 4294967295) {uid gid : Nat} (hu : uid < 4294967296) (hg : gid < 4294967296)
    (payload : Bytes) (a? : Option Bytes) {v : Nat}
    (hv : Acc.getPayloadCompressorVariant (build c now (Pipeline.hexOf sha256) (C09.archiveFor c uid gid fes) payload).md.header = .ok v)
    (ha : (if payloadIsArchive v then some payload else a?) = some (C09.archiveFor c uid gid fes)) :
    extractInput (build c now (Pipeline.hexOf sha256) (C09.archiveFor c uid gid fes) payload) a? = some (builtInput c fes) := by
  have hfe := Pipeline.build_file_entries sha256 c now (C09.archiveFor c uid gid fes) payload hd hdig
  have hnef : c.files.isEmpty = false := by
    rw [hfiles]; cases fes with
    | nil => exact absurd rfl hne
    | cons => rfl
  have hdn : getStringArray (build c now (Pipeline.hexOf sha256) (C09.archiveFor c uid gid fes) payload).md.header IndexTag.RPMTAG_DIRNAMES
      = .ok c.directories :=
    C06.readback_file_array (mkCtx c now _ _) IndexData.asStringArray (i := 36) (f := fun x => .strArray x.c.directories) rfl hnef rfl
  have hcontent : (build c now (Pipeline.hexOf sha256) (C09.archiveFor c uid gid fes) payload).content = payload := rfl
  unfold extractInput
  simp only [hfe, hv, hdn, hcontent, ha, Out.toOption, itemsOf, List.map_map]
  have e1 : (c.files.map ((fun e : Acc.FileEntry => e.path) ∘ C06.entryOf (mkCtx c now (Pipeline.hexOf sha256 payload) (Pipeline.hexOf sha256 (C09.archiveFor c uid gid fes)))))
      = c.files.map fun f => Acc.pathJoin f.dir f.baseName := rfl
  have e2 : (c.files.map ((fun e : Acc.FileEntry => e.size) ∘ C06.entryOf (mkCtx c now (Pipeline.hexOf sha256 payload) (Pipeline.hexOf sha256 (C09.archiveFor c uid gid fes)))))
      = c.files.map (·.size) := rfl
  rw [e1, e2, built_iteration c fes hfiles hd hf hs hnd hn hu hg]
  have hc := collect_zipIdx (mkCtx c now (Pipeline.hexOf sha256 payload) (Pipeline.hexOf sha256 (C09.archiveFor c uid gid fes)))
    (c.files.map (C06.entryOf (mkCtx c now (Pipeline.hexOf sha256 payload) (Pipeline.hexOf sha256 (C09.archiveFor c uid gid fes))))) fes 0
    (fun i hi => by simp [hfiles, List.getElem?_eq_getElem hi])
  rw [hc]
  rfl


/-- **`benign (extractInput (build cfg))`**: when the builder's own input - its directory set and its files - is benign
(decidable on the configuration: three file kinds, no `..`, distinct normalised paths, parents among the directory
names, no file or link used as a directory, no empty link target), so is what `extract` reads from the built package -/
theorem build_benign (sha256 : Bytes → Bytes) (c : Cfg) (now : Nat) (fes : List (FileE × Bytes))
    (hfiles : c.files = fes.map (·.1)) (hne : fes ≠ []) (hd : DirsOk c) (hdig : C06.DigestsOk c)
    (hf : ∀ p ∈ fes, C09.FileOk p) (hs : ∀ p ∈ fes, Pipeline.DirShape p.1) (hnd : (fes.map (·.1.cpioPath)).Nodup)
    (hn : fes.length < 4294967295) {uid gid : Nat} (hu : uid < 4294967296) (hg : gid < 4294967296)
    (payload : Bytes) (a? : Option Bytes) {v : Nat}
    (hv : Acc.getPayloadCompressorVariant (build c now (Pipeline.hexOf sha256) (C09.archiveFor c uid gid fes) payload).md.header = .ok v)
    (ha : (if payloadIsArchive v then some payload else a?) = some (C09.archiveFor c uid gid fes))
    (hb : benign (builtInput c fes) = true) :
    ∃ inp, extractInput (build c now (Pipeline.hexOf sha256) (C09.archiveFor c uid gid fes) payload) a? = some inp ∧
      benign inp = true ∧ inp.dirnames = some c.directories ∧ inp.items = fes.map builtItem :=
  ⟨_, build_input sha256 c now fes hfiles hne hd hdig hf hs hnd hn hu hg payload a? hv ha, hb, rfl, rfl⟩

/-- the node a builder file must become: by the type bits of its mode a directory / regular file / link with the 12
permission bits of that mode, its content, its link target -/
theorem wantNode_builtItem (p : FileE × Bytes) :
    wantNode (builtItem p) =
      match kindOf p.1.mode with
      | .dir => some (.dir (FileMode.permissions (FileMode.fromU16 p.1.mode)))
      | .regular => some (.file p.2 (FileMode.permissions (FileMode.fromU16 p.1.mode)))
      | .symlink => some (.symlink p.1.link)
      | .other => none := by
  unfold wantNode builtItem
  cases kindOf p.1.mode <;> rfl

/-- **the benign clause for built packages** ("creates, for every regular file, directory and symbolic link in the
package, an entry at target+path with the archived content, permission bits and link target", for all built packages
whose own input is benign): extracting the package `build` returns into a vacant destination ends `Ok`, changes nothing
outside the destination, and EVERY builder file is at destination + its destination path as the node its mode, content
and link target prescribe (`wantNode_builtItem`). -/
theorem extract_package_benign (sha256 : Bytes → Bytes) (c : Cfg) (now : Nat) (fes : List (FileE × Bytes))
    (hfiles : c.files = fes.map (·.1)) (hne : fes ≠ []) (hd : DirsOk c) (hdig : C06.DigestsOk c)
    (hf : ∀ p ∈ fes, C09.FileOk p) (hs : ∀ p ∈ fes, Pipeline.DirShape p.1) (hnd : (fes.map (·.1.cpioPath)).Nodup)
    (hn : fes.length < 4294967295) {uid gid : Nat} (hu : uid < 4294967296) (hg : gid < 4294967296)
    (payload : Bytes) (a? : Option Bytes) {v : Nat}
    (hv : Acc.getPayloadCompressorVariant (build c now (Pipeline.hexOf sha256) (C09.archiveFor c uid gid fes) payload).md.header = .ok v)
    (ha : (if payloadIsArchive v then some payload else a?) = some (C09.archiveFor c uid gid fes))
    (hb : benign (builtInput c fes) = true) (T : Path) (fs : Fs) (hr : TargetReady fs T) :
    ∃ inp, extractInput (build c now (Pipeline.hexOf sha256) (C09.archiveFor c uid gid fes) payload) a? = some inp ∧
      (extract inp T fs).out = .ok () ∧ Contained T fs (extract inp T fs).fs ∧
      ∀ p ∈ fes, (extract inp T fs).fs.get (T ++ compsD (Acc.pathJoin p.1.dir p.1.baseName)) = wantNode (builtItem p) := by
  refine ⟨_, build_input sha256 c now fes hfiles hne hd hdig hf hs hnd hn hu hg payload a? hv ha, ?_⟩
  obtain ⟨h1, h2, h3⟩ := extract_benign (builtInput c fes) T fs hb hr
  exact ⟨h1, h2, fun p hp => h3 (builtItem p) (List.mem_map.mpr ⟨p, hp, rfl⟩)⟩

/-! a built package with a directory `/d` (02755), a file `/d/f` (0640, three bytes) and a link `/d/l -> f`, uncompressed -/
def xD : FileE := ⟨[46, 47, 100], [47], [100], 0, 0o042755, [114], [114], [], 0, none, 4294967295, 1, []⟩
def xF : FileE := ⟨[46, 47, 100, 47, 102], [47, 100, 47], [102], 3, 0o100640, [114], [114], [], 0, none, 4294967295, 1, List.replicate 64 48⟩
def xL : FileE := ⟨[46, 47, 100, 47, 108], [47, 100, 47], [108], 0, 0o120777, [114], [114], [102], 0, none, 4294967295, 1, []⟩
def xFes : List (FileE × Bytes) := [(xD, []), (xF, [1, 2, 3]), (xL, [])]
def xCfg : Cfg := { C06.sampleCfg with files := [xD, xF, xL], directories := [[47], [47, 100, 47]], compression := .none }
def xArchive : Bytes := C09.archiveFor xCfg 0 0 xFes
def xBuilt : Package := build xCfg 1700000000 (Pipeline.hexOf C10.tSha256) xArchive xArchive
def rootFs : Fs := ⟨[([], .dir 0o755)], [], 0o022⟩

example : benign (builtInput xCfg xFes) = true := by decide
theorem x_variant : Acc.getPayloadCompressorVariant xBuilt.md.header = .ok payloadCompressorDefault := by
  have e : getString (C06.hdrOf (mkCtx xCfg 1700000000 (Pipeline.hexOf C10.tSha256 xArchive) (Pipeline.hexOf C10.tSha256 xArchive)))
      IndexTag.RPMTAG_PAYLOADCOMPRESSOR = .err "notfound" :=
    C06.getter_of_empty_slot IndexData.asStr
      (s := (IndexTag.RPMTAG_PAYLOADCOMPRESSOR, fun x => x.c.compression.name.map fun p => .str p.1)) (C06.mem_slot (i := 44) rfl) rfl
  show Acc.getPayloadCompressorVariant (C06.hdrOf _) = _
  simp only [Acc.getPayloadCompressorVariant, e]
/-- the benign clause instantiated: extracted into `/t` of a file system holding only the root, the directory has its
setgid bit, the file its three bytes and mode 0640, the link its target -/
example : ∃ inp, extractInput xBuilt none = some inp ∧ (extract inp [[116]] rootFs).out = .ok () ∧
    (extract inp [[116]] rootFs).fs.get [[116], [100]] = some (.dir 0o2755) ∧
    (extract inp [[116]] rootFs).fs.get [[116], [100], [102]] = some (.file [1, 2, 3] 0o640) ∧
    (extract inp [[116]] rootFs).fs.get [[116], [100], [108]] = some (.symlink [102]) := by
  have hfo : ∀ p ∈ xFes, C09.FileOk p := by
    intro p hp
    simp only [xFes, List.mem_cons, List.not_mem_nil, or_false] at hp
    rcases hp with rfl | rfl | rfl <;> exact ⟨rfl, by decide, by constructor <;> decide⟩
  have hsh : ∀ p ∈ xFes, Pipeline.DirShape p.1 := by
    intro p hp
    simp only [xFes, List.mem_cons, List.not_mem_nil, or_false] at hp
    rcases hp with rfl | rfl | rfl <;> constructor <;> decide
  obtain ⟨inp, h1, h2, _, h4⟩ := extract_package_benign C10.tSha256 xCfg 1700000000 xFes rfl (by decide)
    (by unfold DirsOk; decide) (by decide) hfo hsh (by decide) (by decide) (uid := 0) (gid := 0)
    (by decide) (by decide) xArchive none x_variant (by rw [if_pos (by decide)]; rfl) (by decide)
    [[116]] rootFs
    ⟨by decide, by decide, by decide, fun k h1 h2 => by simp at h2; omega, fun q hq => by
      obtain ⟨s, rfl⟩ := hq; rfl⟩
  exact ⟨inp, h1, h2, h4 _ List.mem_cons_self, h4 (xF, [1, 2, 3]) (by simp [xFes]), h4 (xL, []) (by simp [xFes])⟩

end built

end RpmVerif.C12
