import RpmVerif.Lemmas.Io
import RpmVerif.Lemmas.BufWriter
/-!
# C14 — serialisation does not depend on how the sink or source chunks I/O

Sink side: for EVERY package and EVERY response script (any length: all chunkings, any placement
of `Interrupted`, `Ok(0)` and hard failures), running the serialiser's call sequence `prog p`
emits a prefix of the canonical bytes `writePackage p`, and all of them if it reports success.
This rests on every call being a `write_all` (`prog_all_writeAll`, what fix d0a93f9 established);
with a single plain `write` the statement is false (`once_counterexample`).
Source side: `Package::parse` over a source that splits its reads in ANY way (with `Interrupted`
anywhere) equals the list-level parser of C01, and every input cut before the payload starts is
rejected with an end-of-input error.
-/
namespace RpmVerif.C14
open RpmVerif.Hdr RpmVerif.Io RpmVerif.Gen

/-! ## sink side -/

/-- the serialiser's call sequence emits, in total, exactly the canonical bytes of C01's model -/
theorem concat_prog (p : Package) : concat (prog p) = writePackage p := by
  rw [prog, concat_append, concat_progMetadata, writePackage]
  simp [concat, Act.buf]

theorem concat_progMetadata (m : Metadata) : concat (progMetadata m) = writeMetadata m :=
  Io.concat_progMetadata m

/-- every call `Package::write` makes is a `write_all` (true since d0a93f9; before it the four
calls per index entry were plain `write`s) -/
theorem prog_all_writeAll (p : Package) : ∀ a ∈ prog p, a.isAll = true := by
  refine all_append (all_progMetadata _) ?_
  simp [Act.isAll]

/-- the general form: ANY program made only of `write_all` calls, against ANY response script,
emits a prefix of what it wants to emit, all of it on success, and is `starved` only if the
script ran out. (So regrouping / merging / buffering calls in the serialiser keeps the property.) -/
theorem write_prefix_or_all_general (acts : List Act) (hall : ∀ a ∈ acts, a.isAll = true) (rs : List Resp)
    {emitted : Bytes} {st : St} {rest : List Resp} (h : run acts rs = (emitted, st, rest)) :
    emitted <+: concat acts ∧ (st = .ok → emitted = concat acts) ∧ (st = .starved → rest = []) := by
  have := run_spec acts hall rs
  rw [h] at this
  exact this

/-- **Main theorem (sink side).** `Package::write` into any sink obeying the `Write` contract:
a prefix of the canonical bytes, and exactly the canonical bytes when it returns `Ok`. -/
theorem write_prefix_or_all (p : Package) (rs : List Resp) {emitted : Bytes} {st : St} {rest : List Resp}
    (h : run (prog p) rs = (emitted, st, rest)) :
    emitted <+: writePackage p ∧ (st = .ok → emitted = writePackage p) ∧ (st = .starved → rest = []) := by
  rw [← concat_prog]
  exact write_prefix_or_all_general _ (prog_all_writeAll p) rs h

/-- the same for `PackageMetadata::write` -/
theorem write_prefix_or_all_metadata (m : Metadata) (rs : List Resp) {emitted : Bytes} {st : St} {rest : List Resp}
    (h : run (progMetadata m) rs = (emitted, st, rest)) :
    emitted <+: writeMetadata m ∧ (st = .ok → emitted = writeMetadata m) ∧ (st = .starved → rest = []) := by
  rw [← concat_progMetadata]
  exact write_prefix_or_all_general _ (all_progMetadata m) rs h

/-- **Documented negative.** With one plain `write` (count ignored) the conclusion fails: a sink
that takes one byte per call lets the program report success after emitting bytes that are not even
a prefix of what it meant to write. This is why `write_all` matters. -/
theorem once_counterexample :
    ∃ (acts : List Act) (rs : List Resp), (run acts rs).2.1 = .ok ∧ ¬ ((run acts rs).1 <+: concat acts) :=
  ⟨[.once [0, 0, 3, 232], .all [9]], [.ok 1, .ok 1], by decide, by decide⟩

/-- the pre-fix serialiser of an index entry (four plain `write`s), for the second witness -/
def progEntryOld (e : Entry) : List Act :=
  [.once (be32 e.tag), .once (be32 e.data.typeCode), .once (be32 e.off), .once (be32 e.cnt)]

/-- the pre-fix behaviour on a one-entry header: a 1-byte sink gets `Ok` with 21 of the 33 bytes -/
theorem once_counterexample_header :
    let h : Header := ⟨1, 1, [⟨1000, .str [], 0, 1⟩], [0]⟩
    let old := progIntro h.nEntries h.dataSize ++ progEntryOld ⟨1000, .str [], 0, 1⟩ ++ [.all h.store]
    concat old = writeHeader h
    ∧ (run old (List.replicate 40 (.ok 1))).2.1 = .ok
    ∧ (run old (List.replicate 40 (.ok 1))).1.length = 21
    ∧ (writeHeader h).length = 33 := by
  decide +kernel

/-! ### sinks keyed on the bytes accepted so far: the observable the correspondence compares -/

/-- all-`write_all` programs are determined by their buffers -/
theorem all_eq_map {acts : List Act} (hall : ∀ a ∈ acts, a.isAll = true) : acts = (acts.map Act.buf).map Act.all := by
  induction acts with
  | nil => rfl
  | cons a as ih =>
    have ha := hall a (by simp)
    cases a with
    | once b => simp [Act.isAll] at ha
    | all b =>
      rw [List.map_cons, List.map_cons, ← ih (fun a' m => hall a' (by simp [m]))]
      rfl

/-- **Failure offsets.** A sink that accepts bytes according to any chunk pattern (sizes ≥ 1,
`Interrupted` anywhere) until `N` bytes are in and fails every later call (hard error or `Ok(0)`):
any program of `write_all`s that wants to emit more than `N` bytes ends in an error having emitted
exactly the first `N` bytes — whatever the grouping of its calls. Stated on the sink's behaviour as
a response script (`respRunK`), i.e. inside the semantics `write_prefix_or_all` quantifies over. -/
theorem write_failure_offset (acts : List Act) (hall : ∀ a ∈ acts, a.isAll = true) (pat : List Chunk)
    (hwf : ScriptWF pat) (N : Nat) (hN : N < (concat acts).length) {atLimit : Resp} (ha : atLimit = .fail ∨ atLimit = .ok 0) :
    run acts (respRunK atLimit N (acts.map Act.buf) pat 0) = ((concat acts).take N, .err, []) := by
  have h := run_respRunK ha N (acts.map Act.buf) pat 0 []
  rw [← all_eq_map hall, List.append_nil] at h
  obtain ⟨e1, e2⟩ := runK_spec N (acts.map Act.buf) pat 0 hwf (Nat.zero_le _)
  rw [h, e1, e2, Nat.sub_zero, if_neg (by simp only [concat] at hN; omega)]
  rfl

/-- … and when the limit is not reached it succeeds with everything (same sinks, `N ≥ length`) -/
theorem write_no_failure (acts : List Act) (hall : ∀ a ∈ acts, a.isAll = true) (pat : List Chunk)
    (hwf : ScriptWF pat) (N : Nat) (hN : (concat acts).length ≤ N) {atLimit : Resp} (ha : atLimit = .fail ∨ atLimit = .ok 0) :
    run acts (respRunK atLimit N (acts.map Act.buf) pat 0) = (concat acts, .ok, []) := by
  have h := run_respRunK ha N (acts.map Act.buf) pat 0 []
  rw [← all_eq_map hall, List.append_nil] at h
  obtain ⟨e1, e2⟩ := runK_spec N (acts.map Act.buf) pat 0 hwf (Nat.zero_le _)
  rw [h, e1, e2, Nat.sub_zero, if_pos (by simp only [concat] at hN; omega), List.take_of_length_le (by simpa [concat] using hN)]
  rfl

/-- `Package::write` against such a sink -/
theorem write_failure_offset_package (p : Package) (pat : List Chunk) (hwf : ScriptWF pat) (N : Nat)
    (hN : N < (writePackage p).length) {atLimit : Resp} (ha : atLimit = .fail ∨ atLimit = .ok 0) :
    run (prog p) (respRunK atLimit N ((prog p).map Act.buf) pat 0) = ((writePackage p).take N, .err, []) := by
  have := write_failure_offset (prog p) (prog_all_writeAll p) pat hwf N (by rw [concat_prog]; exact hN) ha
  rw [concat_prog] at this
  exact this

/-- grouping independence, stated directly on keyed sinks: two `write_all` programs with the same
total output are indistinguishable (bytes emitted, result) by any keyed sink -/
theorem grouping_independent (b1 b2 : List Bytes) (h : b1.flatten = b2.flatten) (pat1 pat2 : List Chunk)
    (h1 : ScriptWF pat1) (h2 : ScriptWF pat2) (N : Nat) :
    (runK N b1 pat1 0).1 = (runK N b2 pat2 0).1 ∧ (runK N b1 pat1 0).2.1 = (runK N b2 pat2 0).2.1 := by
  obtain ⟨a1, a2⟩ := runK_spec N b1 pat1 0 h1 (Nat.zero_le _)
  obtain ⟨c1, c2⟩ := runK_spec N b2 pat2 0 h2 (Nat.zero_le _)
  rw [a1, a2, c1, c2, h]
  exact ⟨rfl, rfl⟩

/-! ## `Package::write_file`: the same guarantee through `BufWriter` and the file

`write_file` = `Package::write` into a `BufWriter` around the file, an explicit `flush()?` (fix d2dbd7b),
then the drop of the `BufWriter` (one more `flush_buf` whose result is discarded).  The file is the inner
sink: ANY response script (short writes, EINTR, ENOSPC / EFBIG / EIO at any byte). -/

/-- the buffers `Package::write` hands to its sink, in order -/
def bufs (p : Package) : List Bytes := (prog p).map Act.buf

theorem bufs_flatten (p : Package) : (bufs p).flatten = writePackage p := by
  rw [← concat_prog]; rfl

/-- **Main theorem (`write_file`).** For EVERY package, EVERY buffer capacity and EVERY behaviour of the
file: the bytes that reached the file are a prefix of the canonical bytes, and all of them when
`write_file` returns `Ok`. -/
theorem write_file_prefix_or_all (cap : Nat) (p : Package) (rs : List Resp) :
    (writeFile cap (bufs p) rs).1 <+: writePackage p
      ∧ ((writeFile cap (bufs p) rs).2 = .ok → (writeFile cap (bufs p) rs).1 = writePackage p) := by
  have := writeFile_spec cap (bufs p) rs
  rw [bufs_flatten] at this
  exact this

/-- … in general: any sequence of `write_all` calls through a `BufWriter`, flushed, dropped -/
theorem write_file_prefix_or_all_general (cap : Nat) (ds : List Bytes) (rs : List Resp) :
    (writeFile cap ds rs).1 <+: ds.flatten ∧ ((writeFile cap ds rs).2 = .ok → (writeFile cap ds rs).1 = ds.flatten) :=
  writeFile_spec cap ds rs

/-- **Documented negative (the code before d2dbd7b).** Without the explicit flush, a file that rejects
every write (`/dev/full`: ENOSPC) makes `write_file` return `Ok` with nothing written, whenever the
package is smaller than the buffer: here 3 bytes through a buffer of 8. -/
theorem write_file_old_witness :
    writeFileOld 8 [[1], [2, 3]] [.fail] = ([], .ok) ∧ writeFile 8 [[1], [2, 3]] [.fail, .fail] = ([], .err) := by
  decide

/-- the old code was wrong only in its result, never in the bytes: still a prefix -/
theorem write_file_old_prefix (cap : Nat) (p : Package) (rs : List Resp) :
    (writeFileOld cap (bufs p) rs).1 <+: writePackage p := by
  have := writeFileOld_prefix cap (bufs p) rs
  rw [bufs_flatten] at this
  exact this

/-! ## source side -/

/-- **Main theorem (source side).** However the source splits its reads — any chunk sizes ≥ 1,
`Interrupted` anywhere, any script length — `Package::parse` gives the result of the list-level
parser (value, error class or panic alike). -/
theorem read_chunk_indep (bs : Bytes) (script : List Chunk) (hwf : ScriptWF script) :
    parseChunked bs script = parsePackage bs :=
  parseChunked_eq bs script hwf

/-- two chunkings of the same bytes parse alike -/
theorem read_chunk_indep_pair (bs : Bytes) (s1 s2 : List Chunk) (h1 : ScriptWF s1) (h2 : ScriptWF s2) :
    parseChunked bs s1 = parseChunked bs s2 := by
  rw [read_chunk_indep bs s1 h1, read_chunk_indep bs s2 h2]

/-- where the payload starts: right after `(writeMetadata p.md).length` bytes of the input -/
theorem payload_starts_at {bs : Bytes} {p : Package} (hp : parsePackage bs = .ok p) :
    (writeMetadata p.md).length ≤ bs.length ∧ bs.drop (writeMetadata p.md).length = p.content := by
  simp only [parsePackage, Out.bind_eq_ok] at hp
  obtain ⟨⟨m, r⟩, h1, hp⟩ := hp
  simp only [Out.pure_eq, Out.ok.injEq] at hp
  subst hp
  obtain ⟨res1, pad, res2, l1, lp, l2, rfl, wf⟩ := parseMetadata_ok h1
  rw [← metaBytes_len wf l1 lp l2]
  exact ⟨by simp, List.drop_left⟩

/-- **Truncation.** An accepted input cut anywhere before its payload starts is an error (never a
value, never a panic): precisely the end-of-input error. -/
theorem truncated_is_error {bs : Bytes} {p : Package} (hp : parsePackage bs = .ok p) (k : Nat)
    (hk : k < (writeMetadata p.md).length) : parsePackage (bs.take k) = .err "eof" := by
  simp only [parsePackage, Out.bind_eq_ok] at hp
  obtain ⟨⟨m, r⟩, h1, hp⟩ := hp
  simp only [Out.pure_eq, Out.ok.injEq] at hp
  subst hp
  obtain ⟨res1, pad, res2, l1, lp, l2, rfl, wf⟩ := parseMetadata_ok h1
  rw [← metaBytes_len wf l1 lp l2] at hk
  rw [List.take_append_of_le_length (by omega), parsePackage, parseMetadata_trunc wf l1 lp l2 k hk]
  rfl

/-- the same through any chunked source -/
theorem truncated_is_error_chunked {bs : Bytes} {p : Package} (hp : parsePackage bs = .ok p) (k : Nat)
    (hk : k < (writeMetadata p.md).length) (script : List Chunk) (hwf : ScriptWF script) :
    parseChunked (bs.take k) script = .err "eof" := by
  rw [read_chunk_indep _ _ hwf, truncated_is_error hp k hk]

/-! ## the two file entry points together: `write_file` then `open` -/

/-- **`Package::write_file(path)` followed by `Package::open(path)` is write + re-parse.** For EVERY package value, EVERY
buffer capacity of the `BufWriter`, EVERY behaviour of the file while it is written (any response script) for which
`write_file` returns `Ok`, and EVERY way the `BufReader<File>` then splits its reads (any well-formed chunk script):
opening the file gives exactly what `Package::parse` gives on the bytes `Package::write` emits into a `Vec`
(`Sign.writeParse`, the `w` step of C10's histories; C10's step `W` and C01's `openrt01` exercise this). -/
theorem write_file_then_open (cap : Nat) (p : Package) (rs : List Resp) (hok : (writeFile cap (bufs p) rs).2 = .ok)
    (script : List Chunk) (hwf : ScriptWF script) :
    parseChunked (writeFile cap (bufs p) rs).1 script = parsePackage (writePackage p) := by
  rw [read_chunk_indep _ _ hwf, (write_file_prefix_or_all cap p rs).2 hok]

/-- … and for a value that was itself parsed (from ANY source kind: slice, `Cursor`, `open`), the file holds the
canonical bytes of the input and opens to the same value. -/
theorem open_write_file_open {bs : Bytes} {p : Package} (script0 : List Chunk) (h0 : ScriptWF script0)
    (hp : parseChunked bs script0 = .ok p) (cap : Nat) (rs : List Resp) (hok : (writeFile cap (bufs p) rs).2 = .ok)
    (script : List Chunk) (hwf : ScriptWF script) :
    (writeFile cap (bufs p) rs).1 = writePackage p ∧ parseChunked (writeFile cap (bufs p) rs).1 script = .ok p := by
  rw [read_chunk_indep _ _ h0] at hp
  refine ⟨(write_file_prefix_or_all cap p rs).2 hok, ?_⟩
  rw [write_file_then_open cap p rs hok script hwf]
  simp only [parsePackage, Out.bind_eq_ok] at hp
  obtain ⟨⟨m, r⟩, h1, hp⟩ := hp
  simp only [Out.pure_eq, Out.ok.injEq] at hp
  subst hp
  obtain ⟨res1, pad, res2, l1, lp, l2, rfl, wf⟩ := parseMetadata_ok h1
  simp only [writePackage, parsePackage, writeMetadata_eq]
  rw [parseMetadata_write wf rfl (by simp) rfl]
  rfl

/-! ## non-vacuity -/

/-- the accepted sample of C01 (non-zero reserved bytes and padding, BIN / STRING / INT32 entries, 2 payload bytes; 194 bytes) -/
def sample : Bytes := [237, 171, 238, 219, 3, 0, 0, 0, 0, 1, 116, 0, 0, 0, 0, 0, 0, 0, 0, 0, 0, 0, 0, 0, 0, 0, 0, 0, 0, 0, 0, 0, 0, 0, 0, 0, 0, 0, 0, 0, 0, 0, 0, 0, 0, 0, 0, 0, 0, 0, 0, 0, 0, 0, 0, 0, 0, 0, 0, 0, 0, 0, 0, 0, 0, 0, 0, 0, 0, 0, 0, 0, 0, 0, 0, 0, 0, 1, 0, 5, 0, 0, 0, 0, 0, 0, 0, 0, 0, 0, 0, 0, 0, 0, 0, 0, 142, 173, 232, 1, 170, 187, 204, 221, 0, 0, 0, 1, 0, 0, 0, 5, 0, 0, 3, 232, 0, 0, 0, 7, 0, 0, 0, 0, 0, 0, 0, 5, 104, 101, 108, 108, 111, 7, 7, 7, 142, 173, 232, 1, 1, 2, 3, 4, 0, 0, 0, 2, 0, 0, 0, 8, 0, 0, 3, 232, 0, 0, 0, 6, 0, 0, 0, 0, 0, 0, 0, 1, 0, 0, 3, 233, 0, 0, 0, 4, 0, 0, 0, 4, 0, 0, 0, 1, 97, 98, 99, 0, 0, 0, 0, 7, 9, 9]

/-- a mixed response script: short writes, interrupts, then 1 byte per call -/
def mixedScript : List Resp := [.ok 3, .intr, .ok 1, .intr, .intr, .ok 100, .ok 2] ++ List.replicate 200 (.ok 1)

example : (parsePackage sample).isOk = true := by decide +kernel
-- the serialiser makes 9 + (5 + 4 + 1) + 1 + (5 + 8 + 1) + 1 = 35 calls for it, all of them write_all
example : (parsePackage sample).map (fun p => (prog p).length) = .ok 35 := by decide +kernel
-- success on a chunking + interrupting sink: all 194 canonical bytes
example : (parsePackage sample).map (fun p => ((run (prog p) mixedScript).2.1, (run (prog p) mixedScript).1 == writePackage p,
    (writePackage p).length)) = .ok (.ok, true, 194) := by decide +kernel
-- responses are per call and clamped to the buffer: `ok 100` on the 4-byte magic takes 4, `ok 4` on the 1-byte
-- major takes 1, then a hard failure: error with 5 bytes emitted (a strict prefix)
example : (parsePackage sample).map (fun p =>
    let r := run (prog p) [.ok 100, .ok 4, .fail]
    (r.2.1, r.1 == (writePackage p).take 5)) = .ok (.err, true) := by decide +kernel
-- Ok(0) is an error, too (WriteZero); a script that ends early leaves the call pending (starved)
example : (parsePackage sample).map (fun p => (run (prog p) [.ok 7, .ok 0]).2.1) = .ok .err := by decide +kernel
example : (parsePackage sample).map (fun p => (run (prog p) [.ok 7, .intr]).2) = .ok (.starved, []) := by decide +kernel
-- keyed sink, pattern of 3-byte chunks with interrupts, failing at 50: its script makes `run` fail with 50 bytes
example : ScriptWF [.size 3, .intr, .size 2] := by decide
example : (parsePackage sample).map (fun p =>
    let r := run (prog p) (respRunK .fail 50 ((prog p).map Act.buf) [.size 3, .intr, .size 2] 0)
    (r.2.1, r.1.length)) = .ok (.err, 50) := by decide +kernel
-- write_file through a 16-byte BufWriter into a file taking 5 bytes per call: all 194 bytes, Ok
example : (parsePackage sample).map (fun p => ((writeFile 16 (bufs p) (List.replicate 100 (.ok 5))).2,
    (writeFile 16 (bufs p) (List.replicate 100 (.ok 5))).1 == writePackage p)) = .ok (.ok, true) := by decide +kernel
-- … and into a file that fails after three short writes (EFBIG): error, a strict non-empty prefix on disk
-- (short writes against partly filled buffers: 17 bytes got through before the failure)
example : (parsePackage sample).map (fun p =>
    let r := writeFile 16 (bufs p) ([.ok 7, .ok 7, .ok 7] ++ List.replicate 10 .fail)
    (r.2, r.1.length, r.1 == (writePackage p).take 17)) = .ok (.err, 17, true) := by decide +kernel
-- the whole package fits the buffer (cap 8192 > 194): a failing file is only noticed by the final flush
example : (parsePackage sample).map (fun p => (writeFile 8192 (bufs p) [.fail, .fail], writeFileOld 8192 (bufs p) [.fail])) =
    .ok (([], .err), ([], .ok)) := by decide +kernel
-- source side: 1-byte reads with interrupts, then larger chunks: same package
example : parseChunked sample ([.size 1, .intr, .size 1, .size 7, .intr] ++ List.replicate 150 (.size 1)) = parsePackage sample := by
  decide +kernel
-- the hypothesis of `read_chunk_indep` is needed: a source that answers `Ok(0)` before the end breaks the Read contract
example : parseChunked sample [.size 0] = .err "eof" ∧ (parsePackage sample).isOk = true := by decide +kernel
-- truncation: the payload of the sample starts at 192; cut at 191 → error, at 192 → accepted (empty payload)
example : (parsePackage sample).map (fun p => (writeMetadata p.md).length) = .ok 192 := by decide +kernel
example : parsePackage (sample.take 191) = .err "eof" := by decide +kernel
example : (parsePackage (sample.take 192)).isOk = true := by decide +kernel
-- write_file through a 16-byte BufWriter into a file that takes 5 bytes per call, then opened through 7-byte reads: the value again
example : (parsePackage sample).map (fun p =>
    ((writeFile 16 (bufs p) (List.replicate 100 (.ok 5))).2,
     parseChunked (writeFile 16 (bufs p) (List.replicate 100 (.ok 5))).1 (List.replicate 60 (.size 7)) == .ok p)) = .ok (.ok, true) := by
  decide +kernel
example : ScriptWF (List.replicate 60 (Chunk.size 7)) := by decide

end RpmVerif.C14
