import RpmVerif.Lemmas.Decode
import RpmVerif.Model.Accessors
/-!
# C05 — metadata accessors return exactly what the header stores

`Stores store off cnt d` (Lemmas/Decode.lean) is the parser-independent reading of the header format:
the bytes at `off` are `cnt` big-endian integers / a NUL-terminated string / `cnt` NUL-separated
strings … and `d` is that value. The theorems: every entry of every parsed header holds exactly what
is stored at its offset; a typed getter returns the projection of the FIRST entry with the tag or an
error — never a made-up value; the list accessors zip / join in order; nothing panics.
-/
namespace RpmVerif.C05
open RpmVerif.Hdr RpmVerif.Acc RpmVerif.Gen

/-- the header bytes are intro ++ index records (in order) ++ store, and every decoded entry is what
the store holds at its offset -/
theorem parsed_entries_stored {bs h rest} (hp : parseHeader bs = .ok (h, rest)) :
    (∃ res : Bytes, res.length = 4 ∧ bs = hdrBytes res h ++ rest) ∧
    ∀ e ∈ h.entries, Stores h.store e.off e.cnt e.data := by
  obtain ⟨res, hr, hb, wf⟩ := parseHeader_ok hp
  exact ⟨⟨res, hr, hb⟩, fun e he => decode_stores (wf.dec e he)⟩

/-- a getter returns a value only if it is the projection of the first entry carrying the tag, and that
entry's data is what the store holds ("never a made-up value") -/
theorem getter_value_is_stored {α} {proj : IndexData → Option α} {bs h rest tag a}
    (hp : parseHeader bs = .ok (h, rest)) (hg : getWith proj h tag = .ok a) :
    ∃ e, h.entries.find? (fun e => e.tag == tag) = some e ∧ e.tag = tag ∧ proj e.data = some a ∧
      Stores h.store e.off e.cnt e.data := by
  obtain ⟨e, hf, hpj⟩ := getWith_eq_ok.mp hg
  have hm := List.mem_of_find?_eq_some hf
  have ht : e.tag = tag := by simpa using List.find?_some hf
  exact ⟨e, hf, ht, hpj, (parsed_entries_stored hp).2 e hm⟩

/-- absent tag → `TagNotFound` -/
theorem getter_absent {α} (proj : IndexData → Option α) {h : Header} {tag : Nat}
    (hn : ∀ e ∈ h.entries, e.tag ≠ tag) : getWith proj h tag = .err "notfound" := by
  unfold getWith findEntry
  have : h.entries.find? (fun e => e.tag == tag) = none := by
    rw [List.find?_eq_none]; intro e he; simpa using hn e he
  rw [this]; rfl

/-- first entry of another data type → `UnexpectedTagDataType` (later duplicates are never consulted) -/
theorem getter_wrong_type {α} (proj : IndexData → Option α) {h : Header} {tag : Nat} {e : Entry}
    (hf : h.entries.find? (fun e => e.tag == tag) = some e) (hp : proj e.data = none) :
    getWith proj h tag = .err "wrongtype" := by
  unfold getWith findEntry; rw [hf]; simp only [Out.bind_ok, hp]

/-- the result of every getter is a value or one of the two errors: never a panic -/
theorem getter_total {α} (proj : IndexData → Option α) (h : Header) (tag : Nat) :
    (getWith proj h tag).isPanic = false := getWith_not_panic proj h tag

/-! ### list accessors -/

/-- `get_file_paths`: item k is `dirs[dirindex[k]]` joined with `basenames[k]`; as many items as the
shorter of the two arrays -/
theorem filePaths_spec {bns : List Bytes} {idx : List Nat} {dirs : List Bytes} {ps : List Bytes}
    (h : filePathsFrom bns idx dirs = .ok ps) :
    ps.length = min bns.length idx.length ∧
    ∀ k (hk : k < ps.length), ∃ d, dirs[idx[k]!]? = some d ∧ ps[k] = pathJoin d bns[k]! := by
  induction bns generalizing idx ps with
  | nil => simp only [filePathsFrom, Out.ok.injEq] at h; subst h; simp
  | cons b bs ih =>
    cases idx with
    | nil => simp only [filePathsFrom, Out.ok.injEq] at h; subst h; simp
    | cons i is =>
      simp only [filePathsFrom] at h
      split at h
      · rename_i d hd
        simp only [Out.bind_eq_ok, Out.pure_eq, Out.ok.injEq] at h
        obtain ⟨r, hr, rfl⟩ := h
        obtain ⟨l1, l2⟩ := ih hr
        refine ⟨by simp [l1], ?_⟩
        intro k hk
        cases k with
        | zero => exact ⟨d, by simpa using hd, by simp⟩
        | succ k =>
          obtain ⟨d', h1, h2⟩ := l2 k (by simpa using hk)
          exact ⟨d', by simpa using h1, by simpa using h2⟩
      · cases h

/-- an out-of-range directory index is an error (`InvalidTagIndex`), never a guessed path -/
theorem filePaths_bad_index {bns : List Bytes} {idx : List Nat} {dirs : List Bytes}
    (hbad : ∃ k, k < min bns.length idx.length ∧ dirs.length ≤ idx[k]!) :
    filePathsFrom bns idx dirs = .err "index" := by
  obtain ⟨k, hk, hb⟩ := hbad
  induction bns generalizing idx k with
  | nil => simp at hk
  | cons b bs ih =>
    cases idx with
    | nil => simp at hk
    | cons i is =>
      simp only [filePathsFrom]
      cases k with
      | zero =>
        have : dirs[i]? = none := by simpa using hb
        rw [this]
      | succ k =>
        cases hd : dirs[i]? with
        | none => rfl
        | some d =>
          simp only
          rw [ih (k := k) (by simp at hk ⊢; omega) (by simpa using hb)]
          rfl

/-- for directory names ending in '/' and relative base names the join is plain concatenation
("directory[dirindex] + basename") -/
theorem pathJoin_concat {d b : Bytes} (hd : d.getLast? = some 47) (hb : b.head? ≠ some 47) :
    pathJoin d b = d ++ b := by
  simp [pathJoin, hb, hd]

/-- dependency lists are the three arrays zipped in order -/
theorem deps_zip {h : Header} {a b c : Nat} {ns vs : List Bytes} {fs : List Nat}
    (h1 : getStringArray h a = .ok ns) (h2 : getU32Array h b = .ok fs) (h3 : getStringArray h c = .ok vs) :
    getDependencies h a b c = .ok ((zip3 ns fs vs).map fun (n, f, v) => ⟨n, f, v⟩) := by
  simp [getDependencies, triple, h1, h2, h3, isNotFound]

/-- all three tags absent → the documented empty list -/
theorem deps_absent {h : Header} {a b c : Nat}
    (h1 : getStringArray h a = .err "notfound") (h2 : getU32Array h b = .err "notfound")
    (h3 : getStringArray h c = .err "notfound") : getDependencies h a b c = .ok [] := by
  simp [getDependencies, triple, h1, h2, h3, isNotFound]

/-- a missing / mistyped member of the triple → an error, not a partial list -/
theorem triple_err_of_member {α β γ δ} {a : Out α} {b : Out β} {c : Out γ} {f : α → β → γ → Out δ} {e : δ}
    (hnot : ¬ (isNotFound a && isNotFound b && isNotFound c) = true)
    (hbad : a.isErr = true ∨ b.isErr = true ∨ c.isErr = true)
    (hp : a.isPanic = false ∧ b.isPanic = false ∧ c.isPanic = false) :
    (triple a b c f e).isErr = true := by
  unfold triple
  rw [if_neg hnot]
  cases a <;> cases b <;> cases c <;> simp_all [Out.isErr, Out.isPanic, bind]

/-- the `unreachable!()` arms are unreachable: the list accessors never panic -/
theorem triple_total {α β γ δ} {a : Out α} {b : Out β} {c : Out γ} {f : α → β → γ → Out δ} {e : δ}
    (hp : a.isPanic = false ∧ b.isPanic = false ∧ c.isPanic = false) (hf : ∀ x y z, (f x y z).isPanic = false) :
    (triple a b c f e).isPanic = false := by
  unfold triple
  split
  · rfl
  · cases a <;> cases b <;> cases c <;> simp_all [Out.isPanic, bind]

theorem filePathsFrom_total (b : List Bytes) (i : List Nat) (d : List Bytes) : (filePathsFrom b i d).isPanic = false := by
  induction b generalizing i with
  | nil => rfl
  | cons x xs ih =>
    cases i with
    | nil => rfl
    | cons j js =>
      simp only [filePathsFrom]
      split
      · have := ih js
        cases hr : filePathsFrom xs js d <;> simp_all [Out.isPanic, bind]
      · rfl

theorem getFilePaths_total (h : Header) : (getFilePaths h).isPanic = false :=
  triple_total ⟨getWith_not_panic _ _ _, getWith_not_panic _ _ _, getWith_not_panic _ _ _⟩
    (fun b i d => filePathsFrom_total b i d)

theorem getDependencies_total (h : Header) (a b c : Nat) : (getDependencies h a b c).isPanic = false :=
  triple_total ⟨getWith_not_panic _ _ _, getWith_not_panic _ _ _, getWith_not_panic _ _ _⟩ (fun _ _ _ => rfl)

theorem getChangelog_total (h : Header) : (getChangelog h).isPanic = false :=
  triple_total ⟨getWith_not_panic _ _ _, getWith_not_panic _ _ _, getWith_not_panic _ _ _⟩ (fun _ _ _ => rfl)

/-! ### file digests: the lengths `FileDigest::new` accepts are the digests' real sizes

`Gen.fileDigestHexLen` is scraped from `impl FileDigest { fn new }` on every run (tools/gen/file_digest_len.py).
The specification side is the size of each algorithm's output, which is not the library's to choose. -/

/-- output size in bytes, by rpm's (= RFC 4880's) algorithm number: MD5, SHA-1, SHA-256, SHA-384, SHA-512, SHA-224 -/
def digestBytes : Nat → Option Nat
  | 1 => some 16 | 2 => some 20 | 8 => some 32 | 9 => some 48 | 10 => some 64 | 11 => some 28 | _ => none

/-- the table the specification uses: the same algorithms the code supports, each with its real hex length -/
def standardHexLen : List (Nat × Nat) := fileDigestHexLen.map fun p => (p.1, 2 * (digestBytes p.1).getD 0)

/-- **every length the code pairs with an algorithm is that algorithm's digest size in hex** (re-checked against the
source table on every run; with the pre-fix source `(11, 60)` this is false — `old_sha224_length_witness`) -/
theorem file_digest_lengths_standard : ∀ p ∈ fileDigestHexLen, digestBytes p.1 = some (p.2 / 2) ∧ p.2 % 2 = 0 := by
  decide

theorem code_table_is_standard : fileDigestHexLen = standardHexLen := by decide

/-- a file digest is accepted exactly when the source pairs its algorithm with its length … -/
theorem fileDigestNew_ok_iff (a : Nat) (hex : Bytes) (tbl : List (Nat × Nat)) :
    fileDigestNew a hex tbl = .ok (a, hex) ↔ (a, hex.length) ∈ tbl := by
  unfold fileDigestNew
  constructor
  · intro h
    split at h
    · rename_i hany
      obtain ⟨p, hp, hq⟩ := List.any_eq_true.mp hany
      simp only [Bool.and_eq_true, beq_iff_eq] at hq
      obtain ⟨h1, h2⟩ := hq
      have : p = (a, hex.length) := Prod.ext h1 h2
      rw [← this]; exact hp
    · cases h
  · intro h
    rw [if_pos]
    exact List.any_eq_true.mpr ⟨_, h, by simp⟩

/-- … hence, with the current source, exactly when the text is a whole digest of a supported algorithm -/
theorem fileDigestNew_accepts_real_digests (a : Nat) (hex : Bytes) (h : fileDigestNew a hex = .ok (a, hex)) :
    digestBytes a = some (hex.length / 2) ∧ hex.length % 2 = 0 :=
  file_digest_lengths_standard _ ((fileDigestNew_ok_iff a hex _).mp h)

theorem fileDigestNew_never_invents (a : Nat) (hex : Bytes) (tbl : List (Nat × Nat)) (v : Nat × Bytes)
    (h : fileDigestNew a hex tbl = .ok v) : v = (a, hex) := by
  unfold fileDigestNew at h
  split at h
  · cases h; rfl
  · cases h

/-- **Documented negative (the source before the fix).** SHA-224 was paired with 60 hex characters: a real SHA-224
digest (28 bytes = 56 characters) made `get_file_entries` fail with `UnsupportedDigestAlgorithm`, while 60 characters of
anything were accepted. -/
theorem old_sha224_length_witness :
    let old : List (Nat × Nat) := [(1, 32), (8, 64), (11, 60), (9, 96), (10, 128)]
    fileDigestNew 11 (List.replicate 56 48) old = .err "unsupported"
      ∧ fileDigestNew 11 (List.replicate 60 48) old = .ok (11, List.replicate 60 48)
      ∧ digestBytes 11 = some 28
      ∧ fileDigestNew 11 (List.replicate 56 48) = .ok (11, List.replicate 56 48) := by
  decide

/-! ### accessors composed of getters: `get_installed_size`, `get_payload_compressor`, `is_source_package` -/

/-- `get_installed_size`: when the first RPMTAG_LONGSIZE entry is a non-empty INT64 array the result is its first element;
in EVERY other case (tag absent, other type, empty array) the result is exactly what the 32-bit RPMTAG_SIZE getter gives,
value or error -/
theorem installed_size_spec (h : Header) :
    (∀ v, getU64 h IndexTag.RPMTAG_LONGSIZE = .ok v → getInstalledSize h = .ok v)
    ∧ ((∀ v, getU64 h IndexTag.RPMTAG_LONGSIZE ≠ .ok v) → getInstalledSize h = getU32 h IndexTag.RPMTAG_SIZE) := by
  constructor
  · intro v hv; simp only [getInstalledSize, hv]
  · intro hn
    unfold getInstalledSize
    split
    · rename_i v hv; exact absurd hv (hn v)
    · rfl

/-- … and the value it returns for a parsed header is stored under one of the two tags: the first LONGSIZE entry's first
64-bit integer, or (only if that getter fails) the first SIZE entry's first 32-bit integer -/
theorem installed_size_is_stored {bs h rest v} (hp : parseHeader bs = .ok (h, rest)) (hg : getInstalledSize h = .ok v) :
    ∃ e, Stores h.store e.off e.cnt e.data ∧
      ((h.entries.find? (fun e => e.tag == IndexTag.RPMTAG_LONGSIZE) = some e ∧ e.data.asU64 = some v) ∨
       ((∀ w, getU64 h IndexTag.RPMTAG_LONGSIZE ≠ .ok w) ∧
        h.entries.find? (fun e => e.tag == IndexTag.RPMTAG_SIZE) = some e ∧ e.data.asU32 = some v)) := by
  by_cases hex : ∃ w, getU64 h IndexTag.RPMTAG_LONGSIZE = .ok w
  · obtain ⟨w, h64⟩ := hex
    have := (installed_size_spec h).1 w h64
    rw [hg] at this
    cases this
    obtain ⟨e, hf, _, hpj, hs⟩ := getter_value_is_stored hp h64
    exact ⟨e, hs, .inl ⟨hf, hpj⟩⟩
  · have hn : ∀ w, getU64 h IndexTag.RPMTAG_LONGSIZE ≠ .ok w := fun w hw => hex ⟨w, hw⟩
    have h32 := (installed_size_spec h).2 hn
    rw [hg] at h32
    obtain ⟨e, hf, _, hpj, hs⟩ := getter_value_is_stored hp h32.symm
    exact ⟨e, hs, .inr ⟨hn, hf, hpj⟩⟩

theorem lookup_some_mem {α β} [BEq α] [LawfulBEq α] {l : List (α × β)} {k : α} {v : β}
    (h : l.lookup k = some v) : (k, v) ∈ l := by
  induction l with
  | nil => cases h
  | cons p r ih =>
    obtain ⟨a, b⟩ := p
    simp only [List.lookup] at h
    split at h
    · rename_i he
      have : k = a := by simpa using he
      cases h; subst this; exact List.mem_cons_self
    · exact List.mem_cons_of_mem _ (ih h)

theorem lookup_none_iff {α β} [BEq α] [LawfulBEq α] {l : List (α × β)} {k : α} :
    l.lookup k = none ↔ k ∉ l.map (·.1) := by
  induction l with
  | nil => simp [List.lookup]
  | cons p r ih =>
    obtain ⟨a, b⟩ := p
    simp only [List.lookup]
    split
    · rename_i he
      have : k = a := by simpa using he
      simp [this]
    · rename_i he
      have : ¬ k = a := by simpa using he
      simp [ih, this]

/-- the names `impl FromStr for CompressionType` accepts are ASCII, so comparing the UTF-8 bytes of the stored text with
the table's code points is comparing the strings (the assumption under `getPayloadCompressorVariant`; re-checked on every run) -/
theorem compression_names_ascii : ∀ p ∈ compressionFromStr, ∀ c ∈ p.1, c < 128 := by decide

/-- no RPMTAG_PAYLOADCOMPRESSOR entry at all → `CompressionType::None` (whose name is "none"), not an error -/
theorem compressor_absent_is_none {h : Header} (hn : ∀ e ∈ h.entries, e.tag ≠ IndexTag.RPMTAG_PAYLOADCOMPRESSOR) :
    getPayloadCompressorVariant h = .ok payloadCompressorDefault
    ∧ Compression.toStr payloadCompressorDefault = [110, 111, 110, 101]
    ∧ compressionVariants[payloadCompressorDefault]? = some "None" := by
  refine ⟨?_, by decide, by decide⟩
  unfold getPayloadCompressorVariant
  have := getter_absent IndexData.asStr hn
  unfold getString
  rw [this]
  rfl

/-- a stored compressor text `s` gives a compression type exactly when `s` is one of the names in the source's
`from_str` table, and then it is the variant that table pairs with the FIRST arm matching `s` (whose printed name is `s`
again by C15's `compression_roundtrip`); every other text is `UnknownCompressorType` — never a default -/
theorem compressor_known_iff {h : Header} {s : Bytes} (hs : getString h IndexTag.RPMTAG_PAYLOADCOMPRESSOR = .ok s) :
    getPayloadCompressorVariant h = Compression.fromStr (s.map UInt8.toNat)
    ∧ (∀ v, getPayloadCompressorVariant h = .ok v ↔ compressionFromStr.lookup (s.map UInt8.toNat) = some v)
    ∧ (∀ v, getPayloadCompressorVariant h = .ok v → (s.map UInt8.toNat, v) ∈ compressionFromStr)
    ∧ ((∃ v, getPayloadCompressorVariant h = .ok v) ↔ s.map UInt8.toNat ∈ compressionFromStr.map (·.1))
    ∧ (s.map UInt8.toNat ∉ compressionFromStr.map (·.1) → getPayloadCompressorVariant h = .err "unknown-compressor") := by
  have e : getPayloadCompressorVariant h = Compression.fromStr (s.map UInt8.toNat) := by
    unfold getPayloadCompressorVariant; rw [hs]
  have hiff : ∀ v, getPayloadCompressorVariant h = .ok v ↔ compressionFromStr.lookup (s.map UInt8.toNat) = some v := by
    intro v
    rw [e]; unfold Compression.fromStr
    cases hl : compressionFromStr.lookup (s.map UInt8.toNat) with
    | none => simp
    | some w => simp
  refine ⟨e, hiff, fun v hv => lookup_some_mem ((hiff v).mp hv), ?_, ?_⟩
  · constructor
    · intro ⟨v, hv⟩
      exact List.mem_map.mpr ⟨_, lookup_some_mem ((hiff v).mp hv), rfl⟩
    · intro hm
      cases hl : compressionFromStr.lookup (s.map UInt8.toNat) with
      | none => exact absurd hm (lookup_none_iff.mp hl)
      | some w => exact ⟨w, (hiff w).mpr hl⟩
  · intro hnm
    rw [e]; unfold Compression.fromStr
    rw [lookup_none_iff.mpr hnm]

/-- `is_source_package` is true exactly when SOME entry carries RPMTAG_SOURCEPACKAGE — whatever its type, count or data -/
theorem source_iff_tag_present (h : Header) :
    entryIsPresent h IndexTag.RPMTAG_SOURCEPACKAGE = true ↔ ∃ e ∈ h.entries, e.tag = IndexTag.RPMTAG_SOURCEPACKAGE := by
  simp [entryIsPresent, List.any_eq_true]

/-! ### non-vacuity -/
-- a 2-entry header (STRING "abc" at 0, INT32 [7] at 4): the getters return what is stored
def sampleHdr : Bytes := [142, 173, 232, 1, 1, 2, 3, 4, 0, 0, 0, 2, 0, 0, 0, 8, 0, 0, 3, 232, 0, 0, 0, 6, 0, 0, 0, 0,
  0, 0, 0, 1, 0, 0, 3, 233, 0, 0, 0, 4, 0, 0, 0, 4, 0, 0, 0, 1, 97, 98, 99, 0, 0, 0, 0, 7]
example : (parseHeader sampleHdr).isOk = true := by decide +kernel
example : (parseHeader sampleHdr >>= fun p => getString p.1 1000) = .ok [97, 98, 99] := by decide +kernel
example : (parseHeader sampleHdr >>= fun p => getU32 p.1 1001) = .ok 7 := by decide +kernel
example : (parseHeader sampleHdr >>= fun p => getU32 p.1 1000) = .err "wrongtype" := by decide +kernel
example : (parseHeader sampleHdr >>= fun p => getString p.1 1002) = .err "notfound" := by decide +kernel
example : filePathsFrom [[97], [98]] [1, 0] [[47], [47, 117, 47]] = .ok [[47, 117, 47, 97], [47, 98]] := by decide
example : filePathsFrom [[97]] [2] [[47]] = .err "index" := by decide

-- installed size: LONGSIZE wins; SIZE is used when LONGSIZE is absent or is not a non-empty INT64 array; neither → error
def hSize (es : List Entry) : Header := ⟨es.length, 0, es, []⟩
example : getInstalledSize (hSize [⟨IndexTag.RPMTAG_SIZE, .int32 [7], 0, 1⟩, ⟨IndexTag.RPMTAG_LONGSIZE, .int64 [5000000000], 0, 1⟩]) = .ok 5000000000 := by decide
example : getInstalledSize (hSize [⟨IndexTag.RPMTAG_SIZE, .int32 [7], 0, 1⟩]) = .ok 7 := by decide
example : getInstalledSize (hSize [⟨IndexTag.RPMTAG_LONGSIZE, .int32 [9], 0, 1⟩, ⟨IndexTag.RPMTAG_SIZE, .int32 [7], 0, 1⟩]) = .ok 7 := by decide
example : getInstalledSize (hSize [⟨IndexTag.RPMTAG_LONGSIZE, .int64 [], 0, 0⟩]) = .err "notfound" := by decide
-- compressor: "xz" is variant 3, "lzma" is no compressor name, no entry is `None`, an INT32 entry is a type error
example : getPayloadCompressorVariant (hSize [⟨IndexTag.RPMTAG_PAYLOADCOMPRESSOR, .str [120, 122], 0, 1⟩]) = .ok 3 := by decide
example : getPayloadCompressorVariant (hSize [⟨IndexTag.RPMTAG_PAYLOADCOMPRESSOR, .str [108, 122, 109, 97], 0, 1⟩]) = .err "unknown-compressor" := by decide
example : getPayloadCompressorVariant (hSize []) = .ok 0 := by decide
example : getPayloadCompressorVariant (hSize [⟨IndexTag.RPMTAG_PAYLOADCOMPRESSOR, .int32 [1], 0, 1⟩]) = .err "wrongtype" := by decide
-- source package: presence of the tag alone decides
example : entryIsPresent (hSize [⟨IndexTag.RPMTAG_SOURCEPACKAGE, .null, 0, 0⟩]) IndexTag.RPMTAG_SOURCEPACKAGE = true := by decide
example : entryIsPresent (hSize [⟨IndexTag.RPMTAG_SIZE, .int32 [1], 0, 1⟩]) IndexTag.RPMTAG_SOURCEPACKAGE = false := by decide

end RpmVerif.C05
