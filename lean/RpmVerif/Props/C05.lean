import RpmVerif.Lemmas.Decode
import RpmVerif.Model.Accessors
import RpmVerif.Gen.FileEntriesShape
import RpmVerif.Spec.ScriptletTags
import RpmVerif.Spec.RpmTagNames
import RpmVerif.Lemmas.PkgFiles  -- shares the auxiliary `buildEntries` match lemmas (two modules realising them independently cannot be imported together)
/-!
# C05 — metadata accessors return exactly what the header stores

`Stores store off cnt d` (Lemmas/Decode.lean) is the parser-independent reading of the header format:
the bytes at `off` are `cnt` big-endian integers / a NUL-terminated string / `cnt` NUL-separated
strings … and `d` is that value. The theorems: every entry of every parsed header holds exactly what
is stored at its offset; a typed getter returns the projection of the FIRST entry with the tag or an
error — never a made-up value; the list accessors zip / join in order; nothing panics.
-/
namespace RpmVerif.C05
open RpmVerif.Hdr RpmVerif.Acc RpmVerif.Gen

/-- the header bytes are intro ++ index records (in order) ++ store, and every decoded entry is what
the store holds at its offset -/
theorem parsed_entries_stored {bs h rest} (hp : parseHeader bs = .ok (h, rest)) :
    (∃ res : Bytes, res.length = 4 ∧ bs = hdrBytes res h ++ rest) ∧
    ∀ e ∈ h.entries, Stores h.store e.off e.cnt e.data := by
  obtain ⟨res, hr, hb, wf⟩ := parseHeader_ok hp
  exact ⟨⟨res, hr, hb⟩, fun e he => decode_stores (wf.dec e he)⟩

/-- a getter returns a value only if it is the projection of the first entry carrying the tag, and that
entry's data is what the store holds ("never a made-up value") -/
theorem getter_value_is_stored {α} {proj : IndexData → Option α} {bs h rest tag a}
    (hp : parseHeader bs = .ok (h, rest)) (hg : getWith proj h tag = .ok a) :
    ∃ e, h.entries.find? (fun e => e.tag == tag) = some e ∧ e.tag = tag ∧ proj e.data = some a ∧
      Stores h.store e.off e.cnt e.data := by
  obtain ⟨e, hf, hpj⟩ := getWith_eq_ok.mp hg
  have hm := List.mem_of_find?_eq_some hf
  have ht : e.tag = tag := by simpa using List.find?_some hf
  exact ⟨e, hf, ht, hpj, (parsed_entries_stored hp).2 e hm⟩

/-- absent tag → `TagNotFound` -/
theorem getter_absent {α} (proj : IndexData → Option α) {h : Header} {tag : Nat}
    (hn : ∀ e ∈ h.entries, e.tag ≠ tag) : getWith proj h tag = .err "notfound" := by
  unfold getWith findEntry
  have : h.entries.find? (fun e => e.tag == tag) = none := by
    rw [List.find?_eq_none]; intro e he; simpa using hn e he
  rw [this]; rfl

/-- first entry of another data type → `UnexpectedTagDataType` (later duplicates are never consulted) -/
theorem getter_wrong_type {α} (proj : IndexData → Option α) {h : Header} {tag : Nat} {e : Entry}
    (hf : h.entries.find? (fun e => e.tag == tag) = some e) (hp : proj e.data = none) :
    getWith proj h tag = .err "wrongtype" := by
  unfold getWith findEntry; rw [hf]; simp only [Out.bind_ok, hp]

/-- the result of every getter is a value or one of the two errors: never a panic -/
theorem getter_total {α} (proj : IndexData → Option α) (h : Header) (tag : Nat) :
    (getWith proj h tag).isPanic = false := getWith_not_panic proj h tag

/-! ### list accessors -/

/-- `get_file_paths`: item k is `dirs[dirindex[k]]` joined with `basenames[k]`; as many items as the
shorter of the two arrays -/
theorem filePaths_spec {bns : List Bytes} {idx : List Nat} {dirs : List Bytes} {ps : List Bytes}
    (h : filePathsFrom bns idx dirs = .ok ps) :
    ps.length = min bns.length idx.length ∧
    ∀ k (hk : k < ps.length), ∃ d, dirs[idx[k]!]? = some d ∧ ps[k] = pathJoin d bns[k]! := by
  induction bns generalizing idx ps with
  | nil => simp only [filePathsFrom, Out.ok.injEq] at h; subst h; simp
  | cons b bs ih =>
    cases idx with
    | nil => simp only [filePathsFrom, Out.ok.injEq] at h; subst h; simp
    | cons i is =>
      simp only [filePathsFrom] at h
      split at h
      · rename_i d hd
        simp only [Out.bind_eq_ok, Out.pure_eq, Out.ok.injEq] at h
        obtain ⟨r, hr, rfl⟩ := h
        obtain ⟨l1, l2⟩ := ih hr
        refine ⟨by simp [l1], ?_⟩
        intro k hk
        cases k with
        | zero => exact ⟨d, by simpa using hd, by simp⟩
        | succ k =>
          obtain ⟨d', h1, h2⟩ := l2 k (by simpa using hk)
          exact ⟨d', by simpa using h1, by simpa using h2⟩
      · cases h

/-- an out-of-range directory index is an error (`InvalidTagIndex`), never a guessed path -/
theorem filePaths_bad_index {bns : List Bytes} {idx : List Nat} {dirs : List Bytes}
    (hbad : ∃ k, k < min bns.length idx.length ∧ dirs.length ≤ idx[k]!) :
    filePathsFrom bns idx dirs = .err "index" := by
  obtain ⟨k, hk, hb⟩ := hbad
  induction bns generalizing idx k with
  | nil => simp at hk
  | cons b bs ih =>
    cases idx with
    | nil => simp at hk
    | cons i is =>
      simp only [filePathsFrom]
      cases k with
      | zero =>
        have : dirs[i]? = none := by simpa using hb
        rw [this]
      | succ k =>
        cases hd : dirs[i]? with
        | none => rfl
        | some d =>
          simp only
          rw [ih (k := k) (by simp at hk ⊢; omega) (by simpa using hb)]
          rfl

/-- for directory names ending in '/' and relative base names the join is plain concatenation
("directory[dirindex] + basename") -/
theorem pathJoin_concat {d b : Bytes} (hd : d.getLast? = some 47) (hb : b.head? ≠ some 47) :
    pathJoin d b = d ++ b := by
  simp [pathJoin, hb, hd]

/-- dependency lists are the three arrays zipped in order -/
theorem deps_zip {h : Header} {a b c : Nat} {ns vs : List Bytes} {fs : List Nat}
    (h1 : getStringArray h a = .ok ns) (h2 : getU32Array h b = .ok fs) (h3 : getStringArray h c = .ok vs) :
    getDependencies h a b c = .ok ((zip3 ns fs vs).map fun (n, f, v) => ⟨n, f, v⟩) := by
  simp [getDependencies, triple, h1, h2, h3, isNotFound]

/-- all three tags absent → the documented empty list -/
theorem deps_absent {h : Header} {a b c : Nat}
    (h1 : getStringArray h a = .err "notfound") (h2 : getU32Array h b = .err "notfound")
    (h3 : getStringArray h c = .err "notfound") : getDependencies h a b c = .ok [] := by
  simp [getDependencies, triple, h1, h2, h3, isNotFound]

/-- a missing / mistyped member of the triple → an error, not a partial list -/
theorem triple_err_of_member {α β γ δ} {a : Out α} {b : Out β} {c : Out γ} {f : α → β → γ → Out δ} {e : δ}
    (hnot : ¬ (isNotFound a && isNotFound b && isNotFound c) = true)
    (hbad : a.isErr = true ∨ b.isErr = true ∨ c.isErr = true)
    (hp : a.isPanic = false ∧ b.isPanic = false ∧ c.isPanic = false) :
    (triple a b c f e).isErr = true := by
  unfold triple
  rw [if_neg hnot]
  cases a <;> cases b <;> cases c <;> simp_all [Out.isErr, Out.isPanic, bind]

/-- the `unreachable!()` arms are unreachable: the list accessors never panic -/
theorem triple_total {α β γ δ} {a : Out α} {b : Out β} {c : Out γ} {f : α → β → γ → Out δ} {e : δ}
    (hp : a.isPanic = false ∧ b.isPanic = false ∧ c.isPanic = false) (hf : ∀ x y z, (f x y z).isPanic = false) :
    (triple a b c f e).isPanic = false := by
  unfold triple
  split
  · rfl
  · cases a <;> cases b <;> cases c <;> simp_all [Out.isPanic, bind]

theorem filePathsFrom_total (b : List Bytes) (i : List Nat) (d : List Bytes) : (filePathsFrom b i d).isPanic = false := by
  induction b generalizing i with
  | nil => rfl
  | cons x xs ih =>
    cases i with
    | nil => rfl
    | cons j js =>
      simp only [filePathsFrom]
      split
      · have := ih js
        cases hr : filePathsFrom xs js d <;> simp_all [Out.isPanic, bind]
      · rfl

theorem getFilePaths_total (h : Header) : (getFilePaths h).isPanic = false :=
  triple_total ⟨getWith_not_panic _ _ _, getWith_not_panic _ _ _, getWith_not_panic _ _ _⟩
    (fun b i d => filePathsFrom_total b i d)

theorem getDependencies_total (h : Header) (a b c : Nat) : (getDependencies h a b c).isPanic = false :=
  triple_total ⟨getWith_not_panic _ _ _, getWith_not_panic _ _ _, getWith_not_panic _ _ _⟩ (fun _ _ _ => rfl)

theorem getChangelog_total (h : Header) : (getChangelog h).isPanic = false :=
  triple_total ⟨getWith_not_panic _ _ _, getWith_not_panic _ _ _, getWith_not_panic _ _ _⟩ (fun _ _ _ => rfl)

/-! ### file digests: the lengths `FileDigest::new` accepts are the digests' real sizes

`Gen.fileDigestHexLen` is scraped from `impl FileDigest { fn new }` on every run (tools/gen/file_digest_len.py).
The specification side is the size of each algorithm's output, which is not the library's to choose. -/

/-- output size in bytes, by rpm's (= RFC 4880's) algorithm number: MD5, SHA-1, SHA-256, SHA-384, SHA-512, SHA-224 -/
def digestBytes : Nat → Option Nat
  | 1 => some 16 | 2 => some 20 | 8 => some 32 | 9 => some 48 | 10 => some 64 | 11 => some 28 | _ => none

/-- the table the specification uses: the same algorithms the code supports, each with its real hex length -/
def standardHexLen : List (Nat × Nat) := fileDigestHexLen.map fun p => (p.1, 2 * (digestBytes p.1).getD 0)

/-- **every length the code pairs with an algorithm is that algorithm's digest size in hex** (re-checked against the
source table on every run; with the pre-fix source `(11, 60)` this is false — `old_sha224_length_witness`) -/
theorem file_digest_lengths_standard : ∀ p ∈ fileDigestHexLen, digestBytes p.1 = some (p.2 / 2) ∧ p.2 % 2 = 0 := by
  decide

theorem code_table_is_standard : fileDigestHexLen = standardHexLen := by decide

/-- a file digest is accepted exactly when the source pairs its algorithm with its length … -/
theorem fileDigestNew_ok_iff (a : Nat) (hex : Bytes) (tbl : List (Nat × Nat)) :
    fileDigestNew a hex tbl = .ok (a, hex) ↔ (a, hex.length) ∈ tbl := by
  unfold fileDigestNew
  constructor
  · intro h
    split at h
    · rename_i hany
      obtain ⟨p, hp, hq⟩ := List.any_eq_true.mp hany
      simp only [Bool.and_eq_true, beq_iff_eq] at hq
      obtain ⟨h1, h2⟩ := hq
      have : p = (a, hex.length) := Prod.ext h1 h2
      rw [← this]; exact hp
    · cases h
  · intro h
    rw [if_pos]
    exact List.any_eq_true.mpr ⟨_, h, by simp⟩

/-- … hence, with the current source, exactly when the text is a whole digest of a supported algorithm -/
theorem fileDigestNew_accepts_real_digests (a : Nat) (hex : Bytes) (h : fileDigestNew a hex = .ok (a, hex)) :
    digestBytes a = some (hex.length / 2) ∧ hex.length % 2 = 0 :=
  file_digest_lengths_standard _ ((fileDigestNew_ok_iff a hex _).mp h)

theorem fileDigestNew_never_invents (a : Nat) (hex : Bytes) (tbl : List (Nat × Nat)) (v : Nat × Bytes)
    (h : fileDigestNew a hex tbl = .ok v) : v = (a, hex) := by
  unfold fileDigestNew at h
  split at h
  · cases h; rfl
  · cases h

/-- **Documented negative (the source before the fix).** SHA-224 was paired with 60 hex characters: a real SHA-224
digest (28 bytes = 56 characters) made `get_file_entries` fail with `UnsupportedDigestAlgorithm`, while 60 characters of
anything were accepted. -/
theorem old_sha224_length_witness :
    let old : List (Nat × Nat) := [(1, 32), (8, 64), (11, 60), (9, 96), (10, 128)]
    fileDigestNew 11 (List.replicate 56 48) old = .err "unsupported"
      ∧ fileDigestNew 11 (List.replicate 60 48) old = .ok (11, List.replicate 60 48)
      ∧ digestBytes 11 = some 28
      ∧ fileDigestNew 11 (List.replicate 56 48) = .ok (11, List.replicate 56 48) := by
  decide

/-! ### accessors composed of getters: `get_installed_size`, `get_payload_compressor`, `is_source_package` -/

/-- `get_installed_size`: when the first RPMTAG_LONGSIZE entry is a non-empty INT64 array the result is its first element;
in EVERY other case (tag absent, other type, empty array) the result is exactly what the 32-bit RPMTAG_SIZE getter gives,
value or error -/
theorem installed_size_spec (h : Header) :
    (∀ v, getU64 h IndexTag.RPMTAG_LONGSIZE = .ok v → getInstalledSize h = .ok v)
    ∧ ((∀ v, getU64 h IndexTag.RPMTAG_LONGSIZE ≠ .ok v) → getInstalledSize h = getU32 h IndexTag.RPMTAG_SIZE) := by
  constructor
  · intro v hv; simp only [getInstalledSize, hv]
  · intro hn
    unfold getInstalledSize
    split
    · rename_i v hv; exact absurd hv (hn v)
    · rfl

/-- … and the value it returns for a parsed header is stored under one of the two tags: the first LONGSIZE entry's first
64-bit integer, or (only if that getter fails) the first SIZE entry's first 32-bit integer -/
theorem installed_size_is_stored {bs h rest v} (hp : parseHeader bs = .ok (h, rest)) (hg : getInstalledSize h = .ok v) :
    ∃ e, Stores h.store e.off e.cnt e.data ∧
      ((h.entries.find? (fun e => e.tag == IndexTag.RPMTAG_LONGSIZE) = some e ∧ e.data.asU64 = some v) ∨
       ((∀ w, getU64 h IndexTag.RPMTAG_LONGSIZE ≠ .ok w) ∧
        h.entries.find? (fun e => e.tag == IndexTag.RPMTAG_SIZE) = some e ∧ e.data.asU32 = some v)) := by
  by_cases hex : ∃ w, getU64 h IndexTag.RPMTAG_LONGSIZE = .ok w
  · obtain ⟨w, h64⟩ := hex
    have := (installed_size_spec h).1 w h64
    rw [hg] at this
    cases this
    obtain ⟨e, hf, _, hpj, hs⟩ := getter_value_is_stored hp h64
    exact ⟨e, hs, .inl ⟨hf, hpj⟩⟩
  · have hn : ∀ w, getU64 h IndexTag.RPMTAG_LONGSIZE ≠ .ok w := fun w hw => hex ⟨w, hw⟩
    have h32 := (installed_size_spec h).2 hn
    rw [hg] at h32
    obtain ⟨e, hf, _, hpj, hs⟩ := getter_value_is_stored hp h32.symm
    exact ⟨e, hs, .inr ⟨hn, hf, hpj⟩⟩

theorem lookup_some_mem {α β} [BEq α] [LawfulBEq α] {l : List (α × β)} {k : α} {v : β}
    (h : l.lookup k = some v) : (k, v) ∈ l := by
  induction l with
  | nil => cases h
  | cons p r ih =>
    obtain ⟨a, b⟩ := p
    simp only [List.lookup] at h
    split at h
    · rename_i he
      have : k = a := by simpa using he
      cases h; subst this; exact List.mem_cons_self
    · exact List.mem_cons_of_mem _ (ih h)

theorem lookup_none_iff {α β} [BEq α] [LawfulBEq α] {l : List (α × β)} {k : α} :
    l.lookup k = none ↔ k ∉ l.map (·.1) := by
  induction l with
  | nil => simp [List.lookup]
  | cons p r ih =>
    obtain ⟨a, b⟩ := p
    simp only [List.lookup]
    split
    · rename_i he
      have : k = a := by simpa using he
      simp [this]
    · rename_i he
      have : ¬ k = a := by simpa using he
      simp [ih, this]

/-- the names `impl FromStr for CompressionType` accepts are ASCII, so comparing the UTF-8 bytes of the stored text with
the table's code points is comparing the strings (the assumption under `getPayloadCompressorVariant`; re-checked on every run) -/
theorem compression_names_ascii : ∀ p ∈ compressionFromStr, ∀ c ∈ p.1, c < 128 := by decide

/-- no RPMTAG_PAYLOADCOMPRESSOR entry at all → `CompressionType::None` (whose name is "none"), not an error -/
theorem compressor_absent_is_none {h : Header} (hn : ∀ e ∈ h.entries, e.tag ≠ IndexTag.RPMTAG_PAYLOADCOMPRESSOR) :
    getPayloadCompressorVariant h = .ok payloadCompressorDefault
    ∧ Compression.toStr payloadCompressorDefault = [110, 111, 110, 101]
    ∧ compressionVariants[payloadCompressorDefault]? = some "None" := by
  refine ⟨?_, by decide, by decide⟩
  unfold getPayloadCompressorVariant
  have := getter_absent IndexData.asStr hn
  unfold getString
  rw [this]
  rfl

/-- a stored compressor text `s` gives a compression type exactly when `s` is one of the names in the source's
`from_str` table, and then it is the variant that table pairs with the FIRST arm matching `s` (whose printed name is `s`
again by C15's `compression_roundtrip`); every other text is `UnknownCompressorType` — never a default -/
theorem compressor_known_iff {h : Header} {s : Bytes} (hs : getString h IndexTag.RPMTAG_PAYLOADCOMPRESSOR = .ok s) :
    getPayloadCompressorVariant h = Compression.fromStr (s.map UInt8.toNat)
    ∧ (∀ v, getPayloadCompressorVariant h = .ok v ↔ compressionFromStr.lookup (s.map UInt8.toNat) = some v)
    ∧ (∀ v, getPayloadCompressorVariant h = .ok v → (s.map UInt8.toNat, v) ∈ compressionFromStr)
    ∧ ((∃ v, getPayloadCompressorVariant h = .ok v) ↔ s.map UInt8.toNat ∈ compressionFromStr.map (·.1))
    ∧ (s.map UInt8.toNat ∉ compressionFromStr.map (·.1) → getPayloadCompressorVariant h = .err "unknown-compressor") := by
  have e : getPayloadCompressorVariant h = Compression.fromStr (s.map UInt8.toNat) := by
    unfold getPayloadCompressorVariant; rw [hs]
  have hiff : ∀ v, getPayloadCompressorVariant h = .ok v ↔ compressionFromStr.lookup (s.map UInt8.toNat) = some v := by
    intro v
    rw [e]; unfold Compression.fromStr
    cases hl : compressionFromStr.lookup (s.map UInt8.toNat) with
    | none => simp
    | some w => simp
  refine ⟨e, hiff, fun v hv => lookup_some_mem ((hiff v).mp hv), ?_, ?_⟩
  · constructor
    · intro ⟨v, hv⟩
      exact List.mem_map.mpr ⟨_, lookup_some_mem ((hiff v).mp hv), rfl⟩
    · intro hm
      cases hl : compressionFromStr.lookup (s.map UInt8.toNat) with
      | none => exact absurd hm (lookup_none_iff.mp hl)
      | some w => exact ⟨w, (hiff w).mpr hl⟩
  · intro hnm
    rw [e]; unfold Compression.fromStr
    rw [lookup_none_iff.mpr hnm]

/-- `is_source_package` is true exactly when SOME entry carries RPMTAG_SOURCEPACKAGE — whatever its type, count or data -/
theorem source_iff_tag_present (h : Header) :
    entryIsPresent h IndexTag.RPMTAG_SOURCEPACKAGE = true ↔ ∃ e ∈ h.entries, e.tag = IndexTag.RPMTAG_SOURCEPACKAGE := by
  simp [entryIsPresent, List.any_eq_true]

/-! ### clause theorems for the composed accessors (AUDIT2 c13 - c15)

What "zipped in order", "assembled … with their per-file attributes" and "the documented empty list" mean, stated on
the arrays the getters return: lengths, k-th items, which tag wins, which fallback is taken. -/

/-- `multizip` of three arrays, completely characterised: item k exists exactly when all three arrays have an item k,
and is the triple of those items -/
theorem zip3_getElem? {α β γ} (as : List α) (bs : List β) (cs : List γ) (k : Nat) :
    (zip3 as bs cs)[k]? = (as[k]?).bind fun a => (bs[k]?).bind fun b => (cs[k]?).map fun c => (a, b, c) := by
  induction as generalizing bs cs k with
  | nil => simp [zip3]
  | cons a as ih =>
    cases bs with
    | nil => cases k <;> simp [zip3]
    | cons b bs =>
      cases cs with
      | nil =>
        cases k with
        | zero => simp [zip3]
        | succ k => simp only [zip3, List.getElem?_nil, List.getElem?_cons_succ, Option.map_none]
                    cases as[k]? <;> cases bs[k]? <;> rfl
      | cons c cs =>
        cases k with
        | zero => simp [zip3]
        | succ k => simp only [zip3, List.getElem?_cons_succ, ih]

theorem zip3_length {α β γ} (as : List α) (bs : List β) (cs : List γ) :
    (zip3 as bs cs).length = min as.length (min bs.length cs.length) := by
  induction as generalizing bs cs with
  | nil => simp [zip3]
  | cons a as ih =>
    cases bs with
    | nil => simp [zip3]
    | cons b bs =>
      cases cs with
      | nil => simp [zip3]
      | cons c cs => simp only [zip3, List.length_cons, ih]; omega

theorem isNotFound_iff {α} (o : Out α) : isNotFound o = true ↔ o = .err "notfound" := by
  unfold isNotFound
  split
  · simp
  · rename_i hne
    constructor
    · intro h; cases h
    · intro h; exact absurd h (by intro h'; exact hne h')

/-- "zipped in order": item k of a zipped list exists iff all three arrays have an item k and consists of exactly those -/
theorem zip3_spec {α β γ} (as : List α) (bs : List β) (cs : List γ) :
    (zip3 as bs cs).length = min as.length (min bs.length cs.length) ∧
    ∀ k (hk : k < (zip3 as bs cs).length),
      ∃ (ha : k < as.length) (hb : k < bs.length) (hc : k < cs.length), (zip3 as bs cs)[k] = (as[k], bs[k], cs[k]) := by
  refine ⟨zip3_length as bs cs, fun k hk => ?_⟩
  have hl := zip3_length as bs cs
  have ha : k < as.length := by omega
  have hb : k < bs.length := by omega
  have hc : k < cs.length := by omega
  refine ⟨ha, hb, hc, ?_⟩
  have := zip3_getElem? as bs cs k
  rw [List.getElem?_eq_getElem hk, List.getElem?_eq_getElem ha, List.getElem?_eq_getElem hb, List.getElem?_eq_getElem hc] at this
  simpa using this

/-- dependency k is (names[k], flags[k], versions[k]); as many as the shortest array -/
theorem deps_kth {h : Header} {a b c : Nat} {ns vs : List Bytes} {fs : List Nat} {r : List Dependency}
    (h1 : getStringArray h a = .ok ns) (h2 : getU32Array h b = .ok fs) (h3 : getStringArray h c = .ok vs)
    (hr : getDependencies h a b c = .ok r) :
    r.length = min ns.length (min fs.length vs.length) ∧
    ∀ k (hk : k < r.length), ∃ (ha : k < ns.length) (hb : k < fs.length) (hc : k < vs.length),
      r[k] = ⟨ns[k], fs[k], vs[k]⟩ := by
  rw [deps_zip h1 h2 h3] at hr
  cases hr
  obtain ⟨l, hk⟩ := zip3_spec ns fs vs
  refine ⟨by simp [l], fun k hk' => ?_⟩
  have hk'' : k < (zip3 ns fs vs).length := by simpa using hk'
  obtain ⟨ha, hb, hc, e⟩ := hk k hk''
  exact ⟨ha, hb, hc, by simp [e]⟩

/-- changelog entries are the three arrays (names, times, texts) zipped in order -/
theorem changelog_zip {h : Header} {ns ds : List Bytes} {ts : List Nat}
    (h1 : getStringArray h IndexTag.RPMTAG_CHANGELOGNAME = .ok ns) (h2 : getU32Array h IndexTag.RPMTAG_CHANGELOGTIME = .ok ts)
    (h3 : getStringArray h IndexTag.RPMTAG_CHANGELOGTEXT = .ok ds) :
    getChangelog h = .ok ((zip3 ns ts ds).map fun (n, t, d) => ⟨n, t, d⟩) := by
  simp [getChangelog, triple, h1, h2, h3, isNotFound]

theorem changelog_kth {h : Header} {ns ds : List Bytes} {ts : List Nat} {r : List Changelog}
    (h1 : getStringArray h IndexTag.RPMTAG_CHANGELOGNAME = .ok ns) (h2 : getU32Array h IndexTag.RPMTAG_CHANGELOGTIME = .ok ts)
    (h3 : getStringArray h IndexTag.RPMTAG_CHANGELOGTEXT = .ok ds) (hr : getChangelog h = .ok r) :
    r.length = min ns.length (min ts.length ds.length) ∧
    ∀ k (hk : k < r.length), ∃ (ha : k < ns.length) (hb : k < ts.length) (hc : k < ds.length),
      r[k] = ⟨ns[k], ts[k], ds[k]⟩ := by
  rw [changelog_zip h1 h2 h3] at hr
  cases hr
  obtain ⟨l, hk⟩ := zip3_spec ns ts ds
  refine ⟨by simp [l], fun k hk' => ?_⟩
  have hk'' : k < (zip3 ns ts ds).length := by simpa using hk'
  obtain ⟨ha, hb, hc, e⟩ := hk k hk''
  exact ⟨ha, hb, hc, by simp [e]⟩

theorem changelog_absent {h : Header}
    (h1 : getStringArray h IndexTag.RPMTAG_CHANGELOGNAME = .err "notfound")
    (h2 : getU32Array h IndexTag.RPMTAG_CHANGELOGTIME = .err "notfound")
    (h3 : getStringArray h IndexTag.RPMTAG_CHANGELOGTEXT = .err "notfound") : getChangelog h = .ok [] := by
  simp [getChangelog, triple, h1, h2, h3, isNotFound]

/-- a result of `get_changelog_entries` is either the documented empty list (all three tags absent) or the zip of
three successfully read arrays - there is no third way to obtain `Ok` -/
theorem changelog_ok_cases {h : Header} {r : List Changelog} (hr : getChangelog h = .ok r) :
    (r = [] ∧ getStringArray h IndexTag.RPMTAG_CHANGELOGNAME = .err "notfound"
        ∧ getU32Array h IndexTag.RPMTAG_CHANGELOGTIME = .err "notfound"
        ∧ getStringArray h IndexTag.RPMTAG_CHANGELOGTEXT = .err "notfound") ∨
    ∃ ns ts ds, getStringArray h IndexTag.RPMTAG_CHANGELOGNAME = .ok ns ∧ getU32Array h IndexTag.RPMTAG_CHANGELOGTIME = .ok ts ∧
      getStringArray h IndexTag.RPMTAG_CHANGELOGTEXT = .ok ds ∧ r = (zip3 ns ts ds).map fun (n, t, d) => ⟨n, t, d⟩ := by
  unfold getChangelog triple at hr
  split at hr
  · rename_i hnf
    simp only [Bool.and_eq_true] at hnf
    cases hr
    exact .inl ⟨rfl, (isNotFound_iff _).mp hnf.1.1, (isNotFound_iff _).mp hnf.1.2, (isNotFound_iff _).mp hnf.2⟩
  · split at hr
    · rename_i ns ts ds e1 e2 e3
      cases hr
      exact .inr ⟨ns, ts, ds, e1, e2, e3, rfl⟩
    · simp only [Out.bind_eq_ok] at hr
      obtain ⟨_, _, _, _, _, _, hp⟩ := hr
      cases hp

/-- `get_scriptlet`: the script text decides between value and error (its getter's error is the result); the flags are
`Some(v)` exactly when the 32-bit getter succeeds on the flags tag and `None` in EVERY other case (tag absent, other
type, empty array: `.ok()` swallows the error); the interpreter likewise for the string-array getter -/
theorem scriptlet_spec (h : Header) (a b c : Nat) :
    (∀ s, getString h a = .ok s →
        getScriptlet h (a, b, c) = .ok ⟨s, (getU32 h b).toOption, (getStringArray h c).toOption⟩) ∧
    (∀ cls, getString h a = .err cls → getScriptlet h (a, b, c) = .err cls) ∧
    (∀ sc, getScriptlet h (a, b, c) = .ok sc →
        getString h a = .ok sc.script ∧
        (∀ f, sc.flags = some f ↔ getU32 h b = .ok f) ∧
        (∀ p, sc.prog = some p ↔ getStringArray h c = .ok p)) := by
  refine ⟨fun s hs => by simp [getScriptlet, hs], fun cls hc => by simp [getScriptlet, hc], ?_⟩
  intro sc hsc
  simp only [getScriptlet, Out.bind_eq_ok, Out.pure_eq, Out.ok.injEq] at hsc
  obtain ⟨s, hs, rfl⟩ := hsc
  refine ⟨hs, fun f => ?_, fun p => ?_⟩
  · cases getU32 h b <;> simp [Out.toOption]
  · cases getStringArray h c <;> simp [Out.toOption]

/-- `if digest.is_empty() { None } else { Some(FileDigest { algorithm, digest }) }` without the length check: what the
entry's digest field must be IF the entry is produced -/
def digestField (algo : Nat) (d : Bytes) : Option (Nat × Bytes) := if d.isEmpty then none else some (algo, d)

/-- **specification of one file entry**: item `k` of the result is assembled from item `k` of EVERY per-file array
(paths, users, groups, modes, digests, mtimes, sizes, flags, link targets) and exists only if all nine have an item `k`;
capabilities and IMA signatures are optional arrays looked up BY INDEX (`off + k`; a short array gives `None`). -/
def entryAt (algo : Nat) (caps ima : Option (List Bytes)) (off : Nat) (ps us gs : List Bytes) (ms : List Nat)
    (ds : List Bytes) (ts ss fs : List Nat) (ls : List Bytes) (k : Nat) : Option FileEntry := do
  let p ← ps[k]?; let u ← us[k]?; let g ← gs[k]?; let m ← ms[k]?; let d ← ds[k]?
  let t ← ts[k]?; let s ← ss[k]?; let f ← fs[k]?; let l ← ls[k]?
  pure ⟨p, m, u, g, t, s, f, digestField algo d, caps.bind (·[off + k]?), l, ima.bind (·[off + k]?)⟩

theorem cons_of_getElem? {α} {l : List α} {k : Nat} {a : α} (h : l[k]? = some a) : ∃ x xs, l = x :: xs := by
  cases l with
  | nil => simp at h
  | cons x xs => exact ⟨x, xs, rfl⟩

theorem digestOf_ok {algo : Nat} {d : Bytes} {tbl : List (Nat × Nat)} {o : Option (Nat × Bytes)}
    (h : digestOf algo d tbl = .ok o) : o = digestField algo d ∧ (d ≠ [] → (algo, d.length) ∈ tbl) := by
  unfold digestOf at h
  unfold digestField
  split at h
  · rename_i he
    cases h
    exact ⟨by simp [he], fun hne => absurd (List.isEmpty_iff.mp he) hne⟩
  · cases hn : fileDigestNew algo d tbl with
    | ok v =>
      rw [hn] at h
      simp only [Out.map, Out.ok.injEq] at h
      have hv := fileDigestNew_never_invents algo d tbl v hn
      subst hv; subst h
      rename_i he
      exact ⟨by simp [he], fun _ => (fileDigestNew_ok_iff algo d tbl).mp hn⟩
    | err c => rw [hn] at h; cases h
    | panic c => rw [hn] at h; cases h

theorem buildEntries_spec {algo : Nat} {caps ima : Option (List Bytes)} {tbl : List (Nat × Nat)} {idx : Nat}
    {ps us gs : List Bytes} {ms : List Nat} {ds : List Bytes} {ts ss fs : List Nat} {ls : List Bytes} {r : List FileEntry}
    (h : buildEntries algo caps ima tbl idx ps us gs ms ds ts ss fs ls = .ok r) :
    (∀ k, r[k]? = entryAt algo caps ima idx ps us gs ms ds ts ss fs ls k) ∧
    (∀ k d, k < r.length → ds[k]? = some d → d ≠ [] → (algo, d.length) ∈ tbl) := by
  fun_induction buildEntries algo caps ima tbl idx ps us gs ms ds ts ss fs ls generalizing r with
  | case1 idx p ps u us g gs m ms d ds t ts s ss f fs l ls ih =>
    simp only [Out.bind_eq_ok, Out.pure_eq, Out.ok.injEq] at h
    obtain ⟨dg, hdg, r', hr', rfl⟩ := h
    obtain ⟨ih1, ih2⟩ := ih hr'
    obtain ⟨rfl, hmem⟩ := digestOf_ok hdg
    constructor
    · intro k
      cases k with
      | zero => simp [entryAt]
      | succ k =>
        rw [List.getElem?_cons_succ, ih1 k]
        simp only [entryAt, List.getElem?_cons_succ]
        have : idx + 1 + k = idx + (k + 1) := by omega
        rw [this]
    · intro k d' hk hd' hne
      cases k with
      | zero =>
        simp only [List.getElem?_cons_zero, Option.some.injEq] at hd'
        subst hd'; exact hmem hne
      | succ k => exact ih2 k d' (by simpa using hk) (by simpa using hd') hne
  | case2 =>
    cases h
    refine ⟨?_, fun k d hk => absurd hk (by simp)⟩
    intro k
    rename_i hno
    cases hk : entryAt algo caps ima _ _ _ _ _ _ _ _ _ _ k with
    | none => simp
    | some e =>
      exfalso
      simp only [entryAt, Option.bind_eq_bind, Option.bind_eq_some_iff] at hk
      obtain ⟨p, hp, u, hu, g, hg, m, hm, d, hd, t, ht, s, hs, f, hf, l, hl, -⟩ := hk
      obtain ⟨_, _, e1⟩ := cons_of_getElem? hp
      obtain ⟨_, _, e2⟩ := cons_of_getElem? hu
      obtain ⟨_, _, e3⟩ := cons_of_getElem? hg
      obtain ⟨_, _, e4⟩ := cons_of_getElem? hm
      obtain ⟨_, _, e5⟩ := cons_of_getElem? hd
      obtain ⟨_, _, e6⟩ := cons_of_getElem? ht
      obtain ⟨_, _, e7⟩ := cons_of_getElem? hs
      obtain ⟨_, _, e8⟩ := cons_of_getElem? hf
      obtain ⟨_, _, e9⟩ := cons_of_getElem? hl
      exact hno _ _ _ _ _ _ _ _ _ _ _ _ _ _ _ _ _ _ e1 e2 e3 e4 e5 e6 e7 e8 e9

theorem entryAt_isSome_iff (algo : Nat) (caps ima : Option (List Bytes)) (off : Nat) (ps us gs : List Bytes) (ms : List Nat)
    (ds : List Bytes) (ts ss fs : List Nat) (ls : List Bytes) (k : Nat) :
    (entryAt algo caps ima off ps us gs ms ds ts ss fs ls k).isSome = true ↔
      k < ps.length ∧ k < us.length ∧ k < gs.length ∧ k < ms.length ∧ k < ds.length ∧ k < ts.length ∧ k < ss.length ∧
      k < fs.length ∧ k < ls.length := by
  simp only [entryAt, Option.bind_eq_bind, Option.isSome_iff_exists, Option.bind_eq_some_iff, List.getElem?_eq_some_iff]
  constructor
  · rintro ⟨e, p, ⟨h1, -⟩, u, ⟨h2, -⟩, g, ⟨h3, -⟩, m, ⟨h4, -⟩, d, ⟨h5, -⟩, t, ⟨h6, -⟩, s, ⟨h7, -⟩, f, ⟨h8, -⟩, l, ⟨h9, -⟩, -⟩
    exact ⟨h1, h2, h3, h4, h5, h6, h7, h8, h9⟩
  · rintro ⟨h1, h2, h3, h4, h5, h6, h7, h8, h9⟩
    exact ⟨_, _, ⟨h1, rfl⟩, _, ⟨h2, rfl⟩, _, ⟨h3, rfl⟩, _, ⟨h4, rfl⟩, _, ⟨h5, rfl⟩, _, ⟨h6, rfl⟩, _, ⟨h7, rfl⟩, _, ⟨h8, rfl⟩, _, ⟨h9, rfl⟩, rfl⟩

theorem length_of_isSome_iff {α} (r : List α) (n : Nat) (h : ∀ k, (r[k]?).isSome = true ↔ k < n) : r.length = n := by
  apply Nat.le_antisymm
  · cases hr : r.length with
    | zero => omega
    | succ j =>
      have := (h j).mp (by rw [Option.isSome_iff_exists]; exact ⟨r[j], List.getElem?_eq_getElem (by omega)⟩)
      omega
  · apply Nat.le_of_not_lt
    intro hlt
    have := (h r.length).mpr hlt
    simp at this

/-- the number of entries is the length of the SHORTEST of the nine per-file arrays -/
theorem entries_length {algo : Nat} {caps ima : Option (List Bytes)} {off : Nat} {ps us gs : List Bytes} {ms : List Nat}
    {ds : List Bytes} {ts ss fs : List Nat} {ls : List Bytes} {r : List FileEntry}
    (h : ∀ k, r[k]? = entryAt algo caps ima off ps us gs ms ds ts ss fs ls k) :
    r.length = min ps.length (min us.length (min gs.length (min ms.length (min ds.length (min ts.length
      (min ss.length (min fs.length ls.length))))))) := by
  apply length_of_isSome_iff
  intro k
  rw [h k, entryAt_isSome_iff]
  simp only [Nat.lt_min]

/-- the algorithm `get_file_entries` labels every digest with: `get_file_digest_algorithm().unwrap_or(Md5)` -/
def digestAlgoOrMd5 (h : Header) : Nat := match getFileDigestAlgorithm h with | .ok a => a | _ => 1

/-- where the sizes come from: the 64-bit array RPMTAG_LONGFILESIZES whenever its getter succeeds; the 32-bit
RPMTAG_FILESIZES only when that getter fails (tag absent or of another type) -/
def SizesFrom (h : Header) (ss : List Nat) : Prop :=
  getU64Array h IndexTag.RPMTAG_LONGFILESIZES = .ok ss ∨
  ((∀ v, getU64Array h IndexTag.RPMTAG_LONGFILESIZES ≠ .ok v) ∧ getU32Array h IndexTag.RPMTAG_FILESIZES = .ok ss)

/-- **`get_file_entries`, value clause.** Whenever it answers `Ok(r)`: either RPMTAG_FILEMODES is absent and `r` is the
documented empty list, or all eight mandatory arrays and `get_file_paths` were read successfully and

* `r` has as many entries as the SHORTEST of the nine arrays (longer arrays are silently cut - stated, not hidden);
* entry `k` consists of item `k` of each array (`entryAt`, `entryAt_fields`): path `k` (= `dirs[dirindex[k]]` joined
  with `basenames[k]`, `filePaths_spec`), mode, user, group, mtime, size, flags, link target;
* the size array is LONGFILESIZES when that getter succeeds, FILESIZES otherwise (`SizesFrom`);
* capabilities / IMA signatures: `None` when the tag is absent (`optStrings_ok_iff`), else item `k` of the array BY INDEX,
  `None` beyond its end;
* digest `k` is `None` for an empty text, otherwise (algorithm, text) where the algorithm is FILEDIGESTALGO or - when that
  accessor fails for ANY reason (absent, other type, unknown number) - MD5 (`digest_algo_fallback`), and the pair
  (algorithm, length of the text) is in the table of `FileDigest::new` (`file_digest_lengths_standard`: the real sizes). -/
theorem fileEntries_spec {sig h : Header} {tbl : List (Nat × Nat)} {r : List FileEntry}
    (hr : getFileEntries sig h tbl = .ok r) :
    (getU16Array h IndexTag.RPMTAG_FILEMODES = .err "notfound" ∧ r = []) ∨
    ∃ ms us gs ds ts ss fs ls ps caps ima,
      getU16Array h IndexTag.RPMTAG_FILEMODES = .ok ms ∧
      getStringArray h IndexTag.RPMTAG_FILEUSERNAME = .ok us ∧
      getStringArray h IndexTag.RPMTAG_FILEGROUPNAME = .ok gs ∧
      getStringArray h IndexTag.RPMTAG_FILEDIGESTS = .ok ds ∧
      getU32Array h IndexTag.RPMTAG_FILEMTIMES = .ok ts ∧
      SizesFrom h ss ∧
      getU32Array h IndexTag.RPMTAG_FILEFLAGS = .ok fs ∧
      getStringArray h IndexTag.RPMTAG_FILELINKTOS = .ok ls ∧
      getFilePaths h = .ok ps ∧
      optStrings (getStringArray h IndexTag.RPMTAG_FILECAPS) = .ok caps ∧
      optStrings (getStringArray sig SigTag.RPMSIGTAG_FILESIGNATURES) = .ok ima ∧
      (∀ k, r[k]? = entryAt (digestAlgoOrMd5 h) caps ima 0 ps us gs ms ds ts ss fs ls k) ∧
      r.length = min ps.length (min us.length (min gs.length (min ms.length (min ds.length (min ts.length
        (min ss.length (min fs.length ls.length))))))) ∧
      (∀ k d, k < r.length → ds[k]? = some d → d ≠ [] → (digestAlgoOrMd5 h, d.length) ∈ tbl) := by
  unfold getFileEntries at hr
  simp only at hr
  split at hr
  · rename_i hnf
    cases hr
    exact .inl ⟨(isNotFound_iff _).mp hnf, rfl⟩
  · right
    split at hr
    · cases hr
    · cases hr
    · rename_i caps hcaps
      split at hr
      · cases hr
      · cases hr
      · rename_i ima hima
        split at hr
        · rename_i ms us gs ds ts ss fs ls hms hus hgs hds hts hss hfs hls
          simp only [Out.bind_eq_ok] at hr
          obtain ⟨ps, hps, hb⟩ := hr
          obtain ⟨b1, b2⟩ := buildEntries_spec hb
          refine ⟨ms, us, gs, ds, ts, ss, fs, ls, ps, caps, ima, hms, hus, hgs, hds, hts, ?_, hfs, hls, hps, hcaps, hima, b1, entries_length b1, b2⟩
          unfold SizesFrom
          cases h64 : getU64Array h IndexTag.RPMTAG_LONGFILESIZES with
          | ok v => rw [h64] at hss; cases hss; exact .inl rfl
          | err c => rw [h64] at hss; exact .inr ⟨(fun v hv => nomatch hv), hss⟩
          | panic c => rw [h64] at hss; exact .inr ⟨(fun v hv => nomatch hv), hss⟩
        · simp only [Out.bind_eq_ok] at hr
          obtain ⟨_, _, _, _, _, _, _, _, _, _, _, _, _, _, _, _, hp⟩ := hr
          cases hp

theorem entryAt_fields {algo : Nat} {caps ima : Option (List Bytes)} {off : Nat} {ps us gs : List Bytes} {ms : List Nat}
    {ds : List Bytes} {ts ss fs : List Nat} {ls : List Bytes} {k : Nat} {e : FileEntry}
    (h : entryAt algo caps ima off ps us gs ms ds ts ss fs ls k = some e) :
    ps[k]? = some e.path ∧ ms[k]? = some e.mode ∧ us[k]? = some e.user ∧ gs[k]? = some e.group ∧
    ts[k]? = some e.mtime ∧ ss[k]? = some e.size ∧ fs[k]? = some e.flags ∧ ls[k]? = some e.linkto ∧
    (∃ d, ds[k]? = some d ∧ e.digest = digestField algo d) ∧
    e.caps = caps.bind (·[off + k]?) ∧ e.ima = ima.bind (·[off + k]?) := by
  simp only [entryAt, Option.bind_eq_bind, Option.bind_eq_some_iff] at h
  obtain ⟨p, hp, u, hu, g, hg, m, hm, d, hd, t, ht, s, hs, f, hf, l, hl, he⟩ := h
  simp only [Option.pure_def, Option.some.injEq] at he
  subst he
  exact ⟨hp, hm, hu, hg, ht, hs, hf, hl, ⟨d, hd, rfl⟩, rfl, rfl⟩


/-- the optional arrays: `Some(array)` when the getter succeeds, `None` exactly for TagNotFound; any other error is the
accessor's error -/
theorem optStrings_ok_iff (g : Out (List Bytes)) (o : Option (List Bytes)) :
    optStrings g = .ok o ↔ (∃ l, g = .ok l ∧ o = some l) ∨ (g = .err "notfound" ∧ o = none) := by
  unfold optStrings
  split
  · rename_i l
    constructor
    · intro h; cases h; exact .inl ⟨l, rfl, rfl⟩
    · rintro (⟨l', h1, h2⟩ | ⟨h1, _⟩)
      · cases h1; rw [h2]
      · cases h1
  · constructor
    · intro h; cases h; exact .inr ⟨rfl, rfl⟩
    · rintro (⟨l', h1, _⟩ | ⟨_, h2⟩)
      · cases h1
      · rw [h2]
  · rename_i c hc
    constructor
    · intro h; cases h
    · rintro (⟨l', h1, _⟩ | ⟨h1, _⟩)
      · cases h1
      · cases h1; exact absurd rfl hc
  · constructor
    · intro h; cases h
    · rintro (⟨l', h1, _⟩ | ⟨h1, _⟩) <;> cases h1

/-- `get_file_digest_algorithm` succeeds exactly when the first FILEDIGESTALGO entry is a non-empty INT32 array whose
first number is a discriminant of `DigestAlgorithm` (table scraped from src/constants.rs) -/
theorem fileDigestAlgorithm_ok_iff (h : Header) (a : Nat) :
    getFileDigestAlgorithm h = .ok a ↔
      getU32 h IndexTag.RPMTAG_FILEDIGESTALGO = .ok a ∧ a ∈ digestAlgoTable.map (·.2) := by
  unfold getFileDigestAlgorithm
  cases hg : getU32 h IndexTag.RPMTAG_FILEDIGESTALGO with
  | ok x =>
    simp only [Out.bind_ok, Out.ok.injEq]
    by_cases hx : digestAlgoTable.any (·.2 == x) = true
    · rw [if_pos hx]
      simp only [Out.pure_eq, Out.ok.injEq]
      constructor
      · rintro rfl
        obtain ⟨p, hp, he⟩ := List.any_eq_true.mp hx
        exact ⟨rfl, List.mem_map.mpr ⟨p, hp, by simpa using he⟩⟩
      · exact fun hh => hh.1
    · rw [if_neg hx]
      constructor
      · intro hh; cases hh
      · rintro ⟨rfl, hm⟩
        obtain ⟨p, hp, he⟩ := List.mem_map.mp hm
        exact absurd (List.any_eq_true.mpr ⟨p, hp, by simpa using he⟩) hx
  | err c => simp
  | panic c => simp

/-- **the algorithm fallback, stated**: the digests of `get_file_entries` carry FILEDIGESTALGO when that accessor
succeeds; when it fails for ANY reason - tag absent, entry of another type, empty array, a number that is no
`DigestAlgorithm` - they are labelled with the variant written in `unwrap_or(..)`, which the source says is `Md5`
(scraped: `Gen.fileDigestAlgoFallback`, tools/gen/file_entries_shape.py); the model's literal is that number. -/
theorem digest_algo_fallback (h : Header) :
    (∀ a, getFileDigestAlgorithm h = .ok a → digestAlgoOrMd5 h = a) ∧
    ((∀ a, getFileDigestAlgorithm h ≠ .ok a) → digestAlgoOrMd5 h = fileDigestAlgoFallback) ∧
    ("Md5", fileDigestAlgoFallback) ∈ digestAlgoTable := by
  refine ⟨fun a ha => by simp only [digestAlgoOrMd5, ha], fun hn => ?_, by simp [digestAlgoTable, fileDigestAlgoFallback]⟩
  unfold digestAlgoOrMd5
  split
  · rename_i a ha; exact absurd ha (hn a)
  · rfl

/-- the two "64-bit first" accessors read the tags the source names, in the source's order -/
theorem size_tags_scraped :
    fileSizeTags = (IndexTag.RPMTAG_LONGFILESIZES, IndexTag.RPMTAG_FILESIZES) ∧
    installedSizeTags = (IndexTag.RPMTAG_LONGSIZE, IndexTag.RPMTAG_SIZE) := by decide

/-! ### non-vacuity -/
-- a 2-entry header (STRING "abc" at 0, INT32 [7] at 4): the getters return what is stored
def sampleHdr : Bytes := [142, 173, 232, 1, 1, 2, 3, 4, 0, 0, 0, 2, 0, 0, 0, 8, 0, 0, 3, 232, 0, 0, 0, 6, 0, 0, 0, 0,
  0, 0, 0, 1, 0, 0, 3, 233, 0, 0, 0, 4, 0, 0, 0, 4, 0, 0, 0, 1, 97, 98, 99, 0, 0, 0, 0, 7]
example : (parseHeader sampleHdr).isOk = true := by decide +kernel
example : (parseHeader sampleHdr >>= fun p => getString p.1 1000) = .ok [97, 98, 99] := by decide +kernel
example : (parseHeader sampleHdr >>= fun p => getU32 p.1 1001) = .ok 7 := by decide +kernel
example : (parseHeader sampleHdr >>= fun p => getU32 p.1 1000) = .err "wrongtype" := by decide +kernel
example : (parseHeader sampleHdr >>= fun p => getString p.1 1002) = .err "notfound" := by decide +kernel
example : filePathsFrom [[97], [98]] [1, 0] [[47], [47, 117, 47]] = .ok [[47, 117, 47, 97], [47, 98]] := by decide
example : filePathsFrom [[97]] [2] [[47]] = .err "index" := by decide

-- installed size: LONGSIZE wins; SIZE is used when LONGSIZE is absent or is not a non-empty INT64 array; neither → error
def hSize (es : List Entry) : Header := ⟨es.length, 0, es, []⟩
example : getInstalledSize (hSize [⟨IndexTag.RPMTAG_SIZE, .int32 [7], 0, 1⟩, ⟨IndexTag.RPMTAG_LONGSIZE, .int64 [5000000000], 0, 1⟩]) = .ok 5000000000 := by decide
example : getInstalledSize (hSize [⟨IndexTag.RPMTAG_SIZE, .int32 [7], 0, 1⟩]) = .ok 7 := by decide
example : getInstalledSize (hSize [⟨IndexTag.RPMTAG_LONGSIZE, .int32 [9], 0, 1⟩, ⟨IndexTag.RPMTAG_SIZE, .int32 [7], 0, 1⟩]) = .ok 7 := by decide
example : getInstalledSize (hSize [⟨IndexTag.RPMTAG_LONGSIZE, .int64 [], 0, 0⟩]) = .err "notfound" := by decide
-- compressor: "xz" is variant 3, "lzma" is no compressor name, no entry is `None`, an INT32 entry is a type error
example : getPayloadCompressorVariant (hSize [⟨IndexTag.RPMTAG_PAYLOADCOMPRESSOR, .str [120, 122], 0, 1⟩]) = .ok 3 := by decide
example : getPayloadCompressorVariant (hSize [⟨IndexTag.RPMTAG_PAYLOADCOMPRESSOR, .str [108, 122, 109, 97], 0, 1⟩]) = .err "unknown-compressor" := by decide
example : getPayloadCompressorVariant (hSize []) = .ok 0 := by decide
example : getPayloadCompressorVariant (hSize [⟨IndexTag.RPMTAG_PAYLOADCOMPRESSOR, .int32 [1], 0, 1⟩]) = .err "wrongtype" := by decide
-- source package: presence of the tag alone decides
example : entryIsPresent (hSize [⟨IndexTag.RPMTAG_SOURCEPACKAGE, .null, 0, 0⟩]) IndexTag.RPMTAG_SOURCEPACKAGE = true := by decide
example : entryIsPresent (hSize [⟨IndexTag.RPMTAG_SIZE, .int32 [1], 0, 1⟩]) IndexTag.RPMTAG_SOURCEPACKAGE = false := by decide

-- multizip stops at the shortest array
example : zip3 [1, 2, 3] [4, 5] [6, 7, 8] = [(1, 4, 6), (2, 5, 7)] := by decide
-- a two-file header: MTIMES has a third item (cut), CAPS has only one (second file: None), both size tags (64-bit wins),
-- no FILEDIGESTALGO (MD5 label on the 32-character digest), an empty digest text (None)
def hFiles (extra : List Entry) : Header := hSize (extra ++ [
  ⟨IndexTag.RPMTAG_BASENAMES, .strArray [[97], [98]], 0, 2⟩,
  ⟨IndexTag.RPMTAG_DIRINDEXES, .int32 [0, 0], 0, 2⟩,
  ⟨IndexTag.RPMTAG_DIRNAMES, .strArray [[47]], 0, 1⟩,
  ⟨IndexTag.RPMTAG_FILEMODES, .int16 [33188, 33188], 0, 2⟩,
  ⟨IndexTag.RPMTAG_FILEUSERNAME, .strArray [[114], [114]], 0, 2⟩,
  ⟨IndexTag.RPMTAG_FILEGROUPNAME, .strArray [[114], [114]], 0, 2⟩,
  ⟨IndexTag.RPMTAG_FILEDIGESTS, .strArray [List.replicate 32 48, []], 0, 2⟩,
  ⟨IndexTag.RPMTAG_FILEMTIMES, .int32 [5, 6, 7], 0, 3⟩,
  ⟨IndexTag.RPMTAG_FILESIZES, .int32 [1, 2], 0, 2⟩,
  ⟨IndexTag.RPMTAG_LONGFILESIZES, .int64 [5000000000, 9], 0, 2⟩,
  ⟨IndexTag.RPMTAG_FILEFLAGS, .int32 [0, 1], 0, 2⟩,
  ⟨IndexTag.RPMTAG_FILECAPS, .strArray [[61]], 0, 1⟩,
  ⟨IndexTag.RPMTAG_FILELINKTOS, .strArray [[], []], 0, 2⟩])
example : getFileEntries (hSize []) (hFiles []) =
    .ok [⟨[47, 97], 33188, [114], [114], 5, 5000000000, 0, some (1, List.replicate 32 48), some [61], [], none⟩,
         ⟨[47, 98], 33188, [114], [114], 6, 9, 1, none, none, [], none⟩] := by decide
-- FILEDIGESTALGO of another type, or a number that is no DigestAlgorithm: the MD5 label again (same result) …
example : getFileEntries (hSize []) (hFiles [⟨IndexTag.RPMTAG_FILEDIGESTALGO, .strArray [[56]], 0, 1⟩]) =
    getFileEntries (hSize []) (hFiles []) := by decide
example : getFileEntries (hSize []) (hFiles [⟨IndexTag.RPMTAG_FILEDIGESTALGO, .int32 [99], 0, 1⟩]) =
    getFileEntries (hSize []) (hFiles []) := by decide
-- … while SHA-256 (8) refuses the 32-character text: an error, not a relabelled digest
example : getFileEntries (hSize []) (hFiles [⟨IndexTag.RPMTAG_FILEDIGESTALGO, .int32 [8], 0, 1⟩]) = .err "unsupported" := by decide
-- LONGFILESIZES of another type: the 32-bit sizes are used
example : (getFileEntries (hSize []) (hFiles [⟨IndexTag.RPMTAG_LONGFILESIZES, .int32 [3, 4], 0, 2⟩])).map (·.map (·.size)) = .ok [1, 2] := by decide
-- IMA signatures come from the SIGNATURE header, by index
example : (getFileEntries (hSize [⟨SigTag.RPMSIGTAG_FILESIGNATURES, .strArray [[48]], 0, 1⟩]) (hFiles [])).map (·.map (·.ima)) =
    .ok [some [48], none] := by decide
-- no FILEMODES: the documented empty list; a missing mandatory array: an error
example : getFileEntries (hSize []) (hSize []) = .ok [] := by decide
example : getFileEntries (hSize []) (hSize [⟨IndexTag.RPMTAG_FILEMODES, .int16 [1], 0, 1⟩]) = .err "notfound" := by decide
-- changelog: three arrays of lengths 2, 1, 2 give one entry; all absent: empty; one absent: error
example : getChangelog (hSize [⟨IndexTag.RPMTAG_CHANGELOGNAME, .strArray [[97], [98]], 0, 2⟩,
    ⟨IndexTag.RPMTAG_CHANGELOGTIME, .int32 [7], 0, 1⟩, ⟨IndexTag.RPMTAG_CHANGELOGTEXT, .strArray [[99], [100]], 0, 2⟩]) =
    .ok [⟨[97], 7, [99]⟩] := by decide
example : getChangelog (hSize []) = .ok [] := by decide
example : getChangelog (hSize [⟨IndexTag.RPMTAG_CHANGELOGNAME, .strArray [[97]], 0, 1⟩]) = .err "notfound" := by decide
-- scriptlet: flags of another type and an absent interpreter are `None`; a missing script is the error
example : getScriptlet (hSize [⟨1023, .str [120], 0, 1⟩, ⟨5020, .str [49], 0, 1⟩]) (1023, 5020, 1085) = .ok ⟨[120], none, none⟩ := by decide
example : getScriptlet (hSize [⟨1023, .str [120], 0, 1⟩, ⟨5020, .int32 [3], 0, 1⟩, ⟨1085, .strArray [[47]], 0, 1⟩]) (1023, 5020, 1085) =
    .ok ⟨[120], some 3, some [[47]]⟩ := by decide
example : getScriptlet (hSize [⟨5020, .int32 [3], 0, 1⟩]) (1023, 5020, 1085) = .err "notfound" := by decide

/-! ### the scriptlet tag triples of the CODE are rpm's (seed C05-13) -/

/-- the nine `*_TAGS` triples scraped from src/constants.rs are the (script, flags, program) tags of rpm's `rpmtag.h`:
every scriptlet accessor reads ITS OWN flags and interpreter entries, not a neighbour's -/
theorem scriptlet_tags_standard : Gen.scriptletTags = RpmVerif.Spec.stdScriptletTags := by decide

/-- no tag serves two purposes: the 27 tags of the nine triples are pairwise distinct -/
theorem scriptlet_tags_distinct :
    (Gen.scriptletTags.flatMap fun t => [t.2.1, t.2.2.1, t.2.2.2]).Nodup := by decide

/-- **the tag numbers of the code are rpm's**: each of the 173 tag names of the independent transcription of rpm's tag table
has, in the `IndexTag` enum scraped from src/constants.rs, the number rpm gives it — an accessor reading `RPMTAG_X` reads the
entry rpm (and every rpm-built package) stores under X -/
theorem index_tag_numbers_standard :
    ([(IndexTag.RPMTAG_HEADERI18NTABLE, 100), (IndexTag.RPMTAG_NAME, 1000), (IndexTag.RPMTAG_VERSION, 1001), (IndexTag.RPMTAG_RELEASE, 1002), (IndexTag.RPMTAG_EPOCH, 1003), (IndexTag.RPMTAG_SUMMARY, 1004), (IndexTag.RPMTAG_DESCRIPTION, 1005), (IndexTag.RPMTAG_BUILDTIME, 1006), (IndexTag.RPMTAG_BUILDHOST, 1007), (IndexTag.RPMTAG_INSTALLTIME, 1008), (IndexTag.RPMTAG_SIZE, 1009), (IndexTag.RPMTAG_DISTRIBUTION, 1010), (IndexTag.RPMTAG_VENDOR, 1011), (IndexTag.RPMTAG_GIF, 1012), (IndexTag.RPMTAG_XPM, 1013), (IndexTag.RPMTAG_LICENSE, 1014), (IndexTag.RPMTAG_PACKAGER, 1015), (IndexTag.RPMTAG_GROUP, 1016), (IndexTag.RPMTAG_SOURCE, 1018), (IndexTag.RPMTAG_PATCH, 1019), (IndexTag.RPMTAG_URL, 1020), (IndexTag.RPMTAG_OS, 1021), (IndexTag.RPMTAG_ARCH, 1022), (IndexTag.RPMTAG_PREIN, 1023), (IndexTag.RPMTAG_POSTIN, 1024), (IndexTag.RPMTAG_PREUN, 1025), (IndexTag.RPMTAG_POSTUN, 1026), (IndexTag.RPMTAG_OLDFILENAMES, 1027), (IndexTag.RPMTAG_FILESIZES, 1028), (IndexTag.RPMTAG_FILESTATES, 1029), (IndexTag.RPMTAG_FILEMODES, 1030), (IndexTag.RPMTAG_FILERDEVS, 1033), (IndexTag.RPMTAG_FILEMTIMES, 1034), (IndexTag.RPMTAG_FILEDIGESTS, 1035), (IndexTag.RPMTAG_FILELINKTOS, 1036), (IndexTag.RPMTAG_FILEFLAGS, 1037), (IndexTag.RPMTAG_FILEUSERNAME, 1039), (IndexTag.RPMTAG_FILEGROUPNAME, 1040), (IndexTag.RPMTAG_ICON, 1043), (IndexTag.RPMTAG_SOURCERPM, 1044), (IndexTag.RPMTAG_FILEVERIFYFLAGS, 1045), (IndexTag.RPMTAG_ARCHIVESIZE, 1046), (IndexTag.RPMTAG_PROVIDENAME, 1047), (IndexTag.RPMTAG_REQUIREFLAGS, 1048), (IndexTag.RPMTAG_REQUIRENAME, 1049), (IndexTag.RPMTAG_REQUIREVERSION, 1050), (IndexTag.RPMTAG_NOSOURCE, 1051), (IndexTag.RPMTAG_NOPATCH, 1052), (IndexTag.RPMTAG_CONFLICTFLAGS, 1053), (IndexTag.RPMTAG_CONFLICTNAME, 1054), (IndexTag.RPMTAG_CONFLICTVERSION, 1055), (IndexTag.RPMTAG_EXCLUDEARCH, 1059), (IndexTag.RPMTAG_EXCLUDEOS, 1060), (IndexTag.RPMTAG_EXCLUSIVEARCH, 1061), (IndexTag.RPMTAG_EXCLUSIVEOS, 1062), (IndexTag.RPMTAG_RPMVERSION, 1064), (IndexTag.RPMTAG_TRIGGERSCRIPTS, 1065), (IndexTag.RPMTAG_TRIGGERNAME, 1066), (IndexTag.RPMTAG_TRIGGERVERSION, 1067), (IndexTag.RPMTAG_TRIGGERFLAGS, 1068), (IndexTag.RPMTAG_TRIGGERINDEX, 1069), (IndexTag.RPMTAG_VERIFYSCRIPT, 1079), (IndexTag.RPMTAG_CHANGELOGTIME, 1080), (IndexTag.RPMTAG_CHANGELOGNAME, 1081), (IndexTag.RPMTAG_CHANGELOGTEXT, 1082), (IndexTag.RPMTAG_PREINPROG, 1085), (IndexTag.RPMTAG_POSTINPROG, 1086), (IndexTag.RPMTAG_PREUNPROG, 1087), (IndexTag.RPMTAG_POSTUNPROG, 1088), (IndexTag.RPMTAG_BUILDARCHS, 1089), (IndexTag.RPMTAG_OBSOLETENAME, 1090), (IndexTag.RPMTAG_VERIFYSCRIPTPROG, 1091), (IndexTag.RPMTAG_TRIGGERSCRIPTPROG, 1092), (IndexTag.RPMTAG_COOKIE, 1094), (IndexTag.RPMTAG_FILEDEVICES, 1095), (IndexTag.RPMTAG_FILEINODES, 1096), (IndexTag.RPMTAG_FILELANGS, 1097), (IndexTag.RPMTAG_PREFIXES, 1098), (IndexTag.RPMTAG_INSTPREFIXES, 1099), (IndexTag.RPMTAG_SOURCEPACKAGE, 1106), (IndexTag.RPMTAG_PROVIDEFLAGS, 1112), (IndexTag.RPMTAG_PROVIDEVERSION, 1113), (IndexTag.RPMTAG_OBSOLETEFLAGS, 1114), (IndexTag.RPMTAG_OBSOLETEVERSION, 1115), (IndexTag.RPMTAG_DIRINDEXES, 1116), (IndexTag.RPMTAG_BASENAMES, 1117), (IndexTag.RPMTAG_DIRNAMES, 1118), (IndexTag.RPMTAG_ORIGDIRINDEXES, 1119), (IndexTag.RPMTAG_ORIGBASENAMES, 1120), (IndexTag.RPMTAG_ORIGDIRNAMES, 1121), (IndexTag.RPMTAG_OPTFLAGS, 1122), (IndexTag.RPMTAG_DISTURL, 1123), (IndexTag.RPMTAG_PAYLOADFORMAT, 1124), (IndexTag.RPMTAG_PAYLOADCOMPRESSOR, 1125), (IndexTag.RPMTAG_PAYLOADFLAGS, 1126), (IndexTag.RPMTAG_INSTALLCOLOR, 1127), (IndexTag.RPMTAG_INSTALLTID, 1128), (IndexTag.RPMTAG_REMOVETID, 1129), (IndexTag.RPMTAG_PLATFORM, 1132), (IndexTag.RPMTAG_FILECOLORS, 1140), (IndexTag.RPMTAG_FILECLASS, 1141), (IndexTag.RPMTAG_CLASSDICT, 1142), (IndexTag.RPMTAG_FILEDEPENDSX, 1143), (IndexTag.RPMTAG_FILEDEPENDSN, 1144), (IndexTag.RPMTAG_DEPENDSDICT, 1145), (IndexTag.RPMTAG_SOURCEPKGID, 1146), (IndexTag.RPMTAG_POLICIES, 1150), (IndexTag.RPMTAG_PRETRANS, 1151), (IndexTag.RPMTAG_POSTTRANS, 1152), (IndexTag.RPMTAG_PRETRANSPROG, 1153), (IndexTag.RPMTAG_POSTTRANSPROG, 1154), (IndexTag.RPMTAG_DISTTAG, 1155), (IndexTag.RPMTAG_LONGFILESIZES, 5008), (IndexTag.RPMTAG_LONGSIZE, 5009), (IndexTag.RPMTAG_FILECAPS, 5010), (IndexTag.RPMTAG_FILEDIGESTALGO, 5011), (IndexTag.RPMTAG_BUGURL, 5012), (IndexTag.RPMTAG_PREINFLAGS, 5020), (IndexTag.RPMTAG_POSTINFLAGS, 5021), (IndexTag.RPMTAG_PREUNFLAGS, 5022), (IndexTag.RPMTAG_POSTUNFLAGS, 5023), (IndexTag.RPMTAG_PRETRANSFLAGS, 5024), (IndexTag.RPMTAG_POSTTRANSFLAGS, 5025), (IndexTag.RPMTAG_VERIFYSCRIPTFLAGS, 5026), (IndexTag.RPMTAG_TRIGGERSCRIPTFLAGS, 5027), (IndexTag.RPMTAG_VCS, 5034), (IndexTag.RPMTAG_ORDERNAME, 5035), (IndexTag.RPMTAG_ORDERVERSION, 5036), (IndexTag.RPMTAG_ORDERFLAGS, 5037), (IndexTag.RPMTAG_RECOMMENDNAME, 5046), (IndexTag.RPMTAG_RECOMMENDVERSION, 5047), (IndexTag.RPMTAG_RECOMMENDFLAGS, 5048), (IndexTag.RPMTAG_SUGGESTNAME, 5049), (IndexTag.RPMTAG_SUGGESTVERSION, 5050), (IndexTag.RPMTAG_SUGGESTFLAGS, 5051), (IndexTag.RPMTAG_SUPPLEMENTNAME, 5052), (IndexTag.RPMTAG_SUPPLEMENTVERSION, 5053), (IndexTag.RPMTAG_SUPPLEMENTFLAGS, 5054), (IndexTag.RPMTAG_ENHANCENAME, 5055), (IndexTag.RPMTAG_ENHANCEVERSION, 5056), (IndexTag.RPMTAG_ENHANCEFLAGS, 5057), (IndexTag.RPMTAG_ENCODING, 5062), (IndexTag.RPMTAG_FILETRIGGERSCRIPTS, 5066), (IndexTag.RPMTAG_FILETRIGGERSCRIPTPROG, 5067), (IndexTag.RPMTAG_FILETRIGGERSCRIPTFLAGS, 5068), (IndexTag.RPMTAG_FILETRIGGERNAME, 5069), (IndexTag.RPMTAG_FILETRIGGERINDEX, 5070), (IndexTag.RPMTAG_FILETRIGGERVERSION, 5071), (IndexTag.RPMTAG_FILETRIGGERFLAGS, 5072), (IndexTag.RPMTAG_TRANSFILETRIGGERSCRIPTS, 5076), (IndexTag.RPMTAG_TRANSFILETRIGGERSCRIPTPROG, 5077), (IndexTag.RPMTAG_TRANSFILETRIGGERSCRIPTFLAGS, 5078), (IndexTag.RPMTAG_TRANSFILETRIGGERNAME, 5079), (IndexTag.RPMTAG_TRANSFILETRIGGERINDEX, 5080), (IndexTag.RPMTAG_TRANSFILETRIGGERVERSION, 5081), (IndexTag.RPMTAG_TRANSFILETRIGGERFLAGS, 5082), (IndexTag.RPMTAG_FILETRIGGERPRIORITIES, 5084), (IndexTag.RPMTAG_TRANSFILETRIGGERPRIORITIES, 5085), (IndexTag.RPMTAG_FILESIGNATURES, 5090), (IndexTag.RPMTAG_FILESIGNATURELENGTH, 5091), (IndexTag.RPMTAG_PAYLOADDIGEST, 5092), (IndexTag.RPMTAG_PAYLOADDIGESTALGO, 5093), (IndexTag.RPMTAG_MODULARITYLABEL, 5096), (IndexTag.RPMTAG_PAYLOADDIGESTALT, 5097), (IndexTag.RPMTAG_SPEC, 5099), (IndexTag.RPMTAG_TRANSLATIONURL, 5100), (IndexTag.RPMTAG_UPSTREAMRELEASES, 5101), (IndexTag.RPMTAG_PREUNTRANS, 5103), (IndexTag.RPMTAG_POSTUNTRANS, 5104), (IndexTag.RPMTAG_PREUNTRANSPROG, 5105), (IndexTag.RPMTAG_POSTUNTRANSPROG, 5106), (IndexTag.RPMTAG_PREUNTRANSFLAGS, 5107), (IndexTag.RPMTAG_POSTUNTRANSFLAGS, 5108)] : List (Nat × Nat)).all (fun p => p.1 == p.2) = true
    ∧ RpmVerif.Spec.stdTagNames.length = 173 := by decide +kernel

/-- and no two names of the code's enum share a number (a discriminant collision would not even compile in Rust; stated for the table) -/
theorem index_tag_numbers_distinct : (Gen.indexTagTable.map (·.2)).Nodup := by decide +kernel

end RpmVerif.C05
