import RpmVerif.Lemmas.Digest
import RpmVerif.Props.C01
/-!
# C03 — digest verification succeeds exactly when all recorded digests match

All theorems hold for EVERY `Package` value (parsed or not, any entry counts, duplicated tags, wrong types, …)
and for ANY three hash functions `H : Hashes` (the `md-5` / `sha1` / `sha2` crates are parameters).

* `digests_iff`            success ⇔ every recorded digest has a supported algorithm and equals its recomputation;
* `digests_first_failure`  the check order md5, sha1, sha256, payload: the first record that is not fine decides, and how;
* `digests_mismatch`       some supported recorded digest differs ⇒ exactly the digest-mismatch error;
* `digests_unsupported`    a payload digest with an algorithm ≠ SHA-256 (known or unknown number) ⇒ an error, never success,
                           never a panic (`digests_unsupported_class` gives the class when nothing else is wrong);
* `digests_total`          no panic for any package;
* `model_satisfies_spec`   the outcome is always one the spec's `judge` accepts (this is the verdict function the driver
                           applies to the real implementation's observation);
* `raw_ranges`             for a parsed package the hashed byte strings are the package's own bytes: the main header
                           region in canonical form and everything after it.
-/
namespace RpmVerif.C03
open RpmVerif.Hdr RpmVerif.Gen RpmVerif.DigestSpec RpmVerif.Digest RpmVerif.Canon

/-! ### shape of `Recorded`: three always-supported records, then at most one payload record -/

theorem recorded_shape (p : Package) :
    ∃ A B, Recorded p = A ++ B ∧ (∀ r ∈ A, Supported r.which) ∧ B.length ≤ 1 := by
  refine ⟨recMd5 p.md.signature ++ recSha1 p.md.signature ++ recSha256 p.md.signature, recPayload p.md.header, rfl, ?_, ?_⟩
  · intro r hr
    simp only [List.mem_append] at hr
    rcases hr with (hr | hr) | hr
    · unfold recMd5 at hr; split at hr <;> simp at hr; subst hr; trivial
    · unfold recSha1 at hr; split at hr <;> simp at hr; subst hr; trivial
    · unfold recSha256 at hr; split at hr <;> simp at hr; subst hr; trivial
  · unfold recPayload; split <;> simp

theorem outcome_supported (H : Hashes) (p : Package) (l : List Rec) (hl : ∀ r ∈ l, Supported r.which) :
    outcome H p l = .ok () ∨ outcome H p l = .err "mismatch" := by
  induction l with
  | nil => exact .inl rfl
  | cons r rest ih =>
    simp only [outcome]
    split
    · exact ih (fun x hx => hl x (List.mem_cons_of_mem _ hx))
    · simp [failureOf, hl r List.mem_cons_self]

/-! ### the property -/

/-- **success ⇔ all recorded digests match** (and their algorithm is one that can be recomputed) -/
theorem digests_iff (H : Hashes) (p : Package) :
    verifyDigests H.md5 H.sha1 H.sha256 p = .ok () ↔
      ∀ r ∈ Recorded p, Supported r.which ∧ r.declared = some (recompute H p r.which) := by
  rw [verifyDigests_eq_outcome, outcome_ok_iff]; rfl

/-- a number `DigestAlgorithm::from_u32` accepts -/
def KnownAlgo (a : Nat) : Prop := ∃ name, (name, a) ∈ digestAlgoTable

theorem known_iff (a : Nat) : (algoFromU32 a).isSome = true ↔ KnownAlgo a := by
  simp only [algoFromU32, Option.isSome_map, List.find?_isSome, KnownAlgo]
  constructor
  · rintro ⟨⟨n, a'⟩, hm, he⟩
    simp only [beq_iff_eq] at he
    exact ⟨n, he ▸ hm⟩
  · rintro ⟨n, hm⟩
    exact ⟨(n, a), hm, by simp⟩

/-- **check order**: with `Recorded p` in the order md5, sha1, sha256, payload, the FIRST record that is not fine
decides the result: a supported digest that differs gives the mismatch error; a payload digest under a known but
unsupported algorithm gives `UnsupportedDigestAlgorithm`, under an unknown number `InvalidTagValueEnumVariant`. -/
theorem digests_first_failure (H : Hashes) (p : Package) (pre post : List Rec) (r : Rec)
    (hrec : Recorded p = pre ++ r :: post)
    (hpre : ∀ x ∈ pre, Supported x.which ∧ x.declared = some (recompute H p x.which))
    (hr : ¬ (Supported r.which ∧ r.declared = some (recompute H p r.which))) :
    (Supported r.which → verifyDigests H.md5 H.sha1 H.sha256 p = .err "mismatch")
    ∧ (∀ a, r.which = .payload a → ¬ Supported r.which → KnownAlgo a →
        verifyDigests H.md5 H.sha1 H.sha256 p = .err "unsupported")
    ∧ (∀ a, r.which = .payload a → ¬ Supported r.which → ¬ KnownAlgo a →
        verifyDigests H.md5 H.sha1 H.sha256 p = .err "enum-variant") := by
  rw [verifyDigests_eq_outcome, hrec, outcome_first_failure H p pre post r hpre hr]
  refine ⟨fun hs => by simp [failureOf, hs], fun a ha hs hk => ?_, fun a ha hs hk => ?_⟩
  · have hs' : ¬ Supported (.payload a) := ha ▸ hs
    simp only [failureOf, ha, hs', if_false, (known_iff a).mpr hk, if_true]
  · have hs' : ¬ Supported (.payload a) := ha ▸ hs
    have : (algoFromU32 a).isSome = false := by
      cases h : (algoFromU32 a).isSome
      · rfl
      · exact absurd ((known_iff a).mp h) hk
    simp [failureOf, ha, hs', this]

/-- **any supported recorded digest that differs ⇒ the digest-mismatch error** (whatever else is recorded:
the only record that can be unsupported is checked last) -/
theorem digests_mismatch (H : Hashes) (p : Package)
    (h : ∃ r ∈ Recorded p, Supported r.which ∧ r.declared ≠ some (recompute H p r.which)) :
    verifyDigests H.md5 H.sha1 H.sha256 p = .err "mismatch" := by
  obtain ⟨A, B, hAB, hA, hB⟩ := recorded_shape p
  obtain ⟨r, hr, hs, hd⟩ := h
  rw [verifyDigests_eq_outcome, hAB, outcome_append]
  rw [hAB, List.mem_append] at hr
  rcases outcome_supported H p A hA with hok | hmm
  · rw [hok, Out.bind_ok]
    rcases hr with hr | hr
    · exact absurd ((outcome_ok_iff H p A).mp hok r hr).2 hd
    · match B, hB, hr with
      | [x], _, hr =>
        simp only [List.mem_singleton] at hr
        subst hr
        have hng : ¬ Rec.good H p r := fun hg => hd hg.2
        simp [outcome, hng, failureOf, hs]
  · rw [hmm]; rfl

/-- **no panic for any package and any hash functions** -/
theorem digests_total (H : Hashes) (p : Package) : (verifyDigests H.md5 H.sha1 H.sha256 p).isPanic = false := by
  rw [verifyDigests_eq_outcome]; exact outcome_not_panic H p _

/-- **a recorded payload digest with an unsupported algorithm (known or unknown number) ⇒ an error; never
success, never a panic** -/
theorem digests_unsupported (H : Hashes) (p : Package) (h : ∃ r ∈ Recorded p, ¬ Supported r.which) :
    ∃ c, verifyDigests H.md5 H.sha1 H.sha256 p = .err c := by
  obtain ⟨r, hr, hs⟩ := h
  have hnok : verifyDigests H.md5 H.sha1 H.sha256 p ≠ .ok () := fun hok => hs ((digests_iff H p).mp hok r hr).1
  have hnp := digests_total H p
  cases hv : verifyDigests H.md5 H.sha1 H.sha256 p with
  | ok u => exact absurd hv hnok
  | err c => exact ⟨c, rfl⟩
  | panic s => rw [hv] at hnp; cases hnp

/-- the class of that error when every other recorded digest matches: `UnsupportedDigestAlgorithm` for the
numbers of the enum, `InvalidTagValueEnumVariant` for all others -/
theorem digests_unsupported_class (H : Hashes) (p : Package) (pre : List Rec) (a : Nat) (d : Option Bytes)
    (hrec : Recorded p = pre ++ [⟨.payload a, d⟩]) (hs : ¬ Supported (.payload a))
    (hpre : ∀ x ∈ pre, Supported x.which ∧ x.declared = some (recompute H p x.which)) :
    (KnownAlgo a → verifyDigests H.md5 H.sha1 H.sha256 p = .err "unsupported")
    ∧ (¬ KnownAlgo a → verifyDigests H.md5 H.sha1 H.sha256 p = .err "enum-variant") := by
  have := digests_first_failure H p pre [] ⟨.payload a, d⟩ hrec hpre (fun hg => hs hg.1)
  exact ⟨fun hk => this.2.1 a rfl hs hk, fun hk => this.2.2 a rfl hs hk⟩

/-- the only number that is supported is the discriminant of `Sha2_256` in the generated table; every other
number — in the enum or not — is unsupported -/
theorem supported_iff (a : Nat) : Supported (.payload a) ↔ a = 8 := by
  simp only [Supported, digestAlgoTable]
  constructor
  · intro h; simp at h; omega
  · rintro rfl; simp

/-! ### what the code does where the property is silent: a payload digest without its algorithm tag

The property speaks of "SHA-256 over the payload" and of "a recorded payload digest whose algorithm it does not support".
A RPMTAG_PAYLOADDIGEST whose RPMTAG_PAYLOADDIGESTALGO is absent (or not an INT32) names no algorithm at all; the spec
leaves that shape undecided (`DigestSpec` don't-care region 2) and the code SKIPS the payload block (`if let (Ok(..), Ok(..))`).
Stated here so that the behaviour is a theorem of the model and not only a comment (audit item a1): whatever the digest
text says, the payload contributes nothing to the verdict. -/

/-- PAYLOADDIGEST present but PAYLOADDIGESTALGO unreadable: the payload block accepts, whatever is recorded -/
theorem payload_digest_without_algo (sha256 : Bytes → Bytes) (p : Package)
    (halgo : ∀ a, getU32 p.md.header IndexTag.RPMTAG_PAYLOADDIGESTALGO ≠ .ok a) :
    checkPayload sha256 p = .ok () := by
  unfold checkPayload
  cases h1 : getStringArray p.md.header IndexTag.RPMTAG_PAYLOADDIGEST <;>
    cases h2 : getU32 p.md.header IndexTag.RPMTAG_PAYLOADDIGESTALGO <;> first | rfl | exact absurd h2 (halgo _)

/-- and likewise an algorithm tag without a digest array -/
theorem payload_algo_without_digest (sha256 : Bytes → Bytes) (p : Package)
    (hd : ∀ v, getStringArray p.md.header IndexTag.RPMTAG_PAYLOADDIGEST ≠ .ok v) :
    checkPayload sha256 p = .ok () := by
  unfold checkPayload
  cases h1 : getStringArray p.md.header IndexTag.RPMTAG_PAYLOADDIGEST <;>
    cases h2 : getU32 p.md.header IndexTag.RPMTAG_PAYLOADDIGESTALGO <;> first | rfl | exact absurd h1 (hd _)

/-! ### the model's outcome is always one the spec's verdict function accepts -/

/-- observation class of a model outcome -/
def obsOfOut : Out Unit → Obs
  | .ok _ => .ok
  | .err c => if c = "mismatch" then .mismatch else .otherErr
  | .panic _ => .panic

theorem model_satisfies_spec (H : Hashes) (p : Package) :
    judge H p (obsOfOut (verifyDigests H.md5 H.sha1 H.sha256 p)) = true := by
  rw [verifyDigests_eq_outcome]
  cases h : outcome H p (Recorded p) with
  | ok u =>
    have hg := (outcome_ok_iff H p _).mp h
    have hu : (Recorded p).any (fun r => !decide (Supported r.which)) = false := by
      rw [List.any_eq_false]; intro r hr; simp [(hg r hr).1]
    have hd : (Recorded p).any (fun r => decide (Supported r.which) &&
        decide (r.declared ≠ some (recompute H p r.which))) = false := by
      rw [List.any_eq_false]; intro r hr; simp [(hg r hr).2]
    simp only [obsOfOut, judge, judgeWith, hu, hd]; rfl
  | panic s =>
    have := outcome_not_panic H p (Recorded p)
    rw [h] at this; cases this
  | err c =>
    rcases outcome_err H p _ c h with ⟨hc, r, hr, hs, hd⟩ | ⟨r, hr, hs⟩
    · subst hc
      simp only [obsOfOut, if_true, judge, judgeWith, Bool.or_eq_true, List.any_eq_true]
      exact .inl ⟨r, hr, by simp [hs, hd]⟩
    · have hu : (Recorded p).any (fun r => !decide (Supported r.which)) = true :=
        List.any_eq_true.mpr ⟨r, hr, by simp [hs]⟩
      by_cases hc : c = "mismatch" <;> simp [obsOfOut, hc, judge, judgeWith, hu]

/-! ### "its standard tags": the tag numbers of the CODE (scraped from src/constants.rs) are rpm's -/

/-- the five tags `verify_digests` reads, and the alternative payload digest, carry the numbers of rpm's `rpmtag.h`
(RPMSIGTAG_MD5 1004, RPMSIGTAG_SHA1 = RPMTAG_SHA1HEADER 269, RPMSIGTAG_SHA256 = RPMTAG_SHA256HEADER 273,
RPMTAG_PAYLOADDIGEST 5092, RPMTAG_PAYLOADDIGESTALGO 5093, RPMTAG_PAYLOADDIGESTALT 5097; SHA-256 is algorithm 8): a digest
looked up under another number would be "absent" on every rpm-built package and its comparison silently skipped -/
theorem digest_tags_standard :
    SigTag.RPMSIGTAG_MD5 = 1004 ∧ SigTag.RPMSIGTAG_SHA1 = 269 ∧ SigTag.RPMSIGTAG_SHA256 = 273
    ∧ IndexTag.RPMTAG_PAYLOADDIGEST = 5092 ∧ IndexTag.RPMTAG_PAYLOADDIGESTALGO = 5093 ∧ IndexTag.RPMTAG_PAYLOADDIGESTALT = 5097
    ∧ Gen.digestAlgoTable.lookup "Sha2_256" = some 8 ∧ Gen.digestAlgoTable.lookup "Md5" = some 1 := by decide

/-! ### the hashed byte strings are the package's own bytes -/

/-- for every accepted byte string: the re-serialised main header is the header region of the input in
canonical form (only the four reserved intro bytes zeroed), and the content is everything after it -/
theorem raw_ranges {bs p} (hp : parsePackage bs = .ok p) :
    rawHeader bs = writeHeader p.md.header ∧ rawContent bs = p.content := by
  simp only [parsePackage, Out.bind_eq_ok] at hp
  obtain ⟨⟨m, rest⟩, h1, hp⟩ := hp
  simp only [Out.pure_eq, Out.ok.injEq] at hp
  subst hp
  obtain ⟨res1, pad, res2, hr1, hpad, hr2, rfl, wf⟩ := parseMetadata_ok h1
  have hl := writeLead_length wf.lead
  have e : metaBytes res1 pad res2 m ++ rest =
      writeLead m.lead ++ (hdrBytes res1 m.signature ++ (pad ++ (hdrBytes res2 m.header ++ rest))) := by
    simp [metaBytes, List.append_assoc]
  obtain ⟨hlen, hpd⟩ := C01.hdrLen_hdrBytes hr1 wf.sig (pad ++ (hdrBytes res2 m.header ++ rest))
  have hS := C01.hdrBytes_length hr1 wf.sig
  have hH := C01.hdrBytes_length hr2 wf.hdr
  obtain ⟨hlen2, _⟩ := C01.hdrLen_hdrBytes hr2 wf.hdr rest
  have d96 : (metaBytes res1 pad res2 m ++ rest).drop 96 =
      hdrBytes res1 m.signature ++ (pad ++ (hdrBytes res2 m.header ++ rest)) := by
    rw [e, ← hl, List.drop_left]
  have hstart : rawHdrStart (metaBytes res1 pad res2 m ++ rest) =
      (writeLead m.lead ++ (hdrBytes res1 m.signature ++ pad)).length := by
    simp only [rawHdrStart, d96, hlen, hpd, List.length_append, hl, hS, hpad]
    omega
  have e2 : metaBytes res1 pad res2 m ++ rest =
      (writeLead m.lead ++ (hdrBytes res1 m.signature ++ pad)) ++ (hdrBytes res2 m.header ++ rest) := by
    simp [metaBytes, List.append_assoc]
  have dH : (metaBytes res1 pad res2 m ++ rest).drop (rawHdrStart (metaBytes res1 pad res2 m ++ rest)) =
      hdrBytes res2 m.header ++ rest := by
    rw [hstart]
    conv => lhs; arg 2; rw [e2]
    rw [List.drop_left]
  have z := C01.zeroReserved_hdrBytes m.header hr2 []
  simp only [List.append_nil] at z
  constructor
  · simp only [rawHeader, dH, hlen2, ← hH, List.take_left, z, writeHeader_eq]
  · simp only [rawContent, dH, hlen2, ← hH, List.drop_left]

/-- hence the digests recomputed from the raw bytes are the ones the theorems above speak about -/
theorem recomputeRaw_eq (H : Hashes) {bs p} (hp : parsePackage bs = .ok p) (w : Which) :
    recomputeRaw H bs w = recompute H p w := by
  obtain ⟨h1, h2⟩ := raw_ranges hp
  cases w <;> simp only [recomputeRaw, recompute, h1, h2]

/-! ### non-vacuity: concrete packages (bytes) under three small toy hash functions -/

def toyH : Hashes where
  md5 := fun bs => [bs.length.toUInt8, bs.foldl (· + ·) 0]
  sha1 := fun bs => [bs.foldl (· + ·) 0]
  sha256 := fun bs => [bs.foldl (· ^^^ ·) 0, bs.length.toUInt8, 171]

def lead : Bytes := [237, 171, 238, 219, 3, 0, 0, 0, 0, 1, 116] ++ List.replicate 65 0 ++ [0, 1, 0, 5] ++ List.replicate 16 0

/-- all four digests recorded and correct (non-zero reserved bytes and padding: the header is hashed in canonical form) -/
def good : Bytes := lead ++ [142, 173, 232, 1, 170, 187, 204, 221, 0, 0, 0, 3, 0, 0, 0, 12, 0, 0, 1, 13, 0, 0, 0, 6, 0, 0, 0, 0, 0, 0, 0, 1, 0, 0, 1, 17, 0, 0, 0, 6, 0, 0, 0, 3, 0, 0, 0, 1, 0, 0, 3, 236, 0, 0, 0, 7, 0, 0, 0, 10, 0, 0, 0, 2, 53, 52, 0, 53, 97, 53, 48, 97, 98, 0, 84, 53, 7, 7, 7, 7, 142, 173, 232, 1, 1, 2, 3, 4, 0, 0, 0, 3, 0, 0, 0, 16, 0, 0, 3, 232, 0, 0, 0, 6, 0, 0, 0, 0, 0, 0, 0, 1, 0, 0, 19, 228, 0, 0, 0, 8, 0, 0, 0, 4, 0, 0, 0, 1, 0, 0, 19, 229, 0, 0, 0, 4, 0, 0, 0, 12, 0, 0, 0, 1, 97, 98, 99, 0, 99, 102, 48, 52, 97, 98, 0, 0, 0, 0, 0, 8, 7, 9, 9, 200]
/-- one bit of the MD5 flipped -/
def badMd5 : Bytes := lead ++ [142, 173, 232, 1, 170, 187, 204, 221, 0, 0, 0, 3, 0, 0, 0, 12, 0, 0, 1, 13, 0, 0, 0, 6, 0, 0, 0, 0, 0, 0, 0, 1, 0, 0, 1, 17, 0, 0, 0, 6, 0, 0, 0, 3, 0, 0, 0, 1, 0, 0, 3, 236, 0, 0, 0, 7, 0, 0, 0, 10, 0, 0, 0, 2, 53, 52, 0, 53, 97, 53, 48, 97, 98, 0, 84, 52, 7, 7, 7, 7, 142, 173, 232, 1, 1, 2, 3, 4, 0, 0, 0, 3, 0, 0, 0, 16, 0, 0, 3, 232, 0, 0, 0, 6, 0, 0, 0, 0, 0, 0, 0, 1, 0, 0, 19, 228, 0, 0, 0, 8, 0, 0, 0, 4, 0, 0, 0, 1, 0, 0, 19, 229, 0, 0, 0, 4, 0, 0, 0, 12, 0, 0, 0, 1, 97, 98, 99, 0, 99, 102, 48, 52, 97, 98, 0, 0, 0, 0, 0, 8, 7, 9, 9, 200]
/-- header SHA-256 text in upper case -/
def upperSha256 : Bytes := lead ++ [142, 173, 232, 1, 170, 187, 204, 221, 0, 0, 0, 3, 0, 0, 0, 12, 0, 0, 1, 13, 0, 0, 0, 6, 0, 0, 0, 0, 0, 0, 0, 1, 0, 0, 1, 17, 0, 0, 0, 6, 0, 0, 0, 3, 0, 0, 0, 1, 0, 0, 3, 236, 0, 0, 0, 7, 0, 0, 0, 10, 0, 0, 0, 2, 53, 52, 0, 53, 65, 53, 48, 65, 66, 0, 84, 53, 7, 7, 7, 7, 142, 173, 232, 1, 1, 2, 3, 4, 0, 0, 0, 3, 0, 0, 0, 16, 0, 0, 3, 232, 0, 0, 0, 6, 0, 0, 0, 0, 0, 0, 0, 1, 0, 0, 19, 228, 0, 0, 0, 8, 0, 0, 0, 4, 0, 0, 0, 1, 0, 0, 19, 229, 0, 0, 0, 4, 0, 0, 0, 12, 0, 0, 0, 1, 97, 98, 99, 0, 99, 102, 48, 52, 97, 98, 0, 0, 0, 0, 0, 8, 7, 9, 9, 200]
/-- payload digest text in upper case -/
def upperPayload : Bytes := lead ++ [142, 173, 232, 1, 170, 187, 204, 221, 0, 0, 0, 3, 0, 0, 0, 12, 0, 0, 1, 13, 0, 0, 0, 6, 0, 0, 0, 0, 0, 0, 0, 1, 0, 0, 1, 17, 0, 0, 0, 6, 0, 0, 0, 3, 0, 0, 0, 1, 0, 0, 3, 236, 0, 0, 0, 7, 0, 0, 0, 10, 0, 0, 0, 2, 100, 52, 0, 53, 97, 53, 48, 97, 98, 0, 84, 181, 7, 7, 7, 7, 142, 173, 232, 1, 1, 2, 3, 4, 0, 0, 0, 3, 0, 0, 0, 16, 0, 0, 3, 232, 0, 0, 0, 6, 0, 0, 0, 0, 0, 0, 0, 1, 0, 0, 19, 228, 0, 0, 0, 8, 0, 0, 0, 4, 0, 0, 0, 1, 0, 0, 19, 229, 0, 0, 0, 4, 0, 0, 0, 12, 0, 0, 0, 1, 97, 98, 99, 0, 67, 70, 48, 52, 65, 66, 0, 0, 0, 0, 0, 8, 7, 9, 9, 200]
/-- payload digest algorithm 1 (Md5: known, unsupported) -/
def algoMd5 : Bytes := lead ++ [142, 173, 232, 1, 170, 187, 204, 221, 0, 0, 0, 3, 0, 0, 0, 12, 0, 0, 1, 13, 0, 0, 0, 6, 0, 0, 0, 0, 0, 0, 0, 1, 0, 0, 1, 17, 0, 0, 0, 6, 0, 0, 0, 3, 0, 0, 0, 1, 0, 0, 3, 236, 0, 0, 0, 7, 0, 0, 0, 10, 0, 0, 0, 2, 52, 100, 0, 53, 51, 53, 48, 97, 98, 0, 84, 46, 7, 7, 7, 7, 142, 173, 232, 1, 1, 2, 3, 4, 0, 0, 0, 3, 0, 0, 0, 16, 0, 0, 3, 232, 0, 0, 0, 6, 0, 0, 0, 0, 0, 0, 0, 1, 0, 0, 19, 228, 0, 0, 0, 8, 0, 0, 0, 4, 0, 0, 0, 1, 0, 0, 19, 229, 0, 0, 0, 4, 0, 0, 0, 12, 0, 0, 0, 1, 97, 98, 99, 0, 99, 102, 48, 52, 97, 98, 0, 0, 0, 0, 0, 1, 7, 9, 9, 200]
/-- payload digest algorithm 99 (unknown number) -/
def algo99 : Bytes := lead ++ [142, 173, 232, 1, 170, 187, 204, 221, 0, 0, 0, 3, 0, 0, 0, 12, 0, 0, 1, 13, 0, 0, 0, 6, 0, 0, 0, 0, 0, 0, 0, 1, 0, 0, 1, 17, 0, 0, 0, 6, 0, 0, 0, 3, 0, 0, 0, 1, 0, 0, 3, 236, 0, 0, 0, 7, 0, 0, 0, 10, 0, 0, 0, 2, 97, 102, 0, 51, 49, 53, 48, 97, 98, 0, 84, 144, 7, 7, 7, 7, 142, 173, 232, 1, 1, 2, 3, 4, 0, 0, 0, 3, 0, 0, 0, 16, 0, 0, 3, 232, 0, 0, 0, 6, 0, 0, 0, 0, 0, 0, 0, 1, 0, 0, 19, 228, 0, 0, 0, 8, 0, 0, 0, 4, 0, 0, 0, 1, 0, 0, 19, 229, 0, 0, 0, 4, 0, 0, 0, 12, 0, 0, 0, 1, 97, 98, 99, 0, 99, 102, 48, 52, 97, 98, 0, 0, 0, 0, 0, 99, 7, 9, 9, 200]
/-- PAYLOADDIGEST array with zero strings -/
def emptyArray : Bytes := lead ++ [142, 173, 232, 1, 170, 187, 204, 221, 0, 0, 0, 3, 0, 0, 0, 12, 0, 0, 1, 13, 0, 0, 0, 6, 0, 0, 0, 0, 0, 0, 0, 1, 0, 0, 1, 17, 0, 0, 0, 6, 0, 0, 0, 3, 0, 0, 0, 1, 0, 0, 3, 236, 0, 0, 0, 7, 0, 0, 0, 10, 0, 0, 0, 2, 53, 51, 0, 52, 57, 52, 56, 97, 98, 0, 76, 52, 7, 7, 7, 7, 142, 173, 232, 1, 1, 2, 3, 4, 0, 0, 0, 3, 0, 0, 0, 8, 0, 0, 3, 232, 0, 0, 0, 6, 0, 0, 0, 0, 0, 0, 0, 1, 0, 0, 19, 228, 0, 0, 0, 8, 0, 0, 0, 4, 0, 0, 0, 0, 0, 0, 19, 229, 0, 0, 0, 4, 0, 0, 0, 4, 0, 0, 0, 1, 97, 98, 99, 0, 0, 0, 0, 8, 7, 9, 9, 200]
/-- two payload digest strings: first wrong, second right -/
def twoFirstWrong : Bytes := lead ++ [142, 173, 232, 1, 170, 187, 204, 221, 0, 0, 0, 3, 0, 0, 0, 12, 0, 0, 1, 13, 0, 0, 0, 6, 0, 0, 0, 0, 0, 0, 0, 1, 0, 0, 1, 17, 0, 0, 0, 6, 0, 0, 0, 3, 0, 0, 0, 1, 0, 0, 3, 236, 0, 0, 0, 7, 0, 0, 0, 10, 0, 0, 0, 2, 98, 100, 0, 52, 49, 53, 52, 97, 98, 0, 88, 158, 7, 7, 7, 7, 142, 173, 232, 1, 1, 2, 3, 4, 0, 0, 0, 3, 0, 0, 0, 20, 0, 0, 3, 232, 0, 0, 0, 6, 0, 0, 0, 0, 0, 0, 0, 1, 0, 0, 19, 228, 0, 0, 0, 8, 0, 0, 0, 4, 0, 0, 0, 2, 0, 0, 19, 229, 0, 0, 0, 4, 0, 0, 0, 16, 0, 0, 0, 1, 97, 98, 99, 0, 48, 48, 0, 99, 102, 48, 52, 97, 98, 0, 0, 0, 0, 0, 0, 8, 7, 9, 9, 200]
/-- two payload digest strings: first right, second wrong -/
def twoFirstRight : Bytes := lead ++ [142, 173, 232, 1, 170, 187, 204, 221, 0, 0, 0, 3, 0, 0, 0, 12, 0, 0, 1, 13, 0, 0, 0, 6, 0, 0, 0, 0, 0, 0, 0, 1, 0, 0, 1, 17, 0, 0, 0, 6, 0, 0, 0, 3, 0, 0, 0, 1, 0, 0, 3, 236, 0, 0, 0, 7, 0, 0, 0, 10, 0, 0, 0, 2, 98, 100, 0, 52, 49, 53, 52, 97, 98, 0, 88, 158, 7, 7, 7, 7, 142, 173, 232, 1, 1, 2, 3, 4, 0, 0, 0, 3, 0, 0, 0, 20, 0, 0, 3, 232, 0, 0, 0, 6, 0, 0, 0, 0, 0, 0, 0, 1, 0, 0, 19, 228, 0, 0, 0, 8, 0, 0, 0, 4, 0, 0, 0, 2, 0, 0, 19, 229, 0, 0, 0, 4, 0, 0, 0, 16, 0, 0, 0, 1, 97, 98, 99, 0, 99, 102, 48, 52, 97, 98, 0, 48, 48, 0, 0, 0, 0, 0, 0, 8, 7, 9, 9, 200]
/-- MD5 wrong AND unknown payload algorithm: the MD5 check comes first -/
def badMd5Algo99 : Bytes := lead ++ [142, 173, 232, 1, 170, 187, 204, 221, 0, 0, 0, 3, 0, 0, 0, 12, 0, 0, 1, 13, 0, 0, 0, 6, 0, 0, 0, 0, 0, 0, 0, 1, 0, 0, 1, 17, 0, 0, 0, 6, 0, 0, 0, 3, 0, 0, 0, 1, 0, 0, 3, 236, 0, 0, 0, 7, 0, 0, 0, 10, 0, 0, 0, 2, 97, 102, 0, 51, 49, 53, 48, 97, 98, 0, 84, 145, 7, 7, 7, 7, 142, 173, 232, 1, 1, 2, 3, 4, 0, 0, 0, 3, 0, 0, 0, 16, 0, 0, 3, 232, 0, 0, 0, 6, 0, 0, 0, 0, 0, 0, 0, 1, 0, 0, 19, 228, 0, 0, 0, 8, 0, 0, 0, 4, 0, 0, 0, 1, 0, 0, 19, 229, 0, 0, 0, 4, 0, 0, 0, 12, 0, 0, 0, 1, 97, 98, 99, 0, 99, 102, 48, 52, 97, 98, 0, 0, 0, 0, 0, 99, 7, 9, 9, 200]
/-- PAYLOADDIGEST stored as STRING (wrong type): not recorded -/
def pdAsString : Bytes := lead ++ [142, 173, 232, 1, 170, 187, 204, 221, 0, 0, 0, 3, 0, 0, 0, 12, 0, 0, 1, 13, 0, 0, 0, 6, 0, 0, 0, 0, 0, 0, 0, 1, 0, 0, 1, 17, 0, 0, 0, 6, 0, 0, 0, 3, 0, 0, 0, 1, 0, 0, 3, 236, 0, 0, 0, 7, 0, 0, 0, 10, 0, 0, 0, 2, 53, 50, 0, 53, 52, 53, 48, 97, 98, 0, 84, 51, 7, 7, 7, 7, 142, 173, 232, 1, 1, 2, 3, 4, 0, 0, 0, 3, 0, 0, 0, 16, 0, 0, 3, 232, 0, 0, 0, 6, 0, 0, 0, 0, 0, 0, 0, 1, 0, 0, 19, 228, 0, 0, 0, 6, 0, 0, 0, 4, 0, 0, 0, 1, 0, 0, 19, 229, 0, 0, 0, 4, 0, 0, 0, 12, 0, 0, 0, 1, 97, 98, 99, 0, 99, 102, 48, 52, 97, 98, 0, 0, 0, 0, 0, 8, 7, 9, 9, 200]
def run (bs : Bytes) : Out Unit := parsePackage bs >>= verifyDigests toyH.md5 toyH.sha1 toyH.sha256
def recs (bs : Bytes) : List Rec := match parsePackage bs with | .ok p => Recorded p | _ => []
def silent (bs : Bytes) : Bool := match parsePackage bs with | .ok p => dontcare p | _ => true

-- the good package records all four digests, they all match, and verification succeeds
example : recs good = [⟨.md5, some [84, 53]⟩, ⟨.sha1, some [53, 52]⟩, ⟨.sha256, some [53, 97, 53, 48, 97, 98]⟩,
    ⟨.payload 8, some [99, 102, 48, 52, 97, 98]⟩] := by decide +kernel
example : run good = .ok () := by decide +kernel
example : silent good = false := by decide +kernel
-- hypotheses of `digests_mismatch` are satisfiable, and each corruption gives exactly the mismatch error
example : run badMd5 = .err "mismatch" := by decide +kernel
example : run upperSha256 = .err "mismatch" ∧ silent upperSha256 = false := by decide +kernel
example : run upperPayload = .err "mismatch" ∧ silent upperPayload = false := by decide +kernel
example : run twoFirstWrong = .err "mismatch" ∧ run twoFirstRight = .ok () := by decide +kernel
-- unsupported algorithms: known and unknown numbers; check order
example : run algoMd5 = .err "unsupported" ∧ run algo99 = .err "enum-variant" := by decide +kernel
example : run badMd5Algo99 = .err "mismatch" := by decide +kernel
example : (recs algo99).map (·.which) = [.md5, .sha1, .sha256, .payload 99] := by decide +kernel
-- the don't-care region is inhabited, and the model still behaves as the code does there
example : run emptyArray = .err "mismatch" ∧ silent emptyArray = true := by decide +kernel
example : run pdAsString = .ok () ∧ silent pdAsString = true ∧ (recs pdAsString).length = 3 := by decide +kernel

end RpmVerif.C03
