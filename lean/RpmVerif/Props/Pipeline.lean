import RpmVerif.Lemmas.Pipeline
import RpmVerif.Props.C01
/-!
# Pipeline — end-to-end guarantees for packages made by the library's own builder

The per-property files prove one layer each (C01 / C06 header codec and read-back, C07 cpio, C08 recorded
digests, C03 / C10 `verify_digests`, `sign`, `verify_signature`, C09 validity, C16 offsets). This file COMPOSES
them at the package `PackageBuilder::build` returns — `Bld.build c now (hexOf sha256) archive payload`, written `𝐁`
below, with `𝐱 = mkCtx c now (hexOf sha256 payload) (hexOf sha256 archive)` its header context — for EVERY
configuration `c`, clock value `now`, archive and payload bytes, EVERY hash functions `md5 sha1 sha256` (the builder
is given `hexOf sha256 = hex ∘ sha256`, which is what `hex::encode(Sha256::digest(..))` is) and EVERY signature
scheme `S` satisfying C10's named laws. No layer is re-proved here.

* `build_verifies_digests`   `verify_digests` accepts every package `build` returns (no hypothesis at all).
* `build_reparse`, `build_reparse_verifies`   written and parsed again it is the same value, which verifies.
* `build_payload_digest_ok`, `build_metadata_wf`, `build_unsigned`   the start hypotheses of C10 hold for `𝐁`, hence
* `built_history_total / _digests / _verify / _verify_none / _keyids / _keyids_cleared / _bytes / _reparse`
  build, then ANY sequence of sign / clear / write + re-parse: never fails, digests verify (also after the empty
  history), it verifies with exactly the last signer's key, reports exactly that key id, main header, lead and
  payload are byte-identical to the built ones.
* `build_sign_verifies`, `build_sign_keyids`, `build_sign_digests`, `build_sign_reparse`   `build_and_sign`.
* `build_offsets`   the reported segment offsets are the real boundaries in the written bytes.
* `build_files_roundtrip`   `files()` on the built package (paths and sizes as the accessors read them from the
  built header, payload through any round-tripping codec) yields the builder's files in path order, each under
  its own index with its exact content; `build_valid` — C09's statement at `𝐁`.
* `build_file_entries`, `build_file_entries_reparsed`, `built_history_file_entries`   `get_file_entries()` on the built
  package, on the written and re-parsed package, and after ANY sign / clear / write + re-parse history returns one
  record per builder file with its exact path, mode, owner, group, clamped mtime, size, flags, digest, capabilities
  and link target (C06 `readback_file_entries` composed with the signature headers the library installs).
* `built_package_sound`   all of it as one statement.

Hypotheses (all explicit): `C06.Valid 𝐱` (canonical strings / integers, main header below 2 GiB — needed for
everything that goes through the written bytes, not for `build_verifies_digests`); `DigestFits` (the hex digest
of the main header is shorter than 2 GiB — an ARBITRARY function `sha256` may return anything; any real digest
has 64 characters; implied by C10's `SigRecsOk`); C10's scheme laws.
-/
namespace RpmVerif.Pipeline
open RpmVerif.Hdr RpmVerif.Gen RpmVerif.Bld RpmVerif.Digest RpmVerif.Sign RpmVerif.Cpio

section built
variable (md5 sha1 sha256 : Bytes → Bytes) (c : Cfg) (now : Nat) (archive payload : Bytes)

/-- the package `PackageBuilder::build` returns -/
local notation "𝐁" => build c now (hexOf sha256) archive payload
/-- the context of its main header: build time and the two payload digests -/
local notation "𝐱" => mkCtx c now (hexOf sha256 payload) (hexOf sha256 archive)

/-! ### 0. the parts of the built package -/

theorem build_header : (𝐁).md.header = C06.hdrOf 𝐱 := rfl
theorem build_lead : (𝐁).md.lead = leadNew c.name := rfl
theorem build_content : (𝐁).content = payload := rfl
/-- the signature header of `build` is the one `clear_signatures` installs: the header digest only -/
theorem build_fresh : Fresh sha256 𝐁 := rfl

/-! ### 1. every built package passes `verify_digests` -/

/-- the payload block of `verify_digests` accepts: PAYLOADDIGEST = [hex sha256 payload] (C08), algorithm 8 = SHA-256 -/
theorem build_payload_digest_ok : C10.PayloadDigestOk sha256 𝐁 := by
  have h1 := C08.payload_digest 𝐱
  have h2 := C08.payload_digest_algo 𝐱
  show checkPayload sha256 ⟨⟨_, _, C06.hdrOf 𝐱⟩, payload⟩ = .ok ()
  simp only [checkPayload, h1, h2, algo8]
  simp [mkCtx]

/-- **build_verifies_digests**: no MD5 / SHA1 tag, SHA256 = hex digest of the written main header, payload digest
= hex digest of the payload under algorithm 8 — for every configuration, valid or not -/
theorem build_verifies_digests : verifyDigests md5 sha1 sha256 𝐁 = .ok () :=
  fresh_verifies md5 sha1 (build_fresh sha256 c now archive payload) (build_payload_digest_ok sha256 c now archive payload)

/-- nothing `verify_signature` looks at is present: an unsigned package verifies with no key -/
theorem build_unsigned : C10.Unsigned (𝐁).md.signature :=
  fresh_unsigned (build_fresh sha256 c now archive payload)

/-! ### 2. write → parse -/

/-- the built metadata is well formed (so C01 / C06 / C10 / C16 apply) -/
theorem build_metadata_wf (v : C06.Valid 𝐱) (hfit : DigestFits sha256 (writeHeader (C06.hdrOf 𝐱))) : MetadataWF (𝐁).md :=
  fresh_wf (build_fresh sha256 c now archive payload) (C06.leadNew_wf _) (C06.hdr_wf v) hfit

/-- C06 `build_reparse` at the built package -/
theorem build_reparse (v : C06.Valid 𝐱) (hfit : DigestFits sha256 (writeHeader (C06.hdrOf 𝐱))) :
    parsePackage (writePackage 𝐁) = .ok 𝐁 :=
  C06.build_reparse v (clearRecs_ok (sigRecsOk_noKey hfit)) payload

/-- **build_reparse_verifies**: what `Package::parse` returns for the written package is the built value, and it
passes `verify_digests`; the written bytes are already canonical (C01: reserved bytes and signature padding
zero), so parse → write reproduces the file byte for byte -/
theorem build_reparse_verifies (v : C06.Valid 𝐱) (hfit : DigestFits sha256 (writeHeader (C06.hdrOf 𝐱))) :
    ∃ p', parsePackage (writePackage 𝐁) = .ok p' ∧ p' = 𝐁 ∧ verifyDigests md5 sha1 sha256 p' = .ok ()
      ∧ writePackage p' = writePackage 𝐁 ∧ Canon.canon (writePackage 𝐁) = writePackage 𝐁 :=
  ⟨_, build_reparse sha256 c now archive payload v hfit, rfl, build_verifies_digests md5 sha1 sha256 c now archive payload, rfl,
   (C01.package_roundtrip (build_reparse sha256 c now archive payload v hfit)).1.symm⟩

/-! ### 3. build, then any signing history (C10 at `p0 = 𝐁`) -/
section history
variable {S : SigScheme}

/-- **no history fails**; its result is the built package with the signature header of the final signature state -/
theorem built_history_total (hl : S.LegacyOk) (v : C06.Valid 𝐱) (ok : SigRecsOk S sha256 (writeHeader (C06.hdrOf 𝐱)))
    (ops : List (Op S.Key)) :
    run S sha256 ops 𝐁 = .ok (C10.stateOf S sha256 𝐁 (stateAfter .initial ops)) :=
  C10.run_total hl (build_metadata_wf sha256 c now archive payload v ok.sha) ok ops

/-- **digests verify after every history** (the empty one and write + re-parse only included) -/
theorem built_history_digests (hl : S.LegacyOk) (v : C06.Valid 𝐱) (ok : SigRecsOk S sha256 (writeHeader (C06.hdrOf 𝐱)))
    (ops : List (Op S.Key)) {p : Package} (h : run S sha256 ops 𝐁 = .ok p) :
    verifyDigests md5 sha1 sha256 p = .ok () :=
  fresh_history_digests (build_fresh sha256 c now archive payload) hl (build_metadata_wf sha256 c now archive payload v ok.sha) ok
    (build_payload_digest_ok sha256 c now archive payload) ops h

/-- **exactly the last signer's key verifies** -/
theorem built_history_verify (hl : S.LegacyOk) (hc : S.Correct) (hbind : S.Binds) (hb64 : S.B64) (v : C06.Valid 𝐱)
    (ok : SigRecsOk S sha256 (writeHeader (C06.hdrOf 𝐱))) (ops : List (Op S.Key)) (k : S.Key)
    (hs : lastSigner ops = some k) {p : Package} (h : run S sha256 ops 𝐁 = .ok p) (k' : S.Key) :
    verifyWith S md5 sha1 sha256 k' p = .ok () ↔ k' = k :=
  C10.history_verify hl hc hbind hb64 (build_metadata_wf sha256 c now archive payload v ok.sha) ok
    (build_payload_digest_ok sha256 c now archive payload) ops k hs h k'

/-- never signed, or cleared since the last signature: no key verifies -/
theorem built_history_verify_none (hl : S.LegacyOk) (v : C06.Valid 𝐱)
    (ok : SigRecsOk S sha256 (writeHeader (C06.hdrOf 𝐱))) (ops : List (Op S.Key))
    (hs : lastSigner ops = none) {p : Package} (h : run S sha256 ops 𝐁 = .ok p) (k' : S.Key) :
    verifyWith S md5 sha1 sha256 k' p ≠ .ok () :=
  C10.history_verify_none hl (build_metadata_wf sha256 c now archive payload v ok.sha) ok
    (build_unsigned sha256 c now archive payload) ops hs h k'

/-- **exactly the last signer's key id is reported** -/
theorem built_history_keyids (hl : S.LegacyOk) (hi : S.IssuerOk) (hb64 : S.B64) (v : C06.Valid 𝐱)
    (ok : SigRecsOk S sha256 (writeHeader (C06.hdrOf 𝐱))) (ops : List (Op S.Key)) (k : S.Key)
    (hs : lastSigner ops = some k) {p : Package} (h : run S sha256 ops 𝐁 = .ok p) :
    keyIds S p = .ok [S.keyId k] :=
  C10.history_keyids hl hi hb64 (build_metadata_wf sha256 c now archive payload v ok.sha) ok ops k hs h

/-- after a clear no signer is reported -/
theorem built_history_keyids_cleared (hl : S.LegacyOk) (v : C06.Valid 𝐱)
    (ok : SigRecsOk S sha256 (writeHeader (C06.hdrOf 𝐱))) (ops : List (Op S.Key))
    (hs : stateAfter .initial ops = .cleared) {p : Package} (h : run S sha256 ops 𝐁 = .ok p) :
    keyIds S p = .err "nosig" :=
  C10.history_keyids_cleared hl (build_metadata_wf sha256 c now archive payload v ok.sha) ok ops hs h

/-- **main header, lead and payload are the built ones** — as values and as serialised bytes -/
theorem built_history_bytes (hl : S.LegacyOk) (v : C06.Valid 𝐱) (ok : SigRecsOk S sha256 (writeHeader (C06.hdrOf 𝐱)))
    (ops : List (Op S.Key)) {p : Package} (h : run S sha256 ops 𝐁 = .ok p) :
    writeHeader p.md.header = writeHeader (C06.hdrOf 𝐱) ∧ p.content = payload
    ∧ p.md.header = C06.hdrOf 𝐱 ∧ p.md.lead = leadNew c.name :=
  C10.history_bytes (p0 := 𝐁) hl (build_metadata_wf sha256 c now archive payload v ok.sha) ok ops h

/-- every reachable package is well formed and write + re-parse is the identity on it -/
theorem built_history_reparse (hl : S.LegacyOk) (v : C06.Valid 𝐱) (ok : SigRecsOk S sha256 (writeHeader (C06.hdrOf 𝐱)))
    (ops : List (Op S.Key)) {p : Package} (h : run S sha256 ops 𝐁 = .ok p) :
    MetadataWF p.md ∧ parsePackage (writePackage p) = .ok p :=
  ⟨C10.history_wf hl (build_metadata_wf sha256 c now archive payload v ok.sha) ok ops h,
   C10.history_writeParse hl (build_metadata_wf sha256 c now archive payload v ok.sha) ok ops h⟩

end history

/-! ### 4. `build_and_sign` -/
section buildAndSign
variable (S : SigScheme)

/-- `PackageBuilder::build_and_sign(signer of k)`: the signature time is the clock read `now'` taken before `build`
reads the clock itself (`now`), clamped by the source date like the build time; then `build`, then
`sign_with_timestamp` -/
def buildAndSign (now' : Nat) (k : S.Key) : Package :=
  signOp S sha256 k (clampNow c.sourceDate now') 𝐁

variable {S}

/-- **build_sign_verifies**: the package `build_and_sign` returns verifies with the signer's key and with no other -/
theorem build_sign_verifies (hl : S.LegacyOk) (hc : S.Correct) (hbind : S.Binds) (hb64 : S.B64) (v : C06.Valid 𝐱)
    (ok : SigRecsOk S sha256 (writeHeader (C06.hdrOf 𝐱))) (now' : Nat) (k k' : S.Key) :
    verifyWith S md5 sha1 sha256 k' (buildAndSign sha256 c now archive payload S now' k) = .ok () ↔ k' = k :=
  built_history_verify md5 sha1 sha256 c now archive payload hl hc hbind hb64 v ok [.sign k (clampNow c.sourceDate now')] k
    (lastSigner_sign _ _) (run_sign S sha256 _ _ _) k'

/-- … reports exactly the signer's key id … -/
theorem build_sign_keyids (hl : S.LegacyOk) (hi : S.IssuerOk) (hb64 : S.B64) (v : C06.Valid 𝐱)
    (ok : SigRecsOk S sha256 (writeHeader (C06.hdrOf 𝐱))) (now' : Nat) (k : S.Key) :
    keyIds S (buildAndSign sha256 c now archive payload S now' k) = .ok [S.keyId k] :=
  built_history_keyids sha256 c now archive payload hl hi hb64 v ok [.sign k (clampNow c.sourceDate now')] k
    (lastSigner_sign _ _) (run_sign S sha256 _ _ _)

/-- … passes `verify_digests` … -/
theorem build_sign_digests (hl : S.LegacyOk) (v : C06.Valid 𝐱)
    (ok : SigRecsOk S sha256 (writeHeader (C06.hdrOf 𝐱))) (now' : Nat) (k : S.Key) :
    verifyDigests md5 sha1 sha256 (buildAndSign sha256 c now archive payload S now' k) = .ok () :=
  built_history_digests md5 sha1 sha256 c now archive payload hl v ok [.sign k (clampNow c.sourceDate now')]
    (run_sign S sha256 _ _ _)

/-- … and survives write → parse unchanged, with the main header and payload of the unsigned build -/
theorem build_sign_reparse (hl : S.LegacyOk) (v : C06.Valid 𝐱)
    (ok : SigRecsOk S sha256 (writeHeader (C06.hdrOf 𝐱))) (now' : Nat) (k : S.Key) :
    parsePackage (writePackage (buildAndSign sha256 c now archive payload S now' k))
        = .ok (buildAndSign sha256 c now archive payload S now' k)
    ∧ (buildAndSign sha256 c now archive payload S now' k).md.header = C06.hdrOf 𝐱
    ∧ (buildAndSign sha256 c now archive payload S now' k).content = payload :=
  ⟨(built_history_reparse sha256 c now archive payload hl v ok [.sign k (clampNow c.sourceDate now')]
      (run_sign S sha256 _ _ _)).2, rfl, rfl⟩

end buildAndSign

/-! ### 5. segment offsets -/

/-- **build_offsets**: C16 `offsets_exact` at the built package — the offsets `get_package_segment_offsets`
reports are the real boundaries of lead, signature header, main header and payload in the written file -/
theorem build_offsets (v : C06.Valid 𝐱) (hfit : DigestFits sha256 (writeHeader (C06.hdrOf 𝐱))) :
    let o := offsets (𝐁).md
    let w := writePackage 𝐁
    o.lead = 0 ∧ o.sig = (writeLead (leadNew c.name)).length
    ∧ w.drop o.sig = writeSignature (𝐁).md.signature ++ writeHeader (C06.hdrOf 𝐱) ++ payload
    ∧ w.drop o.hdr = writeHeader (C06.hdrOf 𝐱) ++ payload
    ∧ w.drop o.payload = payload
    ∧ w.length - o.payload = payload.length
    ∧ 0 < o.sig ∧ o.sig < o.hdr ∧ o.hdr < o.payload :=
  C16.offsets_exact (build_metadata_wf sha256 c now archive payload v hfit) payload

end built

/-! ### 6. the files of a built package -/
section files

/-- the size list as `get_file_entries` reads it: LONGFILESIZES when present, else FILESIZES -/
def fileSizes (h : Header) : Out (List Nat) :=
  match getU64Array h IndexTag.RPMTAG_LONGFILESIZES with
  | .ok v => .ok v
  | _ => getU32Array h IndexTag.RPMTAG_FILESIZES

/-- `Package::files()` as far as paths, sizes and contents go: `get_file_entries` returns no entries when
FILEMODES is absent, else paths come from `get_file_paths` and sizes from the size tags; the payload goes
through the decompressor and the cpio iterator (C07's `Cpio.files`) -/
def pkgFiles (decompress : Bytes → Out Bytes) (p : Package) : Out (List (Out (Nat × Bytes))) :=
  if Acc.isNotFound (getU16Array p.md.header IndexTag.RPMTAG_FILEMODES) then Cpio.files decompress p.content [] []
  else do
    let paths ← Acc.getFilePaths p.md.header
    let sizes ← fileSizes p.md.header
    Cpio.files decompress p.content paths sizes

variable (sha256 : Bytes → Bytes) (c : Cfg) (now : Nat)

/-- what `files()` reads from the built header: the builder's paths (`dir ++ base name`) and sizes, in file order -/
theorem build_file_lists (archive payload : Bytes) (hd : DirsOk c) (decompress : Bytes → Out Bytes) :
    pkgFiles decompress (build c now (hexOf sha256) archive payload) =
      Cpio.files decompress payload (c.files.map fun f => Acc.pathJoin f.dir f.baseName) (c.files.map (·.size)) := by
  let x := mkCtx c now (hexOf sha256 payload) (hexOf sha256 archive)
  show pkgFiles decompress ⟨⟨_, _, C06.hdrOf x⟩, payload⟩ = _
  have m19 : (IndexTag.RPMTAG_LONGFILESIZES, fun x : Ctx => if x.c.files.isEmpty || !usesLargeFiles x.c then none
      else some (IndexData.int64 (x.c.files.map (·.size)))) ∈ slots := C06.mem_slot (i := 19) rfl
  have m20 : (IndexTag.RPMTAG_FILESIZES, fun x : Ctx => if x.c.files.isEmpty || usesLargeFiles x.c then none
      else some (IndexData.int32 (x.c.files.map (·.size)))) ∈ slots := C06.mem_slot (i := 20) rfl
  cases he : c.files.isEmpty with
  | true =>
    have hemp : c.files = [] := List.isEmpty_iff.mp he
    have e : getU16Array (C06.hdrOf x) IndexTag.RPMTAG_FILEMODES = .err "notfound" :=
      C06.getter_of_empty_slot IndexData.asU16Array (x := x)
        (s := (IndexTag.RPMTAG_FILEMODES, whenFiles fun x => .int16 (x.c.files.map (·.mode)))) (C06.mem_slot (i := 21) rfl)
        (if_pos he)
    simp only [pkgFiles, e, Acc.isNotFound, if_true, hemp, List.map_nil]
  | false =>
    have e : getU16Array (C06.hdrOf x) IndexTag.RPMTAG_FILEMODES = .ok (c.files.map (·.mode)) := C06.readback_modes x he
    have ep := C06.readback_paths x he hd
    have es : fileSizes (C06.hdrOf x) = .ok (c.files.map (·.size)) := by
      unfold fileSizes
      cases hl : usesLargeFiles c with
      | true =>
        rw [show getU64Array = getWith IndexData.asU64Array from rfl,
          C06.getter_of_slot IndexData.asU64Array (x := x) m19 (d := .int64 (c.files.map (·.size))) (a := c.files.map (·.size))
            (by show (if c.files.isEmpty || !usesLargeFiles c then none else _) = _; simp only [he, hl]; rfl) rfl]
      | false =>
        rw [show getU64Array = getWith IndexData.asU64Array from rfl,
          C06.getter_of_empty_slot IndexData.asU64Array (x := x) m19
            (by show (if c.files.isEmpty || !usesLargeFiles c then none else _) = _; simp only [he, hl]; rfl)]
        exact C06.getter_of_slot IndexData.asU32Array (x := x) m20 (d := .int32 (c.files.map (·.size))) (a := c.files.map (·.size))
            (by show (if c.files.isEmpty || usesLargeFiles c then none else _) = _; simp only [he, hl]; rfl) rfl
    simp only [pkgFiles, e, Acc.isNotFound, Bool.false_eq_true, if_false, es]
    rw [show (Acc.getFilePaths (C06.hdrOf x)) = .ok (c.files.map fun f => Acc.pathJoin f.dir f.baseName) from ep]
    rfl

/-- **build_files_roundtrip**: the builder's files `fes` (entry + content, in `BTreeMap` = path order; `add_data`
guarantees `FileOk`, `DirShape`, `DirsOk` — C17), archived by `prepare_data` (standard or large-file form), compressed
by ANY codec that round-trips: `files()` on the built package yields exactly these files, in that order, each under
its own index with its exact content -/
theorem build_files_roundtrip (fes : List (FileE × Bytes)) (hfiles : c.files = fes.map (·.1)) (hd : DirsOk c)
    (hf : ∀ p ∈ fes, C09.FileOk p) (hs : ∀ p ∈ fes, DirShape p.1) (hnd : (fes.map (·.1.cpioPath)).Nodup)
    (hn : fes.length < 4294967295) {uid gid : Nat} (hu : uid < 4294967296) (hg : gid < 4294967296)
    (compress : Bytes → Bytes) (decompress : Bytes → Out Bytes) (hcd : ∀ b, decompress (compress b) = .ok b) :
    pkgFiles decompress (build c now (hexOf sha256) (C09.archiveFor c uid gid fes) (compress (C09.archiveFor c uid gid fes)))
      = .ok (fes.zipIdx.map fun x => .ok (x.2, x.1.2)) := by
  rw [build_file_lists sha256 c now _ _ hd, hfiles, header_paths_eq hf hs, header_sizes_eq hf]
  have hok : ∀ f ∈ fes.map C09.toFileIn, f.OK := by
    intro f hfm; obtain ⟨p, hp, rfl⟩ := List.mem_map.mp hfm; exact (hf p hp).ok
  have hout : ((fes.map C09.toFileIn).zipIdx.map fun x => (Out.ok (x.2, x.1.content) : Out (Nat × Bytes)))
      = fes.zipIdx.map fun x => .ok (x.2, x.1.2) := by
    apply List.ext_getElem
    · simp
    · intro i h1 h2; simp [C09.toFileIn]
  unfold C09.archiveFor
  split
  · rw [C07.files_of_build_large compress decompress hcd (fes.map C09.toFileIn) (by simp; omega), hout]
  · rw [C07.files_of_build compress decompress hcd hu hg (fes.map C09.toFileIn) hok (by simp; omega)
      (header_paths_nodup hf hs hnd), hout]

/-- **build_valid** (C09 at the built package): it re-parses to itself and satisfies every structural rule of
`PackageValid` — lead, both headers, signature-header limits, tag types, signature padding, compressor magic, PAYLOADFLAGS,
rpmlib() features (all thirteen), cpio archive -/
theorem build_valid (archive payload : Bytes) {fes : List (FileE × Bytes)}
    (ok : C09.CfgOk (mkCtx c now (hexOf sha256 payload) (hexOf sha256 archive)) fes)
    (hsha : (shaHex sha256 (writeHeader (C06.hdrOf (mkCtx c now (hexOf sha256 payload) (hexOf sha256 archive))))).length < 67108000)
    {uid gid : Nat} (hu : uid < 4294967296) (hg : gid < 4294967296)
    (hc : C09.CodecMagic c.compression payload (C09.archiveFor c uid gid fes)) :
    parsePackage (writePackage (build c now (hexOf sha256) archive payload)) = .ok (build c now (hexOf sha256) archive payload)
    ∧ RpmValid.PackageValid (writePackage (build c now (hexOf sha256) archive payload)) (build c now (hexOf sha256) archive payload)
        (C09.archiveFor c uid gid fes) :=
  C09.build_valid ok (sigsOk_nil hsha) hu hg payload hc

/-! ### 6b. `get_file_entries()` of a built package (C06 `readback_file_entries` at `build`'s own signature headers) -/

/-- **build_file_entries**: `get_file_entries()` on the package `build` returns lists exactly the builder's files, in
path order — destination path, mode, owner, group, `min(mtime, source_date)`, size, flags, SHA-256 digest,
capabilities, link target (`C06.entryOf`). `DirsOk`: `add_data` registers every file's directory; `DigestsOk`:
every stored digest text is empty or 64 characters (`add_data` stores a hex SHA-256). No validity hypothesis. -/
theorem build_file_entries (archive payload : Bytes) (hd : DirsOk c) (hdig : C06.DigestsOk c) :
    Acc.getFileEntries (build c now (hexOf sha256) archive payload).md.signature
        (build c now (hexOf sha256) archive payload).md.header =
      .ok (c.files.map (C06.entryOf (mkCtx c now (hexOf sha256 payload) (hexOf sha256 archive)))) :=
  C06.readback_file_entries_build c now (hexOf sha256) archive payload hd hdig

/-- … and on what `Package::parse` returns for the written package -/
theorem build_file_entries_reparsed (archive payload : Bytes)
    (v : C06.Valid (mkCtx c now (hexOf sha256 payload) (hexOf sha256 archive)))
    (hfit : DigestFits sha256 (writeHeader (C06.hdrOf (mkCtx c now (hexOf sha256 payload) (hexOf sha256 archive)))))
    (hd : DirsOk c) (hdig : C06.DigestsOk c) :
    ∃ p', parsePackage (writePackage (build c now (hexOf sha256) archive payload)) = .ok p'
      ∧ Acc.getFileEntries p'.md.signature p'.md.header =
          .ok (c.files.map (C06.entryOf (mkCtx c now (hexOf sha256 payload) (hexOf sha256 archive)))) :=
  ⟨_, build_reparse sha256 c now archive payload v hfit, build_file_entries sha256 c now archive payload hd hdig⟩

/-- no signature header the library installs (by `build`, `sign`, `clear_signatures`) carries IMA file signatures -/
theorem sigFor_no_ima {S : SigScheme} (hl : S.LegacyOk) (archive payload : Bytes) (s : SigState S.Key) :
    getStringArray (C10.sigFor S sha256 (build c now (hexOf sha256) archive payload) s) SigTag.RPMSIGTAG_FILESIGNATURES
      = .err "notfound" := by
  cases s with
  | initial => exact C06.signatureHeader_no_ima [] _ (fun _ h => by cases h)
  | cleared => exact C06.signatureHeader_no_ima [] _ (fun _ h => by cases h)
  | signed k t =>
    refine C06.signatureHeader_no_ima _ _ (fun s h => ?_)
    simp only [List.getLast?_singleton, Option.some.injEq] at h
    subst h
    rcases hl k with e | e <;> (show S.legacyTag k ≠ _; rw [e]; decide)

/-- **built_history_file_entries**: build, then ANY sequence of sign / clear / write + re-parse — `get_file_entries()`
on the result still lists exactly the builder's files -/
theorem built_history_file_entries {S : SigScheme} (archive payload : Bytes) (hl : S.LegacyOk)
    (v : C06.Valid (mkCtx c now (hexOf sha256 payload) (hexOf sha256 archive)))
    (ok : SigRecsOk S sha256 (writeHeader (C06.hdrOf (mkCtx c now (hexOf sha256 payload) (hexOf sha256 archive)))))
    (hd : DirsOk c) (hdig : C06.DigestsOk c) (ops : List (Op S.Key)) {p : Package}
    (h : run S sha256 ops (build c now (hexOf sha256) archive payload) = .ok p) :
    Acc.getFileEntries p.md.signature p.md.header =
      .ok (c.files.map (C06.entryOf (mkCtx c now (hexOf sha256 payload) (hexOf sha256 archive)))) := by
  rw [built_history_total sha256 c now archive payload hl v ok ops] at h
  cases h
  exact C06.readback_file_entries (mkCtx c now (hexOf sha256 payload) (hexOf sha256 archive)) _
    (sigFor_no_ima sha256 c now hl archive payload _) hd hdig

end files

/-! ### 6c. archive, payload and file digests of `build`, with the archive written the way the code writes it

Everything above takes `archive` and `payload` as given.  `ShaSink.buildWith` (Model/ShaSink.lean) is `build` with the
archive part of `prepare_data` spelled out: the cpio writer on top of `Sha256Writer` on top of the compressor (any
behaviour `comp`, any `finish_compression` = `fin`).  When it returns a package, that package IS `Bld.build` at the cpio
archive of the builder's files and at the payload the compressor handed back for exactly that input — so every theorem of
this file applies to it with `archive := C09.archiveFor c uid gid fes`. -/
section stacked
open RpmVerif.ShaSink

theorem archiveOfFiles_eq (c : Cfg) (uid gid : Nat) (fes : List (FileE × Bytes)) :
    C08.archiveOfFiles (usesLargeFiles c) uid gid (fes.map C09.toFileIn) = C09.archiveFor c uid gid fes := rfl

/-- the large-file switch off ⇒ every content fits a `u32` (`entry.size` = `content.len()`, threshold ≤ `u32::MAX`) -/
theorem contents_fit (c : Cfg) (fes : List (FileE × Bytes)) (hfiles : c.files = fes.map (·.1))
    (hsz : ∀ p ∈ fes, p.1.size = p.2.length) (hthr : c.largeFileThreshold ≤ 4294967295) (hl : usesLargeFiles c = false) :
    ∀ f ∈ fes.map C09.toFileIn, f.content.length ≤ 4294967295 := by
  intro f hf
  obtain ⟨p, hp, rfl⟩ := List.mem_map.mp hf
  have h1 : p.1.size ∈ c.files.map (·.size) := by
    rw [hfiles, List.map_map]; exact List.mem_map.mpr ⟨p, hp, rfl⟩
  have h2 := PWriter.sum_le_of_mem h1
  have h3 : ¬ (combinedSize c > c.largeFileThreshold) := by simpa [usesLargeFiles] using hl
  unfold combinedSize at h3
  show p.2.length ≤ 4294967295
  rw [← hsz p hp]; omega

variable (sha256 : Bytes → Bytes) (c : Cfg) (now : Nat)

/-- **build_with_spec** — the package `build` returns, with the archive written through the hashing writer into the
compressor, is `Bld.build` at
* `archive` = the cpio archive of the builder's files (standard or large-file form), which is what was HASHED for
  PAYLOADDIGESTALT and what the compressor was FED, and
* `payload` = what `finish_compression` returned for the compressor after exactly that input (`comp` fresh: `out = []`).
Hypotheses: `c.files` are the header-side entries of `fes`, sizes are content lengths (`add_data`; C08
`file_digest_is_content_digest`), the large-file threshold is at most `u32::MAX` (it is `u32::MAX`, or the hook's value). -/
theorem build_with_spec (fin : PWriter.Sink → Out Bytes) {uid gid : Nat} (fes : List (FileE × Bytes)) (comp : PWriter.Sink)
    (hfiles : c.files = fes.map (·.1)) (hsz : ∀ p ∈ fes, p.1.size = p.2.length)
    (hthr : c.largeFileThreshold ≤ 4294967295) (hfresh : comp.out = []) {p : Package}
    (h : buildWith fin c now (hexOf sha256) uid gid (fes.map C09.toFileIn) comp = .ok p) :
    p = build c now (hexOf sha256) (C09.archiveFor c uid gid fes) p.content
    ∧ ∃ comp', comp'.out = C09.archiveFor c uid gid fes ∧ fin comp' = .ok p.content := by
  unfold buildWith at h
  cases hd : prepareDigests fin (hexOf sha256) (usesLargeFiles c) uid gid (fes.map C09.toFileIn) comp with
  | ok d =>
    rw [hd] at h
    simp only [Out.ok.injEq] at h
    obtain ⟨e1, e2, comp', e3, e4⟩ := C08.prepare_digests_spec fin (hexOf sha256) (usesLargeFiles c) uid gid
      (fes.map C09.toFileIn) comp (fun hl => contents_fit c fes hfiles hsz hthr hl) d hd
    rw [archiveOfFiles_eq] at e1 e3
    rw [hfresh, List.nil_append] at e3
    subst h
    refine ⟨?_, comp', e3, e4⟩
    simp only [build, e1, e2]
  | err x => rw [hd] at h; cases h
  | panic x => rw [hd] at h; cases h

/-- **build_with_digests** — the three recorded digests of that package: PAYLOADDIGESTALT is the digest of the cpio
archive of the files, PAYLOADDIGEST the digest of the payload (the compressor's output for that archive), RPMSIGTAG_SHA256
the digest of the serialised main header -/
theorem build_with_digests (fin : PWriter.Sink → Out Bytes) {uid gid : Nat} (fes : List (FileE × Bytes)) (comp : PWriter.Sink)
    (hfiles : c.files = fes.map (·.1)) (hsz : ∀ p ∈ fes, p.1.size = p.2.length)
    (hthr : c.largeFileThreshold ≤ 4294967295) (hfresh : comp.out = []) {p : Package}
    (h : buildWith fin c now (hexOf sha256) uid gid (fes.map C09.toFileIn) comp = .ok p) :
    getStringArray p.md.header IndexTag.RPMTAG_PAYLOADDIGESTALT = .ok [hexOf sha256 (C09.archiveFor c uid gid fes)]
    ∧ getStringArray p.md.header IndexTag.RPMTAG_PAYLOADDIGEST = .ok [hexOf sha256 p.content]
    ∧ getString p.md.signature SigTag.RPMSIGTAG_SHA256 = .ok (hexOf sha256 (writeHeader p.md.header))
    ∧ ∃ comp', comp'.out = C09.archiveFor c uid gid fes ∧ fin comp' = .ok p.content := by
  obtain ⟨e, hc⟩ := build_with_spec sha256 c now fin fes comp hfiles hsz hthr hfresh h
  have hb := C08.build_digests c now (hexOf sha256) (C09.archiveFor c uid gid fes) p.content
  simp only at hb
  rw [← e] at hb
  exact ⟨hb.2.2, hb.2.1, hb.1, hc⟩

/-- `files()` on a package whose payload DECOMPRESSES to the builder's archive (no compressor function needed) -/
theorem build_files_of_decompressed (fes : List (FileE × Bytes)) (hfiles : c.files = fes.map (·.1)) (hd : DirsOk c)
    (hf : ∀ p ∈ fes, C09.FileOk p) (hs : ∀ p ∈ fes, DirShape p.1) (hnd : (fes.map (·.1.cpioPath)).Nodup)
    (hn : fes.length < 4294967295) {uid gid : Nat} (hu : uid < 4294967296) (hg : gid < 4294967296)
    (decompress : Bytes → Out Bytes) (payload : Bytes) (hdec : decompress payload = .ok (C09.archiveFor c uid gid fes)) :
    pkgFiles decompress (build c now (hexOf sha256) (C09.archiveFor c uid gid fes) payload)
      = .ok (fes.zipIdx.map fun x => .ok (x.2, x.1.2)) := by
  have h := build_files_roundtrip sha256 c now fes hfiles hd hf hs hnd hn hu hg id .ok (fun _ => rfl)
  rw [build_file_lists sha256 c now _ _ hd] at h ⊢
  simp only [Cpio.files, id, Out.bind_ok, hdec] at h ⊢
  exact h

/-- **built_item_digests** — the digest and size clauses of C07 for packages built by the library, end to end: the
archive written through the hashing writer and ANY compressor whose output decompresses to its input, `files()` on the
package `build` returns. Every item `(k, content)` it yields — `content` handed out with the metadata of header file `k` —
satisfies: RPMTAG_FILEDIGESTS[k] is the digest of `content`, and the recorded size of file `k` is `content.len()`.
`hinv` is what C08 `file_digest_is_content_digest` proves for every sequence of `with_file` calls. -/
theorem built_item_digests (fin : PWriter.Sink → Out Bytes) (decompress : Bytes → Out Bytes)
    (hcd : ∀ s q, fin s = .ok q → decompress q = .ok s.out)
    {uid gid : Nat} (hu : uid < 4294967296) (hg : gid < 4294967296)
    (fes : List (FileE × Bytes)) (comp : PWriter.Sink) (hfiles : c.files = fes.map (·.1)) (hd : DirsOk c)
    (hf : ∀ p ∈ fes, C09.FileOk p) (hs : ∀ p ∈ fes, DirShape p.1) (hnd : (fes.map (·.1.cpioPath)).Nodup)
    (hn : fes.length < 4294967295) (hne : fes ≠ [])
    (hinv : ∀ p ∈ fes, p.1.shaHex = hexOf sha256 p.2 ∧ p.1.size = p.2.length)
    (hthr : c.largeFileThreshold ≤ 4294967295) (hfresh : comp.out = []) {p : Package}
    (h : buildWith fin c now (hexOf sha256) uid gid (fes.map C09.toFileIn) comp = .ok p) :
    ∃ digests sizes items,
      getStringArray p.md.header IndexTag.RPMTAG_FILEDIGESTS = .ok digests
      ∧ fileSizes p.md.header = .ok sizes
      ∧ pkgFiles decompress p = .ok items
      ∧ items.length = fes.length
      ∧ ∀ k content, .ok (k, content) ∈ items →
          digests[k]? = some (hexOf sha256 content) ∧ sizes[k]? = some content.length := by
  obtain ⟨e, comp', hc1, hc2⟩ := build_with_spec sha256 c now fin fes comp hfiles (fun p hp => (hinv p hp).2) hthr hfresh h
  have hdec : decompress p.content = .ok (C09.archiveFor c uid gid fes) := by rw [hcd comp' _ hc2, hc1]
  have hitems := build_files_of_decompressed sha256 c now fes hfiles hd hf hs hnd hn hu hg decompress p.content hdec
  rw [← e] at hitems
  have hnemp : c.files.isEmpty = false := by
    rw [hfiles]; cases fes with
    | nil => exact absurd rfl hne
    | cons a r => rfl
  let x := mkCtx c now (hexOf sha256 p.content) (hexOf sha256 (C09.archiveFor c uid gid fes))
  have hhdr : p.md.header = C06.hdrOf x := by rw [e]; rfl
  obtain ⟨hdig, hsizes⟩ := C08.file_digests_of_contents x (hexOf sha256) fes hfiles hnemp hinv
  have hfs : fileSizes p.md.header = .ok (fes.map (·.2.length)) := by
    -- read the size list off the header directly (same computation as in `build_file_lists`)
    rw [hhdr]
    have m19 : (IndexTag.RPMTAG_LONGFILESIZES, fun x : Ctx => if x.c.files.isEmpty || !usesLargeFiles x.c then none
        else some (IndexData.int64 (x.c.files.map (·.size)))) ∈ slots := C06.mem_slot (i := 19) rfl
    have m20 : (IndexTag.RPMTAG_FILESIZES, fun x : Ctx => if x.c.files.isEmpty || usesLargeFiles x.c then none
        else some (IndexData.int32 (x.c.files.map (·.size)))) ∈ slots := C06.mem_slot (i := 20) rfl
    rw [← hsizes]
    unfold fileSizes
    cases hl : usesLargeFiles c with
    | true =>
      rw [show getU64Array = getWith IndexData.asU64Array from rfl,
        C06.getter_of_slot IndexData.asU64Array (x := x) m19 (d := .int64 (c.files.map (·.size))) (a := c.files.map (·.size))
          (by show (if c.files.isEmpty || !usesLargeFiles c then none else _) = _; simp only [hnemp, hl]; rfl) rfl]
      rfl
    | false =>
      rw [show getU64Array = getWith IndexData.asU64Array from rfl,
        C06.getter_of_empty_slot IndexData.asU64Array (x := x) m19
          (by show (if c.files.isEmpty || !usesLargeFiles c then none else _) = _; simp only [hnemp, hl]; rfl)]
      exact C06.getter_of_slot IndexData.asU32Array (x := x) m20 (d := .int32 (c.files.map (·.size))) (a := c.files.map (·.size))
          (by show (if c.files.isEmpty || usesLargeFiles c then none else _) = _; simp only [hnemp, hl]; rfl) rfl
  refine ⟨_, _, _, by rw [hhdr]; exact hdig, hfs, hitems, by simp, ?_⟩
  intro k content hmem
  obtain ⟨⟨q, j⟩, hq, heq⟩ := List.mem_map.mp hmem
  simp only [Out.ok.injEq, Prod.mk.injEq] at heq
  obtain ⟨rfl, rfl⟩ := heq
  have hj := List.mem_zipIdx hq
  simp only [Nat.zero_add] at hj
  obtain ⟨_, hlt, hget⟩ := hj
  have hlt' : j < fes.length := by simpa using hlt
  simp only [List.getElem?_map, List.getElem?_eq_getElem hlt', Option.map_some]
  simp only [Nat.sub_zero] at hget
  rw [← hget]
  exact ⟨rfl, rfl⟩

end stacked

/-! ### 6d. the header digest after sign / clear, from ANY start package -/
section anyStart
variable {S : SigScheme} (sha256 : Bytes → Bytes)

theorem stateAfter_ne_initial {K : Type} (s : SigState K) (hs : s ≠ .initial) (ops : List (Op K)) :
    stateAfter s ops ≠ .initial := by
  induction ops generalizing s with
  | nil => exact hs
  | cons o r ih =>
    show stateAfter (s.after o) r ≠ .initial
    refine ih _ ?_
    cases o with
    | sign k t => intro h; cases h
    | clear => intro h; cases h
    | writeParse => exact hs

/-- **history_header_digest_fresh** — start from ANY package with a well-formed lead and main header (whatever
`Package::parse` returns; its signature header, its recorded digests and its payload may be anything — no
`PayloadDigestOk`, nothing about RPMSIGTAG_SHA256 of the start): after any history that begins with a sign or a clear
(then any sequence of sign / clear / write + re-parse) the header digest in the signature header IS the digest of the
serialised main header, which is still the start package's -/
theorem history_header_digest_fresh {p0 p : Package} (hl : S.LegacyOk) (wl : LeadWF p0.md.lead) (wh : HeaderWF p0.md.header)
    (ok : SigRecsOk S sha256 (writeHeader p0.md.header)) (o : Op S.Key) (ho : (SigState.initial).after o ≠ .initial)
    (os : List (Op S.Key)) (h : run S sha256 (o :: os) p0 = .ok p) :
    getString p.md.signature SigTag.RPMSIGTAG_SHA256 = .ok (shaHex sha256 (writeHeader p.md.header))
    ∧ p.md.header = p0.md.header ∧ p.content = p0.content := by
  rw [C10.run_total_any hl wl wh ok o ho os] at h
  cases h
  refine ⟨?_, rfl, rfl⟩
  have hne : stateAfter (SigState.initial (K := S.Key)) (o :: os) ≠ .initial := stateAfter_ne_initial _ ho os
  cases hst : stateAfter (SigState.initial (K := S.Key)) (o :: os) with
  | initial => exact absurd hst hne
  | cleared => exact C08.clear_header_digest_fresh sha256 p0
  | signed k t => exact C08.sign_header_digest_fresh S hl sha256 k t p0

end anyStart

/-! ### 7. the end-to-end guarantee in one place -/

/-- **built_package_sound**: for every valid configuration, clock value, archive, payload, hash functions and
signature scheme (C10's laws), the package `𝐁` that `build` returns
1. passes `verify_digests`;
2. written and parsed again is the same value (which therefore passes as well), and no key verifies it;
3. reports segment offsets that are the real boundaries in the written bytes;
4. under ANY history of sign / clear / write + re-parse: the history does not fail, the result re-parses to itself,
   passes `verify_digests`, carries the built main header, lead and payload byte for byte, verifies with exactly the last
   signer's key (with none if there is none) and reports exactly that signer's key id;
5. in particular `build_and_sign` with key `k` verifies with `k` only and reports `k`'s id;
6. when every file's directory is registered and every digest text is empty or 64 characters (both guaranteed by
   `add_data`), `get_file_entries()` after ANY such history (the empty one included) lists exactly the builder's files
   with their exact attributes. -/
theorem built_package_sound (md5 sha1 sha256 : Bytes → Bytes) (c : Cfg) (now : Nat) (archive payload : Bytes)
    {S : SigScheme} (hl : S.LegacyOk) (hc : S.Correct) (hbind : S.Binds) (hi : S.IssuerOk) (hb64 : S.B64)
    (v : C06.Valid (mkCtx c now (hexOf sha256 payload) (hexOf sha256 archive)))
    (ok : SigRecsOk S sha256 (writeHeader (C06.hdrOf (mkCtx c now (hexOf sha256 payload) (hexOf sha256 archive))))) :
    let B := build c now (hexOf sha256) archive payload
    let hb := writeHeader (C06.hdrOf (mkCtx c now (hexOf sha256 payload) (hexOf sha256 archive)))
    -- 1
    verifyDigests md5 sha1 sha256 B = .ok ()
    -- 2
    ∧ parsePackage (writePackage B) = .ok B
    ∧ (∀ k', verifyWith S md5 sha1 sha256 k' B ≠ .ok ())
    -- 3
    ∧ ((writePackage B).drop (offsets B.md).sig = writeSignature B.md.signature ++ hb ++ payload
       ∧ (writePackage B).drop (offsets B.md).hdr = hb ++ payload
       ∧ (writePackage B).drop (offsets B.md).payload = payload
       ∧ (offsets B.md).lead = 0 ∧ (offsets B.md).sig < (offsets B.md).hdr ∧ (offsets B.md).hdr < (offsets B.md).payload)
    -- 4
    ∧ (∀ ops : List (Op S.Key), ∃ p, run S sha256 ops B = .ok p
        ∧ parsePackage (writePackage p) = .ok p
        ∧ verifyDigests md5 sha1 sha256 p = .ok ()
        ∧ writeHeader p.md.header = hb ∧ p.md.lead = leadNew c.name ∧ p.content = payload
        ∧ (∀ k, lastSigner ops = some k →
            (∀ k', verifyWith S md5 sha1 sha256 k' p = .ok () ↔ k' = k) ∧ keyIds S p = .ok [S.keyId k])
        ∧ (lastSigner ops = none → ∀ k', verifyWith S md5 sha1 sha256 k' p ≠ .ok ()))
    -- 5
    ∧ (∀ now' k, (∀ k', verifyWith S md5 sha1 sha256 k' (buildAndSign sha256 c now archive payload S now' k) = .ok () ↔ k' = k)
        ∧ keyIds S (buildAndSign sha256 c now archive payload S now' k) = .ok [S.keyId k]
        ∧ verifyDigests md5 sha1 sha256 (buildAndSign sha256 c now archive payload S now' k) = .ok ())
    -- 6
    ∧ (DirsOk c → C06.DigestsOk c → ∀ (ops : List (Op S.Key)) (p : Package), run S sha256 ops B = .ok p →
        Acc.getFileEntries p.md.signature p.md.header =
          .ok (c.files.map (C06.entryOf (mkCtx c now (hexOf sha256 payload) (hexOf sha256 archive))))) := by
  intro B hb
  have hoff := build_offsets sha256 c now archive payload v ok.sha
  obtain ⟨o1, _, o3, o4, o5, _, _, o8, o9⟩ := hoff
  refine ⟨build_verifies_digests md5 sha1 sha256 c now archive payload, build_reparse sha256 c now archive payload v ok.sha,
    fun k' => C10.verify_unsigned (build_unsigned sha256 c now archive payload) k', ⟨o3, o4, o5, o1, o8, o9⟩, ?_, ?_,
    fun hd hdig ops p h => built_history_file_entries sha256 c now archive payload hl v ok hd hdig ops h⟩
  · intro ops
    have h := built_history_total sha256 c now archive payload hl v ok ops
    refine ⟨_, h, (built_history_reparse sha256 c now archive payload hl v ok ops h).2,
      built_history_digests md5 sha1 sha256 c now archive payload hl v ok ops h, ?_, ?_, ?_, ?_, ?_⟩
    · exact (built_history_bytes sha256 c now archive payload hl v ok ops h).1
    · exact (built_history_bytes sha256 c now archive payload hl v ok ops h).2.2.2
    · exact (built_history_bytes sha256 c now archive payload hl v ok ops h).2.1
    · intro k hs
      exact ⟨fun k' => built_history_verify md5 sha1 sha256 c now archive payload hl hc hbind hb64 v ok ops k hs h k',
        built_history_keyids sha256 c now archive payload hl hi hb64 v ok ops k hs h⟩
    · intro hs k'
      exact built_history_verify_none md5 sha1 sha256 c now archive payload hl v ok ops hs h k'
  · intro now' k
    exact ⟨fun k' => build_sign_verifies md5 sha1 sha256 c now archive payload hl hc hbind hb64 v ok now' k k',
      build_sign_keyids sha256 c now archive payload hl hi hb64 v ok now' k,
      build_sign_digests md5 sha1 sha256 c now archive payload hl v ok now' k⟩

/-! ### non-vacuity: C06's sample configuration (one file, a scriptlet, gzip), the real cpio archive of its file,
C10's toy hash functions and symbolic signature scheme -/
section nonvacuity
open RpmVerif.Sign.Sym

/-- the builder's file with its content (C09's sample: `/a`, mode 0100644, three bytes) -/
def sFes : List (FileE × Bytes) := [(C09.sampleFile, [1, 2, 3])]
/-- the cpio archive `prepare_data` writes for it (uid = gid = 0), and a toy codec that puts gzip's magic in front -/
def sArchive : Bytes := C09.archiveFor C06.sampleCfg 0 0 sFes
def sCompress (b : Bytes) : Bytes := [0x1f, 0x8b] ++ b
def sDecompress (b : Bytes) : Out Bytes := .ok (b.drop 2)
def sPayload : Bytes := sCompress sArchive
def sNow : Nat := 1700000123
def sCtx : Ctx := mkCtx C06.sampleCfg sNow (hexOf C10.tSha256 sPayload) (hexOf C10.tSha256 sArchive)
def sBuilt : Package := build C06.sampleCfg sNow (hexOf C10.tSha256) sArchive sPayload

example : sArchive.length = 244 := by decide +kernel
example : sCtx.bt = 1600000000 := by decide +kernel

theorem s_valid : C06.Valid sCtx := by
  refine ⟨by decide +kernel, by decide +kernel, by decide, by decide +kernel, ?_⟩
  have h := Hdr.fromEntries_store_le (recordsOf sCtx) IndexTag.RPMTAG_HEADERIMMUTABLE
  have : (List.map (fun r => r.2.enc.length + 7) (recordsOf sCtx)).sum + 16 < 2147483648 := by decide +kernel
  omega

theorem s_header_small : (writeHeader (C06.hdrOf sCtx)).length < 100000 := by
  have h := written_header_le s_valid
  have : 32 + 16 * ((recordsOf sCtx).length + 1) + ((recordsOf sCtx).map (fun r => r.2.enc.length + 8)).sum < 100000 := by
    decide +kernel
  omega

theorem s_sha_len : (shaHex C10.tSha256 (writeHeader (C06.hdrOf sCtx))).length = 6 := by
  unfold shaHex; rw [hexLower_length]; rfl

theorem s_recs : SigRecsOk C10.T C10.tSha256 (writeHeader (C06.hdrOf sCtx)) :=
  sigRecsOk C10.ids C10.tSha256 _ (by have h1 := s_header_small; have h2 := s_sha_len; omega)

theorem s_fits : DigestFits C10.tSha256 (writeHeader (C06.hdrOf sCtx)) := s_recs.sha

theorem s_cfgOk : C09.CfgOk sCtx sFes :=
  ⟨s_valid, by intro f hf; simp only [sCtx, mkCtx, C06.sampleCfg, List.mem_singleton] at hf; subst hf; decide,
   by
    have h := Hdr.fromEntries_store_le (recordsOf sCtx) IndexTag.RPMTAG_HEADERIMMUTABLE
    have : (List.map (fun r => r.2.enc.length + 7) (recordsOf sCtx)).sum + 16 < 268435456 := by decide +kernel
    exact Nat.lt_of_le_of_lt h this,
   rfl,
   by intro p hp; simp only [sFes, List.mem_singleton] at hp; subst hp
      exact ⟨rfl, by decide, by constructor <;> decide⟩,
   by decide⟩

theorem s_shape : ∀ p ∈ sFes, DirShape p.1 := by
  intro p hp; simp only [sFes, List.mem_singleton] at hp; subst hp; constructor <;> decide
example : C09.CodecMagic C06.sampleCfg.compression sPayload sArchive := ⟨sArchive, rfl⟩
example : ∀ b, sDecompress (sCompress b) = .ok b := fun _ => rfl


-- every hypothesis used above holds for these values; the theorems, instantiated:
example : 40 < (recordsOf sCtx).length := by decide +kernel
example : verifyDigests C10.tMd5 C10.tSha1 C10.tSha256 sBuilt = .ok () :=
  build_verifies_digests C10.tMd5 C10.tSha1 C10.tSha256 C06.sampleCfg sNow sArchive sPayload
example : parsePackage (writePackage sBuilt) = .ok sBuilt :=
  build_reparse C10.tSha256 C06.sampleCfg sNow sArchive sPayload s_valid s_fits
example : (writePackage sBuilt).drop (offsets sBuilt.md).payload = sPayload :=
  (build_offsets C10.tSha256 C06.sampleCfg sNow sArchive sPayload s_valid s_fits).2.2.2.2.1
/-- C10's sample history (key 2 signs, write + parse, key 0 signs, clear, key 3 signs, write + parse) on the built package -/
example (p : Package) (h : run C10.T C10.tSha256 C10.hist sBuilt = .ok p) (k' : UInt8) :
    (verifyWith C10.T C10.tMd5 C10.tSha1 C10.tSha256 k' p = .ok () ↔ k' = 3) ∧ keyIds C10.T p = .ok [[3]]
    ∧ verifyDigests C10.tMd5 C10.tSha1 C10.tSha256 p = .ok () ∧ p.content = sPayload :=
  ⟨built_history_verify C10.tMd5 C10.tSha1 C10.tSha256 C06.sampleCfg sNow sArchive sPayload (legacyOk C10.ids) (correct C10.ids)
      (binds C10.ids) (b64 C10.ids) s_valid s_recs C10.hist (3 : UInt8) (by decide) h k',
   built_history_keyids C10.tSha256 C06.sampleCfg sNow sArchive sPayload (legacyOk C10.ids) (issuerOk C10.ids) (b64 C10.ids)
      s_valid s_recs C10.hist (3 : UInt8) (by decide) h,
   built_history_digests C10.tMd5 C10.tSha1 C10.tSha256 C06.sampleCfg sNow sArchive sPayload (legacyOk C10.ids) s_valid s_recs
      C10.hist h,
   (built_history_bytes C10.tSha256 C06.sampleCfg sNow sArchive sPayload (legacyOk C10.ids) s_valid s_recs C10.hist h).2.1⟩
/-- `build_and_sign` with key 2 at a later clock reading: key 2 verifies, key 3 does not -/
example : verifyWith C10.T C10.tMd5 C10.tSha1 C10.tSha256 (2 : UInt8)
        (buildAndSign C10.tSha256 C06.sampleCfg sNow sArchive sPayload C10.T 1700000200 (2 : UInt8)) = .ok ()
    ∧ verifyWith C10.T C10.tMd5 C10.tSha1 C10.tSha256 (3 : UInt8)
        (buildAndSign C10.tSha256 C06.sampleCfg sNow sArchive sPayload C10.T 1700000200 (2 : UInt8)) ≠ .ok () :=
  ⟨(build_sign_verifies C10.tMd5 C10.tSha1 C10.tSha256 C06.sampleCfg sNow sArchive sPayload (legacyOk C10.ids) (correct C10.ids)
      (binds C10.ids) (b64 C10.ids) s_valid s_recs 1700000200 (2 : UInt8) (2 : UInt8)).mpr rfl,
   fun h => absurd ((build_sign_verifies C10.tMd5 C10.tSha1 C10.tSha256 C06.sampleCfg sNow sArchive sPayload (legacyOk C10.ids)
      (correct C10.ids) (binds C10.ids) (b64 C10.ids) s_valid s_recs 1700000200 (2 : UInt8) (3 : UInt8)).mp h)
      (show ¬ (3 : UInt8) = 2 by decide)⟩
/-- `files()` on the built package: the one file, index 0, its three bytes -/
example : pkgFiles sDecompress sBuilt = .ok [.ok (0, [1, 2, 3])] :=
  build_files_roundtrip C10.tSha256 C06.sampleCfg sNow sFes rfl s_cfgOk.dirs s_cfgOk.fileOk s_shape (by decide) (by decide)
    (uid := 0) (gid := 0) (by decide) (by decide) sCompress sDecompress (fun _ => rfl)
example : RpmValid.PackageValid (writePackage sBuilt) sBuilt sArchive :=
  (build_valid C10.tSha256 C06.sampleCfg sNow sArchive sPayload s_cfgOk (by show (shaHex C10.tSha256 (writeHeader (C06.hdrOf sCtx))).length < _; rw [s_sha_len]; decide) (uid := 0) (gid := 0)
    (by decide) (by decide) ⟨sArchive, rfl⟩).2
/-- the summary theorem at the sample: all its hypotheses are discharged -/
example := built_package_sound C10.tMd5 C10.tSha1 C10.tSha256 C06.sampleCfg sNow sArchive sPayload (S := C10.T)
  (legacyOk C10.ids) (correct C10.ids) (binds C10.ids) (issuerOk C10.ids) (b64 C10.ids) s_valid s_recs

/-! `get_file_entries()` at C06's second sample (three files in two directories, capabilities, a symbolic link) -/
def sCtx2 : Ctx := mkCtx C06.sampleCfg2 sNow (hexOf C10.tSha256 [4, 5]) (hexOf C10.tSha256 [1, 2, 3])
def sBuilt2 : Package := build C06.sampleCfg2 sNow (hexOf C10.tSha256) [1, 2, 3] [4, 5]

theorem s2_valid : C06.Valid sCtx2 := by
  refine ⟨by decide +kernel, by decide +kernel, by decide, by decide +kernel, ?_⟩
  have h := Hdr.fromEntries_store_le (recordsOf sCtx2) IndexTag.RPMTAG_HEADERIMMUTABLE
  have : (List.map (fun r => r.2.enc.length + 7) (recordsOf sCtx2)).sum + 16 < 2147483648 := by decide +kernel
  omega

theorem s2_recs : SigRecsOk C10.T C10.tSha256 (writeHeader (C06.hdrOf sCtx2)) := by
  have h1 : (writeHeader (C06.hdrOf sCtx2)).length < 100000 := by
    have h := written_header_le s2_valid
    have : 32 + 16 * ((recordsOf sCtx2).length + 1) + ((recordsOf sCtx2).map (fun r => r.2.enc.length + 8)).sum < 100000 := by
      decide +kernel
    omega
  have h2 : (shaHex C10.tSha256 (writeHeader (C06.hdrOf sCtx2))).length = 6 := by
    unfold shaHex; rw [hexLower_length]; rfl
  exact sigRecsOk C10.ids C10.tSha256 _ (by omega)

theorem s2_dirs : DirsOk C06.sampleCfg2 := by unfold DirsOk; decide
example : C06.DigestsOk C06.sampleCfg2 := by decide
example : C06.sampleCfg2.files.map (C06.entryOf sCtx2) = C06.sampleEntries2 := by decide +kernel
example : Acc.getFileEntries sBuilt2.md.signature sBuilt2.md.header = .ok (C06.sampleCfg2.files.map (C06.entryOf sCtx2)) :=
  build_file_entries C10.tSha256 C06.sampleCfg2 sNow [1, 2, 3] [4, 5] s2_dirs (by decide)
example : ∃ p', parsePackage (writePackage sBuilt2) = .ok p' ∧
    Acc.getFileEntries p'.md.signature p'.md.header = .ok (C06.sampleCfg2.files.map (C06.entryOf sCtx2)) :=
  build_file_entries_reparsed C10.tSha256 C06.sampleCfg2 sNow [1, 2, 3] [4, 5] s2_valid s2_recs.sha s2_dirs (by decide)
/-- after C10's sample history (sign, write + parse, sign, clear, sign, write + parse) -/
example (p : Package) (h : run C10.T C10.tSha256 C10.hist sBuilt2 = .ok p) :
    Acc.getFileEntries p.md.signature p.md.header = .ok (C06.sampleCfg2.files.map (C06.entryOf sCtx2)) :=
  built_history_file_entries C10.tSha256 C06.sampleCfg2 sNow [1, 2, 3] [4, 5] (legacyOk C10.ids) s2_valid s2_recs
    s2_dirs (by decide) C10.hist h

/-! the stacked writers (6c) at a sample whose stored digest is the toy hash of the stored content, through a compressor
that takes 5 bytes, is interrupted, takes 1 byte and then everything; and 6d at an ill-formed signature header -/
def sFin (s : PWriter.Sink) : Out Bytes := .ok (sCompress s.out)
/-- the sample file with the digest `add_data` stores under the toy hash -/
def dFile : FileE := { C09.sampleFile with shaHex := hexOf C10.tSha256 [1, 2, 3] }
def dFes : List (FileE × Bytes) := [(dFile, [1, 2, 3])]
def dCfg : Cfg := { C06.sampleCfg with files := [dFile] }
def dComp : PWriter.Sink := { script := [.ok 5, .intr, .ok 1] }
theorem d_prepared : ShaSink.prepareDigests sFin (hexOf C10.tSha256) (usesLargeFiles dCfg) 0 0 (dFes.map C09.toFileIn) dComp
    = .ok ⟨hexOf C10.tSha256 sArchive, hexOf C10.tSha256 sPayload, sPayload⟩ := by decide +kernel
theorem d_buildWith : ShaSink.buildWith sFin dCfg sNow (hexOf C10.tSha256) 0 0 (dFes.map C09.toFileIn) dComp
    = .ok (build dCfg sNow (hexOf C10.tSha256) sArchive sPayload) := by
  unfold ShaSink.buildWith; rw [d_prepared]; rfl
example : ∀ p ∈ dFes, p.1.shaHex = hexOf C10.tSha256 p.2 ∧ p.1.size = p.2.length := by decide +kernel
example := build_with_digests C10.tSha256 dCfg sNow sFin (uid := 0) (gid := 0) dFes dComp rfl (by decide) (by decide) rfl d_buildWith
/-- every hypothesis of `built_item_digests` is discharged at the sample -/
example := built_item_digests C10.tSha256 dCfg sNow sFin sDecompress (fun s q h => by cases h; rfl) (uid := 0) (gid := 0)
  (by decide) (by decide) dFes dComp rfl (by unfold DirsOk; decide)
  (by intro p hp; simp only [dFes, List.mem_singleton] at hp; subst hp; exact ⟨rfl, by decide, by constructor <;> decide⟩)
  (by intro p hp; simp only [dFes, List.mem_singleton] at hp; subst hp; constructor <;> decide)
  (by decide) (by decide) (by decide) (by decide +kernel)
  (by decide) rfl d_buildWith
/-- a start package whose signature header is NOT the library's (empty: no RPMSIGTAG_SHA256 at all) and whose payload
digest is not checked by anything: clear, write + parse, sign with key 2 — the recorded header digest is the true one -/
def dStart : Package := ⟨⟨leadNew C06.sampleCfg.name, ⟨0, 0, [], []⟩, C06.hdrOf sCtx⟩, [9, 9, 9]⟩
example (p : Package) (h : run C10.T C10.tSha256 [.clear, .writeParse, .sign (2 : UInt8) 1600000000] dStart = .ok p) :
    getString p.md.signature SigTag.RPMSIGTAG_SHA256 = .ok (shaHex C10.tSha256 (writeHeader p.md.header)) :=
  (history_header_digest_fresh (S := C10.T) (p0 := dStart) C10.tSha256 (legacyOk C10.ids) (C06.leadNew_wf _)
    (C06.hdr_wf s_valid) s_recs .clear (fun e => by cases e) _ h).1
example : getString dStart.md.signature SigTag.RPMSIGTAG_SHA256 = .err "notfound" := by decide +kernel

end nonvacuity

end RpmVerif.Pipeline
