import RpmVerif.Lemmas.Version
import RpmVerif.Spec.Version
import RpmVerif.Model.Compression
/-!
# C15 — textual forms of EVR, NEVRA and compression type round-trip

All theorems quantify over *all* strings (lists of code points of any length, any characters).
Model: `Model/Version.lean` (`Evr::parse_values`, `Nevra::parse_values`, the four formatters),
`Model/Compression.lean` (Display / FromStr over the tables scraped from the source).
Guards: `Spec/Version.lean` (`EvrGuard`, `EvrNormGuard`, `NevraGuard`, `NevraNormGuard`, `NvraGuard`),
with the reason and a counterexample for every clause (the counterexamples are checked below).

**Totality / "parsing arbitrary text never panics".** Every function of the two model files is a
total Lean function into plain data (`Str`, tuples, `Out` with only `ok` / `err` used): no `panic`
outcome is constructible, which mirrors the Rust code — `split_once`, `rsplit_once`,
`rmatch_indices().nth(1)`, `unwrap_or`, `format!` and a string `match` have no failure mode. The one
partial operation in the source, the slicing `&nevra[..i]` / `&nevra[i + 1..]`, cannot panic: `i` is
the byte offset of a matched '-' (one ASCII byte), so `i` and `i + 1` are char boundaries `≤ len`.
`compression_fromStr_total` states the absence of a panic outcome for `FromStr`; for the parsers
there is nothing to state (their result type has no failure case). The tie of that claim to the
real code is the `parseany` correspondence (arbitrary strings under `catch_unwind`).
-/
set_option linter.unusedVariables false
namespace RpmVerif.C15
open RpmVerif.Vercmp RpmVerif.Version RpmVerif.VersionSpec RpmVerif.Compression

/-! ### EVR -/

/-- **EVR round trip**: printing with `Display` and parsing the text gives back the same value,
component by component, for every EVR inside `EvrGuard` (epoch possibly empty, release arbitrary). -/
theorem evr_roundtrip (e : Evr) (h : EvrGuard e) : Evr.parse (Evr.toStr e) = e := by
  obtain ⟨E, V, R⟩ := e
  obtain ⟨hE, hV, h0⟩ := h
  cases E with
  | nil =>
    obtain ⟨hV', hR⟩ := h0 rfl
    simp [Evr.parse, Evr.toStr, evrParse_noEpoch hV hV' hR]
  | cons x xs =>
    have key : Evr.toStr ⟨x :: xs, V, R⟩ = (x :: xs) ++ 58 :: (V ++ 45 :: R) := by simp [Evr.toStr]
    simp only [Evr.parse, key, evrParse_epoch R hE hV]

/-- **normalized EVR round trip**: the normalized text parses back to the same version and release
and to the epoch with "" replaced by "0". -/
theorem evr_normalized_roundtrip (e : Evr) (h : EvrNormGuard e) :
    Evr.parse (Evr.normalized e) = ⟨epochOr0 e.epoch, e.version, e.release⟩ := by
  obtain ⟨E, V, R⟩ := e
  obtain ⟨hE, hV⟩ := h
  have key : Evr.normalized ⟨E, V, R⟩ = epochOr0 E ++ 58 :: (V ++ 45 :: R) := by simp [Evr.normalized]
  simp only [Evr.parse, key, evrParse_epoch R (epochOr0_not_mem (by decide) hE) hV]

/-- … hence the parsed-back values are `==` (the hand-written `PartialEq`, epoch "" ≡ "0") to the original -/
theorem evr_roundtrip_eq (e : Evr) (h : EvrGuard e) : (Evr.parse (Evr.toStr e)).eq e = true := by
  rw [evr_roundtrip e h]; exact evr_eq_refl e

theorem evr_normalized_eq (e : Evr) (h : EvrNormGuard e) : (Evr.parse (Evr.normalized e)).eq e = true := by
  rw [evr_normalized_roundtrip e h]
  obtain ⟨E, V, R⟩ := e
  cases E <;> simp [Evr.eq, epochOr0]

/-- **the normalized form always carries an epoch**: whatever version and release are, the text
parses to a non-empty epoch, namely the original one or "0" (only ':' ∉ epoch is needed). -/
theorem evr_normalized_has_epoch (e : Evr) (h : 58 ∉ e.epoch) :
    (Evr.parse (Evr.normalized e)).epoch = epochOr0 e.epoch ∧ (Evr.parse (Evr.normalized e)).epoch ≠ [] := by
  obtain ⟨E, V, R⟩ := e
  have : (Evr.parse (Evr.normalized ⟨E, V, R⟩)).epoch = epochOr0 E := by
    simp [Evr.parse, Evr.normalized, evrParseValues, splitOnce_append _ (epochOr0_not_mem (by decide) h)]
  exact ⟨this, this ▸ epochOr0_ne_nil E⟩

/-- the normalized text itself starts with a non-empty epoch and ':' for EVERY value (no guard) -/
theorem evr_normalized_text (e : Evr) :
    ∃ ep rest, Evr.normalized e = ep ++ 58 :: rest ∧ ep ≠ [] ∧ (e.epoch ≠ [] → ep = e.epoch) ∧ (e.epoch = [] → ep = [48]) := by
  refine ⟨epochOr0 e.epoch, e.version ++ 45 :: e.release, by simp [Evr.normalized], epochOr0_ne_nil _, ?_, ?_⟩
  · intro h; unfold epochOr0; cases he : e.epoch <;> simp_all
  · intro h; simp [epochOr0, h]

/-! ### NEVRA -/

/-- **NEVRA round trip**: any name (dashes, dots, colons, even empty), epoch possibly empty, dots in
the release, arch possibly empty. -/
theorem nevra_roundtrip (n : Nevra) (h : NevraGuard n) : Nevra.parse (Nevra.toStr n) = n := by
  obtain ⟨N, ⟨E, V, R⟩, A⟩ := n
  obtain ⟨hE, hE', hV, hR, hA, hA', h0⟩ := h
  cases E with
  | nil =>
    obtain ⟨cV, cR, cA⟩ := h0 rfl
    simp [Nevra.parse, Nevra.toStr, Evr.toStr, nevraParse_noEpoch N hV hR hA hA' cV cR cA]
  | cons x xs =>
    have key : Nevra.toStr ⟨N, ⟨x :: xs, V, R⟩, A⟩ = N ++ 45 :: ((x :: xs) ++ 58 :: (V ++ 45 :: (R ++ 46 :: A))) := by
      simp [Nevra.toStr, Evr.toStr]
    simp only [Nevra.parse, key, nevraParse_epoch N hE hE' hV hR hA hA']

/-- **normalized NEVRA round trip** (epoch "" ↦ "0", everything else identical) -/
theorem nevra_normalized_roundtrip (n : Nevra) (h : NevraNormGuard n) :
    Nevra.parse (Nevra.normalized n) = ⟨n.name, ⟨epochOr0 n.evr.epoch, n.evr.version, n.evr.release⟩, n.arch⟩ := by
  obtain ⟨N, ⟨E, V, R⟩, A⟩ := n
  obtain ⟨hE, hE', hV, hR, hA, hA'⟩ := h
  have key : Nevra.normalized ⟨N, ⟨E, V, R⟩, A⟩ = N ++ 45 :: (epochOr0 E ++ 58 :: (V ++ 45 :: (R ++ 46 :: A))) := by
    simp [Nevra.normalized, Evr.normalized]
  simp only [Nevra.parse, key,
    nevraParse_epoch N (epochOr0_not_mem (by decide) hE) (epochOr0_not_mem (by decide) hE') hV hR hA hA']

/-- **NVRA round trip**: the epoch-less file-name form parses back to the value with epoch "" -/
theorem nevra_nvra_roundtrip (n : Nevra) (h : NvraGuard n) :
    Nevra.parse (Nevra.nvra n) = ⟨n.name, ⟨[], n.evr.version, n.evr.release⟩, n.arch⟩ := by
  obtain ⟨N, ⟨E, V, R⟩, A⟩ := n
  obtain ⟨hV, hR, hA, hA', cV, cR, cA⟩ := h
  have key : Nevra.nvra ⟨N, ⟨E, V, R⟩, A⟩ = N ++ 45 :: (V ++ 45 :: (R ++ 46 :: A)) := by simp [Nevra.nvra]
  simp only [Nevra.parse, key, nevraParse_noEpoch N hV hR hA hA' cV cR cA]

theorem nevra_roundtrip_eq (n : Nevra) (h : NevraGuard n) : (Nevra.parse (Nevra.toStr n)).eq n = true := by
  rw [nevra_roundtrip n h]; exact nevra_eq_refl n

theorem nevra_normalized_eq (n : Nevra) (h : NevraNormGuard n) : (Nevra.parse (Nevra.normalized n)).eq n = true := by
  rw [nevra_normalized_roundtrip n h]
  obtain ⟨N, ⟨E, V, R⟩, A⟩ := n
  cases E <;> simp [Nevra.eq, Evr.eq, epochOr0]

/-- the normalized NEVRA always carries an epoch -/
theorem nevra_normalized_has_epoch (n : Nevra) (h : NevraNormGuard n) :
    (Nevra.parse (Nevra.normalized n)).evr.epoch ≠ [] := by
  rw [nevra_normalized_roundtrip n h]; exact epochOr0_ne_nil _

/-! ### compression type -/

/-- the scraped Display table has an arm for every variant of the enum -/
theorem compression_display_total : ∀ c, c < numVariants → (Gen.compressionDisplay.lookup c).isSome = true := by
  decide +kernel

/-- **every compression type parses back from its own textual name** -/
theorem compression_roundtrip : ∀ c, c < numVariants → fromStr (toStr c) = .ok c := by
  decide +kernel

/-- `FromStr` answers `Ok` or `Err`, never a panic, on every string -/
theorem compression_fromStr_total (s : Str) : (fromStr s).isPanic = false := by
  unfold fromStr; split <;> rfl

/-- and whatever it accepts is a real variant -/
theorem compression_fromStr_range : ∀ p ∈ Gen.compressionFromStr, p.2 < numVariants := by
  decide +kernel

/-! ### the guards are the weakest possible: each round trip holds **exactly** inside its guard -/

/-- **`EvrGuard` is necessary and sufficient** for the `Display` round trip -/
theorem evr_roundtrip_iff (e : Evr) : Evr.parse (Evr.toStr e) = e ↔ EvrGuard e := by
  refine ⟨fun h => ?_, evr_roundtrip e⟩
  obtain ⟨E, V, R⟩ := e
  have sh := evrParse_shape (Evr.toStr ⟨E, V, R⟩)
  have hp : evrParseValues (Evr.toStr ⟨E, V, R⟩) = (E, V, R) := by
    simp only [Evr.parse, Evr.mk.injEq] at h
    exact Prod.ext h.1 (Prod.ext h.2.1 h.2.2)
  rw [hp] at sh
  refine ⟨sh.1, sh.2, ?_⟩
  rintro rfl
  have key : Evr.toStr ⟨[], V, R⟩ = V ++ 45 :: R := by simp [Evr.toStr]
  rw [key] at hp
  have := evr_noEpoch_conv hp
  simp only [List.mem_append, List.mem_cons, not_or] at this
  exact ⟨this.1, this.2.2⟩

/-- likewise for the normalized form -/
theorem evr_normalized_roundtrip_iff (e : Evr) :
    Evr.parse (Evr.normalized e) = ⟨epochOr0 e.epoch, e.version, e.release⟩ ↔ EvrNormGuard e := by
  refine ⟨fun h => ?_, evr_normalized_roundtrip e⟩
  obtain ⟨E, V, R⟩ := e
  have sh := evrParse_shape (Evr.normalized ⟨E, V, R⟩)
  have hp : evrParseValues (Evr.normalized ⟨E, V, R⟩) = (epochOr0 E, V, R) := by
    simp only [Evr.parse, Evr.mk.injEq] at h
    exact Prod.ext h.1 (Prod.ext h.2.1 h.2.2)
  rw [hp] at sh
  refine ⟨?_, sh.2⟩
  have := sh.1
  unfold epochOr0 at this
  cases E with
  | nil => simp
  | cons x xs => simpa using this

/-- **`NevraGuard` is necessary and sufficient** for the `Display` round trip of a NEVRA -/
theorem nevra_roundtrip_iff (n : Nevra) : Nevra.parse (Nevra.toStr n) = n ↔ NevraGuard n := by
  refine ⟨fun h => ?_, nevra_roundtrip n⟩
  obtain ⟨N, ⟨E, V, R⟩, A⟩ := n
  have hp := nevraParse_inj h
  by_cases hE : E = []
  · subst hE
    have key : Nevra.toStr ⟨N, ⟨[], V, R⟩, A⟩ = N ++ 45 :: (V ++ 45 :: (R ++ 46 :: A)) := by simp [Nevra.toStr, Evr.toStr]
    rw [key] at hp
    obtain ⟨d1, d2, d3, d4, c1, c2, c3⟩ := nevraParse_noEpoch_conv hp
    exact ⟨by simp, by simp, d1, d2, d3, d4, fun _ => ⟨c1, c2, c3⟩⟩
  · have key : Nevra.toStr ⟨N, ⟨E, V, R⟩, A⟩ = N ++ 45 :: (E ++ 58 :: (V ++ 45 :: (R ++ 46 :: A))) := by
      simp [Nevra.toStr, Evr.toStr, hE]
    rw [key] at hp
    obtain ⟨d0, c0, d1, d2, d3, d4⟩ := nevraParse_epoch_conv hp
    exact ⟨d0, c0, d1, d2, d3, d4, fun h => absurd h hE⟩

/-- likewise for the normalized form -/
theorem nevra_normalized_roundtrip_iff (n : Nevra) :
    Nevra.parse (Nevra.normalized n) = ⟨n.name, ⟨epochOr0 n.evr.epoch, n.evr.version, n.evr.release⟩, n.arch⟩ ↔
      NevraNormGuard n := by
  refine ⟨fun h => ?_, nevra_normalized_roundtrip n⟩
  obtain ⟨N, ⟨E, V, R⟩, A⟩ := n
  have hp := nevraParse_inj h
  have key : Nevra.normalized ⟨N, ⟨E, V, R⟩, A⟩ = N ++ 45 :: (epochOr0 E ++ 58 :: (V ++ 45 :: (R ++ 46 :: A))) := by
    simp [Nevra.normalized, Evr.normalized]
  rw [key] at hp
  obtain ⟨d0, c0, d1, d2, d3, d4⟩ := nevraParse_epoch_conv hp
  exact ⟨epochOr0_not_mem_conv d0, epochOr0_not_mem_conv c0, d1, d2, d3, d4⟩

/-- … and for the NVRA form -/
theorem nevra_nvra_roundtrip_iff (n : Nevra) :
    Nevra.parse (Nevra.nvra n) = ⟨n.name, ⟨[], n.evr.version, n.evr.release⟩, n.arch⟩ ↔ NvraGuard n := by
  refine ⟨fun h => ?_, nevra_nvra_roundtrip n⟩
  obtain ⟨N, ⟨E, V, R⟩, A⟩ := n
  have hp := nevraParse_inj h
  have key : Nevra.nvra ⟨N, ⟨E, V, R⟩, A⟩ = N ++ 45 :: (V ++ 45 :: (R ++ 46 :: A)) := by simp [Nevra.nvra]
  rw [key] at hp
  exact nevraParse_noEpoch_conv hp

/-! ## Non-vacuity: the hypotheses are satisfiable by real-world values, and each guard clause is needed

Strings are written as code points ('-' 45, '.' 46, ':' 58); e.g. `[51,56,57,45,100,115,…]` is "389-ds-base-devel". -/

/-- "389-ds-base-devel", "", "1.3.8.4", "15.el7", "x86_64" — the library's own asset package -/
def ds389 : Nevra := ⟨[51, 56, 57, 45, 100, 115, 45, 98, 97, 115, 101, 45, 100, 101, 118, 101, 108],
  ⟨[], [49, 46, 51, 46, 56, 46, 52], [49, 53, 46, 101, 108, 55]⟩, [120, 56, 54, 95, 54, 52]⟩
/-- "perl-Foo-Bar", "2", "1.0~rc1", "1.fc38", "noarch" -/
def perlFooBar : Nevra := ⟨[112, 101, 114, 108, 45, 70, 111, 111, 45, 66, 97, 114],
  ⟨[50], [49, 46, 48, 126, 114, 99, 49], [49, 46, 102, 99, 51, 56]⟩, [110, 111, 97, 114, 99, 104]⟩
/-- "python3.9", "", "3.9.18", "1.fc38", "x86_64" -/
def python39 : Nevra := ⟨[112, 121, 116, 104, 111, 110, 51, 46, 57],
  ⟨[], [51, 46, 57, 46, 49, 56], [49, 46, 102, 99, 51, 56]⟩, [120, 56, 54, 95, 54, 52]⟩

-- the guards hold for them, the texts are the expected ones, and they parse back
example : NevraGuard ds389 ∧ NevraNormGuard ds389 ∧ NvraGuard ds389 ∧ EvrGuard ds389.evr := by decide +kernel
example : NevraGuard perlFooBar ∧ NvraGuard perlFooBar ∧ EvrGuard perlFooBar.evr := by decide +kernel
example : NevraGuard python39 ∧ NvraGuard python39 := by decide +kernel
/-- "389-ds-base-devel-1.3.8.4-15.el7.x86_64" -/
example : Nevra.toStr ds389 = [51, 56, 57, 45, 100, 115, 45, 98, 97, 115, 101, 45, 100, 101, 118, 101, 108, 45, 49, 46, 51,
    46, 56, 46, 52, 45, 49, 53, 46, 101, 108, 55, 46, 120, 56, 54, 95, 54, 52] ∧ Nevra.nvra ds389 = Nevra.toStr ds389 := by
  decide +kernel
/-- "389-ds-base-devel-0:1.3.8.4-15.el7.x86_64" -/
example : Nevra.normalized ds389 = [51, 56, 57, 45, 100, 115, 45, 98, 97, 115, 101, 45, 100, 101, 118, 101, 108, 45, 48, 58,
    49, 46, 51, 46, 56, 46, 52, 45, 49, 53, 46, 101, 108, 55, 46, 120, 56, 54, 95, 54, 52] := by decide +kernel
example : Nevra.parse (Nevra.toStr ds389) = ds389 := by decide +kernel
example : (Nevra.parse (Nevra.normalized ds389)).evr.epoch = [48] ∧ (Nevra.parse (Nevra.normalized ds389)).name = ds389.name := by
  decide +kernel
/-- "perl-Foo-Bar-2:1.0~rc1-1.fc38.noarch" -/
example : Nevra.toStr perlFooBar = [112, 101, 114, 108, 45, 70, 111, 111, 45, 66, 97, 114, 45, 50, 58, 49, 46, 48, 126, 114,
    99, 49, 45, 49, 46, 102, 99, 51, 56, 46, 110, 111, 97, 114, 99, 104] ∧ Nevra.parse (Nevra.toStr perlFooBar) = perlFooBar := by
  decide +kernel
example : Nevra.parse (Nevra.nvra perlFooBar) = { perlFooBar with evr := { perlFooBar.evr with epoch := [] } } := by decide +kernel
example : Nevra.parse (Nevra.toStr python39) = python39 ∧ (Nevra.parse (Nevra.toStr python39)).evr.release = [49, 46, 102, 99, 51, 56] := by
  decide +kernel
example : Evr.parse (Evr.toStr perlFooBar.evr) = perlFooBar.evr ∧ Evr.parse (Evr.normalized ds389.evr) = ⟨[48], ds389.evr.version, ds389.evr.release⟩ := by
  decide +kernel
-- unusual but allowed: empty name, name with ':' and a trailing '-', empty arch, '-' in an EVR epoch, ':' in a release behind an epoch
example : NevraGuard ⟨[], ⟨[], [49], [50]⟩, []⟩ ∧ Nevra.parse (Nevra.toStr ⟨[], ⟨[], [49], [50]⟩, []⟩) = ⟨[], ⟨[], [49], [50]⟩, []⟩ := by
  decide +kernel
example : Nevra.parse (Nevra.toStr ⟨[97, 58, 98, 45], ⟨[], [49], [50, 46, 51]⟩, []⟩) = ⟨[97, 58, 98, 45], ⟨[], [49], [50, 46, 51]⟩, []⟩ := by
  decide +kernel
example : EvrGuard ⟨[49, 45, 49], [49, 58, 50], [51, 58, 45]⟩ ∧
    Evr.parse (Evr.toStr ⟨[49, 45, 49], [49, 58, 50], [51, 58, 45]⟩) = ⟨[49, 45, 49], [49, 58, 50], [51, 58, 45]⟩ := by decide +kernel

-- every clause of `EvrGuard` is needed (value outside the clause, round trip fails):
/-- ':' in the epoch: ("1:2","3","4") -/
example : Evr.parse (Evr.toStr ⟨[49, 58, 50], [51], [52]⟩) ≠ ⟨[49, 58, 50], [51], [52]⟩ := by decide +kernel
/-- '-' in the version: ("","1-2","3") -/
example : Evr.parse (Evr.toStr ⟨[], [49, 45, 50], [51]⟩) ≠ ⟨[], [49, 45, 50], [51]⟩ := by decide +kernel
/-- ':' in the version, empty epoch: ("","1:2","3") reads back as ("1","2","3") -/
example : Evr.parse (Evr.toStr ⟨[], [49, 58, 50], [51]⟩) = ⟨[49], [50], [51]⟩ := by decide +kernel
/-- ':' in the release, empty epoch: ("","1","2:3") reads back as ("1-2","3","") -/
example : Evr.parse (Evr.toStr ⟨[], [49], [50, 58, 51]⟩) = ⟨[49, 45, 50], [51], []⟩ := by decide +kernel
-- every clause of `NevraGuard` is needed:
/-- '-' in the release: ("a","","1","2-3","x") reads back with name "a-1" -/
example : (Nevra.parse (Nevra.toStr ⟨[97], ⟨[], [49], [50, 45, 51]⟩, [120]⟩)).name = [97, 45, 49] := by decide +kernel
/-- '-' in the version / the epoch / the arch -/
example : Nevra.parse (Nevra.toStr ⟨[97], ⟨[], [49, 45, 50], [51]⟩, [120]⟩) ≠ ⟨[97], ⟨[], [49, 45, 50], [51]⟩, [120]⟩ := by decide +kernel
example : Nevra.parse (Nevra.toStr ⟨[97], ⟨[49, 45], [50], [51]⟩, [120]⟩) ≠ ⟨[97], ⟨[49, 45], [50], [51]⟩, [120]⟩ := by decide +kernel
example : Nevra.parse (Nevra.toStr ⟨[97], ⟨[], [50], [51]⟩, [120, 45]⟩) ≠ ⟨[97], ⟨[], [50], [51]⟩, [120, 45]⟩ := by decide +kernel
/-- ':' in the epoch -/
example : Nevra.parse (Nevra.toStr ⟨[97], ⟨[49, 58], [50], [51]⟩, [120]⟩) ≠ ⟨[97], ⟨[49, 58], [50], [51]⟩, [120]⟩ := by decide +kernel
/-- '.' in the arch: ("a","","1","2","x.y") reads back as release "2.x", arch "y" -/
example : Nevra.parse (Nevra.toStr ⟨[97], ⟨[], [49], [50]⟩, [120, 46, 121]⟩) = ⟨[97], ⟨[], [49], [50, 46, 120]⟩, [121]⟩ := by decide +kernel
/-- ':' in version / release / arch with an empty epoch -/
example : Nevra.parse (Nevra.toStr ⟨[97], ⟨[], [49, 58], [50]⟩, [120]⟩) ≠ ⟨[97], ⟨[], [49, 58], [50]⟩, [120]⟩ := by decide +kernel
example : Nevra.parse (Nevra.toStr ⟨[97], ⟨[], [49], [50, 58]⟩, [120]⟩) ≠ ⟨[97], ⟨[], [49], [50, 58]⟩, [120]⟩ := by decide +kernel
example : Nevra.parse (Nevra.toStr ⟨[97], ⟨[], [49], [50]⟩, [120, 58, 121]⟩) ≠ ⟨[97], ⟨[], [49], [50]⟩, [120, 58, 121]⟩ := by decide +kernel
-- the fallback branch of `Nevra::parse_values` (fewer than two dashes): "a-1" and "a"
example : nevraParseValues [97, 45, 49] = ([97], [], [49], [], []) ∧ nevraParseValues [97] = ([97], [], [], [], []) := by decide +kernel
-- compression types: "none" ↦ None (variant 0), "lzma" is rejected
example : fromStr [110, 111, 110, 101] = .ok 0 ∧ toStr 0 = [110, 111, 110, 101] ∧ fromStr [108, 122, 109, 97] = .err "unknown-compressor" := by
  decide +kernel
example : 0 < numVariants := by decide

end RpmVerif.C15
