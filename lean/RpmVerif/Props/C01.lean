import RpmVerif.Lemmas.Header
import RpmVerif.Spec.Canon
/-!
# C01 — parse then write reproduces the package byte for byte

For every byte string `bs` (any length, any entry counts, any store sizes) accepted by the parser
model: the written bytes are `canon bs` (input with the reserved bytes of both intros and the
signature padding zeroed), and they are a fixpoint (parse to the same value, re-write identically).
-/
namespace RpmVerif.C01
open RpmVerif.Hdr RpmVerif.Canon RpmVerif.Gen

/-! ### the spec's `canon` computed on the byte layout a successful parse pins down -/

theorem u32At_be32 (pre post : Bytes) {n : Nat} (hn : n < 4294967296) :
    u32At (pre ++ be32 n ++ post) pre.length = n := by
  have h := rd32_be32 hn post
  simp only [u32At, List.append_assoc, List.drop_left]
  simp only [be32, List.cons_append, List.nil_append] at h ⊢
  simp only [rd32, Out.ok.injEq, Prod.mk.injEq, and_true] at h
  exact h

theorem hdrBytes_length {res : Bytes} {h : Header} (hr : res.length = 4) (wf : HeaderWF h) :
    (hdrBytes res h).length = 16 + 16 * h.nEntries + h.dataSize := by
  simp only [hdrBytes, List.length_append, hmagic, be32_length, writeRaws_length, List.length_map, wf.nEq, wf.dlEq, hr,
    List.length_cons, List.length_nil]
  omega

theorem hdrLen_hdrBytes {res : Bytes} {h : Header} (hr : res.length = 4) (wf : HeaderWF h) (x : Bytes) :
    hdrLen (hdrBytes res h ++ x) = 16 + 16 * h.nEntries + h.dataSize ∧ sigPadOf (hdrBytes res h ++ x) = sigPad h.dataSize := by
  have e1 : hdrBytes res h ++ x = (HEADER_MAGIC ++ [1] ++ res) ++ be32 h.nEntries ++
      (be32 h.dataSize ++ writeRaws (h.entries.map Entry.raw) ++ h.store ++ x) := by
    simp [hdrBytes, List.append_assoc]
  have e2 : hdrBytes res h ++ x = (HEADER_MAGIC ++ [1] ++ res ++ be32 h.nEntries) ++ be32 h.dataSize ++
      (writeRaws (h.entries.map Entry.raw) ++ h.store ++ x) := by
    simp [hdrBytes, List.append_assoc]
  have l1 : (HEADER_MAGIC ++ [1] ++ res).length = 8 := by simp [hmagic, hr]
  have l2 : (HEADER_MAGIC ++ [1] ++ res ++ be32 h.nEntries).length = 12 := by simp [hmagic, hr, be32_length]
  have a := u32At_be32 (HEADER_MAGIC ++ [1] ++ res) (be32 h.dataSize ++ writeRaws (h.entries.map Entry.raw) ++ h.store ++ x) wf.nLt
  have b := u32At_be32 (HEADER_MAGIC ++ [1] ++ res ++ be32 h.nEntries) (writeRaws (h.entries.map Entry.raw) ++ h.store ++ x) wf.dlLt
  rw [l1, ← e1] at a
  rw [l2, ← e2] at b
  simp only [hdrLen, sigPadOf, sigPad, a, b, and_self]

theorem zeroReserved_hdrBytes {res : Bytes} (h : Header) (hr : res.length = 4) (x : Bytes) :
    zeroReserved (hdrBytes res h ++ x) = hdrBytes [0, 0, 0, 0] h ++ x := by
  match res, hr with
  | [a, b, c, d], _ => simp [zeroReserved, hdrBytes, hmagic]

theorem canon_metaBytes {m : Metadata} (wf : MetadataWF m) {res1 pad res2 : Bytes} (h1 : res1.length = 4)
    (hpad : pad.length = sigPad m.signature.dataSize) (h2 : res2.length = 4) (rest : Bytes) :
    canon (metaBytes res1 pad res2 m ++ rest) =
      metaBytes [0, 0, 0, 0] (List.replicate (sigPad m.signature.dataSize) 0) [0, 0, 0, 0] m ++ rest := by
  have hl := writeLead_length wf.lead
  have e : metaBytes res1 pad res2 m ++ rest =
      writeLead m.lead ++ (hdrBytes res1 m.signature ++ (pad ++ (hdrBytes res2 m.header ++ rest))) := by
    simp [metaBytes, List.append_assoc]
  obtain ⟨hlen, hp⟩ := hdrLen_hdrBytes h1 wf.sig (pad ++ (hdrBytes res2 m.header ++ rest))
  have hS := hdrBytes_length h1 wf.sig
  simp only [canon]
  rw [e, ← hl, List.take_left, List.drop_left, hlen, hp, ← hS, List.take_left, ← hpad]
  have e3 : hdrBytes res1 m.signature ++ (pad ++ (hdrBytes res2 m.header ++ rest)) =
      (hdrBytes res1 m.signature ++ pad) ++ (hdrBytes res2 m.header ++ rest) := by simp [List.append_assoc]
  have l3 : (hdrBytes res1 m.signature ++ pad).length = (hdrBytes res1 m.signature).length + pad.length := by simp
  rw [e3, ← l3, List.drop_left]
  have z1 := zeroReserved_hdrBytes m.signature h1 []
  simp only [List.append_nil] at z1
  rw [z1, zeroReserved_hdrBytes m.header h2 rest]
  simp [metaBytes, List.append_assoc]

/-! ### the property -/

/-- **write ∘ parse = canon** for package metadata: whatever follows the metadata is untouched. -/
theorem metadata_write_parse {bs m rest} (hp : parseMetadata bs = .ok (m, rest)) :
    writeMetadata m ++ rest = canon bs := by
  obtain ⟨res1, pad, res2, h1, hpad, h2, rfl, wf⟩ := parseMetadata_ok hp
  rw [canon_metaBytes wf h1 hpad h2, writeMetadata_eq]

/-- the written metadata parses to the same value (and the same unread rest) -/
theorem metadata_fixpoint {bs m rest} (hp : parseMetadata bs = .ok (m, rest)) :
    parseMetadata (writeMetadata m ++ rest) = .ok (m, rest) := by
  obtain ⟨res1, pad, res2, h1, hpad, h2, rfl, wf⟩ := parseMetadata_ok hp
  rw [writeMetadata_eq]
  exact parseMetadata_write wf rfl (by simp) rfl rest

/-- **Main theorem (packages)**: for every accepted byte string, writing the parsed package gives the
canonical bytes; those bytes parse to a value equal to the first parse result and re-write identically. -/
theorem package_roundtrip {bs p} (hp : parsePackage bs = .ok p) :
    writePackage p = canon bs
    ∧ parsePackage (writePackage p) = .ok p
    ∧ (∀ p', parsePackage (writePackage p) = .ok p' → writePackage p' = writePackage p) := by
  simp only [parsePackage, Out.bind_eq_ok] at hp
  obtain ⟨⟨m, r⟩, h1, hp⟩ := hp
  simp only [Out.pure_eq, Out.ok.injEq] at hp
  subst hp
  have hfix : parsePackage (writePackage ⟨m, r⟩) = .ok ⟨m, r⟩ := by
    simp only [writePackage, parsePackage, metadata_fixpoint h1, Out.bind_ok, Out.pure_eq]
  refine ⟨metadata_write_parse h1, hfix, ?_⟩
  intro p' hp'
  rw [hfix] at hp'
  simp only [Out.ok.injEq] at hp'
  rw [← hp']

/-- canonical bytes are themselves canonical (idempotence of the permitted difference) -/
theorem canon_idem {bs p} (hp : parsePackage bs = .ok p) : canon (canon bs) = canon bs := by
  obtain ⟨h1, h2, _⟩ := package_roundtrip hp
  have := (package_roundtrip h2).1
  rw [h1] at this
  exact this.symm

/-- the canonical form of an accepted byte string is accepted, with the SAME value -/
theorem canon_accepted {bs p} (hp : parsePackage bs = .ok p) : parsePackage (canon bs) = .ok p := by
  obtain ⟨h1, h2, _⟩ := package_roundtrip hp
  rw [← h1]; exact h2

/-- **the parser loses nothing but the permitted difference**: two accepted byte strings with the same parsed value
have the same canonical bytes (they differ at most in the reserved bytes and the signature padding) -/
theorem parse_injective_mod_canon {a b p} (ha : parsePackage a = .ok p) (hb : parsePackage b = .ok p) :
    canon a = canon b := by
  rw [← (package_roundtrip ha).1, ← (package_roundtrip hb).1]

/-- conversely, accepted byte strings with the same canonical bytes parse to the same value -/
theorem parse_eq_of_canon_eq {a b p q} (ha : parsePackage a = .ok p) (hb : parsePackage b = .ok q)
    (h : canon a = canon b) : p = q := by
  have h1 := canon_accepted ha
  have h2 := canon_accepted hb
  rw [h, h2] at h1
  simpa using h1.symm

/-- the round trip is exact (byte for byte, no difference at all) precisely for canonical inputs -/
theorem roundtrip_exact_iff {bs p} (hp : parsePackage bs = .ok p) : writePackage p = bs ↔ canon bs = bs := by
  rw [(package_roundtrip hp).1]

/-- the lead alone: 96 accepted bytes are reproduced exactly -/
theorem lead_roundtrip {b l} (hp : parseLead b = .ok l) : writeLead l = b ∧ parseLead (writeLead l) = .ok l := by
  obtain ⟨rfl, wf⟩ := parseLead_ok hp
  exact ⟨rfl, parseLead_write wf⟩

/-- a single header (any of the two): write ∘ parse zeroes only the reserved bytes; fixpoint -/
theorem header_roundtrip {bs h rest} (hp : parseHeader bs = .ok (h, rest)) :
    writeHeader h ++ rest = zeroReserved bs ∧ parseHeader (writeHeader h ++ rest) = .ok (h, rest) := by
  obtain ⟨res, hr, rfl, wf⟩ := parseHeader_ok hp
  rw [zeroReserved_hdrBytes h hr rest, writeHeader_eq]
  exact ⟨rfl, parseHeader_write wf rfl rest⟩

/-! ### values changed in memory: `Header::clear` / `Header::new_empty` on the signature header -/

/-- the written bytes of EVERY well-formed package value (parsed or not) parse to that value and re-write identically -/
theorem wf_fixpoint {p : Package} (wf : MetadataWF p.md) :
    parsePackage (writePackage p) = .ok p
    ∧ (∀ p', parsePackage (writePackage p) = .ok p' → writePackage p' = writePackage p) := by
  have hfix : parsePackage (writePackage p) = .ok p := by
    have := parseMetadata_write wf (res1 := [0, 0, 0, 0]) (pad := List.replicate (sigPad p.md.signature.dataSize) 0)
      (res2 := [0, 0, 0, 0]) rfl (by simp) rfl p.content
    rw [← writeMetadata_eq] at this
    simp only [writePackage, parsePackage, this, Out.bind_ok, Out.pure_eq]
  refine ⟨hfix, ?_⟩
  intro p' hp'
  rw [hfix] at hp'
  simp only [Out.ok.injEq] at hp'
  rw [← hp']

/-- `write` is injective on well-formed values: distinct packages never serialise to the same bytes -/
theorem write_injective {p q : Package} (wp : MetadataWF p.md) (wq : MetadataWF q.md)
    (h : writePackage p = writePackage q) : p = q := by
  have h1 := (wf_fixpoint wp).1
  have h2 := (wf_fixpoint wq).1
  rw [h, h2] at h1
  simpa using h1.symm

/-- **a parsed package whose signature header was cleared (`clear()`) or replaced by `new_empty()`**: what is written is
the lead, the 16-byte empty intro, the main header and the payload; those bytes are a fixpoint -/
theorem cleared_fixpoint {bs p} (hp : parsePackage bs = .ok p) :
    let p' : Package := ⟨{ p.md with signature := p.md.signature.clear }, p.content⟩
    p'.md.signature = Header.empty
    ∧ writePackage p' = writeLead p.md.lead ++ writeIntro 0 0 ++ writeHeader p.md.header ++ p.content
    ∧ parsePackage (writePackage p') = .ok p'
    ∧ (∀ p'', parsePackage (writePackage p') = .ok p'' → writePackage p'' = writePackage p') := by
  intro p'
  have wf : MetadataWF p.md := by
    simp only [parsePackage, Out.bind_eq_ok] at hp
    obtain ⟨⟨m, r⟩, h1, hp⟩ := hp
    simp only [Out.pure_eq, Out.ok.injEq] at hp
    subst hp
    obtain ⟨_, _, _, _, _, _, _, wf⟩ := parseMetadata_ok h1
    exact wf
  have ewf : HeaderWF Header.empty := ⟨rfl, rfl, by decide, by decide, fun _ h => (nomatch h), fun _ h => (nomatch h), Nat.le_refl 0⟩
  have wf' : MetadataWF p'.md := ⟨wf.lead, ewf, wf.hdr⟩
  refine ⟨rfl, ?_, (wf_fixpoint wf').1, (wf_fixpoint wf').2⟩
  have e : writeSignature Header.empty = writeIntro 0 0 := rfl
  show writeLead p.md.lead ++ writeSignature Header.empty ++ writeHeader p.md.header ++ p.content = _
  rw [e]

/-! ### non-vacuity: a concrete accepted package with non-zero reserved bytes, non-zero padding,
a BIN entry in the signature header, a STRING and an INT32 entry in the main header, 2 payload bytes -/
def sample : Bytes := [237, 171, 238, 219, 3, 0, 0, 0, 0, 1, 116, 0, 0, 0, 0, 0, 0, 0, 0, 0, 0, 0, 0, 0, 0, 0, 0, 0, 0, 0, 0, 0, 0, 0, 0, 0, 0, 0, 0, 0, 0, 0, 0, 0, 0, 0, 0, 0, 0, 0, 0, 0, 0, 0, 0, 0, 0, 0, 0, 0, 0, 0, 0, 0, 0, 0, 0, 0, 0, 0, 0, 0, 0, 0, 0, 0, 0, 1, 0, 5, 0, 0, 0, 0, 0, 0, 0, 0, 0, 0, 0, 0, 0, 0, 0, 0, 142, 173, 232, 1, 170, 187, 204, 221, 0, 0, 0, 1, 0, 0, 0, 5, 0, 0, 3, 232, 0, 0, 0, 7, 0, 0, 0, 0, 0, 0, 0, 5, 104, 101, 108, 108, 111, 7, 7, 7, 142, 173, 232, 1, 1, 2, 3, 4, 0, 0, 0, 2, 0, 0, 0, 8, 0, 0, 3, 232, 0, 0, 0, 6, 0, 0, 0, 0, 0, 0, 0, 1, 0, 0, 3, 233, 0, 0, 0, 4, 0, 0, 0, 4, 0, 0, 0, 1, 97, 98, 99, 0, 0, 0, 0, 7, 9, 9]

example : (parsePackage sample).isOk = true := by decide +kernel
-- the permitted difference is real: the canonical bytes differ from the input (reserved bytes, padding)
example : canon sample ≠ sample := by decide +kernel
example : (parsePackage sample).map (fun p => p.md.header.entries.map (·.data)) =
    .ok [.str [97, 98, 99], .int32 [7]] := by decide +kernel

-- clearing the signature header of the sample changes what is written (16 bytes instead of 40) and the result is still a fixpoint
example : (parsePackage sample).map (fun p => (writePackage ⟨{ p.md with signature := p.md.signature.clear }, p.content⟩).length) = .ok 170 := by
  decide +kernel
example : sample.length = 194 := by decide +kernel

end RpmVerif.C01
