import RpmVerif.Lemmas.Timestamp
/-!
# C20 — timestamp conversion is exact inside the 32-bit range and an error outside

All theorems quantify over *all* instants (`secs : Int` unbounded, every `nanos < 10⁹`) and, for
the chrono conversion, all zone offsets. `fromSystemTime` / `fromChrono` model the two `TryFrom`
impls of `src/rpm/timestamp.rs`; `convert` is `Timestamp::try_from` on either argument type.
`TimestampSpec.expect` is the property text on the floor of the instant.
-/
set_option linter.unusedVariables false
namespace RpmVerif.C20
open RpmVerif.Timestamp RpmVerif.TimestampSpec

/-! ### the instant representation: `secs` really is the floor, `≤` really is the time line -/

/-- `floor t ≤ t < floor t + 1` in exact nanoseconds -/
theorem floor_is_floor (t : Instant) :
    t.floor * 1000000000 ≤ t.totalNanos ∧ t.totalNanos < (t.floor + 1) * 1000000000 := by
  have := t.nanos_lt
  simp only [Instant.floor, Instant.totalNanos]; omega

/-- an instant lies before the epoch exactly when its floor is negative (e.g. `⟨-1, 999999999⟩`) -/
theorem before_epoch_iff (t : Instant) : t.totalNanos < 0 ↔ t.floor < 0 := by
  have := t.nanos_lt
  simp only [Instant.floor, Instant.totalNanos]; omega

/-- the order on instants is the order of their exact nanosecond counts -/
theorem le_iff_totalNanos (a b : Instant) : a ≤ b ↔ a.totalNanos ≤ b.totalNanos := by
  have := a.nanos_lt; have := b.nanos_lt
  show (a.secs < b.secs ∨ (a.secs = b.secs ∧ a.nanos ≤ b.nanos)) ↔ _
  simp only [Instant.totalNanos]; omega

/-- later instants have later (or equal) floors -/
theorem floor_mono {a b : Instant} (h : a ≤ b) : a.floor ≤ b.floor := by
  have h' : a.secs < b.secs ∨ (a.secs = b.secs ∧ a.nanos ≤ b.nanos) := h
  simp only [Instant.floor]; omega

/-! ### the model equals the spec, for every instant -/

/-- the spec's expectation as a conversion result -/
def ofExpect : Expect → Conv
  | .value n => .ok n | .underflow => .underflow | .overflow => .overflow

theorem fromSystemTime_eq_spec (t : Instant) : fromSystemTime t = ofExpect (expect t.floor) := by
  rcases expect_cases t.floor with ⟨h, e⟩ | ⟨h0, h1, e⟩ | ⟨h, e⟩ <;> rw [e] <;> change _ = _ at * <;>
    simp only [Instant.floor] at *
  · exact fromSystemTime_of_neg h
  · rw [fromSystemTime_of_nonneg h0, u32OfU64_of_lt (by omega)]; rfl
  · rw [fromSystemTime_of_nonneg (by omega), u32OfU64_of_ge (by omega)]; rfl

theorem fromChrono_eq_spec (dt : DateTime) : fromChrono dt = ofExpect (expect dt.utc.floor) := by
  rw [fromChrono_unfold]
  rcases expect_cases dt.utc.floor with ⟨h, e⟩ | ⟨h0, h1, e⟩ | ⟨h, e⟩ <;> rw [e] <;>
    simp only [Instant.floor] at *
  · rw [if_pos h]; rfl
  · rw [if_neg (by omega), u32OfI64_of_range h0 h1]; rfl
  · rw [if_neg (by omega), u32OfI64_of_ge h]; rfl

theorem convert_eq_spec (s : Source) : convert s = ofExpect (expect s.instant.floor) := by
  cases s with
  | sys st => exact fromSystemTime_eq_spec st
  | chrono dt => exact fromChrono_eq_spec dt

/-! ### ts_exact -/

/-- **Exactness**, either conversion, every instant: inside `0..2³²` the result is the floor, before
the epoch it is `Underflow`, from 2³² s on it is `Overflow`. -/
theorem ts_exact (s : Source) :
    (0 ≤ s.instant.floor → s.instant.floor < 4294967296 → convert s = .ok s.instant.floor.toNat) ∧
    (s.instant.floor < 0 → convert s = .underflow) ∧
    (4294967296 ≤ s.instant.floor → convert s = .overflow) := by
  rw [convert_eq_spec]
  rcases expect_cases s.instant.floor with ⟨h, e⟩ | ⟨h0, h1, e⟩ | ⟨h, e⟩ <;> rw [e] <;>
    show _ ∧ _ ∧ _
  · exact ⟨fun a _ => absurd a (by omega), fun _ => rfl, fun a => absurd a (by omega)⟩
  · exact ⟨fun _ _ => rfl, fun a => absurd a (by omega), fun a => absurd a (by omega)⟩
  · exact ⟨fun _ a => absurd a (by omega), fun a => absurd a (by omega), fun _ => rfl⟩

theorem ts_exact_systemtime (t : Instant) :
    (0 ≤ t.floor → t.floor < 4294967296 → fromSystemTime t = .ok t.floor.toNat) ∧
    (t.floor < 0 → fromSystemTime t = .underflow) ∧
    (4294967296 ≤ t.floor → fromSystemTime t = .overflow) := ts_exact (.sys t)

theorem ts_exact_chrono (t : Instant) (offset : Int) :
    (0 ≤ t.floor → t.floor < 4294967296 → fromChrono ⟨t, offset⟩ = .ok t.floor.toNat) ∧
    (t.floor < 0 → fromChrono ⟨t, offset⟩ = .underflow) ∧
    (4294967296 ≤ t.floor → fromChrono ⟨t, offset⟩ = .overflow) := ts_exact (.chrono ⟨t, offset⟩)

/-- converses: the outcome determines the region (the three regions partition the time line) -/
theorem ts_ok_iff (s : Source) (n : Nat) :
    convert s = .ok n ↔ s.instant.floor = (n : Int) ∧ n < 4294967296 := by
  rw [convert_eq_spec]
  rcases expect_cases s.instant.floor with ⟨h, e⟩ | ⟨h0, h1, e⟩ | ⟨h, e⟩ <;> rw [e] <;>
    simp only [ofExpect, Conv.ok.injEq, reduceCtorEq, false_iff] <;> omega

theorem ts_underflow_iff (s : Source) : convert s = .underflow ↔ s.instant.floor < 0 := by
  rw [convert_eq_spec]
  rcases expect_cases s.instant.floor with ⟨h, e⟩ | ⟨h0, h1, e⟩ | ⟨h, e⟩ <;> rw [e] <;>
    simp only [ofExpect, reduceCtorEq, false_iff, true_iff] <;> omega

theorem ts_overflow_iff (s : Source) : convert s = .overflow ↔ 4294967296 ≤ s.instant.floor := by
  rw [convert_eq_spec]
  rcases expect_cases s.instant.floor with ⟨h, e⟩ | ⟨h0, h1, e⟩ | ⟨h, e⟩ <;> rw [e] <;>
    simp only [ofExpect, reduceCtorEq, false_iff, true_iff] <;> omega

/-! ### ts_agree -/

/-- both conversions give the same result on the same instant, whatever the zone -/
theorem ts_agree (t : Instant) (offset : Int) : fromChrono ⟨t, offset⟩ = fromSystemTime t := by
  rw [fromChrono_eq_spec, fromSystemTime_eq_spec]

/-- the zone offset of a `DateTime` does not enter the result -/
theorem ts_zone_irrelevant (t : Instant) (o₁ o₂ : Int) : fromChrono ⟨t, o₁⟩ = fromChrono ⟨t, o₂⟩ := by
  rw [ts_agree, ts_agree]

/-- sub-second parts never matter: only the floor does (no rounding) -/
theorem ts_subsec_irrelevant (s₁ s₂ : Source) (h : s₁.instant.floor = s₂.instant.floor) :
    convert s₁ = convert s₂ := by
  rw [convert_eq_spec, convert_eq_spec, h]

/-! ### ts_monotone -/

/-- **Order preservation** across either conversion (and mixed): earlier instants never get a
larger timestamp -/
theorem ts_monotone (s₁ s₂ : Source) (a b : Nat) (h : s₁.instant ≤ s₂.instant)
    (h₁ : convert s₁ = .ok a) (h₂ : convert s₂ = .ok b) : a ≤ b := by
  have := floor_mono h
  rw [ts_ok_iff] at h₁ h₂
  omega

/-- strictly different timestamps reflect a strict order of the instants -/
theorem ts_order_reflect (s₁ s₂ : Source) (a b : Nat)
    (h₁ : convert s₁ = .ok a) (h₂ : convert s₂ = .ok b) (hab : a < b) : ¬ s₂.instant ≤ s₁.instant := by
  intro h
  have := ts_monotone s₂ s₁ b a h h₂ h₁
  omega

/-! ### ts_total -/

/-- **No panic**: every conversion ends in `Ok`, `Underflow` or `Overflow` -/
theorem ts_total (s : Source) : (convert s).isPanic = false := by
  rw [convert_eq_spec]
  cases expect s.instant.floor <;> rfl

/-- and exactly one of the three -/
theorem ts_trichotomy (s : Source) :
    (∃ n, convert s = .ok n) ∨ convert s = .underflow ∨ convert s = .overflow := by
  rw [convert_eq_spec]
  cases expect s.instant.floor with
  | value n => exact .inl ⟨n, rfl⟩
  | underflow => exact .inr (.inl rfl)
  | overflow => exact .inr (.inr rfl)

/-- `Timestamp::now()` (an `unwrap`) is panic-free exactly while the clock is inside 1970..2106.
(Model-only: the correspondence cannot set the clock, so `now` is not exercised against the code.) -/
theorem now_total_iff (clock : Instant) :
    (now clock).isPanic = false ↔ (0 ≤ clock.floor ∧ clock.floor < 4294967296) := by
  have hs := fromSystemTime_eq_spec clock
  have hu := ts_underflow_iff (.sys clock)
  have ho := ts_overflow_iff (.sys clock)
  simp only [convert, Source.instant] at hu ho
  unfold now
  cases hc : fromSystemTime clock with
  | ok n =>
    have := (ts_ok_iff (.sys clock) n).mp hc
    simp only [Source.instant] at this
    simp only [Conv.isPanic, true_iff]; omega
  | underflow =>
    have := hu.mp hc
    simp only [Conv.isPanic, Bool.true_eq_false, false_iff]; omega
  | overflow =>
    have := ho.mp hc
    simp only [Conv.isPanic, Bool.true_eq_false, false_iff]; omega
  | panic site =>
    have := ts_total (.sys clock)
    simp only [convert, hc, Conv.isPanic] at this
    cases this

/-! ### non-vacuity: each hypothesis is met by concrete, non-trivial instants -/
-- inside the range, with a sub-second part: exact floor, both conversions, a +5:45 zone
example : fromSystemTime ⟨1600000000, 999999999, by decide⟩ = .ok 1600000000 ∧
    fromChrono ⟨⟨1600000000, 999999999, by decide⟩, 20700⟩ = .ok 1600000000 := by decide
-- one nanosecond before the epoch is an underflow, the epoch itself is 0
example : fromSystemTime ⟨-1, 999999999, by decide⟩ = .underflow ∧ fromSystemTime ⟨0, 0, by decide⟩ = .ok 0 ∧
    fromChrono ⟨⟨-1, 999999999, by decide⟩, -12600⟩ = .underflow := by decide
-- the last representable second (with nanos) and the first overflowing one
example : fromSystemTime ⟨4294967295, 999999999, by decide⟩ = .ok 4294967295 ∧
    fromChrono ⟨⟨4294967296, 0, by decide⟩, 0⟩ = .overflow ∧ fromSystemTime ⟨4294967296, 0, by decide⟩ = .overflow := by decide
-- premises of `ts_monotone` with a mixed pair half a second apart across a second boundary
example : (Source.sys ⟨2147483647, 500000000, by decide⟩).instant ≤ (Source.chrono ⟨⟨2147483648, 0, by decide⟩, 3600⟩).instant ∧
    convert (.sys ⟨2147483647, 500000000, by decide⟩) = .ok 2147483647 ∧
    convert (.chrono ⟨⟨2147483648, 0, by decide⟩, 3600⟩) = .ok 2147483648 := by decide
-- `now` does panic outside the range (so `now_total_iff` is not vacuous in either direction)
example : (now ⟨-1, 0, by decide⟩).isPanic = true ∧ (now ⟨4294967296, 0, by decide⟩).isPanic = true ∧
    now ⟨1790000000, 5, by decide⟩ = .ok 1790000000 := by decide

end RpmVerif.C20
