import RpmVerif.Lemmas.Timestamp
/-!
# C20 — timestamp conversion is exact inside the 32-bit range and an error outside

All theorems quantify over *all* instants (`secs : Int` unbounded, every `nanos < 10⁹`) and, for
the chrono conversion, all zone offsets. `fromSystemTime` / `fromChrono` model the two `TryFrom`
impls of `src/rpm/timestamp.rs`; `convert` is `Timestamp::try_from` on either argument type.
`TimestampSpec.expect` is the property text on the floor of the instant.
-/
set_option linter.unusedVariables false
namespace RpmVerif.C20
open RpmVerif.Timestamp RpmVerif.TimestampSpec RpmVerif.Calendar

/-! ### the instant representation: `secs` really is the floor, `≤` really is the time line -/

/-- `floor t ≤ t < floor t + 1` in exact nanoseconds -/
theorem floor_is_floor (t : Instant) :
    t.floor * 1000000000 ≤ t.totalNanos ∧ t.totalNanos < (t.floor + 1) * 1000000000 := by
  have := t.nanos_lt
  simp only [Instant.floor, Instant.totalNanos]; omega

/-- an instant lies before the epoch exactly when its floor is negative (e.g. `⟨-1, 999999999⟩`) -/
theorem before_epoch_iff (t : Instant) : t.totalNanos < 0 ↔ t.floor < 0 := by
  have := t.nanos_lt
  simp only [Instant.floor, Instant.totalNanos]; omega

/-- the order on instants is the order of their exact nanosecond counts -/
theorem le_iff_totalNanos (a b : Instant) : a ≤ b ↔ a.totalNanos ≤ b.totalNanos := by
  have := a.nanos_lt; have := b.nanos_lt
  show (a.secs < b.secs ∨ (a.secs = b.secs ∧ a.nanos ≤ b.nanos)) ↔ _
  simp only [Instant.totalNanos]; omega

/-- later instants have later (or equal) floors -/
theorem floor_mono {a b : Instant} (h : a ≤ b) : a.floor ≤ b.floor := by
  have h' : a.secs < b.secs ∨ (a.secs = b.secs ∧ a.nanos ≤ b.nanos) := h
  simp only [Instant.floor]; omega

/-! ### the model equals the spec, for every instant -/

/-- the spec's expectation as a conversion result -/
def ofExpect : Expect → Conv
  | .value n => .ok n | .underflow => .underflow | .overflow => .overflow

theorem fromSystemTime_eq_spec (t : Instant) : fromSystemTime t = ofExpect (expect t.floor) := by
  rcases expect_cases t.floor with ⟨h, e⟩ | ⟨h0, h1, e⟩ | ⟨h, e⟩ <;> rw [e] <;> change _ = _ at * <;>
    simp only [Instant.floor] at *
  · exact fromSystemTime_of_neg h
  · rw [fromSystemTime_of_nonneg h0, u32OfU64_of_lt (by omega)]; rfl
  · rw [fromSystemTime_of_nonneg (by omega), u32OfU64_of_ge (by omega)]; rfl

theorem fromChrono_eq_spec (dt : DateTime) : fromChrono dt = ofExpect (expect dt.utc.floor) := by
  rw [fromChrono_unfold]
  rcases expect_cases dt.utc.floor with ⟨h, e⟩ | ⟨h0, h1, e⟩ | ⟨h, e⟩ <;> rw [e] <;>
    simp only [Instant.floor] at *
  · rw [if_pos h]; rfl
  · rw [if_neg (by omega), u32OfI64_of_range h0 h1]; rfl
  · rw [if_neg (by omega), u32OfI64_of_ge h]; rfl

theorem convert_eq_spec (s : Source) : convert s = ofExpect (expect s.instant.floor) := by
  cases s with
  | sys st => exact fromSystemTime_eq_spec st
  | chrono dt => exact fromChrono_eq_spec dt

/-! ### ts_exact -/

/-- **Exactness**, either conversion, every instant: inside `0..2³²` the result is the floor, before
the epoch it is `Underflow`, from 2³² s on it is `Overflow`. -/
theorem ts_exact (s : Source) :
    (0 ≤ s.instant.floor → s.instant.floor < 4294967296 → convert s = .ok s.instant.floor.toNat) ∧
    (s.instant.floor < 0 → convert s = .underflow) ∧
    (4294967296 ≤ s.instant.floor → convert s = .overflow) := by
  rw [convert_eq_spec]
  rcases expect_cases s.instant.floor with ⟨h, e⟩ | ⟨h0, h1, e⟩ | ⟨h, e⟩ <;> rw [e] <;>
    show _ ∧ _ ∧ _
  · exact ⟨fun a _ => absurd a (by omega), fun _ => rfl, fun a => absurd a (by omega)⟩
  · exact ⟨fun _ _ => rfl, fun a => absurd a (by omega), fun a => absurd a (by omega)⟩
  · exact ⟨fun _ a => absurd a (by omega), fun a => absurd a (by omega), fun _ => rfl⟩

theorem ts_exact_systemtime (t : Instant) :
    (0 ≤ t.floor → t.floor < 4294967296 → fromSystemTime t = .ok t.floor.toNat) ∧
    (t.floor < 0 → fromSystemTime t = .underflow) ∧
    (4294967296 ≤ t.floor → fromSystemTime t = .overflow) := ts_exact (.sys t)

theorem ts_exact_chrono (t : Instant) (offset : Int) :
    (0 ≤ t.floor → t.floor < 4294967296 → fromChrono ⟨t, offset⟩ = .ok t.floor.toNat) ∧
    (t.floor < 0 → fromChrono ⟨t, offset⟩ = .underflow) ∧
    (4294967296 ≤ t.floor → fromChrono ⟨t, offset⟩ = .overflow) := ts_exact (.chrono ⟨t, offset⟩)

/-- converses: the outcome determines the region (the three regions partition the time line) -/
theorem ts_ok_iff (s : Source) (n : Nat) :
    convert s = .ok n ↔ s.instant.floor = (n : Int) ∧ n < 4294967296 := by
  rw [convert_eq_spec]
  rcases expect_cases s.instant.floor with ⟨h, e⟩ | ⟨h0, h1, e⟩ | ⟨h, e⟩ <;> rw [e] <;>
    simp only [ofExpect, Conv.ok.injEq, reduceCtorEq, false_iff] <;> omega

theorem ts_underflow_iff (s : Source) : convert s = .underflow ↔ s.instant.floor < 0 := by
  rw [convert_eq_spec]
  rcases expect_cases s.instant.floor with ⟨h, e⟩ | ⟨h0, h1, e⟩ | ⟨h, e⟩ <;> rw [e] <;>
    simp only [ofExpect, reduceCtorEq, false_iff, true_iff] <;> omega

theorem ts_overflow_iff (s : Source) : convert s = .overflow ↔ 4294967296 ≤ s.instant.floor := by
  rw [convert_eq_spec]
  rcases expect_cases s.instant.floor with ⟨h, e⟩ | ⟨h0, h1, e⟩ | ⟨h, e⟩ <;> rw [e] <;>
    simp only [ofExpect, reduceCtorEq, false_iff, true_iff] <;> omega

/-! ### ts_agree -/

/-- both conversions give the same result on the same instant, whatever the zone -/
theorem ts_agree (t : Instant) (offset : Int) : fromChrono ⟨t, offset⟩ = fromSystemTime t := by
  rw [fromChrono_eq_spec, fromSystemTime_eq_spec]

/-- the zone offset of a `DateTime` does not enter the result -/
theorem ts_zone_irrelevant (t : Instant) (o₁ o₂ : Int) : fromChrono ⟨t, o₁⟩ = fromChrono ⟨t, o₂⟩ := by
  rw [ts_agree, ts_agree]

/-- sub-second parts never matter: only the floor does (no rounding) -/
theorem ts_subsec_irrelevant (s₁ s₂ : Source) (h : s₁.instant.floor = s₂.instant.floor) :
    convert s₁ = convert s₂ := by
  rw [convert_eq_spec, convert_eq_spec, h]

/-! ### ts_monotone -/

/-- **Order preservation** across either conversion (and mixed): earlier instants never get a
larger timestamp -/
theorem ts_monotone (s₁ s₂ : Source) (a b : Nat) (h : s₁.instant ≤ s₂.instant)
    (h₁ : convert s₁ = .ok a) (h₂ : convert s₂ = .ok b) : a ≤ b := by
  have := floor_mono h
  rw [ts_ok_iff] at h₁ h₂
  omega

/-- strictly different timestamps reflect a strict order of the instants -/
theorem ts_order_reflect (s₁ s₂ : Source) (a b : Nat)
    (h₁ : convert s₁ = .ok a) (h₂ : convert s₂ = .ok b) (hab : a < b) : ¬ s₂.instant ≤ s₁.instant := by
  intro h
  have := ts_monotone s₂ s₁ b a h h₂ h₁
  omega

/-! ### ts_total -/

/-- **No panic**: every conversion ends in `Ok`, `Underflow` or `Overflow` -/
theorem ts_total (s : Source) : (convert s).isPanic = false := by
  rw [convert_eq_spec]
  cases expect s.instant.floor <;> rfl

/-- and exactly one of the three -/
theorem ts_trichotomy (s : Source) :
    (∃ n, convert s = .ok n) ∨ convert s = .underflow ∨ convert s = .overflow := by
  rw [convert_eq_spec]
  cases expect s.instant.floor with
  | value n => exact .inl ⟨n, rfl⟩
  | underflow => exact .inr (.inl rfl)
  | overflow => exact .inr (.inr rfl)

/-- `Timestamp::now()` (an `unwrap`) is panic-free exactly while the clock is inside 1970..2106.
(Model-only: the correspondence cannot set the clock, so `now` is not exercised against the code.) -/
theorem now_total_iff (clock : Instant) :
    (now clock).isPanic = false ↔ (0 ≤ clock.floor ∧ clock.floor < 4294967296) := by
  have hs := fromSystemTime_eq_spec clock
  have hu := ts_underflow_iff (.sys clock)
  have ho := ts_overflow_iff (.sys clock)
  simp only [convert, Source.instant] at hu ho
  unfold now
  cases hc : fromSystemTime clock with
  | ok n =>
    have := (ts_ok_iff (.sys clock) n).mp hc
    simp only [Source.instant] at this
    simp only [Conv.isPanic, true_iff]; omega
  | underflow =>
    have := hu.mp hc
    simp only [Conv.isPanic, Bool.true_eq_false, false_iff]; omega
  | overflow =>
    have := ho.mp hc
    simp only [Conv.isPanic, Bool.true_eq_false, false_iff]; omega
  | panic site =>
    have := ts_total (.sys clock)
    simp only [convert, hc, Conv.isPanic] at this
    cases this

/-! ### the calendar: `daysFromCivil` is the day count of the proleptic Gregorian calendar -/

/-- 1970-01-01 is day 0 -/
theorem civil_epoch : daysFromCivil 1970 1 1 = 0 := by decide

/-- a shifted year has 365 days, 366 when the civil year its February lies in is a leap year -/
theorem yearPart_succ (Y : Int) : yearPart (Y + 1) = yearPart Y + (if isLeapYear (Y + 1) then 366 else 365) := by
  unfold yearPart
  by_cases hL : isLeapYear (Y + 1)
  · rw [if_pos hL]; unfold isLeapYear at hL; omega
  · rw [if_neg hL]; unfold isLeapYear at hL; omega

/-- from every valid date to the next one (within the month, over the end of a month, over the end of February in leap and
ordinary years, over the end of the year) the day number grows by exactly one. With `civil_epoch` this characterises
`daysFromCivil`: it is the number of days since 1970-01-01, for all years (negative ones included). -/
theorem civil_next_day (y : Int) (m d : Nat) (hm1 : 1 ≤ m) (hm2 : m ≤ 12) (hd1 : 1 ≤ d) (hd2 : d ≤ daysInMonth y m) :
    daysFromCivil (nextDay y m d).1 (nextDay y m d).2.1 (nextDay y m d).2.2 = daysFromCivil y m d + 1 := by
  unfold nextDay
  by_cases h1 : d < daysInMonth y m
  · rw [if_pos h1]; simp only [daysFromCivil]; omega
  · rw [if_neg h1]
    have hd : (d : Int) = daysInMonth y m := by omega
    by_cases h2 : m < 12
    · rw [if_pos h2]
      simp only [daysFromCivil, hd]
      by_cases hf : m = 2
      · subst hf
        have hy := yearPart_succ (y - 1)
        have e : y - 1 + 1 = y := by omega
        rw [e] at hy
        simp only [shiftedYear, shiftedMonth, monthPart, daysInMonth, if_true]
        simp only [show (2 : Nat) ≤ 2 from Nat.le_refl 2, show ¬ (2 + 1 ≤ 2) by omega, show ¬ (2 > 2) by omega,
          show (2 + 1 > 2) by omega, if_true, if_false]
        rw [hy]
        split <;> simp <;> omega
      · have hm : m = 1 ∨ m = 3 ∨ m = 4 ∨ m = 5 ∨ m = 6 ∨ m = 7 ∨ m = 8 ∨ m = 9 ∨ m = 10 ∨ m = 11 := by omega
        rcases hm with rfl | rfl | rfl | rfl | rfl | rfl | rfl | rfl | rfl | rfl <;>
          simp [shiftedYear, shiftedMonth, monthPart, daysInMonth] <;> omega
    · rw [if_neg h2]
      have hm : m = 12 := by omega
      subst hm
      simp [daysFromCivil, hd, shiftedYear, shiftedMonth, monthPart, daysInMonth]
      omega

/-- the day after a valid date is a valid date -/
theorem nextDay_valid (y : Int) (m d : Nat) (hm1 : 1 ≤ m) (hm2 : m ≤ 12) (hd1 : 1 ≤ d) (hd2 : d ≤ daysInMonth y m) :
    1 ≤ (nextDay y m d).2.1 ∧ (nextDay y m d).2.1 ≤ 12 ∧ 1 ≤ (nextDay y m d).2.2
    ∧ (nextDay y m d).2.2 ≤ daysInMonth (nextDay y m d).1 (nextDay y m d).2.1 := by
  have hpos : ∀ (y : Int) (m : Nat), 28 ≤ daysInMonth y m := by
    intro y m; unfold daysInMonth; repeat' split
    all_goals omega
  unfold nextDay
  by_cases h1 : d < daysInMonth y m
  · rw [if_pos h1]; dsimp only; exact ⟨hm1, hm2, by omega, by omega⟩
  · rw [if_neg h1]
    by_cases h2 : m < 12
    · rw [if_pos h2]; dsimp only; have := hpos y (m + 1); exact ⟨by omega, by omega, by omega, by omega⟩
    · rw [if_neg h2]; dsimp only; have := hpos (y + 1) 1; exact ⟨by omega, by omega, by omega, by omega⟩

/-! ### chrono's own representation: leap-second readings, calendar fields, zones (AUDIT2 a23) -/

theorem fromChronoDT_unfold (d : ChronoDT) : fromChronoDT d =
    if d.secs < 0 then .underflow
    else match u32OfI64 d.secs with
      | none => .overflow
      | some n => .ok n := rfl

/-- **Exactness on chrono's representation**, every stored second, every sub-second field up to 2·10⁹ − 1 (leap-second
readings included), every offset: the result is the spec's expectation for the stored second. -/
theorem ts_exact_chronoDT (d : ChronoDT) : fromChronoDT d = ofExpect (expect d.secs) := by
  rw [fromChronoDT_unfold]
  rcases expect_cases d.secs with ⟨h, e⟩ | ⟨h0, h1, e⟩ | ⟨h, e⟩ <;> rw [e]
  · rw [if_pos h]; rfl
  · rw [if_neg (by omega), u32OfI64_of_range h0 h1]; rfl
  · rw [if_neg (by omega), u32OfI64_of_ge h]; rfl

/-- on ordinary (non-leap) values this is the conversion of the `DateTime` / `Instant` model -/
theorem fromChronoDT_eq_fromChrono (d : ChronoDT) (h : d.frac < 1000000000) :
    fromChronoDT d = fromChrono (d.toDateTime h) := rfl

/-- **Leap-second readings**: a reading inside the leap second that hangs on second `S` converts like second `S` itself
(chrono's `timestamp()` does not count the leap second), whatever its sub-second part and zone: never a panic, never
`S + 2` or `S − 1`. -/
theorem ts_leap_reading (d : ChronoDT) (hl : d.isLeap = true) (t : Instant) (o : Int) (ht : t.secs = d.secs) :
    fromChronoDT d = fromChrono ⟨t, o⟩ ∧ (fromChronoDT d).isPanic = false := by
  rw [ts_exact_chronoDT, fromChrono_eq_spec]
  simp only [Instant.floor, ht, true_and]
  cases expect d.secs <;> rfl

/-- the sub-second field and the offset of a stored value never matter -/
theorem ts_chronoDT_frac_zone_irrelevant (a b : ChronoDT) (h : a.secs = b.secs) : fromChronoDT a = fromChronoDT b := by
  rw [ts_exact_chronoDT, ts_exact_chronoDT, h]

/-- **Order preservation** for chrono's own order of readings (leap readings included) -/
theorem ts_monotone_chronoDT (a b : ChronoDT) (x y : Nat) (h : a.le b)
    (ha : fromChronoDT a = .ok x) (hb : fromChronoDT b = .ok y) : x ≤ y := by
  rw [ts_exact_chronoDT] at ha hb
  have hle : a.secs ≤ b.secs := by
    unfold ChronoDT.le at h; omega
  rcases expect_cases a.secs with ⟨_, e⟩ | ⟨a0, a1, e⟩ | ⟨_, e⟩ <;> rw [e] at ha <;>
    simp only [ofExpect, Conv.ok.injEq, reduceCtorEq] at ha
  rcases expect_cases b.secs with ⟨_, e⟩ | ⟨b0, b1, e⟩ | ⟨_, e⟩ <;> rw [e] at hb <;>
    simp only [ofExpect, Conv.ok.injEq, reduceCtorEq] at hb
  omega

/-- **Calendar fields in a zone**: a valid wall-clock reading `c` in a zone `offset` seconds east of UTC converts to the
spec's expectation for `c.localSecs − offset`, the whole seconds from 1970-01-01T00:00:00Z to that instant. -/
theorem ts_civil (c : Civil) (offset : Int) (hv : c.valid) :
    fromChronoDT (ofCivil c offset hv.2.2.2.2.2.2.2.1) = ofExpect (expect (c.localSecs - offset)) :=
  ts_exact_chronoDT _

/-- **"in any time zone"**: two wall-clock readings, each in its own zone, that denote the same second convert alike —
the zone enters through `localSecs − offset` only (12:00:00+02:00 and 10:00:00Z, 23:30 of one day at −03:30 and 03:00 of
the next day in UTC, …). -/
theorem ts_civil_zone_irrelevant (c₁ c₂ : Civil) (o₁ o₂ : Int) (h₁ : c₁.frac < 2000000000) (h₂ : c₂.frac < 2000000000)
    (h : c₁.localSecs - o₁ = c₂.localSecs - o₂) :
    fromChronoDT (ofCivil c₁ o₁ h₁) = fromChronoDT (ofCivil c₂ o₂ h₂) :=
  ts_chronoDT_frac_zone_irrelevant _ _ h

/-- one day later on the wall clock is 86 400 s later (valid dates; this is `civil_next_day` in seconds) -/
theorem localSecs_next_day (c : Civil) (hv : c.valid) :
    ({ c with year := (nextDay c.year c.month c.day).1, month := (nextDay c.year c.month c.day).2.1,
              day := (nextDay c.year c.month c.day).2.2 } : Civil).localSecs = c.localSecs + 86400 := by
  obtain ⟨m1, m2, d1, d2, _⟩ := hv
  have := civil_next_day c.year c.month c.day m1 m2 d1 d2
  simp only [Civil.localSecs, this]; omega

/-- no conversion of a chrono value panics -/
theorem ts_total_chronoDT (d : ChronoDT) : (fromChronoDT d).isPanic = false := by
  rw [ts_exact_chronoDT]; cases expect d.secs <;> rfl

/-! ### non-vacuity: each hypothesis is met by concrete, non-trivial instants -/
-- inside the range, with a sub-second part: exact floor, both conversions, a +5:45 zone
example : fromSystemTime ⟨1600000000, 999999999, by decide⟩ = .ok 1600000000 ∧
    fromChrono ⟨⟨1600000000, 999999999, by decide⟩, 20700⟩ = .ok 1600000000 := by decide
-- one nanosecond before the epoch is an underflow, the epoch itself is 0
example : fromSystemTime ⟨-1, 999999999, by decide⟩ = .underflow ∧ fromSystemTime ⟨0, 0, by decide⟩ = .ok 0 ∧
    fromChrono ⟨⟨-1, 999999999, by decide⟩, -12600⟩ = .underflow := by decide
-- the last representable second (with nanos) and the first overflowing one
example : fromSystemTime ⟨4294967295, 999999999, by decide⟩ = .ok 4294967295 ∧
    fromChrono ⟨⟨4294967296, 0, by decide⟩, 0⟩ = .overflow ∧ fromSystemTime ⟨4294967296, 0, by decide⟩ = .overflow := by decide
-- premises of `ts_monotone` with a mixed pair half a second apart across a second boundary
example : (Source.sys ⟨2147483647, 500000000, by decide⟩).instant ≤ (Source.chrono ⟨⟨2147483648, 0, by decide⟩, 3600⟩).instant ∧
    convert (.sys ⟨2147483647, 500000000, by decide⟩) = .ok 2147483647 ∧
    convert (.chrono ⟨⟨2147483648, 0, by decide⟩, 3600⟩) = .ok 2147483648 := by decide
-- `now` does panic outside the range (so `now_total_iff` is not vacuous in either direction)
example : (now ⟨-1, 0, by decide⟩).isPanic = true ∧ (now ⟨4294967296, 0, by decide⟩).isPanic = true ∧
    now ⟨1790000000, 5, by decide⟩ = .ok 1790000000 := by decide

-- the calendar: leap day 2000-02-29, the day before the epoch, 2106-02-07 (the day 2^32 s falls on), a negative year
example : daysFromCivil 2000 2 29 = 11016 ∧ daysFromCivil 1969 12 31 = -1 ∧ daysFromCivil 2106 2 7 = 49710
    ∧ daysFromCivil (-1) 12 31 = -719529 ∧ nextDay 2100 2 28 = (2100, 3, 1) ∧ nextDay 2000 2 28 = (2000, 2, 29)
    ∧ nextDay 1999 12 31 = (2000, 1, 1) := by decide
-- 2106-02-07T06:28:15Z is the last convertible second, :16 overflows; the same instant on a +05:45 wall clock
example : (⟨2106, 2, 7, 6, 28, 15, 999999999⟩ : Civil).valid ∧ (⟨2106, 2, 7, 6, 28, 15, 999999999⟩ : Civil).localSecs = 4294967295
    ∧ fromChronoDT (ofCivil ⟨2106, 2, 7, 6, 28, 15, 999999999⟩ 0 (by decide)) = .ok 4294967295
    ∧ fromChronoDT (ofCivil ⟨2106, 2, 7, 6, 28, 16, 0⟩ 0 (by decide)) = .overflow
    ∧ fromChronoDT (ofCivil ⟨2106, 2, 7, 12, 13, 15, 0⟩ 20700 (by decide)) = .ok 4294967295 := by decide
-- 1969-12-31T23:59:59.999999999Z underflows; so does 1970-01-01T02:00:00+03:00; 1969-12-31T20:30:00-03:30 is second 0
example : fromChronoDT (ofCivil ⟨1969, 12, 31, 23, 59, 59, 999999999⟩ 0 (by decide)) = .underflow
    ∧ fromChronoDT (ofCivil ⟨1970, 1, 1, 2, 0, 0, 0⟩ 10800 (by decide)) = .underflow
    ∧ fromChronoDT (ofCivil ⟨1969, 12, 31, 20, 30, 0, 0⟩ (-12600) (by decide)) = .ok 0 := by decide
-- premise of `ts_civil_zone_irrelevant`: 12:00:00+02:00 and 10:00:00Z on 2024-05-21
example : (⟨2024, 5, 21, 12, 0, 0, 0⟩ : Civil).localSecs - 7200 = (⟨2024, 5, 21, 10, 0, 0, 0⟩ : Civil).localSecs - 0 := by decide
-- a leap-second reading: 2016-12-31T23:59:60.5Z is stored on second 1483228799 with frac 1.5·10⁹ and converts to that second;
-- 1969-12-31T23:59:60.0Z hangs on second −1: Underflow, although the next ordinary second is 0
example : (ofCivil ⟨2016, 12, 31, 23, 59, 59, 1500000000⟩ 0 (by decide)).isLeap = true
    ∧ fromChronoDT (ofCivil ⟨2016, 12, 31, 23, 59, 59, 1500000000⟩ 0 (by decide)) = .ok 1483228799
    ∧ fromChronoDT (ofCivil ⟨1969, 12, 31, 23, 59, 59, 1000000000⟩ 0 (by decide)) = .underflow
    ∧ (⟨2016, 12, 31, 23, 59, 58, 1500000000⟩ : Civil).valid = False := by decide

end RpmVerif.C20
