import RpmVerif.Lemmas.AddData
import RpmVerif.Lemmas.AddDataSpec
import RpmVerif.Props.C20
import RpmVerif.Lemmas.WithFile
import RpmVerif.Gen.CompressionNames
import RpmVerif.Lemmas.PrepareData
import RpmVerif.Lemmas.SignE
/-!
# C17 — the builder rejects bad arguments with errors, not panics

The theorems quantify over *all* destination byte strings (any bytes, any length), all compression
variants and all integer levels, all capability texts (for an arbitrary validator), all instants.

* `addDataRaw` models `PackageBuilder::add_data` on top of the model of Unix `std::path`
  (`Model/Path.lean`); `AddDataSpec.Splittable` is the property's "can be split into a directory
  and a file name", stated on the text alone.
* `with_file` (source file = content, `st_mode`, mtime; options chain) is `Model/WithFile.lean`: `with_file_total`,
  `with_file_mtime_err_iff`, `with_file_outcomes`, `build_calls_total`; the default compression is the scraped table:
  `default_level_in_range`, `default_is_some_variant` (end of the file).
* The timestamp setters are the documented negative: `source_date` / `add_changelog_entry`
  unwrap the conversion, so they panic exactly outside `0 ≤ t < 2³²`
  (`timestamp_setter_panics_iff`, witnesses below). The full statement

      theorem build_args_total : ∀ enc valid a, EncodersOk enc → (buildArgs enc valid a).isPanic = false

  is therefore FALSE of the current code (`build_args_can_panic`); what is proved is
  `build_args_total_partial`, which adds the hypothesis that no out-of-range `SystemTime` /
  `DateTime` reaches a timestamp setter. Known finding class: `timestamp-setter-panic`.
-/
set_option linter.unusedVariables false
namespace RpmVerif.C17
open RpmVerif.Path RpmVerif.AddData RpmVerif.AddDataSpec

/-! ### destinations: never a panic -/

/-- `add_data` ends in `Ok` or in `Err(InvalidDestinationPath)`, for every destination -/
theorem add_data_outcomes (dest : Bytes) :
    (∃ cpio dir base, addDataRaw dest = .ok (cpio, dir, base)) ∨ addDataRaw dest = .err "InvalidDestinationPath" := by
  rcases start_cases dest with ⟨r, rfl⟩ | ⟨r, rfl⟩ | h
  · rw [addData_slash]
    cases trimTriv (splitSep r).reverse with
    | nil => right; rfl
    | cons s rest =>
      by_cases hs : (s == [46, 46]) = true
      · right; simp [hs, errDest]
      · left; exact ⟨46 :: 47 :: r, dirOf (joinSep (trimTriv rest).reverse), s, by simp [hs]⟩
  · rw [addData_dot]
    cases trimTriv (splitSep (47 :: r)).reverse with
    | nil => right; rfl
    | cons s rest =>
      by_cases hs : (s == [46, 46]) = true
      · right; simp [hs, errDest]
      · left; exact ⟨46 :: 47 :: r, dirOf (dotDirText rest), s, by simp [hs]⟩
  · right; exact addData_bad_start h

/-- **No panic** for any destination string -/
theorem add_data_total (dest : Bytes) : (addDataRaw dest).isPanic = false := by
  rcases add_data_outcomes dest with ⟨c, d, b, h⟩ | h <;> rw [h] <;> rfl

/-! ### which destinations are rejected -/

/-- **Accepted = splittable**: `add_data` succeeds exactly on the destinations that start with `/`
or `./` and read `d/name` followed by nothing but separators and `/.` pieces, `name` a real name -/
theorem add_data_ok_iff_splittable (dest : Bytes) :
    (∃ res, addDataRaw dest = .ok res) ↔ Splittable dest := by
  constructor
  · rintro ⟨⟨cpio, dir, base⟩, h⟩
    rcases start_cases dest with ⟨r, rfl⟩ | ⟨r, rfl⟩ | hb
    · obtain ⟨tl, J, hS, hJ, hn, hdd, _, _⟩ := addData_slash_ok h
      refine ⟨.inl ⟨r, rfl⟩, joinSep ([] :: tl), base, _, split_of_pieces (pre := [] :: tl) (by simp) ?_ hJ hn hdd⟩
      rw [splitSep_cons_sep, hS]; rfl
    · obtain ⟨tl, J, hS, hJ, hn, hdd, _, _⟩ := addData_dot_ok h
      refine ⟨.inr ⟨r, rfl⟩, joinSep ([46] :: tl), base, _, split_of_pieces (pre := [46] :: tl) (by simp) ?_ hJ hn hdd⟩
      rw [splitSep_cons_ne (by decide), splitSep_cons_sep, hS]; rfl
    · rw [addData_bad_start hb] at h; cases h
  · rintro ⟨hv, d, name, trail, hsp⟩
    have hn := isTriv_false_of_name hsp.nonempty hsp.notDot
    rcases hv with ⟨r, rfl⟩ | ⟨r, rfl⟩
    · obtain ⟨tl, J, hT, hJ⟩ := tail_pieces (splitSep_cons_sep r) hsp
      exact ⟨_, addData_slash_of_pieces hT hJ hn hsp.notDotDot⟩
    · have hS : splitSep (46 :: 47 :: r) = [46] :: splitSep r := by
        rw [splitSep_cons_ne (by decide), splitSep_cons_sep]; rfl
      obtain ⟨tl, J, hT, hJ⟩ := tail_pieces hS hsp
      exact ⟨_, addData_dot_of_pieces hT hJ hn hsp.notDotDot⟩

/-- **Unsplittable destinations are errors** (and only they): not starting with `/` or `./`; no
component at all (`/`, `//`, `/.`); only the `.` of `./` (`./`, `.//`, `./.`); a last component
that is `..` (`/..`, `/usr/..`, `./..`, `./a/..`) -/
theorem add_data_err_unsplittable (dest : Bytes) :
    ¬ Splittable dest ↔ addDataRaw dest = .err "InvalidDestinationPath" := by
  rw [← add_data_ok_iff_splittable]
  rcases add_data_outcomes dest with ⟨c, d, b, h⟩ | h
  · rw [h]; constructor
    · intro hn; exact absurd ⟨_, rfl⟩ hn
    · intro e; cases e
  · rw [h]; constructor
    · intro _; rfl
    · rintro _ ⟨res, e⟩; cases e

/-- the decision procedure the driver judges destinations with decides `Splittable` -/
theorem splittableB_iff (dest : Bytes) : splittableB dest = true ↔ Splittable dest :=
  ⟨split_of_splittableB, fun ⟨hv, _, _, _, h⟩ => splittableB_of_split hv h⟩

/-- so the model's verdict and the driver's spec coincide on every destination -/
theorem add_data_ok_iff_splittableB (dest : Bytes) : (addDataRaw dest).isOk = splittableB dest := by
  have h1 := add_data_ok_iff_splittable dest
  have h2 := splittableB_iff dest
  cases hb : splittableB dest with
  | true =>
    obtain ⟨res, hr⟩ := h1.mpr (h2.mp hb)
    rw [hr]; rfl
  | false =>
    rcases add_data_outcomes dest with ⟨c, d, b, h⟩ | h
    · have := h2.mpr (h1.mp ⟨_, h⟩)
      rw [hb] at this; cases this
    · rw [h]; rfl

/-- what the builder accepts has a file name in the weakest sense … -/
theorem splittable_hasFileName {dest : Bytes} (h : Splittable dest) : HasFileName dest := by
  obtain ⟨_, d, name, trail, hsp⟩ := h
  exact ⟨.inl ⟨dest, rfl⟩, 47 :: d, name, trail,
    ⟨by rw [hsp.eq]; rfl, hsp.nonempty, hsp.noSep, hsp.notDot, hsp.notDotDot, hsp.trail⟩⟩

/-- … so **a destination without a file name is an error**, however it starts (the property's clause
in its weakest reading; this is what the driver's verdict `unsplittable-accepted` is judged by) -/
theorem add_data_err_no_file_name (dest : Bytes) (h : ¬ HasFileName dest) :
    addDataRaw dest = .err "InvalidDestinationPath" :=
  (add_data_err_unsplittable dest).mp (fun hs => h (splittable_hasFileName hs))

theorem hasFileNameB_iff (dest : Bytes) : hasFileNameB dest = true ↔ HasFileName dest :=
  splittableB_iff (47 :: dest)

/-- the file name of a destination is determined by the text (the model computes it) -/
theorem split_name_unique {dest d₁ n₁ t₁ d₂ n₂ t₂ : Bytes} (hv : ValidStart dest)
    (h₁ : Split dest d₁ n₁ t₁) (h₂ : Split dest d₂ n₂ t₂) : n₁ = n₂ := by
  have key : ∀ {d n t}, Split dest d n t → ∃ c dir, addDataRaw dest = .ok (c, dir, n) := by
    intro d n t hsp
    have hn := isTriv_false_of_name hsp.nonempty hsp.notDot
    rcases hv with ⟨r, rfl⟩ | ⟨r, rfl⟩
    · obtain ⟨tl, J, hT, hJ⟩ := tail_pieces (splitSep_cons_sep r) hsp
      exact ⟨_, _, addData_slash_of_pieces hT hJ hn hsp.notDotDot⟩
    · have hS : splitSep (46 :: 47 :: r) = [46] :: splitSep r := by
        rw [splitSep_cons_ne (by decide), splitSep_cons_sep]; rfl
      obtain ⟨tl, J, hT, hJ⟩ := tail_pieces hS hsp
      exact ⟨_, _, addData_dot_of_pieces hT hJ hn hsp.notDotDot⟩
  obtain ⟨c₁, e₁, k₁⟩ := key h₁
  obtain ⟨c₂, e₂, k₂⟩ := key h₂
  rw [k₁] at k₂
  simp only [Out.ok.injEq, Prod.mk.injEq] at k₂
  exact k₂.2.2

/-! ### what an accepted destination is stored as -/

/-- **Shape of the stored entry.** When `add_data` accepts `dest`:
* `base` is the file name of a split of `dest` (so: not empty, no `/`, not `.`, not `..`);
* `dir` starts and ends with `/`;
* `cpio` is `dest` itself for the `./` form and `"." ++ dest` for the `/` form (always `./…`);
* `dir ++ base` is a normalised form of `dest`: it has the same name components in the same order;
* `get_file_paths()` (`Path::new(dir).join(base)`) reads back exactly `dir ++ base`. -/
theorem add_data_ok_shape {dest cpio dir base : Bytes} (h : addDataRaw dest = .ok (cpio, dir, base)) :
    (∃ d trail, Split dest d base trail) ∧
    dir.head? = some 47 ∧ dir.getLast? = some 47 ∧
    cpio = (if hasRoot dest then 46 :: dest else dest) ∧
    nameComps (dir ++ base) = nameComps dest ∧
    readBackPath dir base = dir ++ base := by
  rcases start_cases dest with ⟨r, rfl⟩ | ⟨r, rfl⟩ | hb
  · obtain ⟨tl, J, hS, hJ, hn, hdd, rfl, rfl⟩ := addData_slash_ok h
    have hsp : Split (47 :: r) (joinSep ([] :: tl)) base _ :=
      split_of_pieces (pre := [] :: tl) (by simp) (by rw [splitSep_cons_sep, hS]; rfl) hJ hn hdd
    have htl : ∀ s ∈ tl, (47 : UInt8) ∉ s := fun s hs =>
      noSep_of_mem_splitSep (p := r) (by rw [hS]; exact List.mem_append_left _ hs)
    refine ⟨⟨_, _, hsp⟩, dirOf_head _, dirOf_getLast _, rfl, ?_, join_dir_base (dirOf_getLast _) hsp.noSep⟩
    rw [nameComps_dirOf_append _ hn hsp.noSep, nameComps_slash, hS, nameParts_append,
      nameParts_cons_real hn, nameParts_of_all_triv hJ, nameParts_splitSep_joinSep, nameParts_trim_right]
    intro s hs
    exact htl s (mem_trimTriv (List.mem_reverse.mp hs) |> List.mem_reverse.mp)
  · obtain ⟨tl, J, hS, hJ, hn, hdd, rfl, rfl⟩ := addData_dot_ok h
    have hsp : Split (46 :: 47 :: r) (joinSep ([46] :: tl)) base _ :=
      split_of_pieces (pre := [46] :: tl) (by simp)
        (by rw [splitSep_cons_ne (by decide), splitSep_cons_sep, hS]; rfl) hJ hn hdd
    have htl : ∀ s ∈ ([] :: tl).reverse, (47 : UInt8) ∉ s := by
      intro s hs
      rcases List.mem_cons.mp (List.mem_reverse.mp hs) with rfl | hs
      · simp
      · exact noSep_of_mem_splitSep (p := r) (by rw [hS]; exact List.mem_append_left _ hs)
    refine ⟨⟨_, _, hsp⟩, dirOf_head _, dirOf_getLast _, rfl, ?_, join_dir_base (dirOf_getLast _) hsp.noSep⟩
    rw [nameComps_dirOf_append _ hn hsp.noSep, nameComps_dot, hS, nameParts_append,
      nameParts_cons_real hn, nameParts_of_all_triv hJ, nameParts_dotDirText htl, List.reverse_reverse,
      nameParts_cons_triv rfl]
  · rw [addData_bad_start hb] at h; cases h

/-! ### compression levels -/

/-- assumption on the external encoders: inside the ranges the source checks, their constructors do
not panic (`flate2`, `zstd`, `liblzma`, `bzip2`; exercised by the level sweep, not proved) -/
def EncodersDoNotPanic (enc : Nat → Int → Out Unit) : Prop :=
  ∀ v l, levelInRange v l = true → (enc v l).isPanic = false

/-- … and succeed -/
def EncodersAccept (enc : Nat → Int → Out Unit) : Prop :=
  ∀ v l, levelInRange v l = true → enc v l = .ok ()

/-- **No panic for any variant and any level**; a level outside the generated range is an error -/
theorem compressor_total (enc : Nat → Int → Out Unit) (henc : EncodersDoNotPanic enc) (v : Nat) (level : Int) :
    (compressorConstruct enc v level).isPanic = false ∧
    (levelInRange v level = false → compressorConstruct enc v level = .err "level-out-of-range") := by
  unfold compressorConstruct
  have hflag : Gen.levelOutOfRangeIsErr = true := by decide
  cases hr : levelInRange v level with
  | false => simp [hflag, Out.isPanic]
  | true => simpa [hflag] using henc v level hr

/-- with encoders that accept the checked ranges: an error *exactly* outside the generated ranges -/
theorem compressor_err_iff (enc : Nat → Int → Out Unit) (henc : EncodersAccept enc) (v : Nat) (level : Int) :
    (compressorConstruct enc v level = .ok () ↔ levelInRange v level = true) ∧
    (compressorConstruct enc v level = .err "level-out-of-range" ↔ levelInRange v level = false) := by
  unfold compressorConstruct
  have hflag : Gen.levelOutOfRangeIsErr = true := by decide
  cases hr : levelInRange v level with
  | false => simp [hflag]
  | true => simp [hflag, henc v level hr]

/-! ### capability text -/

/-- the setter reports exactly what the validator says, for every text and every validator:
`Ok` with the text unchanged, or `Err(InvalidCapabilities)`; never a panic -/
theorem caps_setter_total (valid : Bytes → Bool) (text : Bytes) :
    (capsSetter valid text).isPanic = false ∧
    (valid text = true → capsSetter valid text = .ok text) ∧
    (valid text = false → capsSetter valid text = .err "InvalidCapabilities") := by
  unfold capsSetter
  cases valid text <;> simp [Out.isPanic]

/-! ### timestamp setters: the documented negative -/

/-- the instant is inside what a `Timestamp` can hold -/
def TsInRange : TsArg → Prop
  | .secs _ => True
  | .src s => 0 ≤ s.instant.floor ∧ s.instant.floor < 4294967296

/-- **`source_date` / `add_changelog_entry` panic exactly when given a `SystemTime` or `DateTime`
before 1970 or from 2106-02-07T06:28:16Z on** (a `u32` argument never panics) -/
theorem timestamp_setter_panics_iff (t : TsArg) : (timestampSetter t).isPanic = true ↔ ¬ TsInRange t := by
  cases t with
  | secs n => simp [timestampSetter, TsInRange, Out.isPanic]
  | src s =>
    have hu := C20.ts_underflow_iff s
    have ho := C20.ts_overflow_iff s
    have ht := C20.ts_total s
    cases hc : Timestamp.convert s with
    | ok n =>
      have h1 := (C20.ts_ok_iff s n).mp hc
      have hp : (timestampSetter (.src s)).isPanic = false := by simp [timestampSetter, hc, Out.isPanic]
      rw [hp]
      constructor
      · intro h; cases h
      · intro h; exact absurd (show TsInRange (.src s) from ⟨by omega, by omega⟩) h
    | underflow =>
      have h1 := hu.mp hc
      have hp : (timestampSetter (.src s)).isPanic = true := by simp [timestampSetter, hc, Out.isPanic]
      rw [hp]
      constructor
      · intro _ h; have := h.1; omega
      · intro _; rfl
    | overflow =>
      have h1 := ho.mp hc
      have hp : (timestampSetter (.src s)).isPanic = true := by simp [timestampSetter, hc, Out.isPanic]
      rw [hp]
      constructor
      · intro _ h; have := h.2; omega
      · intro _; rfl
    | panic site => rw [hc] at ht; cases ht

/-- inside the range the setters store the floor of the instant -/
theorem timestamp_setter_ok (s : Timestamp.Source) (h : TsInRange (.src s)) :
    timestampSetter (.src s) = .ok s.instant.floor.toNat := by
  have := (C20.ts_exact s).1 h.1 h.2
  simp [timestampSetter, this]

/-! ### a whole argument set -/

theorem fileSetter_total (valid : Bytes → Bool) (f : FileArg) : (fileSetter valid f).isPanic = false := by
  unfold fileSetter
  cases f.caps with
  | none => simp only []; rw [discardOut_isPanic]; exact add_data_total _
  | some c =>
    simp only []
    unfold capsSetter
    cases valid c
    · rfl
    · simp only [if_true]; rw [discardOut_isPanic]; exact add_data_total _

/-- **Building never panics, whatever destinations, capability texts, compression variant and level
are passed — provided no out-of-range instant is given to a timestamp setter** (partial: the
unrestricted statement is false, see `build_args_can_panic`) -/
theorem build_args_total_partial (enc : Nat → Int → Out Unit) (henc : EncodersDoNotPanic enc)
    (valid : Bytes → Bool) (a : BuildArgs)
    (hsd : ∀ t, a.sourceDate = some t → TsInRange t) (hcl : ∀ t ∈ a.changelog, TsInRange t) :
    (buildArgs enc valid a).isPanic = false := by
  have hts : ∀ t, TsInRange t → (timestampSetter t).isPanic = false := by
    intro t ht
    cases hp : (timestampSetter t).isPanic with
    | false => rfl
    | true => exact absurd ht ((timestamp_setter_panics_iff t).mp hp)
  unfold buildArgs
  apply seqOut_not_panic
  intro x hx
  simp only [List.mem_append, List.mem_map, List.mem_singleton] at hx
  rcases hx with ((hx | ⟨t, ht, rfl⟩) | ⟨f, _, rfl⟩) | rfl
  · cases hsdv : a.sourceDate with
    | none => rw [hsdv] at hx; cases hx
    | some t =>
      rw [hsdv] at hx
      simp only [List.mem_singleton] at hx
      rw [hx, discardOut_isPanic]
      exact hts t (hsd t hsdv)
  · rw [discardOut_isPanic]; exact hts t (hcl t ht)
  · exact fileSetter_total valid f
  · exact (compressor_total enc henc _ _).1

/-- the unrestricted statement is false: one pre-1970 `SystemTime` given to `source_date` -/
theorem build_args_can_panic :
    ∃ a : BuildArgs, (buildArgs (fun _ _ => .ok ()) (fun _ => true) a).isPanic = true :=
  ⟨⟨some (.src (.sys ⟨-1, 999999999, by decide⟩)), [], [], (0, 0)⟩, by decide⟩

/-! ### non-vacuity -/

-- the former panic witnesses are errors now: "./", "/usr/..", "./..", "/..", "./a/.."
example : addDataRaw [46, 47] = .err "InvalidDestinationPath" := by decide
example : addDataRaw [47, 117, 115, 114, 47, 46, 46] = .err "InvalidDestinationPath" := by decide
example : addDataRaw [46, 47, 46, 46] = .err "InvalidDestinationPath" := by decide
example : addDataRaw [47, 46, 46] = .err "InvalidDestinationPath" := by decide
example : addDataRaw [46, 47, 97, 47, 46, 46] = .err "InvalidDestinationPath" := by decide
-- other rejected shapes: "a/b" (bad start), "/" and "//." (no parent), ".//." (nothing to strip)
example : addDataRaw [97, 47, 98] = .err "InvalidDestinationPath" ∧ addDataRaw [47] = .err "InvalidDestinationPath" ∧
    addDataRaw [47, 47, 46] = .err "InvalidDestinationPath" ∧ addDataRaw [46, 47, 47, 46] = .err "InvalidDestinationPath" := by decide
-- accepted: "/usr//bin/./x/" ↦ (".//usr//bin/./x/", "/usr//bin/", "x"); "./a" ↦ ("./a", "/", "a"); "/a" ↦ ("./a", "/", "a")
example : addDataRaw [47, 117, 115, 114, 47, 47, 98, 105, 110, 47, 46, 47, 120, 47] =
    .ok ([46, 47, 117, 115, 114, 47, 47, 98, 105, 110, 47, 46, 47, 120, 47], [47, 117, 115, 114, 47, 47, 98, 105, 110, 47], [120]) := by decide
example : addDataRaw [46, 47, 97] = .ok ([46, 47, 97], [47], [97]) ∧ addDataRaw [47, 97] = .ok ([46, 47, 97], [47], [97]) := by decide
-- "././a/../b/." ↦ dir "/a/../", base "b"
example : addDataRaw [46, 47, 46, 47, 97, 47, 46, 46, 47, 98, 47, 46] =
    .ok ([46, 47, 46, 47, 97, 47, 46, 46, 47, 98, 47, 46], [47, 97, 47, 46, 46, 47], [98]) := by decide
-- `Splittable` is inhabited and refutable: "/a/b/." splits as "/a" / "b" + "/."; "/.." does not split
example : Splittable [47, 97, 47, 98, 47, 46] :=
  ⟨.inl ⟨_, rfl⟩, [47, 97], [98], [47, 46], ⟨rfl, by decide, by decide, by decide, by decide, .slashDot .nil⟩⟩
example : ¬ Splittable [47, 46, 46] := (add_data_err_unsplittable _).mpr (by decide)
-- "a/b" has a file name but not the builder's start; "", "..", "./" and "/usr/.." have none
example : hasFileNameB [97, 47, 98] = true ∧ hasFileNameB [] = false ∧ hasFileNameB [46, 46] = false ∧
    hasFileNameB [46, 47] = false ∧ hasFileNameB [47, 117, 47, 46, 46] = false ∧ hasFileNameB [46, 47, 97] = true := by decide
example : splittableB [47, 97, 47, 98, 47, 46] = true ∧ splittableB [47, 46, 46] = false ∧ splittableB [46, 47] = false ∧
    splittableB [97, 47, 98] = false := by decide
-- the path functions on the probe vectors of DESIGN Appendix D
example : parent [47, 117, 47, 47, 98, 47, 47, 47, 120] = some [47, 117, 47, 47, 98] ∧ parent [46, 47] = some [] ∧
    parent [47] = none ∧ parent [47, 47, 47, 97] = some [47] ∧ fileName [47, 97, 47, 47] = some [97] ∧
    fileName [47, 117, 47, 46, 46] = none ∧ stripPrefixDot [] = none ∧ stripPrefixDot [46, 47, 97, 47, 47, 98, 47, 46] = some [97, 47, 47, 98] := by decide
-- compression: the encoder hypotheses are satisfiable, both sides of the range test occur for every checked variant
example : EncodersAccept (fun _ _ => .ok ()) ∧ EncodersDoNotPanic (fun _ _ => .ok ()) := ⟨fun _ _ _ => rfl, fun _ _ _ => rfl⟩
example : levelInRange 2 6 = true ∧ levelInRange 1 3 = true ∧ levelInRange 3 6 = true ∧ levelInRange 4 6 = true ∧
    levelInRange 0 12345 = true := by decide
example : levelInRange 2 4294967295 = false ∧ levelInRange 1 2147483647 = false ∧ levelInRange 1 (-2147483648) = false ∧
    levelInRange 3 4294967295 = false ∧ levelInRange 4 4294967295 = false := by decide
example : compressorConstruct (fun _ _ => .ok ()) 2 4294967295 = .err "level-out-of-range" ∧
    compressorConstruct (fun _ _ => .ok ()) 2 6 = .ok () := by decide
-- an encoder that panics outside the checked range is never reached there
example : compressorConstruct (fun _ l => if l ≤ 9 then .ok () else .panic "encoder") 2 4294967295 = .err "level-out-of-range" := by decide
-- timestamps: the witnesses of the known finding, and the last good second
example : (sourceDate (.src (.sys ⟨-1, 999999999, by decide⟩))).isPanic = true ∧
    (addChangelogEntry [] [] (.src (.chrono ⟨⟨4294967296, 0, by decide⟩, 20700⟩))).isPanic = true ∧
    sourceDate (.src (.sys ⟨4294967295, 999999999, by decide⟩)) = .ok 4294967295 ∧
    sourceDate (.secs 4294967295) = .ok 4294967295 := by decide
example : TsInRange (.src (.sys ⟨1600000000, 5, by decide⟩)) ∧ ¬ TsInRange (.src (.chrono ⟨⟨-1, 0, by decide⟩, 0⟩)) := by
  constructor <;> simp [TsInRange, Timestamp.Source.instant, Timestamp.Instant.floor]
-- a whole argument set that meets the hypotheses of `build_args_total_partial` and still exercises every step
example : buildArgs (fun _ _ => .ok ()) (fun t => t == [61, 101]) ⟨some (.secs 7), [.src (.sys ⟨5, 1, by decide⟩)],
    [⟨[47, 97], some [61, 101]⟩, ⟨[46, 47, 98, 47, 99], none⟩], (2, 9)⟩ = .ok () := by decide
example : buildArgs (fun _ _ => .ok ()) (fun t => t == [61, 101]) ⟨none, [], [⟨[47, 97], some [61]⟩], (2, 9)⟩ = .err "InvalidCapabilities" ∧
    buildArgs (fun _ _ => .ok ()) (fun _ => true) ⟨none, [], [⟨[47, 46, 46], none⟩], (2, 9)⟩ = .err "InvalidDestinationPath" ∧
    buildArgs (fun _ _ => .ok ()) (fun _ => true) ⟨none, [], [⟨[47, 97], none⟩], (4, 4294967295)⟩ = .err "level-out-of-range" := by decide

/-! ### `add_data` after fix cbb69e5 (archive name = "." ++ dir ++ base name) -/

/-- same acceptance, same directory and base name as the path splitting; never a panic -/
theorem addData_eq_raw (dest : Bytes) :
    addData dest = (addDataRaw dest).map fun r => ([46] ++ r.2.1 ++ r.2.2, r.2.1, r.2.2) := rfl

theorem add_data_cpio_name {dest cpio dir base : Bytes} (h : addData dest = .ok (cpio, dir, base)) :
    cpio = [46] ++ dir ++ base ∧ ∃ c, addDataRaw dest = .ok (c, dir, base) := by
  unfold addData at h
  cases hr : addDataRaw dest with
  | ok r =>
    obtain ⟨c, d, b⟩ := r
    simp only [hr, Out.map, Out.ok.injEq, Prod.mk.injEq] at h
    obtain ⟨rfl, rfl, rfl⟩ := h
    exact ⟨rfl, c, rfl⟩
  | err e => simp [hr, Out.map] at h
  | panic s => simp [hr, Out.map] at h

theorem add_data_new_total (dest : Bytes) : (addData dest).isPanic = false := by
  have := add_data_total dest
  unfold addData
  cases hr : addDataRaw dest <;> simp_all [Out.map, Out.isPanic]

open RpmVerif.WithFile

/-! ### `with_file`: the source file and the options chain (coverage gap G5) -/

/-- **`with_file` never panics** — for every source (missing, unreadable, any content, EVERY `st_mode` word, every
modification instant), every options value and every destination -/
theorem with_file_total (sha256hex : Bytes → Bytes) (src : Source) (o : FileOpts) :
    (withFile sha256hex src o).isPanic = false := by
  cases src with
  | openFails => rfl
  | readFails => rfl
  | readable f =>
    rw [withFile_readable]
    split
    · rfl
    · have := add_data_new_total o.destination
      cases ha : addData o.destination with
      | ok r => rfl
      | err e => rfl
      | panic s => rw [ha] at this; cases this

/-- **a modification time outside 1970-01-01 .. 2106-02-07T06:28:15Z is `Err(TimestampConv)`, and nothing else is** -/
theorem with_file_mtime_err_iff (sha256hex : Bytes → Bytes) (src : Source) (o : FileOpts) :
    withFile sha256hex src o = .err "TimestampConv" ↔
      ∃ f, src = .readable f ∧ (f.mtime.secs < 0 ∨ 4294967296 ≤ f.mtime.secs) := by
  cases src with
  | openFails => exact ⟨fun h => (by simp [withFile, errIo] at h), fun ⟨f, h, _⟩ => (by cases h)⟩
  | readFails => exact ⟨fun h => (by simp [withFile, errIo] at h), fun ⟨f, h, _⟩ => (by cases h)⟩
  | readable f =>
    rw [withFile_readable]
    constructor
    · intro h
      split at h
      · rename_i hr; exact ⟨f, rfl, hr⟩
      · exfalso
        rcases add_data_outcomes o.destination with ⟨c, d, b, hr⟩ | hr
        · simp only [addData, hr, Out.map] at h; cases h
        · simp [addData, hr, Out.map] at h
    · rintro ⟨f', hf, hr⟩
      cases hf
      rw [if_pos hr]

/-- **all outcomes of `with_file`**: `Ok` exactly for a readable source with an in-range mtime and a splittable
destination; otherwise `Err(Io)` (source), `Err(TimestampConv)` (mtime; reported before the destination is looked at) or
`Err(InvalidDestinationPath)` -/
theorem with_file_outcomes (sha256hex : Bytes → Bytes) (src : Source) (o : FileOpts) :
    ((∃ e, withFile sha256hex src o = .ok e) ↔
        ∃ f, src = .readable f ∧ 0 ≤ f.mtime.secs ∧ f.mtime.secs < 4294967296 ∧ Splittable o.destination) ∧
    ((∃ e, withFile sha256hex src o = .ok e) ∨ withFile sha256hex src o = .err "io" ∨
      withFile sha256hex src o = .err "TimestampConv" ∨ withFile sha256hex src o = .err "InvalidDestinationPath") := by
  cases src with
  | openFails =>
    exact ⟨⟨fun ⟨e, h⟩ => (by cases h), fun ⟨f, h, _⟩ => (by cases h)⟩, .inr (.inl rfl)⟩
  | readFails =>
    exact ⟨⟨fun ⟨e, h⟩ => (by cases h), fun ⟨f, h, _⟩ => (by cases h)⟩, .inr (.inl rfl)⟩
  | readable f =>
    rw [withFile_readable]
    by_cases hr : f.mtime.secs < 0 ∨ 4294967296 ≤ f.mtime.secs
    · rw [if_pos hr]
      refine ⟨⟨fun ⟨e, h⟩ => (by cases h), fun ⟨f', hf, h0, h1, _⟩ => ?_⟩, .inr (.inr (.inl rfl))⟩
      cases hf; omega
    · rw [if_neg hr]
      rcases add_data_outcomes o.destination with ⟨c, d, b, ha⟩ | ha
      · have hs : Splittable o.destination := (add_data_ok_iff_splittable _).mp ⟨_, ha⟩
        simp only [addData, ha, Out.map]
        exact ⟨⟨fun _ => ⟨f, rfl, by omega, by omega, hs⟩, fun _ => ⟨_, rfl⟩⟩, .inl ⟨_, rfl⟩⟩
      · have hs : ¬ Splittable o.destination := (add_data_err_unsplittable _).mpr ha
        have hx : addData o.destination = .err "InvalidDestinationPath" := by simp only [addData, ha, Out.map]
        rw [hx]
        exact ⟨⟨fun ⟨e, h⟩ => (by cases h), fun ⟨_, _, _, _, h⟩ => absurd h hs⟩, .inr (.inr (.inr rfl))⟩

/-- the options chain never panics; its only error is the capability text -/
theorem setters_total (valid : Bytes → Bool) (ss : List Setter) (o : FileOpts) :
    (applySetters valid ss o).isPanic = false := by
  rcases applySetters_cases valid ss o with ⟨o', h⟩ | h <;> rw [h] <;> rfl

/-- **a whole sequence of `FileOptions::new(dest).<setters>` + `with_file(source, ..)?` calls never panics** -/
theorem build_calls_total (sha256hex : Bytes → Bytes) (valid : Bytes → Bool) (calls : List Call) (s : BState) :
    (buildState sha256hex valid calls s).isPanic = false := by
  induction calls generalizing s with
  | nil => rfl
  | cons c r ih =>
    have hc : (runCall sha256hex valid c).isPanic = false := by
      unfold runCall
      rcases applySetters_cases valid c.setters (FileOpts.new c.dest) with ⟨o', h⟩ | h
      · rw [h]; exact with_file_total _ _ _
      · rw [h]; rfl
    simp only [buildState]
    cases hr : runCall sha256hex valid c with
    | ok e => exact ih _
    | err e => rfl
    | panic p => rw [hr] at hc; cases hc

/-! ### default compression (coverage gap G6) -/

/-- **every default level is one the range check accepts** (and a value of the variant's payload type): converting a
`CompressionType` never yields a configuration `build()` then rejects -/
theorem default_level_in_range (t v : Nat) (l : Int) (h : withLevelOfType t = some (v, l)) :
    levelInRange v l = true ∧ levelRepresentable v l = true := by
  have key : ∀ e ∈ Gen.defaultOfType, levelInRange e.2.1 (e.2.2.getD 0) = true ∧ levelRepresentable e.2.1 (e.2.2.getD 0) = true := by
    decide
  unfold withLevelOfType at h
  cases hf : Gen.defaultOfType.find? (fun e => e.1 == t) with
  | none => rw [hf] at h; cases h
  | some e =>
    rw [hf] at h
    simp only [Option.some.injEq, Prod.mk.injEq] at h
    obtain ⟨rfl, rfl⟩ := h
    exact key e (List.mem_of_find?_eq_some hf)

/-- every `CompressionType` has an arm, and the arm keeps the type (`Gzip ↦ Gzip(_)`, …) -/
theorem default_of_every_type :
    (∀ t, t < Gen.compressionNumVariants → (withLevelOfType t).isSome = true) ∧
    Gen.defaultOfType.map (fun e => Gen.levelVariants[e.2.1]?) = Gen.defaultOfType.map (fun e => Gen.compressionVariants[e.1]?) := by
  refine ⟨by decide, rfl⟩

/-- **`CompressionWithLevel::default()` is a variant of the enum with an accepted level, for every combination of cargo
features**, and it is a type whose codec is compiled in (or `None`) -/
theorem default_is_some_variant (enabled : Nat → Bool) :
    ∃ v l, defaultCompression enabled = some (v, l) ∧ v < Gen.levelVariants.length ∧ levelInRange v l = true ∧
      (defaultType enabled = Gen.defaultFallback ∨ enabled (defaultType enabled) = true) := by
  have hall : ∀ t ∈ Gen.defaultFallback :: Gen.defaultPreference.map (·.2),
      ∃ v l, withLevelOfType t = some (v, l) ∧ v < Gen.levelVariants.length := by
    have hd : ∀ t ∈ Gen.defaultFallback :: Gen.defaultPreference.map (·.2),
        (withLevelOfType t).isSome = true ∧ ((withLevelOfType t).map (·.1)).getD Gen.levelVariants.length < Gen.levelVariants.length := by
      decide
    intro t ht
    obtain ⟨h1, h2⟩ := hd t ht
    cases hw : withLevelOfType t with
    | none => rw [hw] at h1; cases h1
    | some r => rw [hw] at h2; exact ⟨r.1, r.2, rfl, h2⟩
  have hgate : ∀ p ∈ Gen.defaultPreference, p.1 = p.2 := by decide
  have hmem : defaultType enabled ∈ Gen.defaultFallback :: Gen.defaultPreference.map (·.2) ∧
      (defaultType enabled = Gen.defaultFallback ∨ enabled (defaultType enabled) = true) := by
    unfold defaultType
    cases hf : Gen.defaultPreference.find? (fun p => enabled p.1) with
    | none => exact ⟨by simp, .inl rfl⟩
    | some p =>
      have hp := List.mem_of_find?_eq_some hf
      have he : enabled p.1 = true := by simpa using List.find?_some hf
      refine ⟨List.mem_cons_of_mem _ (List.mem_map_of_mem hp), .inr ?_⟩
      show enabled p.2 = true
      rw [← hgate p hp]; exact he
  obtain ⟨v, l, h1, h2⟩ := hall _ hmem.1
  exact ⟨v, l, h1, h2, (default_level_in_range _ v l h1).1, hmem.2⟩

/-! ### non-vacuity for `with_file` and the default compression -/
section
open RpmVerif.FileMode
-- one nanosecond before 1970 and the first second of 2106-02-07T06:28:16Z are errors, the last representable second is not
example : withFile (fun _ => []) (.readable ⟨[], 0o100644, ⟨-1, 999999999, by decide⟩⟩) (FileOpts.new [47, 97]) = .err "TimestampConv" := by decide
example : withFile (fun _ => []) (.readable ⟨[], 0o100644, ⟨4294967296, 0, by decide⟩⟩) (FileOpts.new [47, 97]) = .err "TimestampConv" := by decide
example : (withFile (fun _ => []) (.readable ⟨[], 0o100644, ⟨4294967295, 999999999, by decide⟩⟩) (FileOpts.new [47, 97])).toOption.map (·.mtime) = some 4294967295 := by decide
-- the mtime is converted before the destination is looked at; a good mtime with a bad destination is the destination's error
example : withFile (fun _ => []) (.readable ⟨[], 0o100644, ⟨-5, 0, by decide⟩⟩) (FileOpts.new [47, 46, 46]) = .err "TimestampConv" ∧
    withFile (fun _ => []) (.readable ⟨[], 0o100644, ⟨5, 0, by decide⟩⟩) (FileOpts.new [47, 46, 46]) = .err "InvalidDestinationPath" := by decide
-- a missing source, a directory as source
example : withFile (fun _ => []) .openFails (FileOpts.new [47, 97]) = .err "io" ∧ withFile (fun _ => []) .readFails (FileOpts.new [47, 97]) = .err "io" := by decide
-- st_mode words no `FileMode` variant describes are stored as they are, low 16 bits: a FIFO, a word ≥ 2^31 (negative as i32), a word ≥ 2^16
example : (withFile (fun _ => []) (.readable ⟨[], 0o010644, ⟨5, 0, by decide⟩⟩) (FileOpts.new [47, 97])).toOption.map (·.mode) = some 0o010644 ∧
    (withFile (fun _ => []) (.readable ⟨[], 4294967295, ⟨5, 0, by decide⟩⟩) (FileOpts.new [47, 97])).toOption.map (·.mode) = some 65535 ∧
    (withFile (fun _ => []) (.readable ⟨[], 65536 + 0o100644, ⟨5, 0, by decide⟩⟩) (FileOpts.new [47, 97])).toOption.map (·.mode) = some 0o100644 := by decide
-- the hypotheses of `with_file_outcomes`' first half are satisfiable
example : (withFile (fun _ => []) (.readable ⟨[1], 0o100644, ⟨5, 0, by decide⟩⟩) (FileOpts.new [47, 97])).isOk = true ∧
    Splittable [47, 97] := ⟨by decide, (add_data_ok_iff_splittable _).mp ⟨([46, 47, 97], [47], [97]), by decide⟩⟩
-- a chain whose capability text is refused ends in that error, not in a panic
example : buildState (fun _ => []) (fun t => t == [61, 112]) [⟨.readable ⟨[1], 0o100644, ⟨5, 0, by decide⟩⟩, [47, 97], [.caps [61]]⟩] BState.empty = .err "InvalidCapabilities" := by decide
-- defaults: zstd 19 with rpm-rs' default features, gzip 9 without zstd, xz 9 with xz only, none without any codec
example : defaultCompression (fun t => Gen.cargoDefaultFeatureTypes.contains t) = some (1, 19) ∧
    defaultCompression (fun t => t == 1 || t == 3) = some (2, 9) ∧ defaultCompression (fun t => t == 3) = some (3, 9) ∧
    defaultCompression (fun _ => false) = some (0, 0) ∧ defaultCompression (fun t => t == 4) = some (0, 0) := by decide
example : withLevelOfType 4 = some (4, 9) ∧ withLevelOfType 5 = none := by decide
end


/-! ## the whole build: every call, then `build()` (audit items a5 / c43)

`Model/PrepareData.lean`: `Build.run` is the builder state as a function of the calls the caller writes (every metadata,
scriptlet, dependency and changelog setter, `source_date`, `with_file` with its options chain), `Build.prepareData` /
`Build.build` are `prepare_data` / `build()` with one explicit outcome for every `?`, `unwrap`, `expect` and checked arithmetic
operation. -/
section whole
open RpmVerif.Build RpmVerif.Bld

/-- **every setter and every `with_file` call is panic-free — except the two timestamp conversions** (`Call.TsOk`: a
`SystemTime` / `DateTime` argument inside 1970..2106; a `u32` always is) -/
theorem step_total (sha256hex : Bytes → Bytes) (valid : Bytes → Bool) (s : St) (c : Build.Call) (ht : c.TsOk) :
    (step sha256hex valid s c).isPanic = false := by
  have hts : ∀ t, TsInRange t → ∀ {β} (f : Nat → β), ((timestampSetter t).map f).isPanic = false := by
    intro t h β f
    cases hp : timestampSetter t with
    | ok n => rfl
    | err e => rfl
    | panic p =>
      have := (timestamp_setter_panics_iff t).mp (by rw [hp]; rfl)
      exact absurd h this
  cases c with
  | set m => rfl
  | sourceDate t =>
    cases t with
    | secs n => rfl
    | src x => exact hts (.src x) ht _
  | changelog name entry t =>
    cases t with
    | secs n => rfl
    | src x => exact hts (.src x) ht _
  | file wc =>
    simp only [step]
    have hc : (runCall sha256hex valid wc).isPanic = false := by
      unfold runCall
      rcases applySetters_cases valid wc.setters (FileOpts.new wc.dest) with ⟨o', h⟩ | h
      · rw [h]; exact with_file_total _ _ _
      · rw [h]; rfl
    cases hr : runCall sha256hex valid wc with
    | ok e => rfl
    | err e => rfl
    | panic p => rw [hr] at hc; cases hc

/-- a whole call sequence: no panic (an `Err` of `with_file` — unreadable source, file time outside 1970..2106, unsplittable
destination, refused capability text — ends it) -/
theorem run_total (sha256hex : Bytes → Bytes) (valid : Bytes → Bool) (calls : List Build.Call) (s : St)
    (ht : ∀ c ∈ calls, c.TsOk) : (run sha256hex valid calls s).isPanic = false := by
  induction calls generalizing s with
  | nil => rfl
  | cons c r ih =>
    have hc := step_total sha256hex valid s c (ht c (List.mem_cons_self ..))
    simp only [run]
    cases hr : step sha256hex valid s c with
    | ok s' => exact ih s' (fun x hx => ht x (List.mem_cons_of_mem _ hx))
    | err e => rfl
    | panic p => rw [hr] at hc; cases hc

/-- **`PackageBuilder::new(..).<any calls>.build()` never panics** — whatever strings and numbers go into the metadata,
scriptlet, dependency, changelog, file, capability and compression setters, whatever the source files are (missing,
unreadable, any mode, any time), however the compressor's `write` / `flush` / `finish` answer — PROVIDED
* no `SystemTime` / `DateTime` outside 1970..2106 reaches `source_date` / `add_changelog_entry` (the known finding, `ht`),
* the system clock is inside 1970..2106 (`Timestamp::now()` unwraps; `hclock`),
* the codec crates do not panic (`hq`),
* fewer than 2^32 − 1 files and fewer than 2^64 content bytes are added (`u32` inode counter, `u64` size sum: bounds no
  process reaches with the contents held in memory),
* the large-file limit is at most `u32::MAX` (it IS `u32::MAX`; only the verification hook moves it).
Each proviso is needed: `build_total_needs_clock`, `build_args_can_panic`, and the panic sites of `Build.prepareData`. -/
theorem build_total (E : Env) (valid : Bytes → Bool) (name version license arch summary : Bytes) (dc : Bld.Comp) (calls : List Build.Call)
    (ht : ∀ c ∈ calls, c.TsOk) (hclock : E.ClockOk) (hq : E.Quiet)
    (hcount : calls.length < 4294967295)
    (hmem : ∀ s, run E.hex valid calls (St.new name version license arch summary dc) = .ok s →
      (s.fes.map (·.2.length)).sum < 18446744073709551616) :
    (buildCalls E valid (St.new name version license arch summary dc) calls).isPanic = false := by
  unfold buildCalls
  refine Out.bind_not_panic (run_total _ _ _ _ ht) (fun s hs => ?_)
  obtain ⟨inv, hlen⟩ := (inv_new name version license arch summary dc).run hs
  have hthr : s.cfg.largeFileThreshold ≤ 4294967295 := by
    have : ∀ (calls : List Build.Call) (s0 s1 : St), run E.hex valid calls s0 = .ok s1 →
        s1.base.largeFileThreshold = s0.base.largeFileThreshold := by
      intro calls
      induction calls with
      | nil => intro s0 s1 h; cases h; rfl
      | cons c r ih =>
        intro s0 s1 h
        obtain ⟨sm, h1, h2⟩ := run_cons_ok h
        rw [ih sm s1 h2]
        rcases step_ok h1 with ⟨m, rfl⟩ | ⟨wc, e, _, _, rfl⟩
        · cases m <;> try rfl
          all_goals (rename_i k _; simp only [MetaSetter.apply]; split <;> rfl)
        · rfl
    have h0 := this calls _ s hs
    show s.base.largeFileThreshold ≤ 4294967295
    rw [h0]; exact Nat.le_refl _
  exact build_not_panic E s.cfg s.fes hq hclock inv.dirs inv.size (hmem s hs)
    (by simp only [St.new, List.length_nil] at hlen; omega) hthr


/-- **`build_and_sign` never panics** under the provisos of `build_total`, a clock inside 1970..2106 at its own
`Timestamp::now()` and a `Signing` implementation that returns `Ok` or `Err` (the signature time is a `Timestamp`, so the
conversion inside `sign_with_timestamp` cannot fail) -/
theorem build_and_sign_total (E : Env) (clock0 : Timestamp.Instant) (S : Sign.SigScheme) (pubAlg : Bytes → Option Nat)
    (signer : Bytes → Nat → Out Bytes) (c : Cfg) (fes : List (FileE × Bytes))
    (hsigner : ∀ m n, (signer m n).isPanic = false) (h0 : 0 ≤ clock0.secs) (h1 : clock0.secs < 4294967296)
    (hq : E.Quiet) (hclock : E.ClockOk) (hd : ∀ p ∈ fes, p.1.dir ∈ c.directories) (hs : ∀ p ∈ fes, p.1.size = p.2.length)
    (hmem : (fes.map (·.2.length)).sum < 18446744073709551616) (hcount : fes.length < 4294967295)
    (hthr : c.largeFileThreshold ≤ 4294967295) :
    (buildAndSign E clock0 S pubAlg signer c fes).isPanic = false := by
  unfold buildAndSign
  rw [now_ok h0 h1]
  simp only [Out.bind_ok]
  refine Out.bind_not_panic (build_not_panic E c fes hq hclock hd hs hmem hcount hthr) (fun pkg _ => ?_)
  unfold Sign.signOpE
  simp only [timestampSetter, Out.bind_ok]
  refine Out.bind_not_panic (hsigner _ _) (fun sig _ => ?_)
  exact Out.bind_not_panic (Sign.sigBuilderBuild_not_panic _ _ _) (fun _ _ => rfl)

/-- no call moves the large-file limit -/
theorem run_keeps_threshold {sha256hex : Bytes → Bytes} {valid : Bytes → Bool} (calls : List Build.Call) (s0 s1 : St)
    (h : run sha256hex valid calls s0 = .ok s1) : s1.base.largeFileThreshold = s0.base.largeFileThreshold := by
  rw [run_base h]
  exact (new_args_kept _ _).2.2.2.2.2.2.2

/-- **the large-file switch at its real boundary** (audit items a3 / a22): for the state any call sequence on a fresh builder
leaves, `uses_large_files` — computed from the `size` fields — is "the CONTENTS sum to more than `u32::MAX` bytes"
(`entry.size` is `content.len()`), and without it the combined size and every single size fit a `u32`: the two `expect`s of
`prepare_data` (RPMTAG_SIZE, RPMTAG_FILESIZES) and the `content.len() as u32` of the cpio header lose nothing -/
theorem large_file_switch {sha256hex : Bytes → Bytes} {valid : Bytes → Bool} {calls : List Build.Call}
    {name version license arch summary : Bytes} {dc : Bld.Comp} {s : St}
    (h : run sha256hex valid calls (St.new name version license arch summary dc) = .ok s) :
    (usesLargeFiles s.cfg = true ↔ (s.fes.map (·.2.length)).sum > 4294967295) ∧
    (usesLargeFiles s.cfg = false →
      combinedSize s.cfg < 4294967296 ∧ ∀ p ∈ s.fes, p.1.size < 4294967296 ∧ p.2.length < 4294967296) := by
  obtain ⟨inv, _⟩ := (inv_new name version license arch summary dc).run h
  have hthr : s.cfg.largeFileThreshold = 4294967295 := by
    show s.base.largeFileThreshold = 4294967295
    rw [run_keeps_threshold calls _ s h]; rfl
  have hsum : combinedSize s.cfg = (s.fes.map (·.2.length)).sum := by
    simp only [combinedSize, St.cfg, List.map_map]
    exact congrArg List.sum (List.map_congr_left (fun p hp => inv.size p hp))
  refine ⟨?_, fun hl => ?_⟩
  · simp only [usesLargeFiles, hthr, hsum, decide_eq_true_eq]
  · have hle : combinedSize s.cfg ≤ 4294967295 := by simpa [usesLargeFiles, hthr] using hl
    refine ⟨by omega, fun p hp => ?_⟩
    have h1 : p.1.size ≤ combinedSize s.cfg := by
      simp only [combinedSize, St.cfg, List.map_map]
      exact PWriter.sum_le_of_mem (List.mem_map_of_mem (f := fun q : FileE × Bytes => q.1.size) hp)
    have := inv.size p hp
    omega

/-- **an `Ok` of `build()` into an all-accepting compressor is the package of the models C06 – C09 reason about**: the total
`Bld.build` for the clock reading, with `Cpio.builderArchive` / `builderArchiveLarge` of the files (C07's archive models:
entries in key order, inode numbers from 1, uid = gid = 0; stripped entries with the file index) as the archive whose digest is
recorded — for every state a call sequence leaves. Ties `Build.prepareData` (this property's whole-build model) to
`C09.archiveFor` / `C07.files_of_build`. -/
theorem build_ok_is_model_build (E : Env) (valid : Bytes → Bool) (name version license arch summary : Bytes) (dc : Bld.Comp)
    (calls : List Build.Call) (p : Hdr.Package) (ha : Sink.Accepting E.sink) (ho : E.sink.out = [])
    (hcount : calls.length < 4294967295)
    (h : buildCalls E valid (St.new name version license arch summary dc) calls = .ok p) :
    ∃ s now, run E.hex valid calls (St.new name version license arch summary dc) = .ok s ∧
      (Timestamp.now E.clock).toOut = .ok now ∧
      E.finish (if usesLargeFiles s.cfg then Cpio.builderArchiveLarge (s.fes.map toFileIn) else Cpio.builderArchive 0 0 (s.fes.map toFileIn)) = .ok p.content ∧
      p = Bld.build s.cfg now E.hex
        (if usesLargeFiles s.cfg then Cpio.builderArchiveLarge (s.fes.map toFileIn) else Cpio.builderArchive 0 0 (s.fes.map toFileIn)) p.content := by
  unfold buildCalls at h
  simp only [Out.bind_eq_ok] at h
  obtain ⟨s, hs, hb⟩ := h
  obtain ⟨now, archive, hnow, harch, hfin, hp⟩ := build_ok hb
  obtain ⟨inv, hlen⟩ := (inv_new name version license arch summary dc).run hs
  obtain ⟨hiff, _⟩ := large_file_switch hs
  have hthr : s.cfg.largeFileThreshold = 4294967295 := by
    show s.base.largeFileThreshold = 4294967295
    rw [run_keeps_threshold calls _ s hs]; rfl
  -- a build that returned `Ok` summed its sizes without overflow
  have hmem : (s.fes.map (·.2.length)).sum < 18446744073709551616 := by
    have hsum : (s.fes.map (·.1.size)).sum = (s.fes.map (·.2.length)).sum := sum_map_congr s.fes _ _ inv.size
    unfold prepareArchive at harch
    rcases sumU64_spec (s.fes.map (·.1.size)) 0 (by decide) with ⟨hlt, _⟩ | ⟨_, hpan⟩
    · rw [hsum] at hlt; omega
    · rw [hpan] at harch; cases harch
  have := prepareArchive_accepting E s.cfg s.fes ha ho inv.dirs inv.size hmem
    (by simp only [St.new, List.length_nil] at hlen; omega) (by omega)
  rw [this] at harch
  simp only [Option.some.injEq] at harch
  have hcond : ((s.fes.map (·.2.length)).sum > s.cfg.largeFileThreshold) = (usesLargeFiles s.cfg = true) := by
    rw [hthr]; exact propext hiff.symm
  simp only [hcond] at harch
  subst harch
  exact ⟨s, now, hs, hnow, hfin, hp⟩

/-- the variant indices `Build.compVariant` writes out are the positions of the names in `enum CompressionWithLevel` -/
theorem comp_variant_table : Gen.levelVariants = ["None", "Zstd", "Gzip", "Xz", "Bzip2"] := rfl

/-- an environment in which everything outside the builder succeeds: an all-accepting compressor that returns the archive -/
def envOk (clock : Timestamp.Instant) : Env :=
  { sha256 := fun _ => [], clock := clock, enc := fun _ _ => .ok (), sink := {}, finish := fun a => .ok a }

theorem envOk_quiet (clock : Timestamp.Instant) : (envOk clock).Quiet := ⟨fun _ _ _ => rfl, fun _ => rfl⟩

/-- **the clock proviso of `build_total` is needed**: with a system clock one nanosecond before 1970 (or from 2106-02-07 on)
`build()` panics inside `Timestamp::now()`, for the plainest builder there is (model only: no operation can move the real
clock; the conversion itself is tied by C20's `tssys`) -/
theorem build_total_needs_clock :
    (buildCalls (envOk ⟨-1, 999999999, by decide⟩) (fun _ => true) (St.new [112] [49] [] [] [] .none) []).isPanic = true ∧
    (buildCalls (envOk ⟨4294967296, 0, by decide⟩) (fun _ => true) (St.new [112] [49] [] [] [] .none) []).isPanic = true ∧
    (buildCalls (envOk ⟨4294967295, 999999999, by decide⟩) (fun _ => true) (St.new [112] [49] [] [] [] .none) []).isOk = true := by
  decide +kernel

/-! ### non-vacuity of the whole-build theorems -/
section
open RpmVerif.WithFile

/-- a source file, and calls of every kind: metadata (one of them twice), a typed source date, a changelog entry with a
`SystemTime`, scriptlets from text and with flags / interpreter, two dependencies, two files (one with capabilities) -/
def demoSrc : Source := .readable ⟨[1, 2, 3, 4, 5], 0o100644, ⟨1500000000, 7, by decide⟩⟩
def demoCalls : List Build.Call :=
  [.set (.release [50]), .set (.url [104]), .set (.url [105]), .set (.epoch 3), .sourceDate (.src (.chrono ⟨⟨1600000000, 5, by decide⟩, 3600⟩)),
   .changelog [109, 101] [120] (.src (.sys ⟨1000, 0, by decide⟩)), .set (.script 0 (Scriptlet.new [101, 99, 104, 111])),
   .set (.script 8 ((Scriptlet.new [120]).withFlags 1 |>.withProg [[47, 98, 105, 110, 47, 115, 104]])),
   .set (.dep 0 ⟨[119], 8, [49]⟩), .set (.dep 4 ⟨[114], 0, []⟩),
   .file ⟨demoSrc, [47, 117, 47, 120], [.user [117], .caps [61, 112]]⟩, .file ⟨demoSrc, [46, 47, 97], []⟩,
   .set (.compression (.gzip 6))]

-- the hypotheses of `build_total` are satisfiable together, and the build succeeds
example : (∀ c ∈ demoCalls, c.TsOk) ∧ (envOk ⟨1700000000, 0, by decide⟩).ClockOk ∧ (envOk ⟨1700000000, 0, by decide⟩).Quiet := by
  refine ⟨?_, ⟨by decide, by decide⟩, envOk_quiet _⟩
  intro c hc
  simp only [demoCalls, List.mem_cons, List.not_mem_nil, or_false] at hc
  rcases hc with rfl | rfl | rfl | rfl | rfl | rfl | rfl | rfl | rfl | rfl | rfl | rfl | rfl <;>
    first | trivial | (constructor <;> decide)
example : (buildCalls (envOk ⟨1700000000, 0, by decide⟩) (fun _ => true) (St.new [112] [49] [] [] [] .none) demoCalls).isOk = true := by
  decide +kernel
-- `envOk`'s compressor is all-accepting and starts empty: the hypotheses of `build_ok_is_model_build` hold for the build above
example (clock : Timestamp.Instant) : Sink.Accepting (envOk clock).sink ∧ (envOk clock).sink.out = [] := ⟨⟨rfl, rfl⟩, rfl⟩
-- the state the calls leave behind: the last `url` wins, the files are in key order with their contents, both directories are there
def demoState : Option St := (run (fun _ => []) (fun _ => true) demoCalls (St.new [112] [49] [] [] [] .none)).toOption
example : demoState.map (·.base.url) = some (some [105]) ∧ demoState.map (·.base.release) = some [50] ∧
    demoState.map (·.base.epoch) = some 3 ∧ demoState.map (·.base.sourceDate) = some (some 1600000000) ∧
    demoState.map (·.base.changelog) = some [([109, 101], [120], 1000)] ∧
    demoState.map (fun s => s.fes.map (fun p => (p.1.cpioPath, p.2))) =
      some [([46, 47, 97], [1, 2, 3, 4, 5]), ([46, 47, 117, 47, 120], [1, 2, 3, 4, 5])] ∧
    demoState.map (·.dirs) = some [[47], [47, 117, 47]] := by decide +kernel
-- a `with_file` error ends the chain as an `Err`, a refused level as an `Err`, a failing compressor as an `Err` — never a panic
example : buildCalls (envOk ⟨1700000000, 0, by decide⟩) (fun _ => true) (St.new [112] [49] [] [] [] .none)
    [.file ⟨.openFails, [47, 97], []⟩] = .err "io" := by decide +kernel
example : buildCalls (envOk ⟨1700000000, 0, by decide⟩) (fun _ => true) (St.new [112] [49] [] [] [] .none)
    [.set (.compression (.gzip 10))] = .err "level-out-of-range" := by decide +kernel
example : buildCalls { envOk ⟨1700000000, 0, by decide⟩ with sink := { script := [.fail] } } (fun _ => true)
    (St.new [112] [49] [] [] [] .none) [.file ⟨demoSrc, [47, 97], []⟩] = .err "io" := by decide +kernel
example : buildCalls { envOk ⟨1700000000, 0, by decide⟩ with finish := fun _ => .err "io" } (fun _ => true)
    (St.new [112] [49] [] [] [] .none) [] = .err "io" := by decide +kernel
-- the known finding inside a whole build: a pre-1970 `DateTime` handed to `add_changelog_entry`
example : (buildCalls (envOk ⟨1700000000, 0, by decide⟩) (fun _ => true) (St.new [112] [49] [] [] [] .none)
    [.changelog [] [] (.src (.chrono ⟨⟨-1, 0, by decide⟩, 0⟩))]).isPanic = true := by decide +kernel
-- the panic sites of `prepare_data` are real: a state no call sequence produces (a file whose directory is not registered; a
-- size field of 4 GiB under a raised large-file limit) reaches `position(..).unwrap()` / the `expect` of RPMTAG_SIZE
def strayFile : FileE := ⟨[46, 47, 97], [47], [97], 0, 0o100644, sRoot, sRoot, [], 0, none, 0, 0, []⟩
example : prepareData (envOk ⟨1700000000, 0, by decide⟩) (Cfg.new [112] [49] [] [] [] .none) [(strayFile, [])] =
    .panic "dir-position-unwrap" := by decide +kernel
example : prepareData (envOk ⟨1700000000, 0, by decide⟩)
    { Cfg.new [112] [49] [] [] [] .none with directories := [[47]], largeFileThreshold := 8589934592 }
    [({ strayFile with size := 4294967296 }, [])] = .panic "size-expect" := by decide +kernel
end

end whole

end RpmVerif.C17
