import RpmVerif.Lemmas.AddData
import RpmVerif.Lemmas.AddDataSpec
import RpmVerif.Props.C20
import RpmVerif.Lemmas.WithFile
import RpmVerif.Gen.CompressionNames
/-!
# C17 — the builder rejects bad arguments with errors, not panics

The theorems quantify over *all* destination byte strings (any bytes, any length), all compression
variants and all integer levels, all capability texts (for an arbitrary validator), all instants.

* `addDataRaw` models `PackageBuilder::add_data` on top of the model of Unix `std::path`
  (`Model/Path.lean`); `AddDataSpec.Splittable` is the property's "can be split into a directory
  and a file name", stated on the text alone.
* `with_file` (source file = content, `st_mode`, mtime; options chain) is `Model/WithFile.lean`: `with_file_total`,
  `with_file_mtime_err_iff`, `with_file_outcomes`, `build_calls_total`; the default compression is the scraped table:
  `default_level_in_range`, `default_is_some_variant` (end of the file).
* The timestamp setters are the documented negative: `source_date` / `add_changelog_entry`
  unwrap the conversion, so they panic exactly outside `0 ≤ t < 2³²`
  (`timestamp_setter_panics_iff`, witnesses below). The full statement

      theorem build_args_total : ∀ enc valid a, EncodersOk enc → (buildArgs enc valid a).isPanic = false

  is therefore FALSE of the current code (`build_args_can_panic`); what is proved is
  `build_args_total_partial`, which adds the hypothesis that no out-of-range `SystemTime` /
  `DateTime` reaches a timestamp setter. Known finding class: `timestamp-setter-panic`.
-/
set_option linter.unusedVariables false
namespace RpmVerif.C17
open RpmVerif.Path RpmVerif.AddData RpmVerif.AddDataSpec

/-! ### destinations: never a panic -/

/-- `add_data` ends in `Ok` or in `Err(InvalidDestinationPath)`, for every destination -/
theorem add_data_outcomes (dest : Bytes) :
    (∃ cpio dir base, addDataRaw dest = .ok (cpio, dir, base)) ∨ addDataRaw dest = .err "InvalidDestinationPath" := by
  rcases start_cases dest with ⟨r, rfl⟩ | ⟨r, rfl⟩ | h
  · rw [addData_slash]
    cases trimTriv (splitSep r).reverse with
    | nil => right; rfl
    | cons s rest =>
      by_cases hs : (s == [46, 46]) = true
      · right; simp [hs, errDest]
      · left; exact ⟨46 :: 47 :: r, dirOf (joinSep (trimTriv rest).reverse), s, by simp [hs]⟩
  · rw [addData_dot]
    cases trimTriv (splitSep (47 :: r)).reverse with
    | nil => right; rfl
    | cons s rest =>
      by_cases hs : (s == [46, 46]) = true
      · right; simp [hs, errDest]
      · left; exact ⟨46 :: 47 :: r, dirOf (dotDirText rest), s, by simp [hs]⟩
  · right; exact addData_bad_start h

/-- **No panic** for any destination string -/
theorem add_data_total (dest : Bytes) : (addDataRaw dest).isPanic = false := by
  rcases add_data_outcomes dest with ⟨c, d, b, h⟩ | h <;> rw [h] <;> rfl

/-! ### which destinations are rejected -/

/-- **Accepted = splittable**: `add_data` succeeds exactly on the destinations that start with `/`
or `./` and read `d/name` followed by nothing but separators and `/.` pieces, `name` a real name -/
theorem add_data_ok_iff_splittable (dest : Bytes) :
    (∃ res, addDataRaw dest = .ok res) ↔ Splittable dest := by
  constructor
  · rintro ⟨⟨cpio, dir, base⟩, h⟩
    rcases start_cases dest with ⟨r, rfl⟩ | ⟨r, rfl⟩ | hb
    · obtain ⟨tl, J, hS, hJ, hn, hdd, _, _⟩ := addData_slash_ok h
      refine ⟨.inl ⟨r, rfl⟩, joinSep ([] :: tl), base, _, split_of_pieces (pre := [] :: tl) (by simp) ?_ hJ hn hdd⟩
      rw [splitSep_cons_sep, hS]; rfl
    · obtain ⟨tl, J, hS, hJ, hn, hdd, _, _⟩ := addData_dot_ok h
      refine ⟨.inr ⟨r, rfl⟩, joinSep ([46] :: tl), base, _, split_of_pieces (pre := [46] :: tl) (by simp) ?_ hJ hn hdd⟩
      rw [splitSep_cons_ne (by decide), splitSep_cons_sep, hS]; rfl
    · rw [addData_bad_start hb] at h; cases h
  · rintro ⟨hv, d, name, trail, hsp⟩
    have hn := isTriv_false_of_name hsp.nonempty hsp.notDot
    rcases hv with ⟨r, rfl⟩ | ⟨r, rfl⟩
    · obtain ⟨tl, J, hT, hJ⟩ := tail_pieces (splitSep_cons_sep r) hsp
      exact ⟨_, addData_slash_of_pieces hT hJ hn hsp.notDotDot⟩
    · have hS : splitSep (46 :: 47 :: r) = [46] :: splitSep r := by
        rw [splitSep_cons_ne (by decide), splitSep_cons_sep]; rfl
      obtain ⟨tl, J, hT, hJ⟩ := tail_pieces hS hsp
      exact ⟨_, addData_dot_of_pieces hT hJ hn hsp.notDotDot⟩

/-- **Unsplittable destinations are errors** (and only they): not starting with `/` or `./`; no
component at all (`/`, `//`, `/.`); only the `.` of `./` (`./`, `.//`, `./.`); a last component
that is `..` (`/..`, `/usr/..`, `./..`, `./a/..`) -/
theorem add_data_err_unsplittable (dest : Bytes) :
    ¬ Splittable dest ↔ addDataRaw dest = .err "InvalidDestinationPath" := by
  rw [← add_data_ok_iff_splittable]
  rcases add_data_outcomes dest with ⟨c, d, b, h⟩ | h
  · rw [h]; constructor
    · intro hn; exact absurd ⟨_, rfl⟩ hn
    · intro e; cases e
  · rw [h]; constructor
    · intro _; rfl
    · rintro _ ⟨res, e⟩; cases e

/-- the decision procedure the driver judges destinations with decides `Splittable` -/
theorem splittableB_iff (dest : Bytes) : splittableB dest = true ↔ Splittable dest :=
  ⟨split_of_splittableB, fun ⟨hv, _, _, _, h⟩ => splittableB_of_split hv h⟩

/-- so the model's verdict and the driver's spec coincide on every destination -/
theorem add_data_ok_iff_splittableB (dest : Bytes) : (addDataRaw dest).isOk = splittableB dest := by
  have h1 := add_data_ok_iff_splittable dest
  have h2 := splittableB_iff dest
  cases hb : splittableB dest with
  | true =>
    obtain ⟨res, hr⟩ := h1.mpr (h2.mp hb)
    rw [hr]; rfl
  | false =>
    rcases add_data_outcomes dest with ⟨c, d, b, h⟩ | h
    · have := h2.mpr (h1.mp ⟨_, h⟩)
      rw [hb] at this; cases this
    · rw [h]; rfl

/-- what the builder accepts has a file name in the weakest sense … -/
theorem splittable_hasFileName {dest : Bytes} (h : Splittable dest) : HasFileName dest := by
  obtain ⟨_, d, name, trail, hsp⟩ := h
  exact ⟨.inl ⟨dest, rfl⟩, 47 :: d, name, trail,
    ⟨by rw [hsp.eq]; rfl, hsp.nonempty, hsp.noSep, hsp.notDot, hsp.notDotDot, hsp.trail⟩⟩

/-- … so **a destination without a file name is an error**, however it starts (the property's clause
in its weakest reading; this is what the driver's verdict `unsplittable-accepted` is judged by) -/
theorem add_data_err_no_file_name (dest : Bytes) (h : ¬ HasFileName dest) :
    addDataRaw dest = .err "InvalidDestinationPath" :=
  (add_data_err_unsplittable dest).mp (fun hs => h (splittable_hasFileName hs))

theorem hasFileNameB_iff (dest : Bytes) : hasFileNameB dest = true ↔ HasFileName dest :=
  splittableB_iff (47 :: dest)

/-- the file name of a destination is determined by the text (the model computes it) -/
theorem split_name_unique {dest d₁ n₁ t₁ d₂ n₂ t₂ : Bytes} (hv : ValidStart dest)
    (h₁ : Split dest d₁ n₁ t₁) (h₂ : Split dest d₂ n₂ t₂) : n₁ = n₂ := by
  have key : ∀ {d n t}, Split dest d n t → ∃ c dir, addDataRaw dest = .ok (c, dir, n) := by
    intro d n t hsp
    have hn := isTriv_false_of_name hsp.nonempty hsp.notDot
    rcases hv with ⟨r, rfl⟩ | ⟨r, rfl⟩
    · obtain ⟨tl, J, hT, hJ⟩ := tail_pieces (splitSep_cons_sep r) hsp
      exact ⟨_, _, addData_slash_of_pieces hT hJ hn hsp.notDotDot⟩
    · have hS : splitSep (46 :: 47 :: r) = [46] :: splitSep r := by
        rw [splitSep_cons_ne (by decide), splitSep_cons_sep]; rfl
      obtain ⟨tl, J, hT, hJ⟩ := tail_pieces hS hsp
      exact ⟨_, _, addData_dot_of_pieces hT hJ hn hsp.notDotDot⟩
  obtain ⟨c₁, e₁, k₁⟩ := key h₁
  obtain ⟨c₂, e₂, k₂⟩ := key h₂
  rw [k₁] at k₂
  simp only [Out.ok.injEq, Prod.mk.injEq] at k₂
  exact k₂.2.2

/-! ### what an accepted destination is stored as -/

/-- **Shape of the stored entry.** When `add_data` accepts `dest`:
* `base` is the file name of a split of `dest` (so: not empty, no `/`, not `.`, not `..`);
* `dir` starts and ends with `/`;
* `cpio` is `dest` itself for the `./` form and `"." ++ dest` for the `/` form (always `./…`);
* `dir ++ base` is a normalised form of `dest`: it has the same name components in the same order;
* `get_file_paths()` (`Path::new(dir).join(base)`) reads back exactly `dir ++ base`. -/
theorem add_data_ok_shape {dest cpio dir base : Bytes} (h : addDataRaw dest = .ok (cpio, dir, base)) :
    (∃ d trail, Split dest d base trail) ∧
    dir.head? = some 47 ∧ dir.getLast? = some 47 ∧
    cpio = (if hasRoot dest then 46 :: dest else dest) ∧
    nameComps (dir ++ base) = nameComps dest ∧
    readBackPath dir base = dir ++ base := by
  rcases start_cases dest with ⟨r, rfl⟩ | ⟨r, rfl⟩ | hb
  · obtain ⟨tl, J, hS, hJ, hn, hdd, rfl, rfl⟩ := addData_slash_ok h
    have hsp : Split (47 :: r) (joinSep ([] :: tl)) base _ :=
      split_of_pieces (pre := [] :: tl) (by simp) (by rw [splitSep_cons_sep, hS]; rfl) hJ hn hdd
    have htl : ∀ s ∈ tl, (47 : UInt8) ∉ s := fun s hs =>
      noSep_of_mem_splitSep (p := r) (by rw [hS]; exact List.mem_append_left _ hs)
    refine ⟨⟨_, _, hsp⟩, dirOf_head _, dirOf_getLast _, rfl, ?_, join_dir_base (dirOf_getLast _) hsp.noSep⟩
    rw [nameComps_dirOf_append _ hn hsp.noSep, nameComps_slash, hS, nameParts_append,
      nameParts_cons_real hn, nameParts_of_all_triv hJ, nameParts_splitSep_joinSep, nameParts_trim_right]
    intro s hs
    exact htl s (mem_trimTriv (List.mem_reverse.mp hs) |> List.mem_reverse.mp)
  · obtain ⟨tl, J, hS, hJ, hn, hdd, rfl, rfl⟩ := addData_dot_ok h
    have hsp : Split (46 :: 47 :: r) (joinSep ([46] :: tl)) base _ :=
      split_of_pieces (pre := [46] :: tl) (by simp)
        (by rw [splitSep_cons_ne (by decide), splitSep_cons_sep, hS]; rfl) hJ hn hdd
    have htl : ∀ s ∈ ([] :: tl).reverse, (47 : UInt8) ∉ s := by
      intro s hs
      rcases List.mem_cons.mp (List.mem_reverse.mp hs) with rfl | hs
      · simp
      · exact noSep_of_mem_splitSep (p := r) (by rw [hS]; exact List.mem_append_left _ hs)
    refine ⟨⟨_, _, hsp⟩, dirOf_head _, dirOf_getLast _, rfl, ?_, join_dir_base (dirOf_getLast _) hsp.noSep⟩
    rw [nameComps_dirOf_append _ hn hsp.noSep, nameComps_dot, hS, nameParts_append,
      nameParts_cons_real hn, nameParts_of_all_triv hJ, nameParts_dotDirText htl, List.reverse_reverse,
      nameParts_cons_triv rfl]
  · rw [addData_bad_start hb] at h; cases h

/-! ### compression levels -/

/-- assumption on the external encoders: inside the ranges the source checks, their constructors do
not panic (`flate2`, `zstd`, `liblzma`, `bzip2`; exercised by the level sweep, not proved) -/
def EncodersDoNotPanic (enc : Nat → Int → Out Unit) : Prop :=
  ∀ v l, levelInRange v l = true → (enc v l).isPanic = false

/-- … and succeed -/
def EncodersAccept (enc : Nat → Int → Out Unit) : Prop :=
  ∀ v l, levelInRange v l = true → enc v l = .ok ()

/-- **No panic for any variant and any level**; a level outside the generated range is an error -/
theorem compressor_total (enc : Nat → Int → Out Unit) (henc : EncodersDoNotPanic enc) (v : Nat) (level : Int) :
    (compressorConstruct enc v level).isPanic = false ∧
    (levelInRange v level = false → compressorConstruct enc v level = .err "level-out-of-range") := by
  unfold compressorConstruct
  have hflag : Gen.levelOutOfRangeIsErr = true := by decide
  cases hr : levelInRange v level with
  | false => simp [hflag, Out.isPanic]
  | true => simpa [hflag] using henc v level hr

/-- with encoders that accept the checked ranges: an error *exactly* outside the generated ranges -/
theorem compressor_err_iff (enc : Nat → Int → Out Unit) (henc : EncodersAccept enc) (v : Nat) (level : Int) :
    (compressorConstruct enc v level = .ok () ↔ levelInRange v level = true) ∧
    (compressorConstruct enc v level = .err "level-out-of-range" ↔ levelInRange v level = false) := by
  unfold compressorConstruct
  have hflag : Gen.levelOutOfRangeIsErr = true := by decide
  cases hr : levelInRange v level with
  | false => simp [hflag]
  | true => simp [hflag, henc v level hr]

/-! ### capability text -/

/-- the setter reports exactly what the validator says, for every text and every validator:
`Ok` with the text unchanged, or `Err(InvalidCapabilities)`; never a panic -/
theorem caps_setter_total (valid : Bytes → Bool) (text : Bytes) :
    (capsSetter valid text).isPanic = false ∧
    (valid text = true → capsSetter valid text = .ok text) ∧
    (valid text = false → capsSetter valid text = .err "InvalidCapabilities") := by
  unfold capsSetter
  cases valid text <;> simp [Out.isPanic]

/-! ### timestamp setters: the documented negative -/

/-- the instant is inside what a `Timestamp` can hold -/
def TsInRange : TsArg → Prop
  | .secs _ => True
  | .src s => 0 ≤ s.instant.floor ∧ s.instant.floor < 4294967296

/-- **`source_date` / `add_changelog_entry` panic exactly when given a `SystemTime` or `DateTime`
before 1970 or from 2106-02-07T06:28:16Z on** (a `u32` argument never panics) -/
theorem timestamp_setter_panics_iff (t : TsArg) : (timestampSetter t).isPanic = true ↔ ¬ TsInRange t := by
  cases t with
  | secs n => simp [timestampSetter, TsInRange, Out.isPanic]
  | src s =>
    have hu := C20.ts_underflow_iff s
    have ho := C20.ts_overflow_iff s
    have ht := C20.ts_total s
    cases hc : Timestamp.convert s with
    | ok n =>
      have h1 := (C20.ts_ok_iff s n).mp hc
      have hp : (timestampSetter (.src s)).isPanic = false := by simp [timestampSetter, hc, Out.isPanic]
      rw [hp]
      constructor
      · intro h; cases h
      · intro h; exact absurd (show TsInRange (.src s) from ⟨by omega, by omega⟩) h
    | underflow =>
      have h1 := hu.mp hc
      have hp : (timestampSetter (.src s)).isPanic = true := by simp [timestampSetter, hc, Out.isPanic]
      rw [hp]
      constructor
      · intro _ h; have := h.1; omega
      · intro _; rfl
    | overflow =>
      have h1 := ho.mp hc
      have hp : (timestampSetter (.src s)).isPanic = true := by simp [timestampSetter, hc, Out.isPanic]
      rw [hp]
      constructor
      · intro _ h; have := h.2; omega
      · intro _; rfl
    | panic site => rw [hc] at ht; cases ht

/-- inside the range the setters store the floor of the instant -/
theorem timestamp_setter_ok (s : Timestamp.Source) (h : TsInRange (.src s)) :
    timestampSetter (.src s) = .ok s.instant.floor.toNat := by
  have := (C20.ts_exact s).1 h.1 h.2
  simp [timestampSetter, this]

/-! ### a whole argument set -/

theorem fileSetter_total (valid : Bytes → Bool) (f : FileArg) : (fileSetter valid f).isPanic = false := by
  unfold fileSetter
  cases f.caps with
  | none => simp only []; rw [discardOut_isPanic]; exact add_data_total _
  | some c =>
    simp only []
    unfold capsSetter
    cases valid c
    · rfl
    · simp only [if_true]; rw [discardOut_isPanic]; exact add_data_total _

/-- **Building never panics, whatever destinations, capability texts, compression variant and level
are passed — provided no out-of-range instant is given to a timestamp setter** (partial: the
unrestricted statement is false, see `build_args_can_panic`) -/
theorem build_args_total_partial (enc : Nat → Int → Out Unit) (henc : EncodersDoNotPanic enc)
    (valid : Bytes → Bool) (a : BuildArgs)
    (hsd : ∀ t, a.sourceDate = some t → TsInRange t) (hcl : ∀ t ∈ a.changelog, TsInRange t) :
    (buildArgs enc valid a).isPanic = false := by
  have hts : ∀ t, TsInRange t → (timestampSetter t).isPanic = false := by
    intro t ht
    cases hp : (timestampSetter t).isPanic with
    | false => rfl
    | true => exact absurd ht ((timestamp_setter_panics_iff t).mp hp)
  unfold buildArgs
  apply seqOut_not_panic
  intro x hx
  simp only [List.mem_append, List.mem_map, List.mem_singleton] at hx
  rcases hx with ((hx | ⟨t, ht, rfl⟩) | ⟨f, _, rfl⟩) | rfl
  · cases hsdv : a.sourceDate with
    | none => rw [hsdv] at hx; cases hx
    | some t =>
      rw [hsdv] at hx
      simp only [List.mem_singleton] at hx
      rw [hx, discardOut_isPanic]
      exact hts t (hsd t hsdv)
  · rw [discardOut_isPanic]; exact hts t (hcl t ht)
  · exact fileSetter_total valid f
  · exact (compressor_total enc henc _ _).1

/-- the unrestricted statement is false: one pre-1970 `SystemTime` given to `source_date` -/
theorem build_args_can_panic :
    ∃ a : BuildArgs, (buildArgs (fun _ _ => .ok ()) (fun _ => true) a).isPanic = true :=
  ⟨⟨some (.src (.sys ⟨-1, 999999999, by decide⟩)), [], [], (0, 0)⟩, by decide⟩

/-! ### non-vacuity -/

-- the former panic witnesses are errors now: "./", "/usr/..", "./..", "/..", "./a/.."
example : addDataRaw [46, 47] = .err "InvalidDestinationPath" := by decide
example : addDataRaw [47, 117, 115, 114, 47, 46, 46] = .err "InvalidDestinationPath" := by decide
example : addDataRaw [46, 47, 46, 46] = .err "InvalidDestinationPath" := by decide
example : addDataRaw [47, 46, 46] = .err "InvalidDestinationPath" := by decide
example : addDataRaw [46, 47, 97, 47, 46, 46] = .err "InvalidDestinationPath" := by decide
-- other rejected shapes: "a/b" (bad start), "/" and "//." (no parent), ".//." (nothing to strip)
example : addDataRaw [97, 47, 98] = .err "InvalidDestinationPath" ∧ addDataRaw [47] = .err "InvalidDestinationPath" ∧
    addDataRaw [47, 47, 46] = .err "InvalidDestinationPath" ∧ addDataRaw [46, 47, 47, 46] = .err "InvalidDestinationPath" := by decide
-- accepted: "/usr//bin/./x/" ↦ (".//usr//bin/./x/", "/usr//bin/", "x"); "./a" ↦ ("./a", "/", "a"); "/a" ↦ ("./a", "/", "a")
example : addDataRaw [47, 117, 115, 114, 47, 47, 98, 105, 110, 47, 46, 47, 120, 47] =
    .ok ([46, 47, 117, 115, 114, 47, 47, 98, 105, 110, 47, 46, 47, 120, 47], [47, 117, 115, 114, 47, 47, 98, 105, 110, 47], [120]) := by decide
example : addDataRaw [46, 47, 97] = .ok ([46, 47, 97], [47], [97]) ∧ addDataRaw [47, 97] = .ok ([46, 47, 97], [47], [97]) := by decide
-- "././a/../b/." ↦ dir "/a/../", base "b"
example : addDataRaw [46, 47, 46, 47, 97, 47, 46, 46, 47, 98, 47, 46] =
    .ok ([46, 47, 46, 47, 97, 47, 46, 46, 47, 98, 47, 46], [47, 97, 47, 46, 46, 47], [98]) := by decide
-- `Splittable` is inhabited and refutable: "/a/b/." splits as "/a" / "b" + "/."; "/.." does not split
example : Splittable [47, 97, 47, 98, 47, 46] :=
  ⟨.inl ⟨_, rfl⟩, [47, 97], [98], [47, 46], ⟨rfl, by decide, by decide, by decide, by decide, .slashDot .nil⟩⟩
example : ¬ Splittable [47, 46, 46] := (add_data_err_unsplittable _).mpr (by decide)
-- "a/b" has a file name but not the builder's start; "", "..", "./" and "/usr/.." have none
example : hasFileNameB [97, 47, 98] = true ∧ hasFileNameB [] = false ∧ hasFileNameB [46, 46] = false ∧
    hasFileNameB [46, 47] = false ∧ hasFileNameB [47, 117, 47, 46, 46] = false ∧ hasFileNameB [46, 47, 97] = true := by decide
example : splittableB [47, 97, 47, 98, 47, 46] = true ∧ splittableB [47, 46, 46] = false ∧ splittableB [46, 47] = false ∧
    splittableB [97, 47, 98] = false := by decide
-- the path functions on the probe vectors of DESIGN Appendix D
example : parent [47, 117, 47, 47, 98, 47, 47, 47, 120] = some [47, 117, 47, 47, 98] ∧ parent [46, 47] = some [] ∧
    parent [47] = none ∧ parent [47, 47, 47, 97] = some [47] ∧ fileName [47, 97, 47, 47] = some [97] ∧
    fileName [47, 117, 47, 46, 46] = none ∧ stripPrefixDot [] = none ∧ stripPrefixDot [46, 47, 97, 47, 47, 98, 47, 46] = some [97, 47, 47, 98] := by decide
-- compression: the encoder hypotheses are satisfiable, both sides of the range test occur for every checked variant
example : EncodersAccept (fun _ _ => .ok ()) ∧ EncodersDoNotPanic (fun _ _ => .ok ()) := ⟨fun _ _ _ => rfl, fun _ _ _ => rfl⟩
example : levelInRange 2 6 = true ∧ levelInRange 1 3 = true ∧ levelInRange 3 6 = true ∧ levelInRange 4 6 = true ∧
    levelInRange 0 12345 = true := by decide
example : levelInRange 2 4294967295 = false ∧ levelInRange 1 2147483647 = false ∧ levelInRange 1 (-2147483648) = false ∧
    levelInRange 3 4294967295 = false ∧ levelInRange 4 4294967295 = false := by decide
example : compressorConstruct (fun _ _ => .ok ()) 2 4294967295 = .err "level-out-of-range" ∧
    compressorConstruct (fun _ _ => .ok ()) 2 6 = .ok () := by decide
-- an encoder that panics outside the checked range is never reached there
example : compressorConstruct (fun _ l => if l ≤ 9 then .ok () else .panic "encoder") 2 4294967295 = .err "level-out-of-range" := by decide
-- timestamps: the witnesses of the known finding, and the last good second
example : (sourceDate (.src (.sys ⟨-1, 999999999, by decide⟩))).isPanic = true ∧
    (addChangelogEntry [] [] (.src (.chrono ⟨⟨4294967296, 0, by decide⟩, 20700⟩))).isPanic = true ∧
    sourceDate (.src (.sys ⟨4294967295, 999999999, by decide⟩)) = .ok 4294967295 ∧
    sourceDate (.secs 4294967295) = .ok 4294967295 := by decide
example : TsInRange (.src (.sys ⟨1600000000, 5, by decide⟩)) ∧ ¬ TsInRange (.src (.chrono ⟨⟨-1, 0, by decide⟩, 0⟩)) := by
  constructor <;> simp [TsInRange, Timestamp.Source.instant, Timestamp.Instant.floor]
-- a whole argument set that meets the hypotheses of `build_args_total_partial` and still exercises every step
example : buildArgs (fun _ _ => .ok ()) (fun t => t == [61, 101]) ⟨some (.secs 7), [.src (.sys ⟨5, 1, by decide⟩)],
    [⟨[47, 97], some [61, 101]⟩, ⟨[46, 47, 98, 47, 99], none⟩], (2, 9)⟩ = .ok () := by decide
example : buildArgs (fun _ _ => .ok ()) (fun t => t == [61, 101]) ⟨none, [], [⟨[47, 97], some [61]⟩], (2, 9)⟩ = .err "InvalidCapabilities" ∧
    buildArgs (fun _ _ => .ok ()) (fun _ => true) ⟨none, [], [⟨[47, 46, 46], none⟩], (2, 9)⟩ = .err "InvalidDestinationPath" ∧
    buildArgs (fun _ _ => .ok ()) (fun _ => true) ⟨none, [], [⟨[47, 97], none⟩], (4, 4294967295)⟩ = .err "level-out-of-range" := by decide

/-! ### `add_data` after fix cbb69e5 (archive name = "." ++ dir ++ base name) -/

/-- same acceptance, same directory and base name as the path splitting; never a panic -/
theorem addData_eq_raw (dest : Bytes) :
    addData dest = (addDataRaw dest).map fun r => ([46] ++ r.2.1 ++ r.2.2, r.2.1, r.2.2) := rfl

theorem add_data_cpio_name {dest cpio dir base : Bytes} (h : addData dest = .ok (cpio, dir, base)) :
    cpio = [46] ++ dir ++ base ∧ ∃ c, addDataRaw dest = .ok (c, dir, base) := by
  unfold addData at h
  cases hr : addDataRaw dest with
  | ok r =>
    obtain ⟨c, d, b⟩ := r
    simp only [hr, Out.map, Out.ok.injEq, Prod.mk.injEq] at h
    obtain ⟨rfl, rfl, rfl⟩ := h
    exact ⟨rfl, c, rfl⟩
  | err e => simp [hr, Out.map] at h
  | panic s => simp [hr, Out.map] at h

theorem add_data_new_total (dest : Bytes) : (addData dest).isPanic = false := by
  have := add_data_total dest
  unfold addData
  cases hr : addDataRaw dest <;> simp_all [Out.map, Out.isPanic]

open RpmVerif.WithFile

/-! ### `with_file`: the source file and the options chain (coverage gap G5) -/

/-- **`with_file` never panics** — for every source (missing, unreadable, any content, EVERY `st_mode` word, every
modification instant), every options value and every destination -/
theorem with_file_total (sha256hex : Bytes → Bytes) (src : Source) (o : FileOpts) :
    (withFile sha256hex src o).isPanic = false := by
  cases src with
  | openFails => rfl
  | readFails => rfl
  | readable f =>
    rw [withFile_readable]
    split
    · rfl
    · have := add_data_new_total o.destination
      cases ha : addData o.destination with
      | ok r => rfl
      | err e => rfl
      | panic s => rw [ha] at this; cases this

/-- **a modification time outside 1970-01-01 .. 2106-02-07T06:28:15Z is `Err(TimestampConv)`, and nothing else is** -/
theorem with_file_mtime_err_iff (sha256hex : Bytes → Bytes) (src : Source) (o : FileOpts) :
    withFile sha256hex src o = .err "TimestampConv" ↔
      ∃ f, src = .readable f ∧ (f.mtime.secs < 0 ∨ 4294967296 ≤ f.mtime.secs) := by
  cases src with
  | openFails => exact ⟨fun h => (by simp [withFile, errIo] at h), fun ⟨f, h, _⟩ => (by cases h)⟩
  | readFails => exact ⟨fun h => (by simp [withFile, errIo] at h), fun ⟨f, h, _⟩ => (by cases h)⟩
  | readable f =>
    rw [withFile_readable]
    constructor
    · intro h
      split at h
      · rename_i hr; exact ⟨f, rfl, hr⟩
      · exfalso
        rcases add_data_outcomes o.destination with ⟨c, d, b, hr⟩ | hr
        · simp only [addData, hr, Out.map] at h; cases h
        · simp [addData, hr, Out.map] at h
    · rintro ⟨f', hf, hr⟩
      cases hf
      rw [if_pos hr]

/-- **all outcomes of `with_file`**: `Ok` exactly for a readable source with an in-range mtime and a splittable
destination; otherwise `Err(Io)` (source), `Err(TimestampConv)` (mtime; reported before the destination is looked at) or
`Err(InvalidDestinationPath)` -/
theorem with_file_outcomes (sha256hex : Bytes → Bytes) (src : Source) (o : FileOpts) :
    ((∃ e, withFile sha256hex src o = .ok e) ↔
        ∃ f, src = .readable f ∧ 0 ≤ f.mtime.secs ∧ f.mtime.secs < 4294967296 ∧ Splittable o.destination) ∧
    ((∃ e, withFile sha256hex src o = .ok e) ∨ withFile sha256hex src o = .err "io" ∨
      withFile sha256hex src o = .err "TimestampConv" ∨ withFile sha256hex src o = .err "InvalidDestinationPath") := by
  cases src with
  | openFails =>
    exact ⟨⟨fun ⟨e, h⟩ => (by cases h), fun ⟨f, h, _⟩ => (by cases h)⟩, .inr (.inl rfl)⟩
  | readFails =>
    exact ⟨⟨fun ⟨e, h⟩ => (by cases h), fun ⟨f, h, _⟩ => (by cases h)⟩, .inr (.inl rfl)⟩
  | readable f =>
    rw [withFile_readable]
    by_cases hr : f.mtime.secs < 0 ∨ 4294967296 ≤ f.mtime.secs
    · rw [if_pos hr]
      refine ⟨⟨fun ⟨e, h⟩ => (by cases h), fun ⟨f', hf, h0, h1, _⟩ => ?_⟩, .inr (.inr (.inl rfl))⟩
      cases hf; omega
    · rw [if_neg hr]
      rcases add_data_outcomes o.destination with ⟨c, d, b, ha⟩ | ha
      · have hs : Splittable o.destination := (add_data_ok_iff_splittable _).mp ⟨_, ha⟩
        simp only [addData, ha, Out.map]
        exact ⟨⟨fun _ => ⟨f, rfl, by omega, by omega, hs⟩, fun _ => ⟨_, rfl⟩⟩, .inl ⟨_, rfl⟩⟩
      · have hs : ¬ Splittable o.destination := (add_data_err_unsplittable _).mpr ha
        have hx : addData o.destination = .err "InvalidDestinationPath" := by simp only [addData, ha, Out.map]
        rw [hx]
        exact ⟨⟨fun ⟨e, h⟩ => (by cases h), fun ⟨_, _, _, _, h⟩ => absurd h hs⟩, .inr (.inr (.inr rfl))⟩

/-- the options chain never panics; its only error is the capability text -/
theorem setters_total (valid : Bytes → Bool) (ss : List Setter) (o : FileOpts) :
    (applySetters valid ss o).isPanic = false := by
  rcases applySetters_cases valid ss o with ⟨o', h⟩ | h <;> rw [h] <;> rfl

/-- **a whole sequence of `FileOptions::new(dest).<setters>` + `with_file(source, ..)?` calls never panics** -/
theorem build_calls_total (sha256hex : Bytes → Bytes) (valid : Bytes → Bool) (calls : List Call) (s : BState) :
    (buildState sha256hex valid calls s).isPanic = false := by
  induction calls generalizing s with
  | nil => rfl
  | cons c r ih =>
    have hc : (runCall sha256hex valid c).isPanic = false := by
      unfold runCall
      rcases applySetters_cases valid c.setters (FileOpts.new c.dest) with ⟨o', h⟩ | h
      · rw [h]; exact with_file_total _ _ _
      · rw [h]; rfl
    simp only [buildState]
    cases hr : runCall sha256hex valid c with
    | ok e => exact ih _
    | err e => rfl
    | panic p => rw [hr] at hc; cases hc

/-! ### default compression (coverage gap G6) -/

/-- **every default level is one the range check accepts** (and a value of the variant's payload type): converting a
`CompressionType` never yields a configuration `build()` then rejects -/
theorem default_level_in_range (t v : Nat) (l : Int) (h : withLevelOfType t = some (v, l)) :
    levelInRange v l = true ∧ levelRepresentable v l = true := by
  have key : ∀ e ∈ Gen.defaultOfType, levelInRange e.2.1 (e.2.2.getD 0) = true ∧ levelRepresentable e.2.1 (e.2.2.getD 0) = true := by
    decide
  unfold withLevelOfType at h
  cases hf : Gen.defaultOfType.find? (fun e => e.1 == t) with
  | none => rw [hf] at h; cases h
  | some e =>
    rw [hf] at h
    simp only [Option.some.injEq, Prod.mk.injEq] at h
    obtain ⟨rfl, rfl⟩ := h
    exact key e (List.mem_of_find?_eq_some hf)

/-- every `CompressionType` has an arm, and the arm keeps the type (`Gzip ↦ Gzip(_)`, …) -/
theorem default_of_every_type :
    (∀ t, t < Gen.compressionNumVariants → (withLevelOfType t).isSome = true) ∧
    Gen.defaultOfType.map (fun e => Gen.levelVariants[e.2.1]?) = Gen.defaultOfType.map (fun e => Gen.compressionVariants[e.1]?) := by
  refine ⟨by decide, rfl⟩

/-- **`CompressionWithLevel::default()` is a variant of the enum with an accepted level, for every combination of cargo
features**, and it is a type whose codec is compiled in (or `None`) -/
theorem default_is_some_variant (enabled : Nat → Bool) :
    ∃ v l, defaultCompression enabled = some (v, l) ∧ v < Gen.levelVariants.length ∧ levelInRange v l = true ∧
      (defaultType enabled = Gen.defaultFallback ∨ enabled (defaultType enabled) = true) := by
  have hall : ∀ t ∈ Gen.defaultFallback :: Gen.defaultPreference.map (·.2),
      ∃ v l, withLevelOfType t = some (v, l) ∧ v < Gen.levelVariants.length := by
    have hd : ∀ t ∈ Gen.defaultFallback :: Gen.defaultPreference.map (·.2),
        (withLevelOfType t).isSome = true ∧ ((withLevelOfType t).map (·.1)).getD Gen.levelVariants.length < Gen.levelVariants.length := by
      decide
    intro t ht
    obtain ⟨h1, h2⟩ := hd t ht
    cases hw : withLevelOfType t with
    | none => rw [hw] at h1; cases h1
    | some r => rw [hw] at h2; exact ⟨r.1, r.2, rfl, h2⟩
  have hgate : ∀ p ∈ Gen.defaultPreference, p.1 = p.2 := by decide
  have hmem : defaultType enabled ∈ Gen.defaultFallback :: Gen.defaultPreference.map (·.2) ∧
      (defaultType enabled = Gen.defaultFallback ∨ enabled (defaultType enabled) = true) := by
    unfold defaultType
    cases hf : Gen.defaultPreference.find? (fun p => enabled p.1) with
    | none => exact ⟨by simp, .inl rfl⟩
    | some p =>
      have hp := List.mem_of_find?_eq_some hf
      have he : enabled p.1 = true := by simpa using List.find?_some hf
      refine ⟨List.mem_cons_of_mem _ (List.mem_map_of_mem hp), .inr ?_⟩
      show enabled p.2 = true
      rw [← hgate p hp]; exact he
  obtain ⟨v, l, h1, h2⟩ := hall _ hmem.1
  exact ⟨v, l, h1, h2, (default_level_in_range _ v l h1).1, hmem.2⟩

/-! ### non-vacuity for `with_file` and the default compression -/
section
open RpmVerif.FileMode
-- one nanosecond before 1970 and the first second of 2106-02-07T06:28:16Z are errors, the last representable second is not
example : withFile (fun _ => []) (.readable ⟨[], 0o100644, ⟨-1, 999999999, by decide⟩⟩) (FileOpts.new [47, 97]) = .err "TimestampConv" := by decide
example : withFile (fun _ => []) (.readable ⟨[], 0o100644, ⟨4294967296, 0, by decide⟩⟩) (FileOpts.new [47, 97]) = .err "TimestampConv" := by decide
example : (withFile (fun _ => []) (.readable ⟨[], 0o100644, ⟨4294967295, 999999999, by decide⟩⟩) (FileOpts.new [47, 97])).toOption.map (·.mtime) = some 4294967295 := by decide
-- the mtime is converted before the destination is looked at; a good mtime with a bad destination is the destination's error
example : withFile (fun _ => []) (.readable ⟨[], 0o100644, ⟨-5, 0, by decide⟩⟩) (FileOpts.new [47, 46, 46]) = .err "TimestampConv" ∧
    withFile (fun _ => []) (.readable ⟨[], 0o100644, ⟨5, 0, by decide⟩⟩) (FileOpts.new [47, 46, 46]) = .err "InvalidDestinationPath" := by decide
-- a missing source, a directory as source
example : withFile (fun _ => []) .openFails (FileOpts.new [47, 97]) = .err "io" ∧ withFile (fun _ => []) .readFails (FileOpts.new [47, 97]) = .err "io" := by decide
-- st_mode words no `FileMode` variant describes are stored as they are, low 16 bits: a FIFO, a word ≥ 2^31 (negative as i32), a word ≥ 2^16
example : (withFile (fun _ => []) (.readable ⟨[], 0o010644, ⟨5, 0, by decide⟩⟩) (FileOpts.new [47, 97])).toOption.map (·.mode) = some 0o010644 ∧
    (withFile (fun _ => []) (.readable ⟨[], 4294967295, ⟨5, 0, by decide⟩⟩) (FileOpts.new [47, 97])).toOption.map (·.mode) = some 65535 ∧
    (withFile (fun _ => []) (.readable ⟨[], 65536 + 0o100644, ⟨5, 0, by decide⟩⟩) (FileOpts.new [47, 97])).toOption.map (·.mode) = some 0o100644 := by decide
-- the hypotheses of `with_file_outcomes`' first half are satisfiable
example : (withFile (fun _ => []) (.readable ⟨[1], 0o100644, ⟨5, 0, by decide⟩⟩) (FileOpts.new [47, 97])).isOk = true ∧
    Splittable [47, 97] := ⟨by decide, (add_data_ok_iff_splittable _).mp ⟨([46, 47, 97], [47], [97]), by decide⟩⟩
-- a chain whose capability text is refused ends in that error, not in a panic
example : buildState (fun _ => []) (fun t => t == [61, 112]) [⟨.readable ⟨[1], 0o100644, ⟨5, 0, by decide⟩⟩, [47, 97], [.caps [61]]⟩] BState.empty = .err "InvalidCapabilities" := by decide
-- defaults: zstd 19 with rpm-rs' default features, gzip 9 without zstd, xz 9 with xz only, none without any codec
example : defaultCompression (fun t => Gen.cargoDefaultFeatureTypes.contains t) = some (1, 19) ∧
    defaultCompression (fun t => t == 1 || t == 3) = some (2, 9) ∧ defaultCompression (fun t => t == 3) = some (3, 9) ∧
    defaultCompression (fun _ => false) = some (0, 0) ∧ defaultCompression (fun t => t == 4) = some (0, 0) := by decide
example : withLevelOfType 4 = some (4, 9) ∧ withLevelOfType 5 = none := by decide
end

end RpmVerif.C17
