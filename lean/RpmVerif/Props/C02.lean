import RpmVerif.Lemmas.Verify
import RpmVerif.Lemmas.PgpVerifier
import RpmVerif.Spec.Verify
import RpmVerif.Lemmas.PgpParse
import RpmVerif.Model.Sign
/-!
# C02 — signature verification never succeeds without a verified signature

All theorems hold for EVERY `Package` value (any signature header: any entries of any type and count, any subset
of the OPENPGP / RSA / DSA / PGP tags, duplicated tags, …), ANY verifier `v` — including verifiers with interior
state, whose verdict may depend on all consults made before (`Verifier`; a pure function is the special case
`verifySignature`, see `verifySignature_eq`) —, ANY base64 decoder `b64` and ANY three hash functions.

* `verify_ok_sound`         success ⇒ at least one consult, every consult accepted, every consult presented with the
                            serialised main header (or header ++ payload, and then it is the RPMSIGTAG_PGP one), all digests fine;
* `verify_log_faithful`     the logged verdicts ARE the verifier's answers (given the consults before);
* `verify_data_right`       whatever the result: every consult carries the right bytes; a header+payload consult
                            carries the binary stored under RPMSIGTAG_PGP;
* `verify_first_reject`     a rejected consult is the LAST entry of the log, everything before it was accepted, and
                            the result is the verifier's error (no "keep going");
* `verify_total`            never a panic;
* `verify_no_sig_is_error`  no readable signature tag (or an empty OPENPGP array) ⇒ error, verifier never called;
* `verify_digest_error_first` a digest error is returned before any consult;
* `tamper_rejected`         the "consequently" clause for a library-signed package, digest route OR verifier route;
  `tamper_rejected_payload`, `tamper_rejected_verifier`, `tamper_rejected_pgp_payload`: payload changes / any shape;
* `model_satisfies_spec`    the model's (result, log) always passes the observer-level spec the driver applies to
                            the real implementation's observation;
* `pgp_verifier_sound`      rpm-rs's own `Verifier::verify` (after fix c25de51): success ⇒ a key the issuer list selected
                            (or the primary key when there is no issuer) cryptographically accepted the FULL data;
  `old_verifier_repeated_issuer_witness`, `old_verifier_same_id_subkeys_witness`: the code before c25de51 (shared reader)
  accepted a signature over the EMPTY message for any data — the defect that commit repaired.
-/
namespace RpmVerif.C02
open RpmVerif.Hdr RpmVerif.Gen RpmVerif.Digest RpmVerif.Verify

variable (md5 sha1 sha256 : Bytes → Bytes) (b64 : Bytes → Option Bytes)

/-- the pure-verifier entry point is the stateful one with a verifier that ignores the history -/
theorem verifySignature_eq (v : Bytes → Bytes → Bool) (p : Package) :
    verifySignature md5 sha1 sha256 b64 v p = verifySignatureS md5 sha1 sha256 b64 (fun _ => v) p := rfl

/-- the three ways a call can go -/
theorem verify_cases (v : Verifier) (p : Package) :
    (∃ c, verifyDigests md5 sha1 sha256 p = .err c ∧ verifySignatureS md5 sha1 sha256 b64 v p = (.err c, [])) ∨
    (verifyDigests md5 sha1 sha256 p = .ok () ∧ sigPlan b64 p.md.signature = none ∧
      verifySignatureS md5 sha1 sha256 b64 v p = (.err "nosig", [])) ∨
    (∃ plan, verifyDigests md5 sha1 sha256 p = .ok () ∧ sigPlan b64 p.md.signature = some plan ∧
      verifySignatureS md5 sha1 sha256 b64 v p = runSteps v (writeHeader p.md.header) p.content [] plan) := by
  rw [verifySignatureS_eq]
  have hnp := verifyDigests_not_panic md5 sha1 sha256 p
  cases hd : verifyDigests md5 sha1 sha256 p with
  | err c => exact .inl ⟨c, rfl, rfl⟩
  | panic s => rw [hd] at hnp; cases hnp
  | ok u =>
    cases hp : sigPlan b64 p.md.signature with
    | none => exact .inr (.inl ⟨rfl, rfl, rfl⟩)
    | some plan => exact .inr (.inr ⟨plan, rfl, rfl, rfl⟩)

/-- a header+payload step of a plan is the binary stored under RPMSIGTAG_PGP -/
theorem sigPlan_pgp {sig : Header} {plan : List PlanStep} (h : sigPlan b64 sig = some plan) :
    ∀ s, some (s, true) ∈ plan → getBinary sig SigTag.RPMSIGTAG_PGP = .ok s := by
  intro s hm
  cases hg : getStringArray sig SigTag.RPMSIGTAG_OPENPGP with
  | ok sigs => exact absurd (sigPlan_openpgp hg h s true hm) (by simp)
  | err c =>
    unfold sigPlan at h
    rw [hg] at h
    dsimp only at h
    split at h
    · cases h
    · simp only [Option.some.injEq] at h
      subst h
      simp only [List.mem_map, List.mem_append] at hm
      obtain ⟨⟨d, s', g⟩, hx, he⟩ := hm
      simp only [Option.some.injEq, Prod.mk.injEq] at he
      obtain ⟨rfl, rfl⟩ := he
      rcases hx with (hx | hx) | hx
      · exact absurd (stepOf_data _ _ _ _ hx).2 (by simp)
      · exact absurd (stepOf_data _ _ _ _ hx).2 (by simp)
      · unfold stepOf at hx
        split at hx
        · rename_i sg heq
          simp only [List.mem_singleton, Prod.mk.injEq] at hx
          rw [heq, hx.2.1]
        · cases hx
  | panic s' =>
    have := getWith_not_panic IndexData.asStringArray sig SigTag.RPMSIGTAG_OPENPGP
    unfold getStringArray at hg
    rw [hg] at this
    cases this

/-- a header-only step of a plan comes from a readable OPENPGP array, or is the binary under RSA or DSA -/
theorem sigPlan_hdr_only {sig : Header} {plan : List PlanStep} (h : sigPlan b64 sig = some plan) :
    ∀ s, some (s, false) ∈ plan →
      (∃ l, getStringArray sig SigTag.RPMSIGTAG_OPENPGP = .ok l) ∨
      getBinary sig SigTag.RPMSIGTAG_RSA = .ok s ∨ getBinary sig SigTag.RPMSIGTAG_DSA = .ok s := by
  intro s hm
  cases hg : getStringArray sig SigTag.RPMSIGTAG_OPENPGP with
  | ok sigs => exact .inl ⟨sigs, rfl⟩
  | err c =>
    unfold sigPlan at h
    rw [hg] at h
    dsimp only at h
    split at h
    · cases h
    · simp only [Option.some.injEq] at h
      subst h
      simp only [List.mem_map, List.mem_append] at hm
      obtain ⟨⟨d, s', g⟩, hx, he⟩ := hm
      simp only [Option.some.injEq, Prod.mk.injEq] at he
      obtain ⟨rfl, rfl⟩ := he
      have key : ∀ (gt : Out Bytes) (d0 : Bytes) (b : Bool), (d, s', false) ∈ stepOf gt d0 b → gt = .ok s' := by
        intro gt d0 b hx
        unfold stepOf at hx
        split at hx
        · rename_i sg
          simp only [List.mem_singleton, Prod.mk.injEq] at hx
          rw [hx.2.1]
        · cases hx
      rcases hx with (hx | hx) | hx
      · exact .inr (.inr (key _ _ _ hx))
      · exact .inr (.inl (key _ _ _ hx))
      · exact absurd (stepOf_data _ _ _ _ hx).2 (by simp)
  | panic s' =>
    have := getWith_not_panic IndexData.asStringArray sig SigTag.RPMSIGTAG_OPENPGP
    unfold getStringArray at hg
    rw [hg] at this
    cases this

/-! ## the property -/

/-- **success ⇒ ≥ 1 consult, all accepted, right bytes, digests fine** -/
theorem verify_ok_sound (v : Verifier) (p : Package)
    (h : (verifySignatureS md5 sha1 sha256 b64 v p).1 = .ok ()) :
    (verifySignatureS md5 sha1 sha256 b64 v p).2 ≠ []
    ∧ (∀ c ∈ (verifySignatureS md5 sha1 sha256 b64 v p).2, c.accepted = true)
    ∧ (∀ c ∈ (verifySignatureS md5 sha1 sha256 b64 v p).2,
        c.data = writeHeader p.md.header ∨ (c.fromPgpTag = true ∧ c.data = writeHeader p.md.header ++ p.content))
    ∧ verifyDigests md5 sha1 sha256 p = .ok () := by
  rcases verify_cases md5 sha1 sha256 b64 v p with ⟨c, _, e⟩ | ⟨_, _, e⟩ | ⟨plan, hd, hp, e⟩
  · rw [e] at h; cases h
  · rw [e] at h; cases h
  · rw [e] at h ⊢
    obtain ⟨hlog, hsome⟩ := runSteps_ok v _ _ [] plan h
    rw [hlog, List.nil_append]
    refine ⟨?_, ?_, ?_, hd⟩
    · match plan, sigPlan_ne_nil hp, hsome with
      | none :: _, _, hs => exact absurd (hs none List.mem_cons_self) (by simp)
      | some (s, g) :: rest, _, _ => simp [okConsult, List.flatMap_cons]
    · intro c hc
      simp only [List.mem_flatMap] at hc
      obtain ⟨st, _, hc⟩ := hc
      match st, hc with
      | some (s, g), hc => simp only [okConsult, List.mem_singleton] at hc; rw [hc]
    · intro c hc
      simp only [List.mem_flatMap] at hc
      obtain ⟨st, _, hc⟩ := hc
      match st, hc with
      | some (s, g), hc =>
        simp only [okConsult, List.mem_singleton] at hc
        subst hc
        cases g
        · exact .inl rfl
        · exact .inr ⟨rfl, rfl⟩

/-- **the log is faithful**: every logged verdict is the verifier's answer for that data and signature, given the
consults made before it -/
theorem verify_log_faithful (v : Verifier) (p : Package) :
    Faithful v (verifySignatureS md5 sha1 sha256 b64 v p).2 := by
  rcases verify_cases md5 sha1 sha256 b64 v p with ⟨c, _, e⟩ | ⟨_, _, e⟩ | ⟨plan, _, _, e⟩
  · rw [e]; exact .nil
  · rw [e]; exact .nil
  · rw [e]; exact runSteps_faithful v _ _ [] plan .nil

/-- **right bytes, whatever the result**: every consult gets the serialised main header; or header ++ payload, and
then its signature is the binary stored under RPMSIGTAG_PGP (the legacy header+payload signature); a header-only
consult carries an OPENPGP entry or the binary under RSA / DSA -/
theorem verify_data_right (v : Verifier) (p : Package) :
    ∀ c ∈ (verifySignatureS md5 sha1 sha256 b64 v p).2,
      (c.fromPgpTag = false ∧ c.data = writeHeader p.md.header ∧
        ((∃ l, getStringArray p.md.signature SigTag.RPMSIGTAG_OPENPGP = .ok l) ∨
         getBinary p.md.signature SigTag.RPMSIGTAG_RSA = .ok c.sig ∨
         getBinary p.md.signature SigTag.RPMSIGTAG_DSA = .ok c.sig)) ∨
      (c.fromPgpTag = true ∧ getBinary p.md.signature SigTag.RPMSIGTAG_PGP = .ok c.sig ∧
        c.data = writeHeader p.md.header ++ p.content) := by
  rcases verify_cases md5 sha1 sha256 b64 v p with ⟨c, _, e⟩ | ⟨_, _, e⟩ | ⟨plan, _, hp, e⟩
  · rw [e]; intro c hc; cases hc
  · rw [e]; intro c hc; cases hc
  · rw [e]
    intro c hc
    rcases runSteps_data v _ _ [] plan c hc with h | ⟨hm, hdata⟩
    · cases h
    · cases hg : c.fromPgpTag
      · rw [hg] at hm hdata; exact .inl ⟨rfl, hdata, sigPlan_hdr_only b64 hp _ hm⟩
      · rw [hg] at hm hdata; exact .inr ⟨rfl, sigPlan_pgp b64 hp _ hm, hdata⟩

/-- **no "keep going"**: a rejected consult is the last entry of the log, all entries before it were accepted, and
the result is the error the verifier returned -/
theorem verify_first_reject (v : Verifier) (p : Package) (c : Consult)
    (hc : c ∈ (verifySignatureS md5 sha1 sha256 b64 v p).2) (hr : c.accepted = false) :
    (verifySignatureS md5 sha1 sha256 b64 v p).1 = .err "verify"
    ∧ ∃ init, (verifySignatureS md5 sha1 sha256 b64 v p).2 = init ++ [c] ∧ ∀ x ∈ init, x.accepted = true := by
  rcases verify_cases md5 sha1 sha256 b64 v p with ⟨c', _, e⟩ | ⟨_, _, e⟩ | ⟨plan, _, _, e⟩
  · rw [e] at hc; cases hc
  · rw [e] at hc; cases hc
  · rw [e] at hc ⊢
    rcases runSteps_shape v _ _ [] plan (fun x hx => by cases hx) with hall | ⟨init, c0, hlog, hinit, _, hres⟩
    · rw [hall c hc] at hr; cases hr
    · rw [hlog] at hc
      simp only [List.mem_append, List.mem_singleton] at hc
      rcases hc with hc | rfl
      · rw [hinit c hc] at hr; cases hr
      · exact ⟨hres, init, hlog, hinit⟩

/-- **never a panic** -/
theorem verify_total (v : Verifier) (p : Package) : (verifySignatureS md5 sha1 sha256 b64 v p).1.isPanic = false := by
  rcases verify_cases md5 sha1 sha256 b64 v p with ⟨c, _, e⟩ | ⟨_, _, e⟩ | ⟨plan, _, _, e⟩
  · rw [e]; rfl
  · rw [e]; rfl
  · rw [e]; exact runSteps_not_panic v _ _ [] plan

/-! ### with `signature::echo_signature` in place (AUDIT2 a10)

`verifySignatureS` leaves the `echo_signature` call in front of every `verifier.verify` out. `verifySignatureSE`
(Model/Verify.lean) has it in, slice indexing explicit. -/

/-- **the echo calls change nothing and cannot panic**: `verify_signature` with them = without them (result and consult
log); the Debug logger is handed, per consult and in call order, the signature's length and its first
`Gen.echoPrefixLen` bytes (the bound `len.min(N)` scraped from the source) -/
theorem verify_echo_eq (v : Verifier) (p : Package) :
    verifySignatureSE md5 sha1 sha256 b64 v p =
      ((verifySignatureS md5 sha1 sha256 b64 v p).1, (verifySignatureS md5 sha1 sha256 b64 v p).2,
        (verifySignatureS md5 sha1 sha256 b64 v p).2.map echoOf) :=
  verifySignatureSE_eq md5 sha1 sha256 b64 v p

/-- `echo_signature` on ANY byte string is a value: `&signature[..signature.len().min(N)]` is in range -/
theorem echo_total (sig : Bytes) : echoSignature sig = .ok (sig.length, sig.take Gen.echoPrefixLen) :=
  echoSignature_eq sig

/-- **never a panic, echo calls included** -/
theorem verify_total_echo (v : Verifier) (p : Package) : (verifySignatureSE md5 sha1 sha256 b64 v p).1.isPanic = false := by
  rw [verify_echo_eq]; exact verify_total md5 sha1 sha256 b64 v p

/-- the slice the code had BEFORE fix d429c1f (`&signature[0..5]`, a fixed bound) panics on a short signature; the
bound `len.min(5)` does not -/
example : sliceTo [1, 2, 3] 5 = .panic "slice-end-out-of-range" ∧ echoSignature [1, 2, 3] = .ok (3, [1, 2, 3])
    ∧ echoSignature [1, 2, 3, 4, 5, 6, 7] = .ok (7, [1, 2, 3, 4, 5]) ∧ echoSignature [] = .ok (0, []) := by decide

/-- **nothing to verify ⇒ error without consulting the verifier**: an OPENPGP array with zero entries, or no OPENPGP
string array and none of RSA / DSA / PGP readable as binary (absent or of another data type) -/
theorem verify_no_sig_is_error (v : Verifier) (p : Package)
    (h : getStringArray p.md.signature SigTag.RPMSIGTAG_OPENPGP = .ok [] ∨
      ((∀ l, getStringArray p.md.signature SigTag.RPMSIGTAG_OPENPGP ≠ .ok l) ∧
       (∀ b, getBinary p.md.signature SigTag.RPMSIGTAG_RSA ≠ .ok b) ∧
       (∀ b, getBinary p.md.signature SigTag.RPMSIGTAG_DSA ≠ .ok b) ∧
       (∀ b, getBinary p.md.signature SigTag.RPMSIGTAG_PGP ≠ .ok b))) :
    ∃ c, verifySignatureS md5 sha1 sha256 b64 v p = (.err c, []) := by
  have hnone : sigPlan b64 p.md.signature = none := by
    unfold sigPlan
    rcases h with h | ⟨h0, h1, h2, h3⟩
    · rw [h]; rfl
    · split
      · rename_i sigs heq; exact absurd heq (h0 sigs)
      · have a : (getBinary p.md.signature SigTag.RPMSIGTAG_RSA).isOk = false := by
          cases hh : getBinary p.md.signature SigTag.RPMSIGTAG_RSA with
          | ok b => exact absurd hh (h1 b)
          | err c => rfl
          | panic s => rfl
        have b : (getBinary p.md.signature SigTag.RPMSIGTAG_DSA).isOk = false := by
          cases hh : getBinary p.md.signature SigTag.RPMSIGTAG_DSA with
          | ok b => exact absurd hh (h2 b)
          | err c => rfl
          | panic s => rfl
        have c : (getBinary p.md.signature SigTag.RPMSIGTAG_PGP).isOk = false := by
          cases hh : getBinary p.md.signature SigTag.RPMSIGTAG_PGP with
          | ok b => exact absurd hh (h3 b)
          | err c => rfl
          | panic s => rfl
        simp [a, b, c]
  rcases verify_cases md5 sha1 sha256 b64 v p with ⟨c, _, e⟩ | ⟨_, _, e⟩ | ⟨plan, _, hp, _⟩
  · exact ⟨c, e⟩
  · exact ⟨_, e⟩
  · rw [hnone] at hp; cases hp

/-- **digests first**: a digest error is the result, and the verifier is never called -/
theorem verify_digest_error_first (v : Verifier) (p : Package) (c : String)
    (h : verifyDigests md5 sha1 sha256 p = .err c) :
    verifySignatureS md5 sha1 sha256 b64 v p = (.err c, []) := by
  rw [verifySignatureS_eq, h]

/-! ## the "consequently" clause: tampering is rejected -/

/-- the two byte strings at hand do not collide under `h` -/
def NoCollision (h : Bytes → Bytes) (a b : Bytes) : Prop := a ≠ b → h a ≠ h b

/-- the verifier accepts each signature of the log only for the data it was accepted with there
("a signature is accepted only for the message it was made for", for the signatures at hand) -/
def Binds (v : Verifier) (log : List Consult) : Prop :=
  ∀ c ∈ log, ∀ pre d, v pre d c.sig = true → d = c.data

/-- the signature header shape `SignatureHeaderBuilder` produces for a signed package: a non-empty OPENPGP string
array (plus a legacy RSA/DSA copy, never consulted when OPENPGP is readable) and the SHA256 header digest -/
def LibSigned (sig : Header) : Prop :=
  ∃ sigs d, getStringArray sig SigTag.RPMSIGTAG_OPENPGP = .ok sigs ∧ sigs ≠ [] ∧
    getString sig SigTag.RPMSIGTAG_SHA256 = .ok d

/-- digest route: the SHA256 header digest in the (unchanged) signature header pins the header bytes -/
theorem tamper_rejected_digest (v v' : Verifier) (p p' : Package) (d : Bytes)
    (hsig : p'.md.signature = p.md.signature)
    (hd : getString p.md.signature SigTag.RPMSIGTAG_SHA256 = .ok d)
    (hok : (verifySignatureS md5 sha1 sha256 b64 v p).1 = .ok ())
    (hne : writeHeader p'.md.header ≠ writeHeader p.md.header)
    (hnc : NoCollision sha256 (writeHeader p.md.header) (writeHeader p'.md.header)) :
    (verifySignatureS md5 sha1 sha256 b64 v' p').1 ≠ .ok () := by
  intro hok'
  have h1 := verifyDigests_ok_sha256 (verify_ok_sound md5 sha1 sha256 b64 v p hok).2.2.2 hd
  have h2 := verifyDigests_ok_sha256 (verify_ok_sound md5 sha1 sha256 b64 v' p' hok').2.2.2 (hsig ▸ hd)
  exact hnc (fun e => hne e.symm) (hexLower_inj (h1.symm.trans h2))

/-- verifier route, core: if the FIRST signature of the plan would be presented with different bytes, a binding
verifier rejects it -/
theorem tamper_rejected_first (v : Verifier) (p p' : Package)
    (hsig : p'.md.signature = p.md.signature)
    (hok : (verifySignatureS md5 sha1 sha256 b64 v p).1 = .ok ())
    (hb : Binds v (verifySignatureS md5 sha1 sha256 b64 v p).2)
    (hfirst : ∀ s g rest, sigPlan b64 p.md.signature = some (some (s, g) :: rest) →
      dataFor (writeHeader p'.md.header) p'.content g ≠ dataFor (writeHeader p.md.header) p.content g) :
    (verifySignatureS md5 sha1 sha256 b64 v p').1 ≠ .ok () := by
  rcases verify_cases md5 sha1 sha256 b64 v p with ⟨c, _, e⟩ | ⟨_, _, e⟩ | ⟨plan, _, hp, e⟩
  · rw [e] at hok; cases hok
  · rw [e] at hok; cases hok
  · rw [e] at hok hb
    obtain ⟨hlog, hsome⟩ := runSteps_ok v _ _ [] plan hok
    rw [hlog, List.nil_append] at hb
    rcases verify_cases md5 sha1 sha256 b64 v p' with ⟨c, _, e'⟩ | ⟨_, _, e'⟩ | ⟨plan', _, hp', e'⟩
    · rw [e']; simp
    · rw [e']; simp
    · rw [hsig, hp] at hp'
      simp only [Option.some.injEq] at hp'
      subst hp'
      rw [e']
      match plan, sigPlan_ne_nil hp, hsome, hp, hb with
      | none :: _, _, hs, _, _ => exact absurd (hs none List.mem_cons_self) (by simp)
      | some (s, g) :: rest, _, _, hp, hb =>
        have hrej : v [] (dataFor (writeHeader p'.md.header) p'.content g) s = false := by
          cases hv : v [] (dataFor (writeHeader p'.md.header) p'.content g) s
          · rfl
          · exact absurd (hb ⟨dataFor (writeHeader p.md.header) p.content g, s, true, g⟩
              (by simp [okConsult, List.flatMap_cons]) [] _ hv) (hfirst s g rest hp)
        rw [runSteps_first_rejected v _ _ s g rest hrej]
        simp

/-- verifier route for ANY signature-header shape: header bytes changed (and header ++ payload changed — relevant
only when the PGP tag is the first signature consulted) -/
theorem tamper_rejected_verifier (v : Verifier) (p p' : Package)
    (hsig : p'.md.signature = p.md.signature)
    (hok : (verifySignatureS md5 sha1 sha256 b64 v p).1 = .ok ())
    (hb : Binds v (verifySignatureS md5 sha1 sha256 b64 v p).2)
    (hne : writeHeader p'.md.header ≠ writeHeader p.md.header)
    (hne2 : writeHeader p'.md.header ++ p'.content ≠ writeHeader p.md.header ++ p.content) :
    (verifySignatureS md5 sha1 sha256 b64 v p').1 ≠ .ok () := by
  apply tamper_rejected_first md5 sha1 sha256 b64 v p p' hsig hok hb
  intro s g rest _
  cases g
  · exact hne
  · exact hne2

/-- **tampering with the header of a library-signed package is rejected**: `p` verified, `p'` carries the same
signature header but serialises to different main-header bytes. Under EITHER explicit hypothesis — SHA-256 does
not collide on the two header byte strings, OR the verifier accepts the signatures at hand only for the data they
were accepted with — verification of `p'` does not succeed. -/
theorem tamper_rejected (v : Verifier) (p p' : Package)
    (hlib : LibSigned p.md.signature)
    (hsig : p'.md.signature = p.md.signature)
    (hok : (verifySignatureS md5 sha1 sha256 b64 v p).1 = .ok ())
    (hne : writeHeader p'.md.header ≠ writeHeader p.md.header)
    (h : NoCollision sha256 (writeHeader p.md.header) (writeHeader p'.md.header) ∨
         Binds v (verifySignatureS md5 sha1 sha256 b64 v p).2) :
    (verifySignatureS md5 sha1 sha256 b64 v p').1 ≠ .ok () := by
  obtain ⟨sigs, d, hg, _, hd⟩ := hlib
  rcases h with hnc | hb
  · exact tamper_rejected_digest md5 sha1 sha256 b64 v v p p' d hsig hd hok hne hnc
  · apply tamper_rejected_first md5 sha1 sha256 b64 v p p' hsig hok hb
    intro s g rest hp
    have := sigPlan_openpgp hg hp s g List.mem_cons_self
    subst this
    exact hne

/-- **tampering with the payload is rejected** (digest route; the OPENPGP signatures cover the header, the header
records the payload digest): `p'` records the same payload digest as `p` (e.g. its header is unchanged) but has
different content -/
theorem tamper_rejected_payload (v v' : Verifier) (p p' : Package) (l : List Bytes) (a a' : Nat)
    (hl : getStringArray p.md.header IndexTag.RPMTAG_PAYLOADDIGEST = .ok l)
    (ha : getU32 p.md.header IndexTag.RPMTAG_PAYLOADDIGESTALGO = .ok a)
    (hl' : getStringArray p'.md.header IndexTag.RPMTAG_PAYLOADDIGEST = .ok l)
    (ha' : getU32 p'.md.header IndexTag.RPMTAG_PAYLOADDIGESTALGO = .ok a')
    (hok : (verifySignatureS md5 sha1 sha256 b64 v p).1 = .ok ())
    (hne : p'.content ≠ p.content)
    (hnc : NoCollision sha256 p.content p'.content) :
    (verifySignatureS md5 sha1 sha256 b64 v' p').1 ≠ .ok () := by
  intro hok'
  have h1 := verifyDigests_ok_payload (verify_ok_sound md5 sha1 sha256 b64 v p hok).2.2.2 hl ha
  have h2 := verifyDigests_ok_payload (verify_ok_sound md5 sha1 sha256 b64 v' p' hok').2.2.2 hl' ha'
  rw [h1] at h2
  simp only [Option.some.injEq] at h2
  exact hnc (fun e => hne e.symm) (hexLower_inj h2)

/-- payload change under the legacy header+payload signature (verifier route): no readable OPENPGP array, the PGP
tag readable, same header bytes, different content -/
theorem tamper_rejected_pgp_payload (v : Verifier) (p p' : Package) (s : Bytes)
    (hsig : p'.md.signature = p.md.signature)
    (hno : ∀ l, getStringArray p.md.signature SigTag.RPMSIGTAG_OPENPGP ≠ .ok l)
    (hpgp : getBinary p.md.signature SigTag.RPMSIGTAG_PGP = .ok s)
    (hok : (verifySignatureS md5 sha1 sha256 b64 v p).1 = .ok ())
    (hb : Binds v (verifySignatureS md5 sha1 sha256 b64 v p).2)
    (hsame : writeHeader p'.md.header = writeHeader p.md.header)
    (hne : p'.content ≠ p.content) :
    (verifySignatureS md5 sha1 sha256 b64 v p').1 ≠ .ok () := by
  intro hok'
  -- the PGP step is in the plan
  have hplan : ∀ plan, sigPlan b64 p.md.signature = some plan → some (s, true) ∈ plan := by
    intro plan hp
    unfold sigPlan at hp
    split at hp
    · rename_i sigs heq; exact absurd heq (hno sigs)
    · dsimp only at hp
      split at hp
      · cases hp
      · simp only [Option.some.injEq] at hp
        subst hp
        simp only [List.mem_map, List.mem_append]
        exact ⟨([], s, true), .inr (by simp [hpgp, stepOf]), rfl⟩
  rcases verify_cases md5 sha1 sha256 b64 v p with ⟨c, _, e⟩ | ⟨_, _, e⟩ | ⟨plan, _, hp, e⟩
  · rw [e] at hok; cases hok
  · rw [e] at hok; cases hok
  rw [e] at hok hb
  obtain ⟨hlog, _⟩ := runSteps_ok v _ _ [] plan hok
  rw [hlog, List.nil_append] at hb
  have hf := verify_log_faithful md5 sha1 sha256 b64 v p'
  rcases verify_cases md5 sha1 sha256 b64 v p' with ⟨c, _, e'⟩ | ⟨_, _, e'⟩ | ⟨plan', _, hp', e'⟩
  · rw [e'] at hok'; cases hok'
  · rw [e'] at hok'; cases hok'
  rw [hsig, hp] at hp'
  simp only [Option.some.injEq] at hp'
  subst hp'
  rw [e'] at hok' hf
  obtain ⟨hlog', _⟩ := runSteps_ok v _ _ [] plan hok'
  rw [hlog', List.nil_append] at hf
  have hmem := hplan plan hp
  have hc' : (⟨dataFor (writeHeader p'.md.header) p'.content true, s, true, true⟩ : Consult) ∈
      plan.flatMap (okConsult (writeHeader p'.md.header) p'.content) :=
    List.mem_flatMap.mpr ⟨_, hmem, by simp [okConsult]⟩
  have hc : (⟨dataFor (writeHeader p.md.header) p.content true, s, true, true⟩ : Consult) ∈
      plan.flatMap (okConsult (writeHeader p.md.header) p.content) :=
    List.mem_flatMap.mpr ⟨_, hmem, by simp [okConsult]⟩
  obtain ⟨pre, hv⟩ := hf.call _ hc'
  have := hb _ hc pre _ hv.symm
  simp only [dataFor, if_true, hsame] at this
  exact hne (List.append_cancel_left this)

/-! ## the model always passes the observer-level spec the driver applies to the implementation -/

def toSeen (c : Consult) : VerifySpec.Seen Bytes := ⟨c.data, c.sig, c.accepted⟩

/-- `excl` may be set only if the RPMSIGTAG_PGP binary cannot be mistaken for a header-only signature -/
def ExclOk (sig : Header) (excl : Bool) : Prop :=
  excl = true → ∀ s, getBinary sig SigTag.RPMSIGTAG_PGP = .ok s →
    (∀ l, getStringArray sig SigTag.RPMSIGTAG_OPENPGP ≠ .ok l) ∧
    getBinary sig SigTag.RPMSIGTAG_RSA ≠ .ok s ∧ getBinary sig SigTag.RPMSIGTAG_DSA ≠ .ok s

theorem model_satisfies_spec (v : Verifier) (p : Package) (excl : Bool) (hex : ExclOk p.md.signature excl)
    (h : (verifySignatureS md5 sha1 sha256 b64 v p).1 = .ok ()) :
    VerifySpec.successAllowed id (writeHeader p.md.header) p.content
      (getBinary p.md.signature SigTag.RPMSIGTAG_PGP).toOption excl
      (decide (verifyDigests md5 sha1 sha256 p = .ok ()))
      ((verifySignatureS md5 sha1 sha256 b64 v p).2.map toSeen) = true := by
  obtain ⟨h1, h2, _, h4⟩ := verify_ok_sound md5 sha1 sha256 b64 v p h
  have h3 := verify_data_right md5 sha1 sha256 b64 v p
  simp only [VerifySpec.successAllowed, Bool.and_eq_true, decide_eq_true_eq, Bool.not_eq_true',
    List.all_eq_true, List.mem_map, forall_exists_index, and_imp, forall_apply_eq_imp_iff₂]
  refine ⟨⟨⟨h4, ?_⟩, fun c hc => h2 c hc⟩, fun c hc => ?_⟩
  · cases hl : (verifySignatureS md5 sha1 sha256 b64 v p).2 with
    | nil => exact absurd hl h1
    | cons _ _ => rfl
  · rcases h3 c hc with ⟨_, hd, hsrc⟩ | ⟨_, hs, hd⟩
    · -- header-only consult
      cases hpg : getBinary p.md.signature SigTag.RPMSIGTAG_PGP with
      | ok s =>
        simp only [VerifySpec.dataRight, Out.toOption, toSeen, id, hd]
        by_cases hcs : c.sig = s
        · -- same bytes as the PGP binary: allowed because `excl` must be false
          have hexf : excl = false := by
            cases he : excl
            · rfl
            · obtain ⟨e1, e2, e3⟩ := hex he s hpg
              rcases hsrc with ⟨l, hl⟩ | hr | hd'
              · exact absurd hl (e1 l)
              · exact absurd (hcs ▸ hr) e2
              · exact absurd (hcs ▸ hd') e3
          simp [hcs, hexf]
        · simp [hcs]
      | err c' => simp [VerifySpec.dataRight, Out.toOption, toSeen, hd]
      | panic s' => simp [VerifySpec.dataRight, Out.toOption, toSeen, hd]
    · simp [VerifySpec.dataRight, toSeen, hd, hs, Out.toOption]

/-! ## rpm-rs's own `Verifier::verify` (key selection; every attempt over the whole data) -/

section pgp
variable {K : Type} (E : PgpEnv K) (ring : KeyRing K)

/-- the keys `Verifier::verify` may try for a signature: the primary key when the signature names no issuer;
otherwise the primary key or a subkey whose key id is among the signature's issuer ids -/
def Selected (sig : Bytes) (k : K) : Prop :=
  match E.issuers sig with
  | none => False
  | some [] => k = ring.primary
  | some ids => (k = ring.primary ∧ E.kid ring.primary ∈ ids) ∨ (k ∈ ring.subkeys ∧ E.kid k ∈ ids)

/-- **soundness of rpm-rs's verifier (full statement)**: success ⇒ some selected key of the ring passed the early
checks and its real cryptographic check accepted this signature over the FULL data -/
theorem pgp_verifier_sound (data sig : Bytes)
    (h : (pgpVerifierVerify E ring data sig).1 = .ok ()) :
    ∃ k, Selected E ring sig k ∧ E.early k sig = false ∧ E.check k data sig = true := by
  unfold pgpVerifierVerify at h
  unfold Selected
  cases hi : E.issuers sig with
  | none => rw [hi] at h; cases h
  | some ids =>
    rw [hi] at h
    cases ids with
    | nil =>
      simp only at h
      cases hr : (attempt E ring.primary data sig).1
      · simp [hr] at h
      · exact ⟨ring.primary, rfl, attempt_ok hr⟩
    | cons id ids =>
      simp only at h
      exact issuerLoop_ok E ring data sig (id :: ids) false [] h

/-- a signature packet that does not parse is an error (before anything is read) -/
theorem pgp_verifier_unparsable (data sig : Bytes) (h : E.issuers sig = none) :
    pgpVerifierVerify E ring data sig = (.err "nosig", []) := by
  unfold pgpVerifierVerify; rw [h]

end pgp

/-! ## `Verifier::parse_signature`: framing → the FIRST packet that parses as a signature (gap G3)

`Pgp.parseSignature P blob` (Model/PgpFraming.lean) is `split_packets(blob)?` followed by `find_map` over the packets with the
`pgp` crate's per-packet parser `P` as a PARAMETER. Everything below holds for EVERY parser and EVERY blob. -/

section parse
open RpmVerif.Pgp
variable {σ : Type} (P : Bytes → Option σ)

/-- **`NoSignatureFound` exactly when the framing is broken or no packet parses as a signature** -/
theorem parse_none_iff (blob : Bytes) :
    Pgp.parseSignature P blob = none ↔
      splitPackets blob = none ∨ ∃ ps, splitPackets blob = some ps ∧ ∀ p ∈ ps, P p = none := by
  unfold Pgp.parseSignature
  cases hs : splitPackets blob with
  | none => simp
  | some ps => simp [List.findSome?_eq_none_iff]

/-- **which signature it is**: the result is `s` exactly when the blob is well framed, `s` is what the parser makes of
some packet `p`, and NO packet before `p` parses as a signature — whatever comes after `p` -/
theorem parse_some_iff (blob : Bytes) (s : σ) :
    Pgp.parseSignature P blob = some s ↔
      ∃ pre p post, splitPackets blob = some (pre ++ p :: post) ∧ (∀ q ∈ pre, P q = none) ∧ P p = some s := by
  unfold Pgp.parseSignature
  cases hs : splitPackets blob with
  | none => simp
  | some ps =>
    simp only [List.findSome?_eq_some_iff, Option.some.injEq]
    constructor
    · rintro ⟨l1, a, l2, rfl, ha, hl⟩; exact ⟨l1, a, l2, rfl, hl, ha⟩
    · rintro ⟨l1, a, l2, rfl, hl, ha⟩; exact ⟨l1, a, l2, rfl, ha, hl⟩

/-- a blob that IS one packet (its header declares its whole length) which the parser reads as a signature: that
signature — what `Signer::sign` output must satisfy for `signature_key_ids` / `verify` / the builder to see it -/
theorem parse_of_single_packet {p : Bytes} {h b : Nat} {s : σ} (hl : packetLens p = some (h, b))
    (hlen : h + b = p.length) (hp : P p = some s) : Pgp.parseSignature P p = some s := by
  unfold Pgp.parseSignature
  rw [split_single hl hlen]
  simp [hp]

/-- a leading packet that does not parse as a signature (another packet type, or garbage in a well-formed frame) is
skipped SILENTLY: the result is that of the rest of the blob -/
theorem leading_packet_skipped {j rest : Bytes} {h b : Nat} (hl : packetLens (j ++ rest) = some (h, b))
    (hlen : h + b = j.length) (hj : P j = none) : Pgp.parseSignature P (j ++ rest) = Pgp.parseSignature P rest := by
  unfold Pgp.parseSignature
  rw [split_cons hl hlen]
  cases splitPackets rest with
  | none => rfl
  | some ps => simp [hj]

/-- **the packets behind the first signature packet are never looked at** (packet-list form): two blobs whose packet
lists agree up to and including the first packet that parses as a signature have the same result, and the parser is
called on exactly that common part — whatever follows (a second signature, other packets, any well-framed bytes) is
neither parsed nor authenticated by `verify`, `signature_key_ids` or the builder -/
theorem trailing_packets_ignored {blob blob' : Bytes} {pre post post' : List Bytes} {p : Bytes} {s : σ}
    (hb : splitPackets blob = some (pre ++ p :: post)) (hb' : splitPackets blob' = some (pre ++ p :: post'))
    (hpre : ∀ q ∈ pre, P q = none) (hp : P p = some s) :
    Pgp.parseSignature P blob = some s ∧ Pgp.parseSignature P blob' = some s
      ∧ parserCalls P blob = pre ++ [p] ∧ parserCalls P blob' = pre ++ [p] :=
  ⟨(parse_some_iff P blob s).mpr ⟨pre, p, post, hb, hpre, hp⟩, (parse_some_iff P blob' s).mpr ⟨pre, p, post', hb', hpre, hp⟩,
   by unfold parserCalls; rw [hb]; exact consulted_of_hit hpre hp,
   by unfold parserCalls; rw [hb']; exact consulted_of_hit hpre hp⟩

/-- … byte form, for a blob that starts with the signature packet: ANY well-framed tail leaves the result unchanged and
is never shown to the parser -/
theorem trailing_bytes_ignored {p tail : Bytes} {h b : Nat} {s : σ} (hl : packetLens (p ++ tail) = some (h, b))
    (hlen : h + b = p.length) (hp : P p = some s) (ht : (splitPackets tail).isSome = true) :
    Pgp.parseSignature P (p ++ tail) = some s ∧ parserCalls P (p ++ tail) = [p] := by
  obtain ⟨ts, hts⟩ := Option.isSome_iff_exists.mp ht
  have hs : splitPackets (p ++ tail) = some ([] ++ p :: ts) := by rw [split_cons hl hlen, hts]; rfl
  have := trailing_packets_ignored P hs hs (fun _ h => by cases h) hp
  exact ⟨this.1, this.2.2.1⟩

/-- … but the tail must be well framed: trailing bytes that are not a sequence of packets make the whole blob
`NoSignatureFound`, although the signature packet in front is intact -/
theorem trailing_garbage_refused {p tail : Bytes} {h b : Nat} (hl : packetLens (p ++ tail) = some (h, b))
    (hlen : h + b = p.length) (ht : splitPackets tail = none) : Pgp.parseSignature P (p ++ tail) = none := by
  unfold Pgp.parseSignature
  rw [split_cons hl hlen, ht]; rfl

end parse

section pgpParsed
open RpmVerif.Pgp
variable {K σ : Type} (E : PgpPkt K σ) (ring : KeyRing K)

/-- the keys `Verifier::verify` may try for a PARSED signature `s` (as `Selected`, on the signature packet) -/
def SelectedP (s : σ) (k : K) : Prop :=
  match E.issuers s with
  | [] => k = ring.primary
  | ids => (k = ring.primary ∧ E.kid ring.primary ∈ ids) ∨ (k ∈ ring.subkeys ∧ E.kid k ∈ ids)

/-- **soundness of rpm-rs's verifier down to the packet**: success ⇒ the blob is well framed, and the FIRST packet `p` the
`pgp` parser reads as a signature (no packet before it does) yields a signature `s` that some selected key of the ring
cryptographically accepts over the FULL data. The accepted signature is a function of `p`'s bytes alone. -/
theorem pgp_verifier_sound_parsed (data blob : Bytes) (h : (pgpVerifierVerifyP E ring data blob).1 = .ok ()) :
    ∃ pre p post s k, splitPackets blob = some (pre ++ p :: post) ∧ (∀ q ∈ pre, E.parsePkt q = none)
      ∧ E.parsePkt p = some s ∧ SelectedP E ring s k ∧ E.early k s = false ∧ E.check k data s = true := by
  unfold pgpVerifierVerifyP at h
  cases hp : Pgp.parseSignature E.parsePkt blob with
  | none => rw [hp] at h; cases h
  | some s =>
    rw [hp] at h
    obtain ⟨pre, p, post, hs, hpre, hpp⟩ := (parse_some_iff E.parsePkt blob s).mp hp
    obtain ⟨k, hsel, he, hc⟩ := pgp_verifier_sound (E.envAt s) ring data blob h
    refine ⟨pre, p, post, s, k, hs, hpre, hpp, ?_, he, hc⟩
    unfold Selected at hsel
    unfold SelectedP
    change (match some (E.issuers s) with
      | none => False
      | some [] => k = ring.primary
      | some ids => (k = ring.primary ∧ E.kid ring.primary ∈ ids) ∨ (k ∈ ring.subkeys ∧ E.kid k ∈ ids)) at hsel
    cases hi : E.issuers s with
    | nil => rw [hi] at hsel; exact hsel
    | cons i is => rw [hi] at hsel; exact hsel

/-- broken framing, or no packet that parses as a signature: `NoSignatureFound` before anything is read or tried -/
theorem pgp_verifier_no_signature (data blob : Bytes)
    (h : splitPackets blob = none ∨ ∃ ps, splitPackets blob = some ps ∧ ∀ p ∈ ps, E.parsePkt p = none) :
    pgpVerifierVerifyP E ring data blob = (.err "nosig", []) := by
  unfold pgpVerifierVerifyP
  rw [(parse_none_iff E.parsePkt blob).mpr h]

/-- **the verdict ignores everything behind the first signature packet**: same packets up to and including the first
one that parses as a signature ⇒ same verdict, same attempts -/
theorem pgp_verifier_ignores_trailing (data : Bytes) {blob blob' : Bytes} {pre post post' : List Bytes} {p : Bytes} {s : σ}
    (hb : splitPackets blob = some (pre ++ p :: post)) (hb' : splitPackets blob' = some (pre ++ p :: post'))
    (hpre : ∀ q ∈ pre, E.parsePkt q = none) (hp : E.parsePkt p = some s) :
    pgpVerifierVerifyP E ring data blob = pgpVerifierVerifyP E ring data blob' := by
  have := trailing_packets_ignored E.parsePkt hb hb' hpre hp
  exact pgpVerifierVerifyP_same_parse E ring data blob blob' (by rw [this.1, this.2.1])

/-- the packet-level model is the blob-level model (`pgpVerifierVerify`, all theorems above) at
`issuers := fun b => (parseSignature parsePkt b).map issuers` -/
theorem pgp_verifier_parsed_eq (data blob : Bytes) :
    pgpVerifierVerifyP E ring data blob = pgpVerifierVerify E.toEnv ring data blob :=
  pgpVerifierVerifyP_eq_toEnv E ring data blob

end pgpParsed

/-! ### the same composition inside a signature scheme (`signature_key_ids`, `SignatureHeaderBuilder::build`) -/
section scheme
open RpmVerif.Pgp RpmVerif.Sign

theorem withParser_framed (S : SigScheme) (P : PktParser) : (S.withParser P).Framed P := fun _ => rfl

/-- **`IssuerOk` from packet-level facts**: if `S.issuer` is `parse_signature` + `issuer()`, every signature the signer
emits is exactly one packet (its header declares its whole length), and the `pgp` parser reads that packet as a signature
whose issuer list is the signer's key id, then a fresh signature names exactly its signer — the hypothesis of C10's
`history_keyids`, reduced to facts about single packets -/
theorem issuerOk_of_single_packet (S : SigScheme) (P : PktParser) (hf : S.Framed P)
    (hone : ∀ k m t, ∃ h b, packetLens (S.sign k m t) = some (h, b) ∧ h + b = (S.sign k m t).length)
    (hparse : ∀ k m t, ∃ s, P.parsePkt (S.sign k m t) = some s ∧ P.issuers s = [S.keyId k]) : S.IssuerOk := by
  intro k m t
  obtain ⟨h, b, hl, hlen⟩ := hone k m t
  obtain ⟨s, hs, hi⟩ := hparse k m t
  rw [hf, framedIssuer, parse_of_single_packet P.parsePkt hl hlen hs, Option.map_some, hi]

/-- the builder's legacy tag for a one-packet signature: decided by that packet's public-key algorithm -/
theorem builderTag_of_single_packet (P : PktParser) {sig : Bytes} {h b : Nat} {s : P.σ} (tbl : List (Nat × Nat))
    (hl : packetLens sig = some (h, b)) (hlen : h + b = sig.length) (hs : P.parsePkt sig = some s) :
    builderTag P sig tbl = match tbl.lookup (P.pubAlg s) with | some tag => .ok tag | none => .err "keytype" := by
  unfold builderTag
  rw [parse_of_single_packet P.parsePkt hl hlen hs]
  rfl

/-- key ids and builder tag are functions of the first signature packet: what follows it changes neither -/
theorem scheme_ignores_trailing (P : PktParser) {blob blob' : Bytes} {pre post post' : List Bytes} {p : Bytes} {s : P.σ}
    (hb : splitPackets blob = some (pre ++ p :: post)) (hb' : splitPackets blob' = some (pre ++ p :: post'))
    (hpre : ∀ q ∈ pre, P.parsePkt q = none) (hp : P.parsePkt p = some s) (tbl : List (Nat × Nat)) :
    framedIssuer P blob = some (P.issuers s) ∧ framedIssuer P blob' = some (P.issuers s)
      ∧ builderTag P blob tbl = builderTag P blob' tbl := by
  have := trailing_packets_ignored P.parsePkt hb hb' hpre hp
  refine ⟨by rw [framedIssuer, this.1]; rfl, by rw [framedIssuer, this.2.1]; rfl, ?_⟩
  unfold builderTag; rw [this.1, this.2.1]

end scheme

/-! ## non-vacuity: concrete packages, hash functions and verifiers -/

section examples

/-- toy "hash": the length, as one byte -/
def hLen : Bytes → Bytes := fun b => [b.length.toUInt8]
/-- toy base64: identity on non-empty text, failure on the empty string -/
def b64Id : Bytes → Option Bytes := fun b => if b.isEmpty then none else some b

def mainHdr : Header := ⟨0, 0, [], []⟩
def mainHdr2 : Header := ⟨0, 1, [], [7]⟩

/-- signature header: OPENPGP = ["a", "b"] (STRING_ARRAY), RSA = bin [9] -/
def sigOpenpgp : Header :=
  ⟨2, 0, [⟨278, .strArray [[97], [98]], 0, 2⟩, ⟨268, .bin [9], 0, 1⟩], []⟩
/-- legacy only: DSA, RSA and PGP as binaries -/
def sigLegacy : Header :=
  ⟨3, 0, [⟨1002, .bin [3], 0, 1⟩, ⟨268, .bin [2], 0, 1⟩, ⟨267, .bin [1], 0, 1⟩], []⟩
/-- OPENPGP of the wrong type (binary) and nothing else -/
def sigWrongType : Header := ⟨1, 0, [⟨278, .bin [1], 0, 1⟩], []⟩
/-- OPENPGP with zero entries -/
def sigEmpty : Header := ⟨1, 0, [⟨278, .strArray [], 0, 0⟩, ⟨268, .bin [9], 0, 1⟩], []⟩

def lead0 : Lead := ⟨3, 0, 0, 0, [], 0, 5, []⟩
def pkg (sig hdr : Header) (content : Bytes) : Package := ⟨⟨lead0, sig, hdr⟩, content⟩

def acceptAll : Verifier := fun _ _ _ => true
/-- accepts the first consult only -/
def acceptFirst : Verifier := fun pre _ _ => pre.isEmpty

/-- success is reachable, with two consults over the header bytes (the RSA copy is not consulted) -/
example : verifySignatureS hLen hLen hLen b64Id acceptAll (pkg sigOpenpgp mainHdr [5]) =
    (.ok (), [⟨writeHeader mainHdr, [97], true, false⟩, ⟨writeHeader mainHdr, [98], true, false⟩]) := by decide +kernel

/-- the legacy branch consults DSA, RSA (header) and PGP (header ++ payload) in the code's order -/
example : verifySignatureS hLen hLen hLen b64Id acceptAll (pkg sigLegacy mainHdr [5]) =
    (.ok (), [⟨writeHeader mainHdr, [1], true, false⟩, ⟨writeHeader mainHdr, [2], true, false⟩,
      ⟨writeHeader mainHdr ++ [5], [3], true, true⟩]) := by decide +kernel

/-- a rejection ends the run: the second OPENPGP signature is rejected, the log stops there -/
example : verifySignatureS hLen hLen hLen b64Id acceptFirst (pkg sigOpenpgp mainHdr [5]) =
    (.err "verify", [⟨writeHeader mainHdr, [97], true, false⟩, ⟨writeHeader mainHdr, [98], false, false⟩]) := by
  decide +kernel

/-- the hypotheses of `verify_no_sig_is_error` are satisfiable both ways -/
example : verifySignatureS hLen hLen hLen b64Id acceptAll (pkg sigEmpty mainHdr [5]) = (.err "nosig", []) := by
  decide +kernel
example : verifySignatureS hLen hLen hLen b64Id acceptAll (pkg sigWrongType mainHdr [5]) = (.err "nosig", []) := by
  decide +kernel
example : getStringArray sigEmpty SigTag.RPMSIGTAG_OPENPGP = .ok [] := by decide +kernel

/-- library shape with a SHA256 digest under the toy hash: `writeHeader mainHdr` has 16 bytes → digest [16] → "10" -/
def sigLib : Header :=
  ⟨2, 0, [⟨278, .strArray [[97]], 0, 1⟩, ⟨273, .str [49, 48], 0, 1⟩], []⟩

example : LibSigned sigLib := ⟨[[97]], [49, 48], by decide +kernel, by decide, by decide +kernel⟩

/-- a verifier that binds: accepts signature "a" for the 16-byte header of `mainHdr` only -/
def vBind : Verifier := fun _ d s => decide (s = [97] ∧ d = writeHeader mainHdr)

example : (verifySignatureS hLen hLen hLen b64Id vBind (pkg sigLib mainHdr [5])).1 = .ok () := by decide +kernel

/-- the hypotheses of `tamper_rejected` are satisfiable: signed package `p`, tampered `p'` (one more store byte);
both routes apply here (the toy hash separates the two headers because their lengths differ) -/
example : (verifySignatureS hLen hLen hLen b64Id vBind (pkg sigLib mainHdr2 [5])).1 ≠ .ok () :=
  tamper_rejected hLen hLen hLen b64Id vBind (pkg sigLib mainHdr [5]) (pkg sigLib mainHdr2 [5])
    ⟨[[97]], [49, 48], by decide +kernel, by decide, by decide +kernel⟩ rfl (by decide +kernel) (by decide +kernel)
    (.inl (fun _ => by decide +kernel))

example : Binds vBind (verifySignatureS hLen hLen hLen b64Id vBind (pkg sigLib mainHdr [5])).2 := by
  intro c hc pre d hv
  have e : (verifySignatureS hLen hLen hLen b64Id vBind (pkg sigLib mainHdr [5])).2 =
      [⟨writeHeader mainHdr, [97], true, false⟩] := by decide +kernel
  rw [e] at hc
  simp only [List.mem_singleton] at hc
  subst hc
  simp only [vBind, decide_eq_true_eq] at hv
  exact hv.2

/-- and what happens WITHOUT them: with a colliding hash (constant) and a verifier that does not bind, the
tampered package verifies — the hypotheses of `tamper_rejected` are not decoration -/
example : (verifySignatureS (fun _ => [16]) (fun _ => [16]) (fun _ => [16]) b64Id acceptAll (pkg sigLib mainHdr2 [5])).1 = .ok () := by
  decide +kernel

/-! ### `Verifier::verify` -/

/-- keys are numbers; key id = key mod 10 -/
def envEmpty : PgpEnv Nat where
  kid := fun k => k % 10
  issuers := fun sig => if sig = [0] then none else some (sig.map UInt8.toNat)
  early := fun _ _ => false
  /- key 17's "signature" checks only over the EMPTY message; nobody accepts anything else -/
  check := fun k d _ => k == 17 && d.isEmpty

/-- a sound run: the primary key really accepts the full data -/
def envGood : PgpEnv Nat where
  kid := fun k => k % 10
  issuers := fun sig => some (sig.map UInt8.toNat)
  early := fun _ _ => false
  check := fun k d _ => (k == 3 || k == 17) && d == [1, 2, 3]

example : (pgpVerifierVerify envGood ⟨3, [17]⟩ [1, 2, 3] [3]).1 = .ok () := by decide +kernel
example : (pgpVerifierVerify envGood ⟨3, [17]⟩ [1, 2, 3] [7, 7]).1 = .ok () := by decide +kernel
example : (pgpVerifierVerify envGood ⟨3, [17]⟩ [1, 2, 3] []).1 = .ok () := by decide +kernel
example : (pgpVerifierVerify envGood ⟨3, [17]⟩ [1, 2, 4] [3]).1 = .err "verify" := by decide +kernel
example : (pgpVerifierVerify envGood ⟨3, [17]⟩ [1, 2, 3] [5]).1 = .err "keynotfound" := by decide +kernel
/-- a failing subkey before the right one: the second attempt sees the full data and accepts -/
example : ((pgpVerifierVerify envGood ⟨3, [27, 17]⟩ [1, 2, 3] [7]).2.map fun a => (a.key, a.seen, a.ok)) =
    [(27, [1, 2, 3], false), (17, [1, 2, 3], true)] := by decide +kernel

/-- the inputs of the two old witnesses are REJECTED by the code as it is now -/
example : (pgpVerifierVerify envEmpty ⟨3, [17]⟩ [1, 2, 3] [7, 7]).1 = .err "verify"
    ∧ (pgpVerifierVerify envEmpty ⟨3, [27, 17]⟩ [1, 2, 3] [7]).1 = .err "verify" := by decide +kernel

/-! ### the defect repaired by c25de51 (about `pgpVerifierVerifyOld`, the code before that commit)

Before c25de51 the subkeys were tried with `signature.verify(sub_key, &mut data)` on ONE shared reader: the first
attempt that got as far as hashing consumed it, every later attempt verified over the empty remainder. A
signature made by a subkey over the EMPTY message, with its issuer id listed twice (the second Issuer subpacket
can sit in the unhashed area, which the signature does not cover), was therefore accepted for ANY data — confirmed
on the real code with the subkey of /repo/test_assets/secret_key.asc (regression case
`vobs rsa_test subkey-signed-empty-message-issuer-twice`). -/

/-- **old witness 1 (repeated issuer id)**: primary 3, one subkey 17 (key id 7), issuers [7, 7]: the old code returns
Ok although NO key of the ring accepts the data `[1,2,3]`; the accepting attempt saw the empty string -/
theorem old_verifier_repeated_issuer_witness :
    (pgpVerifierVerifyOld envEmpty ⟨3, [17]⟩ [1, 2, 3] [7, 7]).1 = .ok ()
    ∧ (∀ k ∈ [3, 17], envEmpty.check k [1, 2, 3] [7, 7] = false)
    ∧ ((pgpVerifierVerifyOld envEmpty ⟨3, [17]⟩ [1, 2, 3] [7, 7]).2.map fun a => (a.key, a.seen, a.ok)) =
        [(17, [1, 2, 3], false), (17, [], true)] := by decide +kernel

/-- **old witness 2 (two subkeys with the same key id)**: the second matching subkey saw the empty remainder -/
theorem old_verifier_same_id_subkeys_witness :
    (pgpVerifierVerifyOld envEmpty ⟨3, [27, 17]⟩ [1, 2, 3] [7]).1 = .ok ()
    ∧ (∀ k ∈ [3, 27, 17], envEmpty.check k [1, 2, 3] [7] = false)
    ∧ ((pgpVerifierVerifyOld envEmpty ⟨3, [27, 17]⟩ [1, 2, 3] [7]).2.map fun a => (a.key, a.seen, a.ok)) =
        [(27, [1, 2, 3], false), (17, [], true)] := by decide +kernel

/-! ### `parse_signature` (G3): a toy packet parser

A "signature" is an old-format tag-2 packet with a one-octet length (`88 <len> <body>`); the parsed value is the body,
read as the list of issuer key ids. `b4 …` is a user-id packet, `88 …` with the wrong length byte does not frame. -/

def toyParse : Bytes → Option (List Nat)
  | 0x88 :: _ :: body => some (body.map UInt8.toNat)
  | _ => none

/-- keys are numbers, key id = key mod 10; keys 3 and 17 accept every signature except the one naming issuer 9, over the
data `[1,2,3]` only -/
def envPkt : PgpPkt Nat (List Nat) where
  kid := fun k => k % 10
  parsePkt := toyParse
  issuers := fun s => s
  early := fun _ _ => false
  check := fun k d s => (k == 3 || k == 17) && d == [1, 2, 3] && s != [9]

/-- `[user-id][signature by 3]`: the junk packet in front is skipped, the signature verifies -/
example : (pgpVerifierVerifyP envPkt ⟨3, [17]⟩ [1, 2, 3] [0xb4, 1, 0x61, 0x88, 1, 3]).1 = .ok () := by decide +kernel
/-- `[signature naming 5][signature by 3]`: the FIRST signature decides — key 5 is not in the ring -/
example : (pgpVerifierVerifyP envPkt ⟨3, [17]⟩ [1, 2, 3] [0x88, 1, 5, 0x88, 1, 3]).1 = .err "keynotfound" := by
  decide +kernel
/-- the other data: rejected -/
example : (pgpVerifierVerifyP envPkt ⟨3, [17]⟩ [1, 2, 4] [0x88, 1, 3]).1 = .err "verify" := by decide +kernel
/-- both ways into `NoSignatureFound` (hypotheses of `parse_none_iff` / `pgp_verifier_no_signature`): broken framing
behind an intact signature packet, and a well-framed blob without any signature packet -/
example : Pgp.splitPackets [0x88, 1, 3, 0x00] = none
    ∧ (pgpVerifierVerifyP envPkt ⟨3, [17]⟩ [1, 2, 3] [0x88, 1, 3, 0x00]).1 = .err "nosig"
    ∧ Pgp.splitPackets [0xb4, 1, 0x61, 0xca, 0] = some [[0xb4, 1, 0x61], [0xca, 0]]
    ∧ (pgpVerifierVerifyP envPkt ⟨3, [17]⟩ [1, 2, 3] [0xb4, 1, 0x61, 0xca, 0]).1 = .err "nosig" := by decide +kernel
/-- hypotheses of `parse_of_single_packet` / `trailing_bytes_ignored` / `leading_packet_skipped` are satisfiable -/
example : Pgp.packetLens [0x88, 1, 3] = some (2, 1) ∧ toyParse [0x88, 1, 3] = some [3]
    ∧ Pgp.packetLens ([0x88, 1, 3] ++ [0xb4, 0]) = some (2, 1) ∧ (Pgp.splitPackets [0xb4, 0]).isSome = true
    ∧ Pgp.packetLens ([0xb4, 1, 0x61] ++ [0x88, 1, 3]) = some (2, 1) ∧ toyParse [0xb4, 1, 0x61] = none := by decide

/-- **trailing packets are ignored — witness**: the signature by key 3, alone, followed by a signature NOBODY accepts
(issuer 9: `check` refuses it for every key), followed by a user-id packet: the same verdict `Ok` and the same single
attempt each time — and the parser never saw the trailing packet. What follows the first signature packet of a
signature blob is neither verified nor reported by `signature_key_ids`. -/
theorem trailing_packets_witness :
    (pgpVerifierVerifyP envPkt ⟨3, [17]⟩ [1, 2, 3] [0x88, 1, 3]).1 = .ok ()
    ∧ (pgpVerifierVerifyP envPkt ⟨3, [17]⟩ [1, 2, 3] [0x88, 1, 3, 0x88, 1, 9]).1 = .ok ()
    ∧ (pgpVerifierVerifyP envPkt ⟨3, [17]⟩ [1, 2, 3] [0x88, 1, 3, 0xb4, 1, 0x61]).1 = .ok ()
    ∧ Pgp.parserCalls toyParse [0x88, 1, 3, 0x88, 1, 9] = [[0x88, 1, 3]]
    ∧ (∀ k ∈ [3, 17], envPkt.check k [1, 2, 3] [9] = false)
    -- the same two signatures in the other order: rejected (issuer 9 selects no key)
    ∧ (pgpVerifierVerifyP envPkt ⟨3, [17]⟩ [1, 2, 3] [0x88, 1, 9, 0x88, 1, 3]).1 = .err "keynotfound" := by
  decide +kernel

/-- a toy scheme over the toy parser: key `k` signs with the one-packet blob `88 01 k`; key id = `[k]` -/
def toyPkt : Sign.PktParser where
  σ := Bytes
  parsePkt := fun p => match p with | 0x88 :: _ :: body => some body | _ => none
  issuers := fun s => [s]
  pubAlg := fun s => (s.headD 0).toNat

def toyScheme : Sign.SigScheme :=
  Sign.SigScheme.withParser
    { Key := UInt8, decEq := inferInstance, sign := fun k _ _ => [0x88, 1, k], verify := fun _ _ _ => false,
      issuer := fun _ => none, keyId := fun k => [k], legacyTag := fun _ => 268, b64enc := id, b64dec := some } toyPkt

/-- the hypotheses of `issuerOk_of_single_packet` hold for it, so it yields `IssuerOk` -/
example : toyScheme.IssuerOk :=
  issuerOk_of_single_packet toyScheme toyPkt (withParser_framed _ _)
    (fun _ _ _ => ⟨2, 1, rfl, rfl⟩) (fun k _ _ => ⟨[k], rfl, rfl⟩)

/-- the builder's tag is that of the FIRST signature: `[alg 22][alg 1]` → DSA tag, `[alg 1][alg 22]` → RSA tag, an
algorithm outside the table → error, no signature packet → `NoSignatureFound` -/
example : Sign.builderTag toyPkt [0x88, 1, 22, 0x88, 1, 1] = .ok SigTag.RPMSIGTAG_DSA
    ∧ Sign.builderTag toyPkt [0x88, 1, 1, 0x88, 1, 22] = .ok SigTag.RPMSIGTAG_RSA
    ∧ Sign.builderTag toyPkt [0x88, 1, 17] = .err "keytype"
    ∧ Sign.builderTag toyPkt [0xb4, 1, 0x61] = .err "nosig" := by decide +kernel

end examples

/-! ### the signature tags of the CODE are rpm's -/

/-- the whole signature-header tag table scraped from src/constants.rs carries the numbers of rpm's `rpmtag.h`
(RPMSIGTAG_DSA 267, RSA 268, OPENPGP 278, PGP 1002, GPG 1005; the size and digest tags): a signature looked up under
another number is "absent" on every package rpm signed, and a signature stored under another number is one rpm ignores -/
theorem signature_tags_standard :
    Gen.sigTagTable = [("HEADER_SIGNATURES", 62), ("RPMSIGTAG_SIZE", 1000), ("RPMSIGTAG_PAYLOADSIZE", 1007), ("RPMSIGTAG_SHA1", 269),
      ("RPMSIGTAG_MD5", 1004), ("RPMSIGTAG_DSA", 267), ("RPMSIGTAG_RSA", 268), ("RPMSIGTAG_LONGSIZE", 270),
      ("RPMSIGTAG_LONGARCHIVESIZE", 271), ("RPMSIGTAG_FILESIGNATURES", 274), ("RPMSIGTAG_FILESIGNATURE_LENGTH", 275),
      ("RPMSIGTAG_VERITYSIGNATURES", 276), ("RPMSIGTAG_VERITYSIGNATUREALGO", 277), ("RPMSIGTAG_OPENPGP", 278),
      ("RPMSIGTAG_PGP", 1002), ("RPMSIGTAG_GPG", 1005), ("RPMSIGTAG_SHA256", 273), ("RPMTAG_INSTALLTIME", 1008)]
    ∧ SigTag.RPMSIGTAG_DSA = 267 ∧ SigTag.RPMSIGTAG_RSA = 268 ∧ SigTag.RPMSIGTAG_OPENPGP = 278
    ∧ SigTag.RPMSIGTAG_PGP = 1002 ∧ SigTag.RPMSIGTAG_GPG = 1005 ∧ SigTag.HEADER_SIGNATURES = 62
    ∧ IndexTag.RPMTAG_HEADERIMMUTABLE = 63 := by decide

end RpmVerif.C02
