import RpmVerif.Lemmas.Sign
import RpmVerif.Props.C16
/-!
# C10 — after any signing history a package verifies with exactly the last signer's key

For EVERY signature scheme `S` satisfying the named hypotheses (`Correct`, `Binds`, `IssuerOk`, `B64`,
`LegacyOk`), EVERY hash functions, EVERY well-formed start package `p0` (every parsed package is one:
`C16.parsed_wf`; every built one: `C06.build_reparse`) and EVERY operation list `ops` of any length over
{sign with any key at any time, clear, write + re-parse}:

* `run_total`        the history never fails, and its result is determined by the start package and the
                     *signature state* `stateAfter .initial ops` (initial / cleared / signed k t) alone;
* `history_bytes`    main header, lead and payload are those of the start package (so are their serialised bytes);
* `history_wf`, `writeParse_id`   every reachable state is well formed, hence write + re-parse is the identity on it;
  `first_op_wf`, `run_total_any`   (once the first operation is a sign / clear, NOTHING is assumed about the start
                     package's signature header: it may even be ill formed);
* `history_digests`  after at least one sign or clear `verify_digests` succeeds — the fresh SHA256 is the only
                     digest recorded in the signature header; the payload digest tags live in the untouched main header
                     (hypothesis `PayloadDigestOk p0`); before any sign / clear the package IS the start package;
* `history_verify`   if `k` signed most recently with no clear since: `verify_signature` with key `k'` succeeds ⇔ `k' = k`;
  `history_verify_none`  after a clear (or never signed, starting from an unsigned package) no key verifies;
* `history_keyids`   if `k` signed most recently with no clear since, `signature_key_ids` = exactly `[keyId k]`;
  `history_keyids_cleared`  after a clear it is an error (`NoSignatureFound`).

What is assumed is explicit: the `SigScheme` laws, `SigRecsOk` (base64 text is NUL-free UTF-8, sizes fit the
header format), `PayloadDigestOk p0`.
-/
namespace RpmVerif.C10
open RpmVerif.Hdr RpmVerif.Gen RpmVerif.Digest RpmVerif.Sign

variable {S : SigScheme} {md5 sha1 sha256 : Bytes → Bytes}

/-- the signature header a signature state stands for, relative to the start package -/
def sigFor (S : SigScheme) (sha256 : Bytes → Bytes) (p0 : Package) : SigState S.Key → Header
  | .initial => p0.md.signature
  | .cleared => clearedSig sha256 (writeHeader p0.md.header)
  | .signed k t => signedSig S sha256 k t (writeHeader p0.md.header)

/-- the package a signature state stands for: everything but the signature header is the start package's -/
def stateOf (S : SigScheme) (sha256 : Bytes → Bytes) (p0 : Package) (s : SigState S.Key) : Package :=
  ⟨⟨p0.md.lead, sigFor S sha256 p0 s, p0.md.header⟩, p0.content⟩

theorem stateOf_initial (p0 : Package) : stateOf S sha256 p0 .initial = p0 := rfl

/-- the payload-digest block of `verify_digests` accepts the start package (it reads the main header and the
payload only, which no operation touches) -/
def PayloadDigestOk (sha256 : Bytes → Bytes) (p0 : Package) : Prop := checkPayload sha256 p0 = .ok ()

/-- the start package carries nothing `verify_signature` would look at -/
def Unsigned (h : Header) : Prop :=
  (∀ l, getStringArray h SigTag.RPMSIGTAG_OPENPGP ≠ .ok l) ∧ (getBinary h SigTag.RPMSIGTAG_RSA).isOk = false
  ∧ (getBinary h SigTag.RPMSIGTAG_DSA).isOk = false ∧ (getBinary h SigTag.RPMSIGTAG_PGP).isOk = false

/-! ### write + re-parse is the identity on well-formed packages -/

theorem writeParse_id {p : Package} (wf : MetadataWF p.md) : writeParse p = .ok p := by
  simp only [writeParse, writePackage, parsePackage, writeMetadata_eq]
  rw [parseMetadata_write wf rfl (by simp) rfl]
  rfl

/-- every state is well formed when the start package is -/
theorem stateOf_wf {p0 : Package} (hl : S.LegacyOk) (wf : MetadataWF p0.md)
    (ok : SigRecsOk S sha256 (writeHeader p0.md.header)) (s : SigState S.Key) :
    MetadataWF (stateOf S sha256 p0 s).md := by
  refine ⟨wf.lead, ?_, wf.hdr⟩
  cases s with
  | initial => exact wf.sig
  | cleared => exact clearedSig_wf ok
  | signed k t => exact signedSig_wf hl ok k t

/-- after a sign or a clear the package is well formed WHATEVER the previous signature header was -/
theorem first_op_wf {p0 : Package} (hl : S.LegacyOk) (wl : LeadWF p0.md.lead) (wh : HeaderWF p0.md.header)
    (ok : SigRecsOk S sha256 (writeHeader p0.md.header)) :
    (∀ k t, MetadataWF (signOp S sha256 k t p0).md) ∧ MetadataWF (clearOp sha256 p0).md :=
  ⟨fun k t => ⟨wl, signedSig_wf hl ok k t, wh⟩, ⟨wl, clearedSig_wf ok, wh⟩⟩

/-! ### the history, as a function of the signature state -/

theorem step_stateOf {p0 : Package} (hl : S.LegacyOk) (wf : MetadataWF p0.md)
    (ok : SigRecsOk S sha256 (writeHeader p0.md.header)) (s : SigState S.Key) (o : Op S.Key) :
    step S sha256 o (stateOf S sha256 p0 s) = .ok (stateOf S sha256 p0 (s.after o)) := by
  cases o with
  | sign k t => rfl
  | clear => rfl
  | writeParse => exact writeParse_id (stateOf_wf hl wf ok s)

theorem run_stateOf {p0 : Package} (hl : S.LegacyOk) (wf : MetadataWF p0.md)
    (ok : SigRecsOk S sha256 (writeHeader p0.md.header)) (ops : List (Op S.Key)) (s : SigState S.Key) :
    run S sha256 ops (stateOf S sha256 p0 s) = .ok (stateOf S sha256 p0 (stateAfter s ops)) := by
  induction ops generalizing s with
  | nil => rfl
  | cons o os ih =>
    simp only [run, step_stateOf hl wf ok s o, Out.bind_ok]
    exact ih (s.after o)

/-- **no history fails**, and the result is the start package with the signature header of the final
signature state -/
theorem run_total {p0 : Package} (hl : S.LegacyOk) (wf : MetadataWF p0.md)
    (ok : SigRecsOk S sha256 (writeHeader p0.md.header)) (ops : List (Op S.Key)) :
    run S sha256 ops p0 = .ok (stateOf S sha256 p0 (stateAfter .initial ops)) :=
  run_stateOf hl wf ok ops .initial

/-! the same from ANY start package with a well-formed lead and main header — its signature header may be anything,
even ill formed — as soon as the history begins with a sign or a clear -/

theorem after_ne_initial {K : Type} (s : SigState K) (o : Op K) (h : s ≠ .initial) : s.after o ≠ .initial := by
  cases o <;> simp [SigState.after, h]

theorem stateOf_wf_touched {p0 : Package} (hl : S.LegacyOk) (wl : LeadWF p0.md.lead) (wh : HeaderWF p0.md.header)
    (ok : SigRecsOk S sha256 (writeHeader p0.md.header)) (s : SigState S.Key) (hs : s ≠ .initial) :
    MetadataWF (stateOf S sha256 p0 s).md := by
  refine ⟨wl, ?_, wh⟩
  cases s with
  | initial => exact absurd rfl hs
  | cleared => exact clearedSig_wf ok
  | signed k t => exact signedSig_wf hl ok k t

theorem run_stateOf_touched {p0 : Package} (hl : S.LegacyOk) (wl : LeadWF p0.md.lead) (wh : HeaderWF p0.md.header)
    (ok : SigRecsOk S sha256 (writeHeader p0.md.header)) (ops : List (Op S.Key)) (s : SigState S.Key) (hs : s ≠ .initial) :
    run S sha256 ops (stateOf S sha256 p0 s) = .ok (stateOf S sha256 p0 (stateAfter s ops)) := by
  induction ops generalizing s with
  | nil => rfl
  | cons o os ih =>
    have hstep : step S sha256 o (stateOf S sha256 p0 s) = .ok (stateOf S sha256 p0 (s.after o)) := by
      cases o with
      | sign k t => rfl
      | clear => rfl
      | writeParse => exact writeParse_id (stateOf_wf_touched hl wl wh ok s hs)
    simp only [run, hstep, Out.bind_ok]
    exact ih (s.after o) (after_ne_initial s o hs)

/-- **no assumption on the start package's signature header** once the first operation is a sign or a clear: the
history never fails and ends in the state the theorems below describe (`verify_signed`, `verify_cleared`,
`digests_signed`, `digests_cleared` speak about `stateOf` directly) -/
theorem run_total_any {p0 : Package} (hl : S.LegacyOk) (wl : LeadWF p0.md.lead) (wh : HeaderWF p0.md.header)
    (ok : SigRecsOk S sha256 (writeHeader p0.md.header)) (o : Op S.Key) (ho : (SigState.initial).after o ≠ .initial)
    (os : List (Op S.Key)) :
    run S sha256 (o :: os) p0 = .ok (stateOf S sha256 p0 (stateAfter .initial (o :: os))) := by
  have hstep : step S sha256 o p0 = .ok (stateOf S sha256 p0 ((SigState.initial).after o)) := by
    cases o with
    | sign k t => rfl
    | clear => rfl
    | writeParse => exact absurd rfl ho
  simp only [run, hstep, Out.bind_ok]
  exact run_stateOf_touched hl wl wh ok os _ ho

/-- **main header, lead and payload are untouched** — as values and as serialised bytes -/
theorem history_bytes {p0 p : Package} (hl : S.LegacyOk) (wf : MetadataWF p0.md)
    (ok : SigRecsOk S sha256 (writeHeader p0.md.header)) (ops : List (Op S.Key))
    (h : run S sha256 ops p0 = .ok p) :
    writeHeader p.md.header = writeHeader p0.md.header ∧ p.content = p0.content
    ∧ p.md.header = p0.md.header ∧ p.md.lead = p0.md.lead := by
  rw [run_total hl wf ok ops] at h
  cases h
  exact ⟨rfl, rfl, rfl, rfl⟩

/-- **every reachable state is well formed** -/
theorem history_wf {p0 p : Package} (hl : S.LegacyOk) (wf : MetadataWF p0.md)
    (ok : SigRecsOk S sha256 (writeHeader p0.md.header)) (ops : List (Op S.Key))
    (h : run S sha256 ops p0 = .ok p) : MetadataWF p.md := by
  rw [run_total hl wf ok ops] at h
  cases h
  exact stateOf_wf hl wf ok _

/-- … hence write + re-parse changes nothing after any history -/
theorem history_writeParse {p0 p : Package} (hl : S.LegacyOk) (wf : MetadataWF p0.md)
    (ok : SigRecsOk S sha256 (writeHeader p0.md.header)) (ops : List (Op S.Key))
    (h : run S sha256 ops p0 = .ok p) : writeParse p = .ok p :=
  writeParse_id (history_wf hl wf ok ops h)

/-- before any sign / clear the package is the start package itself (whatever held of it still holds) -/
theorem history_initial {p0 p : Package} (hl : S.LegacyOk) (wf : MetadataWF p0.md)
    (ok : SigRecsOk S sha256 (writeHeader p0.md.header)) (ops : List (Op S.Key))
    (hs : stateAfter .initial ops = .initial) (h : run S sha256 ops p0 = .ok p) : p = p0 := by
  rw [run_total hl wf ok ops, hs] at h
  cases h
  rfl

/-! ### digests -/

theorem checkDeclared_notfound (c : Bytes) : checkDeclared (.err "notfound") c = .ok () := rfl
theorem checkDeclared_same (c : Bytes) : checkDeclared (.ok c) c = .ok () := by simp [checkDeclared]

theorem digests_signed {p0 : Package} (hl : S.LegacyOk) (hp : PayloadDigestOk sha256 p0) (k : S.Key) (t : Nat) :
    verifyDigests md5 sha1 sha256 (stateOf S sha256 p0 (.signed k t)) = .ok () := by
  have e1 : getBinary (stateOf S sha256 p0 (.signed k t)).md.signature SigTag.RPMSIGTAG_MD5 = .err "notfound" :=
    signed_absent sha256 hl k t _ IndexData.asBinary _ (by decide) (by decide) (by decide) (by decide) (by decide)
  have e2 : getString (stateOf S sha256 p0 (.signed k t)).md.signature SigTag.RPMSIGTAG_SHA1 = .err "notfound" :=
    signed_absent sha256 hl k t _ IndexData.asStr _ (by decide) (by decide) (by decide) (by decide) (by decide)
  have e3 : getString (stateOf S sha256 p0 (.signed k t)).md.signature SigTag.RPMSIGTAG_SHA256
      = .ok (hexLower (sha256 (writeHeader p0.md.header))) := signed_sha256 sha256 hl k t _
  have e4 : checkPayload sha256 (stateOf S sha256 p0 (.signed k t)) = .ok () := hp
  simp only [verifyDigests, e1, e2, e3, e4]
  simp only [stateOf, checkDeclared_notfound, checkDeclared_same, Out.bind_ok]

theorem digests_cleared {p0 : Package} (hp : PayloadDigestOk sha256 p0) :
    verifyDigests md5 sha1 sha256 (stateOf S sha256 p0 .cleared) = .ok () := by
  have e1 : getBinary (stateOf S sha256 p0 .cleared).md.signature SigTag.RPMSIGTAG_MD5 = .err "notfound" :=
    cleared_absent sha256 _ IndexData.asBinary _ (by decide) (by decide)
  have e2 : getString (stateOf S sha256 p0 .cleared).md.signature SigTag.RPMSIGTAG_SHA1 = .err "notfound" :=
    cleared_absent sha256 _ IndexData.asStr _ (by decide) (by decide)
  have e3 : getString (stateOf S sha256 p0 .cleared).md.signature SigTag.RPMSIGTAG_SHA256
      = .ok (hexLower (sha256 (writeHeader p0.md.header))) := cleared_sha256 sha256 _
  have e4 : checkPayload sha256 (stateOf S sha256 p0 .cleared) = .ok () := hp
  simp only [verifyDigests, e1, e2, e3, e4]
  simp only [stateOf, checkDeclared_notfound, checkDeclared_same, Out.bind_ok]

/-- **digests still verify**: after at least one sign or clear, for ANY md5 / sha1 functions and the sha256 the
operations used, provided the start package's payload digest was fine -/
theorem history_digests {p0 p : Package} (hl : S.LegacyOk) (wf : MetadataWF p0.md)
    (ok : SigRecsOk S sha256 (writeHeader p0.md.header)) (hp : PayloadDigestOk sha256 p0) (ops : List (Op S.Key))
    (hs : stateAfter .initial ops ≠ .initial) (h : run S sha256 ops p0 = .ok p) :
    verifyDigests md5 sha1 sha256 p = .ok () := by
  rw [run_total hl wf ok ops] at h
  cases h
  cases hst : stateAfter (SigState.initial (K := S.Key)) ops with
  | initial => exact absurd hst hs
  | cleared => exact digests_cleared hp
  | signed k t => exact digests_signed hl hp k t

/-! ### signature verification -/

theorem signer_some {K : Type} {s : SigState K} {k : K} (h : s.signer = some k) : ∃ t, s = .signed k t := by
  cases s with
  | signed k' t => simp only [SigState.signer, Option.some.injEq] at h; subst h; exact ⟨t, rfl⟩
  | initial => cases h
  | cleared => cases h

theorem signer_none {K : Type} {s : SigState K} (h : s.signer = none) : s = .initial ∨ s = .cleared := by
  cases s with
  | signed k' t => cases h
  | initial => exact .inl rfl
  | cleared => exact .inr rfl

/-- on a state signed by `k`, `verify_signature` with key `k'` is `verify k' header (sign k header t)` -/
theorem verify_signed {p0 : Package} (hl : S.LegacyOk) (hb64 : S.B64) (hp : PayloadDigestOk sha256 p0)
    (k k' : S.Key) (t : Nat) :
    verifyWith S md5 sha1 sha256 k' (stateOf S sha256 p0 (.signed k t)) =
      if S.verify k' (writeHeader p0.md.header) (S.sign k (writeHeader p0.md.header) t) then .ok () else .err "verify" := by
  have e : getStringArray (stateOf S sha256 p0 (.signed k t)).md.signature SigTag.RPMSIGTAG_OPENPGP
      = .ok [S.b64enc (S.sign k (writeHeader p0.md.header) t)] := signed_openpgp sha256 hl k t _
  simp only [verifyWith, digests_signed hl hp k t, Out.bind_ok, e]
  simp only [List.isEmpty_cons, Bool.false_eq_true, if_false, verifyAll, hb64 _, stateOf]
  split <;> simp_all

/-- **exactly the last signer's key verifies** -/
theorem history_verify {p0 p : Package} (hl : S.LegacyOk) (hc : S.Correct) (hbind : S.Binds) (hb64 : S.B64)
    (wf : MetadataWF p0.md) (ok : SigRecsOk S sha256 (writeHeader p0.md.header)) (hp : PayloadDigestOk sha256 p0)
    (ops : List (Op S.Key)) (k : S.Key) (hs : lastSigner ops = some k) (h : run S sha256 ops p0 = .ok p) (k' : S.Key) :
    verifyWith S md5 sha1 sha256 k' p = .ok () ↔ k' = k := by
  rw [run_total hl wf ok ops] at h
  cases h
  obtain ⟨t, hst⟩ := signer_some hs
  rw [hst, verify_signed hl hb64 hp]
  constructor
  · intro hv
    split at hv
    · rename_i hver; exact (hbind _ _ _ _ _ hver).1
    · cases hv
  · rintro rfl
    rw [hc]; rfl

theorem bind_err_ne_ok {α β} (x : Out α) (c : String) (b : β) : (x >>= fun _ => (Out.err c : Out β)) ≠ .ok b := by
  cases x <;> simp [bind]

/-- nothing to verify on a cleared package -/
theorem verify_cleared {p0 : Package} (k' : S.Key) :
    verifyWith S md5 sha1 sha256 k' (stateOf S sha256 p0 .cleared) ≠ .ok () := by
  have e0 : getStringArray (stateOf S sha256 p0 .cleared).md.signature SigTag.RPMSIGTAG_OPENPGP = .err "notfound" :=
    cleared_absent sha256 _ IndexData.asStringArray _ (by decide) (by decide)
  have e1 : getBinary (stateOf S sha256 p0 .cleared).md.signature SigTag.RPMSIGTAG_RSA = .err "notfound" :=
    cleared_absent sha256 _ IndexData.asBinary _ (by decide) (by decide)
  have e2 : getBinary (stateOf S sha256 p0 .cleared).md.signature SigTag.RPMSIGTAG_DSA = .err "notfound" :=
    cleared_absent sha256 _ IndexData.asBinary _ (by decide) (by decide)
  have e3 : getBinary (stateOf S sha256 p0 .cleared).md.signature SigTag.RPMSIGTAG_PGP = .err "notfound" :=
    cleared_absent sha256 _ IndexData.asBinary _ (by decide) (by decide)
  simp only [verifyWith, e0, e1, e2, e3, Out.isOk, Bool.not_false, Bool.and_self, if_true]
  exact bind_err_ne_ok _ _ _

theorem verify_unsigned {p : Package} (hu : Unsigned p.md.signature) (k' : S.Key) :
    verifyWith S md5 sha1 sha256 k' p ≠ .ok () := by
  obtain ⟨h0, h1, h2, h3⟩ := hu
  cases hg : getStringArray p.md.signature SigTag.RPMSIGTAG_OPENPGP with
  | ok l => exact absurd hg (h0 l)
  | err c =>
    simp only [verifyWith, hg, h1, h2, h3, Bool.not_false, Bool.and_self, if_true]
    exact bind_err_ne_ok _ _ _
  | panic c =>
    simp only [verifyWith, hg, h1, h2, h3, Bool.not_false, Bool.and_self, if_true]
    exact bind_err_ne_ok _ _ _

/-- **after a clear, or never signed from an unsigned start, no key verifies** -/
theorem history_verify_none {p0 p : Package} (hl : S.LegacyOk) (wf : MetadataWF p0.md)
    (ok : SigRecsOk S sha256 (writeHeader p0.md.header)) (hu : Unsigned p0.md.signature)
    (ops : List (Op S.Key)) (hs : lastSigner ops = none) (h : run S sha256 ops p0 = .ok p) (k' : S.Key) :
    verifyWith S md5 sha1 sha256 k' p ≠ .ok () := by
  rw [run_total hl wf ok ops] at h
  cases h
  rcases signer_none hs with hst | hst <;> rw [hst]
  · exact verify_unsigned hu k'
  · exact verify_cleared k'

/-- after a clear no key verifies, whatever the start package carried -/
theorem history_verify_cleared {p0 p : Package} (hl : S.LegacyOk) (wf : MetadataWF p0.md)
    (ok : SigRecsOk S sha256 (writeHeader p0.md.header)) (ops : List (Op S.Key))
    (hs : stateAfter .initial ops = .cleared) (h : run S sha256 ops p0 = .ok p) (k' : S.Key) :
    verifyWith S md5 sha1 sha256 k' p ≠ .ok () := by
  rw [run_total hl wf ok ops, hs] at h
  cases h
  exact verify_cleared k'

/-! ### reported key ids -/

/-- **exactly the last signer's key id is reported** -/
theorem history_keyids {p0 p : Package} (hl : S.LegacyOk) (hi : S.IssuerOk) (hb64 : S.B64)
    (wf : MetadataWF p0.md) (ok : SigRecsOk S sha256 (writeHeader p0.md.header))
    (ops : List (Op S.Key)) (k : S.Key) (hs : lastSigner ops = some k) (h : run S sha256 ops p0 = .ok p) :
    keyIds S p = .ok [S.keyId k] := by
  rw [run_total hl wf ok ops] at h
  cases h
  obtain ⟨t, hst⟩ := signer_some hs
  rw [hst]
  have e : getStringArray (stateOf S sha256 p0 (.signed k t)).md.signature SigTag.RPMSIGTAG_OPENPGP
      = .ok [S.b64enc (S.sign k (writeHeader p0.md.header) t)] := signed_openpgp sha256 hl k t _
  simp only [keyIds, e, idsAll, hb64 _, oneIssuer, hi _ _ _]
  rfl

/-- a cleared package reports no signer: the call is an error -/
theorem history_keyids_cleared {p0 p : Package} (hl : S.LegacyOk) (wf : MetadataWF p0.md)
    (ok : SigRecsOk S sha256 (writeHeader p0.md.header)) (ops : List (Op S.Key))
    (hs : stateAfter .initial ops = .cleared) (h : run S sha256 ops p0 = .ok p) :
    keyIds S p = .err "nosig" := by
  rw [run_total hl wf ok ops, hs] at h
  cases h
  have e0 : getStringArray (stateOf S sha256 p0 .cleared).md.signature SigTag.RPMSIGTAG_OPENPGP = .err "notfound" :=
    cleared_absent sha256 _ IndexData.asStringArray _ (by decide) (by decide)
  have e1 : getBinary (stateOf S sha256 p0 .cleared).md.signature SigTag.RPMSIGTAG_RSA = .err "notfound" :=
    cleared_absent sha256 _ IndexData.asBinary _ (by decide) (by decide)
  have e2 : getBinary (stateOf S sha256 p0 .cleared).md.signature SigTag.RPMSIGTAG_DSA = .err "notfound" :=
    cleared_absent sha256 _ IndexData.asBinary _ (by decide) (by decide)
  have e3 : getBinary (stateOf S sha256 p0 .cleared).md.signature SigTag.RPMSIGTAG_PGP = .err "notfound" :=
    cleared_absent sha256 _ IndexData.asBinary _ (by decide) (by decide)
  simp only [keyIds, e0, e1, e2, e3, pickLegacy]

/-- the legacy tag of a signed package carries the raw signature of the last signer (what `gpgv` is given) -/
theorem history_legacy {p0 p : Package} (hl : S.LegacyOk) (wf : MetadataWF p0.md)
    (ok : SigRecsOk S sha256 (writeHeader p0.md.header)) (ops : List (Op S.Key)) (k : S.Key) (t : Nat)
    (hs : stateAfter .initial ops = .signed k t) (h : run S sha256 ops p0 = .ok p) :
    getBinary p.md.signature (S.legacyTag k) = .ok (S.sign k (writeHeader p0.md.header) t) := by
  rw [run_total hl wf ok ops, hs] at h
  cases h
  exact signed_legacy sha256 hl k t _

/-! ### non-vacuity: the symbolic scheme, toy hash functions, a concrete start package and history -/
section nonvacuity
open RpmVerif.Sign.Sym

/-- key ids: one byte naming the key -/
def ids (k : UInt8) : Bytes := [k]
abbrev T : SigScheme := scheme ids

def tMd5 (bs : Bytes) : Bytes := [bs.length.toUInt8, bs.foldl (· + ·) 0]
def tSha1 (bs : Bytes) : Bytes := [bs.foldl (· + ·) 0]
def tSha256 (bs : Bytes) : Bytes := [bs.foldl (· ^^^ ·) 0, bs.length.toUInt8, 171]

def content0 : Bytes := [7, 9, 9, 200]

/-- main header as the builder lays it out (records in tag order): name, payload digest, digest algorithm 8 -/
def hdr0 : Header := fromSorted [(IndexTag.RPMTAG_NAME, .str [97, 98, 99]),
    (IndexTag.RPMTAG_PAYLOADDIGEST, .strArray [hexLower (tSha256 content0)]),
    (IndexTag.RPMTAG_PAYLOADDIGESTALGO, .int32 [8])] IndexTag.RPMTAG_HEADERIMMUTABLE

/-- an unsigned package as the builder makes it: digest-only signature header -/
def p0 : Package := ⟨⟨Bld.leadNew [116], clearedSigE tSha256 (writeHeader hdr0), hdr0⟩, content0⟩

-- every hypothesis of the theorems holds for these values
example : T.Correct ∧ T.Binds ∧ T.IssuerOk ∧ T.B64 ∧ T.LegacyOk :=
  ⟨correct ids, binds ids, issuerOk ids, b64 ids, legacyOk ids⟩
theorem p0_reparse : parsePackage (writePackage p0) = .ok p0 := by decide +kernel
theorem p0_wf : MetadataWF p0.md := C16.parsed_wf p0_reparse
theorem p0_recs : SigRecsOk T tSha256 (writeHeader p0.md.header) :=
  sigRecsOk ids tSha256 _ (by decide +kernel)
theorem p0_payload : PayloadDigestOk tSha256 p0 := by unfold PayloadDigestOk; decide +kernel
theorem p0_unsigned : Unsigned p0.md.signature := by
  have e : getStringArray p0.md.signature SigTag.RPMSIGTAG_OPENPGP = .err "notfound" := by decide +kernel
  refine ⟨fun l h => ?_, by decide +kernel, by decide +kernel, by decide +kernel⟩
  rw [e] at h; cases h
example : verifyDigests tMd5 tSha1 tSha256 p0 = .ok () := by decide +kernel

/-- a history: key 2 (DSA tag) signs, write + parse, key 0 (RSA tag) signs, clear, key 3 signs, write + parse -/
def hist : List (Op UInt8) := [.sign 2 5, .writeParse, .sign 0 7, .clear, .sign 3 1, .writeParse]

/-- verify bits for keys 0..3, reported key ids, digests, bytes untouched — after a history (evaluable form) -/
def observe (ops : List (Op UInt8)) : Out (List Bool × Out (List Bytes) × Out Unit × Bool) :=
  (runE T tSha256 ops p0).map fun p =>
    (([0, 1, 2, 3] : List UInt8).map fun k => decide (verifyWith T tMd5 tSha1 tSha256 k p = .ok ()), keyIds T p,
      verifyDigests tMd5 tSha1 tSha256 p,
      decide (writeHeader p.md.header = writeHeader p0.md.header ∧ p.content = p0.content))

example : lastSigner hist = some 3 := by decide
example : observe hist = .ok ([false, false, false, true], .ok [[3]], .ok (), true) := by decide +kernel
example : observe (hist.take 3) = .ok ([true, false, false, false], .ok [[0]], .ok (), true) := by decide +kernel
example : observe (hist.take 2) = .ok ([false, false, true, false], .ok [[2]], .ok (), true) := by decide +kernel
example : observe (hist.take 4) = .ok ([false, false, false, false], .err "nosig", .ok (), true) := by decide +kernel
example : observe [] = .ok ([false, false, false, false], .err "nosig", .ok (), true) := by decide +kernel
-- `runE` is `run` (the kernel cannot evaluate `mergeSort`, so the evaluation goes through the sorted form)
example : run T tSha256 hist p0 = runE T tSha256 hist p0 := run_eq_runE (legacyOk ids) _ _ _
-- the general theorems, instantiated
example (p : Package) (h : run T tSha256 hist p0 = .ok p) (k' : UInt8) :
    verifyWith T tMd5 tSha1 tSha256 k' p = .ok () ↔ k' = 3 :=
  history_verify (legacyOk ids) (correct ids) (binds ids) (b64 ids) p0_wf p0_recs p0_payload hist (3 : UInt8) (by decide) h k'
example (p : Package) (h : run T tSha256 hist p0 = .ok p) : keyIds T p = .ok [[3]] :=
  history_keyids (legacyOk ids) (issuerOk ids) (b64 ids) p0_wf p0_recs hist (3 : UInt8) (by decide) h
example (p : Package) (h : run T tSha256 (hist.take 4) p0 = .ok p) (k' : UInt8) :
    verifyWith T tMd5 tSha1 tSha256 k' p ≠ .ok () :=
  history_verify_none (legacyOk ids) p0_wf p0_recs p0_unsigned (hist.take 4) (by decide) h k'

end nonvacuity

end RpmVerif.C10
