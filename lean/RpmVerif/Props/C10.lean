import RpmVerif.Lemmas.Sign
import RpmVerif.Lemmas.SignE
import RpmVerif.Props.C16
import RpmVerif.Props.C17
import RpmVerif.Props.C04
/-!
# C10 — after any signing history a package verifies with exactly the last signer's key

For EVERY signature scheme `S` satisfying the named hypotheses (`Correct`, `Binds`, `IssuerOk`, `B64`,
`LegacyOk`), EVERY hash functions, EVERY well-formed start package `p0` (every parsed package is one:
`C16.parsed_wf`; every built one: `C06.build_reparse`) and EVERY operation list `ops` of any length over
{sign with any key at any time, clear, write + re-parse}:

* `run_total`        the history never fails, and its result is determined by the start package and the
                     *signature state* `stateAfter .initial ops` (initial / cleared / signed k t) alone;
* `history_bytes`    main header, lead and payload are those of the start package (so are their serialised bytes);
* `history_wf`, `writeParse_id`   every reachable state is well formed, hence write + re-parse is the identity on it;
  `first_op_wf`, `run_total_any`   (once the first operation is a sign / clear, NOTHING is assumed about the start
                     package's signature header: it may even be ill formed);
* `history_digests`  after at least one sign or clear `verify_digests` succeeds — the fresh SHA256 is the only
                     digest recorded in the signature header; the payload digest tags live in the untouched main header
                     (hypothesis `PayloadDigestOk p0`); before any sign / clear the package IS the start package;
* `history_verify`   if `k` signed most recently with no clear since: `verify_signature` with key `k'` succeeds ⇔ `k' = k`;
  `history_verify_none`  after a clear (or never signed, starting from an unsigned package) no key verifies;
* `history_keyids`   if `k` signed most recently with no clear since, `signature_key_ids` = exactly `[keyId k]`;
  `history_keyids_cleared`  after a clear it is an error (`NoSignatureFound`).

What is assumed is explicit: the `SigScheme` laws, `SigRecsOk` (base64 text is NUL-free UTF-8, sizes fit the
header format), `PayloadDigestOk p0`.

## The signing side with its failure and panic paths (`Model/SignE.lean`; gaps G4, G7, G8 of notes/COVERAGE.md)

* `legacyTagOf_range`   every arm of the algorithm `match` in `SignatureHeaderBuilder::build` (scraped table) selects
                        RPMSIGTAG_RSA or RPMSIGTAG_DSA; `signer_algs_subset`: a key `Signer::new` accepts is stored under
                        an `AlgorithmType` that converts back to the key's algorithm, and that algorithm has an arm in
                        `build` (no `UnsupportedPGPKeyType` after a successful `Signer::new`); `signer_tag_total`: the same
                        for EVERY `AlgorithmType`; `verifier_accepts_signer_keys`. `legacyOk_discharged`: `LegacyOk` follows
                        from `AlgOk` (signatures parse, their algorithm selects the key's tag) — all theorems above have
                        `_discharged` forms taking `AlgOk` instead.
* `config_one_issuer`, `config_created_eq`, `config_one_fingerprint`, `timestamp_opt_total`, `pgp_signer_sign`
                        the `SignatureConfig` `pgp::Signer::sign` assembles: exactly one Issuer and one IssuerFingerprint
                        sub-packet (the key's), creation time = the `Timestamp`, no unwrap panic for any `u32`;
                        `pgp_issuerOk`, `pgp_legacyOk`, `pgp_algOk`: for a `PgpScheme` (only `sealSig` / `parse` abstract)
                        `IssuerOk`, `LegacyOk`, `AlgOk` are THEOREMS (given `ParseSeal`: a written packet reads back);
                        `pgp_history_verify` / `pgp_history_keyids`: the main statements with nothing assumed but
                        `ParseSeal`, `Correct`, `Binds`, `B64` and the size conditions.
* `sign_success_eq`     on the success path `sign_with_timestamp` (`signOpE`) IS `signOp`; `sign_outcomes`: every way out;
  `sign_fail_unchanged` an `Err` (signer refuses, `build` finds no signature packet / an unsupported algorithm) leaves the
                        package exactly as it was; `sign_ok_frame`: success replaces the signature header only;
  `sign_panics_iff`     it panics exactly for a `SystemTime` / `DateTime` outside 0 ≤ t < 2³² (the defect class of the known
                        finding `C17 class=timestamp-setter-panic`, here on `Package`) — BEFORE the signer is consulted;
  `sign_now_eq`, `sign_now_panics_iff`   `sign(s)` = `sign_with_timestamp(s, now)`; `clear_total`: `clear_signatures` cannot fail.
* `runF_eq_run`         a history containing failed signing attempts (refusing signers, foreign signers whose bytes `build`
                        turns down) is the history of its effective operations — from ANY package; `runF_failed_only`;
                        `historyF_*`: every history theorem for such histories; `runF_no_panic`, `runF_panics_at`: a history
                        panics exactly at its first out-of-range timestamp.
-/
namespace RpmVerif.C10
open RpmVerif.Hdr RpmVerif.Gen RpmVerif.Digest RpmVerif.Sign

variable {S : SigScheme} {md5 sha1 sha256 : Bytes → Bytes}

/-- the signature header a signature state stands for, relative to the start package -/
def sigFor (S : SigScheme) (sha256 : Bytes → Bytes) (p0 : Package) : SigState S.Key → Header
  | .initial => p0.md.signature
  | .cleared => clearedSig sha256 (writeHeader p0.md.header)
  | .signed k t => signedSig S sha256 k t (writeHeader p0.md.header)

/-- the package a signature state stands for: everything but the signature header is the start package's -/
def stateOf (S : SigScheme) (sha256 : Bytes → Bytes) (p0 : Package) (s : SigState S.Key) : Package :=
  ⟨⟨p0.md.lead, sigFor S sha256 p0 s, p0.md.header⟩, p0.content⟩

theorem stateOf_initial (p0 : Package) : stateOf S sha256 p0 .initial = p0 := rfl

/-- the payload-digest block of `verify_digests` accepts the start package (it reads the main header and the
payload only, which no operation touches) -/
def PayloadDigestOk (sha256 : Bytes → Bytes) (p0 : Package) : Prop := checkPayload sha256 p0 = .ok ()

/-- the start package carries nothing `verify_signature` would look at -/
def Unsigned (h : Header) : Prop :=
  (∀ l, getStringArray h SigTag.RPMSIGTAG_OPENPGP ≠ .ok l) ∧ (getBinary h SigTag.RPMSIGTAG_RSA).isOk = false
  ∧ (getBinary h SigTag.RPMSIGTAG_DSA).isOk = false ∧ (getBinary h SigTag.RPMSIGTAG_PGP).isOk = false

/-! ### write + re-parse is the identity on well-formed packages -/

theorem writeParse_id {p : Package} (wf : MetadataWF p.md) : writeParse p = .ok p := by
  simp only [writeParse, writePackage, parsePackage, writeMetadata_eq]
  rw [parseMetadata_write wf rfl (by simp) rfl]
  rfl

/-- every state is well formed when the start package is -/
theorem stateOf_wf {p0 : Package} (hl : S.LegacyOk) (wf : MetadataWF p0.md)
    (ok : SigRecsOk S sha256 (writeHeader p0.md.header)) (s : SigState S.Key) :
    MetadataWF (stateOf S sha256 p0 s).md := by
  refine ⟨wf.lead, ?_, wf.hdr⟩
  cases s with
  | initial => exact wf.sig
  | cleared => exact clearedSig_wf ok
  | signed k t => exact signedSig_wf hl ok k t

/-- after a sign or a clear the package is well formed WHATEVER the previous signature header was -/
theorem first_op_wf {p0 : Package} (hl : S.LegacyOk) (wl : LeadWF p0.md.lead) (wh : HeaderWF p0.md.header)
    (ok : SigRecsOk S sha256 (writeHeader p0.md.header)) :
    (∀ k t, MetadataWF (signOp S sha256 k t p0).md) ∧ MetadataWF (clearOp sha256 p0).md :=
  ⟨fun k t => ⟨wl, signedSig_wf hl ok k t, wh⟩, ⟨wl, clearedSig_wf ok, wh⟩⟩

/-! ### the history, as a function of the signature state -/

theorem step_stateOf {p0 : Package} (hl : S.LegacyOk) (wf : MetadataWF p0.md)
    (ok : SigRecsOk S sha256 (writeHeader p0.md.header)) (s : SigState S.Key) (o : Op S.Key) :
    step S sha256 o (stateOf S sha256 p0 s) = .ok (stateOf S sha256 p0 (s.after o)) := by
  cases o with
  | sign k t => rfl
  | clear => rfl
  | writeParse => exact writeParse_id (stateOf_wf hl wf ok s)

theorem run_stateOf {p0 : Package} (hl : S.LegacyOk) (wf : MetadataWF p0.md)
    (ok : SigRecsOk S sha256 (writeHeader p0.md.header)) (ops : List (Op S.Key)) (s : SigState S.Key) :
    run S sha256 ops (stateOf S sha256 p0 s) = .ok (stateOf S sha256 p0 (stateAfter s ops)) := by
  induction ops generalizing s with
  | nil => rfl
  | cons o os ih =>
    simp only [run, step_stateOf hl wf ok s o, Out.bind_ok]
    exact ih (s.after o)

/-- **no history fails**, and the result is the start package with the signature header of the final
signature state -/
theorem run_total {p0 : Package} (hl : S.LegacyOk) (wf : MetadataWF p0.md)
    (ok : SigRecsOk S sha256 (writeHeader p0.md.header)) (ops : List (Op S.Key)) :
    run S sha256 ops p0 = .ok (stateOf S sha256 p0 (stateAfter .initial ops)) :=
  run_stateOf hl wf ok ops .initial

/-! the same from ANY start package with a well-formed lead and main header — its signature header may be anything,
even ill formed — as soon as the history begins with a sign or a clear -/

theorem after_ne_initial {K : Type} (s : SigState K) (o : Op K) (h : s ≠ .initial) : s.after o ≠ .initial := by
  cases o <;> simp [SigState.after, h]

theorem stateOf_wf_touched {p0 : Package} (hl : S.LegacyOk) (wl : LeadWF p0.md.lead) (wh : HeaderWF p0.md.header)
    (ok : SigRecsOk S sha256 (writeHeader p0.md.header)) (s : SigState S.Key) (hs : s ≠ .initial) :
    MetadataWF (stateOf S sha256 p0 s).md := by
  refine ⟨wl, ?_, wh⟩
  cases s with
  | initial => exact absurd rfl hs
  | cleared => exact clearedSig_wf ok
  | signed k t => exact signedSig_wf hl ok k t

theorem run_stateOf_touched {p0 : Package} (hl : S.LegacyOk) (wl : LeadWF p0.md.lead) (wh : HeaderWF p0.md.header)
    (ok : SigRecsOk S sha256 (writeHeader p0.md.header)) (ops : List (Op S.Key)) (s : SigState S.Key) (hs : s ≠ .initial) :
    run S sha256 ops (stateOf S sha256 p0 s) = .ok (stateOf S sha256 p0 (stateAfter s ops)) := by
  induction ops generalizing s with
  | nil => rfl
  | cons o os ih =>
    have hstep : step S sha256 o (stateOf S sha256 p0 s) = .ok (stateOf S sha256 p0 (s.after o)) := by
      cases o with
      | sign k t => rfl
      | clear => rfl
      | writeParse => exact writeParse_id (stateOf_wf_touched hl wl wh ok s hs)
    simp only [run, hstep, Out.bind_ok]
    exact ih (s.after o) (after_ne_initial s o hs)

/-- **no assumption on the start package's signature header** once the first operation is a sign or a clear: the
history never fails and ends in the state the theorems below describe (`verify_signed`, `verify_cleared`,
`digests_signed`, `digests_cleared` speak about `stateOf` directly) -/
theorem run_total_any {p0 : Package} (hl : S.LegacyOk) (wl : LeadWF p0.md.lead) (wh : HeaderWF p0.md.header)
    (ok : SigRecsOk S sha256 (writeHeader p0.md.header)) (o : Op S.Key) (ho : (SigState.initial).after o ≠ .initial)
    (os : List (Op S.Key)) :
    run S sha256 (o :: os) p0 = .ok (stateOf S sha256 p0 (stateAfter .initial (o :: os))) := by
  have hstep : step S sha256 o p0 = .ok (stateOf S sha256 p0 ((SigState.initial).after o)) := by
    cases o with
    | sign k t => rfl
    | clear => rfl
    | writeParse => exact absurd rfl ho
  simp only [run, hstep, Out.bind_ok]
  exact run_stateOf_touched hl wl wh ok os _ ho

/-- **main header, lead and payload are untouched** — as values and as serialised bytes -/
theorem history_bytes {p0 p : Package} (hl : S.LegacyOk) (wf : MetadataWF p0.md)
    (ok : SigRecsOk S sha256 (writeHeader p0.md.header)) (ops : List (Op S.Key))
    (h : run S sha256 ops p0 = .ok p) :
    writeHeader p.md.header = writeHeader p0.md.header ∧ p.content = p0.content
    ∧ p.md.header = p0.md.header ∧ p.md.lead = p0.md.lead := by
  rw [run_total hl wf ok ops] at h
  cases h
  exact ⟨rfl, rfl, rfl, rfl⟩

/-- **every reachable state is well formed** -/
theorem history_wf {p0 p : Package} (hl : S.LegacyOk) (wf : MetadataWF p0.md)
    (ok : SigRecsOk S sha256 (writeHeader p0.md.header)) (ops : List (Op S.Key))
    (h : run S sha256 ops p0 = .ok p) : MetadataWF p.md := by
  rw [run_total hl wf ok ops] at h
  cases h
  exact stateOf_wf hl wf ok _

/-- … hence write + re-parse changes nothing after any history -/
theorem history_writeParse {p0 p : Package} (hl : S.LegacyOk) (wf : MetadataWF p0.md)
    (ok : SigRecsOk S sha256 (writeHeader p0.md.header)) (ops : List (Op S.Key))
    (h : run S sha256 ops p0 = .ok p) : writeParse p = .ok p :=
  writeParse_id (history_wf hl wf ok ops h)

/-- before any sign / clear the package is the start package itself (whatever held of it still holds) -/
theorem history_initial {p0 p : Package} (hl : S.LegacyOk) (wf : MetadataWF p0.md)
    (ok : SigRecsOk S sha256 (writeHeader p0.md.header)) (ops : List (Op S.Key))
    (hs : stateAfter .initial ops = .initial) (h : run S sha256 ops p0 = .ok p) : p = p0 := by
  rw [run_total hl wf ok ops, hs] at h
  cases h
  rfl

/-! ### digests -/

theorem checkDeclared_notfound (c : Bytes) : checkDeclared (.err "notfound") c = .ok () := rfl
theorem checkDeclared_same (c : Bytes) : checkDeclared (.ok c) c = .ok () := by simp [checkDeclared]

theorem digests_signed {p0 : Package} (hl : S.LegacyOk) (hp : PayloadDigestOk sha256 p0) (k : S.Key) (t : Nat) :
    verifyDigests md5 sha1 sha256 (stateOf S sha256 p0 (.signed k t)) = .ok () := by
  have e1 : getBinary (stateOf S sha256 p0 (.signed k t)).md.signature SigTag.RPMSIGTAG_MD5 = .err "notfound" :=
    signed_absent sha256 hl k t _ IndexData.asBinary _ (by decide) (by decide) (by decide) (by decide) (by decide)
  have e2 : getString (stateOf S sha256 p0 (.signed k t)).md.signature SigTag.RPMSIGTAG_SHA1 = .err "notfound" :=
    signed_absent sha256 hl k t _ IndexData.asStr _ (by decide) (by decide) (by decide) (by decide) (by decide)
  have e3 : getString (stateOf S sha256 p0 (.signed k t)).md.signature SigTag.RPMSIGTAG_SHA256
      = .ok (hexLower (sha256 (writeHeader p0.md.header))) := signed_sha256 sha256 hl k t _
  have e4 : checkPayload sha256 (stateOf S sha256 p0 (.signed k t)) = .ok () := hp
  simp only [verifyDigests, e1, e2, e3, e4]
  simp only [stateOf, checkDeclared_notfound, checkDeclared_same, Out.bind_ok]

theorem digests_cleared {p0 : Package} (hp : PayloadDigestOk sha256 p0) :
    verifyDigests md5 sha1 sha256 (stateOf S sha256 p0 .cleared) = .ok () := by
  have e1 : getBinary (stateOf S sha256 p0 .cleared).md.signature SigTag.RPMSIGTAG_MD5 = .err "notfound" :=
    cleared_absent sha256 _ IndexData.asBinary _ (by decide) (by decide)
  have e2 : getString (stateOf S sha256 p0 .cleared).md.signature SigTag.RPMSIGTAG_SHA1 = .err "notfound" :=
    cleared_absent sha256 _ IndexData.asStr _ (by decide) (by decide)
  have e3 : getString (stateOf S sha256 p0 .cleared).md.signature SigTag.RPMSIGTAG_SHA256
      = .ok (hexLower (sha256 (writeHeader p0.md.header))) := cleared_sha256 sha256 _
  have e4 : checkPayload sha256 (stateOf S sha256 p0 .cleared) = .ok () := hp
  simp only [verifyDigests, e1, e2, e3, e4]
  simp only [stateOf, checkDeclared_notfound, checkDeclared_same, Out.bind_ok]

/-- **digests still verify**: after at least one sign or clear, for ANY md5 / sha1 functions and the sha256 the
operations used, provided the start package's payload digest was fine -/
theorem history_digests {p0 p : Package} (hl : S.LegacyOk) (wf : MetadataWF p0.md)
    (ok : SigRecsOk S sha256 (writeHeader p0.md.header)) (hp : PayloadDigestOk sha256 p0) (ops : List (Op S.Key))
    (hs : stateAfter .initial ops ≠ .initial) (h : run S sha256 ops p0 = .ok p) :
    verifyDigests md5 sha1 sha256 p = .ok () := by
  rw [run_total hl wf ok ops] at h
  cases h
  cases hst : stateAfter (SigState.initial (K := S.Key)) ops with
  | initial => exact absurd hst hs
  | cleared => exact digests_cleared hp
  | signed k t => exact digests_signed hl hp k t

/-! ### signature verification -/

theorem signer_some {K : Type} {s : SigState K} {k : K} (h : s.signer = some k) : ∃ t, s = .signed k t := by
  cases s with
  | signed k' t => simp only [SigState.signer, Option.some.injEq] at h; subst h; exact ⟨t, rfl⟩
  | initial => cases h
  | cleared => cases h

theorem signer_none {K : Type} {s : SigState K} (h : s.signer = none) : s = .initial ∨ s = .cleared := by
  cases s with
  | signed k' t => cases h
  | initial => exact .inl rfl
  | cleared => exact .inr rfl

/-- on a state signed by `k`, `verify_signature` with key `k'` is `verify k' header (sign k header t)` -/
theorem verify_signed {p0 : Package} (hl : S.LegacyOk) (hb64 : S.B64) (hp : PayloadDigestOk sha256 p0)
    (k k' : S.Key) (t : Nat) :
    verifyWith S md5 sha1 sha256 k' (stateOf S sha256 p0 (.signed k t)) =
      if S.verify k' (writeHeader p0.md.header) (S.sign k (writeHeader p0.md.header) t) then .ok () else .err "verify" := by
  have e : getStringArray (stateOf S sha256 p0 (.signed k t)).md.signature SigTag.RPMSIGTAG_OPENPGP
      = .ok [S.b64enc (S.sign k (writeHeader p0.md.header) t)] := signed_openpgp sha256 hl k t _
  simp only [verifyWith, digests_signed hl hp k t, Out.bind_ok, e]
  simp only [List.isEmpty_cons, Bool.false_eq_true, if_false, verifyAll, hb64 _, stateOf]
  split <;> simp_all

/-- **exactly the last signer's key verifies** -/
theorem history_verify {p0 p : Package} (hl : S.LegacyOk) (hc : S.Correct) (hbind : S.Binds) (hb64 : S.B64)
    (wf : MetadataWF p0.md) (ok : SigRecsOk S sha256 (writeHeader p0.md.header)) (hp : PayloadDigestOk sha256 p0)
    (ops : List (Op S.Key)) (k : S.Key) (hs : lastSigner ops = some k) (h : run S sha256 ops p0 = .ok p) (k' : S.Key) :
    verifyWith S md5 sha1 sha256 k' p = .ok () ↔ k' = k := by
  rw [run_total hl wf ok ops] at h
  cases h
  obtain ⟨t, hst⟩ := signer_some hs
  rw [hst, verify_signed hl hb64 hp]
  constructor
  · intro hv
    split at hv
    · rename_i hver; exact (hbind _ _ _ _ _ hver).1
    · cases hv
  · rintro rfl
    rw [hc]; rfl

theorem bind_err_ne_ok {α β} (x : Out α) (c : String) (b : β) : (x >>= fun _ => (Out.err c : Out β)) ≠ .ok b := by
  cases x <;> simp [bind]

/-- nothing to verify on a cleared package -/
theorem verify_cleared {p0 : Package} (k' : S.Key) :
    verifyWith S md5 sha1 sha256 k' (stateOf S sha256 p0 .cleared) ≠ .ok () := by
  have e0 : getStringArray (stateOf S sha256 p0 .cleared).md.signature SigTag.RPMSIGTAG_OPENPGP = .err "notfound" :=
    cleared_absent sha256 _ IndexData.asStringArray _ (by decide) (by decide)
  have e1 : getBinary (stateOf S sha256 p0 .cleared).md.signature SigTag.RPMSIGTAG_RSA = .err "notfound" :=
    cleared_absent sha256 _ IndexData.asBinary _ (by decide) (by decide)
  have e2 : getBinary (stateOf S sha256 p0 .cleared).md.signature SigTag.RPMSIGTAG_DSA = .err "notfound" :=
    cleared_absent sha256 _ IndexData.asBinary _ (by decide) (by decide)
  have e3 : getBinary (stateOf S sha256 p0 .cleared).md.signature SigTag.RPMSIGTAG_PGP = .err "notfound" :=
    cleared_absent sha256 _ IndexData.asBinary _ (by decide) (by decide)
  simp only [verifyWith, e0, e1, e2, e3, Out.isOk, Bool.not_false, Bool.and_self, if_true]
  exact bind_err_ne_ok _ _ _

theorem verify_unsigned {p : Package} (hu : Unsigned p.md.signature) (k' : S.Key) :
    verifyWith S md5 sha1 sha256 k' p ≠ .ok () := by
  obtain ⟨h0, h1, h2, h3⟩ := hu
  cases hg : getStringArray p.md.signature SigTag.RPMSIGTAG_OPENPGP with
  | ok l => exact absurd hg (h0 l)
  | err c =>
    simp only [verifyWith, hg, h1, h2, h3, Bool.not_false, Bool.and_self, if_true]
    exact bind_err_ne_ok _ _ _
  | panic c =>
    simp only [verifyWith, hg, h1, h2, h3, Bool.not_false, Bool.and_self, if_true]
    exact bind_err_ne_ok _ _ _

/-- **after a clear, or never signed from an unsigned start, no key verifies** -/
theorem history_verify_none {p0 p : Package} (hl : S.LegacyOk) (wf : MetadataWF p0.md)
    (ok : SigRecsOk S sha256 (writeHeader p0.md.header)) (hu : Unsigned p0.md.signature)
    (ops : List (Op S.Key)) (hs : lastSigner ops = none) (h : run S sha256 ops p0 = .ok p) (k' : S.Key) :
    verifyWith S md5 sha1 sha256 k' p ≠ .ok () := by
  rw [run_total hl wf ok ops] at h
  cases h
  rcases signer_none hs with hst | hst <;> rw [hst]
  · exact verify_unsigned hu k'
  · exact verify_cleared k'

/-- after a clear no key verifies, whatever the start package carried -/
theorem history_verify_cleared {p0 p : Package} (hl : S.LegacyOk) (wf : MetadataWF p0.md)
    (ok : SigRecsOk S sha256 (writeHeader p0.md.header)) (ops : List (Op S.Key))
    (hs : stateAfter .initial ops = .cleared) (h : run S sha256 ops p0 = .ok p) (k' : S.Key) :
    verifyWith S md5 sha1 sha256 k' p ≠ .ok () := by
  rw [run_total hl wf ok ops, hs] at h
  cases h
  exact verify_cleared k'

/-! ### reported key ids -/

/-- **exactly the last signer's key id is reported** -/
theorem history_keyids {p0 p : Package} (hl : S.LegacyOk) (hi : S.IssuerOk) (hb64 : S.B64)
    (wf : MetadataWF p0.md) (ok : SigRecsOk S sha256 (writeHeader p0.md.header))
    (ops : List (Op S.Key)) (k : S.Key) (hs : lastSigner ops = some k) (h : run S sha256 ops p0 = .ok p) :
    keyIds S p = .ok [S.keyId k] := by
  rw [run_total hl wf ok ops] at h
  cases h
  obtain ⟨t, hst⟩ := signer_some hs
  rw [hst]
  have e : getStringArray (stateOf S sha256 p0 (.signed k t)).md.signature SigTag.RPMSIGTAG_OPENPGP
      = .ok [S.b64enc (S.sign k (writeHeader p0.md.header) t)] := signed_openpgp sha256 hl k t _
  simp only [keyIds, e, idsAll, hb64 _, oneIssuer, hi _ _ _]
  rfl

/-- a cleared package reports no signer: the call is an error -/
theorem history_keyids_cleared {p0 p : Package} (hl : S.LegacyOk) (wf : MetadataWF p0.md)
    (ok : SigRecsOk S sha256 (writeHeader p0.md.header)) (ops : List (Op S.Key))
    (hs : stateAfter .initial ops = .cleared) (h : run S sha256 ops p0 = .ok p) :
    keyIds S p = .err "nosig" := by
  rw [run_total hl wf ok ops, hs] at h
  cases h
  have e0 : getStringArray (stateOf S sha256 p0 .cleared).md.signature SigTag.RPMSIGTAG_OPENPGP = .err "notfound" :=
    cleared_absent sha256 _ IndexData.asStringArray _ (by decide) (by decide)
  have e1 : getBinary (stateOf S sha256 p0 .cleared).md.signature SigTag.RPMSIGTAG_RSA = .err "notfound" :=
    cleared_absent sha256 _ IndexData.asBinary _ (by decide) (by decide)
  have e2 : getBinary (stateOf S sha256 p0 .cleared).md.signature SigTag.RPMSIGTAG_DSA = .err "notfound" :=
    cleared_absent sha256 _ IndexData.asBinary _ (by decide) (by decide)
  have e3 : getBinary (stateOf S sha256 p0 .cleared).md.signature SigTag.RPMSIGTAG_PGP = .err "notfound" :=
    cleared_absent sha256 _ IndexData.asBinary _ (by decide) (by decide)
  simp only [keyIds, e0, e1, e2, e3, pickLegacy]

/-- the legacy tag of a signed package carries the raw signature of the last signer (what `gpgv` is given) -/
theorem history_legacy {p0 p : Package} (hl : S.LegacyOk) (wf : MetadataWF p0.md)
    (ok : SigRecsOk S sha256 (writeHeader p0.md.header)) (ops : List (Op S.Key)) (k : S.Key) (t : Nat)
    (hs : stateAfter .initial ops = .signed k t) (h : run S sha256 ops p0 = .ok p) :
    getBinary p.md.signature (S.legacyTag k) = .ok (S.sign k (writeHeader p0.md.header) t) := by
  rw [run_total hl wf ok ops, hs] at h
  cases h
  exact signed_legacy sha256 hl k t _

/-! ## the signing side with its failure and panic paths (G4, G7, G8) -/

/-! ### one `verify_signature`, two mirrors (AUDIT2 a7)

`verifyWith` (this file: a key of an abstract scheme) and C02's `Verify.verifySignatureS` (any — even stateful — object
behind the `Verifying` trait, with the consult log) were written side by side from the same Rust function. They ARE
the same function: same tag order, same short-circuits, same error classes. Everything C02 proves about
`verifySignatureS` therefore holds for `verifyWith` (used by `C02.tamper_rejected_build_sign`, Props/C02Bytes.lean), and a
change of the code needs ONE edit that both properties see. -/

theorem verifyWith_eq_verifySignatureS (S : SigScheme) (md5 sha1 sha256 : Bytes → Bytes) (k : S.Key) (p : Package) :
    verifyWith S md5 sha1 sha256 k p =
      (Verify.verifySignatureS md5 sha1 sha256 S.b64dec (Sign.verifierOf S k) p).1 :=
  Sign.verifyWith_eq_verifySignatureS S md5 sha1 sha256 k p

/-- the verifier of a key is stateless: its verdict is the scheme's `verify` whatever was consulted before -/
theorem verifierOf_stateless (S : SigScheme) (k : S.Key) (pre : List Verify.Consult) (d s : Bytes) :
    Sign.verifierOf S k pre d s = S.verify k d s := rfl

section signing_side
open RpmVerif.Gen.SigAlgs RpmVerif.AddData
variable {pubAlg : Bytes → Option Nat}

/-! ### G7: the algorithm tables of the source -/

/-- **every algorithm `SignatureHeaderBuilder::build` accepts gets the RSA or the DSA legacy tag** (all algorithm
numbers; the table is scraped from the `match`) -/
theorem legacyTagOf_range {a t : Nat} (h : legacyTagOf a = some t) :
    t = SigTag.RPMSIGTAG_RSA ∨ t = SigTag.RPMSIGTAG_DSA := legacyTagOf_mem_range h

/-- the conversion `AlgorithmType → PublicKeyAlgorithm` has an arm for every variant -/
theorem toPgp_total (a : AlgorithmType) : toPgpArms.lookup a = some (toPgp a) := toPgp_lookup a

/-- **whatever `AlgorithmType` a signer stores, `build` has an arm for the algorithm its signatures carry** -/
theorem signer_tag_total (a : AlgorithmType) :
    legacyTagOf (toPgp a) = some (signerLegacyTag a) ∧
    (signerLegacyTag a = SigTag.RPMSIGTAG_RSA ∨ signerLegacyTag a = SigTag.RPMSIGTAG_DSA) :=
  ⟨signerLegacyTag_some a, signerLegacyTag_range a⟩

/-- **a key `Signer::new` accepts** is stored under the `AlgorithmType` that converts back to the key's own
algorithm, and `build` never answers `UnsupportedPGPKeyType` for it -/
theorem signer_algs_subset {n : Nat} {a : AlgorithmType} (h : signerNew n = .ok a) :
    toPgp a = n ∧ ∃ t, legacyTagOf (toPgp a) = some t := by
  have key : ∀ p ∈ signerNewArms, toPgp p.2 = p.1 := by decide
  unfold signerNew at h
  split at h
  · rename_i a' hl
    cases h
    exact ⟨key _ (lookup_mem hl), _, signerLegacyTag_some a⟩
  · cases h

/-- the verifier loads every key a signer can be made from, under the same `AlgorithmType` -/
theorem verifier_accepts_signer_keys {n : Nat} {a : AlgorithmType} (h : signerNew n = .ok a) : verifierLoad n = .ok a := by
  have key : ∀ p ∈ signerNewArms, verifierLoadArms.lookup p.1 = some p.2 := by decide
  unfold signerNew at h
  split at h
  · rename_i a' hl
    cases h
    simp only [verifierLoad, key _ (lookup_mem hl)]
  · cases h

/-- the refusals are errors, never panics -/
theorem signerNew_total (n : Nat) : (signerNew n).isPanic = false ∧ (verifierLoad n).isPanic = false := by
  unfold signerNew verifierLoad
  constructor <;> split <;> rfl

/-- **`LegacyOk` is not an assumption any more**: it follows from the table once the scheme's signatures parse and
carry the algorithm that selects the key's tag -/
theorem legacyOk_discharged (ha : AlgOk S pubAlg) : S.LegacyOk := legacyOk_of_algOk ha

/-! ### G8: the configuration `pgp::Signer::sign` assembles -/

/-- **exactly one Issuer sub-packet, the signing key's** -/
theorem config_one_issuer (a : AlgorithmType) (keyId fp : Bytes) (t : Int) : (mkConfig a keyId fp t).issuers = [keyId] :=
  mkConfig_issuers a keyId fp t

/-- exactly one IssuerFingerprint sub-packet -/
theorem config_one_fingerprint (a : AlgorithmType) (keyId fp : Bytes) (t : Int) :
    (mkConfig a keyId fp t).fingerprints = [fp] := mkConfig_fingerprints a keyId fp t

/-- **the creation time of the signature is the timestamp handed in** -/
theorem config_created_eq (a : AlgorithmType) (keyId fp : Bytes) (t : Int) : (mkConfig a keyId fp t).created = some t :=
  mkConfig_created a keyId fp t

/-- **`Utc.timestamp_opt(t, 0).unwrap()` cannot panic**: every `u32` is a representable instant -/
theorem timestamp_opt_total {t : Nat} (h : t < 4294967296) : signerCreated t = .ok (t : Int) := by
  simp only [signerCreated, chronoTimestampOpt_u32 h]

/-- `<pgp::Signer as Signing>::sign` is the `sign` of the derived scheme, for every `Timestamp` -/
theorem pgp_signer_sign (P : PgpScheme) (k : P.Key) (m : Bytes) {t : Nat} (h : t < 4294967296) :
    P.signerSign k m t = .ok (P.toSigScheme.sign k m t) := by
  simp only [PgpScheme.signerSign, timestamp_opt_total h, Out.bind_ok]
  rfl

/-- **`IssuerOk` is a theorem** for a scheme whose signatures are sealed configurations -/
theorem pgp_issuerOk (P : PgpScheme) (hp : P.ParseSeal) : P.toSigScheme.IssuerOk := P.issuerOk hp
theorem pgp_legacyOk (P : PgpScheme) : P.toSigScheme.LegacyOk := P.legacyOk
theorem pgp_algOk (P : PgpScheme) (hp : P.ParseSeal) : AlgOk P.toSigScheme P.pubAlg := P.algOk hp

/-! ### G4: one call of `sign_with_timestamp` / `sign` / `clear_signatures` -/

/-- the instants `Timestamp::now()` can convert -/
def ClockInRange (c : Timestamp.Instant) : Prop := 0 ≤ c.secs ∧ c.secs < 4294967296

theorem tsOk_iff (t : TsArg) : TsOk t ↔ C17.TsInRange t := by
  constructor
  · rintro ⟨n, hn⟩
    apply Classical.byContradiction
    intro h
    have := (C17.timestamp_setter_panics_iff t).mpr h
    rw [hn] at this; cases this
  · intro h
    cases t with
    | secs n => exact ⟨n, rfl⟩
    | src s => exact ⟨_, C17.timestamp_setter_ok s h⟩

theorem now_ok {c : Timestamp.Instant} (h : ClockInRange c) : Timestamp.now c = .ok c.secs.toNat := by
  have := (C20.ts_exact_systemtime c).1 h.1 h.2
  simp only [Timestamp.now, this]; rfl

theorem nowOk_iff (c : Timestamp.Instant) : NowOk c ↔ ClockInRange c := by
  constructor
  · rintro ⟨n, hn⟩
    apply Classical.byContradiction
    intro h
    have h3 := C20.ts_exact_systemtime c
    by_cases h0 : c.secs < 0
    · have := h3.2.1 h0
      simp [Timestamp.now, this] at hn
    · have : 4294967296 ≤ c.secs := by
        unfold ClockInRange at h; omega
      have := h3.2.2 this
      simp [Timestamp.now, this] at hn
  · intro h; exact ⟨_, now_ok h⟩

/-- **on the success path `sign_with_timestamp` is `signOp`**: a usable key, a timestamp that converts -/
theorem sign_success_eq (ha : AlgOk S pubAlg) {t : TsArg} {n : Nat} (ht : timestampSetter t = .ok n) (k : S.Key)
    (p : Package) :
    signOpE S pubAlg sha256 ((SignerE.key k).sign S) t p = .ok (signOp S sha256 k n p) := signOpE_key ha ht k p

/-- the same for any `Signing` implementation that answers what key `k` would -/
theorem sign_success_eq_any (ha : AlgOk S pubAlg) {t : TsArg} {n : Nat} (ht : timestampSetter t = .ok n) (k : S.Key)
    (p : Package) (signer : Bytes → Nat → Out Bytes)
    (hs : signer (writeHeader p.md.header) n = .ok (S.sign k (writeHeader p.md.header) n)) :
    signOpE S pubAlg sha256 signer t p = .ok (signOp S sha256 k n p) := by
  rw [← signOpE_key (sha256 := sha256) ha ht k p]
  simp only [signOpE, ht, Out.bind_ok, hs, SignerE.sign]

/-- **every way out of `sign_with_timestamp`**, in the order the code takes them -/
theorem sign_outcomes (signer : Bytes → Nat → Out Bytes) (t : TsArg) (p : Package) :
    (∃ s, timestampSetter t = .panic s ∧ signOpE S pubAlg sha256 signer t p = .panic s) ∨
    (∃ n, timestampSetter t = .ok n ∧
      ((∃ c, signer (writeHeader p.md.header) n = .err c ∧ signOpE S pubAlg sha256 signer t p = .err c) ∨
       (∃ s, signer (writeHeader p.md.header) n = .panic s ∧ signOpE S pubAlg sha256 signer t p = .panic s) ∨
       (∃ sig, signer (writeHeader p.md.header) n = .ok sig ∧
         ((pubAlg sig = none ∧ signOpE S pubAlg sha256 signer t p = .err "NoSignatureFound") ∨
          (∃ a, pubAlg sig = some a ∧ legacyTagOf a = none ∧
            signOpE S pubAlg sha256 signer t p = .err "UnsupportedPGPKeyType") ∨
          (∃ a tag, pubAlg sig = some a ∧ legacyTagOf a = some tag ∧
            signOpE S pubAlg sha256 signer t p = .ok ⟨⟨p.md.lead,
              Bld.signatureHeader [(tag, sig, S.b64enc sig)] (some (shaHex sha256 (writeHeader p.md.header))),
              p.md.header⟩, p.content⟩))))) := by
  cases ht : timestampSetter t with
  | panic s => left; exact ⟨s, rfl, by simp only [signOpE, ht, Out.bind_panic]⟩
  | err c =>
    -- the setter never answers `Err`: a failed conversion is unwrapped
    exfalso
    cases t with
    | secs n => cases ht
    | src s => simp only [timestampSetter] at ht; split at ht <;> cases ht
  | ok n =>
    right
    refine ⟨n, rfl, ?_⟩
    cases hs : signer (writeHeader p.md.header) n with
    | err c => left; exact ⟨c, rfl, by simp only [signOpE, ht, Out.bind_ok, hs, Out.bind_err]⟩
    | panic s => right; left; exact ⟨s, rfl, by simp only [signOpE, ht, Out.bind_ok, hs, Out.bind_panic]⟩
    | ok sig =>
      right; right
      refine ⟨sig, rfl, ?_⟩
      cases hp : pubAlg sig with
      | none =>
        left
        exact ⟨rfl, by simp only [signOpE, ht, Out.bind_ok, hs, sigBuild_one_nosig S.b64enc _ hp, Out.bind_err]⟩
      | some a =>
        right
        cases hl : legacyTagOf a with
        | none =>
          left
          exact ⟨a, rfl, hl, by
            simp only [signOpE, ht, Out.bind_ok, hs, sigBuild_one_unsupported S.b64enc _ hp hl, Out.bind_err]⟩
        | some tag =>
          right
          exact ⟨a, tag, rfl, hl, by
            simp only [signOpE, ht, Out.bind_ok, hs, sigBuild_one_ok S.b64enc _ hp hl]; rfl⟩

/-- **a failed signing leaves the package exactly as it was** (`&mut self` view: the package afterwards and the
result; a caller that goes on after the `Err` goes on with the same package) -/
theorem sign_fail_unchanged (signer : Bytes → Nat → Out Bytes) (t : TsArg) (p : Package) (c : String)
    (h : signOpE S pubAlg sha256 signer t p = .err c) :
    asMut p (signOpE S pubAlg sha256 signer t p) = (p, .err c) ∧
    settle p (signOpE S pubAlg sha256 signer t p) = .ok p := by
  rw [h]; exact ⟨rfl, rfl⟩

/-- … and a successful one replaces the signature header and nothing else -/
theorem sign_ok_frame (signer : Bytes → Nat → Out Bytes) (t : TsArg) (p q : Package)
    (h : signOpE S pubAlg sha256 signer t p = .ok q) :
    q.md.lead = p.md.lead ∧ q.md.header = p.md.header ∧ q.content = p.content := by
  simp only [signOpE, Out.bind_eq_ok, Out.pure_eq, Out.ok.injEq] at h
  obtain ⟨_, _, _, _, _, _, rfl⟩ := h
  exact ⟨rfl, rfl, rfl⟩

/-- **`sign_with_timestamp` panics exactly when it is given a `SystemTime` / `DateTime` before 1970 or from
2106-02-07T06:28:16Z on** — whatever the signer (that does not panic itself) would have answered -/
theorem sign_panics_iff (signer : Bytes → Nat → Out Bytes) (hsg : ∀ m n, (signer m n).isPanic = false) (t : TsArg)
    (p : Package) :
    (signOpE S pubAlg sha256 signer t p).isPanic = true ↔ ¬ C17.TsInRange t := by
  rw [← C17.timestamp_setter_panics_iff]
  unfold signOpE
  cases ht : timestampSetter t with
  | ok n =>
    have h : ((signer (writeHeader p.md.header) n >>= fun sig =>
        sigBuilderBuild pubAlg S.b64enc [sig] (some (shaHex sha256 (writeHeader p.md.header))) >>= fun h =>
          (pure ⟨⟨p.md.lead, h, p.md.header⟩, p.content⟩ : Out Package))).isPanic = false :=
      Out.bind_not_panic (hsg _ _) (fun sig _ => Out.bind_not_panic (sigBuilderBuild_not_panic _ _ _) (fun _ _ => rfl))
    simp only [Out.bind_ok]
    rw [h]; simp [Out.isPanic]
  | err c => simp [Out.isPanic]
  | panic s => simp [Out.isPanic]

/-- **`sign(s)` is `sign_with_timestamp(s, now)`**: for a clock inside the range it is the call with the clock's
whole seconds — the same as handing over the `SystemTime` itself -/
theorem sign_now_eq (signer : Bytes → Nat → Out Bytes) {c : Timestamp.Instant} (h : ClockInRange c) (p : Package) :
    signNowE S pubAlg sha256 signer c p = signOpE S pubAlg sha256 signer (.secs c.secs.toNat) p ∧
    signNowE S pubAlg sha256 signer c p = signOpE S pubAlg sha256 signer (.src (.sys c)) p := by
  have h1 := signNowE_ok (S := S) (pubAlg := pubAlg) (sha256 := sha256) (now_ok h) signer p
  refine ⟨h1, ?_⟩
  rw [h1]
  have : timestampSetter (.src (.sys c)) = .ok c.secs.toNat := C17.timestamp_setter_ok (.sys c) h
  simp only [signOpE, this]
  rfl

/-- … and outside the range `Timestamp::now()` panics before anything else happens -/
theorem sign_now_panics_iff (signer : Bytes → Nat → Out Bytes) (hsg : ∀ m n, (signer m n).isPanic = false)
    (c : Timestamp.Instant) (p : Package) :
    (signNowE S pubAlg sha256 signer c p).isPanic = true ↔ ¬ ClockInRange c := by
  constructor
  · intro hp hc
    rw [(sign_now_eq signer hc p).1, sign_panics_iff signer hsg] at hp
    exact hp trivial
  · intro hc
    have h3 := C20.ts_exact_systemtime c
    by_cases h0 : c.secs < 0
    · have := h3.2.1 h0
      simp [signNowE, Timestamp.now, this, Timestamp.Conv.toOut, Out.isPanic]
    · have : 4294967296 ≤ c.secs := by unfold ClockInRange at hc; omega
      have := h3.2.2 this
      simp [signNowE, Timestamp.now, this, Timestamp.Conv.toOut, Out.isPanic]

/-- **`clear_signatures` cannot fail**: its `build()?` parses no signature -/
theorem clear_total (b64enc : Bytes → Bytes) (p : Package) :
    clearOpE pubAlg b64enc sha256 p = .ok (clearOp sha256 p) := rfl

/-! ### histories with failing signing attempts -/

/-- **a history with failed signing attempts is the history of its effective operations** — from ANY package: refused
attempts (`Err` from the signer, bytes `build` turns down) change nothing, successful ones are `signOp` -/
theorem runF_eq_run (ha : AlgOk S pubAlg) (ops : List (OpF S.Key)) (hq : ∀ o ∈ ops, o.Quiet pubAlg) (p : Package) :
    runF S pubAlg sha256 ops p = run S sha256 (effectiveOps ops) p := runF_quiet ha ops hq p

/-- a history of failed attempts only ends with the package it started from -/
theorem runF_failed_only (ha : AlgOk S pubAlg) (ops : List (OpF S.Key)) (hq : ∀ o ∈ ops, o.Quiet pubAlg)
    (he : effectiveOps ops = []) (p : Package) : runF S pubAlg sha256 ops p = .ok p := by
  rw [runF_eq_run ha ops hq, he]; rfl

/-- the operations that panic: an out-of-range timestamp argument / clock -/
def Panics {K : Type} : OpF K → Prop
  | .sign _ t => ¬ C17.TsInRange t
  | .signNow _ c => ¬ ClockInRange c
  | _ => False

theorem stepF_isPanic_iff (o : OpF S.Key) (p : Package) :
    (stepF S pubAlg sha256 o p).isPanic = true ↔ Panics o := by
  have settle_panic : ∀ r : Out Package, (settle p r).isPanic = r.isPanic := fun r => by cases r <;> rfl
  cases o with
  | writeParse =>
    have h : (stepF S pubAlg sha256 .writeParse p).isPanic = false := C04.parsePackage_total _
    rw [h]; exact ⟨fun h => (by cases h), fun h => h.elim⟩
  | clear =>
    have h : (stepF S pubAlg sha256 .clear p).isPanic = false := rfl
    rw [h]; exact ⟨fun h => (by cases h), fun h => h.elim⟩
  | sign sg t =>
    simp only [stepF, attemptF, settle_panic, Panics]
    exact sign_panics_iff _ (SignerE.sign_not_panic sg) t p
  | signNow sg c =>
    simp only [stepF, attemptF, settle_panic, Panics]
    exact sign_now_panics_iff _ (SignerE.sign_not_panic sg) c p

/-- **no history panics unless a timestamp is out of range** (any start package, any signers) -/
theorem runF_no_panic (ops : List (OpF S.Key)) (h : ∀ o ∈ ops, ¬ Panics o) (p : Package) :
    (runF S pubAlg sha256 ops p).isPanic = false := by
  induction ops generalizing p with
  | nil => rfl
  | cons o os ih =>
    simp only [runF]
    refine Out.bind_not_panic ?_ (fun q _ => ih (fun x hx => h x (List.mem_cons_of_mem _ hx)) q)
    cases hp : (stepF S pubAlg sha256 o p).isPanic with
    | false => rfl
    | true => exact absurd ((stepF_isPanic_iff o p).mp hp) (h o (List.mem_cons_self ..))

/-- **a history panics at its first out-of-range timestamp**: quiet operations before it, from a well-formed start -/
theorem runF_panics_at {p0 : Package} (ha : AlgOk S pubAlg) (wf : MetadataWF p0.md)
    (ok : SigRecsOk S sha256 (writeHeader p0.md.header)) (pre : List (OpF S.Key)) (hq : ∀ o ∈ pre, o.Quiet pubAlg)
    (o : OpF S.Key) (ho : Panics o) (rest : List (OpF S.Key)) :
    (runF S pubAlg sha256 (pre ++ o :: rest) p0).isPanic = true := by
  rw [runF_append, runF_eq_run ha pre hq, run_total (legacyOk_of_algOk ha) wf ok]
  simp only [Out.bind_ok, runF]
  have := (stepF_isPanic_iff (S := S) (pubAlg := pubAlg) (sha256 := sha256) o
    (stateOf S sha256 p0 (stateAfter .initial (effectiveOps pre)))).mpr ho
  cases hs : stepF S pubAlg sha256 o (stateOf S sha256 p0 (stateAfter .initial (effectiveOps pre))) with
  | panic s => rfl
  | ok q => rw [hs] at this; cases this
  | err c => rw [hs] at this; cases this

/-! the history theorems, for histories with failing attempts (`AlgOk` in place of `LegacyOk`) -/

theorem historyF_total {p0 : Package} (ha : AlgOk S pubAlg) (wf : MetadataWF p0.md)
    (ok : SigRecsOk S sha256 (writeHeader p0.md.header)) (ops : List (OpF S.Key)) (hq : ∀ o ∈ ops, o.Quiet pubAlg) :
    runF S pubAlg sha256 ops p0 = .ok (stateOf S sha256 p0 (stateAfter .initial (effectiveOps ops))) := by
  rw [runF_eq_run ha ops hq]; exact run_total (legacyOk_of_algOk ha) wf ok _

theorem historyF_bytes {p0 p : Package} (ha : AlgOk S pubAlg) (wf : MetadataWF p0.md)
    (ok : SigRecsOk S sha256 (writeHeader p0.md.header)) (ops : List (OpF S.Key)) (hq : ∀ o ∈ ops, o.Quiet pubAlg)
    (h : runF S pubAlg sha256 ops p0 = .ok p) :
    writeHeader p.md.header = writeHeader p0.md.header ∧ p.content = p0.content
    ∧ p.md.header = p0.md.header ∧ p.md.lead = p0.md.lead := by
  rw [runF_eq_run ha ops hq] at h; exact history_bytes (legacyOk_of_algOk ha) wf ok _ h

theorem historyF_writeParse {p0 p : Package} (ha : AlgOk S pubAlg) (wf : MetadataWF p0.md)
    (ok : SigRecsOk S sha256 (writeHeader p0.md.header)) (ops : List (OpF S.Key)) (hq : ∀ o ∈ ops, o.Quiet pubAlg)
    (h : runF S pubAlg sha256 ops p0 = .ok p) : writeParse p = .ok p := by
  rw [runF_eq_run ha ops hq] at h; exact history_writeParse (legacyOk_of_algOk ha) wf ok _ h

theorem historyF_digests {p0 p : Package} (ha : AlgOk S pubAlg) (wf : MetadataWF p0.md)
    (ok : SigRecsOk S sha256 (writeHeader p0.md.header)) (hp : PayloadDigestOk sha256 p0) (ops : List (OpF S.Key))
    (hq : ∀ o ∈ ops, o.Quiet pubAlg) (hs : stateAfter .initial (effectiveOps ops) ≠ .initial)
    (h : runF S pubAlg sha256 ops p0 = .ok p) : verifyDigests md5 sha1 sha256 p = .ok () := by
  rw [runF_eq_run ha ops hq] at h; exact history_digests (legacyOk_of_algOk ha) wf ok hp _ hs h

/-- **exactly the key of the last SUCCESSFUL signing verifies** — refused attempts in between do not count -/
theorem historyF_verify {p0 p : Package} (ha : AlgOk S pubAlg) (hc : S.Correct) (hbind : S.Binds) (hb64 : S.B64)
    (wf : MetadataWF p0.md) (ok : SigRecsOk S sha256 (writeHeader p0.md.header)) (hp : PayloadDigestOk sha256 p0)
    (ops : List (OpF S.Key)) (hq : ∀ o ∈ ops, o.Quiet pubAlg) (k : S.Key) (hs : lastSigner (effectiveOps ops) = some k)
    (h : runF S pubAlg sha256 ops p0 = .ok p) (k' : S.Key) :
    verifyWith S md5 sha1 sha256 k' p = .ok () ↔ k' = k := by
  rw [runF_eq_run ha ops hq] at h; exact history_verify (legacyOk_of_algOk ha) hc hbind hb64 wf ok hp _ k hs h k'

theorem historyF_verify_none {p0 p : Package} (ha : AlgOk S pubAlg) (wf : MetadataWF p0.md)
    (ok : SigRecsOk S sha256 (writeHeader p0.md.header)) (hu : Unsigned p0.md.signature)
    (ops : List (OpF S.Key)) (hq : ∀ o ∈ ops, o.Quiet pubAlg) (hs : lastSigner (effectiveOps ops) = none)
    (h : runF S pubAlg sha256 ops p0 = .ok p) (k' : S.Key) : verifyWith S md5 sha1 sha256 k' p ≠ .ok () := by
  rw [runF_eq_run ha ops hq] at h; exact history_verify_none (legacyOk_of_algOk ha) wf ok hu _ hs h k'

theorem historyF_keyids {p0 p : Package} (ha : AlgOk S pubAlg) (hi : S.IssuerOk) (hb64 : S.B64)
    (wf : MetadataWF p0.md) (ok : SigRecsOk S sha256 (writeHeader p0.md.header))
    (ops : List (OpF S.Key)) (hq : ∀ o ∈ ops, o.Quiet pubAlg) (k : S.Key) (hs : lastSigner (effectiveOps ops) = some k)
    (h : runF S pubAlg sha256 ops p0 = .ok p) : keyIds S p = .ok [S.keyId k] := by
  rw [runF_eq_run ha ops hq] at h; exact history_keyids (legacyOk_of_algOk ha) hi hb64 wf ok _ k hs h

theorem historyF_legacy {p0 p : Package} (ha : AlgOk S pubAlg) (wf : MetadataWF p0.md)
    (ok : SigRecsOk S sha256 (writeHeader p0.md.header)) (ops : List (OpF S.Key)) (hq : ∀ o ∈ ops, o.Quiet pubAlg)
    (k : S.Key) (t : Nat) (hs : stateAfter .initial (effectiveOps ops) = .signed k t)
    (h : runF S pubAlg sha256 ops p0 = .ok p) :
    getBinary p.md.signature (S.legacyTag k) = .ok (S.sign k (writeHeader p0.md.header) t) ∧
    (S.legacyTag k = SigTag.RPMSIGTAG_RSA ∨ S.legacyTag k = SigTag.RPMSIGTAG_DSA) := by
  rw [runF_eq_run ha ops hq] at h
  exact ⟨history_legacy (legacyOk_of_algOk ha) wf ok _ k t hs h, legacyOk_of_algOk ha k⟩

/-! the original theorems with `LegacyOk` discharged (`AlgOk` is a statement about the scheme's signatures and the
SCRAPED table, not about the range of tags) -/

theorem run_total_discharged {p0 : Package} (ha : AlgOk S pubAlg) (wf : MetadataWF p0.md)
    (ok : SigRecsOk S sha256 (writeHeader p0.md.header)) (ops : List (Op S.Key)) :
    run S sha256 ops p0 = .ok (stateOf S sha256 p0 (stateAfter .initial ops)) :=
  run_total (legacyOk_of_algOk ha) wf ok ops

theorem history_bytes_discharged {p0 p : Package} (ha : AlgOk S pubAlg) (wf : MetadataWF p0.md)
    (ok : SigRecsOk S sha256 (writeHeader p0.md.header)) (ops : List (Op S.Key)) (h : run S sha256 ops p0 = .ok p) :
    writeHeader p.md.header = writeHeader p0.md.header ∧ p.content = p0.content
    ∧ p.md.header = p0.md.header ∧ p.md.lead = p0.md.lead := history_bytes (legacyOk_of_algOk ha) wf ok ops h

theorem history_digests_discharged {p0 p : Package} (ha : AlgOk S pubAlg) (wf : MetadataWF p0.md)
    (ok : SigRecsOk S sha256 (writeHeader p0.md.header)) (hp : PayloadDigestOk sha256 p0) (ops : List (Op S.Key))
    (hs : stateAfter .initial ops ≠ .initial) (h : run S sha256 ops p0 = .ok p) :
    verifyDigests md5 sha1 sha256 p = .ok () := history_digests (legacyOk_of_algOk ha) wf ok hp ops hs h

theorem history_verify_discharged {p0 p : Package} (ha : AlgOk S pubAlg) (hc : S.Correct) (hbind : S.Binds) (hb64 : S.B64)
    (wf : MetadataWF p0.md) (ok : SigRecsOk S sha256 (writeHeader p0.md.header)) (hp : PayloadDigestOk sha256 p0)
    (ops : List (Op S.Key)) (k : S.Key) (hs : lastSigner ops = some k) (h : run S sha256 ops p0 = .ok p) (k' : S.Key) :
    verifyWith S md5 sha1 sha256 k' p = .ok () ↔ k' = k :=
  history_verify (legacyOk_of_algOk ha) hc hbind hb64 wf ok hp ops k hs h k'

theorem history_verify_none_discharged {p0 p : Package} (ha : AlgOk S pubAlg) (wf : MetadataWF p0.md)
    (ok : SigRecsOk S sha256 (writeHeader p0.md.header)) (hu : Unsigned p0.md.signature)
    (ops : List (Op S.Key)) (hs : lastSigner ops = none) (h : run S sha256 ops p0 = .ok p) (k' : S.Key) :
    verifyWith S md5 sha1 sha256 k' p ≠ .ok () := history_verify_none (legacyOk_of_algOk ha) wf ok hu ops hs h k'

theorem history_keyids_discharged {p0 p : Package} (ha : AlgOk S pubAlg) (hi : S.IssuerOk) (hb64 : S.B64)
    (wf : MetadataWF p0.md) (ok : SigRecsOk S sha256 (writeHeader p0.md.header))
    (ops : List (Op S.Key)) (k : S.Key) (hs : lastSigner ops = some k) (h : run S sha256 ops p0 = .ok p) :
    keyIds S p = .ok [S.keyId k] := history_keyids (legacyOk_of_algOk ha) hi hb64 wf ok ops k hs h

/-- the legacy tag of a signed package is RPMSIGTAG_RSA or RPMSIGTAG_DSA and carries the last signer's raw signature -/
theorem history_legacy_discharged {p0 p : Package} (ha : AlgOk S pubAlg) (wf : MetadataWF p0.md)
    (ok : SigRecsOk S sha256 (writeHeader p0.md.header)) (ops : List (Op S.Key)) (k : S.Key) (t : Nat)
    (hs : stateAfter .initial ops = .signed k t) (h : run S sha256 ops p0 = .ok p) :
    getBinary p.md.signature (S.legacyTag k) = .ok (S.sign k (writeHeader p0.md.header) t) ∧
    (S.legacyTag k = SigTag.RPMSIGTAG_RSA ∨ S.legacyTag k = SigTag.RPMSIGTAG_DSA) :=
  ⟨history_legacy (legacyOk_of_algOk ha) wf ok ops k t hs h, legacyOk_of_algOk ha k⟩

/-! … and for a `PgpScheme` neither `LegacyOk` nor `IssuerOk` nor `AlgOk` is assumed: what is left is that a written
packet reads back (`ParseSeal`) and the cryptography (`Correct`, `Binds`), base64 (`B64`), sizes -/

theorem pgp_history_verify (P : PgpScheme) {p0 p : Package} (hps : P.ParseSeal) (hc : P.toSigScheme.Correct)
    (hbind : P.toSigScheme.Binds) (hb64 : P.toSigScheme.B64) (wf : MetadataWF p0.md)
    (ok : SigRecsOk P.toSigScheme sha256 (writeHeader p0.md.header)) (hp : PayloadDigestOk sha256 p0)
    (ops : List (OpF P.Key)) (hq : ∀ o ∈ ops, o.Quiet P.pubAlg) (k : P.Key)
    (hs : lastSigner (effectiveOps ops) = some k)
    (h : runF P.toSigScheme P.pubAlg sha256 ops p0 = .ok p) (k' : P.Key) :
    verifyWith P.toSigScheme md5 sha1 sha256 k' p = .ok () ↔ k' = k :=
  historyF_verify (P.algOk hps) hc hbind hb64 wf ok hp ops hq k hs h k'

theorem pgp_history_keyids (P : PgpScheme) {p0 p : Package} (hps : P.ParseSeal) (hb64 : P.toSigScheme.B64)
    (wf : MetadataWF p0.md) (ok : SigRecsOk P.toSigScheme sha256 (writeHeader p0.md.header))
    (ops : List (OpF P.Key)) (hq : ∀ o ∈ ops, o.Quiet P.pubAlg) (k : P.Key)
    (hs : lastSigner (effectiveOps ops) = some k)
    (h : runF P.toSigScheme P.pubAlg sha256 ops p0 = .ok p) :
    keyIds P.toSigScheme p = .ok [P.keyId k] :=
  historyF_keyids (P.algOk hps) (P.issuerOk hps) hb64 wf ok ops hq k hs h

end signing_side

/-! ### non-vacuity: the symbolic scheme, toy hash functions, a concrete start package and history -/
section nonvacuity
open RpmVerif.Sign.Sym

/-- key ids: one byte naming the key -/
def ids (k : UInt8) : Bytes := [k]
abbrev T : SigScheme := scheme ids

def tMd5 (bs : Bytes) : Bytes := [bs.length.toUInt8, bs.foldl (· + ·) 0]
def tSha1 (bs : Bytes) : Bytes := [bs.foldl (· + ·) 0]
def tSha256 (bs : Bytes) : Bytes := [bs.foldl (· ^^^ ·) 0, bs.length.toUInt8, 171]

def content0 : Bytes := [7, 9, 9, 200]

/-- main header as the builder lays it out (records in tag order): name, payload digest, digest algorithm 8 -/
def hdr0 : Header := fromSorted [(IndexTag.RPMTAG_NAME, .str [97, 98, 99]),
    (IndexTag.RPMTAG_PAYLOADDIGEST, .strArray [hexLower (tSha256 content0)]),
    (IndexTag.RPMTAG_PAYLOADDIGESTALGO, .int32 [8])] IndexTag.RPMTAG_HEADERIMMUTABLE

/-- an unsigned package as the builder makes it: digest-only signature header -/
def p0 : Package := ⟨⟨Bld.leadNew [116], clearedSigE tSha256 (writeHeader hdr0), hdr0⟩, content0⟩

-- every hypothesis of the theorems holds for these values
example : T.Correct ∧ T.Binds ∧ T.IssuerOk ∧ T.B64 ∧ T.LegacyOk :=
  ⟨correct ids, binds ids, issuerOk ids, b64 ids, legacyOk ids⟩
theorem p0_reparse : parsePackage (writePackage p0) = .ok p0 := by decide +kernel
theorem p0_wf : MetadataWF p0.md := C16.parsed_wf p0_reparse
theorem p0_recs : SigRecsOk T tSha256 (writeHeader p0.md.header) :=
  sigRecsOk ids tSha256 _ (by decide +kernel)
theorem p0_payload : PayloadDigestOk tSha256 p0 := by unfold PayloadDigestOk; decide +kernel
theorem p0_unsigned : Unsigned p0.md.signature := by
  have e : getStringArray p0.md.signature SigTag.RPMSIGTAG_OPENPGP = .err "notfound" := by decide +kernel
  refine ⟨fun l h => ?_, by decide +kernel, by decide +kernel, by decide +kernel⟩
  rw [e] at h; cases h
example : verifyDigests tMd5 tSha1 tSha256 p0 = .ok () := by decide +kernel

/-- two concrete agreements, legacy branch included (DSA rejected → `verify`; nothing readable → `nosig`) -/
example : verifyWith T (fun _ => []) (fun _ => []) (fun _ => []) (2 : UInt8)
      ⟨⟨Bld.leadNew [116], ⟨1, 1, [⟨267, .bin [9], 0, 1⟩], [9]⟩, Header.empty⟩, []⟩ = .err "verify"
    ∧ (Verify.verifySignatureS (fun _ => []) (fun _ => []) (fun _ => []) T.b64dec
        (Sign.verifierOf T (2 : UInt8))
        ⟨⟨Bld.leadNew [116], ⟨1, 1, [⟨267, .bin [9], 0, 1⟩], [9]⟩, Header.empty⟩, []⟩).1 = .err "verify"
    ∧ verifyWith T (fun _ => []) (fun _ => []) (fun _ => []) (2 : UInt8)
      ⟨⟨Bld.leadNew [116], Header.empty, Header.empty⟩, []⟩ = .err "nosig" := by decide +kernel

/-- a history: key 2 (DSA tag) signs, write + parse, key 0 (RSA tag) signs, clear, key 3 signs, write + parse -/
def hist : List (Op UInt8) := [.sign 2 5, .writeParse, .sign 0 7, .clear, .sign 3 1, .writeParse]

/-- verify bits for keys 0..3, reported key ids, digests, bytes untouched — after a history (evaluable form) -/
def observe (ops : List (Op UInt8)) : Out (List Bool × Out (List Bytes) × Out Unit × Bool) :=
  (runE T tSha256 ops p0).map fun p =>
    (([0, 1, 2, 3] : List UInt8).map fun k => decide (verifyWith T tMd5 tSha1 tSha256 k p = .ok ()), keyIds T p,
      verifyDigests tMd5 tSha1 tSha256 p,
      decide (writeHeader p.md.header = writeHeader p0.md.header ∧ p.content = p0.content))

example : lastSigner hist = some 3 := by decide
example : observe hist = .ok ([false, false, false, true], .ok [[3]], .ok (), true) := by decide +kernel
example : observe (hist.take 3) = .ok ([true, false, false, false], .ok [[0]], .ok (), true) := by decide +kernel
example : observe (hist.take 2) = .ok ([false, false, true, false], .ok [[2]], .ok (), true) := by decide +kernel
example : observe (hist.take 4) = .ok ([false, false, false, false], .err "nosig", .ok (), true) := by decide +kernel
example : observe [] = .ok ([false, false, false, false], .err "nosig", .ok (), true) := by decide +kernel
-- `runE` is `run` (the kernel cannot evaluate `mergeSort`, so the evaluation goes through the sorted form)
example : run T tSha256 hist p0 = runE T tSha256 hist p0 := run_eq_runE (legacyOk ids) _ _ _
-- the general theorems, instantiated
example (p : Package) (h : run T tSha256 hist p0 = .ok p) (k' : UInt8) :
    verifyWith T tMd5 tSha1 tSha256 k' p = .ok () ↔ k' = 3 :=
  history_verify (legacyOk ids) (correct ids) (binds ids) (b64 ids) p0_wf p0_recs p0_payload hist (3 : UInt8) (by decide) h k'
example (p : Package) (h : run T tSha256 hist p0 = .ok p) : keyIds T p = .ok [[3]] :=
  history_keyids (legacyOk ids) (issuerOk ids) (b64 ids) p0_wf p0_recs hist (3 : UInt8) (by decide) h
example (p : Package) (h : run T tSha256 (hist.take 4) p0 = .ok p) (k' : UInt8) :
    verifyWith T tMd5 tSha1 tSha256 k' p ≠ .ok () :=
  history_verify_none (legacyOk ids) p0_wf p0_recs p0_unsigned (hist.take 4) (by decide) h k'


/-! #### the signing side: non-vacuity -/
section signing_side_nonvacuity
open RpmVerif.Gen.SigAlgs RpmVerif.AddData

-- the scraped tables, as they stand
example : legacyTagOf 1 = some SigTag.RPMSIGTAG_RSA ∧ legacyTagOf 19 = some SigTag.RPMSIGTAG_DSA ∧
    legacyTagOf 22 = some SigTag.RPMSIGTAG_DSA ∧ legacyTagOf 27 = some SigTag.RPMSIGTAG_DSA ∧ legacyTagOf 17 = none := by decide
example : signerNew 22 = .ok .EdDSA ∧ signerNew 27 = .err "UnsupportedPGPKeyType" ∧ verifierLoad 27 = .ok .EdDSA ∧
    verifierLoad 17 = .err "UnsupportedPGPKeyType" := by decide
example : mkConfig .EdDSA [1] [2, 2] 5 = ⟨4, 0, 22, 8, [.created 5, .issuer [1], .fingerprint [2, 2]], []⟩ := by decide
example : signerCreated 4294967295 = .ok 4294967295 := by decide
-- chrono's range does end somewhere: the unwrap is not vacuously safe
example : signerCreated 8210266876800 = .panic "timestamp_opt-unwrap" := by decide
-- the symbolic scheme satisfies `AlgOk`, so every `_discharged` / `historyF_*` theorem applies to it
example : AlgOk T Sym.pubAlg := algOk ids

/-- a history with attempts that fail in every way: a refusing signer, a foreign signer whose bytes are no
signature packet, between them real signings with a `u32`, a `SystemTime`, a `DateTime` and the wall clock -/
def histF : List (OpF T.Key) :=
  [.sign (.key (2 : UInt8)) (.src (.chrono ⟨⟨5, 999999999, by decide⟩, 3600⟩)), .sign (.failing "SignError") (.secs 9), .writeParse,
   .sign (.raw [1, 2, 3]) (.src (.sys ⟨7, 0, by decide⟩)), .signNow (.key (0 : UInt8)) ⟨7, 5, by decide⟩,
   .sign (.failing "KeyNotFoundError") (.secs 1), .signNow (.raw []) ⟨8, 0, by decide⟩]

theorem histF_quiet : ∀ o ∈ histF, o.Quiet Sym.pubAlg := by
  intro o ho
  simp only [histF, List.mem_cons, List.not_mem_nil, or_false] at ho
  rcases ho with rfl | rfl | rfl | rfl | rfl | rfl | rfl
  · exact ⟨⟨5, by decide⟩, trivial⟩
  · exact ⟨⟨9, rfl⟩, trivial⟩
  · trivial
  · exact ⟨⟨7, by decide⟩, .inl (by decide)⟩
  · exact ⟨⟨7, by decide⟩, trivial⟩
  · exact ⟨⟨1, rfl⟩, trivial⟩
  · exact ⟨⟨8, by decide⟩, .inl (by decide)⟩

theorem histF_effective : effectiveOps histF = ([.sign (2 : UInt8) 5, .writeParse, .sign (0 : UInt8) 7] : List (Op T.Key)) := by
  simp only [histF, effectiveOps, List.filterMap_cons, List.filterMap_nil, OpF.effective]
  rfl
example : lastSigner (effectiveOps histF) = some (0 : UInt8) := by rw [histF_effective]; rfl
example : runF T Sym.pubAlg tSha256 histF p0 = run T tSha256 ([.sign (2 : UInt8) 5, .writeParse, .sign (0 : UInt8) 7] : List (Op T.Key)) p0 := by
  rw [← histF_effective]; exact runF_eq_run (algOk ids) histF histF_quiet p0
example (p : Package) (h : runF T Sym.pubAlg tSha256 histF p0 = .ok p) (k' : UInt8) :
    verifyWith T tMd5 tSha1 tSha256 k' p = .ok () ↔ k' = 0 :=
  historyF_verify (algOk ids) (correct ids) (binds ids) (b64 ids) p0_wf p0_recs p0_payload histF histF_quiet (0 : UInt8)
    (by rw [histF_effective]; rfl) h k'
example (p : Package) (h : runF T Sym.pubAlg tSha256 histF p0 = .ok p) : keyIds T p = .ok [[0]] :=
  historyF_keyids (algOk ids) (issuerOk ids) (b64 ids) p0_wf p0_recs histF histF_quiet (0 : UInt8)
    (by rw [histF_effective]; rfl) h
-- the state the history ends in is the one the plain history ends in (evaluated above: `observe (hist.take 3)`)
example : runF T Sym.pubAlg tSha256 histF p0 = .ok (stateOf T tSha256 p0 (.signed (0 : UInt8) 7)) := by
  rw [historyF_total (algOk ids) p0_wf p0_recs histF histF_quiet, histF_effective]; rfl

-- failures leave the package alone: each `Err` class
example : signOpE T Sym.pubAlg tSha256 ((SignerE.failing "SignError").sign T) (.secs 9) p0 = .err "SignError" := rfl
example : signOpE T Sym.pubAlg tSha256 ((SignerE.raw [1, 2, 3]).sign T) (.secs 9) p0 = .err "NoSignatureFound" := by decide
-- a foreign signer answering with a token that names a key of an algorithm `build` has no arm for
example : signOpE T (fun _ => some 17) tSha256 ((SignerE.raw [1, 2, 3]).sign T) (.secs 9) p0 = .err "UnsupportedPGPKeyType" := by
  decide
example : settle p0 (signOpE T Sym.pubAlg tSha256 ((SignerE.raw [1, 2, 3]).sign T) (.secs 9) p0) = .ok p0 :=
  (sign_fail_unchanged _ _ _ "NoSignatureFound" (by decide)).2

-- the panic: before 1970 / after 2106 as `SystemTime` or `DateTime`, even when the signer would have refused
example : ¬ C17.TsInRange (.src (.sys ⟨-1, 999999999, by decide⟩)) ∧ ¬ C17.TsInRange (.src (.chrono ⟨⟨4294967296, 0, by decide⟩, -3600⟩)) := by
  constructor <;> simp [C17.TsInRange, Timestamp.Source.instant, Timestamp.Instant.floor]
example : signOpE T Sym.pubAlg tSha256 ((SignerE.failing "SignError").sign T) (.src (.sys ⟨-1, 999999999, by decide⟩)) p0
    = .panic "timestamp-unwrap-underflow" := rfl
example : signNowE T Sym.pubAlg tSha256 ((SignerE.key (2 : UInt8)).sign T) ⟨4294967296, 0, by decide⟩ p0 = .panic "now-unwrap-overflow" := rfl
example : (runF T Sym.pubAlg tSha256 (histF ++ .sign (.key (1 : UInt8)) (.src (.chrono ⟨⟨-1, 0, by decide⟩, 0⟩)) :: histF) p0).isPanic = true :=
  runF_panics_at (algOk ids) p0_wf p0_recs histF histF_quiet _
    (by simp [Panics, C17.TsInRange, Timestamp.Source.instant, Timestamp.Instant.floor]) histF

/-! a `PgpScheme` satisfying `ParseSeal`, `Correct`, `Binds`, `B64`: tokens `S k 1…1 0 data` with the creation time in unary -/
def toyP : PgpScheme where
  Key := UInt8
  decEq := inferInstance
  alg := Sym.algOf
  keyId := fun k => [k]
  fingerprint := fun k => [k, k]
  sealSig := fun k m c => 0x53 :: k :: (List.replicate (c.created.getD 0).toNat 1 ++ 0 :: m)
  parse := fun s => match s with
    | a :: k :: r => if a = 0x53 then some (mkConfig (Sym.algOf k) [k] [k, k] ((r.takeWhile (· == 1)).length : Nat)) else none
    | _ => none
  verify := fun k m s => match s with
    | a :: k' :: r => a == 0x53 && k' == k && r.dropWhile (· == 1) == 0 :: m
    | _ => false
  b64enc := Sym.enc
  b64dec := Sym.dec

theorem takeWhile_ones (n : Nat) (m : Bytes) :
    ((List.replicate n (1 : UInt8) ++ 0 :: m).takeWhile (· == 1)).length = n ∧
    (List.replicate n (1 : UInt8) ++ 0 :: m).dropWhile (· == 1) = 0 :: m := by
  induction n with
  | zero => exact ⟨by simp, by simp⟩
  | succ n ih =>
    simp only [List.replicate_succ, List.cons_append, List.takeWhile, List.dropWhile, beq_self_eq_true, List.length_cons]
    exact ⟨by omega, ih.2⟩

theorem toyP_created (k : UInt8) (t : Nat) : ((toyP.configOf k t).created.getD 0).toNat = t := by
  show ((mkConfig _ _ _ (t : Int)).created.getD 0).toNat = t
  rw [mkConfig_created]; simp

theorem toyP_parseSeal : toyP.ParseSeal := by
  intro (k : UInt8) m t
  show (if (0x53 : UInt8) = 0x53 then some (mkConfig (Sym.algOf k) [k] [k, k]
    (((List.replicate ((toyP.configOf k t).created.getD 0).toNat (1 : UInt8) ++ 0 :: m).takeWhile (· == 1)).length : Nat)) else none) = _
  rw [toyP_created, (takeWhile_ones t m).1]
  rfl

theorem toyP_correct : toyP.toSigScheme.Correct := by
  intro (k : UInt8) m t
  show ((0x53 : UInt8) == 0x53 && k == k &&
    (List.replicate ((toyP.configOf k t).created.getD 0).toNat (1 : UInt8) ++ 0 :: m).dropWhile (· == 1) == 0 :: m) = true
  rw [toyP_created, (takeWhile_ones t m).2]
  simp

theorem toyP_binds : toyP.toSigScheme.Binds := by
  intro (k : UInt8) (k' : UInt8) m m' t h
  have h' : ((0x53 : UInt8) == 0x53 && k == k' &&
      (List.replicate ((toyP.configOf k t).created.getD 0).toNat (1 : UInt8) ++ 0 :: m).dropWhile (· == 1) == 0 :: m') = true := h
  rw [toyP_created, (takeWhile_ones t m).2] at h'
  simp only [beq_self_eq_true, Bool.true_and, Bool.and_eq_true, beq_iff_eq, List.cons.injEq, true_and] at h'
  exact ⟨h'.1.symm, h'.2.symm⟩

example : toyP.ParseSeal ∧ toyP.toSigScheme.Correct ∧ toyP.toSigScheme.Binds ∧ toyP.toSigScheme.B64 ∧
    toyP.toSigScheme.IssuerOk ∧ toyP.toSigScheme.LegacyOk ∧ AlgOk toyP.toSigScheme toyP.pubAlg :=
  ⟨toyP_parseSeal, toyP_correct, toyP_binds, b64 ids, pgp_issuerOk toyP toyP_parseSeal, pgp_legacyOk toyP, pgp_algOk toyP toyP_parseSeal⟩
example : toyP.signerSign (2 : UInt8) [9] 3 = .ok [0x53, 2, 1, 1, 1, 0, 9] := by decide

end signing_side_nonvacuity

end nonvacuity

end RpmVerif.C10
