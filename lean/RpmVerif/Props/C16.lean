import RpmVerif.Lemmas.Header
import RpmVerif.Props.C03
/-!
# C16 — reported segment offsets are the real byte boundaries

For every well-formed metadata value (every parsed package is well formed: `parsed_wf`; so is every
value the builder / signer produce, see C09) and every payload: the offsets reported by
`get_package_segment_offsets` are the lengths of the segments actually written before them.
-/
namespace RpmVerif.C16
open RpmVerif.Hdr RpmVerif.Gen RpmVerif

theorem writeHeader_length {h : Header} (wf : HeaderWF h) : (writeHeader h).length = h.size := by
  rw [writeHeader_eq]
  simp only [hdrBytes, List.length_append, hmagic, be32_length, writeRaws_length, List.length_map, wf.nEq, wf.dlEq,
    List.length_cons, List.length_nil, Header.size, ihs, ies]
  try omega

theorem writeSignature_length {h : Header} (wf : HeaderWF h) :
    (writeSignature h).length = h.size + sigPad h.dataSize := by
  simp [writeSignature, writeHeader_length wf]

/-- every successfully parsed package is well formed -/
theorem parsed_wf {bs p} (hp : parsePackage bs = .ok p) : MetadataWF p.md := by
  simp only [parsePackage, Out.bind_eq_ok] at hp
  obtain ⟨⟨m, r⟩, h1, hp⟩ := hp
  simp only [Out.pure_eq, Out.ok.injEq] at hp
  subst hp
  obtain ⟨_, _, _, _, _, _, _, wf⟩ := parseMetadata_ok h1
  exact wf

/-- **Main theorem**: the offsets are exactly the positions of the segments in the written bytes. -/
theorem offsets_exact {m : Metadata} (wf : MetadataWF m) (c : Bytes) :
    let o := offsets m
    let w := writePackage ⟨m, c⟩
    o.lead = 0 ∧ o.sig = (writeLead m.lead).length
    ∧ w.drop o.sig = writeSignature m.signature ++ writeHeader m.header ++ c
    ∧ w.drop o.hdr = writeHeader m.header ++ c
    ∧ w.drop o.payload = c
    ∧ w.length - o.payload = c.length
    ∧ 0 < o.sig ∧ o.sig < o.hdr ∧ o.hdr < o.payload := by
  have hl := writeLead_length wf.lead
  have hs := writeSignature_length wf.sig
  have hh := writeHeader_length wf.hdr
  have e1 : writePackage ⟨m, c⟩ = writeLead m.lead ++ (writeSignature m.signature ++ writeHeader m.header ++ c) := by
    simp [writePackage, writeMetadata, List.append_assoc]
  have e2 : writePackage ⟨m, c⟩ = (writeLead m.lead ++ writeSignature m.signature) ++ (writeHeader m.header ++ c) := by
    simp [writePackage, writeMetadata, List.append_assoc]
  have e3 : writePackage ⟨m, c⟩ = (writeLead m.lead ++ writeSignature m.signature ++ writeHeader m.header) ++ c := by
    simp [writePackage, writeMetadata, List.append_assoc]
  have o2 : (offsets m).hdr = (writeLead m.lead ++ writeSignature m.signature).length := by
    simp only [offsets, lds, List.length_append, hl, hs]; omega
  have o3 : (offsets m).payload = (writeLead m.lead ++ writeSignature m.signature ++ writeHeader m.header).length := by
    simp only [offsets, lds, List.length_append, hl, hs, hh]; omega
  have hsz : 16 ≤ m.signature.size := by simp only [Header.size, ihs]; omega
  have hsz2 : 16 ≤ m.header.size := by simp only [Header.size, ihs]; omega
  refine ⟨rfl, by simp [offsets, lds, hl], ?_, ?_, ?_, ?_, by simp [offsets, lds], ?_, ?_⟩
  · show (writePackage ⟨m, c⟩).drop LEAD_SIZE = _
    rw [e1, lds, ← hl, List.drop_left]
  · rw [o2, e2, List.drop_left]
  · rw [o3, e3, List.drop_left]
  · rw [o3, e3]; simp only [List.length_append]; omega
  · simp only [offsets, lds]; omega
  · simp only [offsets, lds]; omega

/-- at each header offset a header intro begins (magic, version 1) -/
theorem intro_at_offsets {m : Metadata} (wf : MetadataWF m) (c : Bytes) :
    (HEADER_MAGIC ++ [1]) <+: (writePackage ⟨m, c⟩).drop (offsets m).sig
    ∧ (HEADER_MAGIC ++ [1]) <+: (writePackage ⟨m, c⟩).drop (offsets m).hdr := by
  obtain ⟨_, _, h3, h4, _⟩ := offsets_exact wf c
  rw [h3, h4, writeSignature, writeHeader_eq, writeHeader_eq]
  constructor
  · exact ⟨_, by simp only [hdrBytes, List.append_assoc]; rfl⟩
  · exact ⟨_, by simp only [hdrBytes, List.append_assoc]; rfl⟩

/-- the code's u64 arithmetic cannot overflow: all quantities stem from u32 fields -/
theorem offsets_fit_u64 {m : Metadata} (wf : MetadataWF m) : (offsets m).payload < 18446744073709551616 := by
  have a := wf.sig.nLt; have b := wf.sig.dlLt; have c := wf.hdr.nLt; have d := wf.hdr.dlLt
  simp only [offsets, Header.size, lds, ihs, ies, sigPad]
  omega

/-- for parsed packages: the offsets of what was parsed locate the segments of what is written -/
theorem offsets_of_parsed {bs p} (hp : parsePackage bs = .ok p) :
    (writePackage p).drop (offsets p.md).payload = p.content
    ∧ (writePackage p).drop (offsets p.md).hdr = writeHeader p.md.header ++ p.content := by
  obtain ⟨_, _, _, h4, h5, _⟩ := offsets_exact (parsed_wf hp) p.content
  exact ⟨h5, h4⟩

/-- **the offsets locate the segments in the INPUT bytes too** (not only in what `write` emits): for every accepted byte
string the reported payload offset is where the content starts, the header offset is where the main header's intro
(with whatever reserved bytes the file carries) starts, and offsets + content length account for every input byte -/
theorem offsets_locate_input {bs p} (hp : parsePackage bs = .ok p) :
    bs.drop (offsets p.md).payload = p.content
    ∧ (∃ res : Bytes, res.length = 4 ∧ bs.drop (offsets p.md).hdr = hdrBytes res p.md.header ++ p.content)
    ∧ bs.take (offsets p.md).sig = writeLead p.md.lead
    ∧ bs.length = (offsets p.md).payload + p.content.length := by
  simp only [parsePackage, Out.bind_eq_ok] at hp
  obtain ⟨⟨m, r⟩, h1, hp⟩ := hp
  simp only [Out.pure_eq, Out.ok.injEq] at hp
  subst hp
  obtain ⟨res1, pad, res2, hr1, hpad, hr2, rfl, wf⟩ := parseMetadata_ok h1
  have hl := writeLead_length wf.lead
  have hb (res : Bytes) (hr : res.length = 4) (h : Header) (w : HeaderWF h) : (hdrBytes res h).length = h.size := by
    simp only [hdrBytes, List.length_append, hmagic, be32_length, writeRaws_length, List.length_map, w.nEq, w.dlEq, hr,
      List.length_cons, List.length_nil, Header.size, ihs, ies]
    try omega
  have hs := hb res1 hr1 m.signature wf.sig
  have hh := hb res2 hr2 m.header wf.hdr
  have o1 : (offsets m).sig = (writeLead m.lead).length := by simp [offsets, lds, hl]
  have o2 : (offsets m).hdr = (writeLead m.lead ++ (hdrBytes res1 m.signature ++ pad)).length := by
    simp only [offsets, lds, List.length_append, hl, hs, hpad]; omega
  have o3 : (offsets m).payload = (writeLead m.lead ++ (hdrBytes res1 m.signature ++ pad) ++ hdrBytes res2 m.header).length := by
    simp only [offsets, lds, List.length_append, hl, hs, hh, hpad]; omega
  refine ⟨?_, ⟨res2, hr2, ?_⟩, ?_, ?_⟩
  · show (metaBytes res1 pad res2 m ++ r).drop _ = r
    rw [o3, metaBytes, List.drop_left]
  · show (metaBytes res1 pad res2 m ++ r).drop _ = _
    rw [o2, metaBytes, List.append_assoc, List.drop_left]
  · show (metaBytes res1 pad res2 m ++ r).take _ = _
    rw [o1, metaBytes, List.append_assoc, List.append_assoc, List.take_left]
  · show (metaBytes res1 pad res2 m ++ r).length = _
    rw [o3, metaBytes, List.length_append]

/-- the signature offset in the INPUT bytes: there the signature header's intro begins, followed by its index and store,
exactly `sigPad` padding bytes (of any value), and the main header -/
theorem offsets_locate_input_sig {bs p} (hp : parsePackage bs = .ok p) :
    ∃ res1 pad res2 : Bytes, res1.length = 4 ∧ pad.length = sigPad p.md.signature.dataSize ∧ res2.length = 4
      ∧ bs.drop (offsets p.md).sig = hdrBytes res1 p.md.signature ++ pad ++ hdrBytes res2 p.md.header ++ p.content
      ∧ (offsets p.md).hdr - (offsets p.md).sig = (hdrBytes res1 p.md.signature ++ pad).length
      ∧ (offsets p.md).payload - (offsets p.md).hdr = (hdrBytes res2 p.md.header).length := by
  simp only [parsePackage, Out.bind_eq_ok] at hp
  obtain ⟨⟨m, r⟩, h1, hp⟩ := hp
  simp only [Out.pure_eq, Out.ok.injEq] at hp
  subst hp
  obtain ⟨res1, pad, res2, hr1, hpad, hr2, rfl, wf⟩ := parseMetadata_ok h1
  have hl := writeLead_length wf.lead
  have hb (res : Bytes) (hr : res.length = 4) (h : Header) (w : HeaderWF h) : (hdrBytes res h).length = h.size := by
    simp only [hdrBytes, List.length_append, hmagic, be32_length, writeRaws_length, List.length_map, w.nEq, w.dlEq, hr,
      List.length_cons, List.length_nil, Header.size, ihs, ies]
    try omega
  have hs := hb res1 hr1 m.signature wf.sig
  have hh := hb res2 hr2 m.header wf.hdr
  have o1 : (offsets m).sig = (writeLead m.lead).length := by simp [offsets, lds, hl]
  refine ⟨res1, pad, res2, hr1, hpad, hr2, ?_, ?_, ?_⟩
  · show (metaBytes res1 pad res2 m ++ r).drop _ = _
    rw [o1, metaBytes, List.append_assoc, List.append_assoc, List.drop_left]
    simp only [List.append_assoc]
  · simp only [offsets, lds, List.length_append, hs, hpad]; omega
  · simp only [offsets, lds, hh]; omega

/-- **C03 ∘ C16**: the byte ranges whose digests `verify_digests` recomputes (spec `DigestSpec.rawHeader` / `rawContent`, written over
the raw input) are exactly the ranges the reported offsets delimit: the content is everything from `payload` on, the hashed header is
the slice `[hdr, payload)` of the input with its four reserved intro bytes zeroed -/
theorem digest_ranges_are_offsets {bs p} (hp : parsePackage bs = .ok p) :
    DigestSpec.rawContent bs = bs.drop (offsets p.md).payload
    ∧ DigestSpec.rawHeader bs =
        Canon.zeroReserved ((bs.drop (offsets p.md).hdr).take ((offsets p.md).payload - (offsets p.md).hdr)) := by
  obtain ⟨r1, r2⟩ := C03.raw_ranges hp
  obtain ⟨h1, _, _, _⟩ := offsets_locate_input hp
  obtain ⟨res1, pad, res2, _, _, hr2, hd, _, hlen⟩ := offsets_locate_input_sig hp
  obtain ⟨res, hr, hd2⟩ := (offsets_locate_input hp).2.1
  refine ⟨by rw [r2, h1], ?_⟩
  have hl : (hdrBytes res p.md.header).length = (hdrBytes res2 p.md.header).length := by
    simp only [hdrBytes, List.length_append, hr, hr2]
  rw [r1, hd2, hlen, ← hl, List.take_left]
  have z := C01.zeroReserved_hdrBytes p.md.header hr []
  simp only [List.append_nil] at z
  rw [z, writeHeader_eq]

/-! ### widths (audit a15 / c11): the arithmetic of the CODE, with the widths of its Rust types

`offsets_fit_u64` above is a statement about the model's `Nat` sums. The three expressions below are scraped from
header.rs into width-annotated terms (Gen/AllocSites.lean, Model/Width.lean: checked unsigned arithmetic, `as` truncates);
the theorems say that for every pair of u32 intro fields no step overflows and the result is the model's number. A
rewrite that multiplies before widening — `(num_entries * INDEX_ENTRY_SIZE) as u64` — produces a different term, for
which the statement is false at `num_entries = 2^28` (the `example` below). -/

/-- `Header::parse`'s `size_rest`, read with the widths of the Rust types: both u32 fields are widened BEFORE the
multiplication and the addition, so the u64 result is the exact number of bytes `dl + 16·n` for every intro -/
theorem size_rest_fits_u64 (dl n : Nat) (hd : dl < 4294967296) (hn : n < 4294967296) :
    sizeRestW.eval (WExpr.envOf [dl, n]) = some (dl + n * INDEX_ENTRY_SIZE, 64) := by
  have h1 : dl % 18446744073709551616 = dl := Nat.mod_eq_of_lt (by omega)
  have h2 : n % 18446744073709551616 = n := Nat.mod_eq_of_lt (by omega)
  have h3 : n * 16 < 18446744073709551616 := by omega
  have h4 : dl + n * 16 < 18446744073709551616 := by omega
  simp only [sizeRestW, WExpr.eval, WExpr.envOf, WExpr.bin, List.getD_cons_zero, List.getD_cons_succ,
    Nat.reducePow, Nat.reduceMod, Nat.reduceLT, hd, hn, h1, h2, h3, h4, if_true, ies]

/-- `Header::size` in the widths of the code: no step overflows, the u64 result is the model's `Header.size` -/
theorem header_size_fits {h : Header} (wf : HeaderWF h) :
    headerSizeW.eval (WExpr.envOf [h.dataSize, h.nEntries]) = some (h.size, 64) := by
  have hd := wf.dlLt; have hn := wf.nLt
  have h1 : h.dataSize % 18446744073709551616 = h.dataSize := Nat.mod_eq_of_lt (by omega)
  have h2 : h.nEntries % 18446744073709551616 = h.nEntries := Nat.mod_eq_of_lt (by omega)
  have h3 : h.nEntries * 16 < 18446744073709551616 := by omega
  have h4 : 16 + h.nEntries * 16 < 18446744073709551616 := by omega
  have h5 : 16 + h.nEntries * 16 + h.dataSize < 18446744073709551616 := by omega
  simp only [headerSizeW, WExpr.eval, WExpr.envOf, WExpr.bin, List.getD_cons_zero, List.getD_cons_succ,
    Nat.reducePow, Nat.reduceMod, Nat.reduceLT, hd, hn, h1, h2, h3, h4, h5, if_true, Header.size, ihs, ies]

/-- `padding_required` in u32: `8 - dl % 8` cannot underflow, the result is the model's `sigPad` -/
theorem padding_fits (dl : Nat) (hd : dl < 4294967296) :
    paddingRequiredW.eval (WExpr.envOf [dl]) = some (sigPad dl, 32) := by
  have h1 : dl % 8 < 4294967296 := by omega
  have h2 : dl % 8 ≤ 8 := by omega
  have h3 : 8 - dl % 8 < 4294967296 := by omega
  have h4 : (8 - dl % 8) % 8 < 4294967296 := by omega
  have e8 : ((8 : Nat) = 0) = False := by decide
  simp only [paddingRequiredW, WExpr.eval, WExpr.envOf, WExpr.bin, List.getD_cons_zero,
    Nat.reducePow, Nat.reduceLT, hd, h1, h2, h3, h4, e8, if_true, if_false, sigPad]

/-- the offsets of `get_package_segment_offsets`, step by step in u64 (`LEAD_SIZE as u64 + size() + padding as u64 + size()`):
each operand is the exact value of the theorems above, and the sums stay below 2^64 -/
theorem offsets_steps_fit {m : Metadata} (wf : MetadataWF m) :
    headerSizeW.eval (WExpr.envOf [m.signature.dataSize, m.signature.nEntries]) = some (m.signature.size, 64)
    ∧ paddingRequiredW.eval (WExpr.envOf [m.signature.dataSize]) = some (sigPad m.signature.dataSize, 32)
    ∧ headerSizeW.eval (WExpr.envOf [m.header.dataSize, m.header.nEntries]) = some (m.header.size, 64)
    ∧ (offsets m).hdr = LEAD_SIZE + m.signature.size + sigPad m.signature.dataSize
    ∧ (offsets m).payload = (offsets m).hdr + m.header.size
    ∧ (offsets m).payload < 18446744073709551616 :=
  ⟨header_size_fits wf.sig, padding_fits _ wf.sig.dlLt, header_size_fits wf.hdr, rfl, rfl, offsets_fit_u64 wf⟩

/-! non-vacuity: the extreme intro fields, and what the u32-first product would do -/
example : sizeRestW.eval (WExpr.envOf [4294967295, 4294967295]) = some (73014444015, 64) := by decide +kernel
example : headerSizeW.eval (WExpr.envOf [0, 268435456]) = some (4294967312, 64) := by decide +kernel
-- `(num_entries * INDEX_ENTRY_SIZE) as u64`: overflows at 2^28 entries
example : (WExpr.cast (.mul (.var 1 32) (.lit 16 32)) 64).eval (WExpr.envOf [0, 268435456]) = none := by decide +kernel
example : (WExpr.cast (.mul (.var 1 32) (.lit 16 32)) 64).eval (WExpr.envOf [0, 268435455]) = some (4294967280, 64) := by decide +kernel
example : paddingRequiredW.eval (WExpr.envOf [4294967295]) = some (1, 32) := by decide +kernel

/-! ### `Header::clear` / `Header::new_empty` (header.rs): the modified-in-memory values are instances -/

/-- `new_empty()` is a well-formed header -/
theorem empty_wf : HeaderWF Header.empty :=
  ⟨rfl, rfl, by decide, by decide, fun _ h => (nomatch h), fun _ h => (nomatch h), Nat.le_refl 0⟩

/-- `clear()` of ANY header value (well formed or not) is the `new_empty()` value -/
theorem clear_eq_empty (h : Header) : h.clear = Header.empty := rfl

/-- an empty header is written as its 16-byte intro alone; the signature variant needs no padding -/
theorem write_empty : writeHeader Header.empty = writeIntro 0 0
    ∧ writeSignature Header.empty = writeIntro 0 0
    ∧ (writeIntro 0 0).length = 16 := by
  refine ⟨rfl, rfl, rfl⟩

/-- those 16 bytes, followed by anything, parse back to the empty header and leave the rest unread -/
theorem parse_write_empty (rest : Bytes) :
    parseSignature (writeSignature Header.empty ++ rest) = .ok (Header.empty, rest)
    ∧ parseHeader (writeHeader Header.empty ++ rest) = .ok (Header.empty, rest) := by
  constructor
  · have := parseSignature_write empty_wf (res := [0, 0, 0, 0]) (pad := []) rfl rfl rest
    rwa [List.append_nil, ← writeHeader_eq] at this
  · rw [writeHeader_eq]; exact parseHeader_write empty_wf rfl rest

/-- replacing the signature header by `new_empty()` keeps the metadata well formed -/
theorem new_empty_wf {m : Metadata} (wf : MetadataWF m) : MetadataWF { m with signature := Header.empty } :=
  ⟨wf.lead, empty_wf, wf.hdr⟩

/-- **C16 for a package whose signature header is `new_empty()`** (instance of `offsets_exact`): the offsets are
0, 96, 112, 112 + size of the main header, and they are the byte boundaries of what is written. -/
theorem offsets_new_empty {m : Metadata} (wf : MetadataWF m) (c : Bytes) :
    let m' : Metadata := { m with signature := Header.empty }
    let w := writePackage ⟨m', c⟩
    offsets m' = ⟨0, 96, 112, 112 + m.header.size⟩
    ∧ w = writeLead m.lead ++ writeIntro 0 0 ++ writeHeader m.header ++ c
    ∧ w.drop 96 = writeIntro 0 0 ++ writeHeader m.header ++ c
    ∧ w.drop 112 = writeHeader m.header ++ c
    ∧ w.drop (112 + m.header.size) = c
    ∧ w.length - (112 + m.header.size) = c.length := by
  intro m' w
  have ho : offsets m' = ⟨0, 96, 112, 112 + m.header.size⟩ := by
    simp only [m', offsets, Header.size, Header.empty, lds, ihs, ies, sigPad]
  obtain ⟨_, _, h3, h4, h5, h6, _⟩ := offsets_exact (new_empty_wf wf) c
  rw [ho] at h3 h4 h5 h6
  simp only [write_empty.2.1] at h3
  refine ⟨ho, ?_, h3, h4, h5, h6⟩
  show writePackage ⟨m', c⟩ = _
  simp only [writePackage, writeMetadata, m', write_empty.2.1]

/-- the same for `p.metadata.signature.clear()`, whatever the signature header was before -/
theorem offsets_cleared {m : Metadata} (wf : MetadataWF m) (c : Bytes) :
    let m' : Metadata := { m with signature := m.signature.clear }
    let w := writePackage ⟨m', c⟩
    MetadataWF m'
    ∧ offsets m' = ⟨0, 96, 112, 112 + m.header.size⟩
    ∧ w = writeLead m.lead ++ writeIntro 0 0 ++ writeHeader m.header ++ c
    ∧ w.drop 96 = writeIntro 0 0 ++ writeHeader m.header ++ c
    ∧ w.drop 112 = writeHeader m.header ++ c
    ∧ w.drop (112 + m.header.size) = c
    ∧ w.length - (112 + m.header.size) = c.length := by
  simp only [clear_eq_empty]
  exact ⟨new_empty_wf wf, offsets_new_empty wf c⟩

/-! ### non-vacuity for the cleared / `new_empty` instances: a lead, a 1-entry signature header with a 5-byte store
(3 padding bytes), a 1-entry main header, 2 payload bytes -/
def sampleMd : Metadata :=
  ⟨⟨3, 0, 0, 1, List.replicate 66 0, 1, 5, List.replicate 16 0⟩,
   ⟨1, 5, [⟨1000, .bin [104, 101, 108, 108, 111], 0, 5⟩], [104, 101, 108, 108, 111]⟩,
   ⟨1, 4, [⟨1001, .int32 [7], 0, 1⟩], [0, 0, 0, 7]⟩⟩
example : MetadataWF sampleMd := parsed_wf (bs := writePackage ⟨sampleMd, [9, 9]⟩) (p := ⟨sampleMd, [9, 9]⟩) (by decide +kernel)
example : sampleMd.signature.clear = Header.empty ∧ sampleMd.signature ≠ Header.empty := by decide
example : writeSignature Header.empty = [142, 173, 232, 1, 0, 0, 0, 0, 0, 0, 0, 0, 0, 0, 0, 0] := by decide
example : offsets sampleMd = ⟨0, 96, 136, 172⟩ := by decide
example : offsets { sampleMd with signature := sampleMd.signature.clear } = ⟨0, 96, 112, 148⟩ := by decide
example : (writePackage ⟨{ sampleMd with signature := sampleMd.signature.clear }, [9, 9]⟩).drop 148 = [9, 9] := by decide +kernel

end RpmVerif.C16
