import RpmVerif.Lemmas.Header
/-!
# C16 — reported segment offsets are the real byte boundaries

For every well-formed metadata value (every parsed package is well formed: `parsed_wf`; so is every
value the builder / signer produce, see C09) and every payload: the offsets reported by
`get_package_segment_offsets` are the lengths of the segments actually written before them.
-/
namespace RpmVerif.C16
open RpmVerif.Hdr RpmVerif.Gen

theorem writeHeader_length {h : Header} (wf : HeaderWF h) : (writeHeader h).length = h.size := by
  rw [writeHeader_eq]
  simp only [hdrBytes, List.length_append, hmagic, be32_length, writeRaws_length, List.length_map, wf.nEq, wf.dlEq,
    List.length_cons, List.length_nil, Header.size, ihs, ies]
  try omega

theorem writeSignature_length {h : Header} (wf : HeaderWF h) :
    (writeSignature h).length = h.size + sigPad h.dataSize := by
  simp [writeSignature, writeHeader_length wf]

/-- every successfully parsed package is well formed -/
theorem parsed_wf {bs p} (hp : parsePackage bs = .ok p) : MetadataWF p.md := by
  simp only [parsePackage, Out.bind_eq_ok] at hp
  obtain ⟨⟨m, r⟩, h1, hp⟩ := hp
  simp only [Out.pure_eq, Out.ok.injEq] at hp
  subst hp
  obtain ⟨_, _, _, _, _, _, _, wf⟩ := parseMetadata_ok h1
  exact wf

/-- **Main theorem**: the offsets are exactly the positions of the segments in the written bytes. -/
theorem offsets_exact {m : Metadata} (wf : MetadataWF m) (c : Bytes) :
    let o := offsets m
    let w := writePackage ⟨m, c⟩
    o.lead = 0 ∧ o.sig = (writeLead m.lead).length
    ∧ w.drop o.sig = writeSignature m.signature ++ writeHeader m.header ++ c
    ∧ w.drop o.hdr = writeHeader m.header ++ c
    ∧ w.drop o.payload = c
    ∧ w.length - o.payload = c.length
    ∧ 0 < o.sig ∧ o.sig < o.hdr ∧ o.hdr < o.payload := by
  have hl := writeLead_length wf.lead
  have hs := writeSignature_length wf.sig
  have hh := writeHeader_length wf.hdr
  have e1 : writePackage ⟨m, c⟩ = writeLead m.lead ++ (writeSignature m.signature ++ writeHeader m.header ++ c) := by
    simp [writePackage, writeMetadata, List.append_assoc]
  have e2 : writePackage ⟨m, c⟩ = (writeLead m.lead ++ writeSignature m.signature) ++ (writeHeader m.header ++ c) := by
    simp [writePackage, writeMetadata, List.append_assoc]
  have e3 : writePackage ⟨m, c⟩ = (writeLead m.lead ++ writeSignature m.signature ++ writeHeader m.header) ++ c := by
    simp [writePackage, writeMetadata, List.append_assoc]
  have o2 : (offsets m).hdr = (writeLead m.lead ++ writeSignature m.signature).length := by
    simp only [offsets, lds, List.length_append, hl, hs]; omega
  have o3 : (offsets m).payload = (writeLead m.lead ++ writeSignature m.signature ++ writeHeader m.header).length := by
    simp only [offsets, lds, List.length_append, hl, hs, hh]; omega
  have hsz : 16 ≤ m.signature.size := by simp only [Header.size, ihs]; omega
  have hsz2 : 16 ≤ m.header.size := by simp only [Header.size, ihs]; omega
  refine ⟨rfl, by simp [offsets, lds, hl], ?_, ?_, ?_, ?_, by simp [offsets, lds], ?_, ?_⟩
  · show (writePackage ⟨m, c⟩).drop LEAD_SIZE = _
    rw [e1, lds, ← hl, List.drop_left]
  · rw [o2, e2, List.drop_left]
  · rw [o3, e3, List.drop_left]
  · rw [o3, e3]; simp only [List.length_append]; omega
  · simp only [offsets, lds]; omega
  · simp only [offsets, lds]; omega

/-- at each header offset a header intro begins (magic, version 1) -/
theorem intro_at_offsets {m : Metadata} (wf : MetadataWF m) (c : Bytes) :
    (HEADER_MAGIC ++ [1]) <+: (writePackage ⟨m, c⟩).drop (offsets m).sig
    ∧ (HEADER_MAGIC ++ [1]) <+: (writePackage ⟨m, c⟩).drop (offsets m).hdr := by
  obtain ⟨_, _, h3, h4, _⟩ := offsets_exact wf c
  rw [h3, h4, writeSignature, writeHeader_eq, writeHeader_eq]
  constructor
  · exact ⟨_, by simp only [hdrBytes, List.append_assoc]; rfl⟩
  · exact ⟨_, by simp only [hdrBytes, List.append_assoc]; rfl⟩

/-- the code's u64 arithmetic cannot overflow: all quantities stem from u32 fields -/
theorem offsets_fit_u64 {m : Metadata} (wf : MetadataWF m) : (offsets m).payload < 18446744073709551616 := by
  have a := wf.sig.nLt; have b := wf.sig.dlLt; have c := wf.hdr.nLt; have d := wf.hdr.dlLt
  simp only [offsets, Header.size, lds, ihs, ies, sigPad]
  omega

/-- for parsed packages: the offsets of what was parsed locate the segments of what is written -/
theorem offsets_of_parsed {bs p} (hp : parsePackage bs = .ok p) :
    (writePackage p).drop (offsets p.md).payload = p.content
    ∧ (writePackage p).drop (offsets p.md).hdr = writeHeader p.md.header ++ p.content := by
  obtain ⟨_, _, _, h4, h5, _⟩ := offsets_exact (parsed_wf hp) p.content
  exact ⟨h5, h4⟩

end RpmVerif.C16
