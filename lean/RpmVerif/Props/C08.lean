import RpmVerif.Model.ShaWriter
import RpmVerif.Lemmas.Io
import RpmVerif.Props.C06
import RpmVerif.Lemmas.ShaSink
import RpmVerif.Model.WithFileContent
import RpmVerif.Lemmas.Sign
/-!
# C08 — every digest the builder records is the true digest

Hash functions are parameters (`H`, `sha256hex`): the theorems hold for any function, so they say the
builder feeds the RIGHT BYTES to the hasher and stores the result under the right tag.
-/
namespace RpmVerif.C08
open RpmVerif.Hdr RpmVerif.Bld RpmVerif.Gen RpmVerif.Io RpmVerif.ShaW

/-! ### the hashing writer: hashed bytes = bytes the inner sink accepted, for every sink behaviour -/

/-- one `write_all` through the (fixed) `Sha256Writer`: what was hashed is exactly what the inner writer
accepted, and the inner writer saw the same as without the hashing wrapper -/
theorem writeAllH_hashed_eq_accepted (buf : Bytes) (rs : List Resp) :
    (writeAllH false buf rs).2.1 = (writeAllH false buf rs).1
    ∧ ((writeAllH false buf rs).1, (writeAllH false buf rs).2.2.1, (writeAllH false buf rs).2.2.2) = writeAll buf rs := by
  fun_induction writeAllH false buf rs with
  | case1 rs => exact ⟨rfl, by simp [writeAll]⟩
  | case2 b bs => exact ⟨rfl, by simp [writeAll]⟩
  | case3 b bs rs r ih =>
    obtain ⟨i1, i2⟩ := ih
    refine ⟨by simpa using i1, ?_⟩
    simp only [writeAll]; exact i2
  | case4 b bs rs => exact ⟨rfl, by simp [writeAll]⟩
  | case5 b bs rs => exact ⟨rfl, by simp [writeAll]⟩
  | case6 b bs n rs hn r ih =>
    obtain ⟨i1, i2⟩ := ih
    refine ⟨by simp only [Bool.false_eq_true, if_false]; rw [i1], ?_⟩
    simp only [writeAll, hn, if_false]
    rw [← i2]

/-- the whole archive written as any sequence of `write_all` calls, against ANY inner-sink behaviour:
the digest is taken over exactly the bytes the compressor accepted -/
theorem runH_hashed_eq_accepted (bufs : List Bytes) (rs : List Resp) :
    (runH false bufs rs).2.1 = (runH false bufs rs).1 := by
  induction bufs generalizing rs with
  | nil => rfl
  | cons a as ih =>
    simp only [runH]
    have h := (writeAllH_hashed_eq_accepted a rs).1
    generalize writeAllH false a rs = w at h
    obtain ⟨e, hh, st, rs'⟩ := w
    simp only at h
    subst h
    cases st with
    | ok => simp only [ih rs']
    | err => rfl
    | starved => rfl

/-- **alternate payload digest**: when every `write_all` succeeded, the hashed bytes are the whole
archive (the concatenation of all buffers), so `PAYLOADDIGESTALT = H(uncompressed archive)` for any `H` -/
theorem alt_digest (H : Bytes → Bytes) (bufs : List Bytes) (rs : List Resp)
    (hok : (runH false bufs rs).2.2.1 = .ok) : H (runH false bufs rs).2.1 = H bufs.flatten := by
  congr 1
  rw [runH_hashed_eq_accepted]
  induction bufs generalizing rs with
  | nil => rfl
  | cons a as ih =>
    simp only [runH] at hok ⊢
    have h2 := (writeAllH_hashed_eq_accepted a rs).2
    generalize hw : writeAllH false a rs = w at h2 hok
    obtain ⟨e, hh, st, rs'⟩ := w
    simp only at h2 hok ⊢
    cases st with
    | ok =>
      simp only at hok ⊢
      have hall := (Io.writeAll_spec a rs).2.1 (by rw [← h2])
      rw [← h2] at hall
      simp only at hall
      rw [hall, ih rs' hok, List.flatten_cons]
    | err => simp at hok
    | starved => simp at hok

/-- the former code (hash the whole buffer, then forward) is wrong as soon as the inner writer accepts
only part of a buffer: one byte accepted per call on a 2-byte buffer hashes 3 bytes -/
theorem old_writer_witness :
    (writeAllH true [1, 2] [.ok 1, .ok 1]).2.1 = [1, 2, 2] ∧ (writeAllH true [1, 2] [.ok 1, .ok 1]).1 = [1, 2] := by
  decide

/-! ### what `build` records -/
section recorded
variable (x : Ctx)

/-- `RPMTAG_PAYLOADDIGEST` holds the digest handed in for the compressed payload -/
theorem payload_digest : getStringArray (C06.hdrOf x) IndexTag.RPMTAG_PAYLOADDIGEST = .ok [x.payloadShaHex] :=
  C06.getter_of_slot IndexData.asStringArray (s := (IndexTag.RPMTAG_PAYLOADDIGEST, always fun x => .strArray [x.payloadShaHex]))
    (C06.mem_slot (i := 41) rfl) rfl rfl
theorem payload_digest_algo : getU32 (C06.hdrOf x) IndexTag.RPMTAG_PAYLOADDIGESTALGO = .ok 8 :=
  C06.getter_of_slot IndexData.asU32 (s := (IndexTag.RPMTAG_PAYLOADDIGESTALGO, always fun _ => .int32 [8]))
    (C06.mem_slot (i := 42) rfl) rfl rfl
/-- `RPMTAG_PAYLOADDIGESTALT` holds the digest of the uncompressed archive -/
theorem archive_digest : getStringArray (C06.hdrOf x) IndexTag.RPMTAG_PAYLOADDIGESTALT = .ok [x.archiveShaHex] :=
  C06.getter_of_slot IndexData.asStringArray (s := (IndexTag.RPMTAG_PAYLOADDIGESTALT, always fun x => .strArray [x.archiveShaHex]))
    (C06.mem_slot (i := 43) rfl) rfl rfl
/-- file digests: one per file, in file order, each the digest `add_data` computed over that file's content -/
theorem file_digests (hne : x.c.files.isEmpty = false) :
    getStringArray (C06.hdrOf x) IndexTag.RPMTAG_FILEDIGESTS = .ok (x.c.files.map (·.shaHex))
    ∧ getU32 (C06.hdrOf x) IndexTag.RPMTAG_FILEDIGESTALGO = .ok 8 :=
  ⟨C06.readback_digests x hne,
   C06.readback_file_array x IndexData.asU32 (i := 33) (f := fun _ => .int32 [8]) rfl hne rfl⟩

end recorded

/-- the signature header built by `build`, `sign` and `clear_signatures` records the digest passed in
under RPMSIGTAG_SHA256, whatever signatures accompany it -/
theorem sig_header_sha256 (sigs : List (Nat × Bytes × Bytes)) (d : Bytes)
    (hs : ∀ s ∈ sigs, s.1 ≠ SigTag.RPMSIGTAG_SHA256 ∧ s.1 ≠ SigTag.RPMSIGTAG_OPENPGP ∧ s.1 ≠ SigTag.HEADER_SIGNATURES) :
    getString (signatureHeader sigs (some d)) SigTag.RPMSIGTAG_SHA256 = .ok d := by
  unfold signatureHeader
  cases hl : sigs.getLast? with
  | none =>
    exact fromEntries_get IndexData.asStr (recs := [(SigTag.RPMSIGTAG_SHA256, .str d)]) (d := .str d) (by simp)
      (by intro r hr; simp only [List.mem_cons, List.not_mem_nil, or_false] at hr; subst hr; show (273 : Nat) ≠ 62; omega) (by simp) rfl
  | some s =>
    obtain ⟨tag, raw, b64⟩ := s
    have hm := List.mem_of_getLast? hl
    obtain ⟨h1, h2, h3⟩ := hs _ hm
    simp only at h1 h2 h3
    refine fromEntries_get IndexData.asStr (t := SigTag.RPMSIGTAG_SHA256) (d := .str d) ?_ ?_ (by simp) rfl
    · simp only [List.map_cons, List.map_nil, List.cons_append, List.nil_append, List.nodup_cons, List.mem_cons,
        List.not_mem_nil, or_false, not_or, List.nodup_nil, and_true]
      refine ⟨⟨fun e => h2 e.symm, ?_⟩, fun e => h1 e, fun e => e⟩
      show (278 : Nat) ≠ 273; omega
    · intro r hr
      simp only [List.cons_append, List.nil_append, List.mem_cons, List.not_mem_nil, or_false] at hr
      rcases hr with rfl | rfl | rfl
      · show (278 : Nat) ≠ 62; omega
      · exact h3
      · show (273 : Nat) ≠ 62; omega

/-- **`build`**: the header digest recorded in the signature header is the digest of the serialised main
header; payload and archive digests are those of the payload and the archive -/
theorem build_digests (c : Cfg) (now : Nat) (sha256hex : Bytes → Bytes) (archive payload : Bytes) :
    let p := build c now sha256hex archive payload
    getString p.md.signature SigTag.RPMSIGTAG_SHA256 = .ok (sha256hex (writeHeader p.md.header))
    ∧ getStringArray p.md.header IndexTag.RPMTAG_PAYLOADDIGEST = .ok [sha256hex p.content]
    ∧ getStringArray p.md.header IndexTag.RPMTAG_PAYLOADDIGESTALT = .ok [sha256hex archive] := by
  intro p
  refine ⟨sig_header_sha256 [] _ (by simp), ?_, ?_⟩
  · exact payload_digest (mkCtx c now (sha256hex payload) (sha256hex archive))
  · exact archive_digest (mkCtx c now (sha256hex payload) (sha256hex archive))

/-! ### the stack `prepare_data` builds: cpio `Writer` → `Sha256Writer` → compressor (Model/ShaSink.lean)

`alt_digest` above is about `Sha256Writer` under an abstract list of buffers.  Here the buffers are the ones the cpio
writer really produces for the builder's files, written through the hashing writer into a compressor of ANY behaviour
(response script, failing `flush`); C07 `builder_archive_writer` (the same loop over a bare sink) is reached through the
projection lemmas of Lemmas/ShaSink.lean. -/
section stacked
open RpmVerif.ShaSink RpmVerif.PWriter RpmVerif.Cpio

/-- the archive `prepare_data` writes for the files (in `BTreeMap` order): stripped entries in large-file mode -/
def archiveOfFiles (large : Bool) (uid gid : Nat) (files : List FileIn) : Bytes :=
  if large then builderArchiveLarge files else builderArchive uid gid files

/-- **one `Sha256Writer::write`**: outcome and compressor state are those of the bare `inner.write(buf)`; after
`Ok(n)` the hasher has been fed exactly `buf[..n]` more — the bytes by which the compressor's input grew —, after an
error nothing; the slice `&buf[..n]` adds no panic -/
theorem sha_writer_write (h : HSink) (buf : Bytes) :
    (h.write buf).1 = (h.inner.write buf).1 ∧ (h.write buf).2.inner = (h.inner.write buf).2
    ∧ (∀ n, (h.write buf).1 = .ok n →
        (h.write buf).2.hashed = h.hashed ++ buf.take n ∧ (h.write buf).2.inner.out = h.inner.out ++ buf.take n)
    ∧ (∀ c, (h.write buf).1 = .err c → (h.write buf).2.hashed = h.hashed ∧ (h.write buf).2.inner.out = h.inner.out) := by
  obtain ⟨a1, a2, _, a4, a5⟩ := HSink.write_proj [] h buf
  obtain ⟨_, _, _, _, s5⟩ := Sink.write_spec h.inner buf
  refine ⟨a1, a2, fun n hn => ⟨a4 n hn, ?_⟩, fun c hc => ⟨a5 c hc, ?_⟩⟩
  · rw [a2]; rw [a1] at hn
    rcases s5 with ⟨m, e1, _, e3⟩ | ⟨e1, _⟩
    · rw [e1] at hn; cases hn; exact e3
    · rcases e1 with e1 | e1 <;> rw [e1] at hn <;> cases hn
  · rw [a2]; rw [a1] at hc
    rcases s5 with ⟨m, e1, _, _⟩ | ⟨_, e3⟩
    · rw [e1] at hc; cases hc
    · exact e3

/-- **what is hashed for PAYLOADDIGESTALT** — the two loops of `prepare_data` plus the trailer, through
`Sha256Writer::new(&mut compressor)`, for EVERY compressor behaviour `comp` (in standard mode every content fits a `u32`,
which the large-file switch guarantees: C07 `standard_mode_sizes_fit_u32`):
* the outcome is `Ok` or an I/O error of the compressor — no panic, no `UnexpectedEof` of the cpio writer;
* when `Ok`, the hasher was fed exactly `archiveOfFiles …` — the cpio archive of the files — and the compressor accepted
  exactly the same bytes, in this order, after what it held before;
* a compressor that accepts everything and whose `flush` works gives `Ok`. -/
theorem prepare_archive_hashed (large : Bool) (uid gid : Nat) (files : List FileIn) (comp : Sink)
    (hfit : large = false → ∀ f ∈ files, f.content.length ≤ 4294967295) :
    ((prepareArchive large uid gid files ⟨comp, []⟩).1 = .ok ()
      ∨ (prepareArchive large uid gid files ⟨comp, []⟩).1 = .err "io"
      ∨ (prepareArchive large uid gid files ⟨comp, []⟩).1 = .err "write-zero")
    ∧ ((prepareArchive large uid gid files ⟨comp, []⟩).1 = .ok () →
        (prepareArchive large uid gid files ⟨comp, []⟩).2.hashed = archiveOfFiles large uid gid files
        ∧ (prepareArchive large uid gid files ⟨comp, []⟩).2.inner.out = comp.out ++ archiveOfFiles large uid gid files)
    ∧ (comp.script = [] → comp.flushFails = false → (prepareArchive large uid gid files ⟨comp, []⟩).1 = .ok ()) := by
  have hi : ShaSink.Inv comp.out (⟨comp, []⟩ : HSink) := by simp [ShaSink.Inv]
  have key : ∀ (r : Out Unit × HSink), ShaSink.Inv comp.out r.2 →
      ((r.1 = .ok () ∧ r.2.inner.out = comp.out ++ archiveOfFiles large uid gid files) ∨ (r.1 = .err "io" ∨ r.1 = .err "write-zero")) →
      (r.1 = .ok () ∨ r.1 = .err "io" ∨ r.1 = .err "write-zero")
      ∧ (r.1 = .ok () → r.2.hashed = archiveOfFiles large uid gid files ∧ r.2.inner.out = comp.out ++ archiveOfFiles large uid gid files) := by
    intro r hinv hr
    rcases hr with ⟨e1, e2⟩ | e1
    · refine ⟨Or.inl e1, fun _ => ⟨?_, e2⟩⟩
      unfold ShaSink.Inv at hinv
      rw [e2] at hinv
      exact (List.append_cancel_left hinv).symm
    · refine ⟨Or.inr e1, fun h => ?_⟩
      rcases e1 with e1 | e1 <;> rw [e1] at h <;> cases h
  cases large with
  | true =>
    obtain ⟨a1, _, _, a4, a5⟩ := largeEntriesH_spec comp.out (files.map (·.content)) 0 ⟨comp, []⟩ hi
    have := key (prepareArchive true uid gid files ⟨comp, []⟩) a1 a5
    exact ⟨this.1, this.2, a4⟩
  | false =>
    have hes : ∀ x ∈ builderEntriesFrom uid gid 1 files, x.2.length < 4294967296 := by
      intro x hx
      obtain ⟨f, hf, e⟩ := builderEntriesFrom_content uid gid files 1 x hx
      have := hfit rfl f hf
      rw [e]; omega
    obtain ⟨a1, _, _, a4, a5⟩ := entriesH_spec comp.out _ hes ⟨comp, []⟩ hi
    have := key (prepareArchive false uid gid files ⟨comp, []⟩) a1 a5
    exact ⟨this.1, this.2, a4⟩

/-- **the two payload digests** — when `prepare_data`'s archive part ends `Ok(d)`:
* `d.archiveShaHex` (PAYLOADDIGESTALT) is the digest of the cpio archive of the files — the compressor's INPUT;
* `d.payload` is what `finish_compression` returned for the compressor after it had accepted exactly that archive, and
  nothing else, since it was made;
* `d.payloadShaHex` (PAYLOADDIGEST) is the digest of that payload — the compressor's OUTPUT.
For every hash function, every compressor behaviour and every `finish_compression`. -/
theorem prepare_digests_spec (fin : Sink → Out Bytes) (sha256hex : Bytes → Bytes) (large : Bool) (uid gid : Nat)
    (files : List FileIn) (comp : Sink) (hfit : large = false → ∀ f ∈ files, f.content.length ≤ 4294967295)
    (d : Prepared) (hd : prepareDigests fin sha256hex large uid gid files comp = .ok d) :
    d.archiveShaHex = sha256hex (archiveOfFiles large uid gid files)
    ∧ d.payloadShaHex = sha256hex d.payload
    ∧ ∃ comp', comp'.out = comp.out ++ archiveOfFiles large uid gid files ∧ fin comp' = .ok d.payload := by
  obtain ⟨_, h2, _⟩ := prepare_archive_hashed large uid gid files comp hfit
  unfold prepareDigests at hd
  rcases hr : prepareArchive large uid gid files ⟨comp, []⟩ with ⟨o, h⟩
  rw [hr] at hd h2
  cases o with
  | ok u =>
    obtain ⟨e1, e2⟩ := h2 rfl
    simp only at hd e1 e2
    cases hf : fin h.inner with
    | ok payload =>
      rw [hf] at hd
      simp only [Out.ok.injEq] at hd
      subst hd
      exact ⟨by rw [e1], rfl, h.inner, e2, hf⟩
    | err c => rw [hf] at hd; cases hd
    | panic p => rw [hf] at hd; cases hd
  | err c => cases hd
  | panic p => cases hd

/-- the archive part of `prepare_data` panics only if `finish_compression` does -/
theorem prepare_digests_total (fin : Sink → Out Bytes) (sha256hex : Bytes → Bytes) (large : Bool) (uid gid : Nat)
    (files : List FileIn) (comp : Sink) (hfit : large = false → ∀ f ∈ files, f.content.length ≤ 4294967295)
    (hfin : ∀ s p, fin s ≠ .panic p) (p : String) : prepareDigests fin sha256hex large uid gid files comp ≠ .panic p := by
  obtain ⟨h1, _, _⟩ := prepare_archive_hashed large uid gid files comp hfit
  unfold prepareDigests
  rcases hr : prepareArchive large uid gid files ⟨comp, []⟩ with ⟨o, h⟩
  rw [hr] at h1
  simp only at h1
  rcases h1 with h1 | h1 | h1 <;> subst h1 <;> simp only
  · cases hf : fin h.inner with
    | ok payload => simp
    | err c => simp
    | panic q => exact absurd hf (hfin _ _)
  · simp
  · simp

/-- into a `Vec` (`CompressionType::None`: a sink that accepts everything, `finish_compression` = the bytes): the
payload IS the archive, both digests are the digest of the cpio archive of the files -/
theorem prepare_digests_none (sha256hex : Bytes → Bytes) (large : Bool) (uid gid : Nat) (files : List FileIn)
    (hfit : large = false → ∀ f ∈ files, f.content.length ≤ 4294967295) :
    prepareDigests (fun s => .ok s.out) sha256hex large uid gid files {}
      = .ok ⟨sha256hex (archiveOfFiles large uid gid files), sha256hex (archiveOfFiles large uid gid files),
             archiveOfFiles large uid gid files⟩ := by
  obtain ⟨_, h2, h3⟩ := prepare_archive_hashed large uid gid files {} hfit
  have hok := h3 rfl rfl
  obtain ⟨e1, e2⟩ := h2 hok
  unfold prepareDigests
  rcases hr : prepareArchive large uid gid files ⟨{}, []⟩ with ⟨o, h⟩
  rw [hr] at hok e1 e2
  simp only at hok e1 e2
  subst hok
  simp only [e1, e2]
  simp

end stacked

/-! ### file digests: the digest stored with a file is the digest of the content stored with it -/
section fileDigests
open RpmVerif.WithFile

/-- forgetting the contents gives the builder state of Model/WithFile.lean (the one the header records are made of) -/
theorem insertFileC_fst (p : FileC) (l : List FileC) : (insertFileC p l).map (·.1) = insertFileE p.1 (l.map (·.1)) := by
  induction l with
  | nil => rfl
  | cons g r ih =>
    simp only [insertFileC, insertFileE, List.map_cons]
    by_cases h1 : p.1.cpioPath == g.1.cpioPath
    · simp [h1]
    · simp only [h1, Bool.false_eq_true, if_false]
      by_cases h2 : p.1.cpioPath < g.1.cpioPath
      · simp [h2]
      · simp [h2, ih]

theorem buildFilesC_fst (sha256hex : Bytes → Bytes) (valid : Bytes → Bool) (calls : List Call) (s : List FileC) (d : List Bytes) :
    (buildFilesC sha256hex valid calls s).map (fun l => l.map (·.1))
      = (buildState sha256hex valid calls ⟨s.map (·.1), d⟩).map (·.files) := by
  induction calls generalizing s d with
  | nil => rfl
  | cons c r ih =>
    simp only [buildFilesC, buildState, runCallC, runCall, withFileC]
    cases applySetters valid c.setters (FileOpts.new c.dest) with
    | ok o =>
      simp only
      cases hw : withFile sha256hex c.src o with
      | ok e =>
        simp only
        rw [ih, BState.add, insertFileC_fst]
      | err x => rfl
      | panic x => rfl
    | err x => rfl
    | panic x => rfl

/-- every member of the map after an insertion was there before or is the inserted entry (keep-first: never a mixture) -/
theorem mem_insertFileC {p q : FileC} {l : List FileC} (h : q ∈ insertFileC p l) : q = p ∨ q ∈ l := by
  induction l with
  | nil => simp only [insertFileC, List.mem_singleton] at h; exact Or.inl h
  | cons g r ih =>
    simp only [insertFileC] at h
    split at h
    · exact Or.inr h
    · split at h
      · rcases List.mem_cons.mp h with h | h
        · exact Or.inl h
        · exact Or.inr h
      · rcases List.mem_cons.mp h with h | h
        · exact Or.inr (h ▸ List.mem_cons_self ..)
        · rcases ih h with h | h
          · exact Or.inl h
          · exact Or.inr (List.mem_cons_of_mem _ h)

/-- `or_insert`, not `insert`: an entry that is in the map stays in it, with its content, whatever is added later —
in particular when the same destination is handed to `with_file` again -/
theorem insertFileC_keeps_entries (p g : FileC) (l : List FileC) (hg : g ∈ l) : g ∈ insertFileC p l := by
  induction l with
  | nil => cases hg
  | cons a r ih =>
    simp only [insertFileC]
    split
    · exact hg
    · split
      · exact List.mem_cons_of_mem _ hg
      · rcases List.mem_cons.mp hg with h | h
        · exact h ▸ List.mem_cons_self ..
        · exact List.mem_cons_of_mem _ (ih h)

/-- … and a second entry for a path whose entry is at the front of the walk is dropped (the first one wins) -/
theorem insertFileC_same_key_head (p g : FileC) (r : List FileC) (hk : p.1.cpioPath = g.1.cpioPath) :
    insertFileC p (g :: r) = g :: r := by
  simp [insertFileC, hk]

/-- **file_digest_is_content_digest** — after ANY sequence of `with_file` calls (`FileOptions` setters of any kind,
sources of any kind, the same destination any number of times), every entry of the builder's file map carries
* as `sha_checksum` the digest of the content stored in the same entry — the bytes `prepare_data` will archive under this
  entry's cpio path —, and
* as `size` the length of that content.
For every hash function. -/
theorem file_digest_is_content_digest (sha256hex : Bytes → Bytes) (valid : Bytes → Bool) (calls : List Call)
    (s fes : List FileC) (hs : ∀ p ∈ s, p.1.shaHex = sha256hex p.2 ∧ p.1.size = p.2.length)
    (h : buildFilesC sha256hex valid calls s = .ok fes) :
    ∀ p ∈ fes, p.1.shaHex = sha256hex p.2 ∧ p.1.size = p.2.length := by
  induction calls generalizing s with
  | nil => simp only [buildFilesC, Out.ok.injEq] at h; subst h; exact hs
  | cons c r ih =>
    simp only [buildFilesC, runCallC, withFileC] at h
    cases ha : applySetters valid c.setters (FileOpts.new c.dest) with
    | ok o =>
      rw [ha] at h
      simp only at h
      cases hw : withFile sha256hex c.src o with
      | ok e =>
        rw [hw] at h
        simp only at h
        refine ih _ (fun p hp => ?_) h
        rcases mem_insertFileC hp with rfl | hp
        · -- the new entry: `add_data` hashed the content it stores
          cases hsrc : c.src with
          | openFails => rw [hsrc] at hw; cases hw
          | readFails => rw [hsrc] at hw; cases hw
          | readable f =>
            rw [hsrc] at hw
            simp only [withFile] at hw
            cases ht : Timestamp.fromSystemTime f.mtime with
            | ok t =>
              rw [ht] at hw
              simp only [addDataEntry] at hw
              cases had : AddData.addData (inheritMode f.stMode o).destination with
              | ok r3 =>
                rw [had] at hw
                obtain ⟨cp, dr, bs⟩ := r3
                simp only [Out.ok.injEq] at hw
                subst hw
                exact ⟨rfl, rfl⟩
              | err x => rw [had] at hw; cases hw
              | panic x => rw [had] at hw; cases hw
            | underflow => rw [ht] at hw; cases hw
            | overflow => rw [ht] at hw; cases hw
            | panic x => rw [ht] at hw; cases hw
        · exact hs p hp
      | err x => rw [hw] at h; cases h
      | panic x => rw [hw] at h; cases h
    | err x => rw [ha] at h; cases h
    | panic x => rw [ha] at h; cases h

/-- … hence RPMTAG_FILEDIGESTS of the header built from these entries lists, file by file, the digest of the content
archived for that file (`fes.map (·.2)` are the contents `prepare_data` writes, `archiveOfFiles` over
`fes.map fun p => ⟨p.1.cpioPath, p.1.mode, p.2⟩`) and RPMTAG_FILESIZES / LONGFILESIZES its length -/
theorem file_digests_of_contents (x : Ctx) (sha256hex : Bytes → Bytes) (fes : List FileC) (hfiles : x.c.files = fes.map (·.1))
    (hne : x.c.files.isEmpty = false) (hinv : ∀ p ∈ fes, p.1.shaHex = sha256hex p.2 ∧ p.1.size = p.2.length) :
    getStringArray (C06.hdrOf x) IndexTag.RPMTAG_FILEDIGESTS = .ok (fes.map fun p => sha256hex p.2)
    ∧ x.c.files.map (·.size) = fes.map (·.2.length) := by
  refine ⟨?_, ?_⟩
  · rw [(file_digests x hne).1, hfiles, List.map_map]
    exact congrArg Out.ok (List.map_congr_left fun p hp => (hinv p hp).1)
  · rw [hfiles, List.map_map]
    exact List.map_congr_left fun p hp => (hinv p hp).2

end fileDigests

/-! ### the header digest after `sign` / `clear_signatures`, for ANY package -/
section signClear
open RpmVerif.Sign

/-- **clear_header_digest_fresh** — `clear_signatures()` on ANY package value (no well-formedness, no digest of the
start package assumed): RPMSIGTAG_SHA256 of the result is the digest of the result's serialised main header -/
theorem clear_header_digest_fresh (sha256 : Bytes → Bytes) (p : Package) :
    getString (clearOp sha256 p).md.signature SigTag.RPMSIGTAG_SHA256
      = .ok (shaHex sha256 (writeHeader (clearOp sha256 p).md.header)) :=
  sig_header_sha256 [] _ (by simp)

/-- **sign_header_digest_fresh** — `sign_with_timestamp(signer, t)` on ANY package value, any signer whose legacy tag is
RPMSIGTAG_RSA or RPMSIGTAG_DSA (`pgp::Signer`: C10 `AlgOk`): the recorded header digest is the true one -/
theorem sign_header_digest_fresh (S : SigScheme) (hl : S.LegacyOk) (sha256 : Bytes → Bytes) (k : S.Key) (t : Nat) (p : Package) :
    getString (signOp S sha256 k t p).md.signature SigTag.RPMSIGTAG_SHA256
      = .ok (shaHex sha256 (writeHeader (signOp S sha256 k t p).md.header)) := by
  refine sig_header_sha256 _ _ (fun s hs => ?_)
  simp only [List.mem_singleton] at hs
  subst hs
  rcases hl k with e | e <;> (simp only [e]; decide)

end signClear

/-! ### non-vacuity -/
-- a sink that takes 1 byte, is interrupted, then takes the rest: hashed = accepted = everything
example : writeAllH false [1, 2, 3] [.ok 1, .intr, .ok 5] = ([1, 2, 3], [1, 2, 3], .ok, []) := by decide
-- a hard failure after two bytes: the hasher saw exactly those two bytes
example : writeAllH false [1, 2, 3] [.ok 2, .fail] = ([1, 2], [1, 2], .err, []) := by decide
example : (runH false [[1, 2], [3]] [.ok 1, .ok 1, .ok 1]).2.2.1 = .ok := by decide

/-! #### the stacked writers, the file map with contents, sign / clear -/
section nonvacuity2
open RpmVerif.ShaSink RpmVerif.PWriter RpmVerif.Cpio RpmVerif.WithFile RpmVerif.Sign

/-- two files, a compressor that takes 1 byte, is interrupted, takes 7, then 100 per call: `Ok`, and the hasher saw the archive -/
def wFiles : List FileIn := [⟨[46, 47, 97], 33188, [1, 2, 3]⟩, ⟨[46, 47, 98], 33261, []⟩]
def wComp : Sink := { script := [.ok 1, .intr, .ok 7] ++ List.replicate 8 (.ok 100) }
example : (prepareArchive false 0 0 wFiles ⟨wComp, []⟩).1 = .ok ()
    ∧ (prepareArchive false 0 0 wFiles ⟨wComp, []⟩).2.hashed = builderArchive 0 0 wFiles
    ∧ (prepareArchive false 0 0 wFiles ⟨wComp, []⟩).2.inner.out = builderArchive 0 0 wFiles := by decide +kernel
/-- the large-file form through the same compressor -/
example : (prepareArchive true 0 0 wFiles ⟨wComp, []⟩).1 = .ok ()
    ∧ (prepareArchive true 0 0 wFiles ⟨wComp, []⟩).2.hashed = builderArchiveLarge wFiles := by decide +kernel
/-- a compressor whose `flush` fails: an error (the large-file branch flushes after every file), not a panic -/
example : (prepareArchive true 0 0 wFiles ⟨{ flushFails := true }, []⟩).1 = .err "io" := by decide +kernel
/-- a hard failure in the middle: an error, and what was hashed is what the compressor took (a prefix of the archive) -/
example : (prepareArchive false 0 0 wFiles ⟨{ script := [.ok 50, .fail] }, []⟩).1 = .err "io"
    ∧ (prepareArchive false 0 0 wFiles ⟨{ script := [.ok 50, .fail] }, []⟩).2.hashed = (builderArchive 0 0 wFiles).take 50 := by
  decide +kernel
/-- a toy codec (prefix the gzip magic) and a toy hash (length and first byte) -/
def wFin (s : Sink) : Out Bytes := .ok ([0x1f, 0x8b] ++ s.out)
def wHash (b : Bytes) : Bytes := [b.length.toUInt8, b.headD 0]
example : prepareDigests wFin wHash false 0 0 wFiles wComp
    = .ok ⟨wHash (builderArchive 0 0 wFiles), wHash ([0x1f, 0x8b] ++ builderArchive 0 0 wFiles), [0x1f, 0x8b] ++ builderArchive 0 0 wFiles⟩ := by
  decide +kernel
example : wHash (builderArchive 0 0 wFiles) ≠ wHash ([0x1f, 0x8b] ++ builderArchive 0 0 wFiles) := by decide +kernel
example : ∀ f ∈ wFiles, f.content.length ≤ 4294967295 := by decide

/-- the same destination handed to `with_file` twice with different contents, and a second file: the map keeps the
FIRST entry for `/a` — its digest and its content —, sorted by path -/
def wSrc (c : Bytes) : Source := .readable ⟨c, 0o100644, ⟨1500000000, 0, by decide⟩⟩
def wCalls : List Call := [⟨wSrc [7, 8], [47, 98], []⟩, ⟨wSrc [1, 2, 3], [47, 97], []⟩, ⟨wSrc [9], [47, 97], [.user [120]]⟩]
example : (buildFilesC wHash (fun _ => true) wCalls []).map (fun l => l.map fun p => (p.1.cpioPath, p.1.shaHex, p.1.size, p.2))
    = .ok [([46, 47, 97], [3, 1], 3, [1, 2, 3]), ([46, 47, 98], [2, 7], 2, [7, 8])] := by decide +kernel
example : ∀ p ∈ ([] : List FileC), p.1.shaHex = wHash p.2 ∧ p.1.size = p.2.length := by simp

/-- sign / clear on a package that is NOT well formed and whose recorded digest is stale (a main header with an entry
but an empty store; RPMSIGTAG_SHA256 absent): the operations install the true digest -/
def wBad : Package := ⟨⟨Bld.leadNew [120], ⟨0, 0, [], []⟩, ⟨1, 7, [⟨1000, .str [120], 5, 1⟩], []⟩⟩, [1, 2]⟩
example : getString wBad.md.signature SigTag.RPMSIGTAG_SHA256 = .err "notfound" := by decide +kernel
example : getString (clearOp wHash wBad).md.signature SigTag.RPMSIGTAG_SHA256
    = .ok (shaHex wHash (writeHeader wBad.md.header)) := clear_header_digest_fresh wHash wBad
example : getString (signOp (Sym.scheme fun k => [k]) wHash (3 : UInt8) 1600000000 wBad).md.signature SigTag.RPMSIGTAG_SHA256
    = .ok (shaHex wHash (writeHeader wBad.md.header)) :=
  sign_header_digest_fresh _ (Sym.legacyOk _) wHash (3 : UInt8) 1600000000 wBad

end nonvacuity2

end RpmVerif.C08
