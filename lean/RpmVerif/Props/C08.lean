import RpmVerif.Model.ShaWriter
import RpmVerif.Lemmas.Io
import RpmVerif.Props.C06
/-!
# C08 — every digest the builder records is the true digest

Hash functions are parameters (`H`, `sha256hex`): the theorems hold for any function, so they say the
builder feeds the RIGHT BYTES to the hasher and stores the result under the right tag.
-/
namespace RpmVerif.C08
open RpmVerif.Hdr RpmVerif.Bld RpmVerif.Gen RpmVerif.Io RpmVerif.ShaW

/-! ### the hashing writer: hashed bytes = bytes the inner sink accepted, for every sink behaviour -/

/-- one `write_all` through the (fixed) `Sha256Writer`: what was hashed is exactly what the inner writer
accepted, and the inner writer saw the same as without the hashing wrapper -/
theorem writeAllH_hashed_eq_accepted (buf : Bytes) (rs : List Resp) :
    (writeAllH false buf rs).2.1 = (writeAllH false buf rs).1
    ∧ ((writeAllH false buf rs).1, (writeAllH false buf rs).2.2.1, (writeAllH false buf rs).2.2.2) = writeAll buf rs := by
  fun_induction writeAllH false buf rs with
  | case1 rs => exact ⟨rfl, by simp [writeAll]⟩
  | case2 b bs => exact ⟨rfl, by simp [writeAll]⟩
  | case3 b bs rs r ih =>
    obtain ⟨i1, i2⟩ := ih
    refine ⟨by simpa using i1, ?_⟩
    simp only [writeAll]; exact i2
  | case4 b bs rs => exact ⟨rfl, by simp [writeAll]⟩
  | case5 b bs rs => exact ⟨rfl, by simp [writeAll]⟩
  | case6 b bs n rs hn r ih =>
    obtain ⟨i1, i2⟩ := ih
    refine ⟨by simp only [Bool.false_eq_true, if_false]; rw [i1], ?_⟩
    simp only [writeAll, hn, if_false]
    rw [← i2]

/-- the whole archive written as any sequence of `write_all` calls, against ANY inner-sink behaviour:
the digest is taken over exactly the bytes the compressor accepted -/
theorem runH_hashed_eq_accepted (bufs : List Bytes) (rs : List Resp) :
    (runH false bufs rs).2.1 = (runH false bufs rs).1 := by
  induction bufs generalizing rs with
  | nil => rfl
  | cons a as ih =>
    simp only [runH]
    have h := (writeAllH_hashed_eq_accepted a rs).1
    generalize writeAllH false a rs = w at h
    obtain ⟨e, hh, st, rs'⟩ := w
    simp only at h
    subst h
    cases st with
    | ok => simp only [ih rs']
    | err => rfl
    | starved => rfl

/-- **alternate payload digest**: when every `write_all` succeeded, the hashed bytes are the whole
archive (the concatenation of all buffers), so `PAYLOADDIGESTALT = H(uncompressed archive)` for any `H` -/
theorem alt_digest (H : Bytes → Bytes) (bufs : List Bytes) (rs : List Resp)
    (hok : (runH false bufs rs).2.2.1 = .ok) : H (runH false bufs rs).2.1 = H bufs.flatten := by
  congr 1
  rw [runH_hashed_eq_accepted]
  induction bufs generalizing rs with
  | nil => rfl
  | cons a as ih =>
    simp only [runH] at hok ⊢
    have h2 := (writeAllH_hashed_eq_accepted a rs).2
    generalize hw : writeAllH false a rs = w at h2 hok
    obtain ⟨e, hh, st, rs'⟩ := w
    simp only at h2 hok ⊢
    cases st with
    | ok =>
      simp only at hok ⊢
      have hall := (Io.writeAll_spec a rs).2.1 (by rw [← h2])
      rw [← h2] at hall
      simp only at hall
      rw [hall, ih rs' hok, List.flatten_cons]
    | err => simp at hok
    | starved => simp at hok

/-- the former code (hash the whole buffer, then forward) is wrong as soon as the inner writer accepts
only part of a buffer: one byte accepted per call on a 2-byte buffer hashes 3 bytes -/
theorem old_writer_witness :
    (writeAllH true [1, 2] [.ok 1, .ok 1]).2.1 = [1, 2, 2] ∧ (writeAllH true [1, 2] [.ok 1, .ok 1]).1 = [1, 2] := by
  decide

/-! ### what `build` records -/
section recorded
variable (x : Ctx)

/-- `RPMTAG_PAYLOADDIGEST` holds the digest handed in for the compressed payload -/
theorem payload_digest : getStringArray (C06.hdrOf x) IndexTag.RPMTAG_PAYLOADDIGEST = .ok [x.payloadShaHex] :=
  C06.getter_of_slot IndexData.asStringArray (s := (IndexTag.RPMTAG_PAYLOADDIGEST, always fun x => .strArray [x.payloadShaHex]))
    (C06.mem_slot (i := 41) rfl) rfl rfl
theorem payload_digest_algo : getU32 (C06.hdrOf x) IndexTag.RPMTAG_PAYLOADDIGESTALGO = .ok 8 :=
  C06.getter_of_slot IndexData.asU32 (s := (IndexTag.RPMTAG_PAYLOADDIGESTALGO, always fun _ => .int32 [8]))
    (C06.mem_slot (i := 42) rfl) rfl rfl
/-- `RPMTAG_PAYLOADDIGESTALT` holds the digest of the uncompressed archive -/
theorem archive_digest : getStringArray (C06.hdrOf x) IndexTag.RPMTAG_PAYLOADDIGESTALT = .ok [x.archiveShaHex] :=
  C06.getter_of_slot IndexData.asStringArray (s := (IndexTag.RPMTAG_PAYLOADDIGESTALT, always fun x => .strArray [x.archiveShaHex]))
    (C06.mem_slot (i := 43) rfl) rfl rfl
/-- file digests: one per file, in file order, each the digest `add_data` computed over that file's content -/
theorem file_digests (hne : x.c.files.isEmpty = false) :
    getStringArray (C06.hdrOf x) IndexTag.RPMTAG_FILEDIGESTS = .ok (x.c.files.map (·.shaHex))
    ∧ getU32 (C06.hdrOf x) IndexTag.RPMTAG_FILEDIGESTALGO = .ok 8 :=
  ⟨C06.readback_digests x hne,
   C06.readback_file_array x IndexData.asU32 (i := 33) (f := fun _ => .int32 [8]) rfl hne rfl⟩

end recorded

/-- the signature header built by `build`, `sign` and `clear_signatures` records the digest passed in
under RPMSIGTAG_SHA256, whatever signatures accompany it -/
theorem sig_header_sha256 (sigs : List (Nat × Bytes × Bytes)) (d : Bytes)
    (hs : ∀ s ∈ sigs, s.1 ≠ SigTag.RPMSIGTAG_SHA256 ∧ s.1 ≠ SigTag.RPMSIGTAG_OPENPGP ∧ s.1 ≠ SigTag.HEADER_SIGNATURES) :
    getString (signatureHeader sigs (some d)) SigTag.RPMSIGTAG_SHA256 = .ok d := by
  unfold signatureHeader
  cases hl : sigs.getLast? with
  | none =>
    exact fromEntries_get IndexData.asStr (recs := [(SigTag.RPMSIGTAG_SHA256, .str d)]) (d := .str d) (by simp)
      (by intro r hr; simp only [List.mem_cons, List.not_mem_nil, or_false] at hr; subst hr; show (273 : Nat) ≠ 62; omega) (by simp) rfl
  | some s =>
    obtain ⟨tag, raw, b64⟩ := s
    have hm := List.mem_of_getLast? hl
    obtain ⟨h1, h2, h3⟩ := hs _ hm
    simp only at h1 h2 h3
    refine fromEntries_get IndexData.asStr (t := SigTag.RPMSIGTAG_SHA256) (d := .str d) ?_ ?_ (by simp) rfl
    · simp only [List.map_cons, List.map_nil, List.cons_append, List.nil_append, List.nodup_cons, List.mem_cons,
        List.not_mem_nil, or_false, not_or, List.nodup_nil, and_true]
      refine ⟨⟨fun e => h2 e.symm, ?_⟩, fun e => h1 e, fun e => e⟩
      show (278 : Nat) ≠ 273; omega
    · intro r hr
      simp only [List.cons_append, List.nil_append, List.mem_cons, List.not_mem_nil, or_false] at hr
      rcases hr with rfl | rfl | rfl
      · show (278 : Nat) ≠ 62; omega
      · exact h3
      · show (273 : Nat) ≠ 62; omega

/-- **`build`**: the header digest recorded in the signature header is the digest of the serialised main
header; payload and archive digests are those of the payload and the archive -/
theorem build_digests (c : Cfg) (now : Nat) (sha256hex : Bytes → Bytes) (archive payload : Bytes) :
    let p := build c now sha256hex archive payload
    getString p.md.signature SigTag.RPMSIGTAG_SHA256 = .ok (sha256hex (writeHeader p.md.header))
    ∧ getStringArray p.md.header IndexTag.RPMTAG_PAYLOADDIGEST = .ok [sha256hex p.content]
    ∧ getStringArray p.md.header IndexTag.RPMTAG_PAYLOADDIGESTALT = .ok [sha256hex archive] := by
  intro p
  refine ⟨sig_header_sha256 [] _ (by simp), ?_, ?_⟩
  · exact payload_digest (mkCtx c now (sha256hex payload) (sha256hex archive))
  · exact archive_digest (mkCtx c now (sha256hex payload) (sha256hex archive))

/-! ### non-vacuity -/
-- a sink that takes 1 byte, is interrupted, then takes the rest: hashed = accepted = everything
example : writeAllH false [1, 2, 3] [.ok 1, .intr, .ok 5] = ([1, 2, 3], [1, 2, 3], .ok, []) := by decide
-- a hard failure after two bytes: the hasher saw exactly those two bytes
example : writeAllH false [1, 2, 3] [.ok 2, .fail] = ([1, 2], [1, 2], .err, []) := by decide
example : (runH false [[1, 2], [3]] [.ok 1, .ok 1, .ok 1]).2.2.1 = .ok := by decide

end RpmVerif.C08
