import RpmVerif.Props.C06
import RpmVerif.Props.Pipeline
/-!
# C11 — builds with a source date are reproducible and clamped

In the model a build is a function of the builder state, the payload bytes and the clock — the clock
enters only through `clampNow source_date now` (build time, signature time) and, since fix 4484349,
the generated user()/group() dependencies are sorted, so no hash-iteration order enters at all.
What a theorem cannot show — that the REAL build has no other hidden input — is what the
correspondence tests (repeated in-process and cross-process builds).
-/
namespace RpmVerif.C11
open RpmVerif.Hdr RpmVerif.Bld RpmVerif.Gen RpmVerif.Sign RpmVerif.Cpio

/-- with a source date not in the future the clamped time IS the source date, whatever the clock says -/
theorem clampNow_of_past {d now : Nat} (h : d ≤ now) : clampNow (some d) now = d := by
  simp only [clampNow]; split <;> omega

/-- **determinism**: same configuration, same payload, source date set and not in the future of either
clock reading ⇒ the same main header, byte for byte -/
theorem build_deterministic (c : Cfg) {d now₁ now₂ : Nat} (hd : c.sourceDate = some d) (h1 : d ≤ now₁) (h2 : d ≤ now₂)
    (p a : Bytes) : mainHeader c now₁ p a = mainHeader c now₂ p a := by
  simp only [mainHeader, records, mkCtx, hd, clampNow_of_past h1, clampNow_of_past h2]

/-- whole package (unsigned): identical bytes -/
theorem build_bytes_deterministic (c : Cfg) {d now₁ now₂ : Nat} (hd : c.sourceDate = some d) (h1 : d ≤ now₁) (h2 : d ≤ now₂)
    (sha256hex : Bytes → Bytes) (archive payload : Bytes) :
    writePackage (build c now₁ sha256hex archive payload) = writePackage (build c now₂ sha256hex archive payload) := by
  simp only [build, build_deterministic c hd h1 h2]

/-- the signature timestamp `build_and_sign` uses is clamped the same way, hence the same for both clocks
(so a deterministic signature scheme yields the same signature) -/
theorem sign_time_deterministic {d now₁ now₂ : Nat} (h1 : d ≤ now₁) (h2 : d ≤ now₂) :
    clampNow (some d) now₁ = clampNow (some d) now₂ := by
  rw [clampNow_of_past h1, clampNow_of_past h2]

/-! ### no timestamp later than the source date -/
theorem clampNow_le (d now : Nat) : clampNow (some d) now ≤ d := by
  simp only [clampNow]; split <;> omega

/-- build time recorded in the header ≤ source date -/
theorem buildtime_clamped (c : Cfg) {d : Nat} (hd : c.sourceDate = some d) (now : Nat) (p a : Bytes) :
    getU32 (mainHeader c now p a) IndexTag.RPMTAG_BUILDTIME = .ok (clampNow (some d) now) ∧ clampNow (some d) now ≤ d := by
  refine ⟨?_, clampNow_le d now⟩
  have := C06.getter_of_slot IndexData.asU32 (x := mkCtx c now p a) (s := (IndexTag.RPMTAG_BUILDTIME, always fun x => .int32 [x.bt]))
    (C06.mem_slot (i := 17) rfl) rfl rfl
  have e : (mkCtx c now p a).bt = clampNow (some d) now := by simp only [mkCtx, hd]
  rw [← e]; exact this

/-- every recorded file mtime ≤ source date -/
theorem mtimes_clamped (c : Cfg) {d : Nat} (hd : c.sourceDate = some d) :
    ∀ t ∈ c.files.map (fun f => clampMtime c.sourceDate f.mtime), t ≤ d := by
  intro t ht
  obtain ⟨f, _, rfl⟩ := List.mem_map.mp ht
  exact (C06.clamp_spec c.sourceDate f.mtime).2 d hd

/-! ### independence of the order in which owners are encountered (the former HashSet) -/
theorem le_antisymm_bytes (a b : Bytes) (h1 : a ≤ b) (h2 : b ≤ a) : a = b := by
  exact List.le_antisymm h1 h2

theorem sorted_perm_eq {l₁ l₂ : List Bytes} (h : l₁.Perm l₂) :
    l₁.mergeSort (fun a b => decide (a ≤ b)) = l₂.mergeSort (fun a b => decide (a ≤ b)) := by
  apply List.Perm.eq_of_pairwise (le := fun a b => decide (a ≤ b) = true)
  · intro a b _ _ h1 h2
    exact le_antisymm_bytes a b (by simpa using h1) (by simpa using h2)
  · exact List.pairwise_mergeSort (le := fun a b => decide (a ≤ b))
      (fun a b c h1 h2 => by simp only [decide_eq_true_eq] at *; exact List.le_trans h1 h2)
      (fun a b => by simp only [Bool.or_eq_true, decide_eq_true_eq]; exact List.le_total a b) l₁
  · exact List.pairwise_mergeSort (le := fun a b => decide (a ≤ b))
      (fun a b c h1 h2 => by simp only [decide_eq_true_eq] at *; exact List.le_trans h1 h2)
      (fun a b => by simp only [Bool.or_eq_true, decide_eq_true_eq]; exact List.le_total a b) l₂
  · exact ((List.mergeSort_perm l₁ _).trans h).trans (List.mergeSort_perm l₂ _).symm

/-- the generated user()/group() dependencies do not depend on the order in which the owners are seen -/
theorem owners_order_independent {l₁ l₂ : List Bytes} (h : l₁.Perm l₂) : sortedDedup l₁ = sortedDedup l₂ := by
  simp only [sortedDedup, sorted_perm_eq h]

/-! ### the clauses that had no theorem (AUDIT2 c35 - c37): signed builds, the signature's creation time, the archive -/

/-- the unsigned package VALUE is the same for both clocks (not only its bytes) -/
theorem build_eq (c : Cfg) {d now₁ now₂ : Nat} (hd : c.sourceDate = some d) (h1 : d ≤ now₁) (h2 : d ≤ now₂)
    (sha256hex : Bytes → Bytes) (archive payload : Bytes) :
    build c now₁ sha256hex archive payload = build c now₂ sha256hex archive payload := by
  simp only [build, build_deterministic c hd h1 h2]

/-- **`build_and_sign` is reproducible.** `build_and_sign` reads the clock twice (`now'` for the signature time, then
`now` inside `build`); with a source date not later than any of the four readings, two runs return the same package and
write the same bytes - for EVERY signature scheme whose `sign` is a function of (key, data, time), which is what
"a deterministic key type" means (Ed25519, RSA PKCS#1 v1.5; `SigScheme.sign` is such a function by construction). -/
theorem build_sign_bytes_deterministic (S : SigScheme) (c : Cfg) {d now₁ now₂ now₁' now₂' : Nat}
    (hd : c.sourceDate = some d) (h1 : d ≤ now₁) (h2 : d ≤ now₂) (h1' : d ≤ now₁') (h2' : d ≤ now₂')
    (sha256 : Bytes → Bytes) (archive payload : Bytes) (k : S.Key) :
    Pipeline.buildAndSign sha256 c now₁ archive payload S now₁' k = Pipeline.buildAndSign sha256 c now₂ archive payload S now₂' k
    ∧ writePackage (Pipeline.buildAndSign sha256 c now₁ archive payload S now₁' k)
        = writePackage (Pipeline.buildAndSign sha256 c now₂ archive payload S now₂' k) := by
  have e : Pipeline.buildAndSign sha256 c now₁ archive payload S now₁' k
      = Pipeline.buildAndSign sha256 c now₂ archive payload S now₂' k := by
    simp only [Pipeline.buildAndSign, hd, clampNow_of_past h1', clampNow_of_past h2',
      build_eq c hd h1 h2 (Pipeline.hexOf sha256) archive payload]
  exact ⟨e, by rw [e]⟩


/-- **no signature creation time later than the source date.** For a `pgp::Signer` (`PgpScheme`: only sealing and
parsing of packets are abstract) the signature header `build_and_sign` installs holds ONE signature `sig` - base64 under
RPMSIGTAG_OPENPGP, raw under the key's legacy tag -, `sig` is the sealed configuration `Signer::sign` assembles for the
time `t = clampNow source_date now'` (C10 `config_created_eq`), reading the packet back gives creation time `t`
(`ParseSeal`), and `t ≤ source date` for EVERY clock reading `now'` (`clampNow_le`) - also when the source date lies
in the future, where `t` is the clock. -/
theorem sigtime_clamped (P : PgpScheme) (hp : P.ParseSeal) (c : Cfg) {d : Nat} (hd : c.sourceDate = some d)
    (sha256 : Bytes → Bytes) (now now' : Nat) (archive payload : Bytes) (k : P.Key) :
    ∃ (t : Nat) (sig : Bytes),
      t = clampNow (some d) now' ∧ t ≤ d ∧
      sig = P.sealSig k (writeHeader (build c now (Pipeline.hexOf sha256) archive payload).md.header) (P.configOf k t) ∧
      (Pipeline.buildAndSign sha256 c now archive payload P.toSigScheme now' k).md.signature =
        fromEntries [(SigTag.RPMSIGTAG_OPENPGP, .strArray [P.b64enc sig]), (signerLegacyTag (P.alg k), .bin sig),
          (SigTag.RPMSIGTAG_SHA256, .str (shaHex sha256 (writeHeader (build c now (Pipeline.hexOf sha256) archive payload).md.header)))]
          SigTag.HEADER_SIGNATURES ∧
      (P.parse sig).bind SigConfig.created = some (t : Int) := by
  refine ⟨clampNow (some d) now', _, rfl, clampNow_le d now', rfl, ?_, ?_⟩
  · simp only [Pipeline.buildAndSign, signOp, hd]
    rfl
  · rw [hp k _ (clampNow (some d) now')]
    simp only [Option.bind_some, PgpScheme.configOf]
    exact C10.config_created_eq _ _ _ _

/-- every cpio entry `prepare_data` writes in the standard form carries its position as inode number (counted from
`ino`), the file's mode word, the builder's uid / gid - and NOTHING else: `c_mtime`, the device numbers are 0, the
link count is 1. Neither the clock nor a source file's mtime reaches the archive. -/
theorem archive_entries_spec (uid gid : Nat) (files : List FileIn) (ino : Nat) :
    (builderEntriesFrom uid gid ino files).length = files.length ∧
    ∀ k (hk : k < files.length), (builderEntriesFrom uid gid ino files)[k]? =
      some ({ name := files[k].path, ino := ino + k, mode := files[k].mode, uid := uid, gid := gid, nlink := 1, mtime := 0,
              devMajor := 0, devMinor := 0, rdevMajor := 0, rdevMinor := 0 }, files[k].content) := by
  induction files generalizing ino with
  | nil => exact ⟨rfl, fun k hk => absurd hk (by simp)⟩
  | cons f r ih =>
    obtain ⟨l, e⟩ := ih (ino + 1)
    refine ⟨by simp [builderEntriesFrom, l], fun k hk => ?_⟩
    cases k with
    | zero => simp [builderEntriesFrom, builderMeta]
    | succ k =>
      have := e k (by simpa using hk)
      simp only [builderEntriesFrom, List.getElem?_cons_succ, this, List.getElem_cons_succ]
      have : ino + 1 + k = ino + (k + 1) := by omega
      rw [this]

/-- **the whole chain is clock-free.** The archive is `C09.archiveFor c uid gid fes` - a function of the builder's
files, contents, uid / gid and the large-file switch in which no clock value and no file mtime occurs (every entry's
`c_mtime` is 0 ≤ source date: `archive_entries_spec`) - and the payload is what a compressor that is a FUNCTION of its
input (`compress`; tested for every codec by the repeated builds, not proved) makes of it. With a source date not later
than either clock reading the written package is byte-identical. -/
theorem archive_clock_free (c : Cfg) {d now₁ now₂ : Nat} (hd : c.sourceDate = some d) (h1 : d ≤ now₁) (h2 : d ≤ now₂)
    (sha256hex : Bytes → Bytes) (compress : Bytes → Bytes) (uid gid : Nat) (fes : List (FileE × Bytes)) :
    writePackage (build c now₁ sha256hex (C09.archiveFor c uid gid fes) (compress (C09.archiveFor c uid gid fes)))
      = writePackage (build c now₂ sha256hex (C09.archiveFor c uid gid fes) (compress (C09.archiveFor c uid gid fes)))
    ∧ (∀ e ∈ builderEntriesFrom uid gid 1 (fes.map C09.toFileIn), e.1.mtime = 0 ∧ e.1.mtime ≤ d) := by
  refine ⟨build_bytes_deterministic c hd h1 h2 sha256hex _ _, fun e he => ?_⟩
  obtain ⟨k, hk, rfl⟩ := List.getElem_of_mem he
  obtain ⟨l, hspec⟩ := archive_entries_spec uid gid (fes.map C09.toFileIn) 1
  have := hspec k (by omega)
  rw [List.getElem?_eq_getElem hk] at this
  simp only [Option.some.injEq] at this
  rw [this]
  exact ⟨rfl, Nat.zero_le _⟩

/-- **the mtimes `get_file_entries` reports** for the package `build` returns are clamped: every entry's `modified_at`
is ≤ the source date (C06 `readback_file_entries_build` composed with the clamp) -/
theorem file_entry_mtimes_clamped (c : Cfg) {d : Nat} (hd : c.sourceDate = some d) (now : Nat) (sha256hex : Bytes → Bytes)
    (archive payload : Bytes) (hdir : ∀ f ∈ c.files, f.dir ∈ c.directories) (hdig : C06.DigestsOk c) :
    ∃ es, Acc.getFileEntries (build c now sha256hex archive payload).md.signature (build c now sha256hex archive payload).md.header
        = .ok es ∧ es.length = c.files.length ∧ ∀ e ∈ es, e.mtime ≤ d := by
  refine ⟨_, C06.readback_file_entries_build c now sha256hex archive payload hdir hdig, by simp, fun e he => ?_⟩
  obtain ⟨f, _, rfl⟩ := List.mem_map.mp he
  exact (C06.clamp_spec c.sourceDate f.mtime).2 d hd

/-! ### non-vacuity -/
-- a signed build of the sample configuration (source date 1.6e9) at two pairs of clock readings: one package
example : Pipeline.buildAndSign C10.tSha256 C06.sampleCfg 1700000000 [1] [2] C10.T 1700000001 (2 : UInt8)
    = Pipeline.buildAndSign C10.tSha256 C06.sampleCfg 1800000000 [1] [2] C10.T 1900000000 (2 : UInt8) :=
  (build_sign_bytes_deterministic C10.T C06.sampleCfg (d := 1600000000) rfl (by decide) (by decide) (by decide) (by decide)
    C10.tSha256 [1] [2] (2 : UInt8)).1
-- the toy OpenPGP scheme reads back the clamped creation time from the packet `build_and_sign` stores
example : ∃ t sig, t = 1600000000 ∧ (C10.toyP.parse sig).bind SigConfig.created = some (t : Int) ∧
    sig = C10.toyP.sealSig (2 : UInt8) (writeHeader (build C06.sampleCfg 1700000000 (Pipeline.hexOf C10.tSha256) [1] [2]).md.header)
      (C10.toyP.configOf (2 : UInt8) t) := by
  obtain ⟨t, sig, h1, _, h3, _, h5⟩ := sigtime_clamped C10.toyP C10.toyP_parseSeal C06.sampleCfg (d := 1600000000) rfl
    C10.tSha256 1700000000 1700000001 [1] [2] (2 : UInt8)
  exact ⟨t, sig, by rw [h1]; decide, h5, h3⟩
-- two files: inode numbers 1 and 2, c_mtime 0
example : (builderEntriesFrom 0 0 1 [⟨[46, 47, 97], 33188, [1, 2]⟩, ⟨[46, 47, 98], 33188, []⟩]).map (fun e => (e.1.ino, e.1.mtime)) = [(1, 0), (2, 0)] := by decide

example : clampNow (some 1600000000) 1700000000 = 1600000000 ∧ clampNow (some 1600000000) 1900000000 = 1600000000 := by decide
-- a source date in the future is outside the guard: the clock then shows through (and the clamp still holds)
example : clampNow (some 2000000000) 1700000000 = 1700000000 := by decide
example : sortedDedup [[98], [97], [98]] = sortedDedup [[98], [98], [97]] := owners_order_independent (by decide)

end RpmVerif.C11
