import RpmVerif.Props.C06
/-!
# C11 — builds with a source date are reproducible and clamped

In the model a build is a function of the builder state, the payload bytes and the clock — the clock
enters only through `clampNow source_date now` (build time, signature time) and, since fix 4484349,
the generated user()/group() dependencies are sorted, so no hash-iteration order enters at all.
What a theorem cannot show — that the REAL build has no other hidden input — is what the
correspondence tests (repeated in-process and cross-process builds).
-/
namespace RpmVerif.C11
open RpmVerif.Hdr RpmVerif.Bld RpmVerif.Gen

/-- with a source date not in the future the clamped time IS the source date, whatever the clock says -/
theorem clampNow_of_past {d now : Nat} (h : d ≤ now) : clampNow (some d) now = d := by
  simp only [clampNow]; split <;> omega

/-- **determinism**: same configuration, same payload, source date set and not in the future of either
clock reading ⇒ the same main header, byte for byte -/
theorem build_deterministic (c : Cfg) {d now₁ now₂ : Nat} (hd : c.sourceDate = some d) (h1 : d ≤ now₁) (h2 : d ≤ now₂)
    (p a : Bytes) : mainHeader c now₁ p a = mainHeader c now₂ p a := by
  simp only [mainHeader, records, mkCtx, hd, clampNow_of_past h1, clampNow_of_past h2]

/-- whole package (unsigned): identical bytes -/
theorem build_bytes_deterministic (c : Cfg) {d now₁ now₂ : Nat} (hd : c.sourceDate = some d) (h1 : d ≤ now₁) (h2 : d ≤ now₂)
    (sha256hex : Bytes → Bytes) (archive payload : Bytes) :
    writePackage (build c now₁ sha256hex archive payload) = writePackage (build c now₂ sha256hex archive payload) := by
  simp only [build, build_deterministic c hd h1 h2]

/-- the signature timestamp `build_and_sign` uses is clamped the same way, hence the same for both clocks
(so a deterministic signature scheme yields the same signature) -/
theorem sign_time_deterministic {d now₁ now₂ : Nat} (h1 : d ≤ now₁) (h2 : d ≤ now₂) :
    clampNow (some d) now₁ = clampNow (some d) now₂ := by
  rw [clampNow_of_past h1, clampNow_of_past h2]

/-! ### no timestamp later than the source date -/
theorem clampNow_le (d now : Nat) : clampNow (some d) now ≤ d := by
  simp only [clampNow]; split <;> omega

/-- build time recorded in the header ≤ source date -/
theorem buildtime_clamped (c : Cfg) {d : Nat} (hd : c.sourceDate = some d) (now : Nat) (p a : Bytes) :
    getU32 (mainHeader c now p a) IndexTag.RPMTAG_BUILDTIME = .ok (clampNow (some d) now) ∧ clampNow (some d) now ≤ d := by
  refine ⟨?_, clampNow_le d now⟩
  have := C06.getter_of_slot IndexData.asU32 (x := mkCtx c now p a) (s := (IndexTag.RPMTAG_BUILDTIME, always fun x => .int32 [x.bt]))
    (C06.mem_slot (i := 17) rfl) rfl rfl
  have e : (mkCtx c now p a).bt = clampNow (some d) now := by simp only [mkCtx, hd]
  rw [← e]; exact this

/-- every recorded file mtime ≤ source date -/
theorem mtimes_clamped (c : Cfg) {d : Nat} (hd : c.sourceDate = some d) :
    ∀ t ∈ c.files.map (fun f => clampMtime c.sourceDate f.mtime), t ≤ d := by
  intro t ht
  obtain ⟨f, _, rfl⟩ := List.mem_map.mp ht
  exact (C06.clamp_spec c.sourceDate f.mtime).2 d hd

/-! ### independence of the order in which owners are encountered (the former HashSet) -/
theorem le_antisymm_bytes (a b : Bytes) (h1 : a ≤ b) (h2 : b ≤ a) : a = b := by
  exact List.le_antisymm h1 h2

theorem sorted_perm_eq {l₁ l₂ : List Bytes} (h : l₁.Perm l₂) :
    l₁.mergeSort (fun a b => decide (a ≤ b)) = l₂.mergeSort (fun a b => decide (a ≤ b)) := by
  apply List.Perm.eq_of_pairwise (le := fun a b => decide (a ≤ b) = true)
  · intro a b _ _ h1 h2
    exact le_antisymm_bytes a b (by simpa using h1) (by simpa using h2)
  · exact List.pairwise_mergeSort (le := fun a b => decide (a ≤ b))
      (fun a b c h1 h2 => by simp only [decide_eq_true_eq] at *; exact List.le_trans h1 h2)
      (fun a b => by simp only [Bool.or_eq_true, decide_eq_true_eq]; exact List.le_total a b) l₁
  · exact List.pairwise_mergeSort (le := fun a b => decide (a ≤ b))
      (fun a b c h1 h2 => by simp only [decide_eq_true_eq] at *; exact List.le_trans h1 h2)
      (fun a b => by simp only [Bool.or_eq_true, decide_eq_true_eq]; exact List.le_total a b) l₂
  · exact ((List.mergeSort_perm l₁ _).trans h).trans (List.mergeSort_perm l₂ _).symm

/-- the generated user()/group() dependencies do not depend on the order in which the owners are seen -/
theorem owners_order_independent {l₁ l₂ : List Bytes} (h : l₁.Perm l₂) : sortedDedup l₁ = sortedDedup l₂ := by
  simp only [sortedDedup, sorted_perm_eq h]

/-! ### non-vacuity -/
example : clampNow (some 1600000000) 1700000000 = 1600000000 ∧ clampNow (some 1600000000) 1900000000 = 1600000000 := by decide
-- a source date in the future is outside the guard: the clock then shows through (and the clamp still holds)
example : clampNow (some 2000000000) 1700000000 = 1700000000 := by decide
example : sortedDedup [[98], [97], [98]] = sortedDedup [[98], [98], [97]] := owners_order_independent (by decide)

end RpmVerif.C11
