import RpmVerif.Props.C04
import RpmVerif.Lemmas.Alloc
import RpmVerif.Spec.Alloc
/-!
# C04 — "never allocates memory out of proportion to the input length", as statements

`Hdr.parseHeaderAcct` (Model/Header.lean) is `Header::parse` as an allocation account: what the same statements ask the
allocator for, on EVERY byte string — also one that is rejected half way (a `reserve_exact` happens before the loop
that then fails). The two expressions that size a request from untrusted fields — the argument of `reserve_exact` in
`parse_entry_data_number` and the initial capacity of `buf` in `Header::parse` — are scraped from the source
(Gen/AllocSites.lean), so a change there (`reserve_exact(num_items as usize)`, `Vec::with_capacity(size_rest)`) breaks
`reserve_arg_reading` / `buf_grows_with_input` / `reserved_le_input` instead of leaving every theorem true.

What holds (every input): each single request is at most 8 bytes per input byte (`reserved_le_input`); the decoded data
kept alive is at most 24 bytes per store byte the entry is CHARGED (`decode_kept_le_used`), and `parse_header` charges
every entry against a budget that starts as the length of the data section (fix of DEFECT-T11; `Hdr.decodeAllB`), so the
kept data is LINEAR in the input: at most 24 bytes per store byte for an accepted header (`accepted_kept_le_linear`), at
most 48 for every byte string, accepted or rejected half way (`kept_le_linear`), everything alive at the end of
`parse_header` at most 61 bytes per input byte (`live_le`) — inside the limit the differential run applies
(`harness_limit_holds`).

The family that refuted this before the fix — `n` BIN entries pointing at the same `S` store bytes, every entry getting
its own copy: `n · S` bytes kept for `16 + 16 n + S` bytes of input — is now REFUSED (`overlap_refused`, class `overlap`;
the instance the differential run replays on the real code is `alloc04 h 512 8192 7 0 8192 0`), and so is every header
whose entries are charged more than its data section holds (`Hdr.parseHeader_write_overlap`); headers written by
`from_entries` never are (`Hdr.fromEntries_within_budget`). What the loop did before the fix is kept as a statement about
a copy of the old loop (`decodeAllOld`, `overlap_old_decoder_accepted`). rpm itself rejects such headers
(hdrblobVerifyInfo: "previous data must not overlap").
-/
namespace RpmVerif.C04
open RpmVerif.Hdr RpmVerif.Gen RpmVerif

/-! ### the scraped expressions -/

/-- the argument of `reserve_exact`, read with the widths of the Rust types (`num_items : u32`, `input.len() : usize`),
never overflows and IS `min(num_items, input.len())` -/
theorem reserve_arg_reading (cnt remLen : Nat) (hc : cnt < 4294967296) (hr : remLen < 18446744073709551616) :
    reserveArgW.eval (WExpr.envOf [cnt, remLen]) = some (reserveOf cnt remLen, 64)
      ∧ reserveOf cnt remLen = Nat.min cnt remLen := by
  refine ⟨?_, rfl⟩
  have h1 : cnt % 18446744073709551616 = cnt := Nat.mod_eq_of_lt (by omega)
  have h2 : Nat.min cnt remLen < 18446744073709551616 := Nat.lt_of_le_of_lt (Nat.min_le_right _ _) hr
  simp only [reserveArgW, WExpr.eval, WExpr.envOf, WExpr.bin, List.getD_cons_zero, List.getD_cons_succ, reserveOf, reserveArg,
    Nat.reducePow, hc, hr, h1, h2, if_true]

/-- `Header::parse` creates its buffer empty (`Vec::new()`) and fills it through `take(size_rest).read_to_end`: nothing
is sized from the intro's fields before the bytes are there -/
theorem buf_grows_with_input (dl n s : Nat) : parseBufUpFront dl n s = 0 ∧ parseReadBounded = true := ⟨rfl, rfl⟩

/-- the scraped `size_rest` is the length `parseHeader` takes (its width: `C16.size_rest_fits_u64`) -/
theorem size_rest_is_model (dl n : Nat) : sizeRest dl n = dl + n * INDEX_ENTRY_SIZE := rfl

/-! ### single requests, for every input -/

/-- elements reserved for one numeric entry: never more than the bytes left at its offset, never more than its count —
whatever the count says and whether or not the entry is then accepted -/
theorem reserve_le_remaining (cnt remLen : Nat) : reserveOf cnt remLen ≤ remLen ∧ reserveOf cnt remLen ≤ cnt :=
  reserveOf_le cnt remLen

/-- bytes reserved up front by one `decode` call, for EVERY type / offset / count: at most 8 per store byte -/
theorem decode_reserve_le (store : Bytes) (ty off cnt : Nat) : decodeReserve store ty off cnt ≤ 8 * store.length := by
  have := decodeReserve_le store ty off cnt
  omega

/-- **what `Header::parse` requests is bounded by the input, for EVERY byte string — accepted or rejected**: nothing is
sized from the intro up front; the buffer holds at most the bytes that are there after the intro; the store copy and
the index fit in the buffer; every `reserve_exact` is at most 8 bytes per store byte; there are at most as many
reservations as index entries; the largest single request is at most 8 bytes per input byte. -/
theorem reserved_le_input (bs : Bytes) :
    let a := parseHeaderAcct bs
    a.upFront = 0 ∧ a.buffered ≤ bs.length - 16 ∧ a.storeCopy + 16 * a.entries ≤ a.buffered
      ∧ (∀ r ∈ a.reserves, r ≤ 8 * a.storeCopy) ∧ a.reserves.length ≤ a.entries
      ∧ a.maxSingle ≤ 8 * bs.length := by
  have key : let a := parseHeaderAcct bs
      a.upFront = 0 ∧ a.buffered ≤ bs.length - 16 ∧ a.storeCopy + 16 * a.entries ≤ a.buffered
      ∧ (∀ r ∈ a.reserves, r ≤ 8 * a.storeCopy) ∧ a.reserves.length ≤ a.entries := by
    unfold parseHeaderAcct
    split
    · rename_i intro r h0
      obtain ⟨rfl, l0⟩ := takeN_ok h0
      rw [ihs] at l0
      split
      · rename_i n dl h1
        simp only [parseBufUpFront, parseReadBounded, if_true]
        split
        · rename_i body rest h2
          obtain ⟨rfl, l2⟩ := takeN_ok h2
          have hgot : Nat.min (sizeRest dl n) (body ++ rest).length = sizeRest dl n := by
            simp only [List.length_append]; exact Nat.min_eq_left (by omega)
          split
          · rename_i raws store h3
            obtain ⟨rfl, l3, _⟩ := parseEntriesRaw_ok h3
            simp only [List.length_append, writeRaws_length, sizeRest] at l2 hgot ⊢
            refine ⟨trivial, by omega, by omega, ?_, ?_⟩
            · intro x hx
              obtain ⟨c, _, rfl⟩ := List.mem_map.mp hx
              have := decodeReserve_le store c.2.1 c.2.2.1 c.2.2.2
              omega
            · rw [List.length_map]
              have := decodeCalls_length_le store raws
              omega
          · have := rawPushed_le n body
            simp only [List.length_append, sizeRest] at l2 hgot ⊢
            refine ⟨trivial, by omega, by omega, by simp, by simp⟩
        · simp only [List.length_append]
          refine ⟨trivial, ?_, by simp, by simp, by simp⟩
          have : Nat.min (sizeRest dl n) r.length ≤ r.length := Nat.min_le_right _ _
          omega
      · simp
    · simp
  obtain ⟨k1, k2, k3, k4, k5⟩ := key
  refine ⟨k1, k2, k3, k4, k5, ?_⟩
  simp only [ParseAcct.maxSingle, INDEX_ENTRY_VALUE_BYTES]
  have hf : (parseHeaderAcct bs).reserves.foldl Nat.max 0 ≤ 8 * bs.length :=
    foldl_max_le (Nat.zero_le _) (fun x hx => by have := k4 x hx; omega)
  simp only [Nat.max_def]
  repeat' split
  all_goals omega

/-- the account of an ACCEPTED header is exactly its sizes: the buffer is index + store, the store copy is the store,
one `IndexEntry` and one reservation per entry, and the data kept is the decoded data of all entries -/
theorem acct_of_accepted {bs h rest} (hp : parseHeader bs = .ok (h, rest)) :
    parseHeaderAcct bs =
      ⟨0, h.dataSize + h.nEntries * 16, h.dataSize, h.nEntries,
        h.entries.map (fun e => decodeReserve h.store e.data.typeCode e.off e.cnt), h.keptBytes⟩ := by
  obtain ⟨res, hr, rfl, wf⟩ := parseHeader_ok hp
  exact acct_of_written wf hr rest

/-! ### what is kept -/

/-- data kept by one accepted entry: at most 24 bytes per store byte from its offset on (a `String` value per NUL) -/
theorem decode_kept_le {store ty off cnt d} (h : decode store ty off cnt = .ok d) :
    d.keptBytes ≤ 24 * (store.length - off) := Hdr.decode_kept_le h

/-- data kept by one accepted entry: at most 24 bytes per store byte the budget charges it (`used` of the second loop) -/
theorem decode_kept_le_used {store ty off cnt d} (h : decode store ty off cnt = .ok d) :
    d.keptBytes ≤ 24 * decodeUsed store off cnt d ∧ decodeUsed store off cnt d ≤ store.length - off :=
  ⟨Hdr.decode_kept_le_used h, Hdr.decodeUsed_le h⟩

/-- the decoded data alive at the end of the second loop, for every input: at most 24 · entries · store (the bound that
was the best there is before the budget; kept because it is the sharper one for headers of one or two entries) -/
theorem kept_le_quadratic (bs : Bytes) :
    let a := parseHeaderAcct bs
    a.kept ≤ 24 * (a.entries * a.storeCopy) ∧ 16 * a.kept ≤ 24 * (bs.length * bs.length) := by
  have h1 : (parseHeaderAcct bs).kept ≤ 24 * ((parseHeaderAcct bs).entries * (parseHeaderAcct bs).storeCopy) := by
    have aux : ∀ a, parseHeaderAcct bs = a → a.kept ≤ 24 * (a.entries * a.storeCopy) := by
      intro a ha
      unfold parseHeaderAcct at ha
      split at ha
      · split at ha
        · simp only [parseBufUpFront, parseReadBounded, if_true] at ha
          split at ha
          · split at ha
            · rename_i raws store h3
              obtain ⟨_, l3, _⟩ := parseEntriesRaw_ok h3
              have := keptOfCalls_le store raws
              subst ha
              simp only
              rw [← l3]; exact this
            · subst ha; simp
          · subst ha; simp
        · subst ha; simp
      · subst ha; simp
    exact aux _ rfl
  obtain ⟨_, k2, k3, _, _, _⟩ := reserved_le_input bs
  refine ⟨h1, ?_⟩
  have e1 : 16 * (parseHeaderAcct bs).entries ≤ bs.length := by omega
  have e2 : (parseHeaderAcct bs).storeCopy ≤ bs.length := by omega
  have e3 := Nat.mul_le_mul e1 e2
  calc 16 * (parseHeaderAcct bs).kept
      ≤ 16 * (24 * ((parseHeaderAcct bs).entries * (parseHeaderAcct bs).storeCopy)) := Nat.mul_le_mul_left _ h1
    _ = 24 * (16 * (parseHeaderAcct bs).entries * (parseHeaderAcct bs).storeCopy) := by
        simp only [← Nat.mul_assoc]
    _ ≤ 24 * (bs.length * bs.length) := Nat.mul_le_mul_left _ e3

/-- **the decoded data alive at the end of the second loop is LINEAR in the input, for EVERY byte string** — accepted,
or rejected at any entry (also at the one the budget refuses, whose data has been decoded by then): at most 48 bytes per
byte of the data section, hence per input byte. (24 for what the budget covered + 24 for the entry the loop stopped at.) -/
theorem kept_le_linear (bs : Bytes) :
    let a := parseHeaderAcct bs
    a.kept ≤ 48 * a.storeCopy ∧ a.kept ≤ 48 * bs.length := by
  have h1 : (parseHeaderAcct bs).kept ≤ 48 * (parseHeaderAcct bs).storeCopy := by
    have aux : ∀ a, parseHeaderAcct bs = a → a.kept ≤ 48 * a.storeCopy := by
      intro a ha
      unfold parseHeaderAcct at ha
      split at ha
      · split at ha
        · simp only [parseBufUpFront, parseReadBounded, if_true] at ha
          split at ha
          · split at ha
            · rename_i raws store h3
              have := keptOfCalls_le_linear store raws
              subst ha
              exact this
            · subst ha; simp
          · subst ha; simp
        · subst ha; simp
      · subst ha; simp
    exact aux _ rfl
  obtain ⟨_, k2, k3, _, _, _⟩ := reserved_le_input bs
  exact ⟨h1, by omega⟩

/-- **an ACCEPTED header keeps at most 24 bytes of decoded data per byte of its data section** (a `String` value for an
empty string and its NUL is the worst case), hence per input byte: the entries are charged against the data section
and what an entry keeps is at most 24 × what it is charged -/
theorem accepted_kept_le_linear {bs h rest} (hp : parseHeader bs = .ok (h, rest)) :
    h.keptBytes ≤ 24 * h.dataSize ∧ h.keptBytes ≤ 24 * bs.length := by
  obtain ⟨res, hr, rfl, wf⟩ := parseHeader_ok hp
  have := kept_le_of_budget wf
  rw [wf.dlEq] at this
  refine ⟨this, ?_⟩
  simp only [hdrBytes, List.length_append, wf.dlEq]
  omega

/-- **everything alive at the end of `parse_header`, every byte string**: buffer, store copy, 48-byte entry values, one
reservation (13 bytes per input byte together) + the kept data (48): linear, and inside the limit of Spec/Alloc.lean -/
theorem live_le (bs : Bytes) :
    let a := parseHeaderAcct bs
    a.live ≤ 13 * bs.length + 48 * a.storeCopy ∧ a.live ≤ 61 * bs.length ∧ a.live ≤ AllocSpec.liveLimit bs.length := by
  obtain ⟨k1, k2, k3, k4, _, _⟩ := reserved_le_input bs
  have h := (kept_le_linear bs).1
  have hf : (parseHeaderAcct bs).reserves.foldl Nat.max 0 ≤ 8 * (parseHeaderAcct bs).storeCopy :=
    foldl_max_le (Nat.zero_le _) k4
  simp only [ParseAcct.live, INDEX_ENTRY_VALUE_BYTES, AllocSpec.liveLimit, k1] at *
  simp only [Nat.max_def]
  split <;> omega

/-- **`Package::parse` / `PackageMetadata::parse`, every byte string**: at most two header parses, each on a suffix of the
input, so every single request of either is at most 8 bytes per input byte, nothing is sized up front, the content
kept is at most the input, and the decoded data either header keeps is at most 48 bytes per input byte -/
theorem package_requests_le_input (bs : Bytes) :
    let p := parsePackageAcct bs
    p.headers.length ≤ 2 ∧ p.content ≤ bs.length
      ∧ ∀ a ∈ p.headers, a.upFront = 0 ∧ a.maxSingle ≤ 8 * bs.length ∧ a.buffered ≤ bs.length
          ∧ 16 * a.kept ≤ 24 * (bs.length * bs.length) ∧ a.kept ≤ 48 * bs.length := by
  have one : ∀ r : Bytes, r.length ≤ bs.length →
      (parseHeaderAcct r).upFront = 0 ∧ (parseHeaderAcct r).maxSingle ≤ 8 * bs.length ∧ (parseHeaderAcct r).buffered ≤ bs.length
        ∧ 16 * (parseHeaderAcct r).kept ≤ 24 * (bs.length * bs.length) ∧ (parseHeaderAcct r).kept ≤ 48 * bs.length := by
    intro r hr
    obtain ⟨k1, k2, _, _, _, k6⟩ := reserved_le_input r
    have q := (kept_le_quadratic r).2
    have q2 := (kept_le_linear r).2
    have := Nat.mul_le_mul hr hr
    exact ⟨k1, by omega, by omega, by omega, by omega⟩
  unfold parsePackageAcct
  split
  · rename_i lb r h0
    obtain ⟨rfl, _⟩ := takeN_ok h0
    have hr : r.length ≤ (lb ++ r).length := by simp
    split
    · split
      · rename_i hsig r2 h2
        obtain ⟨res, pad, _, _, rfl, _⟩ := parseSignature_ok h2
        have hr2 : r2.length ≤ (lb ++ (hdrBytes res hsig ++ pad ++ r2)).length := by simp only [List.length_append]; omega
        split
        · rename_i hh rest h3
          obtain ⟨res', _, rfl, _⟩ := parseHeader_ok h3
          refine ⟨by simp, by simp only [List.length_append]; omega, ?_⟩
          intro a ha
          simp only [List.mem_cons, List.not_mem_nil, or_false] at ha
          rcases ha with rfl | rfl
          · exact one _ hr
          · exact one _ hr2
        · refine ⟨by simp, by simp, ?_⟩
          intro a ha
          simp only [List.mem_cons, List.not_mem_nil, or_false] at ha
          rcases ha with rfl | rfl
          · exact one _ hr
          · exact one _ hr2
      · refine ⟨by simp, by simp, ?_⟩
        intro a ha
        simp only [List.mem_cons, List.not_mem_nil, or_false] at ha
        subst ha
        exact one _ hr
    · simp
  · simp

/-! ### overlapping entries are refused -/

/-- **the family that kept `n · S` bytes before the fix is refused**: `n ≥ 2` BIN entries that all point at offset 0 of
one `S`-byte store (`S ≥ 1`), an input of `16 + 16 n + S` bytes, are rejected with class `overlap` (what is alive when
the loop stops is bounded by `kept_le_linear`; two copies of the store in the instance of the examples below) -/
theorem overlap_refused (n S : Nat) (hn2 : 2 ≤ n) (hS1 : 1 ≤ S) (hn : n < 4294967296) (hS : S < 4294967296) :
    let bs := writeHeader (overlapHeader n S)
    parseHeader bs = .err "overlap" ∧ bs.length = 16 + 16 * n + S := by
  have hover : (overlapHeader n S).store.length < usedSum (overlapHeader n S).store (overlapHeader n S).entries := by
    rw [overlap_used]
    simp only [overlapHeader, List.length_replicate]
    calc S < 2 * S := by omega
      _ ≤ n * S := Nat.mul_le_mul_right _ hn2
  have hp : parseHeader (writeHeader (overlapHeader n S)) = .err "overlap" := by
    have := parseHeader_write_overlap (h := overlapHeader n S) (by simp [overlapHeader]) (by simp [overlapHeader]) hn hS
      (overlap_fields hS) (overlap_dec n S) hover (res := [0, 0, 0, 0]) rfl []
    rwa [List.append_nil, ← writeHeader_eq] at this
  exact ⟨hp, overlap_length n S⟩

/-- the single entry of the family is what the budget allows: accepted (the budget is tight, not a blanket refusal) -/
theorem overlap_one_accepted (S : Nat) (hS : S < 4294967296) :
    parseHeader (writeHeader (overlapHeader 1 S)) = .ok (overlapHeader 1 S, []) ∧ (overlapHeader 1 S).keptBytes = S := by
  have wf : HeaderWF (overlapHeader 1 S) :=
    ⟨by simp [overlapHeader], by simp [overlapHeader], by show (1 : Nat) < _; omega, hS, overlap_fields hS, overlap_dec 1 S, by
      rw [overlap_used]; simp [overlapHeader]⟩
  have := parseHeader_write wf (res := [0, 0, 0, 0]) rfl []
  rw [List.append_nil, ← writeHeader_eq] at this
  exact ⟨this, by rw [overlap_kept]; omega⟩

/-- **the budget refuses no header the builder emits**: `from_entries` lays the data out without overlap — the store bytes
its entries are charged (the region trailer's 16 bytes, every record's encoding) are together at most the data section
(`Hdr.fromEntries_within_budget`) — so what `Header::write` emits for it parses back to the same header -/
theorem fromEntries_within_budget {recs : List (Nat × IndexData)} {regionTag : Nat} (ok : RecsOk recs regionTag) :
    usedSum (fromEntries recs regionTag).store (fromEntries recs regionTag).entries ≤ (fromEntries recs regionTag).store.length
      ∧ parseHeader (writeHeader (fromEntries recs regionTag)) = .ok (fromEntries recs regionTag, []) := by
  refine ⟨Hdr.fromEntries_within_budget ok, ?_⟩
  have := parseHeader_write (fromEntries_wf ok) (res := [0, 0, 0, 0]) rfl []
  rwa [List.append_nil, ← writeHeader_eq] at this

/-- **the limit the differential run applies (64 KiB + 128 bytes per input byte) holds of every accepted header** — the
statement `harness_limit_refuted` was the negation of before the fix -/
theorem harness_limit_holds {bs h rest} (hp : parseHeader bs = .ok (h, rest)) :
    h.keptBytes ≤ AllocSpec.liveLimit bs.length := by
  have := (accepted_kept_le_linear hp).2
  simp only [AllocSpec.liveLimit]
  omega

/-! ### the loop before the fix (a copy of the old definition, kept as a witness of what the budget is for) -/

/-- the second loop of `parse_header` as it was before the budget: every entry decoded on its own -/
def decodeAllOld (store : Bytes) : List (Nat × Nat × Nat × Nat) → Out (List Entry)
  | [] => pure []
  | (tag, ty, off, cnt) :: r => do
    let d ← decode store ty off cnt
    let es ← decodeAllOld store r
    pure (⟨tag, d, off, cnt⟩ :: es)

/-- **what the old loop did with the family, and what the new one does**: the old loop ACCEPTS `n` entries over one
`S`-byte store and keeps `n · S` bytes of decoded data (for every `n`: no bound linear in `16 + 16 n + S` exists); the
loop with the budget refuses the same index as soon as `n ≥ 2`, `S ≥ 1` -/
theorem overlap_old_decoder_accepted (n S : Nat) :
    decodeAllOld (overlapHeader n S).store ((overlapHeader n S).entries.map Entry.raw) = .ok (overlapHeader n S).entries
      ∧ (overlapHeader n S).keptBytes = n * S
      ∧ (2 ≤ n → 1 ≤ S → decodeAll (overlapHeader n S).store ((overlapHeader n S).entries.map Entry.raw) = .err "overlap") := by
  refine ⟨?_, overlap_kept n S, ?_⟩
  · have key : ∀ es : List Entry, (∀ e ∈ es, decode (overlapHeader n S).store e.data.typeCode e.off e.cnt = .ok e.data) →
        decodeAllOld (overlapHeader n S).store (es.map Entry.raw) = .ok es := by
      intro es
      induction es with
      | nil => intro _; rfl
      | cons e es ih =>
        intro hd
        simp only [List.map_cons, Entry.raw, decodeAllOld]
        rw [hd e (by simp)]; simp only [Out.bind_ok]
        rw [ih (fun e' m => hd e' (by simp [m]))]; rfl
    exact key _ (overlap_dec n S)
  · intro hn2 hS1
    apply decodeAllB_overlap (overlap_dec n S)
    rw [overlap_used]
    simp only [overlapHeader, List.length_replicate]
    calc S < 2 * S := by omega
      _ ≤ n * S := Nat.mul_le_mul_right _ hn2

/-! ### non-vacuity -/
-- an INT64 entry claiming 2^32 − 1 items over an 8-byte store at offset 0: REJECTED, and the reservation made before
-- the loop failed was 8 elements = 64 bytes (the code before dd37f2f asked for 32 GiB)
example : parseHeaderAcct ([142, 173, 232, 1, 0, 0, 0, 0, 0, 0, 0, 1, 0, 0, 0, 8,
      0, 0, 3, 232, 0, 0, 0, 5, 0, 0, 0, 0, 255, 255, 255, 255, 0, 0, 0, 0, 0, 0, 0, 1])
    = ⟨0, 24, 8, 1, [64], 0⟩ := by decide +kernel
example : (parseHeader ([142, 173, 232, 1, 0, 0, 0, 0, 0, 0, 0, 1, 0, 0, 0, 8,
      0, 0, 3, 232, 0, 0, 0, 5, 0, 0, 0, 0, 255, 255, 255, 255, 0, 0, 0, 0, 0, 0, 0, 1])).isErr = true := by decide +kernel
-- the same entry with count 1: accepted, 8 bytes reserved, 8 bytes kept
example : parseHeaderAcct ([142, 173, 232, 1, 0, 0, 0, 0, 0, 0, 0, 1, 0, 0, 0, 8,
      0, 0, 3, 232, 0, 0, 0, 5, 0, 0, 0, 0, 0, 0, 0, 1, 0, 0, 0, 0, 0, 0, 0, 1])
    = ⟨0, 24, 8, 1, [8], 8⟩ := by decide +kernel
-- an intro that claims a 4 GiB store in a 16-byte input: nothing is buffered, nothing reserved
example : parseHeaderAcct [142, 173, 232, 1, 0, 0, 0, 0, 0, 0, 0, 0, 255, 255, 255, 255] = ⟨0, 0, 0, 0, [], 0⟩ := by decide +kernel
-- the overlap family at a size the kernel can run: 3 entries over a 4-byte store are refused at the second entry, with
-- two copies of the store alive (before the fix: accepted, 12 bytes kept); a single entry is accepted
example : (parseHeader (writeHeader (overlapHeader 3 4))).isErr = true ∧ (parseHeaderAcct (writeHeader (overlapHeader 3 4))).kept = 8
    ∧ (parseHeaderAcct (writeHeader (overlapHeader 3 4))).reserves.length = 2 ∧ (writeHeader (overlapHeader 3 4)).length = 68 := by decide +kernel
example : (parseHeader (writeHeader (overlapHeader 1 4))).isErr = false ∧ (parseHeaderAcct (writeHeader (overlapHeader 1 4))).kept = 4 := by decide +kernel
-- two entries that do NOT overlap (offsets 0 and 4 of an 8-byte store, 4 bytes each): accepted, the budget is used up exactly
example : (parseHeader ([142, 173, 232, 1, 0, 0, 0, 0, 0, 0, 0, 2, 0, 0, 0, 8,
      0, 0, 3, 232, 0, 0, 0, 7, 0, 0, 0, 0, 0, 0, 0, 4, 0, 0, 3, 233, 0, 0, 0, 7, 0, 0, 0, 4, 0, 0, 0, 4,
      1, 2, 3, 4, 5, 6, 7, 8])).isErr = false := by decide +kernel
-- the same two entries shifted onto each other by one byte (offsets 0 and 3, 4 and 5 bytes): refused
example : (parseHeader ([142, 173, 232, 1, 0, 0, 0, 0, 0, 0, 0, 2, 0, 0, 0, 8,
      0, 0, 3, 232, 0, 0, 0, 7, 0, 0, 0, 0, 0, 0, 0, 4, 0, 0, 3, 233, 0, 0, 0, 7, 0, 0, 0, 3, 0, 0, 0, 5,
      1, 2, 3, 4, 5, 6, 7, 8])).isErr = true := by decide +kernel
-- what a reservation would be with the count taken as it is (the shape `reserve_arg_reading` excludes)
example : reserveOf 4294967295 8 = 8 := by decide

end RpmVerif.C04
