import RpmVerif.Props.C04
import RpmVerif.Lemmas.Alloc
import RpmVerif.Spec.Alloc
/-!
# C04 — "never allocates memory out of proportion to the input length", as statements

`Hdr.parseHeaderAcct` (Model/Header.lean) is `Header::parse` as an allocation account: what the same statements ask the
allocator for, on EVERY byte string — also one that is rejected half way (a `reserve_exact` happens before the loop
that then fails). The two expressions that size a request from untrusted fields — the argument of `reserve_exact` in
`parse_entry_data_number` and the initial capacity of `buf` in `Header::parse` — are scraped from the source
(Gen/AllocSites.lean), so a change there (`reserve_exact(num_items as usize)`, `Vec::with_capacity(size_rest)`) breaks
`reserve_arg_reading` / `buf_grows_with_input` / `reserved_le_input` instead of leaving every theorem true.

What holds (every input): each single request is at most 8 bytes per input byte (`reserved_le_input`); the decoded data
kept alive is at most 24 bytes per store byte PER ENTRY (`decode_kept_le`), hence at most `24 · entries · store`
(`kept_le_quadratic`).

What does NOT hold: a bound on the kept data that is linear in the input. Index entries may point at the same store
bytes, and every entry gets its own copy: `n` BIN entries over one `S`-byte store keep `n · S` bytes for an input of
`16 + 16 n + S` bytes (`overlap_accepted`); `linear_bound_refuted` is the negation of "kept ≤ K · |input|" for every
K < 2^26, `harness_limit_refuted` the instance the differential run replays on the real code (`alloc04 h 512 8192 7 0 8192`:
16.4 KB in, 4 MiB kept). rpm itself rejects such headers (hdrblobVerifyInfo: "previous data must not overlap").
-/
namespace RpmVerif.C04
open RpmVerif.Hdr RpmVerif.Gen RpmVerif

/-! ### the scraped expressions -/

/-- the argument of `reserve_exact`, read with the widths of the Rust types (`num_items : u32`, `input.len() : usize`),
never overflows and IS `min(num_items, input.len())` -/
theorem reserve_arg_reading (cnt remLen : Nat) (hc : cnt < 4294967296) (hr : remLen < 18446744073709551616) :
    reserveArgW.eval (WExpr.envOf [cnt, remLen]) = some (reserveOf cnt remLen, 64)
      ∧ reserveOf cnt remLen = Nat.min cnt remLen := by
  refine ⟨?_, rfl⟩
  have h1 : cnt % 18446744073709551616 = cnt := Nat.mod_eq_of_lt (by omega)
  have h2 : Nat.min cnt remLen < 18446744073709551616 := Nat.lt_of_le_of_lt (Nat.min_le_right _ _) hr
  simp only [reserveArgW, WExpr.eval, WExpr.envOf, WExpr.bin, List.getD_cons_zero, List.getD_cons_succ, reserveOf, reserveArg,
    Nat.reducePow, hc, hr, h1, h2, if_true]

/-- `Header::parse` creates its buffer empty (`Vec::new()`) and fills it through `take(size_rest).read_to_end`: nothing
is sized from the intro's fields before the bytes are there -/
theorem buf_grows_with_input (dl n s : Nat) : parseBufUpFront dl n s = 0 ∧ parseReadBounded = true := ⟨rfl, rfl⟩

/-- the scraped `size_rest` is the length `parseHeader` takes (its width: `C16.size_rest_fits_u64`) -/
theorem size_rest_is_model (dl n : Nat) : sizeRest dl n = dl + n * INDEX_ENTRY_SIZE := rfl

/-! ### single requests, for every input -/

/-- elements reserved for one numeric entry: never more than the bytes left at its offset, never more than its count —
whatever the count says and whether or not the entry is then accepted -/
theorem reserve_le_remaining (cnt remLen : Nat) : reserveOf cnt remLen ≤ remLen ∧ reserveOf cnt remLen ≤ cnt :=
  reserveOf_le cnt remLen

/-- bytes reserved up front by one `decode` call, for EVERY type / offset / count: at most 8 per store byte -/
theorem decode_reserve_le (store : Bytes) (ty off cnt : Nat) : decodeReserve store ty off cnt ≤ 8 * store.length := by
  have := decodeReserve_le store ty off cnt
  omega

/-- **what `Header::parse` requests is bounded by the input, for EVERY byte string — accepted or rejected**: nothing is
sized from the intro up front; the buffer holds at most the bytes that are there after the intro; the store copy and
the index fit in the buffer; every `reserve_exact` is at most 8 bytes per store byte; there are at most as many
reservations as index entries; the largest single request is at most 8 bytes per input byte. -/
theorem reserved_le_input (bs : Bytes) :
    let a := parseHeaderAcct bs
    a.upFront = 0 ∧ a.buffered ≤ bs.length - 16 ∧ a.storeCopy + 16 * a.entries ≤ a.buffered
      ∧ (∀ r ∈ a.reserves, r ≤ 8 * a.storeCopy) ∧ a.reserves.length ≤ a.entries
      ∧ a.maxSingle ≤ 8 * bs.length := by
  have key : let a := parseHeaderAcct bs
      a.upFront = 0 ∧ a.buffered ≤ bs.length - 16 ∧ a.storeCopy + 16 * a.entries ≤ a.buffered
      ∧ (∀ r ∈ a.reserves, r ≤ 8 * a.storeCopy) ∧ a.reserves.length ≤ a.entries := by
    unfold parseHeaderAcct
    split
    · rename_i intro r h0
      obtain ⟨rfl, l0⟩ := takeN_ok h0
      rw [ihs] at l0
      split
      · rename_i n dl h1
        simp only [parseBufUpFront, parseReadBounded, if_true]
        split
        · rename_i body rest h2
          obtain ⟨rfl, l2⟩ := takeN_ok h2
          have hgot : Nat.min (sizeRest dl n) (body ++ rest).length = sizeRest dl n := by
            simp only [List.length_append]; exact Nat.min_eq_left (by omega)
          split
          · rename_i raws store h3
            obtain ⟨rfl, l3, _⟩ := parseEntriesRaw_ok h3
            simp only [List.length_append, writeRaws_length, sizeRest] at l2 hgot ⊢
            refine ⟨trivial, by omega, by omega, ?_, ?_⟩
            · intro x hx
              obtain ⟨c, _, rfl⟩ := List.mem_map.mp hx
              have := decodeReserve_le store c.2.1 c.2.2.1 c.2.2.2
              omega
            · rw [List.length_map]
              have := decodeCalls_length_le store raws
              omega
          · have := rawPushed_le n body
            simp only [List.length_append, sizeRest] at l2 hgot ⊢
            refine ⟨trivial, by omega, by omega, by simp, by simp⟩
        · simp only [List.length_append]
          refine ⟨trivial, ?_, by simp, by simp, by simp⟩
          have : Nat.min (sizeRest dl n) r.length ≤ r.length := Nat.min_le_right _ _
          omega
      · simp
    · simp
  obtain ⟨k1, k2, k3, k4, k5⟩ := key
  refine ⟨k1, k2, k3, k4, k5, ?_⟩
  simp only [ParseAcct.maxSingle, INDEX_ENTRY_VALUE_BYTES]
  have hf : (parseHeaderAcct bs).reserves.foldl Nat.max 0 ≤ 8 * bs.length :=
    foldl_max_le (Nat.zero_le _) (fun x hx => by have := k4 x hx; omega)
  simp only [Nat.max_def]
  repeat' split
  all_goals omega

/-- the account of an ACCEPTED header is exactly its sizes: the buffer is index + store, the store copy is the store,
one `IndexEntry` and one reservation per entry, and the data kept is the decoded data of all entries -/
theorem acct_of_accepted {bs h rest} (hp : parseHeader bs = .ok (h, rest)) :
    parseHeaderAcct bs =
      ⟨0, h.dataSize + h.nEntries * 16, h.dataSize, h.nEntries,
        h.entries.map (fun e => decodeReserve h.store e.data.typeCode e.off e.cnt), h.keptBytes⟩ := by
  obtain ⟨res, hr, rfl, wf⟩ := parseHeader_ok hp
  exact acct_of_written wf hr rest

/-! ### what is kept -/

/-- data kept by one accepted entry: at most 24 bytes per store byte from its offset on (a `String` value per NUL) -/
theorem decode_kept_le {store ty off cnt d} (h : decode store ty off cnt = .ok d) :
    d.keptBytes ≤ 24 * (store.length - off) := Hdr.decode_kept_le h

/-- **the decoded data alive at the end of the second loop, for every input**: at most 24 · entries · store — a bound
that is QUADRATIC in the input length, and the best there is (`overlap_accepted`) -/
theorem kept_le_quadratic (bs : Bytes) :
    let a := parseHeaderAcct bs
    a.kept ≤ 24 * (a.entries * a.storeCopy) ∧ 16 * a.kept ≤ 24 * (bs.length * bs.length) := by
  have h1 : (parseHeaderAcct bs).kept ≤ 24 * ((parseHeaderAcct bs).entries * (parseHeaderAcct bs).storeCopy) := by
    have aux : ∀ a, parseHeaderAcct bs = a → a.kept ≤ 24 * (a.entries * a.storeCopy) := by
      intro a ha
      unfold parseHeaderAcct at ha
      split at ha
      · split at ha
        · simp only [parseBufUpFront, parseReadBounded, if_true] at ha
          split at ha
          · split at ha
            · rename_i raws store h3
              obtain ⟨_, l3, _⟩ := parseEntriesRaw_ok h3
              have := keptOfCalls_le store raws
              subst ha
              simp only
              rw [← l3]; exact this
            · subst ha; simp
          · subst ha; simp
        · subst ha; simp
      · subst ha; simp
    exact aux _ rfl
  obtain ⟨_, k2, k3, _, _, _⟩ := reserved_le_input bs
  refine ⟨h1, ?_⟩
  have e1 : 16 * (parseHeaderAcct bs).entries ≤ bs.length := by omega
  have e2 : (parseHeaderAcct bs).storeCopy ≤ bs.length := by omega
  have e3 := Nat.mul_le_mul e1 e2
  calc 16 * (parseHeaderAcct bs).kept
      ≤ 16 * (24 * ((parseHeaderAcct bs).entries * (parseHeaderAcct bs).storeCopy)) := Nat.mul_le_mul_left _ h1
    _ = 24 * (16 * (parseHeaderAcct bs).entries * (parseHeaderAcct bs).storeCopy) := by
        simp only [← Nat.mul_assoc]
    _ ≤ 24 * (bs.length * bs.length) := Nat.mul_le_mul_left _ e3

/-- everything alive at the end of `parse_header`: a linear part (buffer, store copy, 48-byte entry values, one
reservation) + the kept data -/
theorem live_le (bs : Bytes) :
    let a := parseHeaderAcct bs
    a.live ≤ 13 * bs.length + 24 * (a.entries * a.storeCopy) := by
  obtain ⟨k1, k2, k3, k4, _, _⟩ := reserved_le_input bs
  have h := (kept_le_quadratic bs).1
  have hf : (parseHeaderAcct bs).reserves.foldl Nat.max 0 ≤ 8 * (parseHeaderAcct bs).storeCopy :=
    foldl_max_le (Nat.zero_le _) k4
  simp only [ParseAcct.live, INDEX_ENTRY_VALUE_BYTES, k1] at *
  simp only [Nat.max_def]
  split <;> omega

/-- **`Package::parse` / `PackageMetadata::parse`, every byte string**: at most two header parses, each on a suffix of the
input, so every single request of either is at most 8 bytes per input byte, nothing is sized up front, and the content
kept is at most the input -/
theorem package_requests_le_input (bs : Bytes) :
    let p := parsePackageAcct bs
    p.headers.length ≤ 2 ∧ p.content ≤ bs.length
      ∧ ∀ a ∈ p.headers, a.upFront = 0 ∧ a.maxSingle ≤ 8 * bs.length ∧ a.buffered ≤ bs.length
          ∧ 16 * a.kept ≤ 24 * (bs.length * bs.length) := by
  have one : ∀ r : Bytes, r.length ≤ bs.length →
      (parseHeaderAcct r).upFront = 0 ∧ (parseHeaderAcct r).maxSingle ≤ 8 * bs.length ∧ (parseHeaderAcct r).buffered ≤ bs.length
        ∧ 16 * (parseHeaderAcct r).kept ≤ 24 * (bs.length * bs.length) := by
    intro r hr
    obtain ⟨k1, k2, _, _, _, k6⟩ := reserved_le_input r
    have q := (kept_le_quadratic r).2
    have := Nat.mul_le_mul hr hr
    exact ⟨k1, by omega, by omega, by omega⟩
  unfold parsePackageAcct
  split
  · rename_i lb r h0
    obtain ⟨rfl, _⟩ := takeN_ok h0
    have hr : r.length ≤ (lb ++ r).length := by simp
    split
    · split
      · rename_i hsig r2 h2
        obtain ⟨res, pad, _, _, rfl, _⟩ := parseSignature_ok h2
        have hr2 : r2.length ≤ (lb ++ (hdrBytes res hsig ++ pad ++ r2)).length := by simp only [List.length_append]; omega
        split
        · rename_i hh rest h3
          obtain ⟨res', _, rfl, _⟩ := parseHeader_ok h3
          refine ⟨by simp, by simp only [List.length_append]; omega, ?_⟩
          intro a ha
          simp only [List.mem_cons, List.not_mem_nil, or_false] at ha
          rcases ha with rfl | rfl
          · exact one _ hr
          · exact one _ hr2
        · refine ⟨by simp, by simp, ?_⟩
          intro a ha
          simp only [List.mem_cons, List.not_mem_nil, or_false] at ha
          rcases ha with rfl | rfl
          · exact one _ hr
          · exact one _ hr2
      · refine ⟨by simp, by simp, ?_⟩
        intro a ha
        simp only [List.mem_cons, List.not_mem_nil, or_false] at ha
        subst ha
        exact one _ hr
    · simp
  · simp

/-! ### the linear bound is FALSE of the current code: overlapping entries -/

/-- **witness family**: `n` BIN entries that all point at offset 0 of one `S`-byte store are ACCEPTED, and the header
keeps `n · S` bytes of decoded data for an input of `16 + 16 n + S` bytes -/
theorem overlap_accepted (n S : Nat) (hn : n < 4294967296) (hS : S < 4294967296) :
    let bs := writeHeader (overlapHeader n S)
    parseHeader bs = .ok (overlapHeader n S, []) ∧ bs.length = 16 + 16 * n + S
      ∧ (overlapHeader n S).keptBytes = n * S ∧ (parseHeaderAcct bs).kept = n * S := by
  have wf := overlap_wf hn hS
  have hp : parseHeader (writeHeader (overlapHeader n S)) = .ok (overlapHeader n S, []) := by
    have := parseHeader_write wf (res := [0, 0, 0, 0]) rfl []
    rwa [List.append_nil, ← writeHeader_eq] at this
  refine ⟨hp, overlap_length n S, overlap_kept n S, ?_⟩
  rw [acct_of_accepted hp]
  exact overlap_kept n S

/-- **negation of "the kept data is at most K times the input length"**, for every K the format can express -/
theorem linear_bound_refuted (K : Nat) (hK : K < 67108864) :
    ∃ bs h, parseHeader bs = .ok (h, []) ∧ K * bs.length < h.keptBytes := by
  let m := 32 * (K + 1)
  have hm : m < 4294967296 := by show 32 * (K + 1) < _; omega
  obtain ⟨hp, hl, hk, _⟩ := overlap_accepted m m hm hm
  refine ⟨_, _, hp, ?_⟩
  rw [hl, hk]
  have h16 : 16 + 16 * m + m ≤ 18 * m := by show 16 + 16 * (32 * (K + 1)) + 32 * (K + 1) ≤ 18 * (32 * (K + 1)); omega
  calc K * (16 + 16 * m + m) ≤ K * (18 * m) := Nat.mul_le_mul_left _ h16
    _ = (18 * K) * m := by simp only [Nat.mul_assoc, Nat.mul_comm]
    _ < m * m := Nat.mul_lt_mul_of_lt_of_le (by show 18 * K < 32 * (K + 1); omega) (Nat.le_refl _) (by show 0 < 32 * (K + 1); omega)

/-- **the limit the differential run applies (64 KiB + 128 bytes per input byte) is exceeded by an accepted input of
16 400 bytes**: 512 entries over one 8 KiB store keep 4 MiB (the case `alloc04 h 512 8192 7 0 8192`) -/
theorem harness_limit_refuted :
    ¬ ∀ bs h rest, parseHeader bs = .ok (h, rest) → h.keptBytes ≤ AllocSpec.liveLimit bs.length := by
  intro hall
  obtain ⟨hp, hl, hk, _⟩ := overlap_accepted 512 8192 (by decide) (by decide)
  have := hall _ _ _ hp
  rw [hl, hk] at this
  simp only [AllocSpec.liveLimit] at this
  omega

/-! ### non-vacuity -/
-- an INT64 entry claiming 2^32 − 1 items over an 8-byte store at offset 0: REJECTED, and the reservation made before
-- the loop failed was 8 elements = 64 bytes (the code before dd37f2f asked for 32 GiB)
example : parseHeaderAcct ([142, 173, 232, 1, 0, 0, 0, 0, 0, 0, 0, 1, 0, 0, 0, 8,
      0, 0, 3, 232, 0, 0, 0, 5, 0, 0, 0, 0, 255, 255, 255, 255, 0, 0, 0, 0, 0, 0, 0, 1])
    = ⟨0, 24, 8, 1, [64], 0⟩ := by decide +kernel
example : (parseHeader ([142, 173, 232, 1, 0, 0, 0, 0, 0, 0, 0, 1, 0, 0, 0, 8,
      0, 0, 3, 232, 0, 0, 0, 5, 0, 0, 0, 0, 255, 255, 255, 255, 0, 0, 0, 0, 0, 0, 0, 1])).isErr = true := by decide +kernel
-- the same entry with count 1: accepted, 8 bytes reserved, 8 bytes kept
example : parseHeaderAcct ([142, 173, 232, 1, 0, 0, 0, 0, 0, 0, 0, 1, 0, 0, 0, 8,
      0, 0, 3, 232, 0, 0, 0, 5, 0, 0, 0, 0, 0, 0, 0, 1, 0, 0, 0, 0, 0, 0, 0, 1])
    = ⟨0, 24, 8, 1, [8], 8⟩ := by decide +kernel
-- an intro that claims a 4 GiB store in a 16-byte input: nothing is buffered, nothing reserved
example : parseHeaderAcct [142, 173, 232, 1, 0, 0, 0, 0, 0, 0, 0, 0, 255, 255, 255, 255] = ⟨0, 0, 0, 0, [], 0⟩ := by decide +kernel
-- the overlap family at a size the kernel can run: 3 entries over a 4-byte store keep 12 bytes
example : (parseHeaderAcct (writeHeader (overlapHeader 3 4))).kept = 12 ∧ (writeHeader (overlapHeader 3 4)).length = 68 := by decide +kernel
-- what a reservation would be with the count taken as it is (the shape `reserve_arg_reading` excludes)
example : reserveOf 4294967295 8 = 8 := by decide

end RpmVerif.C04
