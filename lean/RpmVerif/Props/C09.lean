import RpmVerif.Lemmas.RpmValid
import RpmVerif.Lemmas.BuilderSlots
import RpmVerif.Lemmas.BuilderSlotTypes
import RpmVerif.Lemmas.Cpio
import RpmVerif.Lemmas.RpmCpio
import RpmVerif.Gen.AssetTagTypes
import RpmVerif.Props.C06
import RpmVerif.Lemmas.SignE
/-!
# C09 — emitted packages satisfy rpm's structural rules

Spec: `Spec/RpmValid.lean` (`LeadValid`, `HeaderValid`, `SigLimits`, `TagTypesOk`, `SigPadding`, `CompressorMagic`, `PayloadFlagsOk`,
`RpmlibDeclared`, `CpioValid`, `PackageValid`, `ForeignValid`), `Spec/RpmTagTypes.lean` (rpm's tag table).
Model: `Model/FromEntries.lean`, `Model/Builder.lean`, `Model/Cpio.lean`.

Theorems (all for ALL inputs of the stated shape; no bound on sizes, counts or lengths):

* `fromEntries_valid` — `Header::from_entries` over ANY record list with pairwise distinct legal tags,
  canonical non-empty data and sizes within rpm's limits yields a header satisfying every rule of
  `HeaderValid` (region entry + trailer, strictly ascending tags, legal types, counts ≥ 1, type alignment,
  sequential non-overlapping in-range data, terminated strings).
* `slots_nonempty` / `builder_records_nonempty` / `builder_tags_legal` / `builder_records_ok` — every record
  `prepare_data` can emit (all 102 slots) is non-empty and carries a tag ≥ 100 (this is where fix 024ca91
  matters: `scrProg` emits nothing for an empty interpreter list).
* `build_header_valid` (`mainHeader_valid`) — the main header of every valid configuration is valid.
* `slots_types` / `build_tagtypes_valid` — every slot carries data of the type rpm's tag table gives its tag (`hdrchkTagType`);
  `asset_tag_types_agree` — the transcribed table agrees with the (tag, type) pairs scraped from the rpm-built asset packages.
* `sign_clear_valid` — every signature header built by `build`, `sign`, `build_and_sign`,
  `clear_signatures` is valid; a sign / clear history only ever replaces the signature header by such a one;
  `sig_limits_valid` — it has at most 4 of the 32 index entries and at most 64 MiB of data rpm allows in a signature header.
* `lead_valid`, `sigPadding_written` — lead fields; zero padding to 8 after the signature header.
* `build_flags_valid` — PAYLOADFLAGS is a plain STRING.
* rpmlib(): `rpmlib_declared`, `build_struct_features_declared` — the nine STRUCTURAL features (compressor — fix 9787c3c: xz, bzip2 —,
  capabilities, large files, compressed file names, file digests, "./" prefix) are declared for every configuration.
  The four CONTENT features rpmbuild derives from dependencies and scriptlets (TildeInVersions, CaretInVersions, RichDependencies,
  ScriptletInterpreterArgs) are declared since the fix of builder.rs (`Bld.versionHas`, `usesRichDeps`, `usesInterpArgs`, `pushFeature`):
  `content_declared`; `evrHasChar_built`, `hasRichDep_built`, `hasInterpArgs_built` express rpm's three tests on the built header in
  terms of the configuration, `versionHas_of_header` / `usesRichDeps_of_header` / `usesInterpArgs_of_header` show that they imply the
  builder's own tests (the requirements the builder adds use none of the features: `allRequires_cases`, `contentDeps_clean`).
  `build_rpmlib_valid` — all thirteen features, for EVERY configuration: `∀ x pre, RpmlibDeclared (C06.hdrOf x) pre`.
* `cpioCheck_archiveOf`, `cpioCheck_stripped`, `headerFiles_built`, `payload_valid_std`, `payload_valid_large`
  — the archive the builder writes passes the cpio rules — read by the Spec's OWN newc reader, a transcription of rpm's
  `rpmcpioHeaderRead` (`RpmValid.readEntry`; `Lemmas/RpmCpio.lean`), not by the model of rpm-rs' reader — against the header built
  from the same files (names "." ++ dir ++ base name — guaranteed by `add_data` since fix cbb69e5, C17 `add_data_cpio_name`);
  `plus_field_rejected` — the two readers differ where they should (`+000000b`).
* `compressor_magic_valid` — the header names the compressor; the codec crates enter through `CodecMagic`
  (a compressed stream starts with its format's magic; exercised on every generated package, not proved).
* `build_valid` — the whole statement: write → parse gives back the built package and `PackageValid` holds.
* `sign_clear_valid_discharged`, `sigsOk_of_build` — the same with NOTHING assumed about the legacy tags: they are computed by
  the model of `SignatureHeaderBuilder::build` (`Sign.sigBuilderBuild`: parse, `match` on the algorithm — table scraped from the
  source by tools/gen/sig_algs.py —, encode), and every arm selects RPMSIGTAG_RSA / RPMSIGTAG_DSA (`Sign.legacyTagOf_mem_range`).
* `history_valid` — a valid package (built here or by rpm) stays valid under every non-empty history of
  `sign` / `clear_signatures` calls: they replace the signature header by a valid one and touch nothing else;
  `history_foreign_valid` — the same for `ForeignValid`, the rules rpm-built packages satisfy (`fPkg_foreign_valid`: satisfiable).
* `count_zero_rejected`, `xz_undeclared_rejected` — the two repaired defects are violations of the spec.
-/
namespace RpmVerif.C09
open RpmVerif RpmVerif.Hdr RpmVerif.RpmValid RpmVerif.Bld RpmVerif.Gen RpmVerif.Cpio

/-! ## `from_entries` emits valid headers -/

/-- what `from_entries` needs from its input to emit a header rpm accepts -/
structure RecsValid (recs : List (Nat × IndexData)) (rt : Nat) : Prop where
  nodup : (recs.map (·.1)).Nodup
  tags : ∀ r ∈ recs, 100 ≤ r.1 ∧ r.1 ≠ rt
  canon : ∀ r ∈ recs, r.2.Canon
  nonempty : ∀ r ∈ recs, r.2.NonEmpty
  count : recs.length + 1 ≤ 65535
  size : (fromEntries recs rt).store.length < 268435456

theorem i32Raw_region (c : Nat) (h : c + 1 ≤ 65535) : i32Raw (-(((c : Int) + 1) * 16)) = 4294967296 - 16 * (c + 1) := by
  unfold i32Raw
  omega

theorem sorted_strict {recs : List (Nat × IndexData)} (hn : (recs.map (·.1)).Nodup) :
    (recs.mergeSort (fun a b => decide (a.1 ≤ b.1))).Pairwise (fun a b => a.1 < b.1) := by
  have hperm := List.mergeSort_perm recs (fun a b => decide (a.1 ≤ b.1))
  have h1 : (recs.mergeSort (fun a b => decide (a.1 ≤ b.1))).Pairwise (fun a b => a.1 ≤ b.1) := by
    have := List.pairwise_mergeSort (le := fun a b : Nat × IndexData => decide (a.1 ≤ b.1))
      (fun a b c hab hbc => by simp only [decide_eq_true_eq] at *; omega)
      (fun a b => by simp only [Bool.or_eq_true, decide_eq_true_eq]; omega) recs
    exact this.imp (fun h => by simpa using h)
  have h2 : (recs.mergeSort (fun a b => decide (a.1 ≤ b.1))).Pairwise (fun a b => a.1 ≠ b.1) := by
    have : ((recs.mergeSort (fun a b => decide (a.1 ≤ b.1))).map (·.1)).Nodup := (hperm.map _).nodup_iff.mpr hn
    exact List.pairwise_map.mp this
  exact (h1.and h2).imp (fun h => by omega)

theorem fromEntries_valid {recs : List (Nat × IndexData)} {rt : Nat} (ok : RecsValid recs rt) :
    HeaderValid rt (fromEntries recs rt) := by
  have hsize := ok.size
  have hstrict := sorted_strict ok.nodup
  simp only [fromEntries] at hsize ⊢
  generalize hs : recs.mergeSort (fun a b => decide (a.1 ≤ b.1)) = sorted at hsize hstrict ⊢
  have hmem : ∀ r, r ∈ sorted ↔ r ∈ recs := fun r => by rw [← hs]; exact List.mem_mergeSort
  have hlen : sorted.length = recs.length := by rw [← hs]; exact List.length_mergeSort recs
  have hlay := layout_inv sorted []
  have htags := layout_tags sorted []
  have hseq := layout_seq sorted []
  have hal := layout_aligned sorted []
  have hrec : ∀ e ∈ (layout sorted []).1, (e.tag, e.data) ∈ recs := by
    intro e he
    have : (e.tag, e.data) ∈ sorted := by
      rw [← htags]; exact List.mem_map_of_mem (f := fun e => (e.tag, e.data)) he
    exact (hmem _).mp this
  have hnn : ∀ e ∈ (layout sorted []).1, e.data ≠ .null := by
    intro e he hnull
    have := ok.nonempty _ (hrec e he)
    simp only [hnull, IndexData.NonEmpty] at this
  have hlenE : ∀ e ∈ (layout sorted []).1,
      entryLen ((layout sorted []).2 ++ regionTrailer rt sorted.length) e = some e.data.enc.length := by
    intro e he
    obtain ⟨pre, post, hfin, hpre, hcnt, _⟩ := hlay e he
    have := dataLen_enc (ok.canon _ (hrec e he)) (hnn e he) pre (post ++ regionTrailer rt sorted.length)
    unfold entryLen
    rw [hfin, hcnt, ← hpre]
    simpa [List.append_assoc] using this
  simp only [List.length_append, regionTrailer_length] at hsize
  refine ⟨?_, ?_, ?_, ?_, ?_, ?_, ?_, ?_, ?_⟩
  · -- intro-sizes
    refine ⟨by simp [layout_length], by show 1 ≤ sorted.length + 1; omega, by show sorted.length + 1 ≤ 65535; rw [hlen]; exact ok.count, rfl, ?_⟩
    show ((layout sorted []).2 ++ regionTrailer rt sorted.length).length < 268435456
    simp only [List.length_append, regionTrailer_length]; omega
  · -- region
    refine ⟨rfl, rfl, rfl, ?_, ?_⟩
    · show (layout sorted []).2.length + 16 = ((layout sorted []).2 ++ regionTrailer rt sorted.length).length
      simp only [List.length_append, regionTrailer_length]
    · show (((layout sorted []).2 ++ regionTrailer rt sorted.length).drop (layout sorted []).2.length).take 16 = trailerBytes rt (sorted.length + 1)
      rw [List.drop_left, List.take_of_length_le (by simp [regionTrailer_length])]
      simp only [regionTrailer, trailerBytes]
      rw [i32Raw_region sorted.length (by rw [hlen]; exact ok.count)]
  · -- tags
    refine ⟨?_, ?_⟩
    · intro e he
      exact ok.tags _ (hrec e he)
    · show (layout sorted []).1.Pairwise (fun a b => a.tag < b.tag)
      have : ((layout sorted []).1.map (fun e => (e.tag, e.data))).Pairwise (fun a b => a.1 < b.1) := by
        rw [htags]; exact hstrict
      exact (List.pairwise_map (f := fun e : Entry => (e.tag, e.data)) (R := fun a b => a.1 < b.1)).mp this
  · -- types
    intro e he
    have h1 := hnn e he
    refine ⟨?_, typeCode_le9 _⟩
    cases hd : e.data <;> simp_all [IndexData.typeCode]
  · -- counts
    intro e he
    obtain ⟨_, _, _, _, hcnt, _⟩ := hlay e he
    refine ⟨by rw [hcnt]; exact numItems_pos (ok.nonempty _ (hrec e he)), ?_⟩
    intro h6
    rw [hcnt]
    cases hd : e.data <;> simp_all [IndexData.typeCode, IndexData.numItems]
  · -- alignment
    intro e he
    rw [typeAlign_typeCode]; exact hal e he
  · -- strings terminated
    intro e he
    show (entryLen ((layout sorted []).2 ++ regionTrailer rt sorted.length) e).isSome = true
    rw [hlenE e he]; rfl
  · -- range
    intro e he
    obtain ⟨_, _, _, _, _, hend⟩ := hlay e he
    have hlim : limit ⟨sorted.length + 1, ((layout sorted []).2 ++ regionTrailer rt sorted.length).length,
        ⟨rt, .bin (regionTrailer rt sorted.length), (layout sorted []).2.length, 16⟩ :: (layout sorted []).1,
        (layout sorted []).2 ++ regionTrailer rt sorted.length⟩ = (layout sorted []).2.length := by
      simp [limit, regionTrailer_length]
    rw [hlim]
    refine ⟨by omega, ?_⟩
    intro len hl
    change len ∈ entryLen ((layout sorted []).2 ++ regionTrailer rt sorted.length) e at hl
    rw [hlenE e he] at hl
    cases hl
    exact ⟨enc_pos (ok.nonempty _ (hrec e he)), hend⟩
  · -- sequential
    show SeqFrom ((layout sorted []).2 ++ regionTrailer rt sorted.length) 0 (layout sorted []).1
    exact seqFrom_of_seqEnc _ _ hlenE 0 (by simpa using hseq)


/-! ## the builder's records -/

attribute [local irreducible] always whenFiles optS in
theorem slots_nonempty : ∀ s ∈ slots, SlotNE s.2 := by
  unfold slots
  iterate 19 (refine forall_append ?_ ?_)
  · repeat (refine forall_cons ?_ ?_; rotate_left)
    exact forall_nil
    all_goals first
      | exact ne_always (fun _ => trivial)
      | exact ne_always (fun _ => List.cons_ne_nil _ _)
      | exact ne_whenFiles (fun _ _ hne => map_ne _ hne)
      | exact ne_whenFiles (fun _ _ _ => List.cons_ne_nil _ _)
      | exact ne_optS _
      | exact ne_dirnames
      | exact ne_inodes
      | slot_cond
  · exact depSlots_ne _ _ _ _ true (fun _ x => allProvides_ne x.c)
  · repeat (refine forall_cons ?_ ?_; rotate_left)
    exact forall_nil
    all_goals first
      | exact ne_always (fun _ => trivial)
      | exact ne_always (fun _ => List.cons_ne_nil _ _)
      | exact ne_compMap _
      | slot_cond
  · exact depSlots_ne _ _ _ _ false (fun h => by cases h)
  · exact depSlots_ne _ _ _ _ false (fun h => by cases h)
  · exact depSlots_ne _ _ _ _ false (fun h => by cases h)
  · exact depSlots_ne _ _ _ _ false (fun h => by cases h)
  · exact depSlots_ne _ _ _ _ false (fun h => by cases h)
  · exact depSlots_ne _ _ _ _ false (fun h => by cases h)
  · exact depSlots_ne _ _ _ _ false (fun h => by cases h)
  · exact scriptSlots_ne _ _ _ _
  · exact scriptSlots_ne _ _ _ _
  · exact scriptSlots_ne _ _ _ _
  · exact scriptSlots_ne _ _ _ _
  · exact scriptSlots_ne _ _ _ _
  · exact scriptSlots_ne _ _ _ _
  · exact scriptSlots_ne _ _ _ _
  · exact scriptSlots_ne _ _ _ _
  · exact scriptSlots_ne _ _ _ _
  · exact forall_cons (ne_optS _) (forall_cons (ne_optS _) (forall_cons (ne_optS _) (forall_cons (ne_optS _) (forall_cons (ne_optS _) forall_nil))))


/-- **every record the builder emits is non-empty** (needs fix 024ca91 — `scrProg` — and the conditional
emission of file, dependency and changelog arrays) -/
theorem builder_records_nonempty (x : Ctx) (hd : DirsOk x.c) : ∀ r ∈ recordsOf x, r.2.NonEmpty := by
  intro r hr
  simp only [recordsOf, List.mem_filterMap] at hr
  obtain ⟨s, hs, hm⟩ := hr
  cases h : s.2 x with
  | none => simp [h] at hm
  | some d =>
    simp only [h, Option.map_some, Option.some.injEq] at hm
    subst hm
    exact slots_nonempty s hs x d hd h

/-- all tags the builder can emit are legal (≥ 100, `hdrchkTag`) -/
theorem slots_tags_legal : ∀ t ∈ slots.map (·.1), 100 ≤ t := by decide +kernel

theorem builder_tags_legal (x : Ctx) : ∀ r ∈ recordsOf x, 100 ≤ r.1 := by
  intro r hr
  exact slots_tags_legal r.1 ((C06.filterMap_tags_sublist slots x).subset (List.mem_map_of_mem hr))

theorem slots_length : slots.length = 102 := by decide +kernel

theorem records_length_le (x : Ctx) : (recordsOf x).length ≤ 102 := by
  rw [← slots_length]
  exact List.length_filterMap_le _ _

/-- **the builder's records satisfy everything `fromEntries_valid` asks for** -/
theorem builder_records_ok {x : Ctx} (v : C06.Valid x) (hd : DirsOk x.c)
    (hsize : (C06.hdrOf x).store.length < 268435456) : RecsValid (recordsOf x) IndexTag.RPMTAG_HEADERIMMUTABLE :=
  ⟨C06.records_tags_nodup x, fun r hr => ⟨builder_tags_legal x r hr, C06.records_no_region x r hr⟩, v.canon,
   builder_records_nonempty x hd, by have := records_length_le x; omega, hsize⟩

/-- **the main header of every valid configuration is a header rpm accepts** -/
theorem build_header_valid {x : Ctx} (v : C06.Valid x) (hd : DirsOk x.c)
    (hsize : (C06.hdrOf x).store.length < 268435456) : HeaderValid 63 (C06.hdrOf x) :=
  fromEntries_valid (builder_records_ok v hd hsize)

/-- the same for `Bld.mainHeader` -/
theorem mainHeader_valid (c : Cfg) (now : Nat) (p a : Bytes) (v : C06.Valid (mkCtx c now p a)) (hd : DirsOk c)
    (hsize : (mainHeader c now p a).store.length < 268435456) : HeaderValid 63 (mainHeader c now p a) :=
  build_header_valid v hd hsize

/-! ## signature headers (build, sign, clear) -/

/-- what the signer hands to `SignatureHeaderBuilder`: per signature the legacy tag (RSA 268 / DSA 267),
the non-empty raw signature and its base64 text; the header digest as hex text -/
structure SigsOk (sigs : List (Nat × Bytes × Bytes)) (sha : Bytes) : Prop where
  tags : ∀ s ∈ sigs, s.1 = SigTag.RPMSIGTAG_RSA ∨ s.1 = SigTag.RPMSIGTAG_DSA
  raw : ∀ s ∈ sigs, s.2.1 ≠ [] ∧ s.2.1.length < 4294967296
  b64 : ∀ s ∈ sigs, StrOk s.2.2
  count : sigs.length < 4294967296
  shaOk : StrOk sha
  size : (signatureHeader sigs (some sha)).store.length ≤ 67108864   -- rpm's limit for signature headers (`hdrblobRead`: 64 MiB)

/-- the records `SignatureHeaderBuilder::build` hands to `from_entries` -/
def sigRecs (sigs : List (Nat × Bytes × Bytes)) (sha : Bytes) : List (Nat × IndexData) :=
  (match sigs.getLast? with
   | Option.none => []
   | some (tag, raw, _) => [(SigTag.RPMSIGTAG_OPENPGP, .strArray (sigs.map (·.2.2))), (tag, .bin raw)]) ++
  [(SigTag.RPMSIGTAG_SHA256, .str sha)]

theorem signatureHeader_eq (sigs : List (Nat × Bytes × Bytes)) (sha : Bytes) :
    signatureHeader sigs (some sha) = fromEntries (sigRecs sigs sha) SigTag.HEADER_SIGNATURES := rfl

/-- tags 278 / 267|268 / 273 are distinct and legal, the OPENPGP array and the legacy signature are non-empty -/
theorem sigRecs_valid {sigs : List (Nat × Bytes × Bytes)} {sha : Bytes} (ok : SigsOk sigs sha) :
    RecsValid (sigRecs sigs sha) 62 ∧ ∀ r ∈ sigRecs sigs sha, r.1 < 4294967296 := by
  have hsize : (signatureHeader sigs (some sha)).store.length < 268435456 := Nat.lt_of_le_of_lt ok.size (by decide)
  rw [signatureHeader_eq] at hsize
  unfold sigRecs at hsize ⊢
  cases hl : sigs.getLast? with
  | none =>
    simp only [hl, List.nil_append] at hsize ⊢
    refine ⟨⟨by simp, ?_, ?_, ?_, by simp, hsize⟩, ?_⟩
    · intro r hr; simp only [List.mem_singleton] at hr; subst hr; dsimp only; decide
    · intro r hr; simp only [List.mem_singleton] at hr; subst hr; exact ok.shaOk
    · intro r hr; simp only [List.mem_singleton] at hr; subst hr; trivial
    · intro r hr; simp only [List.mem_singleton] at hr; subst hr; dsimp only; decide
  | some last =>
    obtain ⟨tag, raw, b64⟩ := last
    have hmem : (tag, raw, b64) ∈ sigs := List.mem_of_getLast? hl
    have hne : sigs ≠ [] := fun e => by simp [e] at hmem
    simp only [hl] at hsize ⊢
    have htag := ok.tags _ hmem
    refine ⟨⟨?_, ?_, ?_, ?_, by simp, hsize⟩, ?_⟩
    · rcases htag with h | h <;> (simp only [] at h; subst h; simp [SigTag.RPMSIGTAG_OPENPGP, SigTag.RPMSIGTAG_RSA, SigTag.RPMSIGTAG_DSA, SigTag.RPMSIGTAG_SHA256])
    · intro r hr
      simp only [List.cons_append, List.nil_append, List.mem_cons, List.mem_nil_iff, or_false] at hr
      rcases hr with rfl | rfl | rfl
      · dsimp only; decide
      · rcases htag with h | h <;> (simp only [] at h; subst h; dsimp only; decide)
      · dsimp only; decide
    · intro r hr
      simp only [List.cons_append, List.nil_append, List.mem_cons, List.mem_nil_iff, or_false] at hr
      rcases hr with rfl | rfl | rfl
      · refine ⟨by simpa using ok.count, ?_⟩
        intro s hs
        obtain ⟨t, ht, rfl⟩ := List.mem_map.mp hs
        exact ok.b64 t ht
      · exact (ok.raw _ hmem).2
      · exact ok.shaOk
    · intro r hr
      simp only [List.cons_append, List.nil_append, List.mem_cons, List.mem_nil_iff, or_false] at hr
      rcases hr with rfl | rfl | rfl
      · exact map_ne _ hne
      · exact (ok.raw _ hmem).1
      · trivial
    · intro r hr
      simp only [List.cons_append, List.nil_append, List.mem_cons, List.mem_nil_iff, or_false] at hr
      rcases hr with rfl | rfl | rfl
      · dsimp only; decide
      · rcases htag with h | h <;> (simp only [] at h; subst h; dsimp only; decide)
      · dsimp only; decide

/-- **sign / clear**: every signature header `SignatureHeaderBuilder::build` produces — the unsigned one
of `build` and `clear_signatures` (`sigs = []`) and the signed one of `sign` / `build_and_sign` — is valid.
Whatever the history, the package's signature header is the result of the last such call. -/
theorem sign_clear_valid {sigs : List (Nat × Bytes × Bytes)} {sha : Bytes} (ok : SigsOk sigs sha) :
    HeaderValid 62 (signatureHeader sigs (some sha)) := by
  rw [signatureHeader_eq]; exact fromEntries_valid (sigRecs_valid ok).1

/-- **sig-limits**: a signature header built by `SignatureHeaderBuilder::build` has at most four index entries (region, OPENPGP,
RSA | DSA, SHA256) — rpm allows 32 — and its store is within the 64 MiB rpm allows -/
theorem sig_limits_valid {sigs : List (Nat × Bytes × Bytes)} {sha : Bytes} (ok : SigsOk sigs sha) :
    SigLimits (signatureHeader sigs (some sha)) := by
  refine ⟨?_, ok.size⟩
  rw [signatureHeader_eq]
  have : (fromEntries (sigRecs sigs sha) SigTag.HEADER_SIGNATURES).nEntries = (sigRecs sigs sha).length + 1 := by
    simp [fromEntries]
  rw [this]
  unfold sigRecs
  cases sigs.getLast? <;> simp

/-- a record list accepted by `fromEntries_valid` whose tags fit 32 bits also re-parses to itself (C06 `RecsOk`) -/
theorem recsOk_of_valid {recs : List (Nat × IndexData)} {rt : Nat} (v : RecsValid recs rt)
    (ht : ∀ r ∈ recs, r.1 < 4294967296) (hrt : rt < 4294967296) : RecsOk recs rt :=
  ⟨v.canon, ht, hrt, by have := v.count; omega, by have := v.size; omega⟩

/-! ## the validator's lookups on the built header -/

theorem find_of_slot {x : Ctx} {s : Slot} (hs : s ∈ slots) {d : IndexData} (hd : s.2 x = some d) :
    find (C06.hdrOf x) s.1 = some d := by
  obtain ⟨e, hf, _, hdata⟩ := fromEntries_find (C06.records_tags_nodup x) (C06.records_no_region x)
    (C06.record_of_slot hs hd)
  simp only [find, C06.hdrOf, hf, Option.map_some, hdata]

theorem find_of_empty_slot {x : Ctx} {s : Slot} (hs : s ∈ slots) (hd : s.2 x = none) :
    find (C06.hdrOf x) s.1 = none := by
  have hrt : IndexTag.RPMTAG_HEADERIMMUTABLE ≠ s.1 := fun e => C06.slots_no_region (e ▸ List.mem_map_of_mem hs)
  simp only [find, C06.hdrOf, fromEntries_find_none hrt (C06.no_record_of_slot hs hd), Option.map_none]

theorem find_slot {x : Ctx} {s : Slot} (hs : s ∈ slots) : find (C06.hdrOf x) s.1 = s.2 x := by
  cases h : s.2 x with
  | none => exact find_of_empty_slot hs h
  | some d => exact find_of_slot hs h

theorem find_slot_at {x : Ctx} (i : Nat) {tag : Nat} (f : Ctx → Option IndexData) (hi : slots[i]? = some (tag, f))
    {t : Nat} (ht : t = tag) : find (C06.hdrOf x) t = f x := by
  subst ht; exact find_slot (s := (t, f)) (C06.mem_slot hi)

/-- a tag the builder has no slot for is absent from the built header -/
theorem find_no_slot {x : Ctx} {t : Nat} (ht : t ∉ slots.map (·.1)) (hrt : IndexTag.RPMTAG_HEADERIMMUTABLE ≠ t) :
    find (C06.hdrOf x) t = none := by
  have : ∀ r ∈ recordsOf x, r.1 ≠ t := fun r hr e =>
    ht (e ▸ (C06.filterMap_tags_sublist slots x).subset (List.mem_map_of_mem hr))
  simp only [find, C06.hdrOf, fromEntries_find_none hrt this, Option.map_none]

theorem strsAt_none {h : Header} {t : Nat} (hf : find h t = none) : strsAt h t = [] := by
  simp only [strsAt, strsOf, hf, Option.getD_none]

theorem strsAt_depNames {x : Ctx} {t : Nat} {g : Ctx → List Dep} {al : Bool}
    (hf : find (C06.hdrOf x) t = depNames g al x) : strsAt (C06.hdrOf x) t = (g x).map (·.name) := by
  unfold strsAt strsOf; rw [hf]; unfold depNames
  by_cases h : (!al && (g x).isEmpty) = true
  · rw [if_pos h]
    simp only [Bool.and_eq_true, Bool.not_eq_true', List.isEmpty_iff] at h
    simp [h.2]
  · rw [if_neg h]; rfl

theorem strsAt_depVersions {x : Ctx} {t : Nat} {g : Ctx → List Dep} {al : Bool}
    (hf : find (C06.hdrOf x) t = depVersions g al x) : strsAt (C06.hdrOf x) t = (g x).map (·.version) := by
  unfold strsAt strsOf; rw [hf]; unfold depVersions
  by_cases h : (!al && (g x).isEmpty) = true
  · rw [if_pos h]
    simp only [Bool.and_eq_true, Bool.not_eq_true', List.isEmpty_iff] at h
    simp [h.2]
  · rw [if_neg h]; rfl

/-- the interpreter list of a scriptlet as it is written: nothing for no scriptlet, no `prog` call, or an empty list -/
def progOf (s : Option Scriptlet) : List Bytes := ((s.bind (·.prog)).getD [])

theorem strsAt_scrProg {x : Ctx} {t : Nat} {g : Cfg → Option Scriptlet}
    (hf : find (C06.hdrOf x) t = scrProg g x) : strsAt (C06.hdrOf x) t = progOf (g x.c) := by
  unfold strsAt strsOf progOf; rw [hf]; unfold scrProg
  cases g x.c with
  | none => rfl
  | some s =>
    cases hp : s.prog with
    | none => simp [hp]
    | some p =>
      simp only [Option.bind_some, hp]
      by_cases h : p.isEmpty = true
      · rw [if_pos h]; simp only [List.isEmpty_iff] at h; simp [h]
      · rw [if_neg h]

/-! ## lead -/

/-- `Lead::new` writes major 3, type 0 (binary), signature type 5 -/
theorem lead_valid (name : Bytes) : LeadValid (leadNew name) := ⟨rfl, Or.inl rfl, rfl⟩

/-! ## tag types: every entry of the built main header has the data type rpm's tag table demands -/

theorem body_fromEntries_mem {recs : List (Nat × IndexData)} {rt : Nat} {e : Entry}
    (he : e ∈ body (fromEntries recs rt)) : (e.tag, e.data) ∈ recs := by
  simp only [body, fromEntries, List.drop_succ_cons, List.drop_zero] at he
  have hl := layout_tags (recs.mergeSort (fun a b => decide (a.1 ≤ b.1))) []
  have hmm := List.mem_map_of_mem (f := fun e => (e.tag, e.data)) he
  rw [hl] at hmm; exact List.mem_mergeSort.mp hmm

attribute [local irreducible] always whenFiles optS in
/-- **every one of the 102 slots emits data of the type rpm's tag table gives its tag** (`hdrchkTagType`): STRING for the
scalar texts, I18NSTRING for summary / description / group, STRING_ARRAY for the name / version / file-name arrays and the
interpreter lists, INT16 for modes and rdevs, INT32 for flags / times / sizes / indexes, INT64 for the large-file sizes -/
theorem slots_types : ∀ s ∈ slots, SlotTypeOk s := by
  unfold slots
  iterate 19 (refine forall_append ?_ ?_)
  · repeat (refine forall_cons ?_ ?_; rotate_left)
    exact forall_nil
    all_goals first
      | exact slotOk 6 (ty_always fun _ => rfl) (by decide)
      | exact slotOk 8 (ty_always fun _ => rfl) (by decide)
      | exact slotOk 9 (ty_always fun _ => rfl) (by decide)
      | exact slotOk 4 (ty_always fun _ => rfl) (by decide)
      | exact slotOk 8 (ty_whenFiles fun _ => rfl) (by decide)
      | exact slotOk 4 (ty_whenFiles fun _ => rfl) (by decide)
      | exact slotOk 3 (ty_whenFiles fun _ => rfl) (by decide)
      | exact slotOk 6 (ty_optS _) (by decide)
      | exact slotOk 5 (by slot_ty_cond) (by decide)
      | exact slotOk 4 (by slot_ty_cond) (by decide)
      | exact slotOk 8 (by slot_ty_cond) (by decide)
  · exact depSlots_ty _ _ (by decide) (by decide) (by decide)
  · repeat (refine forall_cons ?_ ?_; rotate_left)
    exact forall_nil
    all_goals first
      | exact slotOk 8 (ty_always fun _ => rfl) (by decide)
      | exact slotOk 4 (ty_always fun _ => rfl) (by decide)
      | exact slotOk 6 (ty_compMap _) (by decide)
      | exact slotOk 8 (by slot_ty_cond) (by decide)
      | exact slotOk 4 (by slot_ty_cond) (by decide)
  · exact depSlots_ty _ _ (by decide) (by decide) (by decide)
  · exact depSlots_ty _ _ (by decide) (by decide) (by decide)
  · exact depSlots_ty _ _ (by decide) (by decide) (by decide)
  · exact depSlots_ty _ _ (by decide) (by decide) (by decide)
  · exact depSlots_ty _ _ (by decide) (by decide) (by decide)
  · exact depSlots_ty _ _ (by decide) (by decide) (by decide)
  · exact depSlots_ty _ _ (by decide) (by decide) (by decide)
  · exact scriptSlots_ty _ (by decide) (by decide) (by decide)
  · exact scriptSlots_ty _ (by decide) (by decide) (by decide)
  · exact scriptSlots_ty _ (by decide) (by decide) (by decide)
  · exact scriptSlots_ty _ (by decide) (by decide) (by decide)
  · exact scriptSlots_ty _ (by decide) (by decide) (by decide)
  · exact scriptSlots_ty _ (by decide) (by decide) (by decide)
  · exact scriptSlots_ty _ (by decide) (by decide) (by decide)
  · exact scriptSlots_ty _ (by decide) (by decide) (by decide)
  · exact scriptSlots_ty _ (by decide) (by decide) (by decide)
  · exact forall_cons (slotOk 6 (ty_optS _) (by decide)) (forall_cons (slotOk 6 (ty_optS _) (by decide)) (forall_cons (slotOk 6 (ty_optS _) (by decide)) (forall_cons (slotOk 6 (ty_optS _) (by decide)) (forall_cons (slotOk 6 (ty_optS _) (by decide)) forall_nil))))

/-- **tag-type**: the main header of EVERY configuration passes rpm's `hdrchkTagType` -/
theorem build_tagtypes_valid (x : Ctx) : TagTypesOk (C06.hdrOf x) := by
  intro e he
  have hr := body_fromEntries_mem he
  simp only [recordsOf, List.mem_filterMap] at hr
  obtain ⟨s, hs, hm⟩ := hr
  cases h : s.2 x with
  | none => simp [h] at hm
  | some d =>
    simp only [h, Option.map_some, Option.some.injEq, Prod.mk.injEq] at hm
    obtain ⟨h1, h2⟩ := hm
    rw [← h1, ← h2]; exact slots_types s hs x d h

/-- the transcribed tag table agrees with every (tag, type) pair found in the main headers of the rpm-built packages of
/repo/test_assets (scraped on every run, `Gen.assetTagTypes`): exactly — except that rpm writes a lone interpreter as STRING under
the `*PROG` tags its table lists as STRING_ARRAY -/
theorem asset_tag_types_agree : ∀ p ∈ Gen.assetTagTypes,
    tagType? p.1 = some p.2 ∨ (p.1 ∈ progTags ∧ p.2 = 6 ∧ tagType? p.1 = some 8) := by decide +kernel

/-! ## PAYLOADFLAGS -/

/-- **payload-flags**: PAYLOADFLAGS is written as a plain STRING (the level text), next to PAYLOADCOMPRESSOR -/
theorem build_flags_valid (x : Ctx) : PayloadFlagsOk (C06.hdrOf x) := by
  have hfl := find_slot_at (x := x) 45 (fun x => x.c.compression.name.map fun p => .str p.2) rfl (t := tPAYLOADFLAGS) rfl
  unfold PayloadFlagsOk
  rw [hfl]
  cases x.c.compression.name <;> trivial

/-! ## rpmlib() features -/

theorem rpmlibName_eq (f v : Bytes) : (rpmlib f v).name = rpmlibName f := rfl

theorem mem_names {c : Cfg} {f v : Bytes} (h : rpmlib f v ∈ baseRequires c) :
    rpmlibName f ∈ (allRequires c).map (·.name) := by
  rw [← rpmlibName_eq f v]; exact List.mem_map_of_mem ((C06.base_prefix_all c).subset h)

/-- **rpmlib_declared**: the requirements the builder writes always contain the three base features, the
payload compressor's feature for zstd / xz / bzip2 (fix 9787c3c added xz and bzip2), `FileCaps` when a
file has capabilities and `LargeFiles` in large-file mode -/
theorem rpmlib_declared (c : Cfg) :
    rpmlibName fCompressedFileNames ∈ (allRequires c).map (·.name) ∧
    rpmlibName fFileDigests ∈ (allRequires c).map (·.name) ∧
    rpmlibName fPayloadFilesHavePrefix ∈ (allRequires c).map (·.name) ∧
    (∀ l, c.compression = .zstd l → rpmlibName fPayloadIsZstd ∈ (allRequires c).map (·.name)) ∧
    (∀ l, c.compression = .xz l → rpmlibName fPayloadIsXz ∈ (allRequires c).map (·.name)) ∧
    (∀ l, c.compression = .bzip2 l → rpmlibName fPayloadIsBzip2 ∈ (allRequires c).map (·.name)) ∧
    (usesCaps c = true → rpmlibName fFileCaps ∈ (allRequires c).map (·.name)) ∧
    (usesLargeFiles c = true → rpmlibName fLargeFiles ∈ (allRequires c).map (·.name)) := by
  refine ⟨?_, ?_, ?_, ?_, ?_, ?_, ?_, ?_⟩
  · exact mem_names (v := [51, 46, 48, 46, 52, 45, 49]) (by unfold baseRequires; simp [fCompressedFileNames])
  · exact mem_names (v := [52, 46, 54, 46, 48, 45, 49]) (by unfold baseRequires; simp [fFileDigests])
  · exact mem_names (v := [52, 46, 48, 45, 49]) (by unfold baseRequires; simp [fPayloadFilesHavePrefix])
  · intro l hl
    exact mem_names (v := [53, 46, 52, 46, 49, 56, 45, 49]) (by unfold baseRequires; simp [hl, fPayloadIsZstd])
  · intro l hl
    exact mem_names (v := [53, 46, 50, 45, 49]) (by unfold baseRequires; simp [hl, fPayloadIsXz])
  · intro l hl
    exact mem_names (v := [51, 46, 48, 46, 53, 45, 49]) (by unfold baseRequires; simp [hl, fPayloadIsBzip2])
  · intro h
    exact mem_names (v := [52, 46, 54, 46, 49, 45, 49]) (by unfold baseRequires; simp [h, fFileCaps])
  · intro h
    exact mem_names (v := [52, 46, 49, 50, 46, 48, 45, 49]) (by unfold baseRequires; simp [h, fLargeFiles])

theorem allRequires_ne (c : Cfg) : allRequires c ≠ [] := by
  intro h
  have hp := C06.base_prefix_all c
  rw [h, List.prefix_nil] at hp
  revert hp; unfold baseRequires; simp

/-- REQUIRENAME of the built header = the names of `allRequires`, in order -/
theorem requireNames_built (x : Ctx) : strsAt (C06.hdrOf x) tREQUIRENAME = (allRequires x.c).map (·.name) :=
  strsAt_depNames (find_slot_at (x := x) 52 (depNames (fun x => allRequires x.c) false) rfl (t := tREQUIRENAME) rfl)

/-- **the built header declares every STRUCTURAL rpmlib() feature it uses** (compressor, capabilities, large files, compressed
file names, file digests, "./" prefix) — for every configuration -/
theorem build_struct_features_declared (x : Ctx) (pre : Bool) :
    ∀ f ∈ structFeatures (C06.hdrOf x) pre, rpmlibName f ∈ strsAt (C06.hdrOf x) tREQUIRENAME := by
  obtain ⟨b1, b2, b3, hz, hx, hb, hcaps, hlarge⟩ := rpmlib_declared x.c
  have hcomp := find_slot_at (x := x) 44 (fun x => x.c.compression.name.map fun p => .str p.1) rfl (t := tPAYLOADCOMPRESSOR) rfl
  have hfc := find_slot_at (x := x) 37 (fun x => if x.c.files.isEmpty || !usesCaps x.c then none else some (.strArray (x.c.files.map (fun f => f.caps.getD [])))) rfl (t := tFILECAPS) rfl
  have hlf := find_slot_at (x := x) 19 (fun x => if x.c.files.isEmpty || !usesLargeFiles x.c then none else some (.int64 (x.c.files.map (·.size)))) rfl (t := tLONGFILESIZES) rfl
  intro f hf
  rw [requireNames_built]
  simp only [structFeatures, List.mem_append] at hf
  rcases hf with ((((hf | hf) | hf) | hf) | hf) | hf
  · -- compressor
    simp only [strOf, hcomp] at hf
    cases hc : x.c.compression with
    | none => simp [hc, Comp.name] at hf
    | gzip l => simp [hc, Comp.name, sZstd, sXz, sBzip2, sLzma] at hf
    | zstd l => simp [hc, Comp.name, sZstd] at hf; subst hf; exact hz l hc
    | xz l => simp [hc, Comp.name, sZstd, sXz] at hf; subst hf; exact hx l hc
    | bzip2 l => simp [hc, Comp.name, sZstd, sXz, sBzip2] at hf; subst hf; exact hb l hc
  · -- FILECAPS present → capabilities used
    rw [hfc] at hf
    split at hf
    · simp at hf
    · rename_i hcond
      simp only [Option.isSome_some, if_true, List.mem_singleton] at hf
      subst hf
      apply hcaps
      simp only [Bool.or_eq_true, not_or, Bool.not_eq_true', Bool.not_eq_false] at hcond
      simpa using hcond.2
  · rw [hlf] at hf
    split at hf
    · simp at hf
    · rename_i hcond
      simp only [Option.isSome_some, if_true, List.mem_singleton] at hf
      subst hf
      apply hlarge
      simp only [Bool.or_eq_true, not_or, Bool.not_eq_true', Bool.not_eq_false] at hcond
      simpa using hcond.2
  · split at hf
    · simp only [List.mem_singleton] at hf; subst hf; exact b1
    · cases hf
  · split at hf
    · simp only [List.mem_singleton] at hf; subst hf; exact b2
    · cases hf
  · split at hf
    · simp only [List.mem_singleton] at hf; subst hf; exact b3
    · cases hf

/-! ### the four features rpmbuild derives from the content of dependencies and scriptlets

Since the fix "the builder declares the rpmlib() features a package uses through the content of its dependencies and scriptlets"
`prepare_data` looks at the versions of all dependencies (`Bld.versionHas`), the names of the six kinds that may be rich
(`Bld.usesRichDeps`) and the interpreter lists (`Bld.usesInterpArgs`) and pushes the missing requirement (`Bld.pushFeature`). -/

/-- the dependency lists whose versions `haveCharInDep` scans, as `prepare_data` writes them (PROVIDE, REQUIRE, OBSOLETE, CONFLICT,
SUGGEST, ENHANCE, RECOMMEND, SUPPLEMENT; the builder has no ORDER / TRIGGER entries) -/
def evrDeps (c : Cfg) : List Dep :=
  allProvides c ++ allRequires c ++ c.obsoletes ++ c.conflicts ++ c.suggests ++ c.enhances ++ allRecommends c ++ c.supplements

/-- the dependency lists `haveRichDep` scans -/
def richDeps (c : Cfg) : List Dep :=
  allRequires c ++ allRecommends c ++ c.suggests ++ c.supplements ++ c.enhances ++ c.conflicts

/-- the nine scriptlets in the order of `progTags` -/
def scriptletsOf (c : Cfg) : List (Option Scriptlet) :=
  [c.preIn, c.postIn, c.preUn, c.postUn, c.verify, c.preTrans, c.postTrans, c.preUntrans, c.postUntrans]

theorem not_mem_slots_5036 : 5036 ∉ slots.map (·.1) := by decide +kernel
theorem not_mem_slots_1067 : 1067 ∉ slots.map (·.1) := by decide +kernel

/-- `haveCharInDep` on the built header, in terms of the configuration -/
theorem evrHasChar_built (x : Ctx) (ch : UInt8) :
    evrHasChar (C06.hdrOf x) ch = (evrDeps x.c).any fun d => d.version.contains ch := by
  have h1 := strsAt_depVersions (find_slot_at (x := x) 39 (depVersions (fun x => allProvides x.c) true) rfl (t := 1113) rfl)
  have h2 := strsAt_depVersions (find_slot_at (x := x) 53 (depVersions (fun x => allRequires x.c) false) rfl (t := 1050) rfl)
  have h3 := strsAt_depVersions (find_slot_at (x := x) 50 (depVersions (fun x => x.c.obsoletes) false) rfl (t := 1115) rfl)
  have h4 := strsAt_depVersions (find_slot_at (x := x) 56 (depVersions (fun x => x.c.conflicts) false) rfl (t := 1055) rfl)
  have h5 : strsAt (C06.hdrOf x) 5036 = [] := strsAt_none (find_no_slot not_mem_slots_5036 (by decide))
  have h6 : strsAt (C06.hdrOf x) 1067 = [] := strsAt_none (find_no_slot not_mem_slots_1067 (by decide))
  have h7 := strsAt_depVersions (find_slot_at (x := x) 62 (depVersions (fun x => x.c.suggests) false) rfl (t := 5050) rfl)
  have h8 := strsAt_depVersions (find_slot_at (x := x) 65 (depVersions (fun x => x.c.enhances) false) rfl (t := 5056) rfl)
  have h9 := strsAt_depVersions (find_slot_at (x := x) 59 (depVersions (fun x => allRecommends x.c) false) rfl (t := 5047) rfl)
  have h10 := strsAt_depVersions (find_slot_at (x := x) 68 (depVersions (fun x => x.c.supplements) false) rfl (t := 5053) rfl)
  simp only [evrHasChar, depEvrTags, List.any_cons, List.any_nil, Bool.or_false, h1, h2, h3, h4, h5, h6, h7, h8, h9, h10,
    List.any_map, evrDeps, List.any_append, Bool.or_assoc, Function.comp_def, Bool.false_or]

/-- `haveRichDep` on the built header -/
theorem hasRichDep_built (x : Ctx) : hasRichDep (C06.hdrOf x) = (richDeps x.c).any fun d => d.name.head? == some 40 := by
  have h1 := strsAt_depNames (find_slot_at (x := x) 52 (depNames (fun x => allRequires x.c) false) rfl (t := 1049) rfl)
  have h2 := strsAt_depNames (find_slot_at (x := x) 58 (depNames (fun x => allRecommends x.c) false) rfl (t := 5046) rfl)
  have h3 := strsAt_depNames (find_slot_at (x := x) 61 (depNames (fun x => x.c.suggests) false) rfl (t := 5049) rfl)
  have h4 := strsAt_depNames (find_slot_at (x := x) 67 (depNames (fun x => x.c.supplements) false) rfl (t := 5052) rfl)
  have h5 := strsAt_depNames (find_slot_at (x := x) 64 (depNames (fun x => x.c.enhances) false) rfl (t := 5055) rfl)
  have h6 := strsAt_depNames (find_slot_at (x := x) 55 (depNames (fun x => x.c.conflicts) false) rfl (t := 1054) rfl)
  simp only [hasRichDep, richNameTags, List.any_cons, List.any_nil, Bool.or_false, h1, h2, h3, h4, h5, h6,
    List.any_map, richDeps, List.any_append, Bool.or_assoc, Function.comp_def]

/-- the interpreter-with-arguments test on the built header -/
theorem hasInterpArgs_built (x : Ctx) :
    hasInterpArgs (C06.hdrOf x) = (scriptletsOf x.c).any fun s => decide (1 < (progOf s).length) := by
  have h1 := strsAt_scrProg (find_slot_at (x := x) 72 (scrProg (·.preIn)) rfl (t := 1085) rfl)
  have h2 := strsAt_scrProg (find_slot_at (x := x) 75 (scrProg (·.postIn)) rfl (t := 1086) rfl)
  have h3 := strsAt_scrProg (find_slot_at (x := x) 78 (scrProg (·.preUn)) rfl (t := 1087) rfl)
  have h4 := strsAt_scrProg (find_slot_at (x := x) 81 (scrProg (·.postUn)) rfl (t := 1088) rfl)
  have h5 := strsAt_scrProg (find_slot_at (x := x) 96 (scrProg (·.verify)) rfl (t := 1091) rfl)
  have h6 := strsAt_scrProg (find_slot_at (x := x) 84 (scrProg (·.preTrans)) rfl (t := 1153) rfl)
  have h7 := strsAt_scrProg (find_slot_at (x := x) 87 (scrProg (·.postTrans)) rfl (t := 1154) rfl)
  have h8 := strsAt_scrProg (find_slot_at (x := x) 90 (scrProg (·.preUntrans)) rfl (t := 5105) rfl)
  have h9 := strsAt_scrProg (find_slot_at (x := x) 93 (scrProg (·.postUntrans)) rfl (t := 5106) rfl)
  simp only [hasInterpArgs, progTags, List.any_cons, List.any_nil, Bool.or_false, h1, h2, h3, h4, h5, h6, h7, h8, h9, scriptletsOf]

/-! #### `pushFeature` -/

theorem subset_pushFeature (reqs : List Dep) (u : Bool) (f v : Bytes) : ∀ d ∈ reqs, d ∈ pushFeature reqs u f v := by
  intro d hd; unfold pushFeature; split
  · exact List.mem_append_left _ hd
  · exact hd

/-- after its turn a used feature is required by name — pushed now, or already there -/
theorem name_mem_pushFeature (reqs : List Dep) (f v : Bytes) :
    rpmlibName f ∈ (pushFeature reqs true f v).map (·.name) := by
  unfold pushFeature
  by_cases h : (reqs.any fun d => d.name == (rpmlib f v).name) = true
  · simp only [h, Bool.not_true, Bool.and_false, Bool.false_eq_true, if_false]
    obtain ⟨d, hd, he⟩ := List.any_eq_true.mp h
    rw [rpmlibName_eq] at he
    exact List.mem_map.mpr ⟨d, hd, by simpa using he⟩
  · simp only [h, Bool.not_false, Bool.and_true, if_true]
    exact List.mem_map.mpr ⟨rpmlib f v, by simp, rfl⟩

theorem mem_pushFeature {reqs : List Dep} {u : Bool} {f v : Bytes} {d : Dep} (h : d ∈ pushFeature reqs u f v) :
    d ∈ reqs ∨ d = rpmlib f v := by
  unfold pushFeature at h; split at h
  · rcases List.mem_append.mp h with h | h
    · exact Or.inl h
    · exact Or.inr (by simpa using h)
  · exact Or.inl h

theorem names_mono_pushFeature {reqs : List Dep} {n : Bytes} (h : n ∈ reqs.map (·.name)) (u : Bool) (f v : Bytes) :
    n ∈ (pushFeature reqs u f v).map (·.name) := by
  obtain ⟨d, hd, rfl⟩ := List.mem_map.mp h
  exact List.mem_map_of_mem (subset_pushFeature reqs u f v d hd)

/-- the four requirements the content loop can push -/
def contentDeps : List Dep :=
  [rpmlib fTildeInVersions [52, 46, 49, 48, 46, 48, 45, 49], rpmlib fCaretInVersions [52, 46, 49, 53, 46, 48, 45, 49],
   rpmlib fRichDependencies [52, 46, 49, 50, 46, 48, 45, 49], rpmlib fScriptletInterpreterArgs [52, 46, 48, 46, 51, 45, 49]]

/-- every requirement is the caller's, a structural rpmlib() one, or one of the four content ones -/
theorem allRequires_cases {c : Cfg} {d : Dep} (h : d ∈ allRequires c) : d ∈ baseRequires c ∨ d ∈ contentDeps := by
  unfold allRequires at h
  rcases mem_pushFeature h with h | rfl
  · rcases mem_pushFeature h with h | rfl
    · rcases mem_pushFeature h with h | rfl
      · rcases mem_pushFeature h with h | rfl
        · exact Or.inl h
        · exact Or.inr (by decide)
      · exact Or.inr (by decide)
    · exact Or.inr (by decide)
  · exact Or.inr (by decide)

/-- the content requirements themselves use none of the features: versions without `~` / `^`, names not starting with "(" -/
theorem contentDeps_clean : ∀ d ∈ contentDeps, 126 ∉ d.version ∧ 94 ∉ d.version ∧ d.name.head? ≠ some 40 := by decide

theorem allRecommends_cases {c : Cfg} {d : Dep} (h : d ∈ allRecommends c) :
    d ∈ c.recommends ∨ (d.version = [] ∧ d.name.head? ≠ some 40) := by
  simp only [allRecommends, List.mem_append, List.mem_map] at h
  rcases h with (h | ⟨u, _, rfl⟩) | ⟨g, _, rfl⟩
  · exact Or.inl h
  · exact Or.inr ⟨rfl, by simp [depUser]⟩
  · exact Or.inr ⟨rfl, by simp [depGroup]⟩

/-! #### rpm's three tests on the built header imply the builder's own tests -/

theorem versionHas_of_header {x : Ctx} {ch : UInt8} (hch : ch = 126 ∨ ch = 94) (h : evrHasChar (C06.hdrOf x) ch = true) :
    versionHas x.c ch = true := by
  rw [evrHasChar_built, List.any_eq_true] at h
  obtain ⟨d, hd, hc⟩ := h
  have hc' : ch ∈ d.version := by simpa using hc
  unfold versionHas
  rw [List.any_eq_true]
  refine ⟨d, ?_, hc⟩
  simp only [evrDeps, List.mem_append] at hd
  simp only [List.mem_append]
  rcases hd with ((((((hd | hd) | hd) | hd) | hd) | hd) | hd) | hd
  · exact Or.inl (Or.inl (Or.inl (Or.inl (Or.inl (Or.inl (Or.inl hd))))))
  · rcases allRequires_cases hd with hb | hcd
    · exact Or.inl (Or.inl (Or.inl (Or.inl (Or.inl (Or.inl (Or.inr hb))))))
    · have := contentDeps_clean d hcd
      rcases hch with rfl | rfl
      · exact absurd hc' this.1
      · exact absurd hc' this.2.1
  · exact Or.inl (Or.inl (Or.inl (Or.inl (Or.inl (Or.inr hd)))))
  · exact Or.inl (Or.inl (Or.inl (Or.inl (Or.inr hd))))
  · exact Or.inl (Or.inl (Or.inr hd))
  · exact Or.inl (Or.inr hd)
  · rcases allRecommends_cases hd with hr | ⟨hv, _⟩
    · exact Or.inl (Or.inl (Or.inl (Or.inr hr)))
    · rw [hv] at hc'; cases hc'
  · exact Or.inr hd

theorem usesRichDeps_of_header {x : Ctx} (h : hasRichDep (C06.hdrOf x) = true) : usesRichDeps x.c = true := by
  rw [hasRichDep_built, List.any_eq_true] at h
  obtain ⟨d, hd, hc⟩ := h
  have hc' : d.name.head? = some 40 := by simpa using hc
  unfold usesRichDeps
  rw [List.any_eq_true]
  refine ⟨d, ?_, hc⟩
  simp only [richDeps, List.mem_append] at hd
  simp only [List.mem_append]
  rcases hd with ((((hd | hd) | hd) | hd) | hd) | hd
  · rcases allRequires_cases hd with hb | hcd
    · exact Or.inl (Or.inl (Or.inl (Or.inl (Or.inl hb))))
    · exact absurd hc' (contentDeps_clean d hcd).2.2
  · rcases allRecommends_cases hd with hr | ⟨_, hn⟩
    · exact Or.inl (Or.inl (Or.inl (Or.inl (Or.inr hr))))
    · exact absurd hc' hn
  · exact Or.inl (Or.inl (Or.inl (Or.inr hd)))
  · exact Or.inl (Or.inl (Or.inr hd))
  · exact Or.inl (Or.inr hd)
  · exact Or.inr hd

theorem usesInterpArgs_of_header {x : Ctx} (h : hasInterpArgs (C06.hdrOf x) = true) : usesInterpArgs x.c = true := by
  rw [hasInterpArgs_built, List.any_eq_true] at h
  obtain ⟨s, hs, hc⟩ := h
  unfold usesInterpArgs
  rw [List.any_eq_true]
  refine ⟨s, ?_, ?_⟩
  · simp only [scriptletsOf, List.mem_cons, List.mem_nil_iff, or_false] at hs
    simp only [List.mem_cons, List.mem_nil_iff, or_false]
    rcases hs with h | h | h | h | h | h | h | h | h <;> simp [h]
  · unfold progOf at hc
    cases hb : s.bind (·.prog) with
    | none => simp [hb] at hc
    | some p => simpa [hb] using hc

/-- a used content feature is required by name in `allRequires` -/
theorem content_declared (c : Cfg) :
    (versionHas c 126 = true → rpmlibName fTildeInVersions ∈ (allRequires c).map (·.name)) ∧
    (versionHas c 94 = true → rpmlibName fCaretInVersions ∈ (allRequires c).map (·.name)) ∧
    (usesRichDeps c = true → rpmlibName fRichDependencies ∈ (allRequires c).map (·.name)) ∧
    (usesInterpArgs c = true → rpmlibName fScriptletInterpreterArgs ∈ (allRequires c).map (·.name)) := by
  refine ⟨?_, ?_, ?_, ?_⟩
  · intro h; unfold allRequires; rw [h]
    exact names_mono_pushFeature (names_mono_pushFeature (names_mono_pushFeature (name_mem_pushFeature _ _ _) _ _ _) _ _ _) _ _ _
  · intro h; unfold allRequires; rw [h]
    exact names_mono_pushFeature (names_mono_pushFeature (name_mem_pushFeature _ _ _) _ _ _) _ _ _
  · intro h; unfold allRequires; rw [h]
    exact names_mono_pushFeature (name_mem_pushFeature _ _ _) _ _ _
  · intro h; unfold allRequires; rw [h]
    exact name_mem_pushFeature _ _ _

/-- **the built header declares every rpmlib() feature it uses** — all thirteen, for EVERY configuration (the four content
features since the fix of builder.rs: before it this statement was false, see the history of this file) -/
theorem build_rpmlib_valid (x : Ctx) (pre : Bool) : RpmlibDeclared (C06.hdrOf x) pre := by
  intro f hf
  simp only [featuresUsed, List.mem_append] at hf
  rcases hf with hf | hf
  · exact build_struct_features_declared x pre f hf
  · obtain ⟨h1, h2, h3, h4⟩ := content_declared x.c
    rw [requireNames_built]
    simp only [contentFeatures, List.mem_append] at hf
    rcases hf with ((hf | hf) | hf) | hf
    · split at hf
      · rename_i hu
        simp only [List.mem_singleton] at hf; subst hf
        exact h1 (versionHas_of_header (Or.inl rfl) hu)
      · cases hf
    · split at hf
      · rename_i hu
        simp only [List.mem_singleton] at hf; subst hf
        exact h2 (versionHas_of_header (Or.inr rfl) hu)
      · cases hf
    · split at hf
      · rename_i hu
        simp only [List.mem_singleton] at hf; subst hf
        exact h3 (usesRichDeps_of_header hu)
      · cases hf
    · split at hf
      · rename_i hu
        simp only [List.mem_singleton] at hf; subst hf
        exact h4 (usesInterpArgs_of_header hu)
      · cases hf


/-! ## payload: the archive the builder writes -/

theorem trailerName_eq : cpioTrailerName = trailerName := rfl

theorem cpioCheck_trailer (i : Nat) (rest : Bytes) : cpioCheck i [] (trailer ++ rest) = none := by
  have h := readEntry_writeEntry trailer_wf (c := []) (by decide) none (by decide) rest
  simp only [cpioCheck, trailer, h]
  rfl

/-- what the validator expects for an archive entry -/
def expOfEntry (x : EntryMeta × Bytes) : FileExp := ⟨x.1.name, x.2.length, x.1.mode⟩

/-- **standard archives**: the validator's cpio walk (the Spec's own newc reader) accepts `archiveOf es` for the file list read off `es` -/
theorem cpioCheck_archiveOf (es : List (EntryMeta × Bytes)) (hes : ∀ x ∈ es, EntryOK x) (rest : Bytes) :
    ∀ i, cpioCheck i (es.map expOfEntry) (archiveOf es ++ rest) = none := by
  induction es with
  | nil => intro i; exact cpioCheck_trailer i rest
  | cons x t ih =>
    intro i
    obtain ⟨m, c⟩ := x
    obtain ⟨hw, _, hl⟩ := hes (m, c) (by simp)
    simp only [archiveOf, List.append_assoc, List.map_cons, cpioCheck, readEntry_writeEntry hw hl none (by decide),
      expOfEntry, ne_eq, not_true_eq_false, if_false, or_self, skipData_append]
    exact ih (fun x hx => hes x (by simp [hx])) (i + 1)

/-- **large-file archives**: stripped entries carrying the indices `k, k+1, …`, data of the header's sizes -/
theorem cpioCheck_stripped (rest : Bytes) (cs : List Bytes) :
    ∀ (fs : List FileExp) (k : Nat), fs.map (·.size) = cs.map List.length → k + cs.length ≤ 4294967295 →
      cpioCheck k fs (archiveStrippedFrom k cs ++ rest) = none := by
  induction cs with
  | nil =>
    intro fs k hfs _
    have : fs = [] := by simpa using hfs
    subst this
    exact cpioCheck_trailer k rest
  | cons c t ih =>
    intro fs k hfs hk
    cases fs with
    | nil => simp at hfs
    | cons f fs' =>
      simp only [List.map_cons, List.cons.injEq] at hfs
      have hk' : k < 4294967296 := by simp at hk; omega
      have ih' := ih fs' (k + 1) hfs.2 (by simp at hk; omega)
      simp only [archiveStrippedFrom, List.append_assoc, cpioCheck, readEntry_strippedHeader hk',
        strippedDataPad_eq, ne_eq, not_true_eq_false, if_false, hfs.1, skipData_append]
      exact ih'


/-! ### the file list the validator reads off the built header -/

/-- what the archive must say about a builder file: name "." ++ dir ++ base name, recorded size and mode -/
def expOf (f : FileE) : FileExp := ⟨[46] ++ (f.dir ++ f.baseName), f.size, f.mode⟩

theorem mkFiles_files (dirs : List Bytes) (fs : List FileE) (hd : ∀ f ∈ fs, f.dir ∈ dirs) :
    mkFiles dirs (fs.map (·.baseName)) (fs.map fun f => dirIndex dirs f.dir) (fs.map (·.size)) (fs.map (·.mode)) =
      some (fs.map expOf) := by
  induction fs with
  | nil => rfl
  | cons f t ih =>
    simp only [List.map_cons, mkFiles, C06.dirs_lookup (hd f (by simp)), ih (fun g hg => hd g (by simp [hg])), expOf]

theorem headerFiles_built (x : Ctx) (hd : DirsOk x.c) : headerFiles (C06.hdrOf x) = some (x.c.files.map expOf) := by
  have hb := find_slot_at (x := x) 35 (whenFiles fun x => .strArray (x.c.files.map (·.baseName))) rfl (t := tBASENAMES) rfl
  have hdn := find_slot_at (x := x) 36 (whenFiles fun x => .strArray x.c.directories) rfl (t := tDIRNAMES) rfl
  have hdi := find_slot_at (x := x) 31 (whenFiles fun x => .int32 (x.c.files.map (fun f => dirIndex x.c.directories f.dir))) rfl (t := tDIRINDEXES) rfl
  have hm := find_slot_at (x := x) 21 (whenFiles fun x => .int16 (x.c.files.map (·.mode))) rfl (t := tFILEMODES) rfl
  have hlf := find_slot_at (x := x) 19 (fun x => if x.c.files.isEmpty || !usesLargeFiles x.c then none else some (.int64 (x.c.files.map (·.size)))) rfl (t := tLONGFILESIZES) rfl
  have hsf := find_slot_at (x := x) 20 (fun x => if x.c.files.isEmpty || usesLargeFiles x.c then none else some (.int32 (x.c.files.map (·.size)))) rfl (t := tFILESIZES) rfl
  cases he : x.c.files.isEmpty with
  | true =>
    have : x.c.files = [] := List.isEmpty_iff.mp he
    simp only [whenFiles, he, if_true] at hb
    simp only [headerFiles, strsOf, hb, this, List.map_nil]
  | false =>
    simp only [whenFiles, he, Bool.false_eq_true, if_false, Bool.false_or] at hb hdn hdi hm hlf hsf
    cases hl : usesLargeFiles x.c with
    | true =>
      simp only [hl, Bool.not_true, Bool.false_eq_true, if_false, if_true] at hlf hsf
      simp only [headerFiles, strsOf, u32sOf, u16sOf, u64sOf, hb, hdn, hdi, hm, hlf]
      exact mkFiles_files _ _ hd
    | false =>
      simp only [hl, Bool.not_false, Bool.false_eq_true, if_false, if_true] at hlf hsf
      simp only [headerFiles, strsOf, u32sOf, u16sOf, u64sOf, hb, hdn, hdi, hm, hlf, hsf]
      exact mkFiles_files _ _ hd

/-- a builder file together with its content, as the archive loop sees it -/
def toFileIn (p : FileE × Bytes) : FileIn := ⟨p.1.cpioPath, p.1.mode, p.2⟩

/-- what `add_data` guarantees for every stored file (C17 `add_data_cpio_name`, fix cbb69e5: the archive
name is "." ++ dir ++ base name; the size is the content's length) plus what the cpio format can carry -/
structure FileOk (p : FileE × Bytes) : Prop where
  size : p.1.size = p.2.length
  path : p.1.cpioPath = [46] ++ (p.1.dir ++ p.1.baseName)
  ok : FileIn.OK (toFileIn p)

theorem builderEntriesFrom_exp (uid gid : Nat) (fes : List (FileE × Bytes)) (hf : ∀ p ∈ fes, FileOk p) : ∀ ino,
    (builderEntriesFrom uid gid ino (fes.map toFileIn)).map expOfEntry = fes.map (fun p => expOf p.1) := by
  induction fes with
  | nil => intro _; rfl
  | cons p t ih =>
    intro ino
    have hp := hf p (by simp)
    simp only [List.map_cons, builderEntriesFrom, ih (fun q hq => hf q (by simp [hq])), expOfEntry, builderMeta, toFileIn,
      expOf, hp.path, hp.size]

/-- **payload, standard form**: the archive `prepare_data` writes (model: `Cpio.builderArchive` over the
files in BTreeMap order) passes the validator's cpio rules against the header `prepare_data` builds from
the same files — entries in header order with matching names, sizes and modes, 4-byte padding, trailer -/
theorem payload_valid_std (x : Ctx) (hd : DirsOk x.c) (fes : List (FileE × Bytes)) (hfiles : x.c.files = fes.map (·.1))
    (hf : ∀ p ∈ fes, FileOk p) (hn : fes.length < 4294967296) {uid gid : Nat} (hu : uid < 4294967296) (hg : gid < 4294967296)
    (rest : Bytes) : CpioValid (C06.hdrOf x) (builderArchive uid gid (fes.map toFileIn) ++ rest) := by
  have hes := builderEntriesFrom_ok hu hg (fes.map toFileIn)
    (fun f hfm => by obtain ⟨p, hp, rfl⟩ := List.mem_map.mp hfm; exact (hf p hp).ok) 1 (by simp; omega)
  have h := cpioCheck_archiveOf _ hes rest 0
  rw [builderEntriesFrom_exp uid gid fes hf 1] at h
  simp only [CpioValid, cpioViolation, headerFiles_built x hd, builderArchive]
  have e : fes.map (fun p => expOf p.1) = (fes.map (·.1)).map expOf := by rw [List.map_map]; rfl
  rw [e, ← hfiles] at h
  exact h

/-- **payload, large-file form** (stripped entries with the file index, then the ordinary trailer) -/
theorem payload_valid_large (x : Ctx) (hd : DirsOk x.c) (fes : List (FileE × Bytes)) (hfiles : x.c.files = fes.map (·.1))
    (hf : ∀ p ∈ fes, p.1.size = p.2.length) (hn : fes.length ≤ 4294967295) (rest : Bytes) :
    CpioValid (C06.hdrOf x) (builderArchiveLarge (fes.map toFileIn) ++ rest) := by
  have hsz : (x.c.files.map expOf).map (·.size) = (fes.map (·.2)).map List.length := by
    rw [hfiles]
    simp only [List.map_map]
    apply List.map_congr_left
    intro p hp
    simp only [Function.comp, expOf]
    exact hf p hp
  have h := cpioCheck_stripped rest (fes.map (·.2)) (x.c.files.map expOf) 0 hsz (by simpa using hn)
  have e : (fes.map toFileIn).map (·.content) = fes.map (·.2) := by rw [List.map_map]; rfl
  simp only [CpioValid, cpioViolation, headerFiles_built x hd, builderArchiveLarge, archiveStripped, e]
  exact h


/-! ### compressor magic -/

theorem writeEntry_magic (m : EntryMeta) (c rest : Bytes) : [48, 55, 48, 55] <+: Cpio.writeEntry m c ++ rest := by
  refine ⟨[48, 49] ++ ((Cpio.writeEntry m c).drop 6 ++ rest), ?_⟩
  simp [Cpio.writeEntry, intoHeader, cpioMagicNewc]

theorem archiveOf_magic (es : List (EntryMeta × Bytes)) (rest : Bytes) : [48, 55, 48, 55] <+: archiveOf es ++ rest := by
  cases es with
  | nil => exact writeEntry_magic _ _ _
  | cons x t => simp only [archiveOf, List.append_assoc]; exact writeEntry_magic _ _ _

theorem archiveStripped_magic (k : Nat) (cs : List Bytes) (rest : Bytes) : [48, 55, 48, 55] <+: archiveStrippedFrom k cs ++ rest := by
  cases cs with
  | nil => exact writeEntry_magic _ _ _
  | cons x t =>
    refine ⟨[48, 88] ++ (fmtHex8 k ++ pad cpioStrippedHeaderLen ++ (x ++ (strippedDataPad x.length ++ archiveStrippedFrom (k + 1) t)) ++ rest), ?_⟩
    simp [archiveStrippedFrom, strippedHeader, cpioMagicStripped]

/-- what is assumed of the codec crates (exercised on every generated package, not proved): no compression
leaves the archive as it is; a compressed stream starts with its format's magic -/
def CodecMagic (c : Comp) (payload archive : Bytes) : Prop :=
  match c with
  | .none => payload = archive
  | .gzip _ => [0x1f, 0x8b] <+: payload
  | .zstd _ => [0x28, 0xb5, 0x2f, 0xfd] <+: payload
  | .xz _ => [0xfd, 0x37, 0x7a, 0x58, 0x5a, 0x00] <+: payload
  | .bzip2 _ => [66, 90, 104] <+: payload

/-- the header names the compressor whose stream the payload is -/
theorem compressor_magic_valid (x : Ctx) {payload archive : Bytes} (harch : [48, 55, 48, 55] <+: archive)
    (hc : CodecMagic x.c.compression payload archive) : CompressorMagic (C06.hdrOf x) payload := by
  have hcomp := find_slot_at (x := x) 44 (fun x => x.c.compression.name.map fun p => .str p.1) rfl (t := tPAYLOADCOMPRESSOR) rfl
  unfold CompressorMagic
  rw [hcomp]
  cases hk : x.c.compression with
  | none => simp only [hk, CodecMagic] at hc; subst hc; simp only [Comp.name, Option.map_none]; exact Or.inr harch
  | gzip l => simp only [hk, CodecMagic] at hc; simpa [Comp.name, compMagic, sGzip] using hc
  | zstd l => simp only [hk, CodecMagic] at hc; simpa [Comp.name, compMagic, sGzip, sZstd] using hc
  | xz l => simp only [hk, CodecMagic] at hc; simpa [Comp.name, compMagic, sGzip, sZstd, sXz] using hc
  | bzip2 l => simp only [hk, CodecMagic] at hc; simpa [Comp.name, compMagic, sGzip, sZstd, sXz, sBzip2] using hc

/-! ### signature padding -/

theorem writeHeader_length {h : Header} (wf : HeaderWF h) : (writeHeader h).length = 16 + 16 * h.nEntries + h.dataSize := by
  rw [writeHeader_eq]
  simp only [hdrBytes, hmagic, List.length_append, List.length_cons, List.length_nil, be32_length, writeRaws_length,
    List.length_map, wf.nEq, wf.dlEq]
  omega

/-- `write_signature` pads with zero bytes to a multiple of 8 -/
theorem sigPadding_written (p : Package) (wl : LeadWF p.md.lead) (ws : HeaderWF p.md.signature) :
    SigPadding (writePackage p) p.md.signature := by
  have e : writePackage p = (writeLead p.md.lead ++ writeHeader p.md.signature) ++
      (List.replicate ((8 - p.md.signature.dataSize % 8) % 8) 0 ++ (writeHeader p.md.header ++ p.content)) := by
    simp only [writePackage, writeMetadata, writeSignature, sigPad, List.append_assoc]
  have hl : (writeLead p.md.lead ++ writeHeader p.md.signature).length =
      96 + (16 + 16 * p.md.signature.nEntries + p.md.signature.dataSize) := by
    rw [List.length_append, writeLead_length wl, writeHeader_length ws]
  unfold SigPadding
  refine ⟨?_, by omega, ?_⟩
  · rw [e, List.drop_left' hl, List.take_left' (by simp)]
  · rw [e]; simp only [List.length_append, hl, List.length_replicate]; omega

/-! ## whole package -/

/-- the archive `prepare_data` writes for the files `fes` (standard or large-file form) -/
def archiveFor (c : Cfg) (uid gid : Nat) (fes : List (FileE × Bytes)) : Bytes :=
  if usesLargeFiles c then builderArchiveLarge (fes.map toFileIn) else builderArchive uid gid (fes.map toFileIn)

/-- everything `build_valid` asks of a configuration -/
structure CfgOk (x : Ctx) (fes : List (FileE × Bytes)) : Prop where
  valid : C06.Valid x                              -- canonical strings / integers, header below 2 GiB
  dirs : DirsOk x.c                                -- `add_data` registers every file's directory
  size : (C06.hdrOf x).store.length < 268435456    -- rpm's header limit
  files : x.c.files = fes.map (·.1)
  fileOk : ∀ p ∈ fes, FileOk p
  count : fes.length < 4294967295

/-- **build_valid**: for every valid configuration and every sign / clear history (the signature header
is whatever `SignatureHeaderBuilder` last built), the written package re-parses to the built value and
satisfies every rule of `PackageValid` — lead, both headers, the signature header's limits, tag types, signature padding,
compressor magic, PAYLOADFLAGS, rpmlib() features (all thirteen), cpio archive. The codec enters only through `CodecMagic`. -/
theorem build_valid {x : Ctx} {fes : List (FileE × Bytes)} (ok : CfgOk x fes)
    {sigs : List (Nat × Bytes × Bytes)} {sha : Bytes} (sok : SigsOk sigs sha)
    {uid gid : Nat} (hu : uid < 4294967296) (hg : gid < 4294967296)
    (payload : Bytes) (hc : CodecMagic x.c.compression payload (archiveFor x.c uid gid fes)) :
    let p : Package := ⟨⟨leadNew x.c.name, signatureHeader sigs (some sha), C06.hdrOf x⟩, payload⟩
    parsePackage (writePackage p) = .ok p ∧ PackageValid (writePackage p) p (archiveFor x.c uid gid fes) := by
  intro p
  obtain ⟨sv, st⟩ := sigRecs_valid sok
  have srec : RecsOk (sigRecs sigs sha) SigTag.HEADER_SIGNATURES := recsOk_of_valid sv st (by decide)
  have hre := C06.build_reparse ok.valid srec payload
  refine ⟨hre, ?_⟩
  have harch : [48, 55, 48, 55] <+: archiveFor x.c uid gid fes := by
    unfold archiveFor
    split
    · have := archiveStripped_magic 0 ((fes.map toFileIn).map (·.content)) []
      simpa [builderArchiveLarge, archiveStripped] using this
    · have := archiveOf_magic (builderEntriesFrom uid gid 1 (fes.map toFileIn)) []
      simpa [builderArchive] using this
  refine ⟨lead_valid _, sign_clear_valid sok, sig_limits_valid sok, build_header_valid ok.valid ok.dirs ok.size,
    build_tagtypes_valid x, ?_, ?_, build_flags_valid x, ?_, ?_⟩
  · exact sigPadding_written p (C06.leadNew_wf _) (by
      show HeaderWF (signatureHeader sigs (some sha)); rw [signatureHeader_eq]; exact fromEntries_wf srec)
  · exact compressor_magic_valid x harch hc
  · exact build_rpmlib_valid x _
  · show CpioValid (C06.hdrOf x) (archiveFor x.c uid gid fes)
    unfold archiveFor
    split
    · have := payload_valid_large x ok.dirs fes ok.files (fun q hq => (ok.fileOk q hq).size) (by have := ok.count; omega) []
      simpa using this
    · have := payload_valid_std x ok.dirs fes ok.files ok.fileOk (by have := ok.count; omega) hu hg []
      simpa using this


/-! ## sign / clear histories on any package (built or foreign) -/

/-- one `clear_signatures` (`sigs = []`) or `sign` / `sign_with_timestamp` (`sigs = [the new signature]`)
call: `sha` is the hex SHA-256 of the main header it computed -/
structure SigOp where
  sigs : List (Nat × Bytes × Bytes)
  sha : Bytes

/-- both calls replace `metadata.signature` by a freshly built signature header and touch nothing else -/
def applySig (p : Package) (o : SigOp) : Package :=
  ⟨⟨p.md.lead, signatureHeader o.sigs (some o.sha), p.md.header⟩, p.content⟩

theorem foldl_applySig_rest (ops : List SigOp) : ∀ p : Package,
    (ops.foldl applySig p).md.lead = p.md.lead ∧ (ops.foldl applySig p).md.header = p.md.header ∧
    (ops.foldl applySig p).content = p.content := by
  induction ops with
  | nil => intro p; exact ⟨rfl, rfl, rfl⟩
  | cons o t ih => intro p; simpa [List.foldl_cons, applySig] using ih (applySig p o)

/-- **history_valid**: a package that is valid (as loaded from any bytes — built by this library or by rpm)
stays valid under every non-empty history of `sign` / `clear_signatures` calls, when written out again -/
theorem history_valid (p : Package) (bytes0 arch : Bytes) (v : PackageValid bytes0 p arch) (wl : LeadWF p.md.lead)
    (ops : List SigOp) (hne : ops ≠ []) (hok : ∀ o ∈ ops, SigsOk o.sigs o.sha) :
    PackageValid (writePackage (ops.foldl applySig p)) (ops.foldl applySig p) arch := by
  have hsplit := List.dropLast_concat_getLast hne
  obtain ⟨hl, hh, hc⟩ := foldl_applySig_rest ops p
  have hsig : (ops.foldl applySig p).md.signature = signatureHeader (ops.getLast hne).sigs (some (ops.getLast hne).sha) := by
    have : ((ops.dropLast ++ [ops.getLast hne]).foldl applySig p).md.signature =
        signatureHeader (ops.getLast hne).sigs (some (ops.getLast hne).sha) := by
      rw [List.foldl_append]; rfl
    rw [hsplit] at this; exact this
  have sok := hok _ (List.getLast_mem hne)
  obtain ⟨sv, st⟩ := sigRecs_valid sok
  have srec : RecsOk (sigRecs (ops.getLast hne).sigs (ops.getLast hne).sha) SigTag.HEADER_SIGNATURES :=
    recsOk_of_valid sv st (by decide)
  refine ⟨by rw [hl]; exact v.lead, by rw [hsig]; exact sign_clear_valid sok, by rw [hsig]; exact sig_limits_valid sok,
    by rw [hh]; exact v.hdr, by rw [hh]; exact v.tagtypes, ?_, by rw [hh, hc]; exact v.magic, by rw [hh]; exact v.flags,
    by rw [hh]; exact v.rpmlib, by rw [hh]; exact v.cpio⟩
  exact sigPadding_written _ (by rw [hl]; exact wl) (by rw [hsig, signatureHeader_eq]; exact fromEntries_wf srec)

/-- **history_foreign_valid**: the same for the weaker archive-vs-header rules rpm guarantees for its own packages (`ForeignValid`:
%ghost files absent from the archive, hard-link sets, source packages without the "./" prefix) — a package rpm built stays
`ForeignValid` under every non-empty history of `sign` / `clear_signatures` calls. Together with `history_valid` this covers
"all sign / clear histories on built and foreign packages". -/
theorem history_foreign_valid (p : Package) (bytes0 arch : Bytes) (v : ForeignValid bytes0 p arch) (wl : LeadWF p.md.lead)
    (ops : List SigOp) (hne : ops ≠ []) (hok : ∀ o ∈ ops, SigsOk o.sigs o.sha) :
    ForeignValid (writePackage (ops.foldl applySig p)) (ops.foldl applySig p) arch := by
  have hsplit := List.dropLast_concat_getLast hne
  obtain ⟨hl, hh, hc⟩ := foldl_applySig_rest ops p
  have hsig : (ops.foldl applySig p).md.signature = signatureHeader (ops.getLast hne).sigs (some (ops.getLast hne).sha) := by
    have : ((ops.dropLast ++ [ops.getLast hne]).foldl applySig p).md.signature =
        signatureHeader (ops.getLast hne).sigs (some (ops.getLast hne).sha) := by
      rw [List.foldl_append]; rfl
    rw [hsplit] at this; exact this
  have sok := hok _ (List.getLast_mem hne)
  obtain ⟨sv, st⟩ := sigRecs_valid sok
  have srec : RecsOk (sigRecs (ops.getLast hne).sigs (ops.getLast hne).sha) SigTag.HEADER_SIGNATURES :=
    recsOk_of_valid sv st (by decide)
  refine ⟨by rw [hl]; exact v.lead, by rw [hsig]; exact sign_clear_valid sok, by rw [hsig]; exact sig_limits_valid sok,
    by rw [hh]; exact v.hdr, by rw [hh]; exact v.tagtypes, ?_, by rw [hh, hc]; exact v.magic, by rw [hh]; exact v.flags,
    by rw [hh]; exact v.rpmlib, by rw [hh]; exact v.cpio⟩
  exact sigPadding_written _ (by rw [hl]; exact wl) (by rw [hsig, signatureHeader_eq]; exact fromEntries_wf srec)


/-! ## the legacy-tag condition of `SigsOk`, discharged from the source table (gap G7) -/
section discharged
open RpmVerif.Sign

/-- what `SigsOk` asks of the signatures handed to `SignatureHeaderBuilder`, WITHOUT the condition on the legacy tags:
those are computed by `build` itself (`Sign.sigBuilderBuild`, table scraped from the source) -/
structure SigBytesOk (b64enc : Bytes → Bytes) (sigs : List Bytes) (sha : Bytes) : Prop where
  raw : ∀ s ∈ sigs, s ≠ [] ∧ s.length < 4294967296
  b64 : ∀ s ∈ sigs, StrOk (b64enc s)
  count : sigs.length < 4294967296
  shaOk : StrOk sha

/-- **the tag condition of `SigsOk` is discharged**: whatever `build` accepts, it files under RPMSIGTAG_RSA or
RPMSIGTAG_DSA (`legacyTagOf_range`) -/
theorem sigsOk_of_build {pubAlg : Bytes → Option Nat} {b64enc : Bytes → Bytes} {sigs : List Bytes} {sha : Bytes}
    {tr : List (Nat × Bytes × Bytes)} (ok : SigBytesOk b64enc sigs sha) (ht : sigTriples pubAlg b64enc sigs = .ok tr)
    (hsize : (signatureHeader tr (some sha)).store.length ≤ 67108864) : SigsOk tr sha := by
  obtain ⟨hmap, hall⟩ := sigTriples_spec b64enc sigs tr ht
  have hmem : ∀ x ∈ tr, x.2.1 ∈ sigs := fun x hx => by rw [← hmap]; exact List.mem_map_of_mem hx
  refine ⟨?_, ?_, ?_, ?_, ok.shaOk, hsize⟩
  · intro x hx
    obtain ⟨⟨a, _, ha⟩, _⟩ := hall x hx
    exact legacyTagOf_mem_range ha
  · intro x hx; exact ok.raw _ (hmem x hx)
  · intro x hx; rw [(hall x hx).2]; exact ok.b64 _ (hmem x hx)
  · have : tr.length = sigs.length := by rw [← hmap, List.length_map]
    rw [this]; exact ok.count

/-- **sign / clear, with nothing assumed about tags**: every signature header the (fallible) model of
`SignatureHeaderBuilder::build` returns is valid -/
theorem sign_clear_valid_discharged {pubAlg : Bytes → Option Nat} {b64enc : Bytes → Bytes} {sigs : List Bytes} {sha : Bytes}
    {h : Header} (ok : SigBytesOk b64enc sigs sha) (hb : sigBuilderBuild pubAlg b64enc sigs (some sha) = .ok h)
    (hsize : h.store.length ≤ 67108864) : HeaderValid 62 h := by
  obtain ⟨tr, ht, rfl⟩ := sigBuilderBuild_ok hb
  exact sign_clear_valid (sigsOk_of_build ok ht hsize)

example : SigBytesOk id [[1, 2]] [48] ∧
    sigBuilderBuild (fun _ => some 22) id [[1, 2]] (some [48]) = .ok (signatureHeader [(267, [1, 2], [1, 2])] (some [48])) := by
  refine ⟨⟨?_, ?_, by decide, ?_⟩, Sign.sigBuild_one_ok id [48] (a := 22) rfl (by decide)⟩
  · intro s hs; simp only [List.mem_singleton] at hs; subst hs; decide
  · intro s hs; simp only [List.mem_singleton] at hs; subst hs; exact Sign.strOk_ascii _ (by decide)
  · exact Sign.strOk_ascii _ (by decide)
end discharged

/-! ## the validator has teeth: the two repaired defects are violations -/

/-- a header as `from_entries` laid it out before fix 024ca91 for `Scriptlet::prog(vec![])`: a PREINPROG
string array with zero strings (count 0, no data) — rejected by `count-zero` -/
def hdrCountZero : Header :=
  ⟨2, 16, [⟨63, .bin (trailerBytes 63 2), 0, 16⟩, ⟨1085, .strArray [], 0, 0⟩], trailerBytes 63 2⟩

theorem count_zero_rejected : headerViolation 63 hdrCountZero = some "count-zero" ∧ ¬ HeaderValid 63 hdrCountZero := by
  have h : headerViolation 63 hdrCountZero = some "count-zero" := by decide +kernel
  refine ⟨h, fun v => ?_⟩
  rw [(headerViolation_none 63 hdrCountZero).mpr v] at h
  cases h

/-- a header naming the xz compressor whose requirements lack `rpmlib(PayloadIsXz)` (before fix 9787c3c) -/
def hdrXzUndeclared : Header :=
  ⟨3, 0, [⟨63, .bin [], 0, 16⟩, ⟨1049, .strArray [rpmlibName fCompressedFileNames], 0, 1⟩, ⟨1125, .str sXz, 0, 1⟩], []⟩

theorem xz_undeclared_rejected : ¬ RpmlibDeclared hdrXzUndeclared false := by decide +kernel

/-! ## non-vacuity -/

def sampleFile : FileE := ⟨[46, 47, 97], [47], [97], 3, 33188, [114], [114], [], 0, none, 4294967295, 1700000000, [48, 48]⟩

example : C06.sampleCfg.files = [sampleFile] := rfl

theorem sample_valid : C06.Valid C06.sampleCtx := by
  refine ⟨by decide +kernel, by decide +kernel, by decide, by decide +kernel, ?_⟩
  have h := fromEntries_store_le (recordsOf C06.sampleCtx) IndexTag.RPMTAG_HEADERIMMUTABLE
  have : (List.map (fun r => r.2.enc.length + 7) (recordsOf C06.sampleCtx)).sum + 16 < 2147483648 := by decide +kernel
  omega

theorem sample_size : (C06.hdrOf C06.sampleCtx).store.length < 268435456 := by
  have h := fromEntries_store_le (recordsOf C06.sampleCtx) IndexTag.RPMTAG_HEADERIMMUTABLE
  have : (List.map (fun r => r.2.enc.length + 7) (recordsOf C06.sampleCtx)).sum + 16 < 268435456 := by decide +kernel
  exact Nat.lt_of_le_of_lt h this

/-- the hypotheses of `build_valid` are satisfiable: one file, a scriptlet with an interpreter, gzip -/
example : CfgOk C06.sampleCtx [(sampleFile, [1, 2, 3])] :=
  ⟨sample_valid, by intro f hf; simp only [C06.sampleCtx, C06.sampleCfg, List.mem_singleton] at hf; subst hf; decide,
   sample_size, rfl,
   by intro p hp; simp only [List.mem_singleton] at hp; subst hp
      exact ⟨rfl, by decide, by constructor <;> decide⟩,
   by decide⟩

/-- an unsigned and a signed signature header -/
theorem sample_sigs_unsigned : SigsOk [] [97, 98] := by
  refine ⟨by simp, by simp, by simp, by decide, by decide, ?_⟩
  have h := fromEntries_store_le (sigRecs [] [97, 98]) SigTag.HEADER_SIGNATURES
  rw [signatureHeader_eq]
  have : (List.map (fun r => r.2.enc.length + 7) (sigRecs [] [97, 98])).sum + 16 ≤ 67108864 := by decide +kernel
  exact Nat.le_trans h this

theorem sample_sigs_signed : SigsOk [(SigTag.RPMSIGTAG_RSA, [1, 2, 3], [65, 81, 73, 68])] [97, 98] := by
  refine ⟨by simp, by simp, ?_, by decide, by decide, ?_⟩
  · intro s hs; simp only [List.mem_singleton] at hs; subst hs; decide
  · have h := fromEntries_store_le (sigRecs [(SigTag.RPMSIGTAG_RSA, [1, 2, 3], [65, 81, 73, 68])] [97, 98]) SigTag.HEADER_SIGNATURES
    rw [signatureHeader_eq]
    have : (List.map (fun r => r.2.enc.length + 7) (sigRecs [(SigTag.RPMSIGTAG_RSA, [1, 2, 3], [65, 81, 73, 68])] [97, 98])).sum + 16 ≤ 67108864 := by decide +kernel
    exact Nat.le_trans h this

example : HeaderValid 62 (signatureHeader [(SigTag.RPMSIGTAG_RSA, [1, 2, 3], [65, 81, 73, 68])] (some [97, 98])) :=
  sign_clear_valid sample_sigs_signed
example : HeaderValid 63 (C06.hdrOf C06.sampleCtx) :=
  build_header_valid sample_valid (by intro f hf; simp only [C06.sampleCtx, C06.sampleCfg, List.mem_singleton] at hf; subst hf; decide) sample_size
example : 40 < (recordsOf C06.sampleCtx).length := by decide +kernel
example : ∀ o ∈ [(⟨[], [97, 98]⟩ : SigOp), ⟨[(SigTag.RPMSIGTAG_RSA, [1, 2, 3], [65, 81, 73, 68])], [97, 98]⟩], SigsOk o.sigs o.sha := by
  intro o ho; simp only [List.mem_cons, List.mem_nil_iff, or_false] at ho
  rcases ho with rfl | rfl
  · exact sample_sigs_unsigned
  · exact sample_sigs_signed
example : CodecMagic (.gzip 6) [0x1f, 0x8b, 8, 0] [] := ⟨[8, 0], rfl⟩
/-- the validator accepts a concrete archive against concrete expectations, and rejects it when two entries are swapped -/
example : cpioCheck 0 [⟨[46, 47, 97], 3, 33188⟩, ⟨[46, 47, 98], 0, 33261⟩]
    (builderArchive 0 0 [⟨[46, 47, 97], 33188, [1, 2, 3]⟩, ⟨[46, 47, 98], 33261, []⟩]) = none := by decide +kernel
example : cpioCheck 0 [⟨[46, 47, 97], 3, 33188⟩, ⟨[46, 47, 98], 0, 33261⟩]
    (builderArchive 0 0 [⟨[46, 47, 98], 33261, []⟩, ⟨[46, 47, 97], 33188, [1, 2, 3]⟩]) = some CpioErr.order := by decide +kernel

/-! ### the Spec's cpio reader is not rpm-rs' reader: a numeric field written `+000000b` -/

/-- the trailer entry with its `namesize` field (bytes 94..101) written as "+000000b" instead of "0000000b" -/
def trailerPlus : Bytes := Cpio.trailer.take 94 ++ [43, 48, 48, 48, 48, 48, 48, 98] ++ Cpio.trailer.drop 102

/-- rpm-rs' reader (`u32::from_str_radix`, model `Cpio.readerNew`) takes the field for 11 and returns the trailer entry; the Spec's
reader (eight hexadecimal digits, as the newc format defines a field) rejects the entry, and so does the archive rule -/
theorem plus_field_rejected : (Cpio.readerNew [] trailerPlus).isOk = true ∧ readEntry trailerPlus = none ∧
    cpioCheck 0 [] trailerPlus = some CpioErr.trailer ∧ cpioCheck 0 [] Cpio.trailer = none := by decide +kernel

/-! ### tag types, signature-header limits -/

/-- EPOCH written as a STRING, a FILEMODES array written as INT32: rejected; a lone interpreter written as STRING under a `*PROG`
tag (what rpm itself does) and a tag rpm does not know: accepted -/
example : tagTypeOk 1003 6 = false ∧ tagTypeOk 1030 4 = false ∧ tagTypeOk 1085 6 = true ∧ tagTypeOk 1085 8 = true ∧
    tagTypeOk 7777 3 = true ∧ tagTypeOk 1004 6 = true := by decide
example : ¬ TagTypesOk ⟨2, 0, [⟨63, .bin [], 0, 16⟩, ⟨1003, .str [49], 0, 1⟩], []⟩ := by decide
/-- 33 entries / a store of 64 MiB + 1 in a signature header -/
example : ¬ SigLimits ⟨33, 0, [], []⟩ ∧ ¬ SigLimits ⟨1, 67108865, [], []⟩ ∧ SigLimits ⟨32, 67108864, [], []⟩ := by decide
example : SigLimits (signatureHeader [(SigTag.RPMSIGTAG_RSA, [1, 2, 3], [65, 81, 73, 68])] (some [97, 98])) :=
  sig_limits_valid sample_sigs_signed
example : TagTypesOk (C06.hdrOf C06.sampleCtx) ∧ PayloadFlagsOk (C06.hdrOf C06.sampleCtx) :=
  ⟨build_tagtypes_valid _, build_flags_valid _⟩
/-- PAYLOADFLAGS as a STRING_ARRAY -/
example : ¬ PayloadFlagsOk ⟨2, 0, [⟨63, .bin [], 0, 16⟩, ⟨1126, .strArray [[57]], 0, 1⟩], []⟩ := by decide

/-! ### rpmlib(): four variants of the sample each use one content feature — declared -/

example : RpmlibDeclared (C06.hdrOf C06.sampleCtx) true := build_rpmlib_valid _ _

/-- version "1~rc" -/
def tildeCtx : Ctx := { C06.sampleCtx with c := { C06.sampleCfg with version := [49, 126, 114, 99] } }
/-- version "1^git" -/
def caretCtx : Ctx := { C06.sampleCtx with c := { C06.sampleCfg with version := [49, 94, 103, 105, 116] } }
/-- requires "(a or b)" -/
def richCtx : Ctx := { C06.sampleCtx with c := { C06.sampleCfg with requires := [⟨[40, 97, 32, 111, 114, 32, 98, 41], 0, []⟩] } }
/-- `%pre -p "/b -x"` -/
def argsCtx : Ctx := { C06.sampleCtx with c := { C06.sampleCfg with preIn := some ⟨[101], some 1, some [[47, 98], [45, 120]]⟩ } }

example : versionHas tildeCtx.c 126 = true ∧ versionHas caretCtx.c 94 = true ∧ usesRichDeps richCtx.c = true ∧
    usesInterpArgs argsCtx.c = true ∧ versionHas C06.sampleCfg 126 = false ∧ usesInterpArgs C06.sampleCfg = false := by decide +kernel
example : rpmlibName fTildeInVersions ∈ (allRequires tildeCtx.c).map (·.name) ∧
    rpmlibName fTildeInVersions ∉ (allRequires C06.sampleCfg).map (·.name) ∧
    rpmlibName fScriptletInterpreterArgs ∈ (allRequires argsCtx.c).map (·.name) := by decide +kernel
example : RpmlibDeclared (C06.hdrOf tildeCtx) true ∧ RpmlibDeclared (C06.hdrOf caretCtx) true ∧
    RpmlibDeclared (C06.hdrOf richCtx) true ∧ RpmlibDeclared (C06.hdrOf argsCtx) true :=
  ⟨build_rpmlib_valid _ _, build_rpmlib_valid _ _, build_rpmlib_valid _ _, build_rpmlib_valid _ _⟩
/-- a requirement the caller wrote himself is not pushed a second time -/
example : (allRequires { tildeCtx.c with requires := [rpmlib fTildeInVersions [52, 46, 49, 48, 46, 48, 45, 49]] }).length =
    (baseRequires { tildeCtx.c with requires := [rpmlib fTildeInVersions [52, 46, 49, 48, 46, 48, 45, 49]] }).length := by decide +kernel
/-- the rule names the driver reports -/
example : contentRuleName fTildeInVersions = "rpmlib-tilde" ∧ contentRuleName fCaretInVersions = "rpmlib-caret" ∧
    contentRuleName fRichDependencies = "rpmlib-rich" ∧ contentRuleName fScriptletInterpreterArgs = "rpmlib-interp-args" := by decide
/-- a header that uses `~` without the requirement is still a violation of the spec (what the builder emitted before the fix) -/
example : ¬ RpmlibDeclared ⟨3, 0, [⟨63, .bin [], 0, 16⟩, ⟨1049, .strArray [rpmlibName fCompressedFileNames], 0, 1⟩,
    ⟨1113, .strArray [[49, 126, 114, 99]], 0, 1⟩], []⟩ false := by decide +kernel

/-! ### `history_foreign_valid`: a package that is `ForeignValid` (a name-only main header, no files, the bare trailer as payload) -/

def fRecs : List (Nat × IndexData) := [(1000, .str [97])]
def fPkg : Package := ⟨⟨leadNew [97], signatureHeader [] (some [97, 98]), fromEntries fRecs 63⟩, Cpio.trailer⟩

theorem fPkg_find_none {t : Nat} (h1 : 63 ≠ t) (h2 : 1000 ≠ t) : find (fromEntries fRecs 63) t = none := by
  simp only [find, fromEntries_find_none h1 (recs := fRecs) (fun r hr => by
    simp only [fRecs, List.mem_singleton] at hr; subst hr; exact h2), Option.map_none]

theorem fPkg_foreign_valid : ForeignValid (writePackage fPkg) fPkg Cpio.trailer := by
  have hsig : RecsOk (sigRecs [] [97, 98]) SigTag.HEADER_SIGNATURES :=
    recsOk_of_valid (sigRecs_valid sample_sigs_unsigned).1 (sigRecs_valid sample_sigs_unsigned).2 (by decide)
  have hrv : RecsValid fRecs 63 := by
    refine ⟨by decide, by decide, by decide, ?_, by decide, ?_⟩
    · intro r hr; simp only [fRecs, List.mem_singleton] at hr; subst hr; trivial
    have h := fromEntries_store_le fRecs 63
    have : (List.map (fun r => r.2.enc.length + 7) fRecs).sum + 16 < 268435456 := by decide
    exact Nat.lt_of_le_of_lt h this
  have hs : ∀ t, 63 ≠ t → 1000 ≠ t → strsAt (fromEntries fRecs 63) t = [] := fun t h1 h2 => strsAt_none (fPkg_find_none h1 h2)
  have hfiles : headerFiles (fromEntries fRecs 63) = some [] := by
    simp only [headerFiles, strsOf, fPkg_find_none (t := tBASENAMES) (by decide) (by decide)]
  refine ⟨lead_valid _, sign_clear_valid sample_sigs_unsigned, sig_limits_valid sample_sigs_unsigned, fromEntries_valid hrv, ?_, ?_, ?_,
    ?_, ?_, ?_⟩
  · intro e he
    have := body_fromEntries_mem he
    simp only [fRecs, List.mem_singleton, Prod.mk.injEq] at this
    rw [this.1, this.2]; decide
  · exact sigPadding_written fPkg (C06.leadNew_wf _) (by
      show HeaderWF (signatureHeader [] (some [97, 98])); rw [signatureHeader_eq]; exact fromEntries_wf hsig)
  · show CompressorMagic (fromEntries fRecs 63) Cpio.trailer
    unfold CompressorMagic
    rw [fPkg_find_none (t := tPAYLOADCOMPRESSOR) (by decide) (by decide)]
    exact Or.inr (by decide)
  · show PayloadFlagsOk (fromEntries fRecs 63)
    unfold PayloadFlagsOk
    rw [fPkg_find_none (t := tPAYLOADFLAGS) (by decide) (by decide)]
    trivial
  · show RpmlibDeclared (fromEntries fRecs 63) (archivePrefixed Cpio.trailer)
    have hpre : archivePrefixed Cpio.trailer = false := by decide +kernel
    intro f hf
    rw [hpre] at hf
    simp only [featuresUsed, structFeatures, contentFeatures, strOf, evrHasChar, hasRichDep, hasInterpArgs, depEvrTags, richNameTags,
      progTags, List.any_cons, List.any_nil,
      fPkg_find_none (t := tPAYLOADCOMPRESSOR) (by decide) (by decide), fPkg_find_none (t := tFILECAPS) (by decide) (by decide),
      fPkg_find_none (t := tLONGFILESIZES) (by decide) (by decide), fPkg_find_none (t := tBASENAMES) (by decide) (by decide),
      fPkg_find_none (t := tFILEDIGESTALGO) (by decide) (by decide),
      hs 1113 (by decide) (by decide), hs 1050 (by decide) (by decide), hs 1115 (by decide) (by decide), hs 1055 (by decide) (by decide),
      hs 5036 (by decide) (by decide), hs 1067 (by decide) (by decide), hs 5050 (by decide) (by decide), hs 5056 (by decide) (by decide),
      hs 5047 (by decide) (by decide), hs 5053 (by decide) (by decide), hs 1049 (by decide) (by decide), hs 5046 (by decide) (by decide),
      hs 5049 (by decide) (by decide), hs 5052 (by decide) (by decide), hs 5055 (by decide) (by decide), hs 1054 (by decide) (by decide),
      hs 1085 (by decide) (by decide), hs 1086 (by decide) (by decide), hs 1087 (by decide) (by decide), hs 1088 (by decide) (by decide),
      hs 1091 (by decide) (by decide), hs 1153 (by decide) (by decide), hs 1154 (by decide) (by decide), hs 5105 (by decide) (by decide),
      hs 5106 (by decide) (by decide)] at hf
    simp at hf
  · show cpioViolationForeign (fromEntries fRecs 63) Cpio.trailer = none
    simp only [cpioViolationForeign, hfiles]
    decide +kernel

/-- the hypotheses of `history_foreign_valid` are satisfiable: clear, then sign -/
example : ForeignValid (writePackage ([(⟨[], [97, 98]⟩ : SigOp), ⟨[(SigTag.RPMSIGTAG_RSA, [1, 2, 3], [65, 81, 73, 68])], [97, 98]⟩].foldl applySig fPkg))
    ([(⟨[], [97, 98]⟩ : SigOp), ⟨[(SigTag.RPMSIGTAG_RSA, [1, 2, 3], [65, 81, 73, 68])], [97, 98]⟩].foldl applySig fPkg) Cpio.trailer :=
  history_foreign_valid fPkg _ _ fPkg_foreign_valid (C06.leadNew_wf _) _ (by simp) (by
    intro o ho; simp only [List.mem_cons, List.mem_nil_iff, or_false] at ho
    rcases ho with rfl | rfl
    · exact sample_sigs_unsigned
    · exact sample_sigs_signed)


end RpmVerif.C09
