import RpmVerif.Lemmas.FileCaps
/-!
# C19 — capability text is accepted only when every clause is well formed

All theorems quantify over **all** strings: lists of Unicode code points of any length, ASCII or not
(a Rust `String` is such a list; the statements do not even need the elements to be valid scalar
values).

* model: `RpmVerif.FileCaps.validateCapsText` etc. (`Model/FileCaps.lean`, mirrors `src/rpm/filecaps.rs`)
* spec : `RpmVerif.FileCaps.Spec` (`Spec/FileCaps.lean`): `WellFormed` (must accept), `Admissible`
  (may accept), `DontCare = Admissible ∧ ¬ WellFormed`.
-/
set_option linter.unusedVariables false
namespace RpmVerif.C19
open RpmVerif RpmVerif.FileCaps RpmVerif.FileCaps.Spec

abbrev Str := FileCaps.Str

/-- the model accepts the text -/
abbrev Accepts (s : Str) : Prop := validateCapsText s = .ok ()

/-- The code implements the grammar of the spec under one particular reading of its two ambiguous
points (a flagless last group is accepted, `all` only on its own; U+000B and the non-ASCII `White_Space`
code points separate). -/
theorem caps_accepts_iff_code_reading (s : Str) : Accepts s ↔ wf codeReading s = true :=
  validateCapsText_ok_iff_wf s

/-- every text that is well formed under all readings is accepted -/
theorem caps_accept_of_wellFormed (s : Str) (h : WellFormed s) : Accepts s :=
  (validateCapsText_ok_iff_wf s).mpr (wf_mono strict_le_code h.1)

/-- every accepted text is well formed under the lenient reading -/
theorem caps_admissible_of_accept (s : Str) (h : Accepts s) : Admissible s :=
  wf_mono code_le_lenient ((validateCapsText_ok_iff_wf s).mp h)

/-- the strict reading is contained in the lenient one (shown on the spec alone) -/
theorem wellFormed_admissible (s : Str) (h : WellFormed s) : Admissible s :=
  wf_mono (a := strict) (b := lenient) ⟨fun _ => rfl, fun _ => rfl⟩ h.1

/-- **Main theorem.** Outside the don't-care set the model accepts exactly the well-formed texts. -/
theorem caps_iff (s : Str) (hdc : ¬ DontCare s) : Accepts s ↔ WellFormed s := by
  constructor
  · intro h
    have ha := caps_admissible_of_accept s h
    exact Classical.byContradiction fun hn => hdc ⟨ha, hn⟩
  · exact caps_accept_of_wellFormed s

/-- The don't-care region is no larger than the three silent points of the sentence: a don't-care
text contains doubtful whitespace (U+000B or a non-ASCII `White_Space` code point), or one of its
clauses ends with an operator (flagless last group), or one of its clauses has `all` as an item of a
comma list with at least two items. -/
theorem dontcare_where_silent (s : Str) (h : DontCare s) :
    (∃ x ∈ s, isDoubtfulSpace x = true) ∨ ∃ c ∈ words s, EndsWithOp c ∨ AllInList c := by
  by_cases hvt : ∃ x ∈ s, isDoubtfulSpace x = true
  · exact Or.inl hvt
  · right
    have hvt' : s.all (fun c => !isDoubtfulSpace c) = true := by
      rw [List.all_eq_true]; intro x hx
      cases hd : isDoubtfulSpace x
      · rfl
      · exact absurd ⟨x, hx, hd⟩ hvt
    have hl := (wf_iff lenient s).mp h.1
    have hs : wf strict s = false := by
      cases hw : wf strict s
      · rfl
      · exact absurd ⟨hw, hvt'⟩ h.2
    have hne : (words s).isEmpty = false := by
      cases hh : (words s).isEmpty
      · rfl
      · exact absurd (List.isEmpty_iff.mp hh) hl.1
    simp only [wf, hne, Bool.not_false, Bool.true_and] at hs
    obtain ⟨c, hc, hcs⟩ := List.all_eq_false.mp hs
    exact ⟨c, hc, clause_gap (hl.2 c hc) (by simpa using hcs)⟩

/-- `demand` (the three-valued form of the spec used by the driver) is met by the model -/
theorem caps_meets_demand (s : Str) :
    (demand s = .mustAccept → Accepts s) ∧ (demand s = .mustReject → ∃ cls, validateCapsText s = .err cls) := by
  have hnp : (validateCapsText s).isPanic = false := by
    unfold validateCapsText; split
    · rfl
    · exact clauseLoop_not_panic _
  constructor
  · intro h
    unfold demand at h
    split at h
    · next hw => exact caps_accept_of_wellFormed s hw
    · split at h <;> cases h
  · intro h
    unfold demand at h
    split at h
    · cases h
    · split at h
      · cases h
      · next hna =>
        cases hv : validateCapsText s with
        | ok u => exact absurd (caps_admissible_of_accept s (by cases u; exact hv)) hna
        | err cls => exact ⟨cls, rfl⟩
        | panic p => rw [hv] at hnp; cases hnp

/-- no input makes `validate_caps_text` panic (in particular the `debug_assert!` of `validate_suffix`
is unreachable from it: the suffix always starts with the operator that `find` located) -/
theorem caps_total (s : Str) : (validateCapsText s).isPanic = false := by
  unfold validateCapsText; split
  · rfl
  · exact clauseLoop_not_panic _

/-- the same for the public entry points `FileCaps::new`, `FromStr`, `FileOptions::caps` -/
theorem caps_total_entry_points (s : Str) :
    (FileCaps.new s).isPanic = false ∧ (FileCaps.fromStr s).isPanic = false ∧ (fileOptionsCaps s).isPanic = false := by
  have h := caps_total s
  have h1 : (FileCaps.new s).isPanic = false := Out.bind_not_panic h (fun _ _ => rfl)
  have h2 : (FileCaps.fromStr s).isPanic = false := Out.bind_not_panic h (fun _ _ => rfl)
  refine ⟨h1, h2, ?_⟩
  unfold fileOptionsCaps
  cases hv : FileCaps.fromStr s with
  | ok c => rfl
  | err e => rfl
  | panic p => rw [hv] at h2; cases h2

/-- rejected text yields an error (never a panic, never a value) -/
theorem caps_reject_is_error (s : Str) (h : ¬ Accepts s) : ∃ cls, validateCapsText s = .err cls := by
  cases hv : validateCapsText s with
  | ok u => cases u; exact absurd hv h
  | err cls => exact ⟨cls, rfl⟩
  | panic p => have := caps_total s; rw [hv] at this; cases this

/-- the entry points accept exactly when the validator does … -/
theorem caps_new_ok_iff (s : Str) :
    ((∃ c, FileCaps.new s = .ok c) ↔ Accepts s) ∧ ((∃ c, FileCaps.fromStr s = .ok c) ↔ Accepts s) ∧
    ((∃ c, fileOptionsCaps s = .ok c) ↔ Accepts s) := by
  have e1 : FileCaps.new s = FileCaps.fromStr s := rfl
  have h2 : (∃ c, FileCaps.fromStr s = .ok c) ↔ Accepts s := by
    unfold FileCaps.fromStr
    cases hv : validateCapsText s with
    | ok u => cases u; simp [Accepts, hv]
    | err e => simp [Accepts, hv]
    | panic p => simp [Accepts, hv]
  refine ⟨by rw [e1]; exact h2, h2, ?_⟩
  rw [← h2]
  unfold fileOptionsCaps
  cases hv : FileCaps.fromStr s with
  | ok c => simp
  | err e => simp
  | panic p => simp

/-- … and **accepted text is kept verbatim**: what `Display` prints is the input, for `new`,
`from_str` and the value stored by `FileOptions::caps` -/
theorem caps_verbatim (s : Str) :
    (∀ c, FileCaps.new s = .ok c → c.display = s) ∧ (∀ c, FileCaps.fromStr s = .ok c → c.display = s) ∧
    (∀ o, fileOptionsCaps s = .ok o → ∃ c, o = some c ∧ c.display = s) := by
  have h2 : ∀ c, FileCaps.fromStr s = .ok c → c.display = s := by
    intro c h
    unfold FileCaps.fromStr at h
    cases hv : validateCapsText s with
    | ok u => rw [hv] at h; cases h; rfl
    | err e => rw [hv] at h; cases h
    | panic p => rw [hv] at h; cases h
  refine ⟨h2, h2, ?_⟩
  intro o h
  unfold fileOptionsCaps at h
  cases hv : FileCaps.fromStr s with
  | ok c => rw [hv] at h; cases h; exact ⟨c, rfl, h2 c hv⟩
  | err e => rw [hv] at h; cases h
  | panic p => rw [hv] at h; cases h

/-! ### non-ASCII text -/

/-- the name list of a clause: the part before its first operator character -/
def nameListOf (c : Str) : Str := c.takeWhile (fun ch => !isOp ch)

/-- A clause with a non-ASCII code point (anywhere: in a name, between names, in the operator/flag
part) is rejected by the model's clause check and is not a clause of the grammar under any reading. -/
theorem clause_nonascii_rejected (c : Str) (x : Nat) (hx : x ∈ c) (h128 : 128 ≤ x) :
    (∃ cls, validateClause c = .err cls) ∧ ∀ rd, clause rd c = false := by
  have hno : ∀ rd, clause rd c = false := by
    intro rd
    cases h : clause rd c
    · rfl
    · have := clause_ascii h x hx; omega
  refine ⟨?_, hno⟩
  cases hv : validateClause c with
  | ok u =>
    cases u
    have := clause_code_of_ok hv
    rw [hno] at this; cases this
  | err cls => exact ⟨cls, rfl⟩
  | panic p => have := validateClause_not_panic c; rw [hv] at this; cases this

/-- Any text in which a code point ≥ 128 that is not `White_Space` occurs is rejected by the model and
must be rejected according to the spec — whatever else the text contains. -/
theorem caps_nonascii_rejected (s : Str) (x : Nat) (hx : x ∈ s) (h128 : 128 ≤ x) (hws : isSpace x = false) :
    (∃ cls, validateCapsText s = .err cls) ∧ demand s = .mustReject := by
  obtain ⟨c, hc, hxc⟩ := mem_words_of_mem hx hws
  have hnw : ∀ rd, wf rd s = false := fun rd => not_wf_of_nonascii hc hxc h128
  have hna : ¬ Accepts s := by
    intro h
    have := (validateCapsText_ok_iff_wf s).mp h
    rw [hnw] at this; cases this
  refine ⟨?_, ?_⟩
  · cases hv : validateCapsText s with
    | ok u => cases u; exact absurd hv hna
    | err cls => exact ⟨cls, rfl⟩
    | panic p =>
      have : (validateCapsText s).isPanic = false := by
        unfold validateCapsText; split
        · rfl
        · exact clauseLoop_not_panic _
      rw [hv] at this; cases this
  · have h1 : ¬ WellFormed s := fun h => by have := h.1; rw [hnw] at this; cases this
    have h2 : ¬ Admissible s := fun h => by have := h; rw [Admissible, hnw] at this; cases this
    simp [demand, h1, h2]

/-- **A clause whose name list contains a code point ≥ 128 is rejected** — by the model (an error, for
the clause on its own and for every text it is a clause of) and by the spec (`mustReject`) —
whatever else the text contains.  (`c ∈ words s`: `c` is one of the maximal `White_Space`-free runs of
`s`; its name list is the part before the first of `=`, `+`, `-`.)  This is the statement the code
before `fix:` e20037b violated, see `old_unicode_upper_witness`. -/
theorem caps_nonascii_name_rejected (s c : Str) (hc : c ∈ words s) (x : Nat) (hx : x ∈ nameListOf c)
    (h128 : 128 ≤ x) :
    (∃ cls, validateClause c = .err cls) ∧ (∃ cls, validateCapsText s = .err cls) ∧ demand s = .mustReject := by
  have hxc : x ∈ c := (List.takeWhile_sublist _).subset hx
  have hws : isSpace x = false := words_no_space c hc x hxc
  have hxs : x ∈ s := mem_of_mem_words s c hc x hxc
  have h := caps_nonascii_rejected s x hxs h128 hws
  exact ⟨(clause_nonascii_rejected c x hxc h128).1, h.1, h.2⟩

/-- a text that must be accepted is pure ASCII (so every demand to accept is a demand on ASCII text;
non-ASCII text is either don't-care — Unicode whitespace — or must be rejected) -/
theorem wellFormed_ascii (s : Str) (h : WellFormed s) : ∀ x ∈ s, x < 128 := by
  intro x hx
  cases hws : isSpace x
  · obtain ⟨c, hc, hxc⟩ := mem_words_of_mem hx hws
    exact clause_ascii (((wf_iff strict s).mp h.1).2 c hc) x hxc
  · have hd := List.all_eq_true.mp h.2 x hx
    exact isSpace_ascii hws (by simpa using hd)

/-- the parameterised validator (the code before `fix:` e20037b) at the ASCII upper-casing is the model -/
theorem caps_with_ascii_upper (s : Str) : validateCapsTextWith (fun c => [toAsciiUpper c]) s = validateCapsText s :=
  validateCapsTextWith_ascii s

/-- **The defect fixed by e20037b, as a theorem.**  With a Unicode-style upper-casing (`to_uppercase`:
U+0131 dotless i ↦ `I`, U+017F long s ↦ `S`) in place of `to_ascii_uppercase`, the validator accepts
"cap_kıll=ep" and "cap_ſetuid=ep", which the spec demands to be rejected (they name no capability) and
which the model of the present code rejects. -/
theorem old_unicode_upper_witness :
    (validateCapsTextWith unicodeUpperSample [99,97,112,95,107,0x131,108,108,61,101,112] = .ok () ∧
      demand [99,97,112,95,107,0x131,108,108,61,101,112] = .mustReject ∧
      validateCapsText [99,97,112,95,107,0x131,108,108,61,101,112] = .err "unknown-cap") ∧
    (validateCapsTextWith unicodeUpperSample [99,97,112,95,0x17F,101,116,117,105,100,61,101,112] = .ok () ∧
      demand [99,97,112,95,0x17F,101,116,117,105,100,61,101,112] = .mustReject ∧
      validateCapsText [99,97,112,95,0x17F,101,116,117,105,100,61,101,112] = .err "unknown-cap") := by
  decide

/-! ### non-vacuity: concrete texts (code points written out) -/

-- "cap_chown=p"
example : WellFormed [99,97,112,95,99,104,111,119,110,61,112] ∧ Accepts [99,97,112,95,99,104,111,119,110,61,112] := by decide
-- "=e cap_chown-e"  (two clauses; the first omits the name list and starts with '=')
example : WellFormed [61,101,32,99,97,112,95,99,104,111,119,110,45,101] ∧ Accepts [61,101,32,99,97,112,95,99,104,111,119,110,45,101] := by decide
-- " Cap_Kill,CAP_CHOWN+ep-i\tALL=e\n"  (mixed case, several groups, tab/newline, `all`)
example : WellFormed [32,67,97,112,95,75,105,108,108,44,67,65,80,95,67,72,79,87,78,43,101,112,45,105,9,65,76,76,61,101,10] := by decide
example : FileCaps.new [32,67,97,112,95,75,105,108,108,44,67,65,80,95,67,72,79,87,78,43,101,112,45,105,9,65,76,76,61,101,10]
    = .ok ⟨[32,67,97,112,95,75,105,108,108,44,67,65,80,95,67,72,79,87,78,43,101,112,45,105,9,65,76,76,61,101,10]⟩ := by decide
-- "=e +p"  (the input of the former defect): neither admissible nor accepted — the rule is per clause now
example : ¬ Admissible [61,101,32,43,112] ∧ validateCapsText [61,101,32,43,112] = .err "first-char" := by decide
-- "", " ", "cap_chown", "+e", "cap_chown+-p", "cap_chown+x", "cap_bogus=e", ",=e", "cap_chown,=e": must be rejected, are rejected
example : ¬ Admissible [] ∧ validateCapsText [] = .err "empty" := by decide
example : ¬ Admissible [32] ∧ validateCapsText [32] = .err "empty" := by decide
example : ¬ Admissible [99,97,112,95,99,104,111,119,110] ∧ validateCapsText [99,97,112,95,99,104,111,119,110] = .err "no-op" := by decide
example : ¬ Admissible [43,101] ∧ validateCapsText [43,101] = .err "first-char" := by decide
example : ¬ Admissible [99,97,112,95,99,104,111,119,110,43,45,112] ∧ validateCapsText [99,97,112,95,99,104,111,119,110,43,45,112] = .err "adjacent-ops" := by decide
example : ¬ Admissible [99,97,112,95,99,104,111,119,110,43,120] ∧ validateCapsText [99,97,112,95,99,104,111,119,110,43,120] = .err "suffix-char" := by decide
example : ¬ Admissible [99,97,112,95,98,111,103,117,115,61,101] ∧ validateCapsText [99,97,112,95,98,111,103,117,115,61,101] = .err "unknown-cap" := by decide
example : ¬ Admissible [44,61,101] ∧ validateCapsText [44,61,101] = .err "unknown-cap" := by decide
example : ¬ Admissible [99,97,112,95,99,104,111,119,110,44,61,101] ∧ validateCapsText [99,97,112,95,99,104,111,119,110,44,61,101] = .err "unknown-cap" := by decide
-- the don't-care region is inhabited on both sides of the code's choice:
-- "cap_chown+" and "=" (flagless group) are don't-care and the code accepts them;
example : DontCare [99,97,112,95,99,104,111,119,110,43] ∧ Accepts [99,97,112,95,99,104,111,119,110,43] := by decide
example : DontCare [61] ∧ Accepts [61] := by decide
-- "all,cap_chown=e" (`all` inside a comma list) is don't-care and the code rejects it;
example : DontCare [97,108,108,44,99,97,112,95,99,104,111,119,110,61,101] ∧ ¬ Accepts [97,108,108,44,99,97,112,95,99,104,111,119,110,61,101] := by decide
-- "=e\x0b=p" (vertical tab as the separator) is don't-care and the code accepts it;
example : DontCare [61,101,11,61,112] ∧ Accepts [61,101,11,61,112] := by decide
-- "=e\u{a0}=p", "cap_chown=e\u{3000}", "\u{85}=e" (non-ASCII White_Space) are don't-care and the code accepts them.
example : DontCare [61,101,0xA0,61,112] ∧ Accepts [61,101,0xA0,61,112] := by decide
example : DontCare [99,97,112,95,99,104,111,119,110,61,101,0x3000] ∧ Accepts [99,97,112,95,99,104,111,119,110,61,101,0x3000] := by decide
example : DontCare [0x85,61,101] ∧ Accepts [0x85,61,101] := by decide
-- "=e\u{a0}+p": ill formed even when U+00A0 separates → must be rejected, is rejected; "\u{2003}": no clause
example : demand [61,101,0xA0,43,112] = .mustReject ∧ validateCapsText [61,101,0xA0,43,112] = .err "first-char" := by decide
example : demand [0x2003] = .mustReject ∧ validateCapsText [0x2003] = .err "empty" := by decide
-- U+200B (zero width space) is not White_Space: "=e\u{200b}=p" is one ill-formed clause
example : demand [61,101,0x200B,61,112] = .mustReject ∧ validateCapsText [61,101,0x200B,61,112] = .err "suffix-char" := by decide
-- non-ASCII in names / operators / flags: "cap_\u{212a}ill=e" (Kelvin sign), "cap_fßetid=e", "cap_chown＝e" (U+FF1D),
-- "cap_chown=é", "é": must be rejected, are rejected
example : demand [99,97,112,95,0x212A,105,108,108,61,101] = .mustReject ∧ validateCapsText [99,97,112,95,0x212A,105,108,108,61,101] = .err "unknown-cap" := by decide
example : demand [99,97,112,95,102,0xDF,101,116,105,100,61,101] = .mustReject ∧ validateCapsText [99,97,112,95,102,0xDF,101,116,105,100,61,101] = .err "unknown-cap" := by decide
example : demand [99,97,112,95,99,104,111,119,110,0xFF1D,101] = .mustReject ∧ validateCapsText [99,97,112,95,99,104,111,119,110,0xFF1D,101] = .err "no-op" := by decide
example : demand [99,97,112,95,99,104,111,119,110,61,0xE9] = .mustReject ∧ validateCapsText [99,97,112,95,99,104,111,119,110,61,0xE9] = .err "suffix-char" := by decide
example : demand [0xE9] = .mustReject ∧ validateCapsText [0xE9] = .err "no-op" := by decide
-- the hypotheses of `caps_nonascii_name_rejected` are satisfiable: "=e cap_kıll=ep", second word, x = U+0131
example : [99,97,112,95,107,0x131,108,108,61,101,112] ∈ words [61,101,32,99,97,112,95,107,0x131,108,108,61,101,112] ∧
    0x131 ∈ nameListOf [99,97,112,95,107,0x131,108,108,61,101,112] := by decide
-- the pre-fix validator also accepted "cap_net_broadcaﬆ=p" (U+FB06 ↦ "ST": upper-casing may lengthen the string)
example : validateCapsTextWith unicodeUpperSample [99,97,112,95,110,101,116,95,98,114,111,97,100,99,97,0xFB06,61,112] = .ok () ∧
    demand [99,97,112,95,110,101,116,95,98,114,111,97,100,99,97,0xFB06,61,112] = .mustReject := by decide
-- `caps_iff` is not vacuous: its hypothesis holds for accepted and for rejected texts
example : ¬ DontCare [99,97,112,95,99,104,111,119,110,61,112] ∧ ¬ DontCare [61,101,32,43,112] := by decide
-- the `debug_assert!` of `validate_suffix` is a real panic site of the helper on its own ("p")
example : validateSuffix [112] = .panic "debug_assert(last_ch.is_some())" := by decide

end RpmVerif.C19
