import RpmVerif.Lemmas.FileCaps
/-!
# C19 — capability text is accepted only when every clause is well formed

All theorems quantify over **all** strings (lists of byte codes of any length; the ASCII hypothesis is
not even needed for the statements about the model — it is what makes the model faithful to the Rust
code, and the correspondence run checks that).

* model: `RpmVerif.FileCaps.validateCapsText` etc. (`Model/FileCaps.lean`, mirrors `src/rpm/filecaps.rs`)
* spec : `RpmVerif.FileCaps.Spec` (`Spec/FileCaps.lean`): `WellFormed` (must accept), `Admissible`
  (may accept), `DontCare = Admissible ∧ ¬ WellFormed`.
-/
set_option linter.unusedVariables false
namespace RpmVerif.C19
open RpmVerif RpmVerif.FileCaps RpmVerif.FileCaps.Spec

abbrev Str := FileCaps.Str

/-- the model accepts the text -/
abbrev Accepts (s : Str) : Prop := validateCapsText s = .ok ()

/-- The code implements the grammar of the spec under one particular reading of its two ambiguous
points (a flagless last group is accepted, `all` only on its own; U+000B separates). -/
theorem caps_accepts_iff_code_reading (s : Str) : Accepts s ↔ wf codeReading s = true :=
  validateCapsText_ok_iff_wf s

/-- every text that is well formed under all readings is accepted -/
theorem caps_accept_of_wellFormed (s : Str) (h : WellFormed s) : Accepts s :=
  (validateCapsText_ok_iff_wf s).mpr (wf_mono strict_le_code h.1)

/-- every accepted text is well formed under the lenient reading -/
theorem caps_admissible_of_accept (s : Str) (h : Accepts s) : Admissible s :=
  wf_mono code_le_lenient ((validateCapsText_ok_iff_wf s).mp h)

/-- the strict reading is contained in the lenient one (shown on the spec alone) -/
theorem wellFormed_admissible (s : Str) (h : WellFormed s) : Admissible s :=
  wf_mono (a := strict) (b := lenient) ⟨fun _ => rfl, fun _ => rfl⟩ h.1

/-- **Main theorem.** Outside the don't-care set the model accepts exactly the well-formed texts. -/
theorem caps_iff (s : Str) (hdc : ¬ DontCare s) : Accepts s ↔ WellFormed s := by
  constructor
  · intro h
    have ha := caps_admissible_of_accept s h
    exact Classical.byContradiction fun hn => hdc ⟨ha, hn⟩
  · exact caps_accept_of_wellFormed s

/-- The don't-care region is no larger than the three silent points of the sentence: a don't-care
text contains U+000B, or one of its clauses ends with an operator (flagless last group), or one of
its clauses has `all` as an item of a comma list with at least two items. -/
theorem dontcare_where_silent (s : Str) (h : DontCare s) :
    11 ∈ s ∨ ∃ c ∈ words s, EndsWithOp c ∨ AllInList c := by
  by_cases hvt : 11 ∈ s
  · exact Or.inl hvt
  · right
    have hl := (wf_iff lenient s).mp h.1
    have hs : wf strict s = false := by
      cases hw : wf strict s
      · rfl
      · exact absurd ⟨hw, hvt⟩ h.2
    have hne : (words s).isEmpty = false := by
      cases hh : (words s).isEmpty
      · rfl
      · exact absurd (List.isEmpty_iff.mp hh) hl.1
    simp only [wf, hne, Bool.not_false, Bool.true_and] at hs
    obtain ⟨c, hc, hcs⟩ := List.all_eq_false.mp hs
    exact ⟨c, hc, clause_gap (hl.2 c hc) (by simpa using hcs)⟩

/-- `demand` (the three-valued form of the spec used by the driver) is met by the model -/
theorem caps_meets_demand (s : Str) :
    (demand s = .mustAccept → Accepts s) ∧ (demand s = .mustReject → ∃ cls, validateCapsText s = .err cls) := by
  have hnp : (validateCapsText s).isPanic = false := by
    unfold validateCapsText; split
    · rfl
    · exact clauseLoop_not_panic _
  constructor
  · intro h
    unfold demand at h
    split at h
    · next hw => exact caps_accept_of_wellFormed s hw
    · split at h <;> cases h
  · intro h
    unfold demand at h
    split at h
    · cases h
    · split at h
      · cases h
      · next hna =>
        cases hv : validateCapsText s with
        | ok u => exact absurd (caps_admissible_of_accept s (by cases u; exact hv)) hna
        | err cls => exact ⟨cls, rfl⟩
        | panic p => rw [hv] at hnp; cases hnp

/-- no input makes `validate_caps_text` panic (in particular the `debug_assert!` of `validate_suffix`
is unreachable from it: the suffix always starts with the operator that `find` located) -/
theorem caps_total (s : Str) : (validateCapsText s).isPanic = false := by
  unfold validateCapsText; split
  · rfl
  · exact clauseLoop_not_panic _

/-- the same for the public entry points `FileCaps::new`, `FromStr`, `FileOptions::caps` -/
theorem caps_total_entry_points (s : Str) :
    (FileCaps.new s).isPanic = false ∧ (FileCaps.fromStr s).isPanic = false ∧ (fileOptionsCaps s).isPanic = false := by
  have h := caps_total s
  have h1 : (FileCaps.new s).isPanic = false := Out.bind_not_panic h (fun _ _ => rfl)
  have h2 : (FileCaps.fromStr s).isPanic = false := Out.bind_not_panic h (fun _ _ => rfl)
  refine ⟨h1, h2, ?_⟩
  unfold fileOptionsCaps
  cases hv : FileCaps.fromStr s with
  | ok c => rfl
  | err e => rfl
  | panic p => rw [hv] at h2; cases h2

/-- rejected text yields an error (never a panic, never a value) -/
theorem caps_reject_is_error (s : Str) (h : ¬ Accepts s) : ∃ cls, validateCapsText s = .err cls := by
  cases hv : validateCapsText s with
  | ok u => cases u; exact absurd hv h
  | err cls => exact ⟨cls, rfl⟩
  | panic p => have := caps_total s; rw [hv] at this; cases this

/-- the entry points accept exactly when the validator does … -/
theorem caps_new_ok_iff (s : Str) :
    ((∃ c, FileCaps.new s = .ok c) ↔ Accepts s) ∧ ((∃ c, FileCaps.fromStr s = .ok c) ↔ Accepts s) ∧
    ((∃ c, fileOptionsCaps s = .ok c) ↔ Accepts s) := by
  have e1 : FileCaps.new s = FileCaps.fromStr s := rfl
  have h2 : (∃ c, FileCaps.fromStr s = .ok c) ↔ Accepts s := by
    unfold FileCaps.fromStr
    cases hv : validateCapsText s with
    | ok u => cases u; simp [Accepts, hv]
    | err e => simp [Accepts, hv]
    | panic p => simp [Accepts, hv]
  refine ⟨by rw [e1]; exact h2, h2, ?_⟩
  rw [← h2]
  unfold fileOptionsCaps
  cases hv : FileCaps.fromStr s with
  | ok c => simp
  | err e => simp
  | panic p => simp

/-- … and **accepted text is kept verbatim**: what `Display` prints is the input, for `new`,
`from_str` and the value stored by `FileOptions::caps` -/
theorem caps_verbatim (s : Str) :
    (∀ c, FileCaps.new s = .ok c → c.display = s) ∧ (∀ c, FileCaps.fromStr s = .ok c → c.display = s) ∧
    (∀ o, fileOptionsCaps s = .ok o → ∃ c, o = some c ∧ c.display = s) := by
  have h2 : ∀ c, FileCaps.fromStr s = .ok c → c.display = s := by
    intro c h
    unfold FileCaps.fromStr at h
    cases hv : validateCapsText s with
    | ok u => rw [hv] at h; cases h; rfl
    | err e => rw [hv] at h; cases h
    | panic p => rw [hv] at h; cases h
  refine ⟨h2, h2, ?_⟩
  intro o h
  unfold fileOptionsCaps at h
  cases hv : FileCaps.fromStr s with
  | ok c => rw [hv] at h; cases h; exact ⟨c, rfl, h2 c hv⟩
  | err e => rw [hv] at h; cases h
  | panic p => rw [hv] at h; cases h

/-! ### non-vacuity: concrete texts (byte codes written out) -/

-- "cap_chown=p"
example : WellFormed [99,97,112,95,99,104,111,119,110,61,112] ∧ Accepts [99,97,112,95,99,104,111,119,110,61,112] := by decide
-- "=e cap_chown-e"  (two clauses; the first omits the name list and starts with '=')
example : WellFormed [61,101,32,99,97,112,95,99,104,111,119,110,45,101] ∧ Accepts [61,101,32,99,97,112,95,99,104,111,119,110,45,101] := by decide
-- " Cap_Kill,CAP_CHOWN+ep-i\tALL=e\n"  (mixed case, several groups, tab/newline, `all`)
example : WellFormed [32,67,97,112,95,75,105,108,108,44,67,65,80,95,67,72,79,87,78,43,101,112,45,105,9,65,76,76,61,101,10] := by decide
example : FileCaps.new [32,67,97,112,95,75,105,108,108,44,67,65,80,95,67,72,79,87,78,43,101,112,45,105,9,65,76,76,61,101,10]
    = .ok ⟨[32,67,97,112,95,75,105,108,108,44,67,65,80,95,67,72,79,87,78,43,101,112,45,105,9,65,76,76,61,101,10]⟩ := by decide
-- "=e +p"  (the input of the former defect): neither admissible nor accepted — the rule is per clause now
example : ¬ Admissible [61,101,32,43,112] ∧ validateCapsText [61,101,32,43,112] = .err "first-char" := by decide
-- "", " ", "cap_chown", "+e", "cap_chown+-p", "cap_chown+x", "cap_bogus=e", ",=e", "cap_chown,=e": must be rejected, are rejected
example : ¬ Admissible [] ∧ validateCapsText [] = .err "empty" := by decide
example : ¬ Admissible [32] ∧ validateCapsText [32] = .err "empty" := by decide
example : ¬ Admissible [99,97,112,95,99,104,111,119,110] ∧ validateCapsText [99,97,112,95,99,104,111,119,110] = .err "no-op" := by decide
example : ¬ Admissible [43,101] ∧ validateCapsText [43,101] = .err "first-char" := by decide
example : ¬ Admissible [99,97,112,95,99,104,111,119,110,43,45,112] ∧ validateCapsText [99,97,112,95,99,104,111,119,110,43,45,112] = .err "adjacent-ops" := by decide
example : ¬ Admissible [99,97,112,95,99,104,111,119,110,43,120] ∧ validateCapsText [99,97,112,95,99,104,111,119,110,43,120] = .err "suffix-char" := by decide
example : ¬ Admissible [99,97,112,95,98,111,103,117,115,61,101] ∧ validateCapsText [99,97,112,95,98,111,103,117,115,61,101] = .err "unknown-cap" := by decide
example : ¬ Admissible [44,61,101] ∧ validateCapsText [44,61,101] = .err "unknown-cap" := by decide
example : ¬ Admissible [99,97,112,95,99,104,111,119,110,44,61,101] ∧ validateCapsText [99,97,112,95,99,104,111,119,110,44,61,101] = .err "unknown-cap" := by decide
-- the don't-care region is inhabited on both sides of the code's choice:
-- "cap_chown+" and "=" (flagless group) are don't-care and the code accepts them;
example : DontCare [99,97,112,95,99,104,111,119,110,43] ∧ Accepts [99,97,112,95,99,104,111,119,110,43] := by decide
example : DontCare [61] ∧ Accepts [61] := by decide
-- "all,cap_chown=e" (`all` inside a comma list) is don't-care and the code rejects it;
example : DontCare [97,108,108,44,99,97,112,95,99,104,111,119,110,61,101] ∧ ¬ Accepts [97,108,108,44,99,97,112,95,99,104,111,119,110,61,101] := by decide
-- "=e\x0b=p" (vertical tab as the separator) is don't-care and the code accepts it.
example : DontCare [61,101,11,61,112] ∧ Accepts [61,101,11,61,112] := by decide
-- `caps_iff` is not vacuous: its hypothesis holds for accepted and for rejected texts
example : ¬ DontCare [99,97,112,95,99,104,111,119,110,61,112] ∧ ¬ DontCare [61,101,32,43,112] := by decide
-- the `debug_assert!` of `validate_suffix` is a real panic site of the helper on its own ("p")
example : validateSuffix [112] = .panic "debug_assert(last_ch.is_some())" := by decide

end RpmVerif.C19
