import RpmVerif.Lemmas.Vercmp
import RpmVerif.Gen.VercmpVectors
import RpmVerif.Lemmas.VercmpUtf8
import RpmVerif.Lemmas.Version
import RpmVerif.Lemmas.VercmpNum
/-!
# C13 — version comparison equals rpm's algorithm and is a total preorder

All theorems quantify over *all* strings (lists of code points of any length).
`rustCmp` models `compare_version_string`; `cVercmp` transcribes rpm's `rpmvercmp`.
-/
set_option linter.unusedVariables false
namespace RpmVerif.C13
open RpmVerif.Vercmp RpmVerif.Version Std

/-- comparator obtained by mapping both arguments first -/
def onKey {α β} (f : α → β) (c : β → β → Ordering) : α → α → Ordering := fun x y => c (f x) (f y)

instance {α β} (f : α → β) (c : β → β → Ordering) [OrientedCmp c] : OrientedCmp (onKey f c) where
  eq_swap := OrientedCmp.eq_swap (cmp := c)
instance {α β} (f : α → β) (c : β → β → Ordering) [TransCmp c] : TransCmp (onKey f c) where
  isLE_trans := TransCmp.isLE_trans (cmp := c)
instance {α β} (f : α → β) (c : β → β → Ordering) [ReflCmp c] : ReflCmp (onKey f c) where
  compare_self := ReflCmp.compare_self (cmp := c)

abbrev lexK : List K → List K → Ordering := List.compareLex cmpK
instance : ReflCmp cmpK := by unfold cmpK; infer_instance

theorem keyCmp_self (a : Str) : keyCmp a a = .eq := ReflCmp.compare_self (cmp := lexK)

/-- the `==` shortcut of the Rust function is redundant: the loop already answers `Equal` -/
theorem rustCmp_eq_keyCmp (a b : Str) : rustCmp a b = keyCmp a b := by
  unfold rustCmp
  split
  · next h => subst h; exact (keyCmp_self a).symm
  · exact rust_eq_key a b

theorem cVercmp_eq_keyCmp (a b : Str) : cVercmp a b = keyCmp a b := by
  unfold cVercmp
  split
  · next h => subst h; exact (keyCmp_self a).symm
  · exact c_eq_key a b

/-- **Main theorem**: the library's comparison equals rpm's `rpmvercmp` on every pair of strings. -/
theorem rust_eq_c (a b : Str) : rustCmp a b = cVercmp a b := by
  rw [rustCmp_eq_keyCmp, cVercmp_eq_keyCmp]

/-- **chars vs bytes**: the library compares `char`s, rpm compares bytes. On the UTF-8 encoding of the
two strings rpm's algorithm gives exactly what the library computes on the code points (every byte
of a non-ASCII character is a separator, like the character itself). -/
theorem chars_vs_bytes (a b : Str) : rustCmp a b = cVercmp (encode utf8 a) (encode utf8 b) := by
  rw [rustCmp_eq_keyCmp, cVercmp_eq_keyCmp]
  simp only [keyCmp, key_encode utf8_transparent]

/-! ### order laws for `compare_version_string` -/
theorem rustCmp_refl (a : Str) : rustCmp a a = .eq := by rw [rustCmp_eq_keyCmp]; exact keyCmp_self a

theorem rustCmp_swap (a b : Str) : rustCmp b a = (rustCmp a b).swap := by
  rw [rustCmp_eq_keyCmp, rustCmp_eq_keyCmp]; exact OrientedCmp.eq_swap (cmp := lexK)

theorem rustCmp_trans {a b c : Str} (h1 : (rustCmp a b).isLE) (h2 : (rustCmp b c).isLE) :
    (rustCmp a c).isLE := by
  rw [rustCmp_eq_keyCmp] at *; exact TransCmp.isLE_trans (cmp := lexK) h1 h2

theorem rustCmp_lt_trans {a b c : Str} (h1 : rustCmp a b = .lt) (h2 : rustCmp b c = .lt) :
    rustCmp a c = .lt := by
  rw [rustCmp_eq_keyCmp] at *; exact TransCmp.lt_trans (cmp := lexK) h1 h2

theorem rustCmp_eq_trans {a b c : Str} (h1 : rustCmp a b = .eq) (h2 : rustCmp b c = .eq) :
    rustCmp a c = .eq := by
  rw [rustCmp_eq_keyCmp] at *; exact TransCmp.eq_trans (cmp := lexK) h1 h2

/-! ### EVR and NEVRA: lexicographic products of the string comparison -/
def evrRef : Evr → Evr → Ordering :=
  compareLex (onKey (fun e => key (epochOr0 e.epoch)) lexK)
    (compareLex (onKey (fun e => key e.version) lexK) (onKey (fun e => key e.release) lexK))

instance : TransCmp evrRef := by unfold evrRef; infer_instance
instance : ReflCmp evrRef := by unfold evrRef; infer_instance

theorem ite_ne_eq (c d : Ordering) : (if (c != Ordering.eq) = true then c else d) = c.then d := by
  cases c <;> rfl

/-- `Evr::cmp` compares epoch (empty meaning "0"), then version, then release, each with rpmvercmp -/
theorem evr_cmp_spec (x y : Evr) : x.cmp y =
    (cVercmp (epochOr0 x.epoch) (epochOr0 y.epoch)).then
      ((cVercmp x.version y.version).then (cVercmp x.release y.release)) := by
  simp only [Evr.cmp, ite_ne_eq, rust_eq_c]

theorem evr_cmp_eq_ref (x y : Evr) : x.cmp y = evrRef x y := by
  simp only [Evr.cmp, ite_ne_eq, rustCmp_eq_keyCmp]; rfl

theorem evr_refl (x : Evr) : x.cmp x = .eq := by
  rw [evr_cmp_eq_ref]; exact ReflCmp.compare_self (cmp := evrRef)
theorem evr_swap (x y : Evr) : y.cmp x = (x.cmp y).swap := by
  rw [evr_cmp_eq_ref, evr_cmp_eq_ref]; exact OrientedCmp.eq_swap (cmp := evrRef)
theorem evr_trans {x y z : Evr} (h1 : (x.cmp y).isLE) (h2 : (y.cmp z).isLE) : (x.cmp z).isLE := by
  rw [evr_cmp_eq_ref] at *; exact TransCmp.isLE_trans (cmp := evrRef) h1 h2
theorem evr_lt_trans {x y z : Evr} (h1 : x.cmp y = .lt) (h2 : y.cmp z = .lt) : x.cmp z = .lt := by
  rw [evr_cmp_eq_ref] at *; exact TransCmp.lt_trans (cmp := evrRef) h1 h2

/-- equal EVRs (`PartialEq`, with the empty/"0" epoch rule) compare as `Equal` -/
theorem evr_eq_cmp_eq (x y : Evr) (h : x.eq y = true) : x.cmp y = .eq := by
  simp only [Evr.eq, Bool.and_eq_true, Bool.or_eq_true, beq_iff_eq] at h
  obtain ⟨⟨he, hv⟩, hr⟩ := h
  have hepoch : epochOr0 x.epoch = epochOr0 y.epoch := by
    rcases he with (he | ⟨h1, h2⟩) | ⟨h1, h2⟩
    · rw [he]
    · rw [h1, h2]; rfl
    · rw [h1, h2]; rfl
  simp only [Evr.cmp, ite_ne_eq, hepoch, hv, hr, rustCmp_refl]; rfl

def nevraRef : Nevra → Nevra → Ordering :=
  compareLex (onKey (fun n => key n.name) lexK)
    (compareLex (onKey (fun n => n.evr) evrRef) (onKey (fun n => key n.arch) lexK))

instance : TransCmp nevraRef := by unfold nevraRef; infer_instance
instance : ReflCmp nevraRef := by unfold nevraRef; infer_instance

theorem nevra_cmp_eq_ref (x y : Nevra) : x.cmp y = nevraRef x y := by
  simp only [Nevra.cmp, ite_ne_eq, rustCmp_eq_keyCmp, evr_cmp_eq_ref]; rfl

theorem nevra_refl (x : Nevra) : x.cmp x = .eq := by
  rw [nevra_cmp_eq_ref]; exact ReflCmp.compare_self (cmp := nevraRef)
theorem nevra_swap (x y : Nevra) : y.cmp x = (x.cmp y).swap := by
  rw [nevra_cmp_eq_ref, nevra_cmp_eq_ref]; exact OrientedCmp.eq_swap (cmp := nevraRef)
theorem nevra_trans {x y z : Nevra} (h1 : (x.cmp y).isLE) (h2 : (y.cmp z).isLE) : (x.cmp z).isLE := by
  rw [nevra_cmp_eq_ref] at *; exact TransCmp.isLE_trans (cmp := nevraRef) h1 h2

theorem nevra_eq_cmp_eq (x y : Nevra) (h : x.eq y = true) : x.cmp y = .eq := by
  simp only [Nevra.eq, Bool.and_eq_true, beq_iff_eq] at h
  obtain ⟨⟨hn, he⟩, ha⟩ := h
  simp only [Nevra.cmp, ite_ne_eq, hn, ha, rustCmp_refl, evr_eq_cmp_eq _ _ he]; rfl

/-! ### `PartialOrd`, the comparison operators, `max` / `min` (AUDIT2 a18) -/

/-- rpm's order of two EVRs: epoch (empty meaning "0"), then version, then release, each with rpmvercmp -/
def cEvrCmp (x y : Evr) : Ordering :=
  (cVercmp (epochOr0 x.epoch) (epochOr0 y.epoch)).then
    ((cVercmp x.version y.version).then (cVercmp x.release y.release))

/-- `Evr::partial_cmp` is total (never `None`) and is rpm's order -/
theorem evr_partial_cmp (x y : Evr) : x.partialCmp y = some (cEvrCmp x y) := by
  simp only [Evr.partialCmp, cEvrCmp, evr_cmp_spec]

/-- rpm's order of two NEVRAs: name, then EVR, then architecture -/
def cNevraCmp (x y : Nevra) : Ordering :=
  (cVercmp x.name y.name).then ((cEvrCmp x.evr y.evr).then (cVercmp x.arch y.arch))

theorem nevra_cmp_spec (x y : Nevra) : x.cmp y = cNevraCmp x y := by
  simp only [Nevra.cmp, ite_ne_eq, rust_eq_c, cNevraCmp, cEvrCmp, evr_cmp_spec]

/-- `Nevra::partial_cmp` is total and is the lexicographic product name, EVR, architecture -/
theorem nevra_partial_cmp (x y : Nevra) : x.partialCmp y = some (cNevraCmp x y) := by
  simp only [Nevra.partialCmp, nevra_cmp_spec]

/-- the four operators say what `cmp` says -/
theorem evr_ops (x y : Evr) :
    (x.lt y = true ↔ x.cmp y = .lt) ∧ (x.le y = true ↔ (x.cmp y).isLE = true) ∧
    (x.gt y = true ↔ x.cmp y = .gt) ∧ (x.ge y = true ↔ (x.cmp y).isGE = true) := by
  simp only [Evr.lt, Evr.le, Evr.gt, Evr.ge, Evr.partialCmp]
  cases x.cmp y <;> simp [optLt, optLe, optGt, optGe]

theorem nevra_ops (x y : Nevra) :
    (x.lt y = true ↔ x.cmp y = .lt) ∧ (x.le y = true ↔ (x.cmp y).isLE = true) ∧
    (x.gt y = true ↔ x.cmp y = .gt) ∧ (x.ge y = true ↔ (x.cmp y).isGE = true) := by
  simp only [Nevra.lt, Nevra.le, Nevra.gt, Nevra.ge, Nevra.partialCmp]
  cases x.cmp y <;> simp [optLt, optLe, optGt, optGe]

/-- `<` and `>` are mirror images, `<=` is "not `>`": the operators form one total preorder -/
theorem evr_ops_coherent (x y : Evr) :
    x.gt y = y.lt x ∧ x.ge y = y.le x ∧ x.le y = !(x.gt y) ∧ (x.le y = true ∨ y.le x = true) := by
  simp only [Evr.lt, Evr.le, Evr.gt, Evr.ge, Evr.partialCmp, evr_swap x y]
  cases x.cmp y <;> simp [optLt, optLe, optGt, optGe, Ordering.swap]

theorem nevra_ops_coherent (x y : Nevra) :
    x.gt y = y.lt x ∧ x.ge y = y.le x ∧ x.le y = !(x.gt y) ∧ (x.le y = true ∨ y.le x = true) := by
  simp only [Nevra.lt, Nevra.le, Nevra.gt, Nevra.ge, Nevra.partialCmp, nevra_swap x y]
  cases x.cmp y <;> simp [optLt, optLe, optGt, optGe, Ordering.swap]

/-- `max` returns one of its arguments, which is an upper bound of both; on a tie the second -/
theorem evr_max_spec (x y : Evr) :
    (x.max y = x ∨ x.max y = y) ∧ (x.cmp (x.max y)).isLE = true ∧ (y.cmp (x.max y)).isLE = true ∧
    (x.cmp y = .eq → x.max y = y) := by
  have hs := evr_swap x y
  have hx := evr_refl x
  have hy := evr_refl y
  simp only [Evr.max, Evr.lt, Evr.partialCmp]
  cases h : x.cmp y <;> rw [h] at hs <;> simp [hs, optLt, Ordering.swap, h, hx, hy]

/-- `min` returns one of its arguments, which is a lower bound of both; on a tie the first -/
theorem evr_min_spec (x y : Evr) :
    (x.min y = x ∨ x.min y = y) ∧ ((x.min y).cmp x).isLE = true ∧ ((x.min y).cmp y).isLE = true ∧
    (x.cmp y = .eq → x.min y = x) := by
  have hs := evr_swap x y
  have hx := evr_refl x
  have hy := evr_refl y
  simp only [Evr.min, Evr.lt, Evr.partialCmp]
  cases h : x.cmp y <;> rw [h] at hs <;> simp [hs, optLt, Ordering.swap, h, hx, hy]

theorem nevra_max_spec (x y : Nevra) :
    (x.max y = x ∨ x.max y = y) ∧ (x.cmp (x.max y)).isLE = true ∧ (y.cmp (x.max y)).isLE = true ∧
    (x.cmp y = .eq → x.max y = y) := by
  have hs := nevra_swap x y
  have hx := nevra_refl x
  have hy := nevra_refl y
  simp only [Nevra.max, Nevra.lt, Nevra.partialCmp]
  cases h : x.cmp y <;> rw [h] at hs <;> simp [hs, optLt, Ordering.swap, h, hx, hy]

theorem nevra_min_spec (x y : Nevra) :
    (x.min y = x ∨ x.min y = y) ∧ ((x.min y).cmp x).isLE = true ∧ ((x.min y).cmp y).isLE = true ∧
    (x.cmp y = .eq → x.min y = x) := by
  have hs := nevra_swap x y
  have hx := nevra_refl x
  have hy := nevra_refl y
  simp only [Nevra.min, Nevra.lt, Nevra.partialCmp]
  cases h : x.cmp y <;> rw [h] at hs <;> simp [hs, optLt, Ordering.swap, h, hx, hy]

/-! ### `rpm_evr_compare` on whole texts -/

/-- What an EVR text denotes, stated on the text alone: the epoch is what precedes the FIRST ':' (nothing when there is no
':'), the version is what follows up to the FIRST '-' after that, the release is the rest (nothing when there is no '-'). -/
def EvrText (s e v r : Str) : Prop :=
  ∃ rest, ((s = e ++ 58 :: rest ∧ 58 ∉ e) ∨ (58 ∉ s ∧ e = [] ∧ rest = s)) ∧
          ((rest = v ++ 45 :: r ∧ 45 ∉ v) ∨ (45 ∉ rest ∧ v = rest ∧ r = []))

theorem append_cons_inj {c : Nat} {a a' b b' : Str} (ha : c ∉ a) (ha' : c ∉ a') (h : a ++ c :: b = a' ++ c :: b') :
    a = a' ∧ b = b' := by
  induction a generalizing a' with
  | nil =>
    cases a' with
    | nil => simpa using h
    | cons y ys =>
      simp only [List.nil_append, List.cons_append, List.cons.injEq] at h
      exact absurd (by simp [h.1]) ha'
  | cons x xs ih =>
    cases a' with
    | nil =>
      simp only [List.nil_append, List.cons_append, List.cons.injEq] at h
      exact absurd (by simp [h.1]) ha
    | cons y ys =>
      simp only [List.cons_append, List.cons.injEq] at h
      obtain ⟨e1, e2⟩ := ih (fun m => ha (List.mem_cons_of_mem _ m)) (fun m => ha' (List.mem_cons_of_mem _ m)) h.2
      exact ⟨by rw [h.1, e1], e2⟩

/-- `Evr::parse_values` computes exactly that reading, and the reading is unique -/
theorem evrText_iff (s e v r : Str) : EvrText s e v r ↔ evrParseValues s = (e, v, r) := by
  constructor
  · rintro ⟨rest, h1, h2⟩
    have hsplit : (splitOnce 58 s).getD ([], s) = (e, rest) := by
      rcases h1 with ⟨rfl, he⟩ | ⟨hs, rfl, rfl⟩
      · rw [splitOnce_append _ he]; rfl
      · rw [splitOnce_none hs]; rfl
    have hsplit2 : (splitOnce 45 rest).getD (rest, []) = (v, r) := by
      rcases h2 with ⟨rfl, hv⟩ | ⟨hs, rfl, rfl⟩
      · rw [splitOnce_append _ hv]; rfl
      · rw [splitOnce_none hs]; rfl
    simp only [evrParseValues, hsplit, hsplit2]
  · intro h
    rcases evrParse_cases s with ⟨h1, h2, h'⟩ | ⟨v', r', h1, h2, h'⟩ | ⟨e', b, h1, h2, h'⟩ | ⟨e', b, v', r', h1, h2, h'⟩ <;>
      rw [h'] at h <;> simp only [Prod.mk.injEq] at h <;> obtain ⟨rfl, rfl, rfl⟩ := h
    · exact ⟨s, Or.inr ⟨splitOnce_eq_none h1, rfl, rfl⟩, Or.inr ⟨splitOnce_eq_none h2, rfl, rfl⟩⟩
    · exact ⟨s, Or.inr ⟨splitOnce_eq_none h1, rfl, rfl⟩, Or.inl (splitOnce_some h2)⟩
    · exact ⟨b, Or.inl (splitOnce_some h1), Or.inr ⟨splitOnce_eq_none h2, rfl, rfl⟩⟩
    · exact ⟨b, Or.inl (splitOnce_some h1), Or.inl (splitOnce_some h2)⟩

/-- **`rpm_evr_compare`**: two texts are compared by reading each as epoch / version / release (`EvrText`) and comparing
epoch (empty meaning "0"), then version, then release with rpm's algorithm. -/
theorem rpmEvrCompare_spec (s t e1 v1 r1 e2 v2 r2 : Str) (hs : EvrText s e1 v1 r1) (ht : EvrText t e2 v2 r2) :
    rpmEvrCompare s t = cEvrCmp ⟨e1, v1, r1⟩ ⟨e2, v2, r2⟩ := by
  rw [evrText_iff] at hs ht
  simp only [rpmEvrCompare, Evr.parse, hs, ht, evr_cmp_spec, cEvrCmp]

/-- every text has a reading, so the theorem above covers every pair of texts -/
theorem evrText_total (s : Str) : ∃ e v r, EvrText s e v r :=
  ⟨_, _, _, (evrText_iff s _ _ _).mpr rfl⟩

/-! ### epochs compare numerically (AUDIT2 c41) -/

theorem epochOr0_digits (a : Str) (ha : AllDigits a) :
    AllDigits (epochOr0 a) ∧ epochOr0 a ≠ [] ∧ decVal (epochOr0 a) = decVal a := by
  cases a with
  | nil => exact ⟨by intro c hc; simp [epochOr0] at hc; subst hc; decide, by simp [epochOr0], by decide⟩
  | cons x r => exact ⟨ha, by simp [epochOr0], rfl⟩

/-- **Epochs compare numerically.** The library (like rpm ≥ 4.16) runs the version comparison on the epoch TEXTS, "" read
as "0". For all-digit epochs — the only ones rpm itself ever holds — that is the comparison of the numbers they denote:
`00` = `0` = ``, `007` < `10`, 2⁶⁴ > 2⁶⁴ − 1 (no machine-integer wrap-around). -/
theorem epoch_numeric (a b : Str) (ha : AllDigits a) (hb : AllDigits b) :
    rustCmp (epochOr0 a) (epochOr0 b) = compare (decVal a) (decVal b)
    ∧ cVercmp (epochOr0 a) (epochOr0 b) = compare (decVal a) (decVal b) := by
  obtain ⟨da, na, va⟩ := epochOr0_digits a ha
  obtain ⟨db, nb, vb⟩ := epochOr0_digits b hb
  have := keyCmp_digits _ _ da db na nb
  rw [va, vb] at this
  exact ⟨by rw [rustCmp_eq_keyCmp, this], by rw [cVercmp_eq_keyCmp, this]⟩

/-- `Evr::cmp` with numeric epochs: the number decides first, then version, then release -/
theorem evr_cmp_numeric_epoch (x y : Evr) (hx : AllDigits x.epoch) (hy : AllDigits y.epoch) :
    x.cmp y = (compare (decVal x.epoch) (decVal y.epoch)).then
      ((cVercmp x.version y.version).then (cVercmp x.release y.release)) := by
  rw [evr_cmp_spec, (epoch_numeric _ _ hx hy).2]

/-- outside the digit strings the epoch comparison is NOT numeric (and `==` is finer than `cmp`): documented behaviour of the
text comparison — "1a" > "1" (a letter run after the number), "a" < "" = "0" (letters sort before numbers), "00" and "0"
compare Equal although `Evr::eq` tells them apart -/
theorem epoch_text_cases :
    rustCmp (epochOr0 [49, 97]) (epochOr0 [49]) = .gt ∧ rustCmp (epochOr0 [97]) (epochOr0 []) = .lt
    ∧ Evr.cmp ⟨[48, 48], [49], [49]⟩ ⟨[48], [49], [49]⟩ = .eq ∧ Evr.eq ⟨[48, 48], [49], [49]⟩ ⟨[48], [49], [49]⟩ = false := by
  decide +kernel

/-! ### the oracle: vectors that do not live in /repo (AUDIT2 c40)

The tables are generated from files vendored under /verif/tools/gen/data: rpm's own `tests/rpmvercmp.at` cases, and ordered
pairs answered by libsolv's independent C implementation (`solv_vercmp_rpm`, `pool_evrcmp_str`). Each vector is checked
against BOTH the transcription of rpmvercmp.c run on the UTF-8 bytes and the model of the Rust function run on the code
points (so the unit-test vectors of rpm are re-proved of the library's algorithm as well). -/

def asciiVecOk (v : RpmVerif.Gen.AsciiVec) : Bool := cVercmp v.1 v.2.1 == v.2.2 && rustCmp v.1 v.2.1 == v.2.2
def utf8VecOk (v : RpmVerif.Gen.Utf8Vec) : Bool := cVercmp v.2.1.1 v.2.1.2 == v.2.2 && rustCmp v.1.1 v.1.2 == v.2.2

/-- every `RPMVERCMP(a, b, r)` case of rpm's tests/rpmvercmp.at: `rpmvercmp` as transcribed gives `r` on the bytes, and
so does the library's function on the characters -/
theorem vectors_ok : RpmVerif.Gen.vercmpVectors.all asciiVecOk = true ∧ RpmVerif.Gen.vercmpVectorsU.all utf8VecOk = true := by
  decide +kernel

/-- the same for the pairs answered by libsolv's `solv_vercmp_rpm` (corner cases: empty strings, zero-only segments against
letters, `~` / `^` everywhere, the ASCII neighbours of the digit and letter ranges, non-ASCII digits and letters, numbers
beyond 2^64) -/
theorem libsolv_vectors_ok :
    RpmVerif.Gen.vercmpLibsolvVectors.all asciiVecOk = true ∧ RpmVerif.Gen.vercmpLibsolvVectorsU.all utf8VecOk = true := by
  decide +kernel

/-- rpm's reading of two EVR texts, on bytes: split at the first ':' and the first '-' after it, then `cEvrCmp` -/
def cEvrTextCmp (s t : Str) : Ordering :=
  let (e1, v1, r1) := evrParseValues s
  let (e2, v2, r2) := evrParseValues t
  cEvrCmp ⟨e1, v1, r1⟩ ⟨e2, v2, r2⟩

/-- whole E:V-R texts (numeric epochs incl. `00`, `007`, 2^32, 2^64; releases present and absent) answered by libsolv's
`pool_evrcmp_str`: `rpm_evr_compare` as modelled gives the same answer -/
theorem libsolv_evr_vectors_ok :
    RpmVerif.Gen.evrLibsolvVectors.all (fun v => cEvrTextCmp v.1 v.2.1 == v.2.2 && rpmEvrCompare v.1 v.2.1 == v.2.2) = true := by
  decide +kernel

/-! ### non-vacuity: hypotheses are met by concrete, non-trivial values
(code points written out: string literals do not reduce in the kernel) -/
-- "1.0~rc1" < "1.0" in both functions
example : rustCmp [49,46,48,126,114,99,49] [49,46,48] = .lt ∧ cVercmp [49,46,48,126,114,99,49] [49,46,48] = .lt := by
  decide +kernel
-- "1.0" ≤ "1.0^a" ≤ "1.1": premises of `rustCmp_trans`
example : (rustCmp [49,46,48] [49,46,48,94,97]).isLE ∧ (rustCmp [49,46,48,94,97] [49,46,49]).isLE := by decide +kernel
-- "" epoch equals "0" epoch: premise of `evr_eq_cmp_eq`
example : Evr.eq ⟨[], [49], [50]⟩ ⟨[48], [49], [50]⟩ = true := by decide
-- the UTF-8 encoding of "1.Á" is 31 2e c3 81
example : encode utf8 [49, 46, 193] = [49, 46, 0xC3, 0x81] := by decide
-- "1.1.Á.1" = "1.1.1": a non-ASCII char is a separator
example : rustCmp [49,46,49,46,193,46,49] [49,46,49,46,49] = .eq := by decide +kernel

-- the oracle tables are not empty
example : RpmVerif.Gen.vercmpVectors.length = 97 ∧ RpmVerif.Gen.vercmpVectorsU.length = 6 := by decide +kernel
example : 300 < RpmVerif.Gen.vercmpLibsolvVectors.length ∧ 50 < RpmVerif.Gen.vercmpLibsolvVectorsU.length
    ∧ 200 < RpmVerif.Gen.evrLibsolvVectors.length := by decide +kernel
-- operators: epoch "" vs "0" tie, `max` hands back the SECOND argument, `min` the first; "1:0-0" > "2-9"
example : Evr.le ⟨[], [49], [50]⟩ ⟨[48], [49], [50]⟩ = true ∧ Evr.ge ⟨[], [49], [50]⟩ ⟨[48], [49], [50]⟩ = true
    ∧ Evr.max ⟨[], [49], [50]⟩ ⟨[48], [49], [50]⟩ = ⟨[48], [49], [50]⟩
    ∧ Evr.min ⟨[], [49], [50]⟩ ⟨[48], [49], [50]⟩ = ⟨[], [49], [50]⟩ := by decide +kernel
example : Evr.gt ⟨[49], [48], [48]⟩ ⟨[], [50], [57]⟩ = true ∧ Evr.partialCmp ⟨[49], [48], [48]⟩ ⟨[], [50], [57]⟩ = some .gt
    ∧ Evr.max ⟨[49], [48], [48]⟩ ⟨[], [50], [57]⟩ = ⟨[49], [48], [48]⟩ := by decide +kernel
-- "1:2.0-3" reads as epoch "1", version "2.0", release "3"; "2.0" as version only; a ':' after the first '-' stays in the release
example : EvrText [49,58,50,46,48,45,51] [49] [50,46,48] [51] := ⟨[50,46,48,45,51], Or.inl ⟨rfl, by decide⟩, Or.inl ⟨rfl, by decide⟩⟩
example : EvrText [50,46,48] [] [50,46,48] [] := ⟨[50,46,48], Or.inr ⟨by decide, rfl, rfl⟩, Or.inr ⟨by decide, rfl, rfl⟩⟩
example : rpmEvrCompare [49,58,50,46,48,45,51] [50,46,48] = .gt := by decide +kernel

-- premises of `epoch_numeric`: "007" is all digits and denotes 7; the empty epoch denotes 0; "1a" is not all digits
example : AllDigits [48, 48, 55] ∧ decVal [48, 48, 55] = 7 ∧ decVal [] = 0 ∧ ¬ AllDigits [49, 97] := by decide
-- 2^64 as an epoch is larger than 2^64 − 1 (20 digits each: the digits decide)
example : rustCmp [49,56,52,52,54,55,52,52,48,55,51,55,48,57,53,53,49,54,49,54] [49,56,52,52,54,55,52,52,48,55,51,55,48,57,53,53,49,54,49,53] = .gt := by
  decide +kernel

end RpmVerif.C13
