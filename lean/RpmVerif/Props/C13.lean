import RpmVerif.Lemmas.Vercmp
import RpmVerif.Gen.VercmpVectors
import RpmVerif.Lemmas.VercmpUtf8
/-!
# C13 — version comparison equals rpm's algorithm and is a total preorder

All theorems quantify over *all* strings (lists of code points of any length).
`rustCmp` models `compare_version_string`; `cVercmp` transcribes rpm's `rpmvercmp`.
-/
set_option linter.unusedVariables false
namespace RpmVerif.C13
open RpmVerif.Vercmp Std

/-- comparator obtained by mapping both arguments first -/
def onKey {α β} (f : α → β) (c : β → β → Ordering) : α → α → Ordering := fun x y => c (f x) (f y)

instance {α β} (f : α → β) (c : β → β → Ordering) [OrientedCmp c] : OrientedCmp (onKey f c) where
  eq_swap := OrientedCmp.eq_swap (cmp := c)
instance {α β} (f : α → β) (c : β → β → Ordering) [TransCmp c] : TransCmp (onKey f c) where
  isLE_trans := TransCmp.isLE_trans (cmp := c)
instance {α β} (f : α → β) (c : β → β → Ordering) [ReflCmp c] : ReflCmp (onKey f c) where
  compare_self := ReflCmp.compare_self (cmp := c)

abbrev lexK : List K → List K → Ordering := List.compareLex cmpK
instance : ReflCmp cmpK := by unfold cmpK; infer_instance

theorem keyCmp_self (a : Str) : keyCmp a a = .eq := ReflCmp.compare_self (cmp := lexK)

/-- the `==` shortcut of the Rust function is redundant: the loop already answers `Equal` -/
theorem rustCmp_eq_keyCmp (a b : Str) : rustCmp a b = keyCmp a b := by
  unfold rustCmp
  split
  · next h => subst h; exact (keyCmp_self a).symm
  · exact rust_eq_key a b

theorem cVercmp_eq_keyCmp (a b : Str) : cVercmp a b = keyCmp a b := by
  unfold cVercmp
  split
  · next h => subst h; exact (keyCmp_self a).symm
  · exact c_eq_key a b

/-- **Main theorem**: the library's comparison equals rpm's `rpmvercmp` on every pair of strings. -/
theorem rust_eq_c (a b : Str) : rustCmp a b = cVercmp a b := by
  rw [rustCmp_eq_keyCmp, cVercmp_eq_keyCmp]

/-- **chars vs bytes**: the library compares `char`s, rpm compares bytes. On the UTF-8 encoding of the
two strings rpm's algorithm gives exactly what the library computes on the code points (every byte
of a non-ASCII character is a separator, like the character itself). -/
theorem chars_vs_bytes (a b : Str) : rustCmp a b = cVercmp (encode utf8 a) (encode utf8 b) := by
  rw [rustCmp_eq_keyCmp, cVercmp_eq_keyCmp]
  simp only [keyCmp, key_encode utf8_transparent]

/-! ### order laws for `compare_version_string` -/
theorem rustCmp_refl (a : Str) : rustCmp a a = .eq := by rw [rustCmp_eq_keyCmp]; exact keyCmp_self a

theorem rustCmp_swap (a b : Str) : rustCmp b a = (rustCmp a b).swap := by
  rw [rustCmp_eq_keyCmp, rustCmp_eq_keyCmp]; exact OrientedCmp.eq_swap (cmp := lexK)

theorem rustCmp_trans {a b c : Str} (h1 : (rustCmp a b).isLE) (h2 : (rustCmp b c).isLE) :
    (rustCmp a c).isLE := by
  rw [rustCmp_eq_keyCmp] at *; exact TransCmp.isLE_trans (cmp := lexK) h1 h2

theorem rustCmp_lt_trans {a b c : Str} (h1 : rustCmp a b = .lt) (h2 : rustCmp b c = .lt) :
    rustCmp a c = .lt := by
  rw [rustCmp_eq_keyCmp] at *; exact TransCmp.lt_trans (cmp := lexK) h1 h2

theorem rustCmp_eq_trans {a b c : Str} (h1 : rustCmp a b = .eq) (h2 : rustCmp b c = .eq) :
    rustCmp a c = .eq := by
  rw [rustCmp_eq_keyCmp] at *; exact TransCmp.eq_trans (cmp := lexK) h1 h2

/-! ### EVR and NEVRA: lexicographic products of the string comparison -/
def evrRef : Evr → Evr → Ordering :=
  compareLex (onKey (fun e => key (epochOr0 e.epoch)) lexK)
    (compareLex (onKey (fun e => key e.version) lexK) (onKey (fun e => key e.release) lexK))

instance : TransCmp evrRef := by unfold evrRef; infer_instance
instance : ReflCmp evrRef := by unfold evrRef; infer_instance

theorem ite_ne_eq (c d : Ordering) : (if (c != Ordering.eq) = true then c else d) = c.then d := by
  cases c <;> rfl

/-- `Evr::cmp` compares epoch (empty meaning "0"), then version, then release, each with rpmvercmp -/
theorem evr_cmp_spec (x y : Evr) : x.cmp y =
    (cVercmp (epochOr0 x.epoch) (epochOr0 y.epoch)).then
      ((cVercmp x.version y.version).then (cVercmp x.release y.release)) := by
  simp only [Evr.cmp, ite_ne_eq, rust_eq_c]

theorem evr_cmp_eq_ref (x y : Evr) : x.cmp y = evrRef x y := by
  simp only [Evr.cmp, ite_ne_eq, rustCmp_eq_keyCmp]; rfl

theorem evr_refl (x : Evr) : x.cmp x = .eq := by
  rw [evr_cmp_eq_ref]; exact ReflCmp.compare_self (cmp := evrRef)
theorem evr_swap (x y : Evr) : y.cmp x = (x.cmp y).swap := by
  rw [evr_cmp_eq_ref, evr_cmp_eq_ref]; exact OrientedCmp.eq_swap (cmp := evrRef)
theorem evr_trans {x y z : Evr} (h1 : (x.cmp y).isLE) (h2 : (y.cmp z).isLE) : (x.cmp z).isLE := by
  rw [evr_cmp_eq_ref] at *; exact TransCmp.isLE_trans (cmp := evrRef) h1 h2
theorem evr_lt_trans {x y z : Evr} (h1 : x.cmp y = .lt) (h2 : y.cmp z = .lt) : x.cmp z = .lt := by
  rw [evr_cmp_eq_ref] at *; exact TransCmp.lt_trans (cmp := evrRef) h1 h2

/-- equal EVRs (`PartialEq`, with the empty/"0" epoch rule) compare as `Equal` -/
theorem evr_eq_cmp_eq (x y : Evr) (h : x.eq y = true) : x.cmp y = .eq := by
  simp only [Evr.eq, Bool.and_eq_true, Bool.or_eq_true, beq_iff_eq] at h
  obtain ⟨⟨he, hv⟩, hr⟩ := h
  have hepoch : epochOr0 x.epoch = epochOr0 y.epoch := by
    rcases he with (he | ⟨h1, h2⟩) | ⟨h1, h2⟩
    · rw [he]
    · rw [h1, h2]; rfl
    · rw [h1, h2]; rfl
  simp only [Evr.cmp, ite_ne_eq, hepoch, hv, hr, rustCmp_refl]; rfl

def nevraRef : Nevra → Nevra → Ordering :=
  compareLex (onKey (fun n => key n.name) lexK)
    (compareLex (onKey (fun n => n.evr) evrRef) (onKey (fun n => key n.arch) lexK))

instance : TransCmp nevraRef := by unfold nevraRef; infer_instance
instance : ReflCmp nevraRef := by unfold nevraRef; infer_instance

theorem nevra_cmp_eq_ref (x y : Nevra) : x.cmp y = nevraRef x y := by
  simp only [Nevra.cmp, ite_ne_eq, rustCmp_eq_keyCmp, evr_cmp_eq_ref]; rfl

theorem nevra_refl (x : Nevra) : x.cmp x = .eq := by
  rw [nevra_cmp_eq_ref]; exact ReflCmp.compare_self (cmp := nevraRef)
theorem nevra_swap (x y : Nevra) : y.cmp x = (x.cmp y).swap := by
  rw [nevra_cmp_eq_ref, nevra_cmp_eq_ref]; exact OrientedCmp.eq_swap (cmp := nevraRef)
theorem nevra_trans {x y z : Nevra} (h1 : (x.cmp y).isLE) (h2 : (y.cmp z).isLE) : (x.cmp z).isLE := by
  rw [nevra_cmp_eq_ref] at *; exact TransCmp.isLE_trans (cmp := nevraRef) h1 h2

theorem nevra_eq_cmp_eq (x y : Nevra) (h : x.eq y = true) : x.cmp y = .eq := by
  simp only [Nevra.eq, Bool.and_eq_true, beq_iff_eq] at h
  obtain ⟨⟨hn, he⟩, ha⟩ := h
  simp only [Nevra.cmp, ite_ne_eq, hn, ha, rustCmp_refl, evr_eq_cmp_eq _ _ he]; rfl

/-- A test of the *spec* (labelled as such): the transcription of rpmvercmp agrees with every
`compare_version_string` vector in src/version.rs (taken from rpm's own rpmvercmp.at), regenerated
from the source on every run. Together with `rust_eq_c` this also re-proves those unit tests. -/
theorem vectors_ok : ∀ v ∈ RpmVerif.Gen.vercmpVectors, cVercmp v.1 v.2.1 = v.2.2 := by
  decide +kernel

/-! ### non-vacuity: hypotheses are met by concrete, non-trivial values
(code points written out: string literals do not reduce in the kernel) -/
-- "1.0~rc1" < "1.0" in both functions
example : rustCmp [49,46,48,126,114,99,49] [49,46,48] = .lt ∧ cVercmp [49,46,48,126,114,99,49] [49,46,48] = .lt := by
  decide +kernel
-- "1.0" ≤ "1.0^a" ≤ "1.1": premises of `rustCmp_trans`
example : (rustCmp [49,46,48] [49,46,48,94,97]).isLE ∧ (rustCmp [49,46,48,94,97] [49,46,49]).isLE := by decide +kernel
-- "" epoch equals "0" epoch: premise of `evr_eq_cmp_eq`
example : Evr.eq ⟨[], [49], [50]⟩ ⟨[48], [49], [50]⟩ = true := by decide
-- the UTF-8 encoding of "1.Á" is 31 2e c3 81
example : encode utf8 [49, 46, 193] = [49, 46, 0xC3, 0x81] := by decide
-- "1.1.Á.1" = "1.1.1": a non-ASCII char is a separator
example : rustCmp [49,46,49,46,193,46,49] [49,46,49,46,49] = .eq := by decide +kernel

end RpmVerif.C13
