import RpmVerif.Props.C04
import RpmVerif.Props.C03
import RpmVerif.Props.C02
import RpmVerif.Props.C07
import RpmVerif.Model.Sign
/-!
# C04, second half — every read-side operation on a parsed package is panic-free

Bundles the totality results of the other models (digest verification C03, signature verification C02,
key-id extraction C10's model, payload iteration C07's cpio reader) with the accessor results of
Props/C04.lean: for ANY package value, hash functions, base64 decoder, verifier and signature scheme.
-/
namespace RpmVerif.C04
open RpmVerif.Hdr RpmVerif.Cpio RpmVerif.Sign

theorem readHex8_total (bs : Bytes) : (readHex8 bs).isPanic = false := by
  unfold readHex8
  refine Out.bind_not_panic (takeN_total _ _) (fun x _ => ?_)
  split
  split <;> rfl

/-- `payload::Reader::new` never panics: bad magic, bad hex, over-long or unterminated names, a stripped
index outside the file list are all errors -/
theorem readerNew_total (sizes : List Nat) (bs : Bytes) : (readerNew sizes bs).isPanic = false := by
  unfold readerNew
  repeat (first
    | rfl
    | (refine Out.bind_not_panic (by first | exact takeN_total _ _ | exact readHex8_total _) (fun x _ => ?_))
    | split
    | (dsimp only))

theorem readData_total (n : Nat) (r : Bytes) : (readData n r).isPanic = false := by
  unfold readData
  repeat (first
    | rfl
    | (refine Out.bind_not_panic (by first | exact takeN_total _ _) (fun x _ => ?_))
    | split
    | (dsimp only))

/-- iterating the payload: every item the iterator yields is a value or an error (an entry that names
no file of the header is an error) -/
theorem iterateE_total (paths : List Bytes) (sizes : List Nat) (fuel : Nat) (bs : Bytes) :
    ∀ r ∈ iterateE paths sizes fuel bs, r.isPanic = false := by
  induction fuel generalizing bs with
  | zero => intro r hr; simp [iterateE] at hr
  | succ k ih =>
    intro r hr
    have h1 := readerNew_total sizes bs
    cases hrn : readerNew sizes bs with
    | panic s => rw [hrn] at h1; cases h1
    | err c => simp only [iterateE, hrn, List.mem_cons, List.not_mem_nil, or_false] at hr; subst hr; rfl
    | ok x =>
      obtain ⟨e, fs, r'⟩ := x
      have h2 := readData_total fs r'
      cases ht : isTrailer e with
      | true => simp [iterateE, hrn, ht] at hr
      | false =>
        cases hf : fileIndex paths e with
        | none => simp only [iterateE, hrn, ht, hf] at hr; simp at hr; subst hr; rfl
        | some i =>
          cases hd : readData fs r' with
          | panic s => rw [hd] at h2; cases h2
          | err c => simp only [iterateE, hrn, ht, hf, hd] at hr; simp at hr; subst hr; rfl
          | ok y =>
            obtain ⟨c, r''⟩ := y
            simp only [iterateE, hrn, ht, hf, hd] at hr
            simp only [Bool.false_eq_true, if_false, List.mem_cons] at hr
            rcases hr with rfl | hr
            · rfl
            · exact ih _ r hr

theorem iterate_total (archive : Bytes) (paths : List Bytes) (sizes : List Nat) :
    ∀ r ∈ iterate archive paths sizes, r.isPanic = false := by
  intro r hr
  simp only [iterate, iterateFrom, List.mem_map] at hr
  obtain ⟨x, hx, rfl⟩ := hr
  have := iterateE_total paths sizes _ _ x hx
  cases x <;> simp_all [Out.map, Out.isPanic]

/-- **iterator_no_runaway** — `Package::files()` drained past errors, as `collect()` / `filter_map(Result::ok)` do:
for EVERY behaviour `step` of the payload stream (any decompressor state, any position after an error) a fresh
iterator over a header with `n` file entries hands out at most `n` items before it answers `None`, the draining loop
ends within `n + 1` calls, and from then on every call answers `None` without touching the stream — no unbounded
work or memory on a damaged payload (the class of seeds C04-4 / C04-8, where `count += 1` was moved behind the
read).  Model/FileIter.lean `next`; the in-memory stream of uncompressed payloads is `FileIter.stepMem`, whose item
counts the correspondence run compares (`iter=<items>:<errors>`). -/
theorem iterator_no_runaway {σ : Type} (step : σ → RpmVerif.FileIter.Step σ) (n : Nat) (s : σ) :
    (RpmVerif.FileIter.collect step n s).length ≤ n
    ∧ (∀ fuel, n + 1 ≤ fuel → RpmVerif.FileIter.drain step n fuel ⟨0, s⟩ = RpmVerif.FileIter.collect step n s)
    ∧ (∀ k, ((RpmVerif.FileIter.answers step n k ⟨0, s⟩).filter Option.isSome).length ≤ n)
    ∧ (∀ k, n ≤ k → (RpmVerif.FileIter.next step n (RpmVerif.FileIter.stateAfter step n k ⟨0, s⟩)).1 = none) := by
  refine ⟨RpmVerif.C07.collect_le_entries step n s, fun fuel hf => ?_, fun k => ?_, fun k hk => ?_⟩
  · unfold RpmVerif.FileIter.collect
    rw [(RpmVerif.C07.iterate_terminates step n ⟨0, s⟩).1 fuel (by simp; omega),
        (RpmVerif.C07.iterate_terminates step n ⟨0, s⟩).1 (n + 1) (by simp)]
  · exact (RpmVerif.C07.items_le_entries step n ⟨0, s⟩).2 k
  · exact (RpmVerif.C07.iterate_terminates step n ⟨0, s⟩).2 k (by simp; omega)

theorem stepMem_item_total (paths : List Bytes) (sizes : List Nat) (bs : Bytes) (o : Out RpmVerif.FileIter.Item) (s' : Bytes)
    (h : RpmVerif.FileIter.stepMem paths sizes bs = .item o s') : o.isPanic = false := by
  have hs := RpmVerif.FileIter.stepMem_spec paths sizes bs
  have h1 := readerNew_total sizes bs
  cases hr : readerNew sizes bs with
  | panic p => rw [hr] at h1; cases h1
  | err c => rw [hr] at hs; obtain ⟨s, hs⟩ := hs; rw [hs] at h; cases h; rfl
  | ok x =>
    obtain ⟨e, fs, r⟩ := x
    rw [hr] at hs; dsimp only at hs
    have h2 := readData_total fs r
    cases ht : isTrailer e with
    | true => rw [ht] at hs; simp only [if_true] at hs; rw [hs] at h; cases h
    | false =>
      rw [ht] at hs; simp only [Bool.false_eq_true, if_false] at hs
      cases hf : fileIndex paths e with
      | none => rw [hf] at hs; dsimp only at hs; rw [hs] at h; cases h; rfl
      | some i =>
        rw [hf] at hs; dsimp only at hs
        cases hd : readData fs r with
        | panic p => rw [hd] at h2; cases h2
        | err c => rw [hd] at hs; obtain ⟨s, hs⟩ := hs; rw [hs] at h; cases h; rfl
        | ok y => obtain ⟨c, r'⟩ := y; rw [hd] at hs; dsimp only at hs; rw [hs] at h; cases h; rfl

theorem drain_forall {σ : Type} (step : σ → RpmVerif.FileIter.Step σ) (P : Out RpmVerif.FileIter.Item → Prop)
    (hP : ∀ s o s', step s = .item o s' → P o) (n fuel : Nat) (st : RpmVerif.FileIter.St σ) :
    ∀ o ∈ RpmVerif.FileIter.drain step n fuel st, P o := by
  induction fuel generalizing st with
  | zero => intro o ho; simp [RpmVerif.FileIter.drain] at ho
  | succ k ih =>
    intro o ho
    unfold RpmVerif.FileIter.drain RpmVerif.FileIter.next at ho
    by_cases hc : st.count ≥ n
    · simp [hc] at ho
    · simp only [hc, if_false] at ho
      cases hs : step st.stream with
      | trailer s => rw [hs] at ho; simp at ho
      | item o' s' =>
        rw [hs] at ho
        simp only [List.mem_cons] at ho
        rcases ho with rfl | ho
        · exact hP _ _ _ hs
        · exact ih _ o ho

/-- every item is a value or an error, also the items AFTER an error: the in-memory iteration never panics -/
theorem collectMem_total (archive : Bytes) (paths : List Bytes) (sizes : List Nat) :
    ∀ r ∈ RpmVerif.FileIter.collectMem archive paths sizes, r.isPanic = false := by
  unfold RpmVerif.FileIter.collectMem RpmVerif.FileIter.collect
  exact drain_forall _ _ (fun bs o s' h => stepMem_item_total paths sizes bs o s' h) _ _ _

/-- a header announcing two files over the payload `ff ff`: two error items, then the end -/
example : RpmVerif.FileIter.collectMem [255, 255] [[47, 97], [47, 98]] [1, 1] = [.err "eof", .err "eof"] := by
  decide +kernel

/-- `signature_key_ids` never panics — for an OpenPGP layer whose issuer lists have fewer than 2^32 entries
(`SigScheme.IssuerSmall`): the count handed to `Error::UnexpectedIssuerCount` goes through `usize → u32` with an `unwrap`
(`package.rs:309, 352`; `Sign.issuerCountErr`) -/
theorem oneIssuer_total (S : SigScheme) (hs : S.IssuerSmall) (sig : Bytes) : (oneIssuer S sig).isPanic = false := by
  unfold oneIssuer; split
  · rfl
  · rename_i ids heq
    split
    · unfold issuerCountErr; rw [if_pos (hs _ _ heq)]; rfl
    · rfl

theorem idsAll_total (S : SigScheme) (hs : S.IssuerSmall) (l : List Bytes) : (idsAll S l).isPanic = false := by
  induction l with
  | nil => rfl
  | cons b rest ih =>
    unfold idsAll
    split
    · rfl
    · exact Out.bind_not_panic (oneIssuer_total S hs _) (fun _ _ => Out.bind_not_panic ih (fun _ _ => rfl))

theorem keyIds_total (S : SigScheme) (hs : S.IssuerSmall) (p : Package) : (keyIds S p).isPanic = false := by
  unfold keyIds
  split
  · exact idsAll_total S hs _
  · dsimp only
    split
    · rfl
    · exact oneIssuer_total S hs _

/-- … and the hypothesis is not decoration: an issuer list of 2^32 or more entries makes the `unwrap` panic -/
theorem oneIssuer_u32_overflow (S : SigScheme) (sig : Bytes) (ids : List Bytes) (hi : S.issuer sig = some ids)
    (hbig : 4294967296 ≤ ids.length) : oneIssuer S sig = .panic "issuer-count-u32" := by
  unfold oneIssuer
  rw [hi]
  dsimp only
  rw [if_pos (by omega)]
  unfold issuerCountErr
  rw [if_neg (by omega)]

/-- `IssuerSmall` is satisfiable: the symbolic scheme reports at most one issuer -/
example : (Sym.scheme (fun k => [k])).IssuerSmall := by
  intro b ids h
  simp only [Sym.scheme, Option.map_eq_some_iff] at h
  obtain ⟨k, _, rfl⟩ := h
  simp

/-- **read side, bundled**: on any package value, digest verification, signature verification (any
verifier, stateful or not), key-id extraction and payload iteration end in a value or an error -/
theorem readside_total (H : RpmVerif.DigestSpec.Hashes) (b64 : Bytes → Option Bytes) (v : RpmVerif.Verify.Verifier)
    (S : SigScheme) (hs : S.IssuerSmall) (p : Package) (archive : Bytes) (paths : List Bytes) (sizes : List Nat) :
    (RpmVerif.Digest.verifyDigests H.md5 H.sha1 H.sha256 p).isPanic = false
    ∧ (RpmVerif.Verify.verifySignatureS H.md5 H.sha1 H.sha256 b64 v p).1.isPanic = false
    ∧ (keyIds S p).isPanic = false
    ∧ (∀ r ∈ iterate archive paths sizes, r.isPanic = false)
    ∧ (RpmVerif.Acc.getFileEntries p.md.signature p.md.header).isPanic = false :=
  ⟨RpmVerif.C03.digests_total H p, RpmVerif.C02.verify_total H.md5 H.sha1 H.sha256 b64 v p,
   keyIds_total S hs p, iterate_total archive paths sizes, getFileEntries_total _ _⟩

end RpmVerif.C04
