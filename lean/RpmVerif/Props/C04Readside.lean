import RpmVerif.Props.C04
import RpmVerif.Props.C03
import RpmVerif.Props.C02
import RpmVerif.Props.C07
import RpmVerif.Model.Sign
/-!
# C04, second half — every read-side operation on a parsed package is panic-free

Bundles the totality results of the other models (digest verification C03, signature verification C02,
key-id extraction C10's model, payload iteration C07's cpio reader) with the accessor results of
Props/C04.lean: for ANY package value, hash functions, base64 decoder, verifier and signature scheme.
-/
namespace RpmVerif.C04
open RpmVerif.Hdr RpmVerif.Cpio RpmVerif.Sign

theorem readHex8_total (bs : Bytes) : (readHex8 bs).isPanic = false := by
  unfold readHex8
  refine Out.bind_not_panic (takeN_total _ _) (fun x _ => ?_)
  split
  split <;> rfl

/-- `payload::Reader::new` never panics: bad magic, bad hex, over-long or unterminated names, a stripped
index outside the file list are all errors -/
theorem readerNew_total (sizes : List Nat) (bs : Bytes) : (readerNew sizes bs).isPanic = false := by
  unfold readerNew
  repeat (first
    | rfl
    | (refine Out.bind_not_panic (by first | exact takeN_total _ _ | exact readHex8_total _) (fun x _ => ?_))
    | split
    | (dsimp only))

theorem readData_total (n : Nat) (r : Bytes) : (readData n r).isPanic = false := by
  unfold readData
  repeat (first
    | rfl
    | (refine Out.bind_not_panic (by first | exact takeN_total _ _) (fun x _ => ?_))
    | split
    | (dsimp only))

/-- iterating the payload: every item the iterator yields is a value or an error (an entry that names
no file of the header is an error) -/
theorem iterateE_total (paths : List Bytes) (sizes : List Nat) (fuel : Nat) (bs : Bytes) :
    ∀ r ∈ iterateE paths sizes fuel bs, r.isPanic = false := by
  induction fuel generalizing bs with
  | zero => intro r hr; simp [iterateE] at hr
  | succ k ih =>
    intro r hr
    have h1 := readerNew_total sizes bs
    cases hrn : readerNew sizes bs with
    | panic s => rw [hrn] at h1; cases h1
    | err c => simp only [iterateE, hrn, List.mem_cons, List.not_mem_nil, or_false] at hr; subst hr; rfl
    | ok x =>
      obtain ⟨e, fs, r'⟩ := x
      have h2 := readData_total fs r'
      cases ht : isTrailer e with
      | true => simp [iterateE, hrn, ht] at hr
      | false =>
        cases hf : fileIndex paths e with
        | none => simp only [iterateE, hrn, ht, hf] at hr; simp at hr; subst hr; rfl
        | some i =>
          cases hd : readData fs r' with
          | panic s => rw [hd] at h2; cases h2
          | err c => simp only [iterateE, hrn, ht, hf, hd] at hr; simp at hr; subst hr; rfl
          | ok y =>
            obtain ⟨c, r''⟩ := y
            simp only [iterateE, hrn, ht, hf, hd] at hr
            simp only [Bool.false_eq_true, if_false, List.mem_cons] at hr
            rcases hr with rfl | hr
            · rfl
            · exact ih _ r hr

theorem iterate_total (archive : Bytes) (paths : List Bytes) (sizes : List Nat) :
    ∀ r ∈ iterate archive paths sizes, r.isPanic = false := by
  intro r hr
  simp only [iterate, iterateFrom, List.mem_map] at hr
  obtain ⟨x, hx, rfl⟩ := hr
  have := iterateE_total paths sizes _ _ x hx
  cases x <;> simp_all [Out.map, Out.isPanic]

/-- `signature_key_ids` never panics -/
theorem oneIssuer_total (S : SigScheme) (sig : Bytes) : (oneIssuer S sig).isPanic = false := by
  unfold oneIssuer; split
  · rfl
  · split <;> rfl

theorem idsAll_total (S : SigScheme) (l : List Bytes) : (idsAll S l).isPanic = false := by
  induction l with
  | nil => rfl
  | cons b rest ih =>
    unfold idsAll
    split
    · rfl
    · exact Out.bind_not_panic (oneIssuer_total S _) (fun _ _ => Out.bind_not_panic ih (fun _ _ => rfl))

theorem keyIds_total (S : SigScheme) (p : Package) : (keyIds S p).isPanic = false := by
  unfold keyIds
  split
  · exact idsAll_total S _
  · dsimp only
    split
    · rfl
    · exact oneIssuer_total S _

/-- **read side, bundled**: on any package value, digest verification, signature verification (any
verifier, stateful or not), key-id extraction and payload iteration end in a value or an error -/
theorem readside_total (H : RpmVerif.DigestSpec.Hashes) (b64 : Bytes → Option Bytes) (v : RpmVerif.Verify.Verifier)
    (S : SigScheme) (p : Package) (archive : Bytes) (paths : List Bytes) (sizes : List Nat) :
    (RpmVerif.Digest.verifyDigests H.md5 H.sha1 H.sha256 p).isPanic = false
    ∧ (RpmVerif.Verify.verifySignatureS H.md5 H.sha1 H.sha256 b64 v p).1.isPanic = false
    ∧ (keyIds S p).isPanic = false
    ∧ (∀ r ∈ iterate archive paths sizes, r.isPanic = false)
    ∧ (RpmVerif.Acc.getFileEntries p.md.signature p.md.header).isPanic = false :=
  ⟨RpmVerif.C03.digests_total H p, RpmVerif.C02.verify_total H.md5 H.sha1 H.sha256 b64 v p,
   keyIds_total S p, iterate_total archive paths sizes, getFileEntries_total _ _⟩

end RpmVerif.C04
