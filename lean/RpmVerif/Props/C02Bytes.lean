import RpmVerif.Props.C02
import RpmVerif.Props.C03
import RpmVerif.Props.Pipeline
/-!
# C02, bytes level — the "consequently" clause from the FILE of a library-signed package (AUDIT2 c1, c2)

`Props/C02.lean: tamper_rejected*` speak of two `Package` VALUES with the hypotheses "same signature header" and
"`writeHeader` differs". This file supplies the bridge from bytes, and from the library's own signing:

* `writeHeader_injective`   `Header::write` is injective on well-formed headers (so "the parsed header value differs" and "the
                            re-serialised header bytes differ" are the same thing);
* `take_hdr_offset`, `parse_of_prefix`   a file that agrees with a written package on everything in front of the main header
                            (`get_package_segment_offsets().header`) parses to the same lead and the same signature header;
* `tamper_rejected_value`   value level with "changes what is parsed" literally (`p' ≠ p`): header route (`Binds`) or payload
                            route (the unchanged header records the payload digest; `NoCollision` on the two payloads);
* `tamper_rejected_bytes`   the same from `parsePackage bs'`, for any library-shaped, well-formed, verified `p`, any verifier;
* `signOp_libSigned`        `sign_with_timestamp` installs the `LibSigned` shape; `verify_of_signedSig`: what `verify_signature`
                            does on ANY package carrying such a signature header; `binds_of_scheme`: C10's scheme-level `Binds`
                            gives C02's log-level `Binds` for the verifier object of every key;
* `verify_ok_digests_spec`  "every digest recorded in the package matches" in the words of C03's independent spec (`DigestSpec.Recorded`,
                            `recompute`): `verify_ok_sound` composed with `C03.digests_iff` (AUDIT2 c3);
* `tamper_rejected_build_sign`   all composed at `Pipeline.buildAndSign`: build and sign with key `k`, write, edit anything from
                            the first byte of the main header on so that the file still parses to something else — it verifies
                            with NO key of the scheme. Uses `C10.verifyWith_eq_verifySignatureS` (the two mirrors of
                            `verify_signature` are one function).
-/
namespace RpmVerif.C02
open RpmVerif.Hdr RpmVerif.Gen RpmVerif.Digest RpmVerif.Verify RpmVerif.Sign RpmVerif.Bld RpmVerif.Pipeline

/-- `Header::write` is injective on well-formed headers (every parsed / built header is one): equal bytes, equal value -/
theorem writeHeader_injective {h1 h2 : Header} (w1 : HeaderWF h1) (w2 : HeaderWF h2)
    (e : writeHeader h1 = writeHeader h2) : h1 = h2 := by
  have a := parseHeader_write w1 (res := [0, 0, 0, 0]) rfl []
  have b := parseHeader_write w2 (res := [0, 0, 0, 0]) rfl []
  rw [← writeHeader_eq] at a b
  rw [e, b] at a
  simp only [Out.ok.injEq, Prod.mk.injEq, and_true] at a
  exact a.symm

/-- the first `offsets.hdr` bytes of a written package are its lead and signature header (with padding) -/
theorem take_hdr_offset {p : Package} (wf : MetadataWF p.md) :
    (writePackage p).take (offsets p.md).hdr = writeLead p.md.lead ++ writeSignature p.md.signature := by
  have hl := writeLead_length wf.lead
  have hs := C16.writeSignature_length wf.sig
  have o2 : (offsets p.md).hdr = (writeLead p.md.lead ++ writeSignature p.md.signature).length := by
    simp only [offsets, lds, List.length_append, hl, hs]; omega
  have e2 : writePackage p = (writeLead p.md.lead ++ writeSignature p.md.signature) ++ (writeHeader p.md.header ++ p.content) := by
    simp [writePackage, writeMetadata, List.append_assoc]
  rw [o2, e2, List.take_left]

/-- **an edit behind the signature header leaves lead and signature header as parsed**: if `bs'` agrees with the written
package `p` on the first `offsets.hdr` bytes (everything in front of the main header) and parses, the parsed package
has `p`'s lead and signature header; its main header and content are whatever the rest of `bs'` parses to -/
theorem parse_of_prefix {p : Package} (wf : MetadataWF p.md) {bs' : Bytes} {p' : Package}
    (hpre : bs'.take (offsets p.md).hdr = (writePackage p).take (offsets p.md).hdr)
    (hp : parsePackage bs' = .ok p') :
    p'.md.lead = p.md.lead ∧ p'.md.signature = p.md.signature
      ∧ parseHeader (bs'.drop (offsets p.md).hdr) = .ok (p'.md.header, p'.content) := by
  have hsplit : bs' = writeLead p.md.lead ++ (hdrBytes [0, 0, 0, 0] p.md.signature ++
      List.replicate (sigPad p.md.signature.dataSize) 0 ++ bs'.drop (offsets p.md).hdr) := by
    conv => lhs; rw [← List.take_append_drop (offsets p.md).hdr bs', hpre, take_hdr_offset wf, writeSignature_eq]
    simp only [List.append_assoc]
  generalize bs'.drop (offsets p.md).hdr = tail at hsplit ⊢
  subst hsplit
  simp only [parsePackage, parseMetadata, Out.bind_eq_ok] at hp
  obtain ⟨⟨m, r⟩, ⟨⟨lb, r0⟩, h0, lead, h1, ⟨sig, r1⟩, h2, ⟨hdr, r2⟩, h3, hm⟩, hp⟩ := hp
  dsimp only at h1 h2 h3 hm
  simp only [Out.pure_eq, Out.ok.injEq, Prod.mk.injEq] at hm hp
  obtain ⟨rfl, rfl⟩ := hm
  subst hp
  rw [lds, ← writeLead_length wf.lead, takeN_append] at h0
  simp only [Out.ok.injEq, Prod.mk.injEq] at h0
  obtain ⟨rfl, rfl⟩ := h0
  rw [parseLead_write wf.lead] at h1
  rw [parseSignature_write wf.sig rfl (by simp)] at h2
  simp only [Out.ok.injEq, Prod.mk.injEq] at h1 h2
  obtain ⟨rfl, rfl⟩ := h2
  exact ⟨h1.symm, rfl, h3⟩

section general
variable (md5 sha1 sha256 : Bytes → Bytes) (b64 : Bytes → Option Bytes)

/-- **value level, "changes what is parsed" literally**: `p` library-signed and verified; `p'` has `p`'s lead and signature
header and is a DIFFERENT package value (main header or content differ); both main headers well formed (every parsed
one is). Then `p'` does not verify — by the verifier (`Binds`) when the header differs, by the payload digest the
(then identical) header records when only the content differs. -/
theorem tamper_rejected_value (v : Verifier) (p p' : Package) (l : List Bytes) (a : Nat)
    (hlib : LibSigned p.md.signature) (wh : HeaderWF p.md.header) (wh' : HeaderWF p'.md.header)
    (hlead : p'.md.lead = p.md.lead) (hsig : p'.md.signature = p.md.signature)
    (hl : getStringArray p.md.header IndexTag.RPMTAG_PAYLOADDIGEST = .ok l)
    (ha : getU32 p.md.header IndexTag.RPMTAG_PAYLOADDIGESTALGO = .ok a)
    (hok : (verifySignatureS md5 sha1 sha256 b64 v p).1 = .ok ())
    (hne : p' ≠ p)
    (hb : Binds v (verifySignatureS md5 sha1 sha256 b64 v p).2)
    (hnc : NoCollision sha256 p.content p'.content) :
    (verifySignatureS md5 sha1 sha256 b64 v p').1 ≠ .ok () := by
  by_cases e : writeHeader p'.md.header = writeHeader p.md.header
  · have he : p'.md.header = p.md.header := writeHeader_injective wh' wh e
    have hc : p'.content ≠ p.content := by
      intro hc
      apply hne
      obtain ⟨⟨l1, s1, h1⟩, c1⟩ := p
      obtain ⟨⟨l2, s2, h2⟩, c2⟩ := p'
      simp only at hlead hsig he hc
      rw [hlead, hsig, he, hc]
    exact tamper_rejected_payload md5 sha1 sha256 b64 v v p p' l a a hl ha (he ▸ hl) (he ▸ ha) hok hc hnc
  · exact tamper_rejected md5 sha1 sha256 b64 v p p' hlib hsig hok e (.inr hb)

/-- **bytes level**: `p` library-signed, well formed and verified; `bs'` = the written package with ANY edit behind the
signature header (it agrees with `writePackage p` on the bytes in front of the main header: lead, signature header,
padding) that still parses and changes what is parsed (`p' ≠ p`). Then the parsed `p'` does not verify. -/
theorem tamper_rejected_bytes (v : Verifier) (p : Package) (bs' : Bytes) (p' : Package) (l : List Bytes) (a : Nat)
    (wf : MetadataWF p.md) (hlib : LibSigned p.md.signature)
    (hl : getStringArray p.md.header IndexTag.RPMTAG_PAYLOADDIGEST = .ok l)
    (ha : getU32 p.md.header IndexTag.RPMTAG_PAYLOADDIGESTALGO = .ok a)
    (hok : (verifySignatureS md5 sha1 sha256 b64 v p).1 = .ok ())
    (hb : Binds v (verifySignatureS md5 sha1 sha256 b64 v p).2)
    (hpre : bs'.take (offsets p.md).hdr = (writePackage p).take (offsets p.md).hdr)
    (hp : parsePackage bs' = .ok p') (hne : p' ≠ p)
    (hnc : NoCollision sha256 p.content p'.content) :
    (verifySignatureS md5 sha1 sha256 b64 v p').1 ≠ .ok () := by
  obtain ⟨h1, h2, _⟩ := parse_of_prefix wf hpre hp
  exact tamper_rejected_value md5 sha1 sha256 b64 v p p' l a hlib wf.hdr (C16.parsed_wf hp).hdr h1 h2 hl ha hok hne hb hnc

end general

/-- **success ⇒ every digest the package records matches, in C03's terms**: each record of `DigestSpec.Recorded p` (MD5 / SHA1 /
SHA256 of the signature header, the payload digest with its algorithm) is of a supported kind and equals the value
recomputed from the package (AUDIT2 c3: `verify_ok_sound` concludes `verifyDigests = ok` of the model; this is that
conclusion read through `C03.digests_iff`) -/
theorem verify_ok_digests_spec (H : DigestSpec.Hashes) (b64 : Bytes → Option Bytes) (v : Verifier) (p : Package)
    (h : (verifySignatureS H.md5 H.sha1 H.sha256 b64 v p).1 = .ok ()) :
    ∀ r ∈ DigestSpec.Recorded p, DigestSpec.Supported r.which ∧ r.declared = some (DigestSpec.recompute H p r.which) :=
  (C03.digests_iff H p).mp (verify_ok_sound H.md5 H.sha1 H.sha256 b64 v p h).2.2.2

/-! ### "for a package built and signed by this library": `Sign.signOp` / `Pipeline.buildAndSign` -/
section lib
variable (md5 sha1 sha256 : Bytes → Bytes) {S : SigScheme}

/-- the signature header `sign_with_timestamp` installs has the library shape -/
theorem signOp_libSigned (hl : S.LegacyOk) (k : S.Key) (t : Nat) (p : Package) :
    LibSigned (signOp S sha256 k t p).md.signature :=
  ⟨[S.b64enc (S.sign k (writeHeader p.md.header) t)], shaHex sha256 (writeHeader p.md.header),
    signed_openpgp sha256 hl k t _, by simp, signed_sha256 sha256 hl k t _⟩

/-- `verify_signature` on ANY package that carries the signature header `sign_with_timestamp(k, t)` made for header bytes
`hb0`, once its digests are fine: exactly one consult — that signature, over the package's OWN header bytes -/
theorem verify_of_signedSig (hl : S.LegacyOk) (hb64 : S.B64) (v : Verifier) (k : S.Key) (t : Nat) (hb0 : Bytes) (p : Package)
    (hs : p.md.signature = signedSig S sha256 k t hb0) (hd : verifyDigests md5 sha1 sha256 p = .ok ()) :
    verifySignatureS md5 sha1 sha256 S.b64dec v p =
      (if v [] (writeHeader p.md.header) (S.sign k hb0 t) then .ok () else .err "verify",
        [⟨writeHeader p.md.header, S.sign k hb0 t, v [] (writeHeader p.md.header) (S.sign k hb0 t), false⟩]) := by
  have e : getStringArray p.md.signature SigTag.RPMSIGTAG_OPENPGP = .ok [S.b64enc (S.sign k hb0 t)] := by
    rw [hs]; exact signed_openpgp sha256 hl k t _
  simp only [verifySignatureS, hd, e, List.isEmpty_cons, Bool.false_eq_true, if_false, openpgpLoop, hb64 _, List.nil_append]
  split <;> simp_all

/-- a scheme that `Binds` gives C02's `Binds` for the verifier object of any key, on the log of any such run -/
theorem binds_of_scheme (hl : S.LegacyOk) (hbind : S.Binds) (hb64 : S.B64) (k k' : S.Key) (t : Nat) (p : Package) :
    Binds (verifierOf S k') (verifySignatureS md5 sha1 sha256 S.b64dec (verifierOf S k') (signOp S sha256 k t p)).2 := by
  intro c hc pre d hv
  cases hd : verifyDigests md5 sha1 sha256 (signOp S sha256 k t p) with
  | ok u =>
    rw [verify_of_signedSig md5 sha1 sha256 hl hb64 _ k t _ _ rfl hd] at hc
    simp only [List.mem_singleton] at hc
    subst hc
    exact (hbind _ _ _ _ _ hv).2
  | err e => rw [verify_digest_error_first md5 sha1 sha256 S.b64dec _ _ e hd] at hc; cases hc
  | panic e =>
    have := verifyDigests_not_panic md5 sha1 sha256 (signOp S sha256 k t p)
    rw [hd] at this; cases this

variable (c : Cfg) (now : Nat) (archive payload : Bytes)

/-- **C02's "consequently" clause at the bytes of a package built and signed by the library.** `𝐏 = build_and_sign(k)`
for ANY configuration (valid in C06's sense), clock values, archive and payload, ANY scheme satisfying C10's laws.
Take its written bytes, change ANYTHING from the main header's first byte to the end of the file (insert, delete,
overwrite, truncate, append — `bs'` only has to agree with the file on lead and signature header), such that the result
still parses and what is parsed differs from `𝐏`. Then the parsed package verifies with NO key `k'` — neither the
signer's nor any other. (`NoCollision sha256` on the two payloads is needed for edits that leave the header bytes alone:
the signature covers the header, the header records the payload digest.) -/
theorem tamper_rejected_build_sign (hl : S.LegacyOk) (hc : S.Correct) (hbind : S.Binds) (hb64 : S.B64)
    (v : C06.Valid (mkCtx c now (hexOf sha256 payload) (hexOf sha256 archive)))
    (ok : SigRecsOk S sha256 (writeHeader (C06.hdrOf (mkCtx c now (hexOf sha256 payload) (hexOf sha256 archive)))))
    (now' : Nat) (k : S.Key) (bs' : Bytes) (p' : Package)
    (hpre : bs'.take (offsets (Pipeline.buildAndSign sha256 c now archive payload S now' k).md).hdr =
      (writePackage (Pipeline.buildAndSign sha256 c now archive payload S now' k)).take
        (offsets (Pipeline.buildAndSign sha256 c now archive payload S now' k).md).hdr)
    (hp : parsePackage bs' = .ok p') (hne : p' ≠ Pipeline.buildAndSign sha256 c now archive payload S now' k)
    (hnc : NoCollision sha256 payload p'.content) (k' : S.Key) :
    verifyWith S md5 sha1 sha256 k' p' ≠ .ok () := by
  rw [verifyWith_eq_verifySignatureS]
  have wf : MetadataWF (Pipeline.buildAndSign sha256 c now archive payload S now' k).md :=
    (Pipeline.built_history_reparse sha256 c now archive payload hl v ok [.sign k (clampNow c.sourceDate now')]
      (Pipeline.run_sign S sha256 _ _ _)).1
  by_cases hk : k' = k
  · subst hk
    have hok := (Pipeline.build_sign_verifies md5 sha1 sha256 c now archive payload hl hc hbind hb64 v ok now' k' k').mpr rfl
    rw [verifyWith_eq_verifySignatureS] at hok
    exact tamper_rejected_bytes md5 sha1 sha256 S.b64dec (verifierOf S k') _ bs' p' _ 8 wf
      (signOp_libSigned sha256 hl _ _ _) (C08.payload_digest _) (C08.payload_digest_algo _) hok
      (binds_of_scheme md5 sha1 sha256 hl hbind hb64 _ _ _ _) hpre hp hne hnc
  · obtain ⟨_, hs, _⟩ := parse_of_prefix wf hpre hp
    intro hok'
    cases hd : verifyDigests md5 sha1 sha256 p' with
    | ok u =>
      rw [verify_of_signedSig md5 sha1 sha256 hl hb64 _ k _ _ p' hs hd] at hok'
      simp only at hok'
      split at hok'
      · rename_i hv; exact hk (hbind _ _ _ _ _ hv).1
      · cases hok'
    | err e => rw [verify_digest_error_first md5 sha1 sha256 S.b64dec _ _ e hd] at hok'; cases hok'
    | panic e =>
      have := verifyDigests_not_panic md5 sha1 sha256 p'
      rw [hd] at this; cases this

end lib

/-! ## non-vacuity -/
section examples
open RpmVerif.Sign.Sym

example : writeHeader_injective C16.empty_wf C16.empty_wf rfl = rfl := rfl

/-- the package `build_and_sign(key 2)` returns at Pipeline's sample configuration -/
def sSigned : Package := buildAndSign C10.tSha256 C06.sampleCfg sNow sArchive sPayload C10.T 1700000200 (2 : UInt8)

theorem sSigned_wf : MetadataWF sSigned.md :=
  (built_history_reparse C10.tSha256 C06.sampleCfg sNow sArchive sPayload (legacyOk C10.ids) s_valid s_recs
    [.sign (2 : UInt8) (clampNow C06.sampleCfg.sourceDate 1700000200)] (run_sign C10.T C10.tSha256 _ _ _)).1

/-- an edit in the PAYLOAD region: one byte appended to the file -/
def sAppended : Package := ⟨sSigned.md, sSigned.content ++ [0]⟩
/-- an edit in the HEADER region: the main header replaced by an empty one (16 bytes) -/
def sNoHeader : Package := ⟨⟨sSigned.md.lead, sSigned.md.signature, Header.empty⟩, sSigned.content⟩

theorem same_prefix (q : Package) (wfq : MetadataWF q.md) (hl : q.md.lead = sSigned.md.lead)
    (hs : q.md.signature = sSigned.md.signature) :
    (writePackage q).take (offsets sSigned.md).hdr = (writePackage sSigned).take (offsets sSigned.md).hdr := by
  have e : (offsets sSigned.md).hdr = (offsets q.md).hdr := by simp only [offsets, hs]
  rw [take_hdr_offset sSigned_wf, e, take_hdr_offset wfq, hl, hs]

/-- every hypothesis of `tamper_rejected_build_sign` holds for the appended byte (digest route: the toy SHA-256 tells the
two payloads apart by their length) … -/
example (k' : UInt8) : verifyWith C10.T C10.tMd5 C10.tSha1 C10.tSha256 k' sAppended ≠ .ok () :=
  tamper_rejected_build_sign C10.tMd5 C10.tSha1 C10.tSha256 C06.sampleCfg sNow sArchive sPayload (legacyOk C10.ids)
    (correct C10.ids) (binds C10.ids) (b64 C10.ids) s_valid s_recs 1700000200 (2 : UInt8) (writePackage sAppended) sAppended
    (same_prefix sAppended sSigned_wf rfl rfl) (C10.writeParse_id (p := sAppended) sSigned_wf)
    (show sAppended ≠ sSigned from fun h => by
      have := congrArg (·.content.length) h
      simp only [sAppended, List.length_append, List.length_cons, List.length_nil] at this
      omega)
    (fun _ => by show C10.tSha256 sPayload ≠ C10.tSha256 (sPayload ++ [0]); decide +kernel) k'

/-- … and for the replaced main header (verifier route: the signature was made for other header bytes) -/
example (k' : UInt8) : verifyWith C10.T C10.tMd5 C10.tSha1 C10.tSha256 k' sNoHeader ≠ .ok () :=
  tamper_rejected_build_sign C10.tMd5 C10.tSha1 C10.tSha256 C06.sampleCfg sNow sArchive sPayload (legacyOk C10.ids)
    (correct C10.ids) (binds C10.ids) (b64 C10.ids) s_valid s_recs 1700000200 (2 : UInt8) (writePackage sNoHeader) sNoHeader
    (same_prefix sNoHeader ⟨sSigned_wf.lead, sSigned_wf.sig, C16.empty_wf⟩ rfl rfl)
    (C10.writeParse_id (p := sNoHeader) ⟨sSigned_wf.lead, sSigned_wf.sig, C16.empty_wf⟩)
    (show sNoHeader ≠ sSigned from fun h => by
      have := congrArg (·.md.header.nEntries) h
      exact absurd this.symm (Nat.succ_ne_zero _))
    (fun h => absurd rfl h) k'

/-- the unedited file is NOT covered (its `hne` fails), and it verifies: the theorem's hypothesis `p' ≠ 𝐏` is needed -/
example : verifyWith C10.T C10.tMd5 C10.tSha1 C10.tSha256 (2 : UInt8) sSigned = .ok () :=
  (build_sign_verifies C10.tMd5 C10.tSha1 C10.tSha256 C06.sampleCfg sNow sArchive sPayload (legacyOk C10.ids) (correct C10.ids)
    (binds C10.ids) (b64 C10.ids) s_valid s_recs 1700000200 (2 : UInt8) (2 : UInt8)).mpr rfl

/-- `verify_ok_digests_spec` at the signed sample: its hypothesis holds (key 2 verifies) -/
example := verify_ok_digests_spec ⟨C10.tMd5, C10.tSha1, C10.tSha256⟩ C10.T.b64dec (verifierOf C10.T (2 : UInt8)) sSigned
  (by
    have h := (build_sign_verifies C10.tMd5 C10.tSha1 C10.tSha256 C06.sampleCfg sNow sArchive sPayload (legacyOk C10.ids)
      (correct C10.ids) (binds C10.ids) (b64 C10.ids) s_valid s_recs 1700000200 (2 : UInt8) (2 : UInt8)).mpr rfl
    exact (Sign.verifyWith_eq_verifySignatureS C10.T C10.tMd5 C10.tSha1 C10.tSha256 (2 : UInt8) sSigned).symm.trans h)

/-- `parse_of_prefix`, `tamper_rejected_bytes` and `tamper_rejected_value` with a stateful verifier are instantiated inside
`tamper_rejected_build_sign`; the general forms apply to C02's toy package as well -/
example : LibSigned (signOp C10.T C10.tSha256 (2 : UInt8) 5 C10.p0).md.signature :=
  signOp_libSigned C10.tSha256 (legacyOk C10.ids) _ _ _

end examples
end RpmVerif.C02
